(* Property C18 — time-driven controllers never act early, twice, or on live jobs.
   Property theorems only; each is closed by [exact] of a lemma proved in
   C18/Lemmas.v and followed by its assumptions.  Time is Z nanoseconds.
   [next] stands for cron.Schedule.Next; what is assumed about it is spelled
   out in every statement (never an axiom). *)
From Coq Require Import ZArith List.
From V Require Import C18.Model C18.Laws C18.Lemmas.
Import ListNotations.
Open Scope Z_scope.

(* ---------------- garbage collector ---------------- *)

(* for ALL TTLs, finish times and clock readings (finish > now included):
   a Delete is issued only for the freshly read object, which is finished,
   has a TTL, carries no deletion timestamp and finish + ttl <= now at the
   second reading; the UID precondition is that object's UID *)
Theorem C18_gc_only_when_due : forall lj fresh now1 now2 uid,
  go_delete (process_job lj fresh now1 now2) = Some uid ->
  exists j f, lj = Some j /\ fresh = Some f /\ gc_due j now1 /\ gc_due f now2 /\ uid = g_uid f /\
              go_requeues (process_job lj fresh now1 now2) = [] /\
              go_err (process_job lj fresh now1 now2) = false.
Proof. exact gc_only_when_due. Qed.
Print Assumptions C18_gc_only_when_due.

Theorem C18_gc_requeue_exact : forall j fresh now1 now2 ttl fin,
  finished (g_phase j) = true -> g_deleting j = false ->
  g_ttl j = Some ttl -> g_finish j = Some fin -> now1 < fin + ttl * sec ->
  process_job (Some j) fresh now1 now2 = mkGcOut [fin + ttl * sec - now1] None false.
Proof. exact gc_requeue_exact. Qed.
Print Assumptions C18_gc_requeue_exact.

Theorem C18_gc_requeue_exact_fresh : forall j f now1 now2 ttl fin,
  gc_due j now1 ->
  finished (g_phase f) = true -> g_deleting f = false ->
  g_ttl f = Some ttl -> g_finish f = Some fin -> now2 < fin + ttl * sec ->
  process_job (Some j) (Some f) now1 now2 = mkGcOut [fin + ttl * sec - now2] None false.
Proof. exact gc_requeue_exact_fresh. Qed.
Print Assumptions C18_gc_requeue_exact_fresh.

Theorem C18_gc_boundary : forall j now ttl fin,
  finished (g_phase j) = true -> g_deleting j = false ->
  g_ttl j = Some ttl -> g_finish j = Some fin ->
  (process_ttl j now = TtlExpired <-> fin + ttl * sec <= now).
Proof. exact gc_boundary. Qed.
Print Assumptions C18_gc_boundary.

Theorem C18_gc_ignores_live : forall j fresh now1 now2,
  finished (g_phase j) = false \/ g_ttl j = None \/ g_deleting j = true ->
  process_job (Some j) fresh now1 now2 = gc_nothing.
Proof. exact gc_ignores_live. Qed.
Print Assumptions C18_gc_ignores_live.

(* the finish time is the recorded status.state.lastTransitionTime, never the
   creation time; without it nothing is collected and an error is returned *)
Theorem C18_gc_creation_irrelevant : forall lj fresh now1 now2 c1 c2,
  let recreate c (j : gjob) := mkGjob (g_uid j) (g_phase j) (g_ttl j) (g_deleting j) (g_finish j) c in
  process_job (option_map (recreate c1) lj) (option_map (recreate c2) fresh) now1 now2 =
  process_job lj fresh now1 now2.
Proof. exact gc_creation_irrelevant. Qed.
Print Assumptions C18_gc_creation_irrelevant.

(* clause "only the job instance that was checked is deleted": the UID put in
   the Delete precondition is the freshly read copy's, whatever UID the lister's
   (possibly recreated-under-the-same-name) copy carries.  What the API server
   does with the precondition is outside the model. *)
Theorem C18_gc_uid_is_the_fresh_copys : forall lj fresh now1 now2 u,
  let relabel (j : gjob) := mkGjob u (g_phase j) (g_ttl j) (g_deleting j) (g_finish j) (g_created j) in
  process_job (option_map relabel lj) fresh now1 now2 = process_job lj fresh now1 now2.
Proof. exact gc_uid_is_the_fresh_copys. Qed.
Print Assumptions C18_gc_uid_is_the_fresh_copys.

Theorem C18_gc_no_finish_time_never_collected : forall lj f now1 now2,
  g_finish f = None ->
  go_delete (process_job lj (Some f) now1 now2) = None.
Proof. exact gc_no_finish_time_never_collected. Qed.
Print Assumptions C18_gc_no_finish_time_never_collected.

Theorem C18_gc_no_finish_time_error : forall j fresh now1 now2,
  finished (g_phase j) = true -> g_deleting j = false -> g_ttl j <> None -> g_finish j = None ->
  process_job (Some j) fresh now1 now2 = mkGcOut [] None true.
Proof. exact gc_no_finish_time_error. Qed.
Print Assumptions C18_gc_no_finish_time_error.

Theorem C18_gc_no_finish_time_error_fresh : forall j f now1 now2,
  gc_due j now1 ->
  finished (g_phase f) = true -> g_deleting f = false -> g_ttl f <> None -> g_finish f = None ->
  process_job (Some j) (Some f) now1 now2 = mkGcOut [] None true.
Proof. exact gc_no_finish_time_error_fresh. Qed.
Print Assumptions C18_gc_no_finish_time_error_fresh.

(* ---------------- cron: the schedule choice ---------------- *)

(* [next] stands for cron.Schedule.Next.  Its hypotheses are required only for
   arguments up to an instant [hi] that bounds the earliest time and now: a
   finite schedule table and robfig/cron (which gives up after five years and
   then answers the zero time) satisfy them on such a window, not for all t.
   [sched next hi s]: s is a schedule point, i.e. an answer of next on the window. *)

(* every creation / last-schedule time, deadline and now below hi: a chosen time
   is a schedule point, after the earliest time, not after now, and no schedule
   point lies in (t, now] *)
Theorem C18_cron_choice_sound : forall (next : Z -> Z) (hi : Z),
  (forall t, t <= hi -> t < next t) ->
  (forall t s, t <= hi -> sched next hi s -> t < s -> next t <= s) ->
  (forall t, t <= hi -> exists k, next t = k * sec) ->
  forall fuel created last deadline now t,
  earliest_time created last deadline now true <= hi -> now <= hi ->
  next_schedule_time next fuel created last deadline now = NsOk (Some t) ->
  let e := earliest_time created last deadline now true in
  sched next hi t /\ e < t /\ t <= now /\ (forall s, sched next hi s -> t < s -> now < s).
Proof. exact cron_choice_sound. Qed.
Print Assumptions C18_cron_choice_sound.

(* constant-period schedules: whenever an unmet schedule point exists, one is
   chosen (two loop iterations suffice) *)
Theorem C18_cron_choice_complete_regular : forall (next : Z -> Z) (hi : Z),
  (forall t s, t <= hi -> sched next hi s -> t < s -> next t <= s) ->
  forall p, 0 < p -> (forall s, s <= hi -> sched next hi s -> next s = s + p * sec) ->
  forall fuel created last deadline now, (2 <= fuel)%nat ->
  let e := earliest_time created last deadline now true in
  e <= hi -> now <= hi ->
  (exists s, sched next hi s /\ e < s /\ s <= now) ->
  exists t, next_schedule_time next fuel created last deadline now = NsOk (Some t).
Proof. exact cron_choice_complete_regular. Qed.
Print Assumptions C18_cron_choice_complete_regular.

(* irregular schedules: completeness does NOT hold (upstream behaviour; a
   missed start, not an early or duplicate one) - even with the hypotheses for all t *)
Theorem C18_cron_complete_refuted :
  exists next, (forall t, t < next t) /\ (forall hi t s, sched next hi s -> t < s -> next t <= s) /\
               (forall t, exists k, next t = k * sec) /\
  exists fuel created last deadline now,
    (exists s, sched next now s /\ earliest_time created last deadline now true < s /\ s <= now) /\
    next_schedule_time next fuel created last deadline now = NsOk None.
Proof. exact cron_complete_refuted. Qed.
Print Assumptions C18_cron_complete_refuted.

(* the loop fuel that suffices in general: one step per second of the window *)
Theorem C18_cron_fuel_enough : forall (next : Z -> Z) (hi : Z),
  (forall t, t <= hi -> t < next t) ->
  (forall t, t <= hi -> exists k, next t = k * sec) ->
  forall fuel created last deadline now incl,
  earliest_time created last deadline now incl <= hi -> now <= hi ->
  (Z.to_nat ((now - earliest_time created last deadline now incl) / sec + 1) <= fuel)%nat ->
  snd (most_recent next fuel created last deadline now incl) <> MrFuel.
Proof. exact most_recent_fuel_enough. Qed.
Print Assumptions C18_cron_fuel_enough.

(* the schedule the correspondence runs with - a table of whole-second points,
   strictly increasing, reaching beyond hi - meets all three hypotheses on the window *)
Theorem C18_cron_table_meets_hypotheses : forall tbl hi, tbl_ok tbl -> (exists p, In p tbl /\ hi < p) ->
  (forall t, t <= hi -> t < next_tbl tbl t) /\
  (forall t s, t <= hi -> sched (next_tbl tbl) hi s -> t < s -> next_tbl tbl t <= s) /\
  (forall t, t <= hi -> exists k, next_tbl tbl t = k * sec).
Proof. exact next_tbl_window. Qed.
Print Assumptions C18_cron_table_meets_hypotheses.

(* ---------------- cron: the controller over histories ---------------- *)

(* every history of reconciles at arbitrary instants <= hi (a fortiori at
   non-decreasing ones) that each read the status the previous one wrote,
   interleaved with job completions, deletions, foreign creations, suspend,
   policy, deadline and history-limit edits: the schedule times for which a
   Create succeeded are strictly increasing from the initial lastScheduleTime,
   hence each schedule point starts at most one job *)
Theorem C18_cron_created_increasing : forall (next : Z -> Z) (lenient : bool) (hi : Z),
  (forall t, t <= hi -> t < next t) -> (forall t, t <= hi -> exists k, next t = k * sec) ->
  forall fuel ops s s' outs,
  run next lenient fuel s ops = (s', outs) -> state_ok s -> bounded hi s -> Forall (op_ok hi) ops ->
  Forall (fun o => o_err o <> E_FUEL) outs ->
  increasing_from (st_last (s_status s)) (created_times outs).
Proof. exact run_created_increasing. Qed.
Print Assumptions C18_cron_created_increasing.

Theorem C18_cron_at_most_once : forall (next : Z -> Z) (lenient : bool) (hi : Z),
  (forall t, t <= hi -> t < next t) -> (forall t, t <= hi -> exists k, next t = k * sec) ->
  forall fuel ops s s' outs,
  run next lenient fuel s ops = (s', outs) -> state_ok s -> bounded hi s -> Forall (op_ok hi) ops ->
  Forall (fun o => o_err o <> E_FUEL) outs ->
  NoDup (created_times outs).
Proof. exact cron_at_most_once. Qed.
Print Assumptions C18_cron_at_most_once.

(* the same for exactly what the correspondence executes: a schedule table
   reaching beyond hi and the entry point's fuel - no hypothesis about next or
   about fuel is left *)
Theorem C18_cron_at_most_once_table : forall tbl lenient hi ops s s' outs,
  tbl_ok tbl -> (exists p, In p tbl /\ hi < p) ->
  run (next_tbl tbl) lenient (S (S (S (length tbl)))) s ops = (s', outs) ->
  state_ok s -> bounded hi s -> Forall (op_ok hi) ops ->
  NoDup (created_times outs).
Proof. exact cron_at_most_once_tbl. Qed.
Print Assumptions C18_cron_at_most_once_table.

(* and for "@every d" (d whole seconds), whose Next has no fixed points *)
Theorem C18_cron_at_most_once_every : forall k lenient fuel ops s s' outs hi,
  1 <= k ->
  run (next_every (k * sec)) lenient fuel s ops = (s', outs) -> state_ok s -> bounded hi s -> Forall (op_ok hi) ops ->
  Forall (fun o => o_err o <> E_FUEL) outs ->
  NoDup (created_times outs).
Proof. exact cron_at_most_once_every. Qed.
Print Assumptions C18_cron_at_most_once_every.

(* STALE READS AND LOST STATUS WRITES (sync reads the informer cache and
   swallows a failed UpdateStatus): over every history in which reconciles may
   start from an arbitrary status and their write-back may be lost, the server
   never holds two jobs of one name (= of one schedule minute) ... *)
Theorem C18_cron_stale_one_job_per_name : forall next lenient fuel ops s s' outs,
  run2 next lenient fuel s ops = (s', outs) -> names_unique (s_jobs s) -> names_unique (s_jobs s').
Proof. exact cron_stale_one_job_per_name. Qed.
Print Assumptions C18_cron_stale_one_job_per_name.

(* ... because a Create succeeds only when no job of that name is on the server
   at that moment, whatever status the reconcile started from ... *)
Theorem C18_cron_create_needs_free_name :
  forall next lenient fuel spec now hd fc t st1 jobs1 uid upd1 rd st' jobs' uid' o nm t',
  create_job next lenient fuel spec now hd fc t st1 jobs1 uid upd1 rd = (st', jobs', uid', o) ->
  In (nm, t') (o_creates o) ->
  nm = job_name_of t /\ t' = t /\ find_job jobs1 nm = None /\
  jobs' = insert_job (mkJob nm uid OwnThis PhOther (Some now) None) jobs1.
Proof. exact cron_create_needs_free_name. Qed.
Print Assumptions C18_cron_create_needs_free_name.

(* ... but "each schedule time starts at most one job" is FALSE there: after a
   lost status write the job of T can finish, be removed by the history limit,
   and T is started again (reproduced on the real code: known finding) *)
Theorem C18_cron_at_most_once_lost_write_refuted :
  exists (s : cstate) (ops : list op2),
    state_ok s /\ names_unique (s_jobs s) /\
    let '(_, outs) := run2 next_pairs false 10 s ops in
    created_times outs = [100 * sec; 100 * sec] /\ Forall (fun o => o_err o <> E_FUEL) outs.
Proof. exact cron_at_most_once_lost_write_refuted. Qed.
Print Assumptions C18_cron_at_most_once_lost_write_refuted.

(* one reconcile that reads the written status: what is started is after the
   previous run and after the earliest time, not after now, recorded as
   lastScheduleTime; never while suspended; under Forbid the new job is the
   only active one afterwards; history deletes hit finished runs of this CronJob only *)
Theorem C18_cron_reconcile : forall (next : Z -> Z) (lenient : bool) (hi : Z),
  (forall t, t <= hi -> t < next t) -> (forall t, t <= hi -> exists k, next t = k * sec) ->
  forall fuel s now fc s' o,
  reconcile next lenient fuel s now fc = (s', o) -> state_ok s -> o_err o <> E_FUEL ->
  bounded hi s -> now <= hi ->
  state_ok s' /\ bounded hi s' /\ s_spec s' = s_spec s /\
  last_le (st_last (s_status s)) (st_last (s_status s')) /\
  Forall (is_hist_victim (s_jobs s)) (o_hist_deletes o) /\
  (o_creates o = [] \/
   exists t, starts o t /\ last_lt (st_last (s_status s)) t /\ t <= now /\
             earliest_time (c_created (s_spec s)) (st_last (s_status s)) (c_deadline (s_spec s)) now true < t /\
             st_last (s_status s') = Some t /\
             c_suspend (s_spec s) = false /\
             (c_policy (s_spec s) = Forbid ->
              st_active (s_status s') = [mkRef (job_name_of t) (s_next_uid s)])).
Proof. exact reconcile_spec. Qed.
Print Assumptions C18_cron_reconcile.

(* the start time of a reconcile IS the latest schedule point not after now *)
Theorem C18_cron_reconcile_starts_latest : forall (next : Z -> Z) (lenient : bool) (hi : Z),
  (forall t, t <= hi -> t < next t) ->
  (forall t s, t <= hi -> sched next hi s -> t < s -> next t <= s) ->
  (forall t, t <= hi -> exists k, next t = k * sec) ->
  forall fuel s now fc s' o t,
  reconcile next lenient fuel s now fc = (s', o) -> state_ok s -> bounded hi s -> now <= hi ->
  starts o t ->
  sched next hi t /\ (forall p, sched next hi p -> t < p -> now < p) /\
  earliest_time (c_created (s_spec s)) (st_last (s_status s)) (c_deadline (s_spec s)) now true < t /\ t <= now.
Proof. exact cron_reconcile_starts_latest. Qed.
Print Assumptions C18_cron_reconcile_starts_latest.

Theorem C18_cron_respects_suspend : forall (next : Z -> Z) (lenient : bool) fuel s now fc s' o,
  reconcile next lenient fuel s now fc = (s', o) -> c_suspend (s_spec s) = true -> o_creates o = [].
Proof. exact cron_respects_suspend. Qed.
Print Assumptions C18_cron_respects_suspend.

(* Forbid, as the code sees it: no start while status.active (after the clean-up) is not empty *)
Theorem C18_cron_forbid : forall (next : Z -> Z) (lenient : bool)
    fuel spec st jobs uid now fc upd0 hd st' jobs' uid' o,
  decide next lenient fuel spec st jobs uid now fc upd0 hd = (st', jobs', uid', o) ->
  c_policy spec = Forbid -> st_active st <> [] -> o_creates o = [].
Proof. exact cron_forbid. Qed.
Print Assumptions C18_cron_forbid.

(* Forbid against a live run: whatever status the reconcile starts from (fresh
   or stale), a reference to an unfinished job of this CronJob that is on the
   server blocks the start (the clean-up cannot drop it) *)
Theorem C18_cron_forbid_live : forall next lenient fuel s st_in ok now fc s' o r j,
  reconcile_from next lenient fuel s st_in ok now fc = (s', o) ->
  c_policy (s_spec s) = Forbid -> uids_unique (s_jobs s) ->
  In r (st_active st_in) -> In j (s_jobs s) -> j_owner j = OwnThis -> finished (j_phase j) = false ->
  j_uid j = r_uid r ->
  o_creates o = [].
Proof. exact cron_forbid_live. Qed.
Print Assumptions C18_cron_forbid_live.

(* Forbid over histories, live-run form: in every history of fresh reconciles
   and environment events other than planting an unfinished job of this CronJob
   behind the controller's back or reviving a finished one, no orphan ever
   exists (inv_live), hence a reconcile under Forbid starts a job only when NO
   unfinished job of this CronJob is on the server *)
Theorem C18_cron_forbid_no_live_run : forall next lenient fuel pre s0 s1 outs1 now fc s2 o,
  inv_live s0 -> Forall op_no_orphan pre ->
  run next lenient fuel s0 pre = (s1, outs1) -> Forall (fun o => o_err o <> E_FUEL) outs1 ->
  reconcile next lenient fuel s1 now fc = (s2, o) -> o_err o <> E_FUEL ->
  c_policy (s_spec s1) = Forbid -> o_creates o <> [] ->
  forall j, In j (s_jobs s1) -> ~ live j.
Proof. exact cron_forbid_no_live_run. Qed.
Print Assumptions C18_cron_forbid_no_live_run.

(* ... and Forbid is NOT kept once the controller's view is stale.  (a) job-lister
   lag: getJobsByCronJob and the active-reference look-up read the informer
   (handler 164, 266; upstream does a live GET): a reconcile whose lister does
   not show the run just started drops its reference, and the next schedule
   point starts a second run next to it - every status write succeeding.
   (b) lost status write: the run was never recorded.  Both reproduced on the
   real syncCronJob (known findings C18/forbid-job-lister-lag, C18/lost-status-write). *)
Theorem C18_cron_forbid_lister_lag_refuted :
  exists (s : cstate) (ops : list op2),
    state_ok s /\ c_policy (s_spec s) = Forbid /\
    let '(s', outs) := run2 next_pairs false 10 s ops in
    created_times outs = [100 * sec; 200 * sec] /\
    length (live_owned (s_jobs s')) = 2%nat /\ Forall (fun o => o_err o <> E_FUEL) outs.
Proof. exact cron_forbid_lister_lag_refuted. Qed.
Print Assumptions C18_cron_forbid_lister_lag_refuted.

Theorem C18_cron_forbid_lost_write_refuted :
  exists (s : cstate) (ops : list op2),
    state_ok s /\ c_policy (s_spec s) = Forbid /\
    let '(s', outs) := run2 next_pairs false 10 s ops in
    created_times outs = [100 * sec; 200 * sec] /\
    length (live_owned (s_jobs s')) = 2%nat /\ Forall (fun o => o_err o <> E_FUEL) outs.
Proof. exact cron_forbid_lost_write_refuted. Qed.
Print Assumptions C18_cron_forbid_lost_write_refuted.

(* adoption by name (for a job client that can fetch the conflicting job, i.e.
   ignores the empty namespace - against a real API server the branch ends in an
   error, finding 3): createJob hits AlreadyExists on an unfinished job of this
   CronJob that the job client can fetch: nothing is created and the job is
   referenced in status.active afterwards (so C18_cron_forbid_live applies at
   the next schedule point); unless it was referenced already, lastScheduleTime
   is set and the update requested.  Foreign or finished conflicting jobs are
   report-only. *)
Theorem C18_cron_adoption : forall next fuel spec now hd t st1 jobs1 uid upd1 rd st' jobs' uid' o ex,
  create_job next true fuel spec now hd false t st1 jobs1 uid upd1 rd = (st', jobs', uid', o) ->
  find_job jobs1 (job_name_of t) = Some ex -> j_owner ex = OwnThis -> finished (j_phase ex) = false ->
  o_creates o = [] /\ jobs' = jobs1 /\
  In (mkRef (job_name_of t) (j_uid ex)) (st_active st') \/
  (o_creates o = [] /\ jobs' = jobs1 /\ in_active (st_active st1) (j_uid ex) = true /\ st_active st' = st_active st1).
Proof. exact cron_adoption. Qed.
Print Assumptions C18_cron_adoption.

Theorem C18_cron_adoption_records : forall next fuel spec now hd t st1 jobs1 uid upd1 rd st' jobs' uid' o ex,
  create_job next true fuel spec now hd false t st1 jobs1 uid upd1 rd = (st', jobs', uid', o) ->
  find_job jobs1 (job_name_of t) = Some ex -> j_owner ex = OwnThis -> finished (j_phase ex) = false ->
  in_active (st_active st1) (j_uid ex) = false ->
  st_last st' = Some t /\ o_upd o = true /\ (o_err o = E_OK \/ o_err o = E_FUEL) /\ o_status o = st'.
Proof. exact cron_adoption_records. Qed.
Print Assumptions C18_cron_adoption_records.

Theorem C18_cron_conflict_foreign : forall next lenient fuel spec now hd t st1 jobs1 uid upd1 rd st' jobs' uid' o ex,
  create_job next lenient fuel spec now hd false t st1 jobs1 uid upd1 rd = (st', jobs', uid', o) ->
  find_job jobs1 (job_name_of t) = Some ex -> (j_owner ex <> OwnThis \/ finished (j_phase ex) = true) ->
  o_creates o = [] /\ st' = st1 /\ jobs' = jobs1.
Proof. exact cron_conflict_foreign. Qed.
Print Assumptions C18_cron_conflict_foreign.

Theorem C18_history_deletes_finished_only : forall next lenient fuel s now fc s' o,
  reconcile next lenient fuel s now fc = (s', o) ->
  Forall (is_hist_victim (s_jobs s)) (o_hist_deletes o).
Proof. exact history_deletes_finished_only. Qed.
Print Assumptions C18_history_deletes_finished_only.

(* ---------------- cron: the zone the schedule is evaluated in ---------------- *)

(* formatSchedule / validateTZandSchedule against a specification written
   without them (zone_spec: embedded zone, else spec.timeZone if it loads, else
   the controller's zone), for every schedule kind.  The model sees a schedule
   string only as (grammar kind, embedded zone); that the real strings are
   evaluated in that zone is what harness laws 110-112 check against the
   harness's own evaluation. *)
Theorem C18_cron_zone_meets_spec : forall tz s z, zone_used tz s = z <-> zone_spec tz s z.
Proof. exact cron_zone_meets_spec. Qed.
Print Assumptions C18_cron_zone_meets_spec.

Theorem C18_cron_invalid_zone_no_start : forall next lenient fuel s now fc s' o,
  reconcile next lenient fuel s now fc = (s', o) -> c_tz_ok (s_spec s) = false -> o_creates o = [].
Proof. exact cron_invalid_zone_no_start. Qed.
Print Assumptions C18_cron_invalid_zone_no_start.

(* ---------------- what the executable laws mean ---------------- *)

Theorem C18_law_choice_sound : forall tbl created last deadline now t,
  Laws.law_choice tbl created last deadline now (Some t) = true ->
  In t tbl /\ earliest_time created last deadline now true < t /\ t <= now /\
  forall p, In p tbl -> t < p -> now < p.
Proof. exact law_choice_sound. Qed.
Print Assumptions C18_law_choice_sound.

Theorem C18_law_table_sound : forall tbl qs, Laws.law_table tbl qs = true -> tbl <> [] ->
  tbl_ok tbl /\ forall a r, In (a, r) qs -> a < r /\ r = next_tbl tbl a.
Proof. exact law_table_sound. Qed.
Print Assumptions C18_law_table_sound.

Theorem C18_law_reconcile_sound : forall tbl o, Laws.law_reconcile tbl o = true ->
  (c_suspend (Laws.b_spec o) = true -> Laws.b_creates o = []) /\
  (c_tz_ok (Laws.b_spec o) = false -> Laws.b_creates o = []) /\
  (length (Laws.b_creates o) <= 1)%nat /\
  (forall nm t, In (nm, t) (Laws.b_creates o) ->
     In t tbl /\
     earliest_time (c_created (Laws.b_spec o)) (Laws.b_last o) (c_deadline (Laws.b_spec o)) (Laws.b_now o) true < t /\
     t <= Laws.b_now o /\ (forall p, In p tbl -> t < p -> Laws.b_now o < p) /\
     nm = job_name_of t /\ last_lt (Laws.b_last o) t) /\
  Laws.law_adoption o = true.
Proof. exact law_reconcile_sound. Qed.
Print Assumptions C18_law_reconcile_sound.

(* law 123 (clause 7 on observed behaviour): a Delete issued by the history limits hits a
   finished run of this CronJob on the API server *)
Theorem C18_law_deletes_sound : forall o nm, Laws.law_deletes o = true -> In (nm, false) (Laws.b_deletes o) ->
  forall j, find_job (Laws.b_jobs o) nm = Some j -> j_owner j = OwnThis /\ finished (j_phase j) = true.
Proof. exact law_deletes_sound. Qed.
Print Assumptions C18_law_deletes_sound.

(* law 122: under Forbid a Create happens only when no run this controller
   started / adopted / was handed is still unfinished on the API server *)
Theorem C18_law_forbid_live_sound : forall o, Laws.law_forbid_live o = true ->
  c_policy (Laws.b_spec o) = Forbid -> Laws.b_creates o <> [] ->
  (forall j, In j (Laws.b_jobs o) -> j_owner j = OwnThis -> finished (j_phase j) = false ->
             In (j_uid j) (Laws.b_known o) -> In (j_name j) (map fst (Laws.b_deletes o))) /\
  (forall r j, In r (Laws.b_active o) -> find_job (Laws.b_jobs o) (r_name r) = Some j -> j_uid j = r_uid r ->
               finished (j_phase j) = true \/ In (r_name r) (map fst (Laws.b_deletes o))).
Proof. exact law_forbid_live_sound. Qed.
Print Assumptions C18_law_forbid_live_sound.

Theorem C18_law_adoption_sound : forall o nm t j, Laws.law_adoption o = true ->
  In (nm, t) (Laws.b_conflicts o) -> find_job (Laws.b_jobs o) nm = Some j ->
  Laws.mem nm (map fst (Laws.b_deletes o)) = false ->
  j_owner j = OwnThis -> finished (j_phase j) = false -> Laws.b_lenient o = true ->
  Laws.b_creates o = [] /\ Laws.b_err o = 0 /\
  (exists r, In r (Laws.b_active_after o) /\ r_name r = nm /\ r_uid r = j_uid j) /\
  ((exists r, In r (Laws.b_active o) /\ r_uid r = j_uid j) \/ (Laws.b_last_after o = Some t /\ Laws.b_upd o = true)).
Proof. exact law_adoption_sound. Qed.
Print Assumptions C18_law_adoption_sound.

Theorem C18_law_gc_delete_sound : forall lj fresh lo hi uid rqs,
  Laws.law_gc lj fresh lo hi (Some uid) rqs = true ->
  exists f, fresh = Some f /\ gc_due f hi /\ uid = g_uid f.
Proof. exact law_gc_delete. Qed.
Print Assumptions C18_law_gc_delete_sound.

(* ---------------- non-vacuity ---------------- *)
Example C18_gc_nonvacuous :
  let j := mkGjob 1 PhCompleted (Some 10) false (Some (5 * sec)) (Some 0) in
  gc_due j (15 * sec) /\ ~ gc_due j (15 * sec - 1) /\
  process_job (Some j) (Some j) (15 * sec) (15 * sec) = mkGcOut [] (Some 1) false /\
  process_job (Some j) (Some j) (15 * sec - 1) (15 * sec - 1) = mkGcOut [1] None false.
Proof. exact gc_nonvacuous. Qed.

(* the hypotheses on [next] are satisfiable (by an irregular schedule), and a
   well-formed state runs through two starts under Forbid with history limits *)
Example C18_next_hypotheses_satisfiable :
  (forall t, t < next_pairs t) /\ (forall hi t s, sched next_pairs hi s -> t < s -> next_pairs t <= s) /\
  (forall t, exists k, next_pairs t = k * sec).
Proof. exact (conj next_pairs_gt (conj next_pairs_least next_pairs_sec)). Qed.

Example C18_controller_nonvacuous :
  state_ok ex_state /\
  let '(s', outs) := run next_pairs false 10 ex_state
                         [OpReconcile (100 * sec) false; OpReconcile (200 * sec) false;
                          OpFinish 1 PhCompleted (Some (200 * sec)); OpReconcile (200 * sec + 5) false] in
  created_times outs = [100 * sec; 200 * sec] /\
  map o_hist_deletes outs = [[7]; []; [8]] /\
  Forall (fun o => o_err o <> E_FUEL) outs.
Proof. exact controller_nonvacuous. Qed.

Example C18_table_nonvacuous :
  tbl_ok ex_tbl /\ (exists p, In p ex_tbl /\ 250 * sec < p) /\
  bounded (250 * sec) ex_state /\ inv_live ex_state /\
  Forall (op_ok (250 * sec)) [OpReconcile (100 * sec) false; OpReconcile (200 * sec + 5) false] /\
  let '(_, outs) := run (next_tbl ex_tbl) false (S (S (S (length ex_tbl)))) ex_state
                        [OpReconcile (100 * sec) false; OpReconcile (200 * sec + 5) false] in
  created_times outs = [100 * sec].
Proof. exact table_nonvacuous. Qed.

Example C18_regular_nonvacuous :
  (forall t s, t <= 250 * sec -> sched (next_tbl ex_tbl) (250 * sec) s -> t < s -> next_tbl ex_tbl t <= s) /\
  (forall s, s <= 250 * sec -> sched (next_tbl ex_tbl) (250 * sec) s -> next_tbl ex_tbl s = s + 100 * sec) /\
  exists t, next_schedule_time (next_tbl ex_tbl) 2 0 None None (250 * sec) = NsOk (Some t).
Proof. exact regular_nonvacuous. Qed.
