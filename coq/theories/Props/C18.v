(* Property C18 — time-driven controllers never act early, twice, or on live jobs.
   Property theorems only; each is closed by [exact] of a lemma proved in
   C18/Lemmas.v and followed by its assumptions.  Time is Z nanoseconds.
   [next] stands for cron.Schedule.Next; what is assumed about it is spelled
   out in every statement (never an axiom). *)
From Coq Require Import ZArith List.
From V Require Import C18.Model C18.Lemmas.
Import ListNotations.
Open Scope Z_scope.

(* ---------------- garbage collector ---------------- *)

(* for ALL TTLs, finish times and clock readings (finish > now included):
   a Delete is issued only for the freshly read object, which is finished,
   has a TTL, carries no deletion timestamp and finish + ttl <= now at the
   second reading; the UID precondition is that object's UID *)
Theorem C18_gc_only_when_due : forall lj fresh now1 now2 uid,
  go_delete (process_job lj fresh now1 now2) = Some uid ->
  exists j f, lj = Some j /\ fresh = Some f /\ gc_due j now1 /\ gc_due f now2 /\ uid = g_uid f /\
              go_requeues (process_job lj fresh now1 now2) = [] /\
              go_err (process_job lj fresh now1 now2) = false.
Proof. exact gc_only_when_due. Qed.
Print Assumptions C18_gc_only_when_due.

Theorem C18_gc_requeue_exact : forall j fresh now1 now2 ttl fin,
  finished (g_phase j) = true -> g_deleting j = false ->
  g_ttl j = Some ttl -> g_finish j = Some fin -> now1 < fin + ttl * sec ->
  process_job (Some j) fresh now1 now2 = mkGcOut [fin + ttl * sec - now1] None false.
Proof. exact gc_requeue_exact. Qed.
Print Assumptions C18_gc_requeue_exact.

Theorem C18_gc_requeue_exact_fresh : forall j f now1 now2 ttl fin,
  gc_due j now1 ->
  finished (g_phase f) = true -> g_deleting f = false ->
  g_ttl f = Some ttl -> g_finish f = Some fin -> now2 < fin + ttl * sec ->
  process_job (Some j) (Some f) now1 now2 = mkGcOut [fin + ttl * sec - now2] None false.
Proof. exact gc_requeue_exact_fresh. Qed.
Print Assumptions C18_gc_requeue_exact_fresh.

Theorem C18_gc_boundary : forall j now ttl fin,
  finished (g_phase j) = true -> g_deleting j = false ->
  g_ttl j = Some ttl -> g_finish j = Some fin ->
  (process_ttl j now = TtlExpired <-> fin + ttl * sec <= now).
Proof. exact gc_boundary. Qed.
Print Assumptions C18_gc_boundary.

Theorem C18_gc_ignores_live : forall j fresh now1 now2,
  finished (g_phase j) = false \/ g_ttl j = None \/ g_deleting j = true ->
  process_job (Some j) fresh now1 now2 = gc_nothing.
Proof. exact gc_ignores_live. Qed.
Print Assumptions C18_gc_ignores_live.

(* the finish time is the recorded status.state.lastTransitionTime, never the
   creation time; without it nothing is collected and an error is returned *)
Theorem C18_gc_creation_irrelevant : forall lj fresh now1 now2 c1 c2,
  let recreate c (j : gjob) := mkGjob (g_uid j) (g_phase j) (g_ttl j) (g_deleting j) (g_finish j) c in
  process_job (option_map (recreate c1) lj) (option_map (recreate c2) fresh) now1 now2 =
  process_job lj fresh now1 now2.
Proof. exact gc_creation_irrelevant. Qed.
Print Assumptions C18_gc_creation_irrelevant.

Theorem C18_gc_no_finish_time_never_collected : forall lj f now1 now2,
  g_finish f = None ->
  go_delete (process_job lj (Some f) now1 now2) = None.
Proof. exact gc_no_finish_time_never_collected. Qed.
Print Assumptions C18_gc_no_finish_time_never_collected.

Theorem C18_gc_no_finish_time_error : forall j fresh now1 now2,
  finished (g_phase j) = true -> g_deleting j = false -> g_ttl j <> None -> g_finish j = None ->
  process_job (Some j) fresh now1 now2 = mkGcOut [] None true.
Proof. exact gc_no_finish_time_error. Qed.
Print Assumptions C18_gc_no_finish_time_error.

Theorem C18_gc_no_finish_time_error_fresh : forall j f now1 now2,
  gc_due j now1 ->
  finished (g_phase f) = true -> g_deleting f = false -> g_ttl f <> None -> g_finish f = None ->
  process_job (Some j) (Some f) now1 now2 = mkGcOut [] None true.
Proof. exact gc_no_finish_time_error_fresh. Qed.
Print Assumptions C18_gc_no_finish_time_error_fresh.

(* ---------------- cron: the schedule choice ---------------- *)

(* for every schedule function that yields the least whole-second point after
   its argument, every creation / last-schedule time, deadline and now: a
   chosen time is a schedule point, after the earliest time, not after now,
   and no schedule point lies in (t, now] *)
Theorem C18_cron_choice_sound : forall next : Z -> Z,
  (forall t, t < next t) ->
  (forall t s, sched next s -> t < s -> next t <= s) ->
  (forall t, exists k, next t = k * sec) ->
  forall fuel created last deadline now t,
  next_schedule_time next fuel created last deadline now = NsOk (Some t) ->
  let e := earliest_time created last deadline now true in
  sched next t /\ e < t /\ t <= now /\ (forall s, sched next s -> t < s -> now < s).
Proof. exact cron_choice_sound. Qed.
Print Assumptions C18_cron_choice_sound.

(* constant-period schedules: whenever an unmet schedule point exists, one is
   chosen (two loop iterations suffice) *)
Theorem C18_cron_choice_complete_regular : forall next : Z -> Z,
  (forall t s, sched next s -> t < s -> next t <= s) ->
  forall p, 0 < p -> (forall s, sched next s -> next s = s + p * sec) ->
  forall fuel created last deadline now, (2 <= fuel)%nat ->
  let e := earliest_time created last deadline now true in
  (exists s, sched next s /\ e < s /\ s <= now) ->
  exists t, next_schedule_time next fuel created last deadline now = NsOk (Some t).
Proof. exact cron_choice_complete_regular. Qed.
Print Assumptions C18_cron_choice_complete_regular.

(* irregular schedules: completeness does NOT hold (upstream behaviour; a
   missed start, not an early or duplicate one) *)
Theorem C18_cron_complete_refuted :
  exists next, (forall t, t < next t) /\ (forall t s, sched next s -> t < s -> next t <= s) /\
               (forall t, exists k, next t = k * sec) /\
  exists fuel created last deadline now,
    (exists s, sched next s /\ earliest_time created last deadline now true < s /\ s <= now) /\
    next_schedule_time next fuel created last deadline now = NsOk None.
Proof. exact cron_complete_refuted. Qed.
Print Assumptions C18_cron_complete_refuted.

(* ---------------- cron: the controller over histories ---------------- *)

(* every history of reconciles at arbitrary instants (a fortiori at
   non-decreasing ones), interleaved with job completions, deletions, foreign
   creations, suspend and policy changes: the schedule times for which a Create
   succeeded are strictly increasing from the initial lastScheduleTime, hence
   each schedule point starts at most one job *)
Theorem C18_cron_created_increasing : forall (next : Z -> Z) (lenient : bool),
  (forall t, t < next t) -> (forall t, exists k, next t = k * sec) ->
  forall fuel ops s s' outs,
  run next lenient fuel s ops = (s', outs) -> state_ok s ->
  Forall (fun o => o_err o <> E_FUEL) outs ->
  increasing_from (st_last (s_status s)) (created_times outs).
Proof. exact run_created_increasing. Qed.
Print Assumptions C18_cron_created_increasing.

Theorem C18_cron_at_most_once : forall (next : Z -> Z) (lenient : bool),
  (forall t, t < next t) -> (forall t, exists k, next t = k * sec) ->
  forall fuel ops s s' outs,
  run next lenient fuel s ops = (s', outs) -> state_ok s ->
  Forall (fun o => o_err o <> E_FUEL) outs ->
  NoDup (created_times outs).
Proof. exact cron_at_most_once. Qed.
Print Assumptions C18_cron_at_most_once.

(* one reconcile: what is started is after the previous run and after the
   earliest time, not after now, recorded as lastScheduleTime; never while
   suspended; under Forbid the new job is the only active one afterwards;
   history deletes hit finished runs of this CronJob only *)
Theorem C18_cron_reconcile : forall (next : Z -> Z) (lenient : bool),
  (forall t, t < next t) -> (forall t, exists k, next t = k * sec) ->
  forall fuel s now fc s' o,
  reconcile next lenient fuel s now fc = (s', o) -> state_ok s -> o_err o <> E_FUEL ->
  state_ok s' /\ s_spec s' = s_spec s /\
  last_le (st_last (s_status s)) (st_last (s_status s')) /\
  Forall (is_hist_victim (s_jobs s)) (o_hist_deletes o) /\
  (o_creates o = [] \/
   exists t, starts o t /\ last_lt (st_last (s_status s)) t /\ t <= now /\
             earliest_time (c_created (s_spec s)) (st_last (s_status s)) (c_deadline (s_spec s)) now true < t /\
             st_last (s_status s') = Some t /\
             c_suspend (s_spec s) = false /\
             (c_policy (s_spec s) = Forbid ->
              st_active (s_status s') = [mkRef (job_name_of t) (s_next_uid s)])).
Proof. exact reconcile_spec. Qed.
Print Assumptions C18_cron_reconcile.

Theorem C18_cron_respects_suspend : forall (next : Z -> Z) (lenient : bool) fuel s now fc s' o,
  reconcile next lenient fuel s now fc = (s', o) -> c_suspend (s_spec s) = true -> o_creates o = [].
Proof. exact cron_respects_suspend. Qed.
Print Assumptions C18_cron_respects_suspend.

Theorem C18_cron_forbid : forall (next : Z -> Z) (lenient : bool)
    fuel spec st jobs uid now fc upd0 hd st' jobs' uid' o,
  decide next lenient fuel spec st jobs uid now fc upd0 hd = (st', jobs', uid', o) ->
  c_policy spec = Forbid -> st_active st <> [] -> o_creates o = [].
Proof. exact cron_forbid. Qed.
Print Assumptions C18_cron_forbid.

Theorem C18_history_deletes_finished_only : forall next lenient fuel s now fc s' o,
  reconcile next lenient fuel s now fc = (s', o) ->
  Forall (is_hist_victim (s_jobs s)) (o_hist_deletes o).
Proof. exact history_deletes_finished_only. Qed.
Print Assumptions C18_history_deletes_finished_only.

(* ---------------- cron: the zone the schedule is evaluated in ---------------- *)

(* formatSchedule / validateTZandSchedule: whenever spec.timeZone is set and
   loads and the schedule string embeds no zone of its own, the string handed
   to the cron parser is "TZ=<zone> <schedule>" and the schedule is evaluated
   in that zone, for EVERY schedule kind (five fields, @every, descriptors) *)
Theorem C18_cron_zone_is_spec : forall (k : skind) (z : Z),
  validate_tz (TzLoads z) = true /\
  format_schedule (TzLoads z) (mkSstr k None) = FmtPrefixed z /\
  zone_used (TzLoads z) (mkSstr k None) = ZNamed z.
Proof. exact cron_zone_is_spec. Qed.
Print Assumptions C18_cron_zone_is_spec.

Theorem C18_cron_zone_cases : forall tz s,
  zone_used tz s =
  match ss_embedded s with
  | Some e => ZNamed e
  | None => match tz with TzLoads z => ZNamed z | _ => ZLocal end
  end.
Proof. exact cron_zone_cases. Qed.
Print Assumptions C18_cron_zone_cases.

Theorem C18_cron_zone_kind_irrelevant : forall tz k1 k2 e,
  format_schedule tz (mkSstr k1 e) = format_schedule tz (mkSstr k2 e) /\
  zone_used tz (mkSstr k1 e) = zone_used tz (mkSstr k2 e).
Proof. exact cron_zone_kind_irrelevant. Qed.
Print Assumptions C18_cron_zone_kind_irrelevant.

Theorem C18_cron_invalid_zone_no_start : forall next lenient fuel s now fc s' o,
  reconcile next lenient fuel s now fc = (s', o) -> c_tz_ok (s_spec s) = false -> o_creates o = [].
Proof. exact cron_invalid_zone_no_start. Qed.
Print Assumptions C18_cron_invalid_zone_no_start.

(* ---------------- non-vacuity ---------------- *)
Example C18_gc_nonvacuous :
  let j := mkGjob 1 PhCompleted (Some 10) false (Some (5 * sec)) (Some 0) in
  gc_due j (15 * sec) /\ ~ gc_due j (15 * sec - 1) /\
  process_job (Some j) (Some j) (15 * sec) (15 * sec) = mkGcOut [] (Some 1) false /\
  process_job (Some j) (Some j) (15 * sec - 1) (15 * sec - 1) = mkGcOut [1] None false.
Proof. exact gc_nonvacuous. Qed.

(* the hypotheses on [next] are satisfiable (by an irregular schedule), and a
   well-formed state runs through two starts under Forbid with history limits *)
Example C18_next_hypotheses_satisfiable :
  (forall t, t < next_pairs t) /\ (forall t s, sched next_pairs s -> t < s -> next_pairs t <= s) /\
  (forall t, exists k, next_pairs t = k * sec).
Proof. exact (conj next_pairs_gt (conj next_pairs_least next_pairs_sec)). Qed.

Example C18_controller_nonvacuous :
  state_ok ex_state /\
  let '(s', outs) := run next_pairs false 10 ex_state
                         [OpReconcile (100 * sec) false; OpReconcile (200 * sec) false;
                          OpFinish 1 PhCompleted (Some (200 * sec)); OpReconcile (200 * sec + 5) false] in
  created_times outs = [100 * sec; 200 * sec] /\
  map o_hist_deletes outs = [[7]; []; [8]] /\
  Forall (fun o => o_err o <> E_FUEL) outs.
Proof. exact controller_nonvacuous. Qed.
