(* Property C11 — plugin tiers combine votes and orderings exactly as specified.
   Property theorems only; each is closed by [exact] of a lemma proved in
   C11/Lemmas.v or C11/HeapLemmas.v and followed by its assumptions. *)
From Coq Require Import ZArith List Bool Permutation.
From V Require Import C11.Model C11.Spec C11.HeapModel C11.Lemmas C11.HeapLemmas C11.Laws C11.QueueModel C11.QueueLemmas C11.VictimLemmas.
Import ListNotations.
Open Scope Z_scope.

(* ---- victim selection (Reclaimable / Preemptable / UnifiedEvictable, after the fix) ---- *)

(* for EVERY tier layout and every combination of answers: the result is the
   intersection of the candidate lists of all enabled, registered, non-abstaining
   plugins of the first tier whose intersection is non-empty; [] if none *)
Theorem C11_tier_victims_spec : forall ts, victims_fixed ts = victims_spec ts.
Proof. exact tier_victims_spec. Qed.
Print Assumptions C11_tier_victims_spec.

(* no returned victim was rejected by a voting plugin of the deciding tier, and
   the deciding tier is the first tier with a non-empty agreement *)
Theorem C11_victims_respect_deciding_tier : forall ts x,
  In x (victims_fixed ts) ->
  exists pre t post,
    ts = pre ++ t :: post /\
    Forall (fun t' => agreement t' = []) pre /\
    victims_fixed ts = agreement t /\
    (exists p, In p t /\ voting p = true) /\
    forall p, In p t -> voting p = true -> In x (v_cands (s_ans p)).
Proof. exact victims_respect_deciding_tier. Qed.
Print Assumptions C11_victims_respect_deciding_tier.

Theorem C11_in_agreement : forall x t,
  In x (agreement t) <->
  (exists p, In p t /\ voting p = true) /\
  forall p, In p t -> voting p = true -> In x (v_cands (s_ans p)).
Proof. exact in_agreement. Qed.
Print Assumptions C11_in_agreement.

(* the record of defect F1: the loop as it was before the fix violates the
   specification (voters {1},{2},{3} of one tier -> [3]) *)
Theorem C11_victims_prefix_refuted :
  exists ts, victims_prefix ts <> victims_spec ts /\
             exists x t p, In x (victims_prefix ts) /\ In t ts /\ In p t /\
                           voting p = true /\ ~ In x (v_cands (s_ans p)).
Proof. exact victims_prefix_refuted. Qed.
Print Assumptions C11_victims_prefix_refuted.

(* the executable law evaluated on the Go results accepts the model's own
   answer for every layout, and what it accepts is sound: law and theorem speak
   about the same predicate *)
Theorem C11_law_victims_model : forall ts, law_victims ts (victims_fixed ts) = true.
Proof. exact law_victims_model. Qed.
Print Assumptions C11_law_victims_model.

Theorem C11_law_victims_sound : forall ts got x t,
  law_victims ts got = true -> find has_agreement ts = Some t -> In x got ->
  forall p, In p t -> voting p = true -> In x (v_cands (s_ans p)).
Proof. exact law_victims_sound. Qed.
Print Assumptions C11_law_victims_sound.

(* ---- boolean gates ---- *)

(* JobReady / Allocatable / Preemptive / SubJobReady: conjunction over all
   enabled registered plugins of all tiers *)
Theorem C11_gate_conjunction : forall ts,
  all_tiers ts = true <->
  forall t p, In t ts -> In p t -> active p = true -> s_ans p = true.
Proof. exact gate_conjunction_iff. Qed.
Print Assumptions C11_gate_conjunction.

(* Overused: disjunction *)
Theorem C11_gate_disjunction : forall ts,
  any_tiers ts = true <->
  exists t p, In t ts /\ In p t /\ active p = true /\ s_ans p = true.
Proof. exact gate_disjunction_iff. Qed.
Print Assumptions C11_gate_disjunction.

Theorem C11_sub_job_ready : forall hp jts sts,
  sub_job_ready hp jts sts = forallb idb (actives (if hp then sts else jts)).
Proof. exact sub_job_ready_spec. Qed.
Print Assumptions C11_sub_job_ready.

(* JobStarving: conjunction over the FIRST tier that has an enabled registered
   function, false if no tier has one *)
Theorem C11_job_starving : forall ts,
  job_starving ts =
  match find (existsb active) ts with
  | None => false
  | Some t => forallb idb (map s_ans (filter active t))
  end.
Proof. exact job_starving_spec. Qed.
Print Assumptions C11_job_starving.

(* JobValid: the first failing result in tier order; PredicateFn: the first error *)
Theorem C11_job_valid : forall ts, job_valid ts = hd_error (fails ts).
Proof. exact job_valid_spec. Qed.
Print Assumptions C11_job_valid.

Theorem C11_predicate : forall ts, predicate ts = hd_error (somes (actives ts)).
Proof. exact predicate_spec. Qed.
Print Assumptions C11_predicate.

(* ---- permit / reject votes (JobPipelined / JobEnqueueable / SubJobPipelined) ---- *)
Theorem C11_vote_first_permit_unless_reject : forall ts,
  vote_tiers ts = false <->
  exists pre t post,
    ts = pre ++ t :: post /\
    (forall t' p, In t' pre -> In p t' -> active p = true -> s_ans p <= 0) /\
    (exists p, In p t /\ active p = true /\ s_ans p < 0).
Proof. exact vote_first_permit_unless_reject. Qed.
Print Assumptions C11_vote_first_permit_unless_reject.

Theorem C11_sub_job_pipelined : forall hp jts sts,
  sub_job_pipelined hp jts sts = vote_tiers (if hp then sts else jts).
Proof. exact sub_job_pipelined_spec. Qed.
Print Assumptions C11_sub_job_pipelined.

(* ---- orderings ---- *)

(* the tier walk answers with the first non-zero comparison of the enabled
   registered comparators in tier order *)
Theorem C11_first_distinguishing : forall (T : Type) (ts : layout (T -> T -> Z)) l r,
  cmp_tiers ts l r = lex (actives ts) l r.
Proof. exact @cmp_tiers_first_distinguishing. Qed.
Print Assumptions C11_first_distinguishing.

Theorem C11_lex_decided_by : forall (T : Type) (cs : list (T -> T -> Z)) l r j,
  lex cs l r = j -> j <> 0 ->
  exists pre c post, cs = pre ++ c :: post /\ Forall (fun c' => c' l r = 0) pre /\ c l r = j.
Proof. exact @lex_decided_by. Qed.
Print Assumptions C11_lex_decided_by.

(* for every set of items, every layout of comparators that are valid on the
   set and every tie-break that is a strict weak order on it, the session
   order function is a strict weak order on the set (asymmetric and negatively
   transitive; irreflexivity and transitivity follow, next two theorems) *)
Theorem C11_lex_order_strict_weak :
  forall (T : Type) (dom : T -> Prop) (ts : layout (T -> T -> Z)) (tb : T -> T -> bool),
  all_valid dom ts -> swo_on dom tb -> swo_on dom (order_fn ts tb).
Proof. exact @lex_order_strict_weak. Qed.
Print Assumptions C11_lex_order_strict_weak.

Theorem C11_swo_irrefl : forall (T : Type) (dom : T -> Prop) lt,
  swo_on dom lt -> forall a, dom a -> lt a a = false.
Proof. exact @swo_irrefl. Qed.
Print Assumptions C11_swo_irrefl.

Theorem C11_swo_trans : forall (T : Type) (dom : T -> Prop) lt,
  swo_on dom lt -> forall a b d, dom a -> dom b -> dom d ->
  lt a b = true -> lt b d = true -> lt a d = true.
Proof. exact @swo_trans. Qed.
Print Assumptions C11_swo_trans.

(* where the tie-break orders two items one way or the other, so does the
   session order: with creation time + UID it is total on distinct UIDs *)
Theorem C11_order_fn_flip :
  forall (T : Type) (dom : T -> Prop) (ts : layout (T -> T -> Z)) (tb : T -> T -> bool),
  all_valid dom ts -> forall a b, dom a -> dom b ->
  tb a b = negb (tb b a) -> order_fn ts tb a b = negb (order_fn ts tb b a).
Proof. exact @order_fn_flip. Qed.
Print Assumptions C11_order_fn_flip.

(* the built-in tie-breaks *)
Theorem C11_by_time_uid_swo : swo_on (fun _ => True) by_time_uid.
Proof. exact by_time_uid_swo. Qed.
Print Assumptions C11_by_time_uid_swo.

Theorem C11_by_time_uid_total : forall a b,
  i_uid a <> i_uid b -> by_time_uid a b = negb (by_time_uid b a).
Proof. exact by_time_uid_total. Qed.
Print Assumptions C11_by_time_uid_total.

(* helpers.CompareTask is a strict weak order on every task set whose pod names
   all carry a numeric index (k = true) and on every set where none does ... *)
Theorem C11_compare_task_swo : forall k, swo_on (idx_kind k) compare_task.
Proof. exact compare_task_swo. Qed.
Print Assumptions C11_compare_task_swo.

(* ... and NOT on mixed sets: a 3-cycle (candidate finding, docs/notes/C11.md) *)
Theorem C11_compare_task_mixed_refuted :
  exists a b c, compare_task a b = true /\ compare_task b c = true /\ compare_task c a = true.
Proof. exact compare_task_mixed_refuted. Qed.
Print Assumptions C11_compare_task_mixed_refuted.

(* ... and the cycle cannot be repaired without giving up one of the two pinned
   behaviours (index order on indexed pairs; creation time + UID on mixed pairs,
   as the upstream unit test TestCompareTask demands) *)
Theorem C11_compare_task_no_swo_extension : forall lt : item -> item -> bool,
  (forall l r x y, i_pidx l = Some x -> i_pidx r = Some y -> x <> y -> lt l r = (x <? y)) ->
  (forall l r, mixed_pair l r -> lt l r = by_time_uid l r) ->
  ~ swo_on (fun _ => True) lt.
Proof. exact compare_task_no_swo_extension. Qed.
Print Assumptions C11_compare_task_no_swo_extension.

(* comparators of the shipped plugins (priority, gang, drf share, sla,
   proportion) are valid on every set *)
Theorem C11_plugin_comparators_valid : forall kind, valid_on everywhere (real_cmp kind).
Proof. exact plugin_comparators_valid. Qed.
Print Assumptions C11_plugin_comparators_valid.

(* ---- queue comparators of the shipped proportion / capacity / drf plugins, as written ---- *)

(* proportion and flat capacity: (priority, share, has-deserved) - valid on every set *)
Theorem C11_cmp_capacity_flat_valid : valid_on everywhere cmp_capacity_flat.
Proof. exact cmp_capacity_flat_valid. Qed.
Print Assumptions C11_cmp_capacity_flat_valid.

(* capacity VictimQueueOrderFn (level of the common ancestor with the preemptor) - valid *)
Theorem C11_cmp_capacity_victim_valid : forall p, valid_on everywhere (cmp_capacity_victim p).
Proof. exact cmp_capacity_victim_valid. Qed.
Print Assumptions C11_cmp_capacity_victim_valid.

(* hierarchical capacity QueueOrderFn: valid among the children of one parent
   (and among non-leaf queues with one ancestor chain) ... *)
Theorem C11_cmp_capacity_hier_valid_siblings : forall anc leaf,
  valid_on (fun q => rq_leaf q = leaf /\ rq_anc q = anc) cmp_capacity_hier.
Proof. exact cmp_capacity_hier_valid_siblings. Qed.
Print Assumptions C11_cmp_capacity_hier_valid_siblings.

(* ... but NOT across subtrees whose roots tie: x ~ z ~ y with x < y, and with the
   creation-time tie-break the session QueueOrderFn is cyclic (genuine defect,
   reproduced on the real plugin; known finding) *)
Theorem C11_cmp_capacity_hier_refuted :
  ~ valid_on everywhere cmp_capacity_hier /\
  (let lt := order_fn (one_slot cmp_capacity_hier) rq_tb in
   lt cap_x cap_y = true /\ lt cap_y cap_z = true /\ lt cap_z cap_x = true).
Proof. exact cmp_capacity_hier_refuted. Qed.
Print Assumptions C11_cmp_capacity_hier_refuted.

(* hdrf compareQueues: valid on every set of queues of one hierarchy depth ... *)
Theorem C11_cmp_hdrf_valid_equal_depth : forall n,
  valid_on (fun q => length (rq_nodes q) = n) cmp_hdrf.
Proof. exact cmp_hdrf_valid_equal_depth. Qed.
Print Assumptions C11_cmp_hdrf_valid_equal_depth.

(* ... but NOT on queues of unequal depth (root/sci next to root/eng/dev,
   root/eng/prod - the layout of the plugin's own unit test): cyclic with the
   tie-break (genuine defect, reproduced on the real plugin; known finding) *)
Theorem C11_cmp_hdrf_refuted :
  ~ valid_on everywhere cmp_hdrf /\
  (let lt := order_fn (one_slot cmp_hdrf) rq_tb in
   lt hd_dev hd_prod = true /\ lt hd_prod hd_sci = true /\ lt hd_sci hd_dev = true).
Proof. exact cmp_hdrf_refuted. Qed.
Print Assumptions C11_cmp_hdrf_refuted.

(* BuildVictimsPriorityQueue: two distinct victims are ordered exactly one way *)
Theorem C11_victim_queue_order_total :
  forall (task_ts job_ts queue_ts vq_ts : layout (item -> item -> Z))
         (jobs : Z -> option vjob) (queues : Z -> option item) (pj : Z),
  all_valid everywhere task_ts -> all_valid everywhere job_ts ->
  all_valid everywhere queue_ts -> all_valid everywhere (force_en_all vq_ts) ->
  (forall q1 q2 a b, q1 <> q2 -> queues q1 = Some a -> queues q2 = Some b -> i_uid a <> i_uid b) ->
  forall l r b,
    i_uid (vt_item l) <> i_uid (vt_item r) ->
    victim_less task_ts job_ts queue_ts vq_ts jobs queues pj l r = Some b ->
    victim_less task_ts job_ts queue_ts vq_ts jobs queues pj r l = Some (negb b).
Proof. exact victim_queue_order_total. Qed.
Print Assumptions C11_victim_queue_order_total.

(* ---- util.PriorityQueue over container/heap ---- *)

(* for EVERY less function: Push and Pop never fail and preserve the multiset *)
Theorem C11_push_perm : forall (A : Type) (less : A -> A -> bool) (d : A) (l : list A) x,
  exists l', push less l x = Some l' /\ Permutation l' (l ++ [x]).
Proof. exact @push_perm. Qed.
Print Assumptions C11_push_perm.

Theorem C11_pop_perm : forall (A : Type) (less : A -> A -> bool) (d : A) (l : list A),
  match pop less l with
  | PopEmpty => l = []
  | PopErr => False
  | PopOk x rest => Permutation (x :: rest) l /\ x = nth 0 l d
  end.
Proof. exact @pop_perm. Qed.
Print Assumptions C11_pop_perm.

Theorem C11_run_multiset : forall (A : Type) (less : A -> A -> bool) (d : A) ops l outs,
  run less ops = (Some l, outs) -> Permutation (popped outs ++ l) (pushed ops).
Proof. exact @run_multiset. Qed.
Print Assumptions C11_run_multiset.

(* for a less function that is asymmetric and negatively transitive on the
   DISTINCT elements of a set [dom] (nothing is asked of less x x, nothing outside
   dom): every history pushing dom elements keeps the heap shape and never fails *)
Theorem C11_run_good : forall (A : Type) (less : A -> A -> bool) (d : A) (dom : A -> Prop),
  (forall a b : A, {a = b} + {a <> b}) ->
  (forall a b, dom a -> dom b -> a <> b -> less a b = true -> less b a = false) ->
  (forall a b c, dom a -> dom b -> dom c -> a <> b -> b <> c -> a <> c ->
                 less a c = true -> less a b = true \/ less b c = true) ->
  forall ops, Forall dom (pushed ops) -> good less d dom (run less ops).
Proof. exact @run_good. Qed.
Print Assumptions C11_run_good.

(* ... and after ANY such history Pop returns an element no OTHER queued element precedes *)
Theorem C11_heap_pop_minimal : forall (A : Type) (less : A -> A -> bool) (d : A) (dom : A -> Prop),
  (forall a b : A, {a = b} + {a <> b}) ->
  (forall a b, dom a -> dom b -> a <> b -> less a b = true -> less b a = false) ->
  (forall a b c, dom a -> dom b -> dom c -> a <> b -> b <> c -> a <> c ->
                 less a c = true -> less a b = true \/ less b c = true) ->
  forall ops l outs x rest,
    Forall dom (pushed ops) ->
    run less ops = (Some l, outs) -> pop less l = PopOk x rest ->
    (forall y, In y l -> y = x \/ less y x = false) /\ Permutation (x :: rest) l.
Proof. exact @heap_pop_minimal. Qed.
Print Assumptions C11_heap_pop_minimal.

(* push a list, pop until empty (how BuildVictimsPriorityQueue's result is used):
   never fails, a permutation, no later element precedes an earlier one *)
Theorem C11_heap_sort_sorted : forall (A : Type) (less : A -> A -> bool) (d : A) (dom : A -> Prop),
  (forall a b : A, {a = b} + {a <> b}) ->
  (forall a b, dom a -> dom b -> a <> b -> less a b = true -> less b a = false) ->
  (forall a b c, dom a -> dom b -> dom c -> a <> b -> b <> c -> a <> c ->
                 less a c = true -> less a b = true \/ less b c = true) ->
  forall xs, Forall dom xs ->
  exists out, heap_sort less xs = Some out /\ Permutation out xs /\ sorted_by less out.
Proof. exact @heap_sort_sorted. Qed.
Print Assumptions C11_heap_sort_sorted.

(* ---- orderings and priority queues composed ---- *)

(* a PriorityQueue built on a session order function (comparators valid on the
   set, tie-break a strict weak order on it) pops the elements of the set in that
   order: after any history, and for push-all / pop-all *)
Theorem C11_session_queue_pop_minimal :
  forall (T : Type) (dom : T -> Prop) (ts : layout (T -> T -> Z)) (tb : T -> T -> bool) (d : T),
  (forall a b : T, {a = b} + {a <> b}) -> all_valid dom ts -> swo_on dom tb ->
  forall ops l outs x rest,
    Forall dom (pushed ops) ->
    run (order_fn ts tb) ops = (Some l, outs) -> pop (order_fn ts tb) l = PopOk x rest ->
    (forall y, In y l -> y = x \/ order_fn ts tb y x = false) /\ Permutation (x :: rest) l.
Proof. exact @session_queue_pop_minimal. Qed.
Print Assumptions C11_session_queue_pop_minimal.

Theorem C11_session_queue_pops_in_order :
  forall (T : Type) (dom : T -> Prop) (ts : layout (T -> T -> Z)) (tb : T -> T -> bool) (d : T),
  (forall a b : T, {a = b} + {a <> b}) -> all_valid dom ts -> swo_on dom tb ->
  forall xs, Forall dom xs ->
  exists out, heap_sort (order_fn ts tb) xs = Some out /\ Permutation out xs /\
              sorted_by (order_fn ts tb) out.
Proof. exact @session_queue_pops_in_order. Qed.
Print Assumptions C11_session_queue_pops_in_order.

(* ---- the victim orders: what is false, and exactly what holds ---- *)

(* FALSE as literally stated in the property: both victim orders answer TRUE on
   (x, x) - Go `return !ssn.TaskOrderFn(l, r)` (session_plugins.go BuildVictimsPriorityQueue)
   and `return !ssn.QueueOrderFn(l, r)` (VictimQueueOrderFn) - so they are not
   irreflexive (reproduced on the real closures, harness selectors 4 and 8) *)
Theorem C11_victim_less_reflexive_refuted :
  forall (task_ts job_ts queue_ts vq_ts : layout (item -> item -> Z)) jobs queues pj,
  all_valid everywhere task_ts ->
  forall l, victim_less task_ts job_ts queue_ts vq_ts jobs queues pj l l = Some true.
Proof. exact victim_less_diag. Qed.
Print Assumptions C11_victim_less_reflexive_refuted.

Theorem C11_victim_queue_order_reflexive_refuted :
  forall queue_ts vq_ts : layout (item -> item -> Z),
  all_valid everywhere queue_ts -> all_valid everywhere (force_en_all vq_ts) ->
  forall a, victim_queue_order_fn vq_ts queue_ts a a = true.
Proof. exact victim_queue_order_diag. Qed.
Print Assumptions C11_victim_queue_order_reflexive_refuted.

(* TRUE: on two victims with different UIDs the less function IS the
   lexicographic session order of four keys (orphan first; victim-queue order of
   the job's queue; reversed job order; reversed task order) - for every pattern
   of found / orphaned victims and a present or missing preemptor job *)
Theorem C11_victim_less_as_order :
  forall (task_ts job_ts queue_ts vq_ts : layout (item -> item -> Z)) jobs queues pj,
  all_valid everywhere task_ts -> all_valid everywhere job_ts ->
  all_valid everywhere queue_ts -> all_valid everywhere (force_en_all vq_ts) ->
  (forall q1 q2 a b, q1 <> q2 -> queues q1 = Some a -> queues q2 = Some b -> i_uid a <> i_uid b) ->
  forall l r b,
    i_uid (vt_item l) <> i_uid (vt_item r) ->
    victim_less task_ts job_ts queue_ts vq_ts jobs queues pj l r = Some b ->
    b = order_fn (victim_layout job_ts queue_ts vq_ts jobs queues pj) (rev_task task_ts) l r.
Proof. exact victim_less_as_order. Qed.
Print Assumptions C11_victim_less_as_order.

(* VictimQueueOrderFn as an order on QUEUES (gang-reclaim uses it directly): on two
   queues with different names it is the sign of ONE valid 3-way comparator - the
   victim comparators, then the reversed queue comparators, then reversed
   (creation time, name) - hence a strict total order on differently named queues *)
Theorem C11_victim_queue_order_as_cmp :
  forall (queue_ts vq_ts : layout (item -> item -> Z))
         (jobs : Z -> option vjob) (queues : Z -> option item) (pj : Z),
  all_valid everywhere queue_ts -> all_valid everywhere (force_en_all vq_ts) ->
  (forall q1 q2 a b, q1 <> q2 -> queues q1 = Some a -> queues q2 = Some b -> i_uid a <> i_uid b) ->
  valid_on everywhere (cq queue_ts vq_ts) /\
  forall a b, i_uid a <> i_uid b ->
    victim_queue_order_fn vq_ts queue_ts a b = (cq queue_ts vq_ts a b <? 0) /\ cq queue_ts vq_ts a b <> 0.
Proof. exact victim_queue_order_as_cmp. Qed.
Print Assumptions C11_victim_queue_order_as_cmp.

(* NOT covered by the victims theorems: sessions whose queue comparators are not
   valid on ALL queues.  For the only shipped VictimQueueOrderFn (hierarchical
   capacity) the victim order of three different queues is a 3-cycle when two
   subtrees tie and the preemptor sits in a third one (reproduced on the real
   plugin and on the real victims queue; part of the capacity-hierarchical finding) *)
Theorem C11_victim_order_capacity_hier_refuted :
  let vlt := victim_order_gen (one_slot (cmp_capacity_victim cap_w)) (one_slot cmp_capacity_hier) rq_tb in
  cmp_capacity_victim cap_w cap_x cap_y = 0 /\ cmp_capacity_victim cap_w cap_y cap_z = 0 /\
  vlt cap_y cap_x = true /\ vlt cap_z cap_y = true /\ vlt cap_x cap_z = true /\
  vlt cap_x cap_y = false /\ vlt cap_y cap_z = false /\ vlt cap_z cap_x = false.
Proof. exact victim_order_capacity_hier_refuted. Qed.
Print Assumptions C11_victim_order_capacity_hier_refuted.

(* ... which is a strict weak order on every victim set with pod names of one kind *)
Theorem C11_victim_order_strict_weak :
  forall (task_ts job_ts queue_ts vq_ts : layout (item -> item -> Z)) jobs queues pj,
  all_valid everywhere task_ts -> all_valid everywhere job_ts ->
  all_valid everywhere queue_ts -> all_valid everywhere (force_en_all vq_ts) ->
  forall k, swo_on (fun t => idx_kind k (vt_item t))
                   (order_fn (victim_layout job_ts queue_ts vq_ts jobs queues pj) (rev_task task_ts)).
Proof. exact victim_order_strict_weak. Qed.
Print Assumptions C11_victim_order_strict_weak.

(* ... hence the less function itself is transitive on victims with distinct UIDs *)
Theorem C11_victim_less_transitive :
  forall (task_ts job_ts queue_ts vq_ts : layout (item -> item -> Z)) jobs queues pj,
  all_valid everywhere task_ts -> all_valid everywhere job_ts ->
  all_valid everywhere queue_ts -> all_valid everywhere (force_en_all vq_ts) ->
  (forall q1 q2 a b, q1 <> q2 -> queues q1 = Some a -> queues q2 = Some b -> i_uid a <> i_uid b) ->
  forall k l m r,
    idx_kind k (vt_item l) -> idx_kind k (vt_item m) -> idx_kind k (vt_item r) ->
    i_uid (vt_item l) <> i_uid (vt_item m) -> i_uid (vt_item m) <> i_uid (vt_item r) ->
    i_uid (vt_item l) <> i_uid (vt_item r) ->
    victim_less task_ts job_ts queue_ts vq_ts jobs queues pj l m = Some true ->
    victim_less task_ts job_ts queue_ts vq_ts jobs queues pj m r = Some true ->
    victim_less task_ts job_ts queue_ts vq_ts jobs queues pj l r <> None ->
    victim_less task_ts job_ts queue_ts vq_ts jobs queues pj l r = Some true.
Proof. exact victim_less_transitive. Qed.
Print Assumptions C11_victim_less_transitive.

(* ... and the victims queue (reflexive less and all) pops its victims in that
   order: container/heap only ever compares two different queued elements *)
Theorem C11_victims_queue_pops_in_order :
  forall (task_ts job_ts queue_ts vq_ts : layout (item -> item -> Z)) jobs queues pj,
  all_valid everywhere task_ts -> all_valid everywhere job_ts ->
  all_valid everywhere queue_ts -> all_valid everywhere (force_en_all vq_ts) ->
  (forall q1 q2 a b, q1 <> q2 -> queues q1 = Some a -> queues q2 = Some b -> i_uid a <> i_uid b) ->
  forall (U : list vtask) (k : bool),
    NoDup (map (fun t => i_uid (vt_item t)) U) ->
    (forall t, In t U -> idx_kind k (vt_item t)) ->
    (forall l r, In l U -> In r U ->
                 victim_less task_ts job_ts queue_ts vq_ts jobs queues pj l r <> None) ->
    exists out,
      heap_sort (vless task_ts job_ts queue_ts vq_ts jobs queues pj) U = Some out /\
      Permutation out U /\
      sorted_by (vless task_ts job_ts queue_ts vq_ts jobs queues pj) out.
Proof. exact victims_queue_pops_in_order. Qed.
Print Assumptions C11_victims_queue_pops_in_order.

(* ---- the executable laws mean the clauses ---- *)
Theorem C11_law_vote_sound : forall ts got, law_vote ts got = true ->
  (got = false <->
   exists pre t post, ts = pre ++ t :: post /\
     (forall t' p, In t' pre -> In p t' -> active p = true -> s_ans p <= 0) /\
     (exists p, In p t /\ active p = true /\ s_ans p < 0)).
Proof. exact law_vote_sound. Qed.
Print Assumptions C11_law_vote_sound.

Theorem C11_law_sorted_spec : forall (A : Type) (less : A -> A -> bool) out,
  law_sorted less out = true <-> ForallOrdPairs (fun x y => less y x = false) out.
Proof. exact @law_sorted_spec. Qed.
Print Assumptions C11_law_sorted_spec.

(* ---- non-vacuity ---- *)
Example C11_victims_nonvacuous :
  let ts := [[mkSlot true true (mkVote 1 [1; 2]); mkSlot true true (mkVote 1 [3])];
             [mkSlot true false (mkVote 1 [9]); mkSlot true true (mkVote 0 [8]);
              mkSlot true true (mkVote 1 [2; 3; 4]); mkSlot true true (mkVote (-1) [4; 2])]] in
  victims_fixed ts = [2; 4] /\ In 2 (victims_fixed ts).
Proof. exact victims_nonvacuous. Qed.

Example C11_order_nonvacuous :
  all_valid everywhere ex_layout /\
  map (fun l => map (fun r => job_order_fn ex_layout l r) ex_items) ex_items =
  [[false; false; false]; [true; false; false]; [true; true; false]].
Proof. exact order_nonvacuous. Qed.

Example C11_votes_nonvacuous :
  vote_tiers [[mkSlot true true 0; mkSlot false true (-1)]; [mkSlot true true 1]; [mkSlot true true (-1)]] = true /\
  vote_tiers [[mkSlot true true 0]; [mkSlot true true 1; mkSlot true true (-1)]] = false.
Proof. exact votes_nonvacuous. Qed.

Example C11_heap_nonvacuous :
  (forall a b : Z, True -> True -> a <> b -> Z.ltb a b = true -> Z.ltb b a = false) /\
  (forall a b c : Z, True -> True -> True -> a <> b -> b <> c -> a <> c ->
                     Z.ltb a c = true -> Z.ltb a b = true \/ Z.ltb b c = true) /\
  run Z.ltb [OpPush 5; OpPush 3; OpPush 4; OpPop; OpPush 1; OpPop; OpPop; OpPop; OpPop] =
  (Some [], [Some 3; Some 1; Some 4; Some 5; None]) /\
  heap_sort Z.ltb [5; 3; 4; 3; 1] = Some [1; 3; 3; 4; 5].
Proof. exact heap_nonvacuous. Qed.

Example C11_victims_queue_nonvacuous :
  all_valid everywhere ex_layout /\
  NoDup (map (fun t => i_uid (vt_item t)) ex_victims) /\
  (forall t, In t ex_victims -> idx_kind true (vt_item t)) /\
  forallb (fun l => forallb (fun r =>
     match victim_less ex_layout ex_layout ex_layout [] ex_vjobs ex_vqueues 0 l r with
     | Some _ => true | None => false end) ex_victims) ex_victims = true /\
  option_map (map (fun t => i_uid (vt_item t))) (heap_sort ex_vless ex_victims) = Some [4; 3; 2; 1; 5] /\
  forallb (fun t => ex_vless t t) ex_victims = true.
Proof. exact victims_queue_nonvacuous. Qed.
