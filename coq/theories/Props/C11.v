(* Property C11 — plugin tiers combine votes and orderings exactly as specified.
   Property theorems only; each is closed by [exact] of a lemma proved in
   C11/Lemmas.v or C11/HeapLemmas.v and followed by its assumptions. *)
From Coq Require Import ZArith List Bool.
From V Require Import C11.Model C11.Spec C11.Lemmas.
Import ListNotations.
Open Scope Z_scope.

Theorem C11_tier_victims_spec : forall ts, victims_fixed ts = victims_spec ts.
Proof. exact tier_victims_spec. Qed.
Print Assumptions C11_tier_victims_spec.
