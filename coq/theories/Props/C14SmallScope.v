(* Property C14, thorough tier only — the small-scope order-independence theorems
   (closure of the reachable configurations by vm_compute: ~20 min of clean Coq build).
   Build: make -C /verif/coq theories/Props/C14SmallScope.vo *)
From Coq Require Import ZArith List Bool.
From V Require Import C14.Model C14.Laws C14.SmallScope C14.SmallScope2.
Import ListNotations.
Open Scope Z_scope.

(* --- the view: PARTIAL (bounded universe, unbounded history length).  For every history
   of add / update / delete events over the universe u_alphabet (4 HyperNodes on 3 tiers,
   15 object versions, exact-match members) whose every intermediate object set is a
   consistent forest: the incremental view equals the tree derived from the final objects
   (parent, children, tier, leaves below), is Ready, and agrees with a from-scratch view --- *)
Theorem C14_incremental_equals_scratch_small_scope : forall h,
  guards_along u_env u_alphabet u_init h ->
  let c := fold_left (cstep u_env) h u_init in
  view_matches_spec u_env (c_objs c) (c_st c) = true /\
  s_ready (c_st c) = true /\ s_fuel (c_st c) = false /\
  views_agree (c_objs c) (c_st c) (scratch u_env (c_objs c)) = true.
Proof. exact incremental_equals_scratch_small_scope. Qed.
Print Assumptions C14_incremental_equals_scratch_small_scope.

(* the same statement on a second universe: a four-tier chain h1<h2<h3<h4 and a leaf h5
   that can hang under any of them *)
Theorem C14_incremental_equals_scratch_small_scope2 : forall h,
  guards_along v_env v_alphabet u_init h ->
  let c := fold_left (cstep v_env) h u_init in
  view_matches_spec v_env (c_objs c) (c_st c) = true /\
  s_ready (c_st c) = true /\ s_fuel (c_st c) = false /\
  views_agree (c_objs c) (c_st c) (scratch v_env (c_objs c)) = true.
Proof. exact incremental_equals_scratch_small_scope2. Qed.
Print Assumptions C14_incremental_equals_scratch_small_scope2.

(* non-vacuity *)
Example C14_small_scope_nonvacuous :
  guards_along u_env u_alphabet u_init
    [EUpd (mkObj 4 3 [MHyper 3]); EUpd (mkObj 3 2 [MHyper 1; MHyper 2]); EUpd (mkObj 1 1 [MNode 1]);
     EUpd (mkObj 2 1 [MNode 2]); EUpd (mkObj 3 2 [MHyper 1]); EUpd (mkObj 4 3 [MHyper 3; MHyper 2]);
     EDel 1; EUpd (mkObj 1 1 [MNode 1; MNode 2])]%positive.
Proof. exact small_scope_nonvacuous. Qed.

