(* Property C09 — job admission accepts only well-formed jobs and defaults them
   consistently.  Property theorems only; each is closed by [exact] of a lemma
   proved in C09/TopoLemmas.v, C09/Lemmas.v or C09/Lemmas2.v.  The Kubernetes
   validators are the fields of the universally quantified [oracles] record. *)
From Coq Require Import ZArith List Relations Permutation.
From V Require Import C09.Model C09.Laws C09.TopoLemmas C09.Lemmas C09.Lemmas2 C09.LawLemmas.
Import ListNotations.
Open Scope Z_scope.

(* CREATE: for every oracle answer, queue table and job object, Allowed implies
   every clause of the property (create_spec lists them) *)
Theorem C09_admit_create_sound : forall O qs j,
  validate_create O qs j = true -> create_spec O qs j.
Proof. exact admit_create_sound. Qed.
Print Assumptions C09_admit_create_sound.

(* topoSort (Kahn with in-degree counting): an accepted graph has an order that
   lists every task once, after all of its dependencies, which are tasks *)
Theorem C09_toposort_sound : forall g order, topo g = TopoOk order -> topo_order g order.
Proof. exact toposort_sound. Qed.
Print Assumptions C09_toposort_sound.

(* ... and for EVERY iteration order of Go's maps (initial stack order, which stack
   element is taken, order in which successors are visited): a run that outputs as
   many tasks as the job has outputs a topological order, so no order lets a cyclic
   or dangling graph through; the model's deterministic run is one such run *)
Theorem C09_toposort_sound_any_order : forall g st0 final,
  Permutation st0 (filter (fun n => deg0 g n =? 0) (dedup (gnames g) [])) ->
  krun g st0 (deg0 g) [] final -> length final = length g ->
  topo_order g (rev final).
Proof. exact toposort_sound_any_order. Qed.
Print Assumptions C09_toposort_sound_any_order.

Theorem C09_toposort_any_order_rejects : forall g st0 final,
  Permutation st0 (filter (fun n => deg0 g n =? 0) (dedup (gnames g) [])) ->
  krun g st0 (deg0 g) [] final -> length final = length g ->
  (forall n ds d, In (n, ds) g -> In d ds -> In d (gnames g)) /\
  (forall x, ~ clos_trans Z (edge g) x x).
Proof. exact toposort_any_order_rejects. Qed.
Print Assumptions C09_toposort_any_order_rejects.

Theorem C09_kahn_is_krun : forall g fuel st deg rs final,
  kahn fuel g st deg rs = Some final -> krun g st deg rs final.
Proof. exact kahn_is_krun. Qed.
Print Assumptions C09_kahn_is_krun.

Theorem C09_toposort_fuel_sufficient : forall g, topo g <> TopoFuel.
Proof. exact toposort_fuel_sufficient. Qed.
Print Assumptions C09_toposort_fuel_sufficient.

Theorem C09_toposort_rejects_cycle : forall g x, clos_trans Z (edge g) x x -> is_dag g = false.
Proof. exact toposort_rejects_cycle. Qed.
Print Assumptions C09_toposort_rejects_cycle.

Theorem C09_toposort_rejects_dangling : forall g n ds d,
  In (n, ds) g -> In d ds -> ~ In d (gnames g) -> is_dag g = false.
Proof. exact toposort_rejects_dangling. Qed.
Print Assumptions C09_toposort_rejects_dangling.

(* defaulting *)
Theorem C09_default_idempotent : forall d j, mutate d (mutate d j) = mutate d j.
Proof. exact default_idempotent. Qed.
Print Assumptions C09_default_idempotent.

(* hypotheses on the REQUEST only: it is valid once names and queue are filled in,
   and its own numbers are in range (replicas >= 0, explicit minAvailable >= 0, a
   partition-derived minAvailable fits: 0 <= minPartitions*partitionSize <= replicas,
   total replicas is an int32) *)
Theorem C09_default_preserves_validity : forall O qs d j,
  validate_create O qs (prefill j) = true -> request_in_range j = true ->
  validate_create O qs (mutate d j) = true.
Proof. exact default_preserves_validity_input. Qed.
Print Assumptions C09_default_preserves_validity.

(* the earlier form, with the range condition on the defaulted object (kept as a lemma
   of the former; its hypothesis contains part of the conclusion) *)
Theorem C09_default_preserves_validity_defaulted_range : forall O qs d j,
  validate_create O qs (prefill j) = true ->
  defaults_in_range (mutate d j) = true ->
  validate_create O qs (mutate d j) = true.
Proof. exact default_preserves_validity. Qed.
Print Assumptions C09_default_preserves_validity_defaulted_range.

(* ... and the range condition cannot be dropped (minPartitions > totalPartitions) *)
Theorem C09_default_validity_needs_range_refuted :
  exists O qs d j, validate_create O qs (prefill j) = true /\ validate_create O qs (mutate d j) = false.
Proof. exact default_validity_needs_range_refuted. Qed.
Print Assumptions C09_default_validity_needs_range_refuted.

(* UPDATE *)
Theorem C09_update_only_allowed_fields : forall old new,
  validate_update old new = true -> update_spec old new.
Proof. exact update_only_allowed_fields. Qed.
Print Assumptions C09_update_only_allowed_fields.

Theorem C09_update_preserves_inv : forall O old new,
  j_name new = j_name old -> job_inv O old -> validate_update old new = true -> job_inv O new.
Proof. exact update_preserves_inv. Qed.
Print Assumptions C09_update_preserves_inv.

(* every history of update requests against an admitted job *)
Theorem C09_admitted_job_stays_well_formed : forall O qs j us,
  validate_create O qs j = true -> Forall (fun u => j_name u = j_name j) us ->
  job_inv O (apply_updates j us).
Proof. exact admitted_job_stays_well_formed. Qed.
Print Assumptions C09_admitted_job_stays_well_formed.

(* limits of what the webhook guarantees, with witnesses *)
Theorem C09_create_minavail_needs_crd_bound :
  exists O qs j, validate_create O qs j = true /\ sumZ (map t_replicas (j_tasks j)) < j_minavail j.
Proof. exact create_minavail_needs_crd_bound. Qed.
Print Assumptions C09_create_minavail_needs_crd_bound.

Theorem C09_update_volume_strong_refuted :
  exists O qs old new, validate_create O qs old = true /\ validate_update old new = true /\
    j_name new = j_name old /\ ~ volumes_wf O (j_volumes new).
Proof. exact update_volume_strong_refuted. Qed.
Print Assumptions C09_update_volume_strong_refuted.

(* terminating queue objects (Examples: no model function reads q_term / j_term, so these are
   closed computations that document the reading; the assurance about terminating objects is the
   harness stream): a terminating child still makes its parent a non-leaf; a terminating target
   that is Open and childless is admitted *)
Example C09_create_terminating_child_still_blocks :
  validate_create tq_oracles [mkQueue 1 1 0 false; mkQueue 4 1 1 false; mkQueue 5 1 4 true] (tq_job 4) = false /\
  validate_create tq_oracles [mkQueue 1 1 0 false; mkQueue 4 1 1 false] (tq_job 4) = true.
Proof. exact create_terminating_child_still_blocks. Qed.

Example C09_create_admits_terminating_target :
  exists qs q, In q qs /\ q_term q = true /\ validate_create tq_oracles qs (tq_job (q_name q)) = true.
Proof. exact create_admits_terminating_target. Qed.

(* Terminating jobs: the Update case of AdmitJobs checks them like any other job *)
Example C09_update_on_terminating_job_still_checked :
  let t n r m d := mkTask n r (Some m) (mkTmpl 1 false 0) [] 3 d None in
  let jb ts ma q tm := mkJob 7 ts ma [] [] None q 1 3 0 0 0 tm in
  let old tm := jb [t 4 2 1 None; t 5 1 1 None] 2 2 tm in
  forall a b,
    validate_update (old a) (jb [t 4 2 1 None; t 5 1 1 None] 2 5 b) = false /\
    validate_update (old a) (jb [t 4 2 1 (Some ([5], 0)); t 5 1 1 (Some ([4], 0))] 2 2 b) = false /\
    validate_update (old a) (jb [t 4 2 3 None; t 5 1 1 None] 2 2 b) = false /\
    validate_update (old a) (jb [t 4 3 2 None; t 5 1 1 None] 3 2 b) = true.
Proof. exact update_on_terminating_job_still_checked. Qed.

(* N1 (second audit): "an update may change only replica counts, minAvailable and priority
   class while preserving these invariants" is NOT guaranteed for the claim name of a volume with
   an inline claim: an admitted update stores a name CREATE's validator rejects (known finding
   C09-update-claimname-under-inline-claim; laws 104 / 106 and update_spec / job_inv hold on it,
   law 107 does not) *)
Theorem C09_update_only_three_fields_refuted :
  exists O qs old new,
    validate_create O qs old = true /\ validate_update old new = true /\ j_name new = j_name old /\
    j_volumes new <> j_volumes old /\
    (exists v, In v (j_volumes new) /\ v_cname v <> 0 /\ o_pv O (v_cname v) = false) /\
    validate_create O qs new = false /\
    law_update old new true = true /\ law_persist O new = true /\
    law_update_claimname O old new true = false.
Proof. exact update_only_three_fields_refuted. Qed.
Print Assumptions C09_update_only_three_fields_refuted.

Theorem C09_law_update_claimname_sound : forall O old new,
  law_update_claimname O old new true = true -> length (j_volumes old) = length (j_volumes new) ->
  Forall2 (claimname_step_ok O) (j_volumes old) (j_volumes new).
Proof. exact law_update_claimname_sound. Qed.
Print Assumptions C09_law_update_claimname_sound.

(* ---- what the executable laws mean (Prop-level soundness; iff for the leaf checkers) ---- *)
Theorem C09_law_create_sound : forall O qs j,
  law_create O qs j true = true -> intrinsic_clauses O true j /\ queue_wf qs (j_queue j).
Proof. exact law_create_sound. Qed.
Print Assumptions C09_law_create_sound.

(* the admission theorem concludes the same clauses *)
Theorem C09_create_spec_clauses : forall O qs j,
  create_spec O qs j -> intrinsic_clauses O true j /\ queue_wf qs (j_queue j).
Proof. exact create_spec_clauses. Qed.
Print Assumptions C09_create_spec_clauses.

Theorem C09_law_persist_sound : forall O j, law_persist O j = true -> intrinsic_clauses O false j.
Proof. exact law_persist_sound. Qed.
Print Assumptions C09_law_persist_sound.

Theorem C09_job_inv_clauses : forall O j, job_inv O j -> intrinsic_clauses O false j.
Proof. exact job_inv_clauses. Qed.
Print Assumptions C09_job_inv_clauses.

Theorem C09_law_update_sound : forall old new, law_update old new true = true -> update_spec old new.
Proof. exact law_update_sound. Qed.
Print Assumptions C09_law_update_sound.

Theorem C09_law_topo_sound : forall g order, law_topo g true order = true -> topo_order g order.
Proof. exact law_topo_sound. Qed.
Print Assumptions C09_law_topo_sound.

Theorem C09_deps_ok_b_sound : forall g,
  NoDup (gnames g) -> deps_ok_b g = true -> exists order, topo_order g order.
Proof. exact deps_ok_b_sound. Qed.
Print Assumptions C09_deps_ok_b_sound.

Theorem C09_law_mutate_sound : forall j m1 m2, law_mutate j m1 m2 = true ->
  m2 = m1 /\ length (j_tasks m1) = length (j_tasks j) /\
  (forall t, In t (j_tasks m1) -> t_name t <> 0 /\ t_minavail t <> None /\ t_maxretry t <> 0) /\
  j_queue m1 <> 0 /\ j_maxretry m1 <> 0 /\
  (j_queue j <> 0 -> j_queue m1 = j_queue j) /\ (j_minavail j <> 0 -> j_minavail m1 = j_minavail j) /\
  (j_maxretry j <> 0 -> j_maxretry m1 = j_maxretry j) /\ (j_sched j <> 0 -> j_sched m1 = j_sched j) /\
  j_policies m1 = j_policies j /\ j_volumes m1 = j_volumes j /\ j_prio m1 = j_prio j /\ j_name m1 = j_name j.
Proof. exact law_mutate_sound. Qed.
Print Assumptions C09_law_mutate_sound.

(* law 103 is an implication between three observed booleans and request_in_range; unfolding
   it (LawLemmas.law_default_valid_sound) adds nothing and is not listed as a property theorem *)

Theorem C09_policies_wf_b_iff : forall ps, policies_wf_b ps = true <-> policies_wf ps.
Proof. exact policies_wf_b_iff. Qed.
Print Assumptions C09_policies_wf_b_iff.

Theorem C09_queue_wf_b_iff : forall qs qn, queue_wf_b qs qn = true <-> queue_wf qs qn.
Proof. exact queue_wf_b_iff. Qed.
Print Assumptions C09_queue_wf_b_iff.

Theorem C09_volumes_wf_b_strong_iff : forall O vs, volumes_wf_b O true vs = true <-> volumes_wf O vs.
Proof. exact volumes_wf_b_strong_iff. Qed.
Print Assumptions C09_volumes_wf_b_strong_iff.

(* a history with a refused request in the middle: verdicts, stored object *)
Example C09_history_with_refusal :
  let t r m := mkTask 4 r (Some m) (mkTmpl 1 false 0) [] 3 None None in
  let jb r m ma pr q := mkJob 7 [t r m] ma [] [] None q 1 3 pr 0 0 true in
  let j0 := jb 2 1 1 0 2 in
  let us := [jb 5 3 4 1 2; jb 5 3 4 1 5; jb 3 3 3 2 2] in
  validate_create tq_oracles [mkQueue 1 1 0 false; mkQueue 2 1 1 false] j0 = true /\
  update_verdicts j0 us = [true; false; true] /\
  apply_updates j0 us = jb 3 3 3 2 2 /\
  Forall (fun u => j_name u = j_name j0) us.
Proof. exact history_with_refusal. Qed.

(* non-vacuity: a three-task job with a dependency chain, a partition policy,
   policies, volumes and the mpi plugin is admitted, stays admitted after
   defaulting, and accepts a replica update *)
Definition ex_oracles := mkOracles (fun n _ => negb (n =? 0)) (fun _ _ _ => true) (fun _ => true) (fun _ => true).
Definition ex_queues := [mkQueue 1 1 0 false; mkQueue 2 1 1 false; mkQueue 3 1 1 true; mkQueue 5 1 3 true].
Definition ex_job : job :=
  mkJob 2001
    [mkTask 1 2 None (mkTmpl 1 true 0) [mkPolicy 2 2 [3; 2] None 30; mkPolicy 1 0 [] (Some 137) 0] 0 None None;
     mkTask 0 4 None (mkTmpl 2 false 0) [] 0 (Some ([1], 1)) (Some (mkPart 2 2 1 0));
     mkTask 5 1 (Some 1) (mkTmpl 1 false 2) [] 2 (Some ([1; 1001], 0)) None]
    0 [mkPolicy 7 1 [1] None 0] [mkVol 1 2 None; mkVol 2 0 (Some 1)]
    (Some [mkPlugin 5 0 0]) 0 0 0 0 1 2 false.
Example C09_nonvacuous :
  validate_create ex_oracles ex_queues (prefill ex_job) = true /\
  request_in_range ex_job = true /\
  defaults_in_range (mutate 1 ex_job) = true /\
  validate_create ex_oracles ex_queues (mutate 1 ex_job) = true /\
  validate_create ex_oracles ex_queues ex_job = false /\
  (exists o, topo (graph_of (j_tasks (mutate 1 ex_job))) = TopoOk o) /\
  (let m := mutate 1 ex_job in
   let u := mkJob (j_name m)
              (match j_tasks m with a :: r => mkTask (t_name a) 5 (Some 3) (t_tmpl a) (t_policies a)
                                               (t_maxretry a) (t_deps a) (t_part a) :: r | [] => [] end)
              6 (j_policies m) (j_volumes m) (j_plugins m) (j_queue m) (j_sched m) (j_maxretry m) 9
              (j_nt m) (j_rest m) true in
   validate_update m u = true /\ m <> u).
Proof. vm_compute. repeat split; try reflexivity; [eexists; reflexivity | discriminate]. Qed.
