(* Property C14 — topology constraints are honoured; the HyperNode view is
   order-independent.  Property theorems only; each is closed by [exact] of a
   lemma proved in C14/Lemmas.v or C14/SmallScope.v and followed by its assumptions. *)
From Coq Require Import ZArith List Bool.
From V Require Import C14.Model C14.Laws C14.Lemmas C14.SmallScope C14.SmallScope2.
Import ListNotations.
Open Scope Z_scope.

(* --- GetAncestors / GetLCAHyperNode, for EVERY parent function (every state of the
   map: Parent pointers with the getParent fallback), whenever the walk's fuel sufficed --- *)
Theorem C14_ancestors_spec : forall par fuel x l,
  ancestors_gen par fuel x = Some l -> forall y, In y l <-> anc par x y.
Proof. exact ancestors_spec. Qed.
Print Assumptions C14_ancestors_spec.

Theorem C14_lca_correct : forall par fuel a b r,
  lca_gen par fuel (Some a) (Some b) = Some r ->
  match r with
  | Some x => anc par a x /\ anc par b x /\ forall c, anc par a c -> anc par b c -> anc par x c
  | None => forall c, anc par a c -> anc par b c -> False
  end.
Proof. exact lca_correct. Qed.
Print Assumptions C14_lca_correct.

(* --- placement: every HyperNode offered to a hard-mode job has tier <= limit and
   lies in the Children-subtree of the search root ... --- *)
Theorem C14_gradient_tier_bound : forall hn start limit alloc l,
  gradient hn start limit alloc = GOk l ->
  exists r, search_root hn start limit alloc = ROk r /\
    forall x t, In (x, t) l -> t <= limit /\ tier_of hn x = Some t /\ reach hn r x.
Proof. exact gradient_tier_bound. Qed.
Print Assumptions C14_gradient_tier_bound.

(* ... and with a prior allocation a that root is the start HyperNode (when it lies under
   the highest allowed ancestor hha of a) or hha itself, hha being an ancestor-or-self of
   a with tier <= limit *)
Theorem C14_search_root_with_allocation : forall hn start limit a r,
  search_root hn start limit (Some a) = ROk r ->
  exists ancs hha t,
    get_ancestors hn a = Some ancs /\ In hha ancs /\ tier_of hn hha = Some t /\ t <= limit /\
    ((r = start /\ get_lca hn (Some start) (Some hha) = Some (Some hha)) \/
     (r = hha /\ get_lca hn (Some start) (Some hha) = Some (Some start))).
Proof. exact search_root_with_allocation. Qed.
Print Assumptions C14_search_root_with_allocation.

Theorem C14_allocated_hypernode_is_lca : forall hn prev chosen,
  new_allocated hn prev chosen = get_lca hn prev (Some chosen).
Proof. exact allocated_hypernode_is_lca. Qed.
Print Assumptions C14_allocated_hypernode_is_lca.

(* --- the view: PARTIAL (bounded universe, unbounded history length).  For every history
   of add / update / delete events over the universe u_alphabet (4 HyperNodes on 3 tiers,
   15 object versions, exact-match members) whose every intermediate object set is a
   consistent forest: the incremental view equals the tree derived from the final objects
   (parent, children, tier, leaves below), is Ready, and agrees with a from-scratch view --- *)
Theorem C14_incremental_equals_scratch_small_scope : forall h,
  guards_along u_env u_alphabet u_init h ->
  let c := fold_left (cstep u_env) h u_init in
  view_matches_spec u_env (c_objs c) (c_st c) = true /\
  s_ready (c_st c) = true /\ s_fuel (c_st c) = false /\
  views_agree (c_objs c) (c_st c) (scratch u_env (c_objs c)) = true.
Proof. exact incremental_equals_scratch_small_scope. Qed.
Print Assumptions C14_incremental_equals_scratch_small_scope.

(* the same statement on a second universe: a four-tier chain h1<h2<h3<h4 and a leaf h5
   that can hang under any of them *)
Theorem C14_incremental_equals_scratch_small_scope2 : forall h,
  guards_along v_env v_alphabet u_init h ->
  let c := fold_left (cstep v_env) h u_init in
  view_matches_spec v_env (c_objs c) (c_st c) = true /\
  s_ready (c_st c) = true /\ s_fuel (c_st c) = false /\
  views_agree (c_objs c) (c_st c) (scratch v_env (c_objs c)) = true.
Proof. exact incremental_equals_scratch_small_scope2. Qed.
Print Assumptions C14_incremental_equals_scratch_small_scope2.

(* --- errors are reported (all states, all inputs): a failing UpdateHyperNode /
   DeleteHyperNode leaves Ready = false; the two error sources of BuildHyperNodeCache --- *)
Theorem C14_upd_error_not_ready : forall e s o s', upd e s o = (s', true) -> s_ready s' = false.
Proof. exact upd_error_not_ready. Qed.
Print Assumptions C14_upd_error_not_ready.

Theorem C14_del_error_not_ready : forall e s nm s', del e s nm = (s', true) -> s_ready s' = false.
Proof. exact del_error_not_ready. Qed.
Print Assumptions C14_del_error_not_ready.

Theorem C14_build_cycle_errors : forall f e s nm processed chain ancset,
  pmem nm chain = true -> build (S f) e s nm processed chain ancset = (s, processed, true).
Proof. exact build_cycle_errors. Qed.
Print Assumptions C14_build_cycle_errors.

Theorem C14_add_child_second_parent_errors : forall s parent c i p,
  aget c (s_hn s) = Some i -> i_parent i = Some p -> p <> parent ->
  add_child s parent c = (s, true).
Proof. exact add_child_second_parent_errors. Qed.
Print Assumptions C14_add_child_second_parent_errors.

(* --- the code before the repairs violated the property (run_prefix); the repaired code
   (run) does not, on the same inputs --- *)
Theorem C14_d1_ready_restored_refuted : exists evs,
  let objs := [mkObj 2 3 [MHyper 2]; mkObj 1 1 [MNode 5]]%positive in
  bad_membership objs = true /\
  s_ready (snd (run_prefix (mkEnv [] []) evs)) = true /\
  s_ready (snd (run (mkEnv [] []) evs)) = false.
Proof. exact d1_ready_restored_refuted. Qed.
Print Assumptions C14_d1_ready_restored_refuted.

Theorem C14_d3_gradient_crash_refuted : exists evs,
  gradient (add_top (snd (run_prefix (mkEnv [] []) evs))) top_name 5 None = GCrash /\
  exists l, gradient (add_top (snd (run (mkEnv [] []) evs))) top_name 5 None = GOk l.
Proof. exact d3_gradient_crash_refuted. Qed.
Print Assumptions C14_d3_gradient_crash_refuted.

Theorem C14_d4_tier0_not_indexed_refuted : exists evs,
  zget 0 (s_tier (snd (run_prefix (mkEnv [] []) evs))) = None /\
  zget 0 (s_tier (snd (run (mkEnv [] []) evs))) = Some [1%positive].
Proof. exact d4_tier0_not_indexed_refuted. Qed.
Print Assumptions C14_d4_tier0_not_indexed_refuted.

(* --- still refuted at full strength on the repaired code (known findings D5 / D7): a
   doubly claimed member can stay unreported --- *)
Theorem C14_bad_membership_not_ready_refuted : exists evs,
  let objs := [mkObj 1 2 [MHyper 2]; mkObj 3 2 [MHyper 2]]%positive in
  bad_membership objs = true /\ s_ready (snd (run (mkEnv [] []) evs)) = true.
Proof. exact bad_membership_not_ready_refuted. Qed.
Print Assumptions C14_bad_membership_not_ready_refuted.

(* non-vacuity *)
Example C14_small_scope_nonvacuous :
  guards_along u_env u_alphabet u_init
    [EUpd (mkObj 4 3 [MHyper 3]); EUpd (mkObj 3 2 [MHyper 1; MHyper 2]); EUpd (mkObj 1 1 [MNode 1]);
     EUpd (mkObj 2 1 [MNode 2]); EUpd (mkObj 3 2 [MHyper 1]); EUpd (mkObj 4 3 [MHyper 3; MHyper 2]);
     EDel 1; EUpd (mkObj 1 1 [MNode 1; MNode 2])]%positive.
Proof. exact small_scope_nonvacuous. Qed.

Example C14_gradient_nonvacuous :
  let s := snd (run (mkEnv [] []) [EUpd (mkObj 1 1 [MNode 1]); EUpd (mkObj 2 1 [MNode 2]);
                                   EUpd (mkObj 3 2 [MHyper 1; MHyper 2]); EUpd (mkObj 4 2 [])])%positive in
  gradient (add_top s) top_name 1 (Some 1%positive) = GOk [(1%positive, 1)] /\
  get_lca (add_top s) (Some 1%positive) (Some 2%positive) = Some (Some 3%positive).
Proof. vm_compute. split; reflexivity. Qed.
