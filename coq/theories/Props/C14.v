(* Property C14 — topology constraints are honoured; the HyperNode view is
   order-independent.  Property theorems only; each is closed by [exact] of a
   lemma proved in C14/Lemmas.v or C14/SmallScope.v and followed by its assumptions. *)
From Coq Require Import ZArith List Bool.
From V Require Import C14.Model C14.Laws C14.LawsPlace C14.Lemmas C14.Scratch C14.Recover C14.Audit C14.Compose.
From Coq Require Import Permutation.
Import ListNotations.
Open Scope Z_scope.

(* --- GetAncestors / GetLCAHyperNode, for EVERY parent function (every state of the
   map: Parent pointers with the getParent fallback), whenever the walk's fuel sufficed --- *)
Theorem C14_ancestors_spec : forall par fuel x l,
  ancestors_gen par fuel x = Some l -> forall y, In y l <-> anc par x y.
Proof. exact ancestors_spec. Qed.
Print Assumptions C14_ancestors_spec.

Theorem C14_lca_correct : forall par fuel a b r,
  lca_gen par fuel (Some a) (Some b) = Some r ->
  match r with
  | Some x => anc par a x /\ anc par b x /\ forall c, anc par a c -> anc par b c -> anc par x c
  | None => forall c, anc par a c -> anc par b c -> False
  end.
Proof. exact lca_correct. Qed.
Print Assumptions C14_lca_correct.

(* --- placement: every HyperNode offered to a hard-mode job has tier <= limit and
   lies in the Children-subtree of the search root ... --- *)
Theorem C14_gradient_tier_bound : forall hn start limit alloc l,
  gradient hn start limit alloc = GOk l ->
  exists r, search_root hn start limit alloc = ROk r /\
    forall x t, In (x, t) l -> t <= limit /\ tier_of hn x = Some t /\ reach hn r x.
Proof. exact gradient_tier_bound. Qed.
Print Assumptions C14_gradient_tier_bound.

(* ... and with a prior allocation a that root is the start HyperNode (when it lies under
   the highest allowed ancestor hha of a) or hha itself, hha being an ancestor-or-self of
   a with tier <= limit *)
Theorem C14_search_root_with_allocation : forall hn start limit a r,
  search_root hn start limit (Some a) = ROk r ->
  exists ancs hha t,
    get_ancestors hn a = Some ancs /\ In hha ancs /\ tier_of hn hha = Some t /\ t <= limit /\
    ((r = start /\ get_lca hn (Some start) (Some hha) = Some (Some hha)) \/
     (r = hha /\ get_lca hn (Some start) (Some hha) = Some (Some start))).
Proof. exact search_root_with_allocation. Qed.
Print Assumptions C14_search_root_with_allocation.

(* The code records as AllocatedHyperNode LCA(previous allocation, the HyperNode DOMAIN chosen by
   the gradient) (allocate.go:525,645; recorder.go:66,79); that LCA is characterised by
   C14_lca_correct.  The record is checked on real traces only (law 109: holds every placement,
   tier <= limit).  It is in general ABOVE the LCA of the nodes actually bound: the property
   text's "recorded = LCA of the placements" is false for the code (finding D11, law 113); the
   witness below shows a tier-2 domain recorded while a tier-1 HyperNode holds node n1 *)


Theorem C14_recorded_is_lca_of_placements_refuted :
  let s := scratch (mkEnv [] []) [mkObj 1 1 [MNode 1]; mkObj 2 1 [MNode 2]; mkObj 3 2 [MHyper 1; MHyper 2]]%positive in
  let hn := add_top s in
  new_allocated hn None 3%positive = Some (Some 3%positive) /\
  real_get s 1 = [1%positive] /\ real_get s 3 = [1; 2]%positive /\
  tier_of hn 1%positive = Some 1 /\ tier_of hn 3%positive = Some 2.
Proof. exact recorded_is_lca_of_placements_refuted. Qed.
Print Assumptions C14_recorded_is_lca_of_placements_refuted.

(* --- placement composed with the view (any forest built leaf-first; top_name is not a HyperNode
   name): every HyperNode offered to a hard-mode job has tier <= limit and its leaf set lies in
   the leaf set of the HyperNode the search started from; with a prior allocation a there is ONE
   HyperNode H of tier <= limit whose leaf set holds the nodes of the offered HyperNode and the
   nodes of a.  (allocate restricts the candidate nodes of a try to that leaf set — allocate.go,
   not modelled: laws 108/109 on real traces.) --- *)
Theorem C14_gradient_on_forest_no_allocation : forall e P, leaf_first P -> find_obj P top_name = None ->
  forall start limit l x t, start <> top_name ->
  gradient (add_top (scratch e P)) start limit None = GOk l -> In (x, t) l ->
  t <= limit /\ tier_of (add_top (scratch e P)) x = Some t /\
  forall n, In n (real_get (scratch e P) x) -> In n (real_get (scratch e P) start).
Proof. exact gradient_on_forest_no_allocation. Qed.
Print Assumptions C14_gradient_on_forest_no_allocation.

Theorem C14_gradient_on_forest_with_allocation : forall e P, leaf_first P -> find_obj P top_name = None ->
  forall start limit a l x t,
  gradient (add_top (scratch e P)) start limit (Some a) = GOk l -> In (x, t) l ->
  t <= limit /\
  exists H tH, tier_of (add_top (scratch e P)) H = Some tH /\ tH <= limit /\
    (H = top_name \/
     ((forall n, In n (real_get (scratch e P) x) -> In n (real_get (scratch e P) H)) /\
      (forall n, In n (real_get (scratch e P) a) -> In n (real_get (scratch e P) H)))).
Proof. exact gradient_on_forest_with_allocation. Qed.
Print Assumptions C14_gradient_on_forest_with_allocation.

(* --- the placement laws mean the clause (soundness of the boolean checkers) --- *)
Theorem C14_law_placement_sound : forall hn real limit recorded nodes,
  law_placement hn real limit recorded nodes = true ->
  nodes = [] \/
  exists h i l, In (h, i) hn /\ i_tier i <= limit /\ aget h real = Some l /\ forall n, In n nodes -> In n l.
Proof. exact law_placement_sound. Qed.
Print Assumptions C14_law_placement_sound.

Theorem C14_law_recorded_sound : forall hn real limit r nodes,
  law_recorded hn real limit (Some r) nodes = true -> nodes <> [] ->
  (exists i, aget r hn = Some i /\ i_tier i <= limit) /\
  exists l, aget r real = Some l /\ forall n, In n nodes -> In n l.
Proof. exact law_recorded_sound. Qed.
Print Assumptions C14_law_recorded_sound.

Theorem C14_law_not_ready_no_bind_sound : forall nr k,
  law_not_ready_no_bind nr k = true -> nr = true -> k = 0.
Proof. exact law_not_ready_no_bind_sound. Qed.
Print Assumptions C14_law_not_ready_no_bind_sound.

(* --- recovery of the AllocatedHyperNode at session open (recoverAllocatedHyperNode): the
   HyperNode recovered for a sub-job holds every node that hosts one of its tasks in an
   allocated status (Bound, Binding, Running, Allocated) and no HyperNode of a lower tier
   does; nothing is recovered only if there is no such task or no HyperNode holds them all --- *)
Theorem C14_recover_sub_spec : forall hn real nodes h,
  recover_sub hn real nodes = Some h ->
  covers_all real h nodes = true /\
  exists i, In (h, i) hn /\
    forall k i', In (k, i') hn -> covers_all real k nodes = true -> i_tier i <= i_tier i'.
Proof. exact recover_sub_spec. Qed.
Print Assumptions C14_recover_sub_spec.

Theorem C14_recover_sub_none : forall hn real nodes,
  recover_sub hn real nodes = None ->
  nodes = [] \/ forall ki, In ki hn -> covers_all real (fst ki) nodes = false.
Proof. exact recover_sub_none. Qed.
Print Assumptions C14_recover_sub_none.

(* the HyperNode recovered for the job is an ancestor-or-self of every sub-job's recovered
   HyperNode and the lowest such (for every parent function; uses C14_lca_correct) *)
Theorem C14_recover_job_spec : forall par fuel subs r stop,
  lca_fold (lca_gen par fuel) subs = Some (Some r, stop) ->
  (forall h, In (Some h) subs -> anc par h r) /\
  (forall c, (forall h, In (Some h) subs -> anc par h c) -> anc par r c).
Proof. exact recover_job_spec. Qed.
Print Assumptions C14_recover_job_spec.

(* --- tier limits given by NAME (adjustNetworkTopologySpec): a sub-group's valid tier name is
   translated to its tier whatever the job-level spec is (absent, a number, a valid or an
   unknown name); the variant that skips the sub-jobs after a job-level failure (seeded mutant
   C14-r5-2) loses the limit --- *)
Theorem C14_adjust_sub_valid_name : forall table job subs role n,
  In (role, Some (TName n)) subs -> existsb (Z.eqb n) table = true ->
  In (role, Some n) (snd (adjust false table job subs)).
Proof. exact adjust_sub_valid_name. Qed.
Print Assumptions C14_adjust_sub_valid_name.

(* finding D13: a hard limit given by a tier name that no HyperNode carries is NOT translated —
   the spec keeps no numeric limit, the job is scheduled without constraint *)
Theorem C14_adjust_unknown_name_unconstrained :
  fst (adjust false [1; 2] (Some (TName 0)) []) = None /\
  fst (adjust false [1; 2] (Some (TName 2)) []) = Some 2.
Proof. exact adjust_unknown_name_unconstrained. Qed.
Print Assumptions C14_adjust_unknown_name_unconstrained.

Theorem C14_adjust_skip_refuted :
  let table := [1; 2] in
  let subs := [(1, Some (TName 1))] in
  snd (adjust true table (Some (TName 0)) subs) = [(1, None)] /\
  snd (adjust false table (Some (TName 0)) subs) = [(1, Some 1)].
Proof. exact adjust_skip_refuted. Qed.
Print Assumptions C14_adjust_skip_refuted.

(* --- the view, UNBOUNDED (any number of HyperNodes, tiers, members): for every set of objects
   with exact-match members that arrives leaf-first (each object after all its HyperNode
   members, which exist and are not yet claimed: a consistent forest built bottom-up), the
   view built by UpdateHyperNode is the tree derived from the objects:
   entry(k) = (tier, members, the unique claimer as parent, the claimed members as children),
   realNodes(k) = the node members at or below k, tier sets = objects by tier, Ready --- *)
Theorem C14_rebuild_from_scratch_spec_leaf_first : forall e P, leaf_first P -> Rep (scratch e P) P.
Proof. exact scratch_leaf_first. Qed.
Print Assumptions C14_rebuild_from_scratch_spec_leaf_first.

(* order-independence on that class: any two leaf-first arrival orders of the same objects
   give the same entries, leaf sets, tier sets, and both are Ready *)
Theorem C14_leaf_first_arrival_order_independent : forall e P Q,
  leaf_first P -> leaf_first Q -> Permutation P Q ->
  let s := scratch e P in let s' := scratch e Q in
  (forall k, aget k (s_hn s) = aget k (s_hn s')) /\
  (forall k n, In n (real_get s k) <-> In n (real_get s' k)) /\
  (forall t k, In k (match zget t (s_tier s) with Some l => l | None => [] end) <->
               In k (match zget t (s_tier s') with Some l => l | None => [] end)) /\
  s_ready s = true /\ s_ready s' = true.
Proof. exact leaf_first_order_independent. Qed.
Print Assumptions C14_leaf_first_arrival_order_independent.

(* --- the view: the small-scope order-independence theorems live in Props/C14SmallScope.v
   (thorough tier only: ~20 min of clean Coq build) --- *)

(* --- errors are reported (all states, all inputs): a failing UpdateHyperNode /
   DeleteHyperNode leaves Ready = false (this includes model-fuel exhaustion, which never
   occurs on explored inputs); the one-step facts about the two error sources of
   BuildHyperNodeCache are lemmas (Lemmas.v build_cycle_errors, add_child_second_parent_errors) --- *)
Theorem C14_upd_error_not_ready : forall e s o s', upd e s o = (s', true) -> s_ready s' = false.
Proof. exact upd_error_not_ready. Qed.
Print Assumptions C14_upd_error_not_ready.

Theorem C14_del_error_not_ready : forall e s nm s', del e s nm = (s', true) -> s_ready s' = false.
Proof. exact del_error_not_ready. Qed.
Print Assumptions C14_del_error_not_ready.





(* --- the code before the repairs violated the property (run_prefix); the repaired code
   (run) does not, on the same inputs --- *)
Theorem C14_d1_ready_restored_refuted : exists evs,
  let objs := [mkObj 2 3 [MHyper 2]; mkObj 1 1 [MNode 5]]%positive in
  bad_membership objs = true /\
  s_ready (snd (run_prefix (mkEnv [] []) evs)) = true /\
  s_ready (snd (run (mkEnv [] []) evs)) = false.
Proof. exact d1_ready_restored_refuted. Qed.
Print Assumptions C14_d1_ready_restored_refuted.

Theorem C14_d3_gradient_crash_refuted : exists evs,
  gradient (add_top (snd (run_prefix (mkEnv [] []) evs))) top_name 5 None = GCrash /\
  exists l, gradient (add_top (snd (run (mkEnv [] []) evs))) top_name 5 None = GOk l.
Proof. exact d3_gradient_crash_refuted. Qed.
Print Assumptions C14_d3_gradient_crash_refuted.

Theorem C14_d4_tier0_not_indexed_refuted : exists evs,
  zget 0 (s_tier (snd (run_prefix (mkEnv [] []) evs))) = None /\
  zget 0 (s_tier (snd (run (mkEnv [] []) evs))) = Some [1%positive].
Proof. exact d4_tier0_not_indexed_refuted. Qed.
Print Assumptions C14_d4_tier0_not_indexed_refuted.

Theorem C14_d6_failed_delete_refuted : exists evs,
  let objs := [mkObj 1 1 []; mkObj 2 3 [MHyper 1]; mkObj 3 2 [MHyper 1]]%positive in
  bad_membership objs = true /\
  s_ready (snd (run_round2 (mkEnv [] []) evs)) = true /\
  s_ready (snd (run (mkEnv [] []) evs)) = false.
Proof. exact d6_failed_delete_refuted. Qed.
Print Assumptions C14_d6_failed_delete_refuted.

Theorem C14_d9_foreign_release_refuted : exists evs,
  (exists i, aget 2%positive (s_hn (snd (run_round2 (mkEnv [] []) evs))) = Some i /\ i_parent i = None) /\
  (exists i, aget 2%positive (s_hn (snd (run (mkEnv [] []) evs))) = Some i /\ i_parent i = Some 3%positive).
Proof. exact d9_foreign_release_refuted. Qed.
Print Assumptions C14_d9_foreign_release_refuted.

(* D8 (round 5): a sub-job without a topology of its own was skipped by the recovery although
   its job is constrained, so the job's running pod was forgotten *)
Theorem C14_d8_recovery_refuted :
  let '(hn, real) := trace_session 2 [(1%positive, [1]); (1%positive, [1])] in
  let pods := [(1, 2%positive, 2); (0, 1%positive, 1)] in
  snd (recover_all_gen false hn real 1 pods) = Some None /\
  snd (recover_all_gen true hn real 1 pods) = Some (Some 2%positive).
Proof. exact d8_recovery_refuted. Qed.
Print Assumptions C14_d8_recovery_refuted.

(* D10 (round 5): the recorder replayed the sub-job decision of a candidate that an earlier
   round had only tried: sub-job 1 ended above its tier-1 limit (h4) instead of h3 *)
Theorem C14_d10_stale_decision_refuted :
  let '(hn, _) := trace_session 2 [(1%positive, [1; 1; 1]); (1%positive, [2]); (1%positive, [1])] in
  let rounds : list round :=
    [ ([(2%positive, [(1, 2%positive)]); (3%positive, [(1, 3%positive)]); (1%positive, [(1, 1%positive)])], 3%positive);
      ([(3%positive, [(2, 3%positive)]); (1%positive, [(2, 1%positive)]); (2%positive, [(2, 2%positive)])], 2%positive) ] in
  zget 1 (run_rounds false hn rounds) = Some (Some 4%positive) /\
  zget 1 (run_rounds true hn rounds) = Some (Some 3%positive) /\
  zget 2 (run_rounds true hn rounds) = Some (Some 2%positive).
Proof. exact d10_stale_decision_refuted. Qed.
Print Assumptions C14_d10_stale_decision_refuted.

(* D5 (round 5): on the state after "h1 claims h2; h2 created; h2 deleted", a second claimer
   h3 of h2 was accepted by addChild; now it is refused *)
Theorem C14_d5_second_claimer_refuted :
  let s := snd (run (mkEnv [] []) [EUpd (mkObj 1 2 [MHyper 2]); EUpd (mkObj 2 1 []); EDel 2;
                                   EUpd (mkObj 4 1 [])])%positive in
  let s3 := set_hn s (aset 3%positive (mkInfo 2 [MHyper 2%positive] None [] false) (s_hn s)) in
  snd (add_child_prefix s3 3 2) = false /\ add_child s3 3 2 = (s3, true).
Proof. exact d5_second_claimer_refuted. Qed.
Print Assumptions C14_d5_second_claimer_refuted.

Theorem C14_d2a_label_leaf_stale_refuted :
  let e := mkEnv [1%positive] [(1%positive, [1%positive])] in
  let evs := [EUpd (mkObj 1 1 [MSel true 1]); ENodeDel 1]%positive in
  real_get (snd (run_round4 e evs)) 1 = [1%positive] /\ real_get (snd (run e evs)) 1 = [].
Proof. exact d2a_label_leaf_stale_refuted. Qed.
Print Assumptions C14_d2a_label_leaf_stale_refuted.

(* --- bad membership => not ready, where it holds --- *)
(* (the invariant "Ready implies that the private set failedRebuilds is empty", proved for all
   histories in Audit.v ready_implies_no_failed_rebuild, relates two internal fields and is not
   counted as a property theorem) *)


(* a second claim of an EXISTING member is refused: on the view of any forest P, an object with a
   NEW name whose members before c are exact-match, present and unclaimed, and which then lists a
   HyperNode c that already has a parent p, makes UpdateHyperNode fail and the view not ready *)
Theorem C14_second_claim_not_ready : forall e s P nm t ms1 c rest p,
  Rep s P ->
  find_obj P nm = None ->
  Forall (fun m => match m with
                   | MNode _ => True | MSel _ _ => False
                   | MHyper c' => c' <> nm /\ find_obj P c' <> None /\ spec_parent P c' = None
                   end) ms1 ->
  c <> nm -> find_obj P c <> None -> spec_parent P c = Some p -> p <> nm ->
  ~ In (MHyper c) ms1 ->
  exists s', upd e s (mkObj nm t (ms1 ++ MHyper c :: rest)) = (s', true) /\ s_ready s' = false.
Proof. exact second_claim_not_ready. Qed.
Print Assumptions C14_second_claim_not_ready.

(* --- what the boolean view checker of the small-scope theorems and of law 101 means --- *)
Theorem C14_view_matches_spec_sound : forall e objs v,
  view_matches_spec e objs v = true ->
  (forall o, In o objs -> exists i,
      aget (o_name o) (s_hn v) = Some i /\
      i_tier i = o_tier o /\
      i_parent i = spec_parent objs (o_name o) /\
      real_only objs (i_children i) = real_only objs (hchildren (o_members o)) /\
      (forall c, In c (i_children i) -> pmem c (hchildren (o_members o)) = true /\ aget c (s_hn v) <> None) /\
      real_get v (o_name o) = spec_real (S (length objs)) e objs (o_name o)) /\
  s_tier v = spec_tiers objs /\
  (forall k l, In (k, l) (s_real v) -> pmem k (obj_names objs) = true \/ l = []).
Proof. exact view_matches_spec_sound. Qed.
Print Assumptions C14_view_matches_spec_sound.

(* --- the VIEW clause (order-independence) is false on the code in two classes: known
   findings D2 (mixed selector / HyperNode members) and D7 (tier inversion) --- *)
Theorem C14_view_order_independence_refuted_mixed_members :
  let e0 := mkEnv [] [(1%positive, [1%positive])] in
  let objs := [mkObj 2 1 []; mkObj 1 2 [MSel false 1; MHyper 2]]%positive in
  let incr := run e0 (map EUpd objs ++ [ENodeAdd 1%positive]) in
  real_get (snd incr) 1 = [] /\
  real_get (scratch (fst incr) objs) 1 = [1%positive] /\
  s_ready (snd incr) = true.
Proof. exact view_order_independence_refuted_mixed_members. Qed.
Print Assumptions C14_view_order_independence_refuted_mixed_members.

Theorem C14_view_order_independence_refuted_tier_inversion :
  let e0 := mkEnv [] [] in
  let evs := [EUpd (mkObj 3 1 [MHyper 1]); EDel 1; EUpd (mkObj 1 1 []); EUpd (mkObj 1 0 [])]%positive in
  let objs := [mkObj 1 0 []; mkObj 3 1 [MHyper 1]]%positive in
  forest_ok objs = true /\
  (exists i, aget 1%positive (s_hn (snd (run e0 evs))) = Some i /\ i_parent i = None) /\
  (exists i, aget 1%positive (s_hn (scratch e0 objs)) = Some i /\ i_parent i = Some 3%positive).
Proof. exact view_order_independence_refuted_tier_inversion. Qed.
Print Assumptions C14_view_order_independence_refuted_tier_inversion.

(* D14: a deletion that resolves a double claim was blocked for ever by that very double claim
   (the members of the HyperNode being deleted were released only after the rebuild of its
   ancestors, which failed on them); now they are released first *)
Theorem C14_d14_blocked_delete_refuted :
  let e := mkEnv [] [] in
  let evs := [EUpd (mkObj 2 1 [MHyper 4]); EUpd (mkObj 3 3 [MHyper 4; MHyper 2]); EDel 2; EDel 2]%positive in
  forest_ok [mkObj 3 3 [MHyper 4; MHyper 2]]%positive = true /\
  (s_ready (snd (run_round8 e evs)) = false /\ aget 2%positive (s_hn (snd (run_round8 e evs))) <> None) /\
  (s_ready (snd (run e evs)) = true /\
   exists i, aget 3%positive (s_hn (snd (run e evs))) = Some i /\ i_children i = [4%positive]).
Proof. exact d14_blocked_delete_refuted. Qed.
Print Assumptions C14_d14_blocked_delete_refuted.

(* D15: the object of a HyperNode listed by two HyperNodes arrives last; only one claimer's
   chain was rebuilt and the double claim could end reported as repaired *)
Theorem C14_d15_arrival_under_two_claimers_refuted :
  let e := mkEnv [] [] in
  let evs := [EUpd (mkObj 3 2 [MHyper 1]); EDel 1; EUpd (mkObj 2 1 [MHyper 1]); EUpd (mkObj 1 0 [])]%positive in
  bad_membership [mkObj 1 0 []; mkObj 2 1 [MHyper 1]; mkObj 3 2 [MHyper 1]]%positive = true /\
  s_ready (snd (run_round9 e evs)) = true /\ s_ready (snd (run e evs)) = false.
Proof. exact d15_arrival_under_two_claimers_refuted. Qed.
Print Assumptions C14_d15_arrival_under_two_claimers_refuted.

(* --- still refuted at full strength on the repaired code (known finding D7): a cycle between
   two HyperNodes of the same tier stays unreported --- *)
Theorem C14_bad_membership_not_ready_refuted : exists evs,
  let objs := [mkObj 1 1 [MHyper 2]; mkObj 2 1 [MHyper 1]]%positive in
  bad_membership objs = true /\ s_ready (snd (run (mkEnv [] []) evs)) = true.
Proof. exact bad_membership_not_ready_refuted. Qed.
Print Assumptions C14_bad_membership_not_ready_refuted.

(* non-vacuity *)
Example C14_leaf_first_nonvacuous :
  leaf_first [mkObj 1 1 [MNode 1; MNode 2]; mkObj 2 1 [MNode 3]; mkObj 5 1 [];
              mkObj 3 2 [MHyper 1; MNode 4; MHyper 2]; mkObj 4 3 [MHyper 3]; mkObj 6 2 [MHyper 5]]%positive.
Proof. exact leaf_first_example. Qed.

(* non-vacuity of the composed placement theorems, of the second-claim theorem and of the
   recovery theorems, on the six-object forest of C14_leaf_first_nonvacuous *)
Example C14_compose_nonvacuous :
  let P := [mkObj 1 1 [MNode 1; MNode 2]; mkObj 2 1 [MNode 3]; mkObj 5 1 [];
            mkObj 3 2 [MHyper 1; MNode 4; MHyper 2]; mkObj 4 3 [MHyper 3]; mkObj 6 2 [MHyper 5]]%positive in
  let s := scratch (mkEnv [] []) P in
  find_obj P top_name = None /\
  gradient (add_top s) 3%positive 1 None = GOk [(1%positive, 1); (2%positive, 1)] /\
  gradient (add_top s) top_name 2 (Some 1%positive) = GOk [(3%positive, 2); (1%positive, 1); (2%positive, 1)] /\
  real_get s 3 = [1; 2; 3; 4]%positive.
Proof. vm_compute. repeat split; reflexivity. Qed.

Example C14_second_claim_nonvacuous :
  let P := [mkObj 1 1 [MNode 1]; mkObj 5 1 []; mkObj 6 2 [MHyper 5]]%positive in
  let s := scratch (mkEnv [] []) P in
  find_obj P 7%positive = None /\ spec_parent P 5%positive = Some 6%positive /\ spec_parent P 1%positive = None /\
  snd (upd (mkEnv [] []) s (mkObj 7 3 [MNode 9; MHyper 1; MHyper 5])%positive) = true /\
  s_ready (fst (upd (mkEnv [] []) s (mkObj 7 3 [MNode 9; MHyper 1; MHyper 5])%positive)) = false.
Proof. vm_compute. repeat split; reflexivity. Qed.

Example C14_recover_nonvacuous :
  let '(hn, real) := trace_session 3 [(1%positive, [1; 1]); (1%positive, [1])] in
  recover_sub hn real [1; 2]%positive = Some 1%positive /\
  recover_sub hn real [1; 3]%positive = Some 3%positive /\
  recover_job hn [Some 1%positive; Some 2%positive] = Some (Some 3%positive).
Proof. vm_compute. repeat split; reflexivity. Qed.

Example C14_gradient_nonvacuous :
  let s := snd (run (mkEnv [] []) [EUpd (mkObj 1 1 [MNode 1]); EUpd (mkObj 2 1 [MNode 2]);
                                   EUpd (mkObj 3 2 [MHyper 1; MHyper 2]); EUpd (mkObj 4 2 [])])%positive in
  gradient (add_top s) top_name 1 (Some 1%positive) = GOk [(1%positive, 1)] /\
  get_lca (add_top s) (Some 1%positive) (Some 2%positive) = Some (Some 3%positive).
Proof. vm_compute. split; reflexivity. Qed.
