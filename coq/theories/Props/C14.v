(* Property C14 — topology constraints are honoured; the HyperNode view is
   order-independent.  Property theorems only; each is closed by [exact] of a
   lemma proved in C14/Lemmas.v or C14/SmallScope.v and followed by its assumptions. *)
From Coq Require Import ZArith List Bool.
From V Require Import C14.Model C14.Laws C14.Lemmas C14.Scratch C14.Recover.
From Coq Require Import Permutation.
Import ListNotations.
Open Scope Z_scope.

(* --- GetAncestors / GetLCAHyperNode, for EVERY parent function (every state of the
   map: Parent pointers with the getParent fallback), whenever the walk's fuel sufficed --- *)
Theorem C14_ancestors_spec : forall par fuel x l,
  ancestors_gen par fuel x = Some l -> forall y, In y l <-> anc par x y.
Proof. exact ancestors_spec. Qed.
Print Assumptions C14_ancestors_spec.

Theorem C14_lca_correct : forall par fuel a b r,
  lca_gen par fuel (Some a) (Some b) = Some r ->
  match r with
  | Some x => anc par a x /\ anc par b x /\ forall c, anc par a c -> anc par b c -> anc par x c
  | None => forall c, anc par a c -> anc par b c -> False
  end.
Proof. exact lca_correct. Qed.
Print Assumptions C14_lca_correct.

(* --- placement: every HyperNode offered to a hard-mode job has tier <= limit and
   lies in the Children-subtree of the search root ... --- *)
Theorem C14_gradient_tier_bound : forall hn start limit alloc l,
  gradient hn start limit alloc = GOk l ->
  exists r, search_root hn start limit alloc = ROk r /\
    forall x t, In (x, t) l -> t <= limit /\ tier_of hn x = Some t /\ reach hn r x.
Proof. exact gradient_tier_bound. Qed.
Print Assumptions C14_gradient_tier_bound.

(* ... and with a prior allocation a that root is the start HyperNode (when it lies under
   the highest allowed ancestor hha of a) or hha itself, hha being an ancestor-or-self of
   a with tier <= limit *)
Theorem C14_search_root_with_allocation : forall hn start limit a r,
  search_root hn start limit (Some a) = ROk r ->
  exists ancs hha t,
    get_ancestors hn a = Some ancs /\ In hha ancs /\ tier_of hn hha = Some t /\ t <= limit /\
    ((r = start /\ get_lca hn (Some start) (Some hha) = Some (Some hha)) \/
     (r = hha /\ get_lca hn (Some start) (Some hha) = Some (Some start))).
Proof. exact search_root_with_allocation. Qed.
Print Assumptions C14_search_root_with_allocation.

Theorem C14_allocated_hypernode_is_lca : forall hn prev chosen,
  new_allocated hn prev chosen = get_lca hn prev (Some chosen).
Proof. exact allocated_hypernode_is_lca. Qed.
Print Assumptions C14_allocated_hypernode_is_lca.

(* --- recovery of the AllocatedHyperNode at session open (recoverAllocatedHyperNode): the
   HyperNode recovered for a sub-job holds every node that hosts one of its tasks in an
   allocated status (Bound, Binding, Running, Allocated) and no HyperNode of a lower tier
   does; nothing is recovered only if there is no such task or no HyperNode holds them all --- *)
Theorem C14_recover_sub_spec : forall hn real nodes h,
  recover_sub hn real nodes = Some h ->
  covers_all real h nodes = true /\
  exists i, In (h, i) hn /\
    forall k i', In (k, i') hn -> covers_all real k nodes = true -> i_tier i <= i_tier i'.
Proof. exact recover_sub_spec. Qed.
Print Assumptions C14_recover_sub_spec.

Theorem C14_recover_sub_none : forall hn real nodes,
  recover_sub hn real nodes = None ->
  nodes = [] \/ forall ki, In ki hn -> covers_all real (fst ki) nodes = false.
Proof. exact recover_sub_none. Qed.
Print Assumptions C14_recover_sub_none.

(* the HyperNode recovered for the job is an ancestor-or-self of every sub-job's recovered
   HyperNode and the lowest such (for every parent function; uses C14_lca_correct) *)
Theorem C14_recover_job_spec : forall par fuel subs r stop,
  lca_fold (lca_gen par fuel) subs = Some (Some r, stop) ->
  (forall h, In (Some h) subs -> anc par h r) /\
  (forall c, (forall h, In (Some h) subs -> anc par h c) -> anc par r c).
Proof. exact recover_job_spec. Qed.
Print Assumptions C14_recover_job_spec.

(* --- the view, UNBOUNDED (any number of HyperNodes, tiers, members): for every set of objects
   with exact-match members that arrives leaf-first (each object after all its HyperNode
   members, which exist and are not yet claimed: a consistent forest built bottom-up), the
   view built by UpdateHyperNode is the tree derived from the objects:
   entry(k) = (tier, members, the unique claimer as parent, the claimed members as children),
   realNodes(k) = the node members at or below k, tier sets = objects by tier, Ready --- *)
Theorem C14_rebuild_from_scratch_spec_leaf_first : forall e P, leaf_first P -> Rep (scratch e P) P.
Proof. exact scratch_leaf_first. Qed.
Print Assumptions C14_rebuild_from_scratch_spec_leaf_first.

(* order-independence on that class: any two leaf-first arrival orders of the same objects
   give the same entries, leaf sets, tier sets, and both are Ready *)
Theorem C14_incremental_equals_scratch_leaf_first : forall e P Q,
  leaf_first P -> leaf_first Q -> Permutation P Q ->
  let s := scratch e P in let s' := scratch e Q in
  (forall k, aget k (s_hn s) = aget k (s_hn s')) /\
  (forall k n, In n (real_get s k) <-> In n (real_get s' k)) /\
  (forall t k, In k (match zget t (s_tier s) with Some l => l | None => [] end) <->
               In k (match zget t (s_tier s') with Some l => l | None => [] end)) /\
  s_ready s = true /\ s_ready s' = true.
Proof. exact leaf_first_order_independent. Qed.
Print Assumptions C14_incremental_equals_scratch_leaf_first.

(* --- the view: the small-scope order-independence theorems live in Props/C14SmallScope.v
   (thorough tier only: ~20 min of clean Coq build) --- *)

(* --- errors are reported (all states, all inputs): a failing UpdateHyperNode /
   DeleteHyperNode leaves Ready = false; the two error sources of BuildHyperNodeCache --- *)
Theorem C14_upd_error_not_ready : forall e s o s', upd e s o = (s', true) -> s_ready s' = false.
Proof. exact upd_error_not_ready. Qed.
Print Assumptions C14_upd_error_not_ready.

Theorem C14_del_error_not_ready : forall e s nm s', del e s nm = (s', true) -> s_ready s' = false.
Proof. exact del_error_not_ready. Qed.
Print Assumptions C14_del_error_not_ready.

Theorem C14_build_cycle_errors : forall f e s nm processed chain ancset,
  pmem nm chain = true -> build (S f) e s nm processed chain ancset = (s, processed, true).
Proof. exact build_cycle_errors. Qed.
Print Assumptions C14_build_cycle_errors.

Theorem C14_add_child_second_parent_errors : forall s parent c i p,
  aget c (s_hn s) = Some i -> i_parent i = Some p -> p <> parent ->
  add_child s parent c = (s, true).
Proof. exact add_child_second_parent_errors. Qed.
Print Assumptions C14_add_child_second_parent_errors.

(* --- the code before the repairs violated the property (run_prefix); the repaired code
   (run) does not, on the same inputs --- *)
Theorem C14_d1_ready_restored_refuted : exists evs,
  let objs := [mkObj 2 3 [MHyper 2]; mkObj 1 1 [MNode 5]]%positive in
  bad_membership objs = true /\
  s_ready (snd (run_prefix (mkEnv [] []) evs)) = true /\
  s_ready (snd (run (mkEnv [] []) evs)) = false.
Proof. exact d1_ready_restored_refuted. Qed.
Print Assumptions C14_d1_ready_restored_refuted.

Theorem C14_d3_gradient_crash_refuted : exists evs,
  gradient (add_top (snd (run_prefix (mkEnv [] []) evs))) top_name 5 None = GCrash /\
  exists l, gradient (add_top (snd (run (mkEnv [] []) evs))) top_name 5 None = GOk l.
Proof. exact d3_gradient_crash_refuted. Qed.
Print Assumptions C14_d3_gradient_crash_refuted.

Theorem C14_d4_tier0_not_indexed_refuted : exists evs,
  zget 0 (s_tier (snd (run_prefix (mkEnv [] []) evs))) = None /\
  zget 0 (s_tier (snd (run (mkEnv [] []) evs))) = Some [1%positive].
Proof. exact d4_tier0_not_indexed_refuted. Qed.
Print Assumptions C14_d4_tier0_not_indexed_refuted.

Theorem C14_d6_failed_delete_refuted : exists evs,
  let objs := [mkObj 1 1 []; mkObj 2 3 [MHyper 1]; mkObj 3 2 [MHyper 1]]%positive in
  bad_membership objs = true /\
  s_ready (snd (run_round2 (mkEnv [] []) evs)) = true /\
  s_ready (snd (run (mkEnv [] []) evs)) = false.
Proof. exact d6_failed_delete_refuted. Qed.
Print Assumptions C14_d6_failed_delete_refuted.

Theorem C14_d9_foreign_release_refuted : exists evs,
  (exists i, aget 2%positive (s_hn (snd (run_round2 (mkEnv [] []) evs))) = Some i /\ i_parent i = None) /\
  (exists i, aget 2%positive (s_hn (snd (run (mkEnv [] []) evs))) = Some i /\ i_parent i = Some 3%positive).
Proof. exact d9_foreign_release_refuted. Qed.
Print Assumptions C14_d9_foreign_release_refuted.

(* D8 (round 5): a sub-job without a topology of its own was skipped by the recovery although
   its job is constrained, so the job's running pod was forgotten *)
Theorem C14_d8_recovery_refuted :
  let '(hn, real) := trace_session 2 [(1%positive, [1]); (1%positive, [1])] in
  let pods := [(1, 2%positive, 2); (0, 1%positive, 1)] in
  snd (recover_all_gen false hn real 1 pods) = Some None /\
  snd (recover_all_gen true hn real 1 pods) = Some (Some 2%positive).
Proof. exact d8_recovery_refuted. Qed.
Print Assumptions C14_d8_recovery_refuted.

(* D10 (round 5): the recorder replayed the sub-job decision of a candidate that an earlier
   round had only tried: sub-job 1 ended above its tier-1 limit (h4) instead of h3 *)
Theorem C14_d10_stale_decision_refuted :
  let '(hn, _) := trace_session 2 [(1%positive, [1; 1; 1]); (1%positive, [2]); (1%positive, [1])] in
  let rounds : list round :=
    [ ([(2%positive, [(1, 2%positive)]); (3%positive, [(1, 3%positive)]); (1%positive, [(1, 1%positive)])], 3%positive);
      ([(3%positive, [(2, 3%positive)]); (1%positive, [(2, 1%positive)]); (2%positive, [(2, 2%positive)])], 2%positive) ] in
  zget 1 (run_rounds false hn rounds) = Some (Some 4%positive) /\
  zget 1 (run_rounds true hn rounds) = Some (Some 3%positive) /\
  zget 2 (run_rounds true hn rounds) = Some (Some 2%positive).
Proof. exact d10_stale_decision_refuted. Qed.
Print Assumptions C14_d10_stale_decision_refuted.

(* D5 (round 5): on the state after "h1 claims h2; h2 created; h2 deleted", a second claimer
   h3 of h2 was accepted by addChild; now it is refused *)
Theorem C14_d5_second_claimer_refuted :
  let s := snd (run (mkEnv [] []) [EUpd (mkObj 1 2 [MHyper 2]); EUpd (mkObj 2 1 []); EDel 2;
                                   EUpd (mkObj 4 1 [])])%positive in
  let s3 := set_hn s (aset 3%positive (mkInfo 2 [MHyper 2%positive] None [] false) (s_hn s)) in
  snd (add_child_prefix s3 3 2) = false /\ add_child s3 3 2 = (s3, true).
Proof. exact d5_second_claimer_refuted. Qed.
Print Assumptions C14_d5_second_claimer_refuted.

Theorem C14_d2a_label_leaf_stale_refuted :
  let e := mkEnv [1%positive] [(1%positive, [1%positive])] in
  let evs := [EUpd (mkObj 1 1 [MSel true 1]); ENodeDel 1]%positive in
  real_get (snd (run_round4 e evs)) 1 = [1%positive] /\ real_get (snd (run e evs)) 1 = [].
Proof. exact d2a_label_leaf_stale_refuted. Qed.
Print Assumptions C14_d2a_label_leaf_stale_refuted.

(* --- still refuted at full strength on the repaired code (known finding D7): a cycle between
   two HyperNodes of the same tier stays unreported --- *)
Theorem C14_bad_membership_not_ready_refuted : exists evs,
  let objs := [mkObj 1 1 [MHyper 2]; mkObj 2 1 [MHyper 1]]%positive in
  bad_membership objs = true /\ s_ready (snd (run (mkEnv [] []) evs)) = true.
Proof. exact bad_membership_not_ready_refuted. Qed.
Print Assumptions C14_bad_membership_not_ready_refuted.

(* non-vacuity *)
Example C14_leaf_first_nonvacuous :
  leaf_first [mkObj 1 1 [MNode 1; MNode 2]; mkObj 2 1 [MNode 3]; mkObj 5 1 [];
              mkObj 3 2 [MHyper 1; MNode 4; MHyper 2]; mkObj 4 3 [MHyper 3]; mkObj 6 2 [MHyper 5]]%positive.
Proof. exact leaf_first_example. Qed.

Example C14_gradient_nonvacuous :
  let s := snd (run (mkEnv [] []) [EUpd (mkObj 1 1 [MNode 1]); EUpd (mkObj 2 1 [MNode 2]);
                                   EUpd (mkObj 3 2 [MHyper 1; MHyper 2]); EUpd (mkObj 4 2 [])])%positive in
  gradient (add_top s) top_name 1 (Some 1%positive) = GOk [(1%positive, 1)] /\
  get_lca (add_top s) (Some 1%positive) (Some 2%positive) = Some (Some 3%positive).
Proof. vm_compute. split; reflexivity. Qed.
