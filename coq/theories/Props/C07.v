(* Property C07 — session bookkeeping is conservative and transactional.
   Property theorems only; each is closed by [exact] of a lemma proved in Sched/LedgerLemmas*.v
   (or a vm_compute witness of C07/Refuted.v) and followed by its assumptions. *)
From stdpp Require Import gmap.
From Coq Require Import ZArith.
From V Require Import Base.Res Sched.LedgerModel Sched.StmtModel Sched.GangModel Sched.LedgerInvP Sched.LedgerInv
  Sched.LedgerLemmasA Sched.LedgerLemmasJob Sched.LedgerLemmasNode Sched.LedgerLemmasSess Sched.LedgerLemmasSk
  Sched.LedgerLemmasTxn Sched.LedgerLemmasTxnN Sched.LedgerLemmasAudit Sched.LedgerLemmasSound Sched.LedgerLemmasEx C07.Example C07.Refuted C07.Entry.
Open Scope Z_scope.

(* ---- 1. primitives ---- *)

(* amounts subtract exactly when the subtrahend is part of the minuend (covers Resource.sub's nil-map quirk) *)
Theorem C07_amt_sub_part : forall r x,
  (forall d, 0 <= amt x d <= amt r d) -> forall d, amt (sub r x) d = amt r d - amt x d.
Proof. exact amt_sub_part. Qed.
Print Assumptions C07_amt_sub_part.

(* UpdateTaskStatus with the stored object or any clone of the task keeps the job invariant
   (sums, status index, sub-job bookkeeping) and the heap entry it writes is well-formed *)
Theorem C07_job_update_inv : forall h j p st j' p',
  heap_ok h -> job_inv h j -> t_job p = j_id j -> nonneg (t_req p) ->
  job_update h j p st = (j', p') ->
  p' = set_status p st /\ j_id j' = j_id j /\ t_id p ∈ j_tasks j' /\
  heap_ok (<[t_id p := p']> h) /\ job_inv (<[t_id p := p']> h) j'.
Proof. exact job_update_inv. Qed.
Print Assumptions C07_job_update_inv.

(* AddTask: an error returns no node (the caller keeps the old one); success stores a clone and
   the caller's object only gains NodeName ... *)
Theorem C07_node_add_spec : forall eps n t n' t',
  node_add eps n t = inl (n', t') ->
  t' = set_node t (Some (n_id n)) /\ n_tasks n !! t_id t = None /\
  n_tasks n' = <[t_id t := set_node t (Some (n_id n))]> (n_tasks n) /\
  n_id n' = n_id n /\ n_has_node n' = n_has_node n /\ n_alloc n' = n_alloc n /\
  (t_node t = None \/ t_node t = Some (n_id n)).
Proof. exact node_add_spec. Qed.
Print Assumptions C07_node_add_spec.

(* ... and keeps the node invariant *)
Theorem C07_node_add_inv : forall eps h n t n' t',
  node_inv h n -> node_wf n -> nonneg (t_req t) ->
  (exists x, h !! t_id t = Some x /\ t_req x = t_req t /\ t_job x = t_job t) ->
  node_add eps n t = inl (n', t') -> node_inv h n' /\ node_wf n'.
Proof. exact node_add_inv. Qed.
Print Assumptions C07_node_add_inv.

Theorem C07_node_remove_inv : forall h n i,
  node_inv h n -> node_wf n -> node_inv h (node_remove n i) /\ node_wf (node_remove n i).
Proof. exact node_remove_inv. Qed.
Print Assumptions C07_node_remove_inv.

Theorem C07_node_update_inv : forall eps h n t n' t',
  node_inv h n -> node_wf n -> nonneg (t_req t) ->
  (exists x, h !! t_id t = Some x /\ t_req x = t_req t /\ t_job x = t_job t) ->
  node_update eps n t = inl (n', t') -> node_inv h n' /\ node_wf n'.
Proof. exact node_update_inv. Qed.
Print Assumptions C07_node_update_inv.

(* ---- 2. MAIN: the invariant holds after every history over the whole operation alphabet ---- *)
Theorem C07_ledger_inv_preserved : forall eps s ops,
  ledger_inv s -> sess_wf s -> saved_ok s ->
  ledger_inv (run eps s ops) /\ sess_wf (run eps s ops) /\ saved_ok (run eps s ops).
Proof. exact ledger_inv_preserved. Qed.
Print Assumptions C07_ledger_inv_preserved.

(* the side condition on the idle ledgers is necessary on the faithful model *)
Theorem C07_sess_wf_necessary_refuted :
  exists s o, ledger_okb (heap s) (jobs s) (nodes s) = true /\ sess_wfb s = false /\
              let s' := fst (step ex_eps s o) in ledger_okb (heap s') (jobs s') (nodes s') = false.
Proof. exact sess_wf_necessary_refuted. Qed.
Print Assumptions C07_sess_wf_necessary_refuted.

(* ---- 3. what reaches the binder / evictor ----
   The clause "nothing of an undecided transaction reaches the binder" is FALSE on the model and
   on the Go code (C07_undecided_reaches_binder_refuted, known finding
   C07-session-allocate-dispatches-open-statement-task).  What holds: *)

(* (a) every history without Commit / Session.Allocate / Session.Evict leaves both logs untouched *)
Theorem C07_undecided_invisible : forall eps s o,
  touches_cache o = false ->
  binds (fst (step eps s o)) = binds s /\ evicts (fst (step eps s o)) = evicts s.
Proof. exact undecided_invisible. Qed.
Print Assumptions C07_undecided_invisible.

Theorem C07_undecided_invisible_run : forall eps ops s,
  Forall (fun o => touches_cache o = false) ops ->
  binds (run eps s ops) = binds s /\ evicts (run eps s ops) = evicts s.
Proof. exact undecided_invisible_run. Qed.
Print Assumptions C07_undecided_invisible_run.

(* (b) Commit of statement sid (any number of recorded operations): the binder receives only
   Allocate operations recorded in sid that the cache does not refuse, the evictor only Evict
   operations recorded in sid that it does not refuse; the statement is empty afterwards *)
Theorem C07_commit_logs_only_own : forall eps s sid,
  sess_ok s ->
  let s' := stmt_commit eps s sid in
  let ops := default [] (stmts s !! sid) in
  sess_ok s' /\ stmts s' !! sid = Some [] /\
  exists lb le, binds s' = lb ++ binds s /\ evicts s' = le ++ evicts s /\
    (forall b, b ∈ lb -> exists o, o ∈ ops /\ op_kind o = KAllocate /\ fst b = op_task o /\ op_task o ∉ refuse_bind s) /\
    (forall e, e ∈ le -> exists o, o ∈ ops /\ op_kind o = KEvict /\ e = op_task o /\ op_task o ∉ refuse_evict s).
Proof. exact commit_logs_only_own. Qed.
Print Assumptions C07_commit_logs_only_own.

(* (c) Session.Allocate / Pipeline: the binder receives only the task the call was made with and
   tasks the job's Allocated index held before the call, none whose bind the cache refuses; the
   evictor receives nothing *)
Theorem C07_ssn_place_binds : forall eps jr s k tid nid,
  exists lb, binds (fst (ssn_place_with eps jr s k tid nid)) = lb ++ binds s /\
    evicts (fst (ssn_place_with eps jr s k tid nid)) = evicts s /\
    forall b, b ∈ lb ->
      k = KAllocate /\ fst b ∉ refuse_bind s /\
      exists p j, heap s !! tid = Some p /\ jobs s !! t_job p = Some j /\
                  (fst b = t_id p \/ fst b ∈ idx_set (j_index j) Allocated).
Proof. exact ssn_place_binds. Qed.
Print Assumptions C07_ssn_place_binds.

(* (d) ... and that index may hold a task an OPEN statement placed: it reaches the binder, and a
   later Discard un-allocates it in the session while the binder keeps it *)
Theorem C07_undecided_reaches_binder_refuted :
  exists s sid t1 t5 nid,
    okb s = true /\
    let s1 := run ex_eps s [OAllocate sid t1 nid; OSetFaults [] [] [] true; OSsnAllocate t5 nid] in
    okb s1 = true /\
    map op_task (default [] (stmts s1 !! sid)) = [t1] /\
    map fst (binds s1) = [t5; t1] /\
    task_view s1 t1 = Some (Binding, Some nid) /\
    let s2 := run ex_eps s1 [ODiscard sid] in
    okb s2 = true /\ task_view s2 t1 = Some (Pending, None) /\ copy_status s2 nid t1 = None /\
    map fst (binds s2) = [t5; t1].
Proof. exact undecided_reaches_binder_refuted. Qed.
Print Assumptions C07_undecided_reaches_binder_refuted.

(* (e) evictor half, caller induced: Session.Evict of a task whose eviction an OPEN statement
   records hands it to the evictor; the later Discard restores it to Running in the session *)
Theorem C07_undecided_reaches_evictor_refuted :
  let s1 := run ex_eps ex_sess [OEvict 1 2; OSsnEvict 2] in
  run_results ex_eps ex_sess [OEvict 1 2; OSsnEvict 2] = [ROk; ROk] /\
  evicts s1 = [2%positive] /\ map op_task (default [] (stmts s1 !! 1%positive)) = [2%positive] /\
  let s2 := run ex_eps s1 [ODiscard 1] in
  okb s2 = true /\ task_view s2 2 = Some (Running, Some 1%positive) /\ evicts s2 = [2%positive] /\
  sess_sameb ex_sess s2 = false.
Proof. exact undecided_reaches_evictor_refuted. Qed.
Print Assumptions C07_undecided_reaches_evictor_refuted.

(* ---- 4. a failed operation leaves no trace ---- *)
Theorem C07_failed_op_no_trace : forall eps s sid k p nid s',
  sess_ok s -> placeable s p nid ->
  place_with eps s sid k p nid = (s', RErr) ->
  sess_eqv s s' /\ stmts s' = stmts s /\ binds s' = binds s /\ evicts s' = evicts s /\ saved s' = saved s.
Proof. exact failed_place_no_trace. Qed.
Print Assumptions C07_failed_op_no_trace.

(* Session.Allocate / Pipeline on a placeable task whose job holds no other Allocated task:
   whatever the reason of the error -- unknown job, unknown node, dispatch (AddBindTask) refused
   (fix c8b10ae); under [placeable] the node cannot refuse -- the session is sess_eqv to the one before *)
Theorem C07_failed_ssn_place_no_trace : forall eps jr s k p nid,
  sess_ok s -> placeable s p nid ->
  (forall j, jobs s !! t_job p = Some j -> idx_set (j_index j) Allocated = ∅) ->
  let r := ssn_place_with eps jr s k (t_id p) nid in
  snd r = RErr ->
  sess_eqv s (fst r) /\ binds (fst r) = binds s /\ evicts (fst r) = evicts s /\ stmts (fst r) = stmts s.
Proof. exact failed_ssn_place_no_trace. Qed.
Print Assumptions C07_failed_ssn_place_no_trace.

(* ... and when the task cannot even be placed, no event handler is called *)
Theorem C07_failed_ssn_place_no_handler_call : forall eps jr s k p nid,
  sess_ok s -> heap s !! t_id p = Some p -> t_status p = Pending -> t_node p = None -> jknown s p ->
  (jobs s !! t_job p = None \/ nodes s !! nid = None \/
   exists n e, nodes s !! nid = Some n /\ node_add eps n (placed_obj s k p nid) = inr e) ->
  let r := ssn_place_with eps jr s k (t_id p) nid in
  snd r = RErr /\ sess_eqv s (fst r) /\ binds (fst r) = binds s /\ evicts (fst r) = evicts s /\
  stmts (fst r) = stmts s /\ hlog (fst r) = hlog s.
Proof. exact failed_ssn_place_no_trace_cause. Qed.
Print Assumptions C07_failed_ssn_place_no_handler_call.

(* the dispatch loop before fix c8b10ae kept the allocation of a task whose bind was refused
   (former known finding C07-session-allocate-dispatch-refused-keeps-allocation) *)
Theorem C07_dispatch_all_prefix_refuted :
  exists s tid nid,
    ledger_okb (heap s) (jobs s) (nodes s) = true /\
    (t_status <$> heap s !! tid) = Some Pending /\
    (heap s !! tid ≫= t_node) = None /\
    on_no_node s tid = true /\
    snd (ssn_place_dprefix ex_eps s KAllocate tid nid) = RErr /\
    let s' := fst (ssn_place_dprefix ex_eps s KAllocate tid nid) in
    (t_status <$> heap s' !! tid) = Some Allocated /\
    (heap s' !! tid ≫= t_node) = Some nid /\
    (t_id <$> (nodes s' !! nid ≫= fun n => n_tasks n !! tid)) = Some tid.
Proof. exact dispatch_all_prefix_refuted. Qed.
Print Assumptions C07_dispatch_all_prefix_refuted.

(* outside the call sites' precondition [placeable] the node CAN refuse the task and the failed
   call leaves a trace (known finding C07-failed-placement-outside-precondition-not-restored) *)
Theorem C07_failed_place_on_node_refuted :
  (let s := run ex_eps ex_sess [OPipeline 1 4 2] in
   snd (step ex_eps s (OAllocate 2 4 2)) = RErr /\
   let s' := fst (step ex_eps s (OAllocate 2 4 2)) in
   okb s = true /\ okb s' = true /\ sess_sameb s s' = false /\
   task_view s 4 = Some (Pipelined, Some 2%positive) /\ task_view s' 4 = Some (Pending, None) /\
   copy_status s 2 4 = Some Pipelined /\ copy_status s' 2 4 = None /\
   map op_task (default [] (stmts s' !! 1%positive)) = [4%positive]) /\
  (snd (step ex_eps ex_sess (OAllocate 2 2 1)) = RErr /\
   let s' := fst (step ex_eps ex_sess (OAllocate 2 2 1)) in
   okb s' = true /\ sess_sameb ex_sess s' = false /\ task_view s' 2 = Some (Pending, None) /\ copy_status s' 1 2 = None) /\
  (let s := run ex_eps ex_sess [OPipeline 1 4 2] in
   snd (step ex_eps s (OSsnAllocate 4 2)) = RErr /\
   let s' := fst (step ex_eps s (OSsnAllocate 4 2)) in
   okb s' = true /\ sess_sameb s s' = false /\ task_view s' 4 = Some (Pending, None) /\ copy_status s' 2 4 = Some Pipelined).
Proof. exact failed_place_on_node_refuted. Qed.
Print Assumptions C07_failed_place_on_node_refuted.

(* without "the job holds no other Allocated task" a failed Session.Allocate keeps the task it was
   called with Allocated (known finding C07-session-allocate-error-keeps-argument-allocated) *)
Theorem C07_failed_ssn_allocate_keeps_argument_refuted :
  exists s t1 t5 nid,
    okb s = true /\
    let s1 := run ex_eps s [OSetFaults [] [] [] false; OSsnAllocate t1 nid; OSetFaults [] [t1] [] true] in
    task_view s1 t5 = Some (Pending, None) /\ on_no_node s1 t5 = true /\
    snd (step ex_eps s1 (OSsnAllocate t5 nid)) = RErr /\
    let s2 := fst (step ex_eps s1 (OSsnAllocate t5 nid)) in
    okb s2 = true /\ task_view s2 t1 = Some (Pending, None) /\
    task_view s2 t5 = Some (Allocated, Some nid) /\ copy_status s2 nid t5 = Some Allocated /\
    binds s2 = [] /\ sess_sameb s1 s2 = false.
Proof. exact failed_ssn_allocate_keeps_argument_refuted. Qed.
Print Assumptions C07_failed_ssn_allocate_keeps_argument_refuted.

(* ---- 5. Discard restores the session ---- *)
Theorem C07_sk_determines : forall s s',
  ledger_inv s -> ledger_inv s' -> hv s = hv s' -> jv s = jv s' -> nv s = nv s' ->
  map_same task_same (heap s) (heap s') /\ map_same job_same (jobs s) (jobs s') /\
  map_same node_same (nodes s) (nodes s').
Proof. exact sk_determines. Qed.
Print Assumptions C07_sk_determines.

(* any number of Allocate / Pipeline / Evict / Evict-with-the-node's-clone operations recorded in
   ONE statement on pairwise distinct tasks meeting the call sites' preconditions in the state
   before the first operation (operations that fail on the way leave no trace and are not
   recorded): Discard returns a state sess_eqv to that state *)
Theorem C07_discard_restores : forall eps s sid ops,
  sess_ok s -> default [] (stmts s !! sid) = [] -> NoDup (map tx_tid ops) -> Forall (tx_pre s) ops ->
  let s' := run eps s (map (tx_op sid) ops) in
  sess_eqv s (stmt_discard eps s' sid) /\
  binds (stmt_discard eps s' sid) = binds s /\ evicts (stmt_discard eps s' sid) = evicts s.
Proof. exact discard_restores. Qed.
Print Assumptions C07_discard_restores.

(* the same in skeleton form (stronger than sess_eqv: statuses, node names AND requests of every
   task, job task sets / TaskToSubJob, node-held copies incl. requests are EQUAL; heap objects of
   untouched tasks are identical; the statement is empty) *)
Theorem C07_discard_restores_skeleton : forall eps s sid ops,
  sess_ok s -> default [] (stmts s !! sid) = [] -> NoDup (map tx_tid ops) -> Forall (tx_pre s) ops ->
  let s' := stmt_discard eps (run eps s (map (tx_op sid) ops)) sid in
  hv s' = hv s /\ jv s' = jv s /\ nv s' = nv s /\
  (forall k d, shamt (hshare s') k d = shamt (hshare s) k d) /\
  (forall j, j ∉ (list_to_set (map tx_tid ops) : gset positive) -> heap s' !! j = heap s !! j) /\
  default [] (stmts s' !! sid) = [].
Proof. exact discard_restores_skeleton. Qed.
Print Assumptions C07_discard_restores_skeleton.

(* the frame lemma behind it: an operation on task i changes heap entry i, the node copies keyed
   i and the handler ledger's coverage monotonically -- and keeps the preconditions of every
   other task *)
Theorem C07_tx_pre_frame : forall I s s' o,
  local_on I s s' -> tx_tid o ∉ I -> tx_pre s o -> tx_pre s' o.
Proof. exact tx_pre_frame. Qed.
Print Assumptions C07_tx_pre_frame.

(* single-operation forms (also give the undo_op / commit_op level facts) *)
Theorem C07_discard_restores_place : forall eps s sid k p nid s1,
  sess_ok s -> placeable s p nid -> k <> KEvict -> default [] (stmts s !! sid) = [] ->
  place_with eps s sid k p nid = (s1, ROk) ->
  sess_eqv s (stmt_discard eps s1 sid) /\ sess_eqv s (undo_op eps s1 (mkOp k (t_id p) Pending)) /\
  binds (stmt_discard eps s1 sid) = binds s /\ evicts (stmt_discard eps s1 sid) = evicts s /\
  (t_id p ∈ refuse_bind s -> k = KAllocate ->
     commit_op eps s1 (mkOp k (t_id p) Pending) = undo_op eps s1 (mkOp k (t_id p) Pending)).
Proof. exact discard_restores_place. Qed.
Print Assumptions C07_discard_restores_place.

Theorem C07_discard_restores_evict : forall eps s sid p nid,
  sess_ok s -> evictable s p nid -> default [] (stmts s !! sid) = [] ->
  let r := stmt_evict_with eps s sid p None in
  snd r = ROk /\ sess_eqv s (stmt_discard eps (fst r) sid) /\
  binds (stmt_discard eps (fst r) sid) = binds s /\ evicts (stmt_discard eps (fst r) sid) = evicts s.
Proof. exact discard_restores_evict. Qed.
Print Assumptions C07_discard_restores_evict.

(* ---- 6. Commit ---- *)
Theorem C07_commit_refused_bind_rolls_back : forall eps s sid p nid s1,
  sess_ok s -> placeable s p nid -> default [] (stmts s !! sid) = [] ->
  place_with eps s sid KAllocate p nid = (s1, ROk) -> t_id p ∈ refuse_bind s ->
  let s2 := commit_op eps s1 (mkOp KAllocate (t_id p) Pending) in
  sess_eqv s s2 /\ binds s2 = binds s /\ evicts s2 = evicts s.
Proof. exact commit_refused_bind_rolls_back. Qed.
Print Assumptions C07_commit_refused_bind_rolls_back.



(* ---- 7. the executable invariant of the law implies the invariant of the theorems ---- *)
Theorem C07_ledger_okb_sound : forall s,
  heap_nonneg (heap s) -> ledger_okb (heap s) (jobs s) (nodes s) = true -> ledger_inv s.
Proof. exact ledger_okb_sound. Qed.
Print Assumptions C07_ledger_okb_sound.

(* base case: the boolean evaluated per generated case on the model's own initial session (law 112)
   implies the hypotheses of the history theorem *)
Theorem C07_init_okb_sess_ok : forall s, init_okb s = true -> sess_ok s.
Proof. exact init_okb_sess_ok. Qed.
Print Assumptions C07_init_okb_sess_ok.

(* ---- the record of the other repaired defects (pre-fix variants, C07/Refuted.v) ---- *)
Theorem C07_unevict_prefix_refuted :
  exists s sid tid,
    ledger_okb (heap s) (jobs s) (nodes s) = true /\
    (t_status <$> heap s !! tid) = Some Bound /\
    let s1 := fst (stmt_evict ex_eps s sid tid) in
    (t_status <$> heap (stmt_discard_prefix ex_eps s1 sid) !! tid) = Some Running.
Proof. exact unevict_prefix_refuted. Qed.
Print Assumptions C07_unevict_prefix_refuted.

Theorem C07_job_del_prefix_refuted :
  exists s hist,
    ledger_okb (heap s) (jobs s) (nodes s) = true /\
    (let s' := run_b_prefix ex_eps s hist in ledger_okb (heap s') (jobs s') (nodes s') = false) /\
    (let s' := run ex_eps s hist in ledger_okb (heap s') (jobs s') (nodes s') = true).
Proof. exact job_del_prefix_session_refuted. Qed.
Print Assumptions C07_job_del_prefix_refuted.

Theorem C07_ssn_place_prefix_refuted :
  exists s tid nid,
    ledger_okb (heap s) (jobs s) (nodes s) = true /\
    (t_status <$> heap s !! tid) = Some Pending /\
    (heap s !! tid ≫= t_node) = None /\
    on_no_node s tid = true /\
    snd (ssn_place_prefix ex_eps s KAllocate tid nid) = RErr /\
    let s' := fst (ssn_place_prefix ex_eps s KAllocate tid nid) in
    (t_status <$> heap s' !! tid) = Some Allocated /\
    (heap s' !! tid ≫= t_node) = Some nid /\
    on_no_node s' tid = true.
Proof. exact ssn_place_prefix_refuted. Qed.
Print Assumptions C07_ssn_place_prefix_refuted.

(* ---- 8. non-vacuity: a concrete session (2 jobs, 2 nodes, 4 tasks) meets every hypothesis ---- *)
Example C07_ex_sess_ok : sess_ok ex_sess.
Proof. exact ex_sess_ok. Qed.
Example C07_ex_hist_holds :
  let s := run ex_eps ex_sess ex_hist in ledger_inv s /\ sess_wf s /\ saved_ok s.
Proof. exact ex_hist_holds. Qed.
Example C07_ex_results :
  run_results ex_eps ex_sess ex_hist =
  [ROk; ROk; ROk; ROk; ROk; ROk; ROk; ROk; ROk; ROk; RErr; RErr; ROk; ROk; ROk; ROk; ROk].
Proof. exact ex_results. Qed.
Example C07_ex_placeable : placeable ex_sess (ex_task 1) 1 /\ placeable ex_sess (ex_task 4) 2.
Proof. exact ex_placeable. Qed.
Example C07_ex_evictable : evictable ex_sess (ex_task 2) 1 /\ evictable ex_sess (ex_task 3) 2.
Proof. exact ex_evictable. Qed.
Example C07_ex_txn_pre :
  Forall (tx_pre ex_sess) ex_txn /\ NoDup (map tx_tid ex_txn) /\ default [] (stmts ex_sess !! 1%positive) = [].
Proof. exact ex_txn_pre. Qed.
Example C07_ex_dispatch_refused :
  sess_ok d_sess /\ placeable d_sess (ex_task 1) 1 /\
  (forall j, jobs d_sess !! t_job (ex_task 1) = Some j -> idx_set (j_index j) Allocated = ∅) /\
  snd (ssn_place ex_eps d_sess KAllocate 1 1) = RErr /\
  sess_sameb d_sess (fst (ssn_place ex_eps d_sess KAllocate 1 1)) = true.
Proof. exact ex_dispatch_refused. Qed.
Example C07_ex_commit_refused_pre :
  sess_ok d_sess /\ placeable d_sess (ex_task 1) 1 /\ default [] (stmts d_sess !! 1%positive) = [] /\
  snd (place_with ex_eps d_sess 1 KAllocate (ex_task 1) 1) = ROk /\ t_id (ex_task 1) ∈ refuse_bind d_sess.
Proof. exact ex_commit_refused_pre. Qed.
Example C07_ex_node_refuses :
  sess_ok held_sess /\ heap held_sess !! 4%positive = Some (default (ex_task 4) (heap held_sess !! 4%positive)) /\
  let p := default (ex_task 4) (heap held_sess !! 4%positive) in
  t_status p = Pending /\ t_node p = None /\ jknown held_sess p /\
  exists n e, nodes held_sess !! 2%positive = Some n /\ node_add ex_eps n (placed_obj held_sess KAllocate p 2) = inr e.
Proof. exact ex_node_refuses. Qed.
Example C07_ex_place_ok : snd (place_with ex_eps ex_sess 1 KAllocate (ex_task 1) 1) = ROk.
Proof. exact ex_place_ok. Qed.
Example C07_ex_place_fails : snd (place_with ex_eps ex_sess 1 KAllocate (ex_task 1) 9) = RErr.
Proof. exact ex_place_fails. Qed.
