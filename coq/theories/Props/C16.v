(* Property C16 — resource arithmetic obeys its algebraic laws and never wraps.
   Property theorems only; each is closed by [exact] of a lemma proved in
   Base/ResLemmas.v or C16/SatLemmas.v and followed by its assumptions. *)
From stdpp Require Import gmap.
From Coq Require Import ZArith.
From Coq Require Import List.
From V Require Import Base.Res Base.ResLemmas C16.SatModel C16.SatLemmas C16.Laws C16.LawsLemmas
  C16.DraModel C16.DraLemmas C16.QuantModel C16.QuantLemmas C16.DraLaws C16.DraLawsLemmas
  C16.OrderLemmas C16.FloatMini.
Open Scope Z_scope.

(* --- saturating integers: for ALL int64 operands the Go body (modelled with
   explicit two's-complement wrap) computes the clamped mathematical result --- *)
Theorem C16_sat_add_spec : forall a b, in64 a -> in64 b -> sat_add a b = clamp64 (a + b).
Proof. exact sat_add_spec. Qed.
Print Assumptions C16_sat_add_spec.

Theorem C16_sat_mul_spec : forall a b, in64 a -> in64 b -> sat_mul a b = clamp64 (a * b).
Proof. exact sat_mul_spec. Qed.
Print Assumptions C16_sat_mul_spec.

Theorem C16_sat_add_pos : forall a b, in64 a -> in64 b -> 0 < a -> 0 < b -> 0 < sat_add a b.
Proof. exact sat_add_pos. Qed.
Print Assumptions C16_sat_add_pos.

Theorem C16_sat_mul_pos : forall a b, in64 a -> in64 b -> 0 < a -> 0 < b -> 0 < sat_mul a b.
Proof. exact sat_mul_pos. Qed.
Print Assumptions C16_sat_mul_pos.

(* the DRA accumulation total += count * times never goes negative, for every
   list of non-negative int64 counts and multiplicities *)
Theorem C16_dra_total_never_negative : forall l,
  Forall (fun ct => in64 (fst ct) /\ in64 (snd ct) /\ 0 <= fst ct /\ 0 <= snd ct) l ->
  0 <= dra_total l.
Proof. exact dra_total_never_negative. Qed.
Print Assumptions C16_dra_total_never_negative.

(* --- the saturation specification over unbounded integers: for every list (any length) of
   non-negative int64 (count, times) pairs, the running total of SaturatingAdd / SaturatingMul is
   min(MaxInt64, exact sum of the exact products) --- *)
Theorem C16_dra_fold_spec : forall l, terms_ok l -> fold_terms l 0 = Z.min max64 (exact_sum l).
Proof. exact fold_terms_spec. Qed.
Print Assumptions C16_dra_fold_spec.

Theorem C16_dra_fold_mono : forall l l',
  terms_ok l -> terms_ok l' -> terms_le l l' -> fold_terms l 0 <= fold_terms l' 0.
Proof. exact fold_terms_mono. Qed.
Print Assumptions C16_dra_fold_mono.

Theorem C16_dra_fold_perm : forall l1 l2,
  terms_ok l1 -> Permutation l1 l2 -> fold_terms l1 0 = fold_terms l2 0.
Proof. exact fold_terms_perm. Qed.
Print Assumptions C16_dra_fold_perm.

(* --- JobInfo.GetMinDRAResources (whole function: per-role and fallback path, every device class):
   the count reported for a class is min(MaxInt64, sum of count_i * times_i over the calls
   addResource receives), never negative; the class set and the capacities are exact --- *)
Theorem C16_min_dra_count_spec : forall j c, job_ok j ->
  count_of (result_at (get_min_dra j) c) = Z.min max64 (exact_sum (class_terms c (contribs j))).
Proof. exact min_dra_count_spec. Qed.
Print Assumptions C16_min_dra_count_spec.

Theorem C16_min_dra_count_nonneg : forall j c, job_ok j -> 0 <= count_of (result_at (get_min_dra j) c).
Proof. exact min_dra_count_nonneg. Qed.
Print Assumptions C16_min_dra_count_nonneg.

Theorem C16_min_dra_classes : forall j c,
  is_Some (result_at (get_min_dra j) c) <-> Exists (fun ct => is_Some (fst ct !! c)) (contribs j).
Proof. exact min_dra_classes. Qed.
Print Assumptions C16_min_dra_classes.

Theorem C16_min_dra_cap_spec : forall j c dim,
  cap_of (result_at (get_min_dra j) c) dim = exact_sum (cap_terms c dim (contribs j)).
Proof. exact min_dra_cap_spec. Qed.
Print Assumptions C16_min_dra_cap_spec.

(* every call addResource(request, times) stems from a task of the job carrying that request, with
   times = 1 (fallback) or a positive TaskMinAvailable entry *)
Theorem C16_min_dra_calls : forall j, Forall (call_from j) (contribs j).
Proof. exact contribs_from. Qed.
Print Assumptions C16_min_dra_calls.

(* monotone in every count and every multiplicity; independent of the order of the calls *)
Theorem C16_min_dra_mono : forall cs cs' c,
  (forall c, terms_ok (class_terms c cs)) -> (forall c, terms_ok (class_terms c cs')) ->
  Forall2 call_le cs cs' ->
  count_of (accumulate cs ∅ !! c) <= count_of (accumulate cs' ∅ !! c).
Proof. exact accumulate_count_mono. Qed.
Print Assumptions C16_min_dra_mono.

Theorem C16_min_dra_order_irrelevant : forall cs cs' c,
  (forall c, terms_ok (class_terms c cs)) -> Permutation cs cs' ->
  count_of (accumulate cs ∅ !! c) = count_of (accumulate cs' ∅ !! c).
Proof. exact accumulate_count_perm. Qed.
Print Assumptions C16_min_dra_order_irrelevant.

(* DRAResource.Add / Sub *)
Theorem C16_dra_add_nonneg : forall d o,
  in64 (d_count d) -> in64 (d_count o) -> 0 <= d_count d -> 0 <= d_count o ->
  d_count (dra_add d (Some o)) = Z.min max64 (d_count d + d_count o) /\ 0 <= d_count (dra_add d (Some o)).
Proof. exact dra_add_nonneg. Qed.
Print Assumptions C16_dra_add_nonneg.

(* for the reachable (non-negative) operands the wrapping subtraction of Sub cannot wrap *)
Theorem C16_dra_sub_count : forall d o,
  in64 (d_count d) -> in64 (d_count o) -> 0 <= d_count d -> 0 <= d_count o ->
  d_count (dra_sub d (Some o)) = Z.max 0 (d_count d - d_count o).
Proof. exact dra_sub_count. Qed.
Print Assumptions C16_dra_sub_count.

Theorem C16_dra_sub_never_negative : forall d o, 0 <= d_count (dra_sub d (Some o)).
Proof. exact dra_sub_never_negative. Qed.
Print Assumptions C16_dra_sub_never_negative.

(* --- Resource <-> v1.ResourceList (ConvertRes2ResList / NewResource), magnitudes up to 2^63 --- *)
(* Resource -> ResourceList -> Resource is the identity (and MaxTaskNum is the pods scalar) on rt_domain:
   scalar names of the classes NewResource keeps, no empty non-nil scalar map, every amount a float64-exact
   integer with |amount| < 2^63 in the unit the code converts (amount_ok; C16_amount_ok_float says this in
   the words of the float mini-model: FloatMini.round x = Fin x) *)
Theorem C16_new_resource_convert : forall r, rt_domain r = true ->
  new_resource (convert r) = (r, sget r pods_name).
Proof. exact new_resource_convert. Qed.
Print Assumptions C16_new_resource_convert.

Theorem C16_amount_ok_float : forall x, amount_ok x = true -> FloatMini.round x = Fin x /\ Z.abs x < 2 ^ 63.
Proof. exact amount_ok_float. Qed.
Print Assumptions C16_amount_ok_float.

(* the idealised conversions (no float64 / int64 effect; they coincide with the real ones on res_exact /
   rl_exact): no amount bound needed, and what exactly is lost outside the name guard *)
Theorem C16_new_resource_convert_gen : forall r, names_kept r -> sc r <> Some ∅ ->
  new_resource_z (convert_z r) = (r, sget r pods_name).
Proof. exact new_resource_convert_gen_z. Qed.
Print Assumptions C16_new_resource_convert_gen.

Theorem C16_new_resource_convert_pointwise : forall r,
  scm r !! cpu_name = None -> scm r !! mem_name = None ->
  let r' := fst (new_resource_z (convert_z r)) in
  cpu r' = cpu r /\ mem r' = mem r /\
  forall k, scm r' !! k = if kept_scalar k then scm r !! k else None.
Proof. exact new_resource_convert_pointwise_z. Qed.
Print Assumptions C16_new_resource_convert_pointwise.

(* ResourceList -> Resource -> ResourceList, per name class, for every list whose amounts are float64-exact
   and below 2^63 in the unit NewResource reads them (rl_exact) *)
Theorem C16_convert_new_resource : forall rl k, rl_exact rl = true ->
  let rl' := convert (fst (new_resource rl)) in
  match name_class k with
  | CCpu => rl' !! k = Some (default 0 (rl !! k))
  | CMem => rl' !! k = Some (1000 * qvalue (default 0 (rl !! k)))
  | CPods => rl' !! k = (fun m => 1000 * qvalue m) <$> rl !! k
  | CEph | CScalar => rl' !! k = rl !! k
  | CCountQuota | CIgnoredDev | CDropped => rl' !! k = None
  end.
Proof. exact convert_new_resource. Qed.
Print Assumptions C16_convert_new_resource.

(* ... and for every list whose Quantities fit int64 in the unit NewResource reads them (rl_in_range; beyond,
   apimachinery wraps — not modelled): each amount goes through float64 rounding and int64(f) *)
Theorem C16_convert_new_resource_any : forall rl k, rl_in_range rl = true ->
  let c x := i64 (f64 x) in
  let rl' := convert (fst (new_resource rl)) in
  match name_class k with
  | CCpu => rl' !! k = Some (c (default 0 (rl !! k)))
  | CMem => rl' !! k = Some (1000 * c (qvalue (default 0 (rl !! k))))
  | CPods => rl' !! k = (fun m => 1000 * c (qvalue m)) <$> rl !! k
  | CEph | CScalar => rl' !! k = c <$> rl !! k
  | CCountQuota | CIgnoredDev | CDropped => rl' !! k = None
  end.
Proof. exact convert_new_resource_any. Qed.
Print Assumptions C16_convert_new_resource_any.

Theorem C16_convert_new_resource_exact : forall rl k m, rl_exact rl = true ->
  rl !! k = Some m -> kept_scalar k = true \/ k = cpu_name \/ k = mem_name ->
  (k = mem_name \/ k = pods_name -> (1000 | m)) ->
  convert (fst (new_resource rl)) !! k = Some m.
Proof. exact convert_new_resource_exact. Qed.
Print Assumptions C16_convert_new_resource_exact.

Theorem C16_qvalue_bounds : forall m,
  (0 <= m -> m <= 1000 * qvalue m < m + 1000) /\ (m <= 0 -> m - 1000 < 1000 * qvalue m <= m).
Proof. exact qvalue_bounds. Qed.
Print Assumptions C16_qvalue_bounds.

(* --- ResFloat642Quantity / ResQuantity2Float64: int64(f) truncation and range, milli for cpu / whole units
   otherwise, float64(MilliValue()) / float64(Value()) rounding.  Stated ON THE DOMAIN where the amount is a
   float64 (conv_domain: g a power of two, x and its integer part float64-exact, inside int64) resp. the value
   read from the Quantity is a float64-exact int64 (qty_domain); refuted outside --- *)
Theorem C16_float_quantity_float : forall g c x, conv_domain g x = true ->
  quantity_to_float g c (float_to_quantity g c x) = g * Z.quot x g.
Proof. exact float_quantity_float. Qed.
Print Assumptions C16_float_quantity_float.

Theorem C16_float_quantity_float_id : forall g c x, conv_domain g x = true ->
  (quantity_to_float g c (float_to_quantity g c x) = x <-> (g | x)).
Proof. exact float_quantity_float_id. Qed.
Print Assumptions C16_float_quantity_float_id.

Theorem C16_float_quantity_float_bounds : forall g c x, conv_domain g x = true ->
  let y := quantity_to_float g c (float_to_quantity g c x) in
  (0 <= x -> y <= x < y + g) /\ (x <= 0 -> y - g < x <= y).
Proof. exact float_quantity_float_bounds. Qed.
Print Assumptions C16_float_quantity_float_bounds.

Theorem C16_quantity_float_quantity : forall g c m, 0 < g -> qty_domain c m = true ->
  float_to_quantity g c (quantity_to_float g c m) = if c then m else 1000 * qvalue m.
Proof. exact quantity_float_quantity. Qed.
Print Assumptions C16_quantity_float_quantity.

Theorem C16_quantity_float_quantity_id : forall g c m, 0 < g -> qty_domain c m = true ->
  (c = true \/ (1000 | m)) -> float_to_quantity g c (quantity_to_float g c m) = m.
Proof. exact quantity_float_quantity_id. Qed.
Print Assumptions C16_quantity_float_quantity_id.

(* 2^53+1 milli-cpu comes back as 2^53; the float 2^63 becomes MinInt64 milli (amd64) — as on the real code *)
Theorem C16_quantity_float_quantity_refuted :
  exists m, qty_domain true m = false /\ float_to_quantity 1 true (quantity_to_float 1 true m) <> m.
Proof. exact quantity_float_quantity_refuted. Qed.
Print Assumptions C16_quantity_float_quantity_refuted.

Theorem C16_float_quantity_float_refuted :
  exists x, conv_domain 1 x = false /\ quantity_to_float 1 true (float_to_quantity 1 true x) <> x.
Proof. exact float_quantity_float_refuted. Qed.
Print Assumptions C16_float_quantity_float_refuted.

(* --- where TaskInfo.DRAResreq comes from (cache.addDRAResource / buildTaskDRAInfo, after fix 63830d0):
   the per-class count a pod's device requests add up to is min(MaxInt64, exact sum), and whatever the
   cache hands to a task has non-negative int64 counts — the hypothesis job_ok of the GetMinDRAResources
   theorems is discharged from the per-request guarantee of the apiserver --- *)
Theorem C16_task_dra_count_spec : forall rqs c, Forall ereq_ok rqs ->
  count_of (add_map_all ∅ rqs !! c) = Z.min max64 (sum_list (class_counts c rqs)) /\
  0 <= count_of (add_map_all ∅ rqs !! c).
Proof. exact add_map_all_from_empty. Qed.
Print Assumptions C16_task_dra_count_spec.

Theorem C16_task_dra_counts_ok : forall claims refs r per,
  claims_ok claims -> build_task_dra claims refs = BuildOk (Some (r, per)) ->
  dmap_ok r /\ forall c m, per !! c = Some m -> dmap_ok m.
Proof. exact build_task_dra_counts_ok. Qed.
Print Assumptions C16_task_dra_counts_ok.

(* composed: a job whose tasks carry what buildTaskDRAInfo returned has non-negative, exactly saturating
   GetMinDRAResources counts — no hypothesis on the counts other than the per-request apiserver guarantee *)
Theorem C16_min_dra_from_cache : forall j c,
  (forall t, In t (j_tasks j) -> task_from_cache t) ->
  (forall r n, j_tma j !! r = Some n -> in64 n) ->
  0 <= count_of (result_at (get_min_dra j) c) /\
  count_of (result_at (get_min_dra j) c) = Z.min max64 (exact_sum (class_terms c (contribs j))).
Proof. exact min_dra_from_cache. Qed.
Print Assumptions C16_min_dra_from_cache.

(* --- group laws --- *)
Theorem C16_add_sub_pointwise : forall r x,
  cpu (sub (add r x) x) = cpu r /\ mem (sub (add r x) x) = mem r /\
  forall k, sget (sub (add r x) x) k = sget r k.
Proof. exact add_sub_pointwise. Qed.
Print Assumptions C16_add_sub_pointwise.

Theorem C16_add_sub_exact : forall r x,
  (forall k, is_Some (scm x !! k) -> is_Some (scm r !! k)) -> sub (add r x) x = r.
Proof. exact add_sub_exact. Qed.
Print Assumptions C16_add_sub_exact.

Theorem C16_sub_nil_drops_scalars : forall r x, sc r = None -> sc (sub r x) = None.
Proof. exact sub_nil_drops_scalars. Qed.
Print Assumptions C16_sub_nil_drops_scalars.

Theorem C16_add_empty : forall r, add r empty_res = r.
Proof. exact add_empty. Qed.
Print Assumptions C16_add_empty.

Theorem C16_sub_empty : forall r, sub r empty_res = r.
Proof. exact sub_empty. Qed.
Print Assumptions C16_sub_empty.

Theorem C16_sub_add_pointwise : forall r x, sc r <> None ->
  cpu (add (sub r x) x) = cpu r /\ mem (add (sub r x) x) = mem r /\
  forall k, sget (add (sub r x) x) k = sget r k.
Proof. exact sub_add_pointwise. Qed.
Print Assumptions C16_sub_add_pointwise.

Theorem C16_add_comm : forall r x,
  cpu (add r x) = cpu (add x r) /\ mem (add r x) = mem (add x r) /\
  forall k, scm (add r x) !! k = scm (add x r) !! k.
Proof. exact add_comm_pointwise. Qed.
Print Assumptions C16_add_comm.

Theorem C16_add_assoc : forall r x y,
  cpu (add (add r x) y) = cpu (add r (add x y)) /\ mem (add (add r x) y) = mem (add r (add x y)) /\
  forall k, scm (add (add r x) y) !! k = scm (add r (add x y)) !! k.
Proof. exact add_assoc_pointwise. Qed.
Print Assumptions C16_add_assoc.

(* --- order laws, for every tolerance eps > 0 and both defaults --- *)
Theorem C16_less_equal_refl : forall eps, 0 < eps -> forall r d, less_equal eps r r d = true.
Proof. exact less_equal_refl. Qed.
Print Assumptions C16_less_equal_refl.

Theorem C16_less_implies_less_equal : forall eps, 0 < eps -> forall r rr d,
  less r rr d = true -> less_equal eps r rr d = true.
Proof. exact less_implies_less_equal. Qed.
Print Assumptions C16_less_implies_less_equal.

Theorem C16_less_equal_names_zero : forall eps r rr,
  less_equal_names eps r rr DZero = less_equal eps r rr DZero.
Proof. exact less_equal_names_zero. Qed.
Print Assumptions C16_less_equal_names_zero.

Theorem C16_less_equal_names_inf : forall eps r rr,
  less_equal eps r rr DInf = less_equal_names eps r rr DInf && negb (has_missing r rr).
Proof. exact less_equal_names_inf. Qed.
Print Assumptions C16_less_equal_names_inf.

Theorem C16_less_equal_vs_less_partly : forall eps, 0 < eps -> forall r s,
  (forall k v, scm s !! k = Some v -> 0 <= v) ->
  less_equal eps r s DZero = true -> less_partly s r DZero = true ->
  (0 < cpu r - cpu s < eps) \/ (0 < mem r - mem s < eps) \/
  (exists k, 0 < sget r k - sget s k < eps) \/
  (exists k, scm s !! k = None /\ is_Some (scm r !! k) /\ sget r k < eps).
Proof. exact less_equal_vs_less_partly. Qed.
Print Assumptions C16_less_equal_vs_less_partly.

Theorem C16_gp_dim_spec : forall r rr req,
  gp_dim r rr req = true <->
  (0 < cpu req /\ cpu rr < cpu r) \/ (0 < mem req /\ mem rr < mem r) \/
  exists k q, scm req !! k = Some q /\ k <> pods_name /\ 0 < q /\ sget rr k < sget r k.
Proof. exact gp_dim_spec. Qed.
Print Assumptions C16_gp_dim_spec.

Theorem C16_le_dim_is_not_gp_dim : forall r rr req,
  sc r <> None -> le_dim r rr req = negb (gp_dim r rr req).
Proof. exact le_dim_is_not_gp_dim. Qed.
Print Assumptions C16_le_dim_is_not_gp_dim.

(* --- partial ("some dimension") vs total comparisons, both conventions, every eps > 0 --- *)
Theorem C16_less_partly_implies_less_equal_partly : forall eps, 0 < eps -> forall r rr d,
  less_partly r rr d = true -> less_equal_partly eps r rr d = true.
Proof. exact less_partly_implies_less_equal_partly. Qed.
Print Assumptions C16_less_partly_implies_less_equal_partly.

Theorem C16_less_equal_implies_less_equal_partly : forall eps r rr d,
  less_equal eps r rr d = true -> less_equal_partly eps r rr d = true.
Proof. exact less_equal_implies_less_equal_partly. Qed.
Print Assumptions C16_less_equal_implies_less_equal_partly.

Theorem C16_less_implies_less_partly : forall r rr d, less r rr d = true -> less_partly r rr d = true.
Proof. exact less_implies_less_partly. Qed.
Print Assumptions C16_less_implies_less_partly.

Theorem C16_not_less_equal_partly_implies_greater : forall eps, 0 < eps -> forall r rr d,
  less_equal_partly eps r rr d = false -> less rr r d = true.
Proof. exact not_less_equal_partly_implies_greater. Qed.
Print Assumptions C16_not_less_equal_partly_implies_greater.

Theorem C16_equal_refl : forall eps, 0 < eps -> forall r, equal eps r r = true.
Proof. exact equal_refl. Qed.
Print Assumptions C16_equal_refl.

(* --- Resource.Sub WITH its assertion (panics when rr is not <= r within tolerance) --- *)
Theorem C16_add_then_sub_assert : forall eps, 0 < eps -> forall r x, nonneg_res r ->
  exists s, sub_assert eps (add r x) x = SubOk s /\
            cpu s = cpu r /\ mem s = mem r /\ forall k, sget s k = sget r k.
Proof. exact add_then_sub_assert. Qed.
Print Assumptions C16_add_then_sub_assert.

Theorem C16_sub_assert_panics_iff : forall eps, 0 < eps -> forall r rr,
  sub_assert eps r rr = SubPanic <->
  cpu r + eps <= cpu rr \/ mem r + eps <= mem rr \/
  exists k v, scm rr !! k = Some v /\ sget r k + eps <= v.
Proof. exact sub_assert_panics_iff. Qed.
Print Assumptions C16_sub_assert_panics_iff.

(* without the non-negativity guard Add-then-Sub panics (r.cpu = -5, x.cpu = 3) *)
Theorem C16_add_then_sub_assert_refuted : exists r x, sub_assert 2 (add r x) x = SubPanic.
Proof. exact add_then_sub_assert_refuted. Qed.
Print Assumptions C16_add_then_sub_assert_refuted.

(* --- float64: the laws above are about exact arithmetic.  On a float64-faithful mini-model (integer-valued
   binary64, round-to-nearest-even, +-Inf, NaN) they transfer inside the guard [exact] (|values| <= 2^53)
   and are REFUTED outside it --- *)
Theorem C16_add_sub_float_guarded : forall x y, exact (x + y) -> exact x ->
  fsub (fadd (Fin x) (Fin y)) (Fin y) = Fin x.
Proof. exact add_sub_float_guarded. Qed.
Print Assumptions C16_add_sub_float_guarded.

Theorem C16_fle_refl_finite : forall eps x, 0 < eps -> fle eps (Fin x) (Fin x) = true.
Proof. exact fle_refl_finite. Qed.
Print Assumptions C16_fle_refl_finite.

Theorem C16_add_sub_refuted_two53 :
  exists x y, fsub (fadd (Fin x) (Fin y)) (Fin y) <> Fin x /\ exact x /\ exact y.
Proof. exact add_sub_refuted_two53. Qed.
Print Assumptions C16_add_sub_refuted_two53.

Theorem C16_add_sub_refuted_sentinel :
  fsub (fadd (Fin 5) (Fin max_float64)) (Fin max_float64) = Fin 0.
Proof. exact add_sub_refuted_sentinel. Qed.
Print Assumptions C16_add_sub_refuted_sentinel.

Theorem C16_refl_refuted_two_sentinels :
  let s := fadd (Fin max_float64) (Fin max_float64) in s = PInf /\ fle 1 s s = false.
Proof. exact refl_refuted_two_sentinels. Qed.
Print Assumptions C16_refl_refuted_two_sentinels.

(* --- min / max / diff --- *)
Theorem C16_diff_decomposes : forall r s inc dec,
  diff_zero r s = (inc, dec) ->
  cpu r + cpu dec = cpu s + cpu inc /\ mem r + mem dec = mem s + mem inc /\
  0 <= cpu inc /\ 0 <= cpu dec /\ Z.min (cpu inc) (cpu dec) = 0 /\
  0 <= mem inc /\ 0 <= mem dec /\ Z.min (mem inc) (mem dec) = 0 /\
  forall k, sget r k + sget dec k = sget s k + sget inc k /\
            0 <= sget inc k /\ 0 <= sget dec k /\ Z.min (sget inc k) (sget dec k) = 0.
Proof. exact diff_decomposes. Qed.
Print Assumptions C16_diff_decomposes.

Theorem C16_set_max_spec : forall r rr,
  cpu (set_max r rr) = Z.max (cpu r) (cpu rr) /\ mem (set_max r rr) = Z.max (mem r) (mem rr) /\
  forall k, scm (set_max r rr) !! k =
            union_with (fun a b => Some (Z.max a b)) (scm r !! k) (scm rr !! k).
Proof. exact set_max_spec. Qed.
Print Assumptions C16_set_max_spec.

Theorem C16_min_dim_le_left : forall eps, 0 < eps -> forall r rr d,
  (forall k v, scm r !! k = Some v -> 0 <= v) ->
  less_equal eps (min_dim r rr d) r DZero = true.
Proof. exact min_dim_le_left. Qed.
Print Assumptions C16_min_dim_le_left.

(* --- the executable laws evaluated on the Go results accept the model's own results --- *)
Theorem C16_law_sat_add_accepts_model : forall a b, in64 a -> in64 b -> law_sat_add a b (sat_add a b) = true.
Proof. exact law_sat_add_model. Qed.
Print Assumptions C16_law_sat_add_accepts_model.

Theorem C16_law_sat_mul_accepts_model : forall a b, in64 a -> in64 b -> law_sat_mul a b (sat_mul a b) = true.
Proof. exact law_sat_mul_model. Qed.
Print Assumptions C16_law_sat_mul_accepts_model.

Theorem C16_law_dra_accepts_model : forall l,
  Forall (fun ct => in64 (fst ct) /\ in64 (snd ct)) l -> law_dra l (dra_total l) = true.
Proof. exact law_dra_model. Qed.
Print Assumptions C16_law_dra_accepts_model.

Theorem C16_law_group_accepts_model : forall r x, law_group r x (add r x) (sub (add r x) x) (add x r) = true.
Proof. exact law_group_model. Qed.
Print Assumptions C16_law_group_accepts_model.

Theorem C16_law_diff_accepts_model : forall r s, law_diff r s (fst (diff_zero r s)) (snd (diff_zero r s)) = true.
Proof. exact law_diff_model. Qed.
Print Assumptions C16_law_diff_accepts_model.

Theorem C16_law_min_dra_accepts_model : forall j, job_ok j -> law_min_dra j (get_min_dra j) = true.
Proof. exact law_min_dra_model. Qed.
Print Assumptions C16_law_min_dra_accepts_model.

Theorem C16_law_dra_ops_accepts_model : forall d o,
  in64 (d_count d) -> (forall x, o = Some x -> in64 (d_count x)) ->
  law_dra_ops d o (dra_add d o) (dra_sub d o) = true.
Proof. exact law_dra_ops_model. Qed.
Print Assumptions C16_law_dra_ops_accepts_model.

Theorem C16_law_rt_res_accepts_model : forall r,
  law_rt_res r (convert r) (fst (new_resource (convert r))) (snd (new_resource (convert r))) = true.
Proof. exact law_rt_res_model. Qed.
Print Assumptions C16_law_rt_res_accepts_model.

Theorem C16_law_rt_list_accepts_model : forall rl, rl_in_range rl = true ->
  law_rt_list rl (fst (new_resource rl)) (snd (new_resource rl)) (convert (fst (new_resource rl))) = true.
Proof. exact law_rt_list_model. Qed.
Print Assumptions C16_law_rt_list_accepts_model.

Theorem C16_law_min_dra_sound : forall j got c,
  law_min_dra j got = true -> In c (call_classes (contribs j)) ->
  nonneg_terms (class_terms c (contribs j)) = true ->
  0 <= count_of (result_at got c) /\
  count_of (result_at got c) = Z.min max64 (exact_sum (class_terms c (contribs j))).
Proof. exact law_min_dra_sound. Qed.
Print Assumptions C16_law_min_dra_sound.

Theorem C16_law_partial_spec : forall a b c d e,
  law_partial a b c d e = true <->
  (c = true -> d = true) /\ (b = true -> d = true) /\ (a = true -> c = true) /\ (d = false -> e = true).
Proof. exact law_partial_spec. Qed.
Print Assumptions C16_law_partial_spec.

Theorem C16_law_partial_accepts_model : forall eps r rr d, 0 < eps ->
  law_partial (less r rr d) (less_equal eps r rr d) (less_partly r rr d) (less_equal_partly eps r rr d)
              (less rr r d) = true.
Proof. exact law_partial_model. Qed.
Print Assumptions C16_law_partial_accepts_model.

Theorem C16_law_sub_assert_accepts_model : forall eps r rr,
  law_sub_assert (match sub_assert eps r rr with SubPanic => true | SubOk _ => false end)
                 (less_equal eps rr r DZero) = true.
Proof. exact law_sub_assert_model. Qed.
Print Assumptions C16_law_sub_assert_accepts_model.

(* "clones share no storage" cannot be a theorem about a value-semantics model; it is law 118 on the real
   objects (clone, mutate the clone, observe the source).  What the law means, and that the model meets it: *)
Theorem C16_law_clone_independent_spec : forall d before a1 a2 a3,
  law_clone_independent d before a1 a2 a3 = true <->
  (d_count before = d_count d /\ d_caps before = d_caps d) /\
  (d_count a1 = d_count before /\ d_caps a1 = d_caps before) /\
  (d_count a2 = d_count before /\ d_caps a2 = d_caps before) /\
  (d_count a3 = d_count before /\ d_caps a3 = d_caps before).
Proof. exact law_clone_independent_spec. Qed.
Print Assumptions C16_law_clone_independent_spec.

(* soundness: a true answer means every later observation of the source IS the first one, as records *)
Theorem C16_law_clone_independent_sound : forall d before a1 a2 a3,
  law_clone_independent d before a1 a2 a3 = true -> before = d /\ a1 = before /\ a2 = before /\ a3 = before.
Proof. exact law_clone_independent_sound. Qed.
Print Assumptions C16_law_clone_independent_sound.

(* law 108 (argument / source observed after an operation = observed before) is list equality *)
Theorem C16_law_unchanged_spec : forall before after, law_unchanged before after = true <-> before = after.
Proof. exact law_unchanged_spec. Qed.
Print Assumptions C16_law_unchanged_spec.

Theorem C16_law_sub_add_accepts_model : forall r x, law_sub_add r x (sub r x) (add (sub r x) x) = true.
Proof. exact law_sub_add_model. Qed.
Print Assumptions C16_law_sub_add_accepts_model.

Theorem C16_law_sub_add_sound : forall r x S B, law_sub_add r x S B = true ->
  cpu B = cpu r /\ mem B = mem r /\ cpu S = cpu r - cpu x /\ mem S = mem r - mem x /\
  (sc r <> None -> forall k, sget B k = sget r k /\ sget S k = sget r k - sget x k).
Proof. exact law_sub_add_sound. Qed.
Print Assumptions C16_law_sub_add_sound.

Theorem C16_law_min_inf_accepts_model : forall r rr, law_min_inf r rr (min_dim r rr DInf) = true.
Proof. exact law_min_inf_model. Qed.
Print Assumptions C16_law_min_inf_accepts_model.

Theorem C16_law_f2q2f_accepts_model : forall g c x mant e,
  (conv_domain g x = true -> float_is mant e (Z.quot x g) = true) ->
  law_f2q2f g c x (float_to_quantity g c x) mant e = true.
Proof. exact law_f2q2f_model. Qed.
Print Assumptions C16_law_f2q2f_accepts_model.

Theorem C16_law_q2f2q_accepts_model : forall c m mant e,
  float_is mant e (quantity_to_float 1 c m) = true ->
  law_q2f2q m c mant e (float_to_quantity 1 c (quantity_to_float 1 c m)) = true.
Proof. exact law_q2f2q_model. Qed.
Print Assumptions C16_law_q2f2q_accepts_model.

(* non-vacuity: a concrete vector pair with scalars on one side only meets the
   hypotheses used above *)
Example C16_nonvacuous :
  let r := mkRes 32 64 (Some {[4%positive := 16]}) in
  let x := mkRes 16 0 (Some {[4%positive := 16; 5%positive := 3]}) in
  less_equal 2 r (add r x) DZero = true /\ sc r <> None /\
  sget (sub (add r x) x) 5 = 0 /\ sub (add r x) x <> r.
Proof. vm_compute. repeat split; congruence. Qed.

(* non-vacuity of the DRA theorems: a two-role job whose products each fit but whose sum saturates
   meets job_ok; the result is MaxInt64, the exact sum is larger *)
Example C16_dra_nonvacuous :
  let rq c := ({[1%positive := mkD c {[1%positive := 2500]}]} : dmap) in
  let j := mkJ 0 {[2%positive := 2; 3%positive := 3]}
               [mkT 0 1 1 2%positive (Some (rq 4611686018427387904));
                mkT 0 2 2 3%positive (Some (rq 3074457345618258602))] in
  count_of (result_at (get_min_dra j) 1%positive) = max64 /\
  max64 < exact_sum (class_terms 1%positive (contribs j)) /\
  cap_of (result_at (get_min_dra j) 1%positive) 1%positive = 12500 /\
  length (contribs j) = 2%nat.
Proof. vm_compute. repeat split; reflexivity. Qed.

Example C16_dra_nonvacuous_job_ok : job_ok example_job /\ length (contribs example_job) = 2%nat.
Proof. exact example_job_ok. Qed.

(* non-vacuity of the round trip: a vector with a fractional-unit ephemeral-storage amount, pods and
   a hugepages scalar lies in rt_domain and comes back unchanged *)
Example C16_roundtrip_nonvacuous :
  let r := mkRes 1500 4096 (Some {[1%positive := 3; 6%positive := 4194304000; 7%positive := 2500]}) in
  rt_domain r = true /\
  convert r !! 7%positive = Some 2500 /\ convert r !! 1%positive = Some 3000 /\
  bool_decide (new_resource (convert r) = (r, 3)) = true.
Proof. vm_compute. repeat split; reflexivity. Qed.

Example C16_conv_nonvacuous :
  conv_domain 1 4007 = true /\ quantity_to_float 1 true (float_to_quantity 1 true 4007) = 4007 /\
  conv_domain 16 (16 * 4007 + 9) = true /\ float_to_quantity 16 true (16 * 4007 + 9) = 4007 /\
  conv_domain 1 (3 * 2 ^ 60) = true /\ qty_domain false 2500 = true /\ quantity_to_float 1 false 2500 = 3 /\
  qty_domain true (2 ^ 63 - 1024) = true /\
  float_to_quantity 1 true (quantity_to_float 1 true (2 ^ 63 - 1024)) = 2 ^ 63 - 1024 /\
  conv_domain 3 10 = false.
Proof. exact conv_nonvacuous. Qed.

Example C16_build_task_dra_nonvacuous :
  let claims := ({[1%positive := [mkRaw 0 1%positive (2 ^ 62) ∅; mkRaw 0 1%positive (2 ^ 62) ∅]]}
                 : gmap positive (list rawreq)) in
  claims_ok claims /\
  exists r per, build_task_dra claims [1%positive] = BuildOk (Some (r, per)) /\
                count_of (r !! 1%positive) = max64.
Proof. exact build_task_dra_nonvacuous. Qed.

(* above 2^53: 2^63-1024 milli-cpu, 1 Ei of memory, 2^53+2 pods, 3*2^60 milli-bytes of ephemeral-storage lie
   in rt_domain and come back unchanged; 2^53+1 is not a float64 *)
Example C16_roundtrip_large_nonvacuous :
  rt_domain large_res = true /\
  bool_decide (new_resource (convert large_res) = (large_res, 2 ^ 53 + 2)) = true /\
  amount_ok (2 ^ 53 + 1) = false /\ f64 (2 ^ 53 + 1) = 2 ^ 53 /\ f64 (2 ^ 53 + 3) = 2 ^ 53 + 4.
Proof. exact roundtrip_large_nonvacuous. Qed.

(* the MaxFloat64 sentinel is outside the domain: the unchanged code (amd64) turns it into -2^63 *)
Example C16_convert_sentinel :
  let inf := (2 ^ 53 - 1) * 2 ^ 971 in
  convert (mkRes inf inf None) !! cpu_name = Some min64 /\ amount_ok inf = false /\
  fst (new_resource (convert (mkRes inf inf None))) = mkRes min64 min64 None.
Proof. exact convert_sentinel. Qed.
