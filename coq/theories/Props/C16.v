(* Property C16 — resource arithmetic obeys its algebraic laws and never wraps.
   Property theorems only; each is closed by [exact] of a lemma proved in
   Base/ResLemmas.v or C16/SatLemmas.v and followed by its assumptions. *)
From stdpp Require Import gmap.
From Coq Require Import ZArith.
From V Require Import Base.Res Base.ResLemmas C16.SatModel C16.SatLemmas C16.Laws C16.LawsLemmas.
Open Scope Z_scope.

(* --- saturating integers: for ALL int64 operands the Go body (modelled with
   explicit two's-complement wrap) computes the clamped mathematical result --- *)
Theorem C16_sat_add_spec : forall a b, in64 a -> in64 b -> sat_add a b = clamp64 (a + b).
Proof. exact sat_add_spec. Qed.
Print Assumptions C16_sat_add_spec.

Theorem C16_sat_mul_spec : forall a b, in64 a -> in64 b -> sat_mul a b = clamp64 (a * b).
Proof. exact sat_mul_spec. Qed.
Print Assumptions C16_sat_mul_spec.

Theorem C16_sat_add_pos : forall a b, in64 a -> in64 b -> 0 < a -> 0 < b -> 0 < sat_add a b.
Proof. exact sat_add_pos. Qed.
Print Assumptions C16_sat_add_pos.

Theorem C16_sat_mul_pos : forall a b, in64 a -> in64 b -> 0 < a -> 0 < b -> 0 < sat_mul a b.
Proof. exact sat_mul_pos. Qed.
Print Assumptions C16_sat_mul_pos.

(* the DRA accumulation total += count * times never goes negative, for every
   list of non-negative int64 counts and multiplicities *)
Theorem C16_dra_total_never_negative : forall l,
  Forall (fun ct => in64 (fst ct) /\ in64 (snd ct) /\ 0 <= fst ct /\ 0 <= snd ct) l ->
  0 <= dra_total l.
Proof. exact dra_total_never_negative. Qed.
Print Assumptions C16_dra_total_never_negative.

(* conversion to a Kubernetes quantity and back is the identity on integer amounts *)
Theorem C16_quantity_roundtrip : forall x, float_of_quantity (quantity_of_float x) = x.
Proof. exact (fun x => eq_refl). Qed.
Print Assumptions C16_quantity_roundtrip.

(* --- group laws --- *)
Theorem C16_add_sub_pointwise : forall r x,
  cpu (sub (add r x) x) = cpu r /\ mem (sub (add r x) x) = mem r /\
  forall k, sget (sub (add r x) x) k = sget r k.
Proof. exact add_sub_pointwise. Qed.
Print Assumptions C16_add_sub_pointwise.

Theorem C16_add_sub_exact : forall r x,
  (forall k, is_Some (scm x !! k) -> is_Some (scm r !! k)) -> sub (add r x) x = r.
Proof. exact add_sub_exact. Qed.
Print Assumptions C16_add_sub_exact.

Theorem C16_sub_nil_drops_scalars : forall r x, sc r = None -> sc (sub r x) = None.
Proof. exact sub_nil_drops_scalars. Qed.
Print Assumptions C16_sub_nil_drops_scalars.

Theorem C16_add_comm : forall r x,
  cpu (add r x) = cpu (add x r) /\ mem (add r x) = mem (add x r) /\
  forall k, scm (add r x) !! k = scm (add x r) !! k.
Proof. exact add_comm_pointwise. Qed.
Print Assumptions C16_add_comm.

Theorem C16_add_assoc : forall r x y,
  cpu (add (add r x) y) = cpu (add r (add x y)) /\ mem (add (add r x) y) = mem (add r (add x y)) /\
  forall k, scm (add (add r x) y) !! k = scm (add r (add x y)) !! k.
Proof. exact add_assoc_pointwise. Qed.
Print Assumptions C16_add_assoc.

(* --- order laws, for every tolerance eps > 0 and both defaults --- *)
Theorem C16_less_equal_refl : forall eps, 0 < eps -> forall r d, less_equal eps r r d = true.
Proof. exact less_equal_refl. Qed.
Print Assumptions C16_less_equal_refl.

Theorem C16_less_implies_less_equal : forall eps, 0 < eps -> forall r rr d,
  less r rr d = true -> less_equal eps r rr d = true.
Proof. exact less_implies_less_equal. Qed.
Print Assumptions C16_less_implies_less_equal.

Theorem C16_less_equal_names_zero : forall eps r rr,
  less_equal_names eps r rr DZero = less_equal eps r rr DZero.
Proof. exact less_equal_names_zero. Qed.
Print Assumptions C16_less_equal_names_zero.

Theorem C16_less_equal_names_inf : forall eps r rr,
  less_equal eps r rr DInf = less_equal_names eps r rr DInf && negb (has_missing r rr).
Proof. exact less_equal_names_inf. Qed.
Print Assumptions C16_less_equal_names_inf.

Theorem C16_less_equal_vs_less_partly : forall eps, 0 < eps -> forall r s,
  (forall k v, scm s !! k = Some v -> 0 <= v) ->
  less_equal eps r s DZero = true -> less_partly s r DZero = true ->
  (0 < cpu r - cpu s < eps) \/ (0 < mem r - mem s < eps) \/
  (exists k, 0 < sget r k - sget s k < eps) \/
  (exists k, scm s !! k = None /\ is_Some (scm r !! k) /\ sget r k < eps).
Proof. exact less_equal_vs_less_partly. Qed.
Print Assumptions C16_less_equal_vs_less_partly.

Theorem C16_gp_dim_spec : forall r rr req,
  gp_dim r rr req = true <->
  (0 < cpu req /\ cpu rr < cpu r) \/ (0 < mem req /\ mem rr < mem r) \/
  exists k q, scm req !! k = Some q /\ k <> pods_name /\ 0 < q /\ sget rr k < sget r k.
Proof. exact gp_dim_spec. Qed.
Print Assumptions C16_gp_dim_spec.

Theorem C16_le_dim_is_not_gp_dim : forall r rr req,
  sc r <> None -> le_dim r rr req = negb (gp_dim r rr req).
Proof. exact le_dim_is_not_gp_dim. Qed.
Print Assumptions C16_le_dim_is_not_gp_dim.

(* --- min / max / diff --- *)
Theorem C16_diff_decomposes : forall r s inc dec,
  diff_zero r s = (inc, dec) ->
  cpu r + cpu dec = cpu s + cpu inc /\ mem r + mem dec = mem s + mem inc /\
  0 <= cpu inc /\ 0 <= cpu dec /\ Z.min (cpu inc) (cpu dec) = 0 /\
  0 <= mem inc /\ 0 <= mem dec /\ Z.min (mem inc) (mem dec) = 0 /\
  forall k, sget r k + sget dec k = sget s k + sget inc k /\
            0 <= sget inc k /\ 0 <= sget dec k /\ Z.min (sget inc k) (sget dec k) = 0.
Proof. exact diff_decomposes. Qed.
Print Assumptions C16_diff_decomposes.

Theorem C16_set_max_spec : forall r rr,
  cpu (set_max r rr) = Z.max (cpu r) (cpu rr) /\ mem (set_max r rr) = Z.max (mem r) (mem rr) /\
  forall k, scm (set_max r rr) !! k =
            union_with (fun a b => Some (Z.max a b)) (scm r !! k) (scm rr !! k).
Proof. exact set_max_spec. Qed.
Print Assumptions C16_set_max_spec.

Theorem C16_min_dim_le_left : forall eps, 0 < eps -> forall r rr d,
  (forall k v, scm r !! k = Some v -> 0 <= v) ->
  less_equal eps (min_dim r rr d) r DZero = true.
Proof. exact min_dim_le_left. Qed.
Print Assumptions C16_min_dim_le_left.

(* --- the executable laws evaluated on the Go results accept the model's own results --- *)
Theorem C16_law_sat_add_accepts_model : forall a b, in64 a -> in64 b -> law_sat_add a b (sat_add a b) = true.
Proof. exact law_sat_add_model. Qed.
Print Assumptions C16_law_sat_add_accepts_model.

Theorem C16_law_sat_mul_accepts_model : forall a b, in64 a -> in64 b -> law_sat_mul a b (sat_mul a b) = true.
Proof. exact law_sat_mul_model. Qed.
Print Assumptions C16_law_sat_mul_accepts_model.

Theorem C16_law_dra_accepts_model : forall l,
  Forall (fun ct => in64 (fst ct) /\ in64 (snd ct)) l -> law_dra l (dra_total l) = true.
Proof. exact law_dra_model. Qed.
Print Assumptions C16_law_dra_accepts_model.

Theorem C16_law_group_accepts_model : forall r x, law_group r x (add r x) (sub (add r x) x) (add x r) = true.
Proof. exact law_group_model. Qed.
Print Assumptions C16_law_group_accepts_model.

Theorem C16_law_diff_accepts_model : forall r s, law_diff r s (fst (diff_zero r s)) (snd (diff_zero r s)) = true.
Proof. exact law_diff_model. Qed.
Print Assumptions C16_law_diff_accepts_model.

(* non-vacuity: a concrete vector pair with scalars on one side only meets the
   hypotheses used above *)
Example C16_nonvacuous :
  let r := mkRes 32 64 (Some {[4%positive := 16]}) in
  let x := mkRes 16 0 (Some {[4%positive := 16; 5%positive := 3]}) in
  less_equal 2 r (add r x) DZero = true /\ sc r <> None /\
  sget (sub (add r x) x) 5 = 0 /\ sub (add r x) x <> r.
Proof. vm_compute. repeat split; congruence. Qed.
