(* Property C15 — a pod's scheduling request equals Kubernetes' effective pod
   request.  Property theorems only; each is closed by [exact] of a lemma of
   C15/Lemmas.v and followed by its assumptions.

   vc_pod_request   : model of volcano GetPodResourceRequest (= api.NewTaskInfo's Resreq / InitResreq;
                      the scheduler cache's TaskInfo adds CSI volume counts: the cache_task definitions)
   k8s_pod_requests : model of k8s.io/component-helpers/resource.PodRequests with the
                      options kube-scheduler derives from the feature gates (opts_of)
   new_resource     : volcano's NewResource unit rule, add_scalar _ pods 1 : AddScalar("pods", 1) *)
From stdpp Require Import gmap.
From Coq Require Import ZArith.
From V Require Import Base.Res C15.Model C15.Laws C15.Lemmas.
Open Scope Z_scope.

(* MAIN: for every classification of resource names, every setting of the four
   gates and EVERY pod (any containers, any init containers / sidecars in any
   order, any container and pod-level statuses, overhead, pod-level requests,
   resize conditions, DRA claim statuses) whose amounts are on the conversion grid: volcano's vector is upstream's request
   converted by NewResource, plus pods = 1 — as an equality of Resource values
   (cpu, memory, the scalar map with exactly the same names). *)
Theorem C15_volcano_eq_upstream : forall tracked plsup ippvs plr ippl dra p,
  pod_ok tracked plsup p ->
  vc_pod_request tracked plsup ippvs plr ippl dra p =
  add_scalar (new_resource tracked (k8s_pod_requests plsup (opts_of ippvs plr ippl dra) p)) pods_name 1.
Proof. exact volcano_eq_upstream. Qed.
Print Assumptions C15_volcano_eq_upstream.

Theorem C15_volcano_eq_upstream_amounts : forall tracked plsup ippvs plr ippl dra p,
  pod_ok tracked plsup p ->
  let vc := vc_pod_request tracked plsup ippvs plr ippl dra p in
  let up := new_resource tracked (k8s_pod_requests plsup (opts_of ippvs plr ippl dra) p) in
  cpu vc = cpu up /\ mem vc = mem up /\
  sget vc pods_name = sget up pods_name + 1 /\
  (forall k, k <> pods_name -> scm vc !! k = scm up !! k).
Proof. exact volcano_eq_upstream_amounts. Qed.
Print Assumptions C15_volcano_eq_upstream_amounts.

(* api.NewTaskInfo: TaskInfo.Resreq, TaskInfo.InitResreq and BestEffort are all
   derived from the one value GetPodResourceRequest returns.  NOTE: the
   lifecycle position m (phase, nodeName, deletionTimestamp) does not occur in
   the definitions of task_resreq / task_init_resreq / task_best_effort, so the
   quantifier over m carries no proof content: that the CODE ignores m for these
   fields is established by reading job_info.go 207-232 and by the correspondence
   observables (tags 5-10) over pods in every phase, not by this theorem. *)
Theorem C15_task_reservation_eq_upstream : forall tracked plsup ippvs plr ippl dra m p,
  pod_ok tracked plsup p ->
  let up1 := add_scalar (new_resource tracked (k8s_pod_requests plsup (opts_of ippvs plr ippl dra) p)) pods_name 1 in
  task_resreq tracked plsup ippvs plr ippl dra m p = up1 /\
  task_init_resreq tracked plsup ippvs plr ippl dra m p = up1 /\
  task_best_effort tracked plsup ippvs plr ippl dra m p = is_empty 1 up1.
Proof. exact task_reservation_eq_upstream. Qed.
Print Assumptions C15_task_reservation_eq_upstream.

Theorem C15_law_reservation_is_the_relation : forall up vc rq irq be,
  law_task_reservation up vc rq irq be = true <->
  vc = add_scalar up pods_name 1 /\ rq = add_scalar up pods_name 1 /\ irq = add_scalar up pods_name 1 /\
  be = is_empty 1 (add_scalar up pods_name 1).
Proof. exact law_task_reservation_spec. Qed.
Print Assumptions C15_law_reservation_is_the_relation.


(* WHAT THE SCHEDULER CACHE CHARGES (SchedulerCache.NewTaskInfo, the TaskInfo that
   addPod hands to NodeInfo.AddTask / JobInfo.AddTaskInfo): api.NewTaskInfo's
   vector with the pod's CSI volumes counted on their attach-limit names; Resreq
   and InitResreq are one object.  For every list [keys] of names the volume
   lookups resolve to: the charged vector is upstream's request + pods with
   [keys] counted on top -- so it EXCEEDS upstream's PodRequests on exactly the
   attach-limit names (kube-scheduler accounts volume limits in a separate
   plugin, not in the pod request).  As in C15_task_reservation_eq_upstream the
   argument m is unused by the definitions (phantom quantifier). *)
Theorem C15_cache_reservation_eq_upstream : forall tracked plsup ippvs plr ippl dra keys m p,
  pod_ok tracked plsup p ->
  let up1 := add_scalar (new_resource tracked (k8s_pod_requests plsup (opts_of ippvs plr ippl dra) p)) pods_name 1 in
  cache_task_resreq tracked plsup ippvs plr ippl dra keys m p = cache_add_csi up1 keys /\
  cache_task_init_resreq tracked plsup ippvs plr ippl dra keys m p = cache_add_csi up1 keys /\
  cache_task_best_effort tracked plsup ippvs plr ippl dra keys m p = is_empty 1 (cache_add_csi up1 keys).
Proof. exact cache_reservation_eq_upstream. Qed.
Print Assumptions C15_cache_reservation_eq_upstream.

(* what "counted on top" means, without the modelled function: cpu and memory
   untouched, every name gains its number of occurrences in [keys], names that
   do not occur keep their entry or absence *)
Theorem C15_cache_add_csi_spec : forall r keys,
  cpu (cache_add_csi r keys) = cpu r /\ mem (cache_add_csi r keys) = mem r /\
  (forall k, sget (cache_add_csi r keys) k = sget r k + Z.of_nat (count_occ Pos.eq_dec keys k)) /\
  (forall k, k ∉ keys -> scm (cache_add_csi r keys) !! k = scm r !! k).
Proof. exact cache_add_csi_spec. Qed.
Print Assumptions C15_cache_add_csi_spec.

Theorem C15_law_cache_reservation_is_the_relation : forall up crq cirq be keys,
  law_cache_reservation up crq cirq be keys = true <->
  crq = cache_add_csi (add_scalar up pods_name 1) keys /\
  cirq = cache_add_csi (add_scalar up pods_name 1) keys /\
  be = is_empty 1 (cache_add_csi (add_scalar up pods_name 1) keys).
Proof. exact law_cache_reservation_spec. Qed.
Print Assumptions C15_law_cache_reservation_is_the_relation.

(* IN KUBE-SCHEDULER'S UNITS, not through volcano's NewResource: kube_cpu is
   MilliValue() of the cpu entry, kube_value k is Value() of entry k (what
   framework.Resource.Add keeps).  Same cpu, same memory, one more pod; a tracked
   scalar / ephemeral-storage amount in whole units is kube's x 1000; a name
   NewResource does not track (count/..., IgnoredDevicesList, non-scalar names)
   is NOT reserved by volcano at all although upstream's list carries it. *)
Theorem C15_volcano_in_kube_units : forall tracked plsup ippvs plr ippl dra p,
  pod_ok tracked plsup p ->
  let vc := vc_pod_request tracked plsup ippvs plr ippl dra p in
  let L := k8s_pod_requests plsup (opts_of ippvs plr ippl dra) p in
  cpu vc = kube_cpu L /\ mem vc = kube_value L mem_name /\
  sget vc pods_name = kube_value L pods_name + 1 /\
  (forall k, k <> cpu_name -> k <> mem_name -> k <> pods_name ->
     bool_decide (k = eph_name) || tracked k = true ->
     whole_units (default 0 (L !! k)) -> sget vc k = 1000 * kube_value L k) /\
  (forall k, k <> cpu_name -> k <> mem_name -> k <> pods_name -> k <> eph_name -> tracked k = false ->
     scm vc !! k = None).
Proof. exact volcano_in_kube_units. Qed.
Print Assumptions C15_volcano_in_kube_units.

Theorem C15_law_kube_units_is_the_relation : forall kcpu kmem ksc vc rq,
  law_kube_units kcpu kmem ksc vc rq = true <->
  cpu vc = kcpu /\ mem vc = kmem /\ cpu rq = kcpu /\ mem rq = kmem /\
  Forall (fun kv => sget vc kv.1 = 1000 * kv.2 /\ sget rq kv.1 = 1000 * kv.2) ksc.
Proof. exact law_kube_units_spec. Qed.
Print Assumptions C15_law_kube_units_is_the_relation.

Theorem C15_law_not_less_is_the_relation : forall up vc,
  law_not_less up vc = true <->
  cpu up <= cpu vc /\ mem up <= mem vc /\
  forall k v, scm up !! k = Some v -> v + (if bool_decide (k = pods_name) then 1 else 0) <= sget vc k.
Proof. exact law_not_less_spec. Qed.
Print Assumptions C15_law_not_less_is_the_relation.

(* the lookup-error outcome of SchedulerCache.NewTaskInfo (a PVC not yet in the
   informer, an ephemeral volume's claim not owned by the pod): nothing is counted,
   the task that addPod still adds on a pending-PVC error carries upstream's request + pods *)
Theorem C15_cache_error_outcome_eq_upstream : forall tracked plsup ippvs plr ippl dra m p,
  pod_ok tracked plsup p ->
  let up1 := add_scalar (new_resource tracked (k8s_pod_requests plsup (opts_of ippvs plr ippl dra) p)) pods_name 1 in
  cache_task_resreq_o tracked plsup ippvs plr ippl dra None m p = up1 /\
  cache_task_best_effort_o tracked plsup ippvs plr ippl dra None m p = is_empty 1 up1.
Proof. exact cache_error_outcome_eq_upstream. Qed.
Print Assumptions C15_cache_error_outcome_eq_upstream.

(* EVENT LEVEL.  A pod delivered through the cache's handlers as AddPod(v0),
   UpdatePod(v0,v1), ... - status-only, spec-only or mixed changes.  The model
   (ev_hist) has the structure of updatePod: an early-return branch that KEEPS the
   stored task and Used (taken by the code when the new object has no nodeName
   while the stored task is allocated: code_keeps), otherwise RemoveTask of the
   STORED request followed by addPod of a TaskInfo computed from the new object.
   INDEPENDENT SPECIFICATION: the state after event i is a function of version i
   alone - the cached task is upstream's request of version i (+ pods + volumes)
   and the node's Used carries the same amounts - for every history of bound
   pod_ok versions; by induction over the history with the invariant "Used has the
   amounts of the stored task".  That the REAL updatePod takes no other early
   return is not proved: it is what correspondence selector 3 + law 107 check. *)
Theorem C15_event_history_spec : forall tracked plsup ippvs plr ippl dra (vs : list (list positive * pod_meta * pod)),
  Forall (fun x => pod_ok tracked plsup x.2) vs ->
  Forall (fun x => m_node x.1.2 = true) vs ->
  Forall2 (fun st x =>
             let want := cache_add_csi
               (add_scalar (new_resource tracked (k8s_pod_requests plsup (opts_of ippvs plr ippl dra) x.2)) pods_name 1) x.1.1 in
             st_task st = want /\ same_amounts (st_used st) want)
          (ev_hist code_keeps (fun x => cache_task_resreq tracked plsup ippvs plr ippl dra x.1.1 x.1.2 x.2) vs) vs.
Proof. exact event_history_spec. Qed.
Print Assumptions C15_event_history_spec.

(* the specification is not satisfied by construction: the early-return variant
   of seed C15-r8-1 (keep the stored task when a Running pod's update leaves the
   spec unchanged), as a model, violates it on the admitted-resize history
   (cached task 1000m, 1000m; specification and the code's guard 1000m, 6000m) *)
Theorem C15_early_return_variant_refuted :
  Forall (fun x => pod_ok all_tracked huge_only x.2) resize_history /\
  Forall (fun x => m_node x.1.2 = true) resize_history /\
  map (fun st => cpu (st_task st))
      (ev_hist r81_keeps (fun x => cache_task_resreq all_tracked huge_only true true true false x.1.1 x.1.2 x.2) resize_history)
    = [1000; 1000] /\
  map (fun st => cpu (st_task st))
      (ev_hist code_keeps (fun x => cache_task_resreq all_tracked huge_only true true true false x.1.1 x.1.2 x.2) resize_history)
    = [1000; 6000] /\
  map (fun x => cpu (new_resource all_tracked (k8s_pod_requests huge_only (opts_of true true true false) x.2))) resize_history
    = [1000; 6000].
Proof. exact early_return_variant_refuted. Qed.
Print Assumptions C15_early_return_variant_refuted.

(* the invariant step lemmas behind it, for arbitrary request vectors *)
Theorem C15_ev_trace_spec : forall reqs,
  Forall (fun r => scm r <> ∅) reqs ->
  Forall2 (fun st r => st_task st = r /\ same_amounts (st_used st) r) (ev_trace reqs) reqs.
Proof. exact ev_trace_spec. Qed.
Print Assumptions C15_ev_trace_spec.

(* WHICH UPSTREAM COMPUTATION AT WHICH POINT.  A pod ON a node is counted by
   PodInfo.CalculateResource (opts_of, status-aware): the theorems above.  The pod
   BEING PLACED is computed by the fit plugin / kubelet admission with the status
   options off (opts_incoming; noderesources/fit.go 321-327).  volcano has ONE value
   for both.  It equals the incoming computation for every pod that carries no
   resize information (no container / init-container status, no status.resources:
   what a pod has before a kubelet started it) ... *)
Theorem C15_incoming_request_eq_upstream : forall tracked plsup ippvs plr ippl dra keys m p,
  pod_ok tracked plsup p -> no_resize_info p ->
  cache_task_init_resreq tracked plsup ippvs plr ippl dra keys m p =
  cache_add_csi (add_scalar (new_resource tracked (k8s_pod_requests plsup (opts_incoming plr dra) p)) pods_name 1) keys.
Proof. exact incoming_request_eq_upstream. Qed.
Print Assumptions C15_incoming_request_eq_upstream.

(* ... and it differs otherwise: spec cpu 1, status.resources cpu 2 (pod_ok):
   InitResreq 2000m, the incoming computation 1000m, the resident computation
   2000m.  For such a pod volcano can deny a node upstream would place it on
   ("never denied a node where it fits" fails); declared, not a finding: statuses
   exist only after a kubelet started the pod, when the resident computation applies. *)
Theorem C15_incoming_request_refuted :
  exists p, pod_ok all_tracked huge_only p /\
    cpu (cache_task_init_resreq all_tracked huge_only true true true false [] (mkMeta 1 false false) p) = 2000 /\
    cpu (new_resource all_tracked (k8s_pod_requests huge_only (opts_incoming true false) p)) = 1000 /\
    cpu (new_resource all_tracked (k8s_pod_requests huge_only (opts_of true true true false) p)) = 2000.
Proof. exact incoming_request_refuted. Qed.
Print Assumptions C15_incoming_request_refuted.

(* COROLLARY BY CONGRUENCE ONLY (second sentence of the property): volcano's
   comparison "InitResreq of the new pod <= allocatable - sum of Resreq of the
   residents" answers the same on volcano's vectors and on upstream's (incoming
   computation for the new pod, resident computation for the residents).  It
   follows from the per-pod equalities by rewriting under the same fold; it says
   nothing about NodeInfo.AddTask's status-dependent ledgers, the predicates
   plugin or kubelet admission, none of which is modelled. *)
Theorem C15_node_fits_iff_incoming : forall tracked plsup ippvs plr ippl dra rs alloc eps d keys m p,
  Forall (fun x => pod_ok tracked plsup x.2) rs -> pod_ok tracked plsup p -> no_resize_info p ->
  less_equal eps (cache_task_init_resreq tracked plsup ippvs plr ippl dra keys m p)
    (sub alloc (node_used (map (fun x => cache_task_resreq tracked plsup ippvs plr ippl dra x.1.1 x.1.2 x.2) rs))) d =
  less_equal eps
    (cache_add_csi (add_scalar (new_resource tracked (k8s_pod_requests plsup (opts_incoming plr dra) p)) pods_name 1) keys)
    (sub alloc (node_used (map (fun x => cache_add_csi
                 (add_scalar (new_resource tracked (k8s_pod_requests plsup (opts_of ippvs plr ippl dra) x.2)) pods_name 1)
                 x.1.1) rs))) d.
Proof. exact node_fits_iff_incoming. Qed.
Print Assumptions C15_node_fits_iff_incoming.



(* the executable law evaluated on the Go results is this relation, and it
   accepts the models' own outputs *)
Theorem C15_law_is_the_relation : forall up vc,
  law_same_request up vc = true <-> vc = add_scalar up pods_name 1.
Proof. exact law_same_request_spec. Qed.
Print Assumptions C15_law_is_the_relation.


(* the building blocks the induction rests on: NewResource commutes with the
   two operations of the upstream computation on on-grid lists *)
Theorem C15_new_resource_add : forall tracked a b, good a -> good b ->
  req (new_resource tracked (add_rl a b)) (add (new_resource tracked a) (new_resource tracked b)).
Proof. exact new_add. Qed.
Print Assumptions C15_new_resource_add.

Theorem C15_new_resource_max : forall tracked a b, good a -> good b ->
  req (new_resource tracked (max_rl a b)) (set_max (new_resource tracked a) (new_resource tracked b)).
Proof. exact new_max. Qed.
Print Assumptions C15_new_resource_max.

(* --- the two divergences found on the real code, repaired by fix: commits in
   /repo.  The unfixed code never read the two gates (= this model with ippl /
   dra false on volcano's side): 1000m against upstream's 2000m; after the fix 2000m --- *)

Theorem C15_pod_level_resize_refuted_before_fix :
  exists p, pod_ok all_tracked huge_only p /\
    cpu (vc_pod_request all_tracked huge_only true true false false p) = 1000 /\
    cpu (new_resource all_tracked (k8s_pod_requests huge_only (opts_of true true true false) p)) = 2000 /\
    cpu (vc_pod_request all_tracked huge_only true true true false p) = 2000.
Proof. exact pod_level_resize_refuted_before_fix. Qed.
Print Assumptions C15_pod_level_resize_refuted_before_fix.

Theorem C15_dra_claims_refuted_before_fix :
  exists p, pod_ok all_tracked huge_only p /\
    cpu (vc_pod_request all_tracked huge_only true true true false p) = 1000 /\
    cpu (new_resource all_tracked (k8s_pod_requests huge_only (opts_of true true true true) p)) = 2000 /\
    cpu (vc_pod_request all_tracked huge_only true true true true p) = 2000.
Proof. exact dra_claims_refuted_before_fix. Qed.
Print Assumptions C15_dra_claims_refuted_before_fix.

(* --- each hypothesis of pod_ok is necessary: the faithful models differ without it --- *)

(* amounts finer than milli-cpu (not API-admissible after defaulting; the admissible
   off-grid case is fractional memory, below): per-container rounding vs rounding of the sum *)
Theorem C15_off_grid_refuted :
  exists p,
    cpu (vc_pod_request all_tracked huge_only true true true false p) = 2 /\
    cpu (new_resource all_tracked (k8s_pod_requests huge_only (opts_of true true true false) p)) = 1.
Proof. exact off_grid_refuted. Qed.
Print Assumptions C15_off_grid_refuted.

(* fractional bytes of memory (admitted by the API server): 2 x memory 500m *)
Theorem C15_fractional_memory_refuted :
  exists p, ~ pod_ok all_tracked huge_only p /\
    mem (vc_pod_request all_tracked huge_only true true true false p) = 2 /\
    mem (new_resource all_tracked (k8s_pod_requests huge_only (opts_of true true true false) p)) = 1.
Proof. exact fractional_memory_refuted. Qed.
Print Assumptions C15_fractional_memory_refuted.

(* inside pod_ok, but in kube's units: ephemeral-storage 1500m is 1500 for
   volcano and Value() = 2 for kube (the whole_units premise is necessary) *)
Theorem C15_kube_units_fractional_refuted :
  exists p, pod_ok all_tracked huge_only p /\
    sget (vc_pod_request all_tracked huge_only true true true false p) eph_name = 1500 /\
    kube_value (k8s_pod_requests huge_only (opts_of true true true false) p) eph_name = 2.
Proof. exact kube_units_fractional_refuted. Qed.
Print Assumptions C15_kube_units_fractional_refuted.

Theorem C15_status_name_collision_refuted :
  exists p,
    cpu (vc_pod_request all_tracked huge_only true true true false p) = 1000 /\
    cpu (new_resource all_tracked (k8s_pod_requests huge_only (opts_of true true true false) p)) = 5000.
Proof. exact status_name_collision_refuted. Qed.
Print Assumptions C15_status_name_collision_refuted.

Theorem C15_untracked_pod_level_refuted :
  exists p,
    scm (vc_pod_request none_tracked huge_only true true true false p) !! 7%positive = Some 0 /\
    scm (new_resource none_tracked (k8s_pod_requests huge_only (opts_of true true true false) p)) !! 7%positive = None.
Proof. exact untracked_pod_level_refuted. Qed.
Print Assumptions C15_untracked_pod_level_refuted.

(* non-vacuity: a pod with sidecars between ordinary init containers, a resize
   status, pod-level requests with a pending pod-level resize, a DRA claim and
   overhead meets the hypothesis, under all four gates on; both sides evaluate
   to cpu 4100m, memory 208 *)
Example C15_nonvacuous :
  pod_ok all_tracked huge_only example_pod /\
  cpu (vc_pod_request all_tracked huge_only true true true true example_pod) = 4100 /\
  mem (vc_pod_request all_tracked huge_only true true true true example_pod) = 208.
Proof.
  split; [exact example_pod_ok|]. split; vm_compute; reflexivity.
Qed.
