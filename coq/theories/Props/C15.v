(* Property C15 — a pod's scheduling request equals Kubernetes' effective pod
   request.  Property theorems only; each is closed by [exact] of a lemma of
   C15/Lemmas.v and followed by its assumptions.

   vc_pod_request   : model of volcano GetPodResourceRequest (= TaskInfo.Resreq / InitResreq)
   k8s_pod_requests : model of k8s.io/component-helpers/resource.PodRequests with the
                      options kube-scheduler derives from the feature gates (opts_of)
   new_resource     : volcano's NewResource unit rule, add_scalar _ pods 1 : AddScalar("pods", 1) *)
From stdpp Require Import gmap.
From Coq Require Import ZArith.
From V Require Import Base.Res C15.Model C15.Laws C15.Lemmas.
Open Scope Z_scope.

(* MAIN: for every classification of resource names, every setting of the four
   gates and EVERY pod (any containers, any init containers / sidecars in any
   order, any container and pod-level statuses, overhead, pod-level requests,
   resize conditions, DRA claim statuses) whose amounts are on the conversion grid: volcano's vector is upstream's request
   converted by NewResource, plus pods = 1 — as an equality of Resource values
   (cpu, memory, the scalar map with exactly the same names). *)
Theorem C15_volcano_eq_upstream : forall tracked plsup ippvs plr ippl dra p,
  pod_ok tracked plsup p ->
  vc_pod_request tracked plsup ippvs plr ippl dra p =
  add_scalar (new_resource tracked (k8s_pod_requests plsup (opts_of ippvs plr ippl dra) p)) pods_name 1.
Proof. exact volcano_eq_upstream. Qed.
Print Assumptions C15_volcano_eq_upstream.

Theorem C15_volcano_eq_upstream_amounts : forall tracked plsup ippvs plr ippl dra p,
  pod_ok tracked plsup p ->
  let vc := vc_pod_request tracked plsup ippvs plr ippl dra p in
  let up := new_resource tracked (k8s_pod_requests plsup (opts_of ippvs plr ippl dra) p) in
  cpu vc = cpu up /\ mem vc = mem up /\
  sget vc pods_name = sget up pods_name + 1 /\
  (forall k, k <> pods_name -> scm vc !! k = scm up !! k).
Proof. exact volcano_eq_upstream_amounts. Qed.
Print Assumptions C15_volcano_eq_upstream_amounts.

(* WHAT IS RESERVED: TaskInfo.Resreq (charged to the node ledger by
   NodeInfo.AddTask) and TaskInfo.InitResreq (what predicates compare with the
   idle amount) are both upstream's effective request + pods, and BestEffort is
   "that vector is empty" — for every pod and EVERY lifecycle position m of the
   pod (phase "", Pending, Running, Succeeded, Failed, Unknown; with or without
   spec.nodeName; with or without a deletion timestamp). *)
Theorem C15_task_reservation_eq_upstream : forall tracked plsup ippvs plr ippl dra m p,
  pod_ok tracked plsup p ->
  let up1 := add_scalar (new_resource tracked (k8s_pod_requests plsup (opts_of ippvs plr ippl dra) p)) pods_name 1 in
  task_resreq tracked plsup ippvs plr ippl dra m p = up1 /\
  task_init_resreq tracked plsup ippvs plr ippl dra m p = up1 /\
  task_best_effort tracked plsup ippvs plr ippl dra m p = is_empty 1 up1.
Proof. exact task_reservation_eq_upstream. Qed.
Print Assumptions C15_task_reservation_eq_upstream.

Theorem C15_law_reservation_is_the_relation : forall up vc rq irq be,
  law_task_reservation up vc rq irq be = true <->
  vc = add_scalar up pods_name 1 /\ rq = add_scalar up pods_name 1 /\ irq = add_scalar up pods_name 1 /\
  be = is_empty 1 (add_scalar up pods_name 1).
Proof. exact law_task_reservation_spec. Qed.
Print Assumptions C15_law_reservation_is_the_relation.

Theorem C15_law_reservation_accepts_models : forall tracked plsup ippvs plr ippl dra m p,
  pod_ok tracked plsup p ->
  law_task_reservation (new_resource tracked (k8s_pod_requests plsup (opts_of ippvs plr ippl dra) p))
    (vc_pod_request tracked plsup ippvs plr ippl dra p)
    (task_resreq tracked plsup ippvs plr ippl dra m p)
    (task_init_resreq tracked plsup ippvs plr ippl dra m p)
    (task_best_effort tracked plsup ippvs plr ippl dra m p) = true.
Proof. exact law_reservation_accepts_models. Qed.
Print Assumptions C15_law_reservation_accepts_models.

(* consequently a node fits under volcano's count iff it fits under upstream's *)
Theorem C15_fits_iff : forall tracked plsup ippvs plr ippl dra p,
  pod_ok tracked plsup p ->
  forall eps free d,
  less_equal eps (vc_pod_request tracked plsup ippvs plr ippl dra p) free d =
  less_equal eps (add_scalar (new_resource tracked (k8s_pod_requests plsup (opts_of ippvs plr ippl dra) p)) pods_name 1) free d.
Proof. exact fits_iff. Qed.
Print Assumptions C15_fits_iff.

(* the executable law evaluated on the Go results is this relation, and it
   accepts the models' own outputs *)
Theorem C15_law_is_the_relation : forall up vc,
  law_same_request up vc = true <-> vc = add_scalar up pods_name 1.
Proof. exact law_same_request_spec. Qed.
Print Assumptions C15_law_is_the_relation.

Theorem C15_law_accepts_models : forall tracked plsup ippvs plr ippl dra p,
  pod_ok tracked plsup p ->
  let vc := vc_pod_request tracked plsup ippvs plr ippl dra p in
  law_task_request (new_resource tracked (k8s_pod_requests plsup (opts_of ippvs plr ippl dra) p)) vc vc vc = true.
Proof. exact law_accepts_models. Qed.
Print Assumptions C15_law_accepts_models.

(* the building blocks the induction rests on: NewResource commutes with the
   two operations of the upstream computation on on-grid lists *)
Theorem C15_new_resource_add : forall tracked a b, good a -> good b ->
  req (new_resource tracked (add_rl a b)) (add (new_resource tracked a) (new_resource tracked b)).
Proof. exact new_add. Qed.
Print Assumptions C15_new_resource_add.

Theorem C15_new_resource_max : forall tracked a b, good a -> good b ->
  req (new_resource tracked (max_rl a b)) (set_max (new_resource tracked a) (new_resource tracked b)).
Proof. exact new_max. Qed.
Print Assumptions C15_new_resource_max.

(* --- the two divergences found on the real code, repaired by fix: commits in
   /repo.  The unfixed code never read the two gates (= this model with ippl /
   dra false on volcano's side): 1000m against upstream's 2000m; after the fix 2000m --- *)

Theorem C15_pod_level_resize_refuted_before_fix :
  exists p, pod_ok all_tracked huge_only p /\
    cpu (vc_pod_request all_tracked huge_only true true false false p) = 1000 /\
    cpu (new_resource all_tracked (k8s_pod_requests huge_only (opts_of true true true false) p)) = 2000 /\
    cpu (vc_pod_request all_tracked huge_only true true true false p) = 2000.
Proof. exact pod_level_resize_refuted_before_fix. Qed.
Print Assumptions C15_pod_level_resize_refuted_before_fix.

Theorem C15_dra_claims_refuted_before_fix :
  exists p, pod_ok all_tracked huge_only p /\
    cpu (vc_pod_request all_tracked huge_only true true true false p) = 1000 /\
    cpu (new_resource all_tracked (k8s_pod_requests huge_only (opts_of true true true true) p)) = 2000 /\
    cpu (vc_pod_request all_tracked huge_only true true true true p) = 2000.
Proof. exact dra_claims_refuted_before_fix. Qed.
Print Assumptions C15_dra_claims_refuted_before_fix.

(* --- each hypothesis of pod_ok is necessary: the faithful models differ without it --- *)

(* amounts finer than milli-cpu: per-container rounding vs rounding of the sum *)
Theorem C15_off_grid_refuted :
  exists p,
    cpu (vc_pod_request all_tracked huge_only true true true false p) = 2 /\
    cpu (new_resource all_tracked (k8s_pod_requests huge_only (opts_of true true true false) p)) = 1.
Proof. exact off_grid_refuted. Qed.
Print Assumptions C15_off_grid_refuted.

Theorem C15_status_name_collision_refuted :
  exists p,
    cpu (vc_pod_request all_tracked huge_only true true true false p) = 1000 /\
    cpu (new_resource all_tracked (k8s_pod_requests huge_only (opts_of true true true false) p)) = 5000.
Proof. exact status_name_collision_refuted. Qed.
Print Assumptions C15_status_name_collision_refuted.

Theorem C15_untracked_pod_level_refuted :
  exists p,
    scm (vc_pod_request none_tracked huge_only true true true false p) !! 7%positive = Some 0 /\
    scm (new_resource none_tracked (k8s_pod_requests huge_only (opts_of true true true false) p)) !! 7%positive = None.
Proof. exact untracked_pod_level_refuted. Qed.
Print Assumptions C15_untracked_pod_level_refuted.

(* non-vacuity: a pod with sidecars between ordinary init containers, a resize
   status, pod-level requests with a pending pod-level resize, a DRA claim and
   overhead meets the hypothesis, under all four gates on; both sides evaluate
   to cpu 4100m, memory 208 *)
Example C15_nonvacuous :
  pod_ok all_tracked huge_only example_pod /\
  cpu (vc_pod_request all_tracked huge_only true true true true example_pod) = 4100 /\
  mem (vc_pod_request all_tracked huge_only true true true true example_pod) = 208.
Proof.
  split; [exact example_pod_ok|]. split; vm_compute; reflexivity.
Qed.
