(* Property C08 (stub while the proofs are being written) *)
From V Require Import C08.Model.
