(* Property C08 — the scheduler cache converges to the cluster state and
   snapshots are isolated.  Property theorems only; each is closed by [exact]
   of a lemma proved in C08/Lemmas.v or C08/Refuted.v and followed by its
   assumptions.

   [Rep c] is CacheInv: every job entry is the ledger (membership, TotalRequest,
   Allocated) of exactly the held tasks that name it, every node entry /
   placeholder holds exactly the non-terminated tasks that name it and, when it
   has a Node object, Used / Releasing / Pipelined are the sums of their requests
   and Idle = Allocatable - Used; an entry exists for every task that names a
   job or sits on a node.  [Synced] says the held tasks are exactly
   NewTaskInfo(last delivered pod version). *)
From stdpp Require Import gmap.
From Coq Require Import ZArith.
From V Require Import Base.Res Sched.LedgerModel Sched.LedgerInv C08.Model C08.Laws C08.Lemmas C08.Lemmas2 C08.Lemmas3 C08.Prio C08.Refuted.
Open Scope Z_scope.

(* --- the two task-level operations every pod handler is made of --- *)
Theorem C08_add_task_keeps_inv : forall eps c jo t,
  Rep c -> c_heap c !! t_id t = None -> task_wf t -> t_status t <> Binding -> job_arg jo t ->
  let c' := fst (add_task eps c jo t) in
  Rep c' /\ snd (add_task eps c jo t) = true /\
  c_heap c' = <[t_id t := t]> (c_heap c) /\
  jobs_ext (c_jobs c) (c_jobs c') /\ nodes_ext (c_nodes c) (c_nodes c') /\
  c' = with_hjn c (c_heap c') (c_jobs c') (c_nodes c').
Proof. exact add_task_rep. Qed.
Print Assumptions C08_add_task_keeps_inv.

Theorem C08_delete_task_keeps_inv : forall c jo t,
  Rep c -> c_heap c !! t_id t = Some t -> job_arg jo t ->
  let c' := delete_task c jo t in
  Rep c' /\ c_heap c' = delete (t_id t) (c_heap c) /\
  jobs_ext (c_jobs c) (c_jobs c') /\ nodes_ext (c_nodes c) (c_nodes c') /\
  c' = with_hjn c (c_heap c') (c_jobs c') (c_nodes c').
Proof. exact delete_task_rep. Qed.
Print Assumptions C08_delete_task_keeps_inv.

(* --- single_event_refines: each handler keeps CacheInv --- *)
Theorem C08_pod_event_keeps_inv : forall eps c p,
  Rep c -> Synced eps c -> store_ok c -> pod_ok p ->
  (forall old, c_store c !! p_id p = Some old -> upd_ok old p) ->
  let c' := handle eps c (EPod p) in
  Rep c' /\ Synced eps c' /\ store_ok c' /\ c_store c' = <[p_id p := p]> (c_store c) /\
  jobs_ext (c_jobs c) (c_jobs c') /\ nodes_ext (c_nodes c) (c_nodes c').
Proof. exact handle_pod_inv. Qed.
Print Assumptions C08_pod_event_keeps_inv.

Theorem C08_pod_delete_keeps_inv : forall eps c i,
  Rep c -> Synced eps c -> store_ok c ->
  let c' := handle eps c (EPodDel i) in
  Rep c' /\ Synced eps c' /\ store_ok c' /\ c_store c' = delete i (c_store c) /\
  jobs_ext (c_jobs c) (c_jobs c') /\ nodes_ext (c_nodes c) (c_nodes c').
Proof. exact handle_pod_del_inv. Qed.
Print Assumptions C08_pod_delete_keeps_inv.

Theorem C08_remove_node_keeps_inv : forall c nid, Rep c -> Rep (remove_node c nid).
Proof. exact remove_node_inv. Qed.
Print Assumptions C08_remove_node_keeps_inv.

Theorem C08_remove_node_keeps_tasks : forall c nid ni,
  c_nodes c !! nid = Some ni -> n_tasks ni <> ∅ ->
  exists ph, c_nodes (remove_node c nid) !! nid = Some ph /\ n_tasks ph = n_tasks ni /\ n_has_node ph = false.
Proof. exact remove_node_keeps_tasks. Qed.
Print Assumptions C08_remove_node_keeps_tasks.

Theorem C08_set_pod_group_keeps_inv : forall c g, Rep c -> g_id g <> no_job -> Rep (set_pod_group c g).
Proof. exact set_pod_group_inv. Qed.
Print Assumptions C08_set_pod_group_keeps_inv.

Theorem C08_delete_pod_group_keeps_inv : forall c j, Rep c -> Rep (delete_pod_group c j).
Proof. exact delete_pod_group_inv. Qed.
Print Assumptions C08_delete_pod_group_keeps_inv.

(* --- histories: any order across objects, pods before their node or PodGroup,
       nodes removed under running pods --- *)
Theorem C08_history_keeps_inv : forall eps h c, Inv eps c -> hist_ok eps c h -> Inv eps (run eps c h).
Proof. exact history_inv. Qed.
Print Assumptions C08_history_keeps_inv.

Theorem C08_histories_agree : forall eps h h',
  hist_ok eps empty_cache h -> hist_ok eps empty_cache h' ->
  c_store (run eps empty_cache h) = c_store (run eps empty_cache h') ->
  c_heap (run eps empty_cache h) = c_heap (run eps empty_cache h').
Proof. exact histories_agree. Qed.
Print Assumptions C08_histories_agree.

(* --- AddOrUpdateNode / NodeInfo.SetNode: the ledger recomputed from the held tasks --- *)
Theorem C08_set_node_recomputes_ledger : forall T n N o,
  NodeRep T n N -> sc (no_alloc o) <> None -> (forall i t, T !! i = Some t -> task_wf t) ->
  NodeRep T n (node_set N o) /\ n_has_node (node_set N o) = true /\ n_alloc (node_set N o) = no_alloc o.
Proof. exact node_set_rep. Qed.
Print Assumptions C08_set_node_recomputes_ledger.

Theorem C08_add_or_update_node_keeps_inv : forall c o,
  Rep c -> sc (no_alloc o) <> None ->
  Rep (add_or_update_node c o) /\
  exists N, c_nodes (add_or_update_node c o) !! no_id o = Some N /\ n_has_node N = true /\ n_alloc N = no_alloc o.
Proof. exact add_or_update_node_inv. Qed.
Print Assumptions C08_add_or_update_node_keeps_inv.

Theorem C08_node_event_keeps_inv : forall c v,
  Rep c -> sc (nv_base v) <> None ->
  Rep (node_event c v) /\
  exists N, c_nodes (node_event c v) !! nv_id v = Some N /\ n_has_node N = true /\ n_alloc N = obj_alloc v.
Proof. exact node_event_inv. Qed.
Print Assumptions C08_node_event_keeps_inv.

(* --- converges_to_final_objects (main): all histories of pod / node (incl. remove and
       re-add) / PodGroup / queue notifications, any cross-object order --- *)
Theorem C08_converges_to_final_objects : forall eps h h',
  hist_ok eps empty_cache h -> hist_ok eps empty_cache h' ->
  o_pods (final_objects h) = o_pods (final_objects h') ->
  o_nodes (final_objects h) = o_nodes (final_objects h') ->
  let c := run eps empty_cache h in let c' := run eps empty_cache h' in
  c_heap c = c_heap c' /\
  (forall j cj, c_jobs c !! j = Some cj ->
     (j_tasks (cj_job cj) <> ∅ -> is_Some (c_jobs c' !! j)) /\
     (forall cj', c_jobs c' !! j = Some cj' -> job_equiv cj cj')) /\
  (forall n N, c_nodes c !! n = Some N ->
     (n_tasks N <> ∅ \/ n_has_node N = true -> is_Some (c_nodes c' !! n)) /\
     (forall N', c_nodes c' !! n = Some N' ->
        n_tasks N = n_tasks N' /\ n_has_node N = n_has_node N' /\
        (n_has_node N = true ->
         res_eqv (n_alloc N) (n_alloc N') /\ res_eqv (n_idle N) (n_idle N') /\ res_eqv (n_used N) (n_used N') /\
         res_eqv (n_releasing N) (n_releasing N') /\ res_eqv (n_pipelined N) (n_pipelined N')))).
Proof. exact converges_to_final_objects. Qed.
Print Assumptions C08_converges_to_final_objects.

(* --- failed binds / evictions are repaired by resynchronisation --- *)
Theorem C08_resync_repairs : forall eps c j st p,
  Rep c -> c_heap c !! t_id st = Some st -> t_job st = j -> j <> no_job ->
  api_pod c (t_id st) = Some p -> p_id p = t_id st -> pod_ok p ->
  let c' := fst (sync_task eps c j st) in
  Rep c' /\ snd (sync_task eps c j st) = true /\
  c_heap c' = <[t_id st := task_of_pod eps p]> (c_heap c).
Proof. exact sync_task_repairs. Qed.
Print Assumptions C08_resync_repairs.

Theorem C08_resync_pod_gone : forall eps c j st,
  Rep c -> c_heap c !! t_id st = Some st -> t_job st = j -> j <> no_job ->
  api_pod c (t_id st) = None ->
  let c' := fst (sync_task eps c j st) in
  Rep c' /\ snd (sync_task eps c j st) = true /\ c_heap c' = delete (t_id st) (c_heap c).
Proof. exact sync_task_gone. Qed.
Print Assumptions C08_resync_pod_gone.

(* --- the scheduling cycle's steps: every branch of AddBindTask (+ bind flow) and Evict --- *)
Theorem C08_bind_keeps_inv : forall eps c jid tid nid ok,
  Rep c -> cycle_post c (fst (bind_task eps c jid tid nid ok)) jid tid.
Proof. exact bind_task_post. Qed.
Print Assumptions C08_bind_keeps_inv.

Theorem C08_evict_keeps_inv : forall eps c jid tid ok,
  Rep c -> cycle_post c (fst (evict_task eps c jid tid ok)) jid tid.
Proof. exact evict_task_rep. Qed.
Print Assumptions C08_evict_keeps_inv.

(* --- the repair-queue drains as whole folds --- *)
Theorem C08_drain_cleanup_keeps_inv : forall eps c,
  Inv2 eps c -> Inv2 eps (drain_cleanup c) /\ Ext c (drain_cleanup c) /\ c_heap (drain_cleanup c) = c_heap c.
Proof. exact drain_cleanup_inv2. Qed.
Print Assumptions C08_drain_cleanup_keeps_inv.

Theorem C08_drain_resync_repairs : forall eps c,
  Inv2 eps c ->
  Inv2 eps (drain_resync eps c) /\ Ext c (drain_resync eps c) /\ c_errq (drain_resync eps c) = [] /\
  (Queued eps c -> SyncedSub eps (drain_resync eps c)).
Proof. exact drain_resync_inv2. Qed.
Print Assumptions C08_drain_resync_repairs.

(* --- single_event_refines and history_preserves_inv over the WHOLE alphabet --- *)
Theorem C08_step_preserves_inv : forall eps c e,
  Inv2 eps c -> step_ok2 e -> Post2 eps c (handle eps c e) e.
Proof. exact step_inv2. Qed.
Print Assumptions C08_step_preserves_inv.

Theorem C08_history_preserves_inv : forall eps h c, Inv2 eps c -> hist_ok2 h -> Inv2 eps (run eps c h).
Proof. exact history_preserves_inv. Qed.
Print Assumptions C08_history_preserves_inv.

(* --- failed_bind_repaired / failed_evict_repaired: every pattern of failures --- *)
Theorem C08_step_keeps_queued : forall eps c e,
  Inv2 eps c -> Queued eps c -> step_ok3 c e -> Queued eps (handle eps c e).
Proof. exact step_pending. Qed.
Print Assumptions C08_step_keeps_queued.

Theorem C08_failures_repaired : forall eps h,
  hist_ok3 eps empty_cache h ->
  let c := run eps empty_cache (h ++ [EDrainResync]) in
  Inv2 eps c /\ SyncedSub eps c /\ c_errq c = [].
Proof. exact failures_repaired. Qed.
Print Assumptions C08_failures_repaired.

(* --- Snapshot() against an independent specification (audit W1; the former
       C08_snapshot_selection was [take_snapshot] unfolded and is now the lemma
       Lemmas2.snapshot_selection) --- *)
Theorem C08_snapshot_meets_spec : forall eps c, Rep c -> SnapSpec c (take_snapshot eps c).
Proof. exact take_snapshot_spec. Qed.
Print Assumptions C08_snapshot_meets_spec.

Theorem C08_clone_node_is_set_node : forall eps T n ni alloc,
  NodeRep T n ni -> (forall i t, T !! i = Some t -> t_id t = i) ->
  (forall i t, n_tasks ni !! i = Some t -> t_status t <> Binding) ->
  clone_node eps alloc ni = node_set ni (mkNodeObj (n_id ni) alloc).
Proof. exact clone_node_is_node_set. Qed.
Print Assumptions C08_clone_node_is_set_node.

Theorem C08_clone_job_keeps_ledger : forall c j cj,
  Rep c -> c_jobs c !! j = Some cj -> JobRep (c_heap c) j (clone_job (c_heap c) (cj_job cj)).
Proof. exact clone_job_rep. Qed.
Print Assumptions C08_clone_job_keeps_ledger.

(* --- what an accepted bind / eviction DOES (audit W8) --- *)
Theorem C08_bind_accepted : forall eps c jid tid nid ok,
  Rep c -> snd (bind_task eps c jid tid nid ok) = RDone ->
  let c' := fst (bind_task eps c jid tid nid ok) in
  exists st ni', stored_task c (Some jid) tid = Some st /\
    let t' := set_node (set_status st Binding) (Some nid) in
    c_heap c' !! tid = Some t' /\ c_nodes c' !! nid = Some ni' /\ n_tasks ni' !! tid = Some t' /\
    (if ok then c_errq c' = c_errq c else (jid, tid) ∈ c_errq c').
Proof. exact bind_task_done. Qed.
Print Assumptions C08_bind_accepted.

Theorem C08_evict_accepted : forall eps c jid tid ok,
  Rep c -> snd (evict_task eps c jid tid ok) = RDone ->
  let c' := fst (evict_task eps c jid tid ok) in
  exists st n ni', stored_task c (Some jid) tid = Some st /\ t_node st = Some n /\
    let t' := set_status st Releasing in
    c_heap c' !! tid = Some t' /\ c_nodes c' !! n = Some ni' /\ n_tasks ni' !! tid = Some t' /\
    (if ok then c_errq c' = c_errq c else (jid, tid) ∈ c_errq c').
Proof. exact evict_task_done. Qed.
Print Assumptions C08_evict_accepted.

(* --- repair under ANY mix of successful / refused / failed binds and evictions, both
       directions (audit W2) --- *)
Theorem C08_step_keeps_cover : forall eps c e, Inv2 eps c -> Cover c -> step_ok2 e -> Cover (handle eps c e).
Proof. exact step_cover. Qed.
Print Assumptions C08_step_keeps_cover.

Theorem C08_mixed_failures_repaired : forall eps h,
  hist_ok4 eps empty_cache h ->
  let c := run eps empty_cache (h ++ [EDrainResync]) in
  let A := await_run eps empty_cache ∅ h in
  Inv2 eps c /\
  (forall i t, c_heap c !! i = Some t -> synced_at eps c i t \/ i ∈ A) /\
  (forall i p, c_store c !! i = Some p -> i ∈ c_gone c \/ is_Some (c_heap c !! i)).
Proof. exact mixed_failures_repaired. Qed.
Print Assumptions C08_mixed_failures_repaired.

(* --- convergence over the WHOLE alphabet, at quiescence (audit W3; the headline clause) --- *)
Theorem C08_converges_whole_alphabet : forall eps h h',
  hist_ok4 eps empty_cache h -> hist_ok4 eps empty_cache h' -> quiescent eps h -> quiescent eps h' ->
  o_pods (final_objects h) = o_pods (final_objects h') ->
  o_nodes (final_objects h) = o_nodes (final_objects h') ->
  let c := run eps empty_cache (h ++ [EDrainResync]) in
  let c' := run eps empty_cache (h' ++ [EDrainResync]) in
  c_heap c = c_heap c' /\
  (forall j cj, c_jobs c !! j = Some cj ->
     (j_tasks (cj_job cj) <> ∅ -> is_Some (c_jobs c' !! j)) /\
     (forall cj', c_jobs c' !! j = Some cj' -> job_equiv cj cj')) /\
  (forall n N, c_nodes c !! n = Some N ->
     (n_tasks N <> ∅ \/ n_has_node N = true -> is_Some (c_nodes c' !! n)) /\
     (forall N', c_nodes c' !! n = Some N' ->
        n_tasks N = n_tasks N' /\ n_has_node N = n_has_node N' /\
        (n_has_node N = true ->
         res_eqv (n_alloc N) (n_alloc N') /\ res_eqv (n_idle N) (n_idle N') /\ res_eqv (n_used N) (n_used N') /\
         res_eqv (n_releasing N) (n_releasing N') /\ res_eqv (n_pipelined N) (n_pipelined N')))).
Proof. exact converges_whole_alphabet. Qed.
Print Assumptions C08_converges_whole_alphabet.

(* --- the view is a function of the held tasks and the node objects --- *)
Theorem C08_view_determined : forall c c',
  Rep c -> Rep c' -> c_heap c = c_heap c' ->
  (forall j cj, c_jobs c !! j = Some cj ->
     (j_tasks (cj_job cj) <> ∅ -> is_Some (c_jobs c' !! j)) /\
     (forall cj', c_jobs c' !! j = Some cj' -> job_equiv cj cj')) /\
  (forall n N, c_nodes c !! n = Some N ->
     (n_tasks N <> ∅ -> is_Some (c_nodes c' !! n)) /\
     (forall N', c_nodes c' !! n = Some N' -> node_equiv N N')).
Proof. exact view_determined. Qed.
Print Assumptions C08_view_determined.

(* --- PriorityClass notifications and the job priority Snapshot() computes --- *)
Theorem C08_priority_handlers_keep_inv : forall s e,
  PInv s -> PInv (phandle s e) /\
  ps_classes (phandle s e) = papply (ps_classes s) e /\ ps_pgclass (phandle s e) = papply_pg (ps_pgclass s) e.
Proof. exact phandle_inv. Qed.
Print Assumptions C08_priority_handlers_keep_inv.

Theorem C08_priority_determined : forall h h',
  fold_left papply h ∅ = fold_left papply h' ∅ ->
  fold_left papply_pg h ∅ = fold_left papply_pg h' ∅ ->
  forall j, job_priority (prun empty_ps h) j = job_priority (prun empty_ps h') j.
Proof. exact priority_determined. Qed.
Print Assumptions C08_priority_determined.

(* before fix ec03bcc: two classes marked globalDefault, the later one deleted *)
Theorem C08_priority_prefix_refuted :
  exists h, fold_left papply h ∅ = fold_left papply [PClass pcA] ∅ /\
            job_priority (prun_prefix empty_ps h) 1%positive <> job_priority (prun_prefix empty_ps [PClass pcA]) 1%positive.
Proof. exact priority_prefix_refuted. Qed.
Print Assumptions C08_priority_prefix_refuted.

Example C08_priority_fixed :
  job_priority (prun empty_ps [PClass pcA; PClass pcB; PClassDel 2%positive]) 1%positive = 10 /\
  job_priority (prun empty_ps [PClass pcB; PClass pcA]) 1%positive = 10.
Proof. exact priority_fixed. Qed.
Print Assumptions C08_priority_fixed.

(* --- finding F4: RemoveNode as it was before fix e29cb66 --- *)
Theorem C08_converges_prefix_refuted :
  exists h, view_eqb (run_prefix eps0 empty_cache h) (build eps0 (final_objects h)) = false /\
            cache_invb (run_prefix eps0 empty_cache h) = false.
Proof. exact converges_prefix_refuted. Qed.
Print Assumptions C08_converges_prefix_refuted.

Theorem C08_remove_node_prefix_breaks_inv :
  exists c n, cache_invb c = true /\ cache_invb (remove_node_prefix c n) = false.
Proof. exact remove_node_prefix_breaks_inv. Qed.
Print Assumptions C08_remove_node_prefix_breaks_inv.

(* --- finding repaired by d373588: setOversubscription as it was kept the amount of a
       removed oversubscription annotation --- *)
Theorem C08_converges_over_prefix_refuted :
  exists h, view_eqb (run_over_prefix eps0 empty_cache h) (build eps0 (final_objects h)) = false /\
            cache_invb (run_over_prefix eps0 empty_cache h) = true.
Proof. exact converges_over_prefix_refuted. Qed.
Print Assumptions C08_converges_over_prefix_refuted.

Example C08_over_history_fixed :
  view_eqb (run eps0 empty_cache over_history) (build eps0 (final_objects over_history)) = true.
Proof. exact over_history_fixed. Qed.
Print Assumptions C08_over_history_fixed.

(* --- non-vacuity --- *)
Example C08_f4_history_fixed :
  view_eqb (run eps0 empty_cache f4_history) (build eps0 (final_objects f4_history)) = true /\
  cache_invb (run eps0 empty_cache f4_history) = true.
Proof. exact f4_history_fixed. Qed.
Print Assumptions C08_f4_history_fixed.

Example C08_inv_empty : forall eps, Inv eps empty_cache.
Proof. exact inv_empty. Qed.
Print Assumptions C08_inv_empty.

Example C08_pod1_ok : pod_ok pod1.
Proof. exact pod1_ok. Qed.
Print Assumptions C08_pod1_ok.

(* the hypotheses of C08_converges_to_final_objects are met by the F4 history
   together with the canonical feed of its final objects (= build) *)
Example C08_f4_hist_ok :
  hist_ok eps0 empty_cache f4_history /\ hist_ok eps0 empty_cache (build_events (final_objects f4_history)).
Proof. exact f4_hist_ok. Qed.
Print Assumptions C08_f4_hist_ok.

Example C08_f4_same_final :
  o_pods (final_objects f4_history) = o_pods (final_objects (build_events (final_objects f4_history))) /\
  o_nodes (final_objects f4_history) = o_nodes (final_objects (build_events (final_objects f4_history))).
Proof. exact f4_same_final. Qed.
Print Assumptions C08_f4_same_final.

(* the hypotheses of C08_failures_repaired are met by a history with a failed bind, which
   really leaves the task Binding and queued until the drain *)
Example C08_fail_history_ok : hist_ok3 eps0 empty_cache fail_history.
Proof. exact fail_history_ok. Qed.
Print Assumptions C08_fail_history_ok.

Example C08_fail_history_effect :
  (t_status <$> c_heap (run eps0 empty_cache fail_history) !! 1%positive) = Some Binding /\
  c_errq (run eps0 empty_cache fail_history) = [(2%positive, 1%positive)] /\
  (t_status <$> c_heap (run eps0 empty_cache (fail_history ++ [EDrainResync])) !! 1%positive) = Some Pending.
Proof. exact fail_history_effect. Qed.
Print Assumptions C08_fail_history_effect.

(* audit W1: the consistency law needs the copies held by the snapshot's nodes *)
Example C08_snapshot_law_needs_node_copies :
  law_snapshot c_w1 (take_snapshot eps0 c_w1) = false /\
  law_snapshot c_w1 (full_snapshot eps0 c_w1) = true /\
  law_snapshot (run eps0 empty_cache fail_history) (full_snapshot eps0 (run eps0 empty_cache fail_history)) = true.
Proof. exact snapshot_law_needs_node_copies. Qed.
Print Assumptions C08_snapshot_law_needs_node_copies.

(* audit W2 / W13: non-vacuity with mixed outcomes and genuinely different orders *)
Example C08_mixed_history_ok : hist_ok4 eps0 empty_cache mixed_history.
Proof. exact mixed_history_ok. Qed.
Print Assumptions C08_mixed_history_ok.

Example C08_mixed_history_effect :
  let c := run eps0 empty_cache (mixed_history ++ [EDrainResync]) in
  (t_status <$> c_heap c !! 1%positive) = Some Binding /\
  (t_status <$> c_heap c !! 2%positive) = Some Pending /\
  await_run eps0 empty_cache ∅ mixed_history = {[1%positive]}.
Proof. exact mixed_history_effect. Qed.
Print Assumptions C08_mixed_history_effect.

Example C08_conv_hyps :
  hist_ok4 eps0 empty_cache conv_h1 /\ hist_ok4 eps0 empty_cache conv_h2 /\
  quiescent eps0 conv_h1 /\ quiescent eps0 conv_h2 /\
  o_pods (final_objects conv_h1) = o_pods (final_objects conv_h2) /\
  o_nodes (final_objects conv_h1) = o_nodes (final_objects conv_h2).
Proof. exact conv_hyps. Qed.
Print Assumptions C08_conv_hyps.

(* --- second audit N2: the "nothing awaiting" half of quiescence from the history alone --- *)
Theorem C08_acked_nothing_awaiting : forall eps h,
  hist_ok4 eps empty_cache h -> fold_left pend_syn h ∅ = ∅ -> await_run eps empty_cache ∅ h = ∅.
Proof. exact acked_nothing_awaiting. Qed.
Print Assumptions C08_acked_nothing_awaiting.

(* a non-trivial instance: successful bind acknowledged by the pod notification with the node
   name, failed bind, pod gone from the API before its resync, its delete; also instantiates the
   hypothesis [snd (bind_task ...) = RDone] of C08_bind_accepted *)
Example C08_conv_hyps_nontrivial :
  hist_ok4 eps0 empty_cache conv_h3 /\ hist_ok4 eps0 empty_cache conv_h4 /\
  quiescent eps0 conv_h3 /\ quiescent eps0 conv_h4 /\
  fold_left pend_syn conv_h3 ∅ = ∅ /\
  o_pods (final_objects conv_h3) = o_pods (final_objects conv_h4) /\
  o_nodes (final_objects conv_h3) = o_nodes (final_objects conv_h4) /\
  snd (bind_task eps0 (run eps0 empty_cache [ENode node1; EPG pg2; EPod pod_pending; EPod pod_pending2]) 2 1 1 true) = RDone.
Proof. exact conv_hyps_nontrivial. Qed.
Print Assumptions C08_conv_hyps_nontrivial.

(* --- resync attempts whose GET fails (round 6): retried without bound; repair does not depend
       on how many attempts failed before the one that succeeds --- *)
Theorem C08_failed_get_keeps_everything : forall eps c (A : gset positive),
  Inv2 eps c -> QueuedA eps A c -> Cover c ->
  Inv2 eps (drain_resync_allfail c) /\ QueuedA eps A (drain_resync_allfail c) /\ Cover (drain_resync_allfail c).
Proof. exact allfail_keeps. Qed.
Print Assumptions C08_failed_get_keeps_everything.

Theorem C08_repaired_after_failed_attempts : forall eps c (A : gset positive) n,
  Inv2 eps c -> QueuedA eps A c -> Cover c ->
  let c' := drain_resync eps (Nat.iter n drain_resync_allfail c) in
  Inv2 eps c' /\ (forall i t, c_heap c' !! i = Some t -> synced_at eps c' i t \/ i ∈ A) /\ Cover c'.
Proof. exact repaired_after_failed_attempts. Qed.
Print Assumptions C08_repaired_after_failed_attempts.

(* --- batches of bind contexts (BATCH_BIND_NUM > 1) --- *)
Theorem C08_bind_batch_is_fold : forall eps l c,
  same_but_errq (fst (bind_batch eps c l))
                (fold_left (fun c x => let '(j, t, n, f) := x in fst (bind_task eps c j t n (f =? 1))) l c).
Proof. exact bind_batch_is_fold. Qed.
Print Assumptions C08_bind_batch_is_fold.

(* --- third audit (E22/E23): the resync queue of a batch, histories with batches, law 105 --- *)
Theorem C08_bind_batch_errq : forall eps l c, faults_ok l ->
  let b := bind_batch eps c l in
  let f := bfold eps (fun f => f =? 1) l (c, []) in
  fst f = run eps c (batch_events l) /\
  same_but_errq (fst b) (fst f) /\ snd b = snd f /\
  (forall k, k ∈ c_errq (fst b) <-> k ∈ c_errq (fst f)) /\
  (forall k, k ∈ c_errq (fst b) <->
     k ∈ c_errq c \/ exists xr, xr ∈ zip l (snd b) /\ snd xr = RDone /\ bfault xr <> 1 /\ bkey xr = k).
Proof. exact bind_batch_errq. Qed.
Print Assumptions C08_bind_batch_errq.

Theorem C08_bind_batch_break_refuted :
  (forall eps c l, same_but_errq (fst (bind_batch_break eps c l)) (fst (bind_batch eps c l)) /\
                   snd (bind_batch_break eps c l) = snd (bind_batch eps c l)) /\
  exists c l, faults_ok l /\
    snd (bind_batch_break eps0 c l) = [RDone; RDone; RDone] /\
    exists k, k ∈ c_errq (run eps0 c (batch_events l)) /\ k ∈ c_errq (fst (bind_batch eps0 c l)) /\
              k ∉ c_errq (fst (bind_batch_break eps0 c l)).
Proof. exact (conj bind_batch_break_same_but_errq bind_batch_break_refuted). Qed.
Print Assumptions C08_bind_batch_break_refuted.

Theorem C08_bind_batch_keeps : forall eps l c A, faults_ok l ->
  Inv2 eps c -> QueuedA eps A c -> Cover c ->
  let c' := fst (bind_batch eps c l) in
  Inv2 eps c' /\ QueuedA eps (await_run eps c A (batch_events l)) c' /\ Cover c'.
Proof. exact bind_batch_keeps. Qed.
Print Assumptions C08_bind_batch_keeps.

Theorem C08_batch_failures_repaired : forall eps h,
  bhist_ok eps empty_cache h ->
  let c := drain_resync eps (brun eps empty_cache h) in
  let A := bawait_run eps empty_cache ∅ h in
  Inv2 eps c /\
  (forall i t, c_heap c !! i = Some t -> synced_at eps c i t \/ i ∈ A) /\
  (forall i p, c_store c !! i = Some p -> i ∈ c_gone c \/ is_Some (c_heap c !! i)).
Proof. exact batch_failures_repaired. Qed.
Print Assumptions C08_batch_failures_repaired.

Theorem C08_law105_meaning : forall c keys,
  law_failed_binds_queued c keys = true <-> forall k, k ∈ keys -> k ∈ c_errq c.
Proof. exact law_failed_binds_queued_spec. Qed.
Print Assumptions C08_law105_meaning.

Theorem C08_bind_batch_law105 : forall eps l c, faults_ok l ->
  let b := bind_batch eps c l in
  law_failed_binds_queued (fst b) (failed_keys l (snd b)) = true /\
  forall k, k ∈ c_errq (fst b) <-> k ∈ c_errq c \/ k ∈ failed_keys l (snd b).
Proof. exact bind_batch_law105. Qed.
Print Assumptions C08_bind_batch_law105.

