(* Property C05 — the Volcano Job lifecycle follows its state machine and reports
   truthful counters.  Property theorems only; each is closed by [exact] of a
   lemma of C05/Lemmas.v about the model C05/Model.v (killPods, syncJob,
   applyPolicies, state/*.go tables), followed by its assumptions.
   Statuses: [v_st] is the job status in the controller's cache (what it acts
   upon), [w_st] the one on the API server. *)
From Coq Require Import ZArith List Bool.
From V Require Import C05.Model C05.Laws C05.Lemmas C05.SyncLemmas C05.Partition.
Import ListNotations.
Open Scope Z_scope.

(* every processed request, whatever the spec, pods, views, request and injected faults:
   the phase moves only along the transition relation [allowed] *)
Theorem C05_phase_transition_allowed : forall w r F w' e wr,
  step_req w r F = (w', e, wr) -> In (st_phase (v_st w')) (allowed (st_phase (v_st w))).
Proof. exact phase_transition_allowed. Qed.
Print Assumptions C05_phase_transition_allowed.

(* Completed / Failed / Terminated: over EVERY history of requests, pod events,
   informer deliveries in any order, controller restarts, spec updates and faults the
   phase never changes (cache and API server) and no pod is ever created *)
Theorem C05_final_phases_absorbing : forall ops w,
  Forall same_job ops ->     (* every op except "the job is deleted and re-created under the same name" *)
  is_final (st_phase (v_st w)) = true -> st_phase (w_st w) = st_phase (v_st w) ->
  let w' := run w ops in
  st_phase (v_st w') = st_phase (v_st w) /\ st_phase (w_st w') = st_phase (v_st w) /\
  incl (pod_ids (w_pods w')) (pod_ids (w_pods w)).
Proof. exact final_phases_absorbing. Qed.
Print Assumptions C05_final_phases_absorbing.

Theorem C05_aborted_left_only_by_resume : forall w r F w' e wr,
  step_req w r F = (w', e, wr) ->
  st_phase (v_st w) = PhAborted -> st_phase (v_st w') <> PhAborted ->
  apply_policies (v_spec w) (v_st w) r = AResume /\ st_phase (v_st w') = PhRestarting.
Proof. exact aborted_left_only_by_resume. Qed.
Print Assumptions C05_aborted_left_only_by_resume.

(* the retry count changes only by +1 and exactly when Restarting is entered *)
Theorem C05_retry_increments_once : forall w r F w' e wr,
  step_req w r F = (w', e, wr) ->
  let s := v_st w in let s' := v_st w' in
  (st_retry s' = st_retry s \/
   (st_retry s' = st_retry s + 1 /\ st_phase s' = PhRestarting /\ st_phase s <> PhRestarting)) /\
  (st_phase s <> PhRestarting -> st_phase s' = PhRestarting -> st_retry s' = st_retry s + 1).
Proof. exact retry_increments_once. Qed.
Print Assumptions C05_retry_increments_once.

(* Restarting with retryCount >= maxRetry: never Pending/Running again; a successful write is Failed *)
Theorem C05_maxretry_fails : forall w r F w' e wr,
  step_req w r F = (w', e, wr) ->
  st_phase (v_st w) = PhRestarting -> s_maxretry (v_spec w) <= st_retry (v_st w) ->
  (st_phase (v_st w') = PhRestarting \/ st_phase (v_st w') = PhFailed) /\
  (wr = true -> e = false -> st_phase (v_st w') = PhFailed /\ st_phase (w_st w') = PhFailed).
Proof. exact maxretry_fails. Qed.
Print Assumptions C05_maxretry_fails.

Theorem C05_version_monotone : forall ops w,
  Forall same_job ops ->
  st_version (w_st w) <= st_version (v_st w) ->
  st_version (w_st w) <= st_version (w_st (run w ops)) /\
  st_version (w_st (run w ops)) <= st_version (v_st (run w ops)).
Proof. exact version_monotone. Qed.
Print Assumptions C05_version_monotone.

Theorem C05_version_step : forall w r F w' e wr,
  step_req w r F = (w', e, wr) ->
  st_version (v_st w) <= st_version (v_st w') <= st_version (v_st w) + 1.
Proof. exact version_step. Qed.
Print Assumptions C05_version_step.

Theorem C05_stale_request_syncs : forall sp st r,
  r_action r = None -> r_version r < st_version st -> apply_policies sp st r = ASync.
Proof. exact stale_request_syncs. Qed.
Print Assumptions C05_stale_request_syncs.

(* for every fault position: a failed reconciliation leaves the API server's
   status untouched (or, for a job without a phase, at its complete initial status) *)
Theorem C05_api_fault_no_partial_status : forall w r F w' wr,
  step_req w r F = (w', true, wr) ->
  w_st w' = w_st w \/ (st_phase (v_st w) = PhNone /\ w_st w' = init_status (v_spec w) (v_st w)).
Proof. exact api_fault_no_partial_status. Qed.
Print Assumptions C05_api_fault_no_partial_status.

Theorem C05_api_status_is_cache_status_or_old : forall w r F w' e wr,
  step_req w r F = (w', e, wr) ->
  w_st w' = w_st w \/ w_st w' = v_st w' \/ (st_phase (v_st w) = PhNone /\ w_st w' = init_status (v_spec w) (v_st w)).
Proof. exact api_status_is_cache_status_or_old. Qed.
Print Assumptions C05_api_status_is_cache_status_or_old.

(* counters -- FULL strength, after the four counter fixes in /repo (killPods counts retained and
   non-target pods; syncJob counts an out-of-sync pod once; initJobStatus returns a copy; syncJob
   recounts the pods while the PodGroup is not admitted): after EVERY processed request and every
   expired delayed action that wrote a status -- whatever the phase, the action, the code path
   (syncJob with an admitted / absent / pending PodGroup, first sync of a job without a phase,
   killPods on the job, a task or a pod), the spec, the pods -- the counters on the API server
   partition exactly the pods there: terminating = being deleted, all others by phase.
   [fresh_all]: the controller sees the API server's pods and spec (not necessarily its status), task names and pod
   names are unique, every pod belongs to a task of the spec. *)
Theorem C05_counters_partition : forall w r w' e wr,
  step_req w r [] = (w', e, wr) -> wr = true -> fresh_all w ->
  (st_cnt (w_st w'), st_term (w_st w')) = tally (w_pods w').
Proof. exact counters_partition. Qed.
Print Assumptions C05_counters_partition.

Theorem C05_counters_partition_fire : forall w w' e wr,
  fire w = (w', e, wr) -> wr = true -> fresh_all w ->
  (st_cnt (w_st w'), st_term (w_st w')) = tally (w_pods w').
Proof. exact counters_partition_fire. Qed.
Print Assumptions C05_counters_partition_fire.

Theorem C05_sync_job_counters_partition : forall w u w' wr,
  sync_job w u [] = (w', false, wr) -> wr = true \/ c_vdel (v_ctl w) = false ->
  v_pods w = w_pods w -> v_st w = w_st w -> v_spec w = w_spec w ->
  NoDup (map t_name (s_tasks (v_spec w))) -> NoDup (pod_ids (w_pods w)) -> owned (v_spec w) (w_pods w) ->
  (st_cnt (w_st w'), st_term (w_st w')) = tally (w_pods w').
Proof. exact sync_job_counters_partition. Qed.
Print Assumptions C05_sync_job_counters_partition.

(* the pre-fix functions are kept in the model, each with its refutation witness *)
Theorem C05_pgpending_counters_prefix_refuted :
  exists w', sync_job_pgprefix pgpending_world URestarting [] = (w', false, true) /\ fresh_world pgpending_world /\
             partition_ok (w_st w') (w_pods w') = false /\ st_phase (w_st w') = PhFailed /\
             st_term (w_st w') = 1 /\ w_pods w' = [].
Proof. exact pgpending_counters_prefix_refuted. Qed.
Print Assumptions C05_pgpending_counters_prefix_refuted.

Theorem C05_killpods_counters_prefix_refuted :
  exists w', kill_pods_prefix f2_world RSoft None UNil [] = (w', false, true) /\ fresh_world f2_world /\
             partition_ok (w_st w') (w_pods w') = false /\ st_cnt (w_st w') = c0 /\ length (w_pods w') = 1%nat.
Proof. exact killpods_counters_prefix_refuted. Qed.
Print Assumptions C05_killpods_counters_prefix_refuted.

Theorem C05_kill_zeroes_counters_prefix : forall w rt tg u F w',
  kill_pods_prefix w rt tg u F = (w', false, true) -> st_cnt (w_st w') = c0 /\ st_tsc (w_st w') = [].
Proof. exact kill_zeroes_counters. Qed.
Print Assumptions C05_kill_zeroes_counters_prefix.

Theorem C05_sync_counters_prefix_refuted :
  let a := sync_pods_prefix one_task_spec (w_pods oos_world) (w_pods oos_world) [] in
  a_err a = false /\ (a_cnt a, a_term a) = (mkC 0 1 0 0 0, 1) /\ tally (a_pods a) = (c0, 1) /\ length (a_pods a) = 1%nat.
Proof. exact sync_counters_prefix_refuted. Qed.
Print Assumptions C05_sync_counters_prefix_refuted.

Theorem C05_cache_status_leak_prefix_refuted :
  exists w1 w2,
    sync_job_prefix leak_world UPendingSync [FStatus 1] = (w1, true, true) /\
    v_pods w1 = w_pods w1 /\ v_st w1 <> w_st w1 /\
    sync_job_prefix w1 URunningSync [] = (w2, false, false) /\
    partition_ok (w_st w2) (w_pods w2) = false /\ st_cnt (w_st w2) = c0 /\ length (w_pods w2) = 1%nat.
Proof. exact cache_status_leak_prefix_refuted. Qed.
Print Assumptions C05_cache_status_leak_prefix_refuted.

(* counters, positive part (syncJob path, code after the two fixes): a successful
   reconcile with an admitted PodGroup and a fresh pod view writes / leaves on the
   API server counters that partition exactly the pods that exist there:
   terminating = pods being deleted (incl. the ones this sync deleted), all
   others by their phase -- for every spec with unique task names, every pod set
   owned by the spec's tasks, every status update function *)
Theorem C05_counters_partition_sync : forall w u w' wr,
  sync_job w u [] = (w', false, wr) ->
  c_vdel (v_ctl w) = false ->       (* the job is not terminating *)
  pg_admitted (v_pg w) = true -> st_phase (v_st w) <> PhNone ->
  v_pods w = w_pods w -> v_st w = w_st w ->
  NoDup (map t_name (s_tasks (v_spec w))) -> NoDup (pod_ids (w_pods w)) ->
  (forall p, In p (w_pods w) -> exists k, In k (s_tasks (v_spec w)) /\ t_name k = p_task p) ->
  (st_cnt (w_st w'), st_term (w_st w')) = tally (w_pods w').
Proof. exact counters_partition_sync. Qed.
Print Assumptions C05_counters_partition_sync.

Theorem C05_sync_counters_partition : forall sp P,
  NoDup (map t_name (s_tasks sp)) -> NoDup (pod_ids P) ->
  (forall p, In p P -> exists k, In k (s_tasks sp) /\ t_name k = p_task p) ->
  let a := sync_pods sp P P [] in
  a_err a = false /\ (a_cnt a, a_term a) = tally (a_pods a).
Proof. exact sync_counters_partition. Qed.
Print Assumptions C05_sync_counters_partition.

(* counters, positive part (killPods path, code after fix f21d364): every successful
   kill -- whole job, task or pod target, any retain rule, any update function --
   with a fresh pod view writes counters that partition the pods on the API server *)
Theorem C05_kill_counters_partition : forall w rt tg u w',
  kill_pods w rt tg u [] = (w', false, true) ->
  v_pods w = w_pods w -> NoDup (pod_ids (w_pods w)) ->
  (st_cnt (w_st w'), st_term (w_st w')) = tally (w_pods w').
Proof. exact kill_counters_partition. Qed.
Print Assumptions C05_kill_counters_partition.

(* ---- delayed actions (policies with a timeout: AddDelayActionForJob and its timers).  A timer
   that expires executes its action against the cache and the phase as they are at THAT moment
   ([fire]); everything stated for a processed request holds for it as well, in particular a job
   in a final phase stays there (also part of C05_final_phases_absorbing: OFire is one of the ops) ---- *)
Theorem C05_phase_transition_allowed_fire : forall w w' e wr,
  fire w = (w', e, wr) -> In (st_phase (v_st w')) (allowed (st_phase (v_st w))).
Proof. exact phase_transition_allowed_fire. Qed.
Print Assumptions C05_phase_transition_allowed_fire.

Theorem C05_aborted_left_only_by_resume_fire : forall w w' e wr,
  fire w = (w', e, wr) ->
  st_phase (v_st w) = PhAborted -> st_phase (v_st w') <> PhAborted ->
  st_phase (v_st w') = PhRestarting /\
  exists t c rest, d_queue (c_delay (v_ctl w)) = (t, c) :: rest /\ dt_action t = AResume.
Proof. exact aborted_left_only_by_resume_fire. Qed.
Print Assumptions C05_aborted_left_only_by_resume_fire.

Theorem C05_retry_increments_once_fire : forall w w' e wr,
  fire w = (w', e, wr) ->
  let s := v_st w in let s' := v_st w' in
  (st_retry s' = st_retry s \/
   (st_retry s' = st_retry s + 1 /\ st_phase s' = PhRestarting /\ st_phase s <> PhRestarting)) /\
  (st_phase s <> PhRestarting -> st_phase s' = PhRestarting -> st_retry s' = st_retry s + 1).
Proof. exact retry_increments_once_fire. Qed.
Print Assumptions C05_retry_increments_once_fire.

Theorem C05_maxretry_fails_fire : forall w w' e wr,
  fire w = (w', e, wr) ->
  st_phase (v_st w) = PhRestarting -> s_maxretry (v_spec w) <= st_retry (v_st w) ->
  st_phase (v_st w') = PhRestarting \/ st_phase (v_st w') = PhFailed.
Proof. exact maxretry_fails_fire. Qed.
Print Assumptions C05_maxretry_fails_fire.

(* (running_sync = running_verdict, which re-spells the decision for the law, is a lemma of
   C05/Lemmas.v (running_sync_verdict) and not counted as a property theorem: audit W6) *)
(* Completed is written only if minSuccess is reached or, whenever job.minAvailable >= the sum of the
   task minimums (equality included: that is what the admission webhook defaults to), every task
   that has a minAvailable reached it *)
Theorem C05_running_completed_only_if : forall sp s,
  st_phase s = PhRunning -> st_phase (running_sync sp s) = PhCompleted ->
  minsucc_reached sp (st_cnt s) = true \/
  (total_task_min sp <= s_min sp ->
   forall t m c, In t (s_tasks sp) -> t_min t = Some m -> tsc_get (t_name t) (st_tsc s) = Some c -> m <= cS c).
Proof. exact running_completed_only_if. Qed.
Print Assumptions C05_running_completed_only_if.

(* non-vacuity *)
(* ---- the phase the API SERVER shows, over EVERY history (requests with any fault set, expiring delayed
   actions, pod / PodGroup events, deliveries in any order, stale deliveries, restarts, spec updates;
   the job not replaced by a new one of the same name): every consecutive pair of phases is a transition
   of the relation.  Invariant carried through the history: job cache and API server agree on the phase
   (phase_agree; a refused status write leaves both at the old phase). ---- *)
Theorem C05_api_phase_history : forall ops w,
  Forall same_job ops -> phase_agree w -> phase_chain (st_phase (w_st w)) (api_phases w ops).
Proof. exact api_phase_history. Qed.
Print Assumptions C05_api_phase_history.

(* [allowed] compared with the documented table (docs/design/job-api.md 171-177, stable phases only,
   temporary phases contracted): the code goes beyond it exactly by Failed, Pending -> Completed /
   Terminated and Running -> Pending *)
Example C05_allowed_vs_documented_table :
  map (fun p => (p, beyond p)) [PhPending; PhAborted; PhRunning; PhCompleted; PhTerminated] =
  [(PhPending, [PhFailed; PhCompleted; PhTerminated]); (PhAborted, [PhFailed]); (PhRunning, [PhPending; PhFailed]);
   (PhCompleted, []); (PhTerminated, [])].
Proof. exact allowed_vs_documented_table. Qed.

(* an expired delayed action with retryCount >= maxRetry: a written status is Failed (the conjunct the
   request version has; an expiry has no faults) *)
Theorem C05_maxretry_fails_fire_written : forall w w' e wr,
  fire w = (w', e, wr) ->
  st_phase (v_st w) = PhRestarting -> s_maxretry (v_spec w) <= st_retry (v_st w) -> wr = true ->
  st_phase (v_st w') = PhFailed /\ st_phase (w_st w') = PhFailed.
Proof. exact maxretry_fails_fire_written. Qed.
Print Assumptions C05_maxretry_fails_fire_written.

(* two writers (the worker and the goroutine of an expired delayed action) are serialised in the model;
   what arbitrates them in a cluster is the API server's resourceVersion check on UpdateStatus.  The
   loser of that check -- an execution whose status update is refused (an Execute attempts its status
   update number 1 only after number 0 went through, so "index 0 refused" = "every status update it
   attempts is refused") -- leaves the API server's status untouched and reports no written status: for
   every action, request, view and other faults.  (The first version assumed [forall n, fails_status F n
   = true], which no finite fault list satisfies: second audit N1.) *)
Theorem C05_refused_status_writer : forall w a r F w' e wr,
  execute w a r F = (w', e, wr) -> fails_status F 0 = true ->
  w_st w' = w_st w /\ wr = false.
Proof. exact refused_status_writer. Qed.
Print Assumptions C05_refused_status_writer.

Theorem C05_refused_status_writer_req : forall w r F w' e wr,
  step_req w r F = (w', e, wr) -> fails_status F 0 = true -> w_st w' = w_st w /\ wr = false.
Proof. exact refused_status_writer_req. Qed.
Print Assumptions C05_refused_status_writer_req.

(* the executable counters law MEANS the clause: partition_ok = true implies counters = tally of the pods *)
Theorem C05_partition_ok_sound : forall s pods,
  partition_ok s pods = true -> (st_cnt s, st_term s) = tally pods.
Proof. exact partition_ok_sound. Qed.
Print Assumptions C05_partition_ok_sound.

(* ---- processNextReq WITH its error path (handleJobError).  [step_reqb] is what a request step of a history
   is: processNextReq ([step_req]); an Execute that fails re-queues the request while NumRequeues(request)
   < maxRequeueNum (or maxRequeueNum = -1), a success forgets it; with the budget used up the controller
   GIVES UP: it executes TerminateJobAction through the state object it built before the failed Execute
   and drops the request.  [reqb_result] (C05/Lemmas.v): the step is either step_req (requeue counters
   aside) or a failed step_req followed by [execute wg ATerminate] -- an ordinary Execute of the state of
   the phase the cache showed before, on [giveup_world]: the job object of then (stale_view: after a first
   sync whose initJobStatus wrote) and the pod view the failed Execute left in its JobInfo clone
   (view_after: syncJob removes every pod it matched from the clone's maps). ---- *)
(* (that decomposition is lemma step_reqb_cases of C05/Lemmas.v: an unfolding of the definition, not counted as a
   property theorem -- second audit N7) *)

(* consequently every lifecycle clause holds for the whole step, give-up included, for every requeue
   budget, requeue count and fault plan of either execution *)
Theorem C05_reqb_phase_transition_allowed : forall w r F w' e wr,
  step_reqb w r F = (w', e, wr) -> In (st_phase (v_st w')) (allowed (st_phase (v_st w))).
Proof. exact reqb_phase_transition_allowed. Qed.
Print Assumptions C05_reqb_phase_transition_allowed.

Theorem C05_reqb_api_phase : forall w r F w' e wr,
  phase_agree w -> step_reqb w r F = (w', e, wr) ->
  phase_agree w' /\ In (st_phase (w_st w')) (allowed (st_phase (w_st w))).
Proof. exact reqb_api_phase. Qed.
Print Assumptions C05_reqb_api_phase.

(* giving up on a request of a Completed / Failed / Terminated job changes no phase and creates no pod *)
Theorem C05_reqb_final : forall w r F w' e wr,
  is_final (st_phase (v_st w)) = true -> st_phase (w_st w) = st_phase (v_st w) ->
  step_reqb w r F = (w', e, wr) ->
  st_phase (v_st w') = st_phase (v_st w) /\ st_phase (w_st w') = st_phase (v_st w) /\
  incl (pod_ids (w_pods w')) (pod_ids (w_pods w)).
Proof. exact reqb_final. Qed.
Print Assumptions C05_reqb_final.

(* ... and never takes a job out of Aborted *)
Theorem C05_reqb_aborted_left_only_by_resume : forall w r F w' e wr,
  step_reqb w r F = (w', e, wr) ->
  st_phase (v_st w) = PhAborted -> st_phase (v_st w') <> PhAborted ->
  apply_policies (v_spec w) (v_st w) r = AResume /\ st_phase (v_st w') = PhRestarting.
Proof. exact reqb_aborted_left_only_by_resume. Qed.
Print Assumptions C05_reqb_aborted_left_only_by_resume.

Theorem C05_reqb_retry_increments_once : forall w r F w' e wr,
  step_reqb w r F = (w', e, wr) ->
  let s := v_st w in let s' := v_st w' in
  (st_retry s' = st_retry s \/
   (st_retry s' = st_retry s + 1 /\ st_phase s' = PhRestarting /\ st_phase s <> PhRestarting)) /\
  (st_phase s <> PhRestarting -> st_phase s' = PhRestarting -> st_retry s' = st_retry s + 1).
Proof. exact reqb_retry_increments_once. Qed.
Print Assumptions C05_reqb_retry_increments_once.

Theorem C05_reqb_maxretry_fails : forall w r F w' e wr,
  step_reqb w r F = (w', e, wr) ->
  st_phase (v_st w) = PhRestarting -> s_maxretry (v_spec w) <= st_retry (v_st w) ->
  st_phase (v_st w') = PhRestarting \/ st_phase (v_st w') = PhFailed.
Proof. exact reqb_maxretry_fails. Qed.
Print Assumptions C05_reqb_maxretry_fails.

(* a request processed without an error never reaches handleJobError: the full-strength counters statement
   carries over; nothing is claimed about the counters a give-up writes (see level_note) *)
Theorem C05_counters_partition_reqb : forall w r w' wr,
  step_reqb w r [] = (w', false, wr) -> wr = true -> fresh_all w ->
  (st_cnt (w_st w'), st_term (w_st w')) = tally (w_pods w').
Proof. exact counters_partition_reqb. Qed.
Print Assumptions C05_counters_partition_reqb.

(* ---- where the premise [fresh_all] of the counters theorems comes from.  fresh_all w: the controller's pod view
   and cached spec equal the API server's, task and pod names are unique, every pod belongs to a task of
   the spec; the cached STATUS may differ (after a failed job-level kill its version is ahead).  It holds
   for every initial world of a history and right after a delivery of the job and the pods; there is no
   theorem that unique names / ownership are preserved along a history (they are hypotheses on the world
   at the delivery), and no history-level counters theorem. ---- *)
Theorem C05_fresh_all_init : forall m q sp st pods pg,
  NoDup (map t_name (s_tasks sp)) -> NoDup (pod_ids pods) -> owned sp pods ->
  fresh_all (init_world_m m q sp st pods pg).
Proof. exact fresh_all_init. Qed.
Print Assumptions C05_fresh_all_init.

Theorem C05_fresh_all_after_deliveries : forall w,
  NoDup (map t_name (s_tasks (w_spec w))) -> NoDup (pod_ids (w_pods w)) -> owned (w_spec w) (w_pods w) ->
  c_dirty (v_ctl w) = true \/ c_job (v_ctl w) = false \/ v_spec w = w_spec w ->
  fresh_all (run w [OSyncJob; OSyncPods]).
Proof. exact fresh_all_after_deliveries. Qed.
Print Assumptions C05_fresh_all_after_deliveries.

Theorem C05_counters_partition_after_deliveries : forall w r w' e wr,
  NoDup (map t_name (s_tasks (w_spec w))) -> NoDup (pod_ids (w_pods w)) -> owned (w_spec w) (w_pods w) ->
  c_dirty (v_ctl w) = true \/ c_job (v_ctl w) = false \/ v_spec w = w_spec w ->
  step_req (run w [OSyncJob; OSyncPods]) r [] = (w', e, wr) -> wr = true ->
  (st_cnt (w_st w'), st_term (w_st w')) = tally (w_pods w').
Proof. exact counters_partition_after_deliveries. Qed.
Print Assumptions C05_counters_partition_after_deliveries.

Example C05_fixed_on_pgpending_witness :
  exists w', step_req pgpending_world sync_req [] = (w', false, true) /\
             partition_ok (w_st w') (w_pods w') = true /\ st_phase (w_st w') = PhFailed /\ st_term (w_st w') = 0.
Proof. exact pgpending_counters_fixed_on_witness. Qed.
Example C05_fixed_on_f2_witness :
  exists w', step_req f2_world sync_req [] = (w', false, true) /\
             partition_ok (w_st w') (w_pods w') = true /\ st_cnt (w_st w') = mkC 0 0 1 0 0.
Proof. exact killpods_counters_fixed_on_witness. Qed.
Example C05_nonvacuous_final :
  final_inv f2_world /\
  st_phase (v_st (run f2_world [OReq sync_req []; OSyncPods; OReq sync_req [FStatus 0]])) = PhCompleted.
Proof. exact final_inv_nonvacuous. Qed.
Example C05_nonvacuous_maxretry :
  let w := init_world one_task_spec (mkStatus PhRestarting 3 1 1 c0 1 [] false true) [] None in
  st_phase (v_st w) = PhRestarting /\ s_maxretry (v_spec w) <= st_retry (v_st w) /\
  exists w', step_req w sync_req [] = (w', false, true) /\ st_phase (w_st w') = PhFailed.
Proof. exact maxretry_nonvacuous. Qed.
Example C05_nonvacuous_aborted :
  let w := init_world one_task_spec (mkStatus PhAborted 0 1 1 c0 0 [] false true) [] None in
  let r := mkReq ECommandIssued (Some AResume) None None 0 0 1 in
  exists w', step_req w r [] = (w', false, true) /\ st_phase (v_st w') = PhRestarting /\ st_retry (v_st w') = 1.
Proof. exact aborted_nonvacuous. Qed.
Example C05_nonvacuous_fault :
  let w := init_world one_task_spec (mkStatus PhNone 0 0 0 c0 0 [] true false) [] (Some PgRunning) in
  exists w', step_req w sync_req [FCreate 1 0] = (w', true, true) /\
             w_st w' = init_status one_task_spec (v_st w) /\ w_pods w' = [].
Proof. exact fault_nonvacuous. Qed.

Example C05_nonvacuous_counters_partition_sync :
  let sp := mkSpec [mkTask 1 2 (Some 1) [] None; mkTask 2 1 None [] None] 2 None 3 [] in
  let pods := [mkPod 1 0 PSucceeded false false; mkPod 1 1 PRunning false true; mkPod 1 2 PRunning false false;
               mkPod 2 0 PFailed true false] in
  let w := init_world sp (mkStatus PhRunning 0 0 2 c0 0 [] false false) pods (Some PgRunning) in
  NoDup (map t_name (s_tasks sp)) /\ NoDup (pod_ids pods) /\
  (forall p, In p pods -> exists k, In k (s_tasks sp) /\ t_name k = p_task p) /\
  exists w', sync_job w URunningSync [] = (w', false, true) /\
             st_cnt (w_st w') = mkC 0 0 1 0 0 /\ st_term (w_st w') = 3 /\ length (w_pods w') = 4%nat.
Proof. exact counters_partition_sync_nonvacuous. Qed.

Example C05_nonvacuous_delayed_action :
  let w := init_world delayed_spec (mkStatus PhRunning 0 0 1 (mkC 1 0 0 0 0) 0 [(1%positive, mkC 1 0 0 0 0)] false false)
                      [mkPod 1 0 PPending false false] (Some PgRunning) in
  let pending := mkReq EPodPending None (Some 1%positive) (Some (1%positive, 0)) 0 0 2 in
  let w1 := run w [OReq pending []] in
  length (d_queue (c_delay (v_ctl w1))) = 1%nat /\ st_phase (v_st w1) = PhRunning /\
  let w2 := run w1 [OPodPhase 1 0 PSucceeded; OSyncPods; OReq sync_req []] in
  st_phase (v_st w2) = PhCompleted /\
  let w3 := run w2 [OFire] in
  st_phase (v_st w3) = PhCompleted /\ st_retry (v_st w3) = 0 /\ d_queue (c_delay (v_ctl w3)) = [] /\
  st_phase (v_st (run w1 [OFire])) = PhRestarting /\ st_retry (v_st (run w1 [OFire])) = 1.
Proof. exact delayed_action_example. Qed.

Example C05_nonvacuous_counters_partition :
  fresh_all f2_world /\ fresh_all pgpending_world /\
  (exists w', step_req f2_world sync_req [] = (w', false, true)) /\
  (exists w', step_req pgpending_world sync_req [] = (w', false, true)).
Proof. exact counters_partition_nonvacuous. Qed.

Example C05_nonvacuous_running_boundary :
  let sp := mkSpec [mkTask 1 2 (Some 1) [] None; mkTask 2 2 (Some 1) [] None] 2 None 3 [] in
  let s := mkStatus PhRunning 0 0 2 (mkC 0 0 2 2 0) 0 [(1%positive, mkC 0 0 2 0 0); (2%positive, mkC 0 0 0 2 0)] false false in
  total_task_min sp = s_min sp /\ st_phase (running_sync sp s) = PhFailed /\
  st_phase (running_sync (mkSpec (s_tasks sp) 1 None 3 []) s) = PhCompleted.
Proof. exact running_boundary_example. Qed.

Example C05_nonvacuous_api_phase_history :
  phase_agree f2_world /\
  api_phases f2_world [OReq sync_req []; OFire; ORestart; OSyncJob] = [PhCompleted; PhCompleted; PhCompleted; PhCompleted] /\
  let w := init_world one_task_spec (mkStatus PhNone 0 0 0 c0 0 [] true false) [] None in
  api_phases w [OReq sync_req []; OPgPhase PgRunning; OSyncPg; OReq sync_req []; OPodPhase 1 0 PSucceeded; OSyncPods;
                OReq sync_req []; OReq sync_req []] =
  [PhPending; PhPending; PhPending; PhPending; PhPending; PhPending; PhRunning; PhCompleted].
Proof. exact api_phase_history_nonvacuous. Qed.

Example C05_nonvacuous_version :
  let w1 := run ver_world [OReq (ver_req 0) []] in
  Forall same_job [OReq (ver_req 0) []] /\ st_version (w_st ver_world) <= st_version (v_st ver_world) /\
  st_version (w_st ver_world) = 0 /\ st_version (w_st w1) = 1 /\ st_version (v_st w1) = 1 /\
  st_phase (w_st w1) = PhRestarting /\ st_retry (w_st w1) = 1 /\
  r_action (ver_req 0) = None /\ r_version (ver_req 0) < st_version (v_st w1) /\
  apply_policies ver_spec (v_st w1) (ver_req 0) = ASync /\
  apply_policies ver_spec (v_st w1) (ver_req 1) = ARestartJob.
Proof. exact version_example. Qed.

Example C05_nonvacuous_giveup :
  let sp := mkSpec [mkTask 1 1 (Some 1) [] None] 1 None 3 [] in
  let st ph := mkStatus ph 0 0 1 (mkC 0 1 0 0 0) 0 [(1%positive, mkC 0 1 0 0 0)] false false in
  let w ph := init_world_m 0 true sp (st ph) [mkPod 1 0 PRunning false false] (Some PgRunning) in
  let r := mkReq EOutOfSync None None None 0 0 1 in
  forall ph, In ph [PhCompleted; PhAborted] ->
  exists w', step_reqb (w ph) r [FDelete 1 0] = (w', true, true) /\ q_gave (c_rq (v_ctl w')) = true /\
             st_phase (w_st w') = ph /\ st_phase (v_st w') = ph /\
             w_pods w' = [mkPod 1 0 PRunning true true].
Proof. exact giveup_example. Qed.

(* observation, not a theorem about the property: what giving up on a SYNC does (see docs/notes/C05.md) *)
Example C05_giveup_consumed_view :
  let sp := mkSpec [mkTask 1 2 (Some 2) [] None] 2 None 3 [] in
  let pods := [mkPod 1 0 PRunning false false; mkPod 1 1 PRunning false false] in
  let w := init_world_m 0 true sp (mkStatus PhRunning 0 0 2 (mkC 0 1 0 0 0) 0 [] false false) pods (Some PgRunning) in
  exists w', step_reqb w (mkReq EOutOfSync None None None 0 0 1) [FStatus 0] = (w', true, true) /\
             q_gave (c_rq (v_ctl w')) = true /\ st_phase (w_st w') = PhTerminating /\
             st_cnt (w_st w') = c0 /\ st_term (w_st w') = 0 /\ w_pods w' = pods /\ w_pg w' = None.
Proof. exact giveup_consumed_view_example. Qed.


Example C05_nonvacuous_refused_status_writer :
  let sp := mkSpec [mkTask 1 1 (Some 1) [] None] 1 None 3 [] in
  let w := init_world sp (mkStatus PhRunning 0 0 1 c0 0 [] false false) [mkPod 1 0 PRunning false false] (Some PgRunning) in
  fails_status [FStatus 0] 0 = true /\
  (exists w', step_req w (mkReq ECommandIssued (Some ARestartJob) None None 0 0 1) [FStatus 0] = (w', true, false) /\
              w_st w' = w_st w /\ w_pods w' = [mkPod 1 0 PRunning true true]) /\
  (exists w', step_req w (mkReq EOutOfSync None None None 0 0 1) [FStatus 0] = (w', true, false) /\ w_st w' = w_st w) /\
  (exists w', step_req w (mkReq EOutOfSync None None None 0 0 1) [] = (w', false, true) /\ w_st w' <> w_st w).
Proof. exact refused_status_writer_example. Qed.

(* the cached version ahead of the API server's after a failed RestartJob, deliveries, and the retried
   restart: the premise holds (status equality is not part of it) and the counters partition *)
Example C05_nonvacuous_fresh_all_version_ahead :
  let sp := mkSpec [mkTask 1 2 (Some 2) [] None] 2 None 3 [] in
  let w := init_world sp (mkStatus PhRunning 0 0 2 (mkC 0 2 0 0 0) 0 [] false false)
             [mkPod 1 0 PRunning false false; mkPod 1 1 PRunning false false] (Some PgRunning) in
  let rq := mkReq ECommandIssued (Some ARestartJob) None None 0 0 1 in
  let w1 := run w [OReq rq [FDelete 1 0]; OSyncJob; OSyncPods; OSyncPg] in
  v_st w1 <> w_st w1 /\ fresh_all w1 /\
  exists w2, step_req w1 rq [] = (w2, false, true) /\ (st_cnt (w_st w2), st_term (w_st w2)) = tally (w_pods w2).
Proof. exact fresh_all_version_ahead. Qed.
