From V Require Import C05.Model.
