(* C04 - preemption and reclaim only evict eligible victims, and never in vain.
   Property theorems only; the proofs are in C04/VoteLemmas.v, C04/Frame.v, C04/Lemmas.v and
   C04/Eligible.v.  Every theorem is stated for ALL sessions, ALL plugin tier layouts and ALL
   oracle choice lists (DESIGN 4.4); eps is the comparison tolerance (any integer). *)
From V Require Import C11.Model C11.Spec C11.Lemmas.
From stdpp Require Import gmap.
From Coq Require Import ZArith.
From V Require Import Base.Codec Base.Res Sched.LedgerModel Sched.StmtModel Sched.GangModel Sched.LedgerCodec
                      C04.Model C04.Frame C04.VoteLemmas C04.CapLemmas C04.Lemmas C04.Eligible C04.Placed C04.PlacedRun C04.Codec.
Open Scope Z_scope.

(* ---------- the votes ---------- *)

(* gang: after removing ALL returned victims of a job, its ready count is still >= MinAvailable *)
Theorem gang_vote_keeps_min : forall (s : sess) (l : list task) (jid : positive) (j : job),
  jobs s !! jid = Some j ->
  let k := Z.of_nat (length (filter (fun c : task => t_job c = jid) (gang_vote s l))) in
  0 < k -> j_min j <= ready_num (j_index j) - k.
Proof. exact VoteLemmas.gang_vote_keeps_min. Qed.
Print Assumptions gang_vote_keeps_min.

(* priority: strictly lower job priority, or same job and strictly lower task priority *)
Theorem priority_vote_strict : forall (E : env) (s : sess) (p c : task) (l : list task),
  c ∈ prio_vote E s p l ->
  c ∈ l /\ ((t_job c <> t_job p /\ jprio E (t_job c) < jprio E (t_job p)) \/
            (t_job c = t_job p /\ t_prio c < t_prio p)).
Proof. exact prio_vote_strict. Qed.
Print Assumptions priority_vote_strict.

(* conformance: exactly the candidates that are not critical / kube-system *)
Theorem conformance_vote : forall (E : env) (c : task) (l : list task),
  c ∈ conf_vote E l <-> c ∈ l /\ critical E c = false.
Proof. exact conf_vote_spec. Qed.
Print Assumptions conformance_vote.

(* proportion: a victim is taken only while its queue's allocation, less the victims already taken
   from that queue, is NOT <= deserved *)
Theorem proportion_vote : forall (eps : Z) (E : env) (s : sess) (l : list task) (c : task),
  c ∈ prop_vote eps E s l ->
  exists (l1 l2 : list task) (j : job) (q : qx),
    l = l1 ++ c :: l2 /\ jobs s !! t_job c = Some j /\ e_queues E !! j_queue j = Some q /\ qx_known q = true /\
    less_equal eps (sub_reqs (share_of s (j_queue j)) (queue_victims s (j_queue j) (prop_vote eps E s l1)))
               (qx_des_hi q) DZero = false.
Proof. exact prop_vote_victim_above. Qed.
Print Assumptions proportion_vote.

(* capacity (flat queues), for EVERY reclaimer, candidate list, pop order and queue records: after ALL victims
   of the call are gone, every queue that lost one still holds its guarantee (Resource.LessEqual with the
   Zero default: every dimension of the guarantee) *)
Theorem capacity_vote_keeps_guarantee : forall (eps : Z) (E : env) (s : sess) (p : task) (l : list task) (qid : positive) (q : qx),
  e_queues E !! qid = Some q ->
  queue_victims s qid (cap_vote eps E s p l) <> [] ->
  less_equal eps (qx_cap_guar q)
    (sub_reqs (share_of s qid) (queue_victims s qid (cap_vote eps E s p l))) DZero = true.
Proof. exact cap_vote_keeps_guarantee. Qed.
Print Assumptions capacity_vote_keeps_guarantee.

(* ... and each victim was taken under [cap_takes], evaluated on the queue's allocation at the start of the
   call minus the same queue's victims popped before it: it shares a resource name with the reclaimer,
   leaves the guarantee intact, and the queue is "above deserved" AS THE CODE DEFINES IT: the victim requests
   nothing the deserved vector holds, or allocated > deserved in SOME dimension the victim requests *)
Theorem capacity_vote_victim_taken : forall (eps : Z) (E : env) (s : sess) (p : task) (l : list task) (c : task),
  c ∈ cap_vote eps E s p l ->
  exists j q before,
    jobs s !! t_job c = Some j /\ e_queues E !! j_queue j = Some q /\
    (forall b, b ∈ before -> b ∈ cap_vote eps E s p l) /\
    cap_takes eps q p c (sub_reqs (share_of s (j_queue j)) (queue_victims s (j_queue j) before)).
Proof. exact cap_vote_victim_taken. Qed.
Print Assumptions capacity_vote_victim_taken.

(* the gap to the property text "its queue is above its deserved share": the code is content with ONE
   dimension; a queue far below deserved in cpu loses a pod because it is above deserved in memory *)
Theorem above_deserved_in_every_dimension_refuted :
  exists eps E s p l c j q,
    c ∈ cap_vote eps E s p l /\ jobs s !! t_job c = Some j /\ e_queues E !! j_queue j = Some q /\
    cpu (share_of s (j_queue j)) < cpu (qx_cap_des q).
Proof. exact CapLemmas.above_deserved_in_every_dimension_refuted. Qed.
Print Assumptions above_deserved_in_every_dimension_refuted.

(* drf (preempt only): what a victim returned by the drf vote means.  The candidate list splits at the victim, and the
   preemptor job's dominant share with the preemptor is below, or within shareDelta of, the dominant share of what the
   victim's job holds (handler ledger) minus the requests of ALL candidates of that job up to and including the victim,
   returned or not (drf_left).  Monotonicity of dom_share, hence the statement on an arbitrary subset, is not proved. *)
Theorem drf_vote_victim_meaning : forall (eps : Z) (s : sess) (p : task) (l : list task) (c : task),
  c ∈ drf_vote eps s p l ->
  exists pre post, l = pre ++ c :: post /\
    drf_lets_go (drf_ls eps s p) (dom_share eps (drf_left s (pre ++ [c]) (t_job c)) (total_res s)) = true.
Proof. exact VoteLemmas.drf_vote_victim_meaning. Qed.
Print Assumptions drf_vote_victim_meaning.

Theorem victims_subset_candidates : forall (eps : Z) (E : env) (k : akind) (s : sess) (p : task) (l : list task) (c : task),
  c ∈ victims eps E k s p l -> c ∈ l.
Proof. exact victims_subset. Qed.
Print Assumptions victims_subset_candidates.

(* the victims are the agreement of the FIRST tier whose voters agree on something; every enabled
   registered voter of that tier returned the victim *)
Theorem victims_respect_deciding_tier : forall (eps : Z) (E : env) (k : akind) (s : sess) (p : task) (l : list task) (c : task),
  c ∈ victims eps E k s p l ->
  exists (pre : list (list plug)) (tier : list plug) (post : list (list plug)),
    e_tiers E = pre ++ tier :: post /\
    vote_layout eps E k s p l =
      map (map (slot_of eps E k s p l)) pre ++ map (slot_of eps E k s p l) tier :: map (map (slot_of eps E k s p l)) post /\
    Forall (fun t' : list (slot vote) => agreement t' = []) (map (map (slot_of eps E k s p l)) pre) /\
    (exists sl : slot vote, In sl (map (slot_of eps E k s p l) tier) /\ voting sl = true) /\
    (exists (pl : plug) (v : list task), pl ∈ tier /\ plug_enabled k pl = true /\ vote_of eps E k s p l (p_kind pl) = Some v) /\
    (forall (pl : plug) (v : list task), pl ∈ tier -> (if is_reclaim k then p_rec pl else p_pre pl) = true ->
       vote_of eps E k s p l (p_kind pl) = Some v -> exists c' : task, c' ∈ v /\ t_id c' = t_id c).
Proof. exact victims_respect_voters. Qed.
Print Assumptions victims_respect_deciding_tier.

(* ---------- candidate filters ---------- *)

Theorem preempt_candidates_eligible : forall (E : env) (k : akind) (s : sess) (p : task) (pq : positive) (c : task),
  k <> AReclaim -> cand_ok E k s p pq c = true ->
  (t_status c = Running \/ t_status c = Bound) /\ t_preemptable c = true /\
  (t_best_effort p = true -> t_best_effort c = true) /\
  match k with
  | AInter => exists j, jobs s !! t_job c = Some j /\ j_queue j = pq /\ t_job p <> t_job c
  | _ => t_job p = t_job c
  end.
Proof. exact Eligible.preempt_candidates_eligible. Qed.
Print Assumptions preempt_candidates_eligible.

Theorem reclaim_candidates_eligible : forall (E : env) (s : sess) (p : task) (pq : positive) (c : task),
  cand_ok E AReclaim s p pq c = true ->
  t_status c = Running /\ t_preemptable c = true /\
  exists j, jobs s !! t_job c = Some j /\ j_queue j <> pq /\ queue_reclaimable E (j_queue j) = true.
Proof. exact Eligible.reclaim_candidates_eligible. Qed.
Print Assumptions reclaim_candidates_eligible.

(* ---------- never in vain ---------- *)

Theorem failed_attempt_contributes_nothing : forall (eps : Z) (E : env) (k : akind) (s : sess) (p : task) (pq : positive)
    (a : attempt) (s' : sess) (v : Z) (lg : list arec),
  ops s nsid = [] -> heap_ok s ->
  run_attempt eps E k s p pq a = (s', false, v, lg) ->
  evicts s' = evicts s /\ ops s' jsid = ops s jsid /\ ops s' nsid = [].
Proof. exact Eligible.failed_attempt_contributes_nothing. Qed.
Print Assumptions failed_attempt_contributes_nothing.

Theorem successful_attempt_block : forall (eps : Z) (E : env) (k : akind) (s : sess) (p : task) (pq : positive)
    (a : attempt) (s' : sess) (v : Z) (lg : list arec),
  ops s nsid = [] -> heap_ok s ->
  run_attempt eps E k s p pq a = (s', true, v, lg) ->
  exists r, lg = [r] /\ a_ok r = true /\ a_task r = p /\ a_node r = at_node a /\
            ops s' jsid = ops s jsid ++ block r /\ evicts s' = evicts s.
Proof. exact Eligible.successful_attempt_block. Qed.
Print Assumptions successful_attempt_block.

Theorem unpipelined_job_commits_nothing : forall (eps : Z) (E : env) (s : sess) (jid : positive) (j : job)
    (lg : list arec) (s' : sess) (lg' : list arec),
  jobs s !! jid = Some j -> job_pipelined_now E s j = false ->
  close_job eps E s jid lg = (s', lg') -> evicts s' = evicts s /\ lg' = [].
Proof. exact Lemmas.unpipelined_job_commits_nothing. Qed.
Print Assumptions unpipelined_job_commits_nothing.

Theorem committed_job_reached_role_minimums : forall (eps : Z) (E : env) (s : sess) (jid : positive) (j : job)
    (lg : list arec) (s' : sess) (lg' : list arec),
  jobs s !! jid = Some j -> gang_in (e_tiers E) = true ->
  close_job eps E s jid lg = (s', lg') -> lg' <> [] ->
  is_pipelined (heap s) (j_index j) (j_min j) = true /\
  (j_role_total j <= j_min j ->
   forall r m, j_role_min j !! r = Some m -> m <= role_occupied (heap s) (j_index j) true r).
Proof. exact VoteLemmas.committed_job_reached_role_minimums. Qed.
Print Assumptions committed_job_reached_role_minimums.

(* MAIN 1 *)
Theorem evictions_only_with_placement : forall (eps : Z) (E : env) (cs : list choice) (s s' : sess) (lg : list arec),
  clear s -> heap_ok s -> run eps E s cs = (s', lg) ->
  forall x, x ∈ evicts s' ->
    x ∈ evicts s \/
    exists r c, r ∈ lg /\ a_ok r = true /\ rec_sound eps E r /\ c ∈ a_evicted r /\ t_id c = x.
Proof. exact Eligible.evictions_only_with_placement. Qed.
Print Assumptions evictions_only_with_placement.

(* MAIN 2 *)
Theorem eviction_eligible : forall (eps : Z) (E : env) (cs : list choice) (s s' : sess) (lg : list arec) (x : positive),
  clear s -> heap_ok s -> run eps E s cs = (s', lg) -> x ∈ evicts s' -> x ∉ evicts s ->
  exists r c n,
    r ∈ lg /\ a_ok r = true /\ c ∈ a_evicted r /\ t_id c = x /\
    nodes (a_pre r) !! a_node r = Some n /\ (exists i, n_tasks n !! i = Some c) /\
    cand_ok E (a_kind r) (a_pre r) (a_task r) (a_queue r) c = true /\
    (* the copy the node held was Running, or Bound for preemption - whatever other statuses (Allocated,
       Binding, Pipelined, Releasing ...) the session contains *)
    (t_status c = Running \/ (is_reclaim (a_kind r) = false /\ t_status c = Bound)) /\
    t_preemptable c = true /\
    c ∈ a_cands r /\
    (* E with the capacity plugin's pop order of this vote installed; nothing else differs *)
    let E' := with_qorder E (a_qorder r) in
    exists tier, deciding eps E' (a_kind r) (a_pre r) (a_task r) (a_cands r) tier /\
      forall pl, pl ∈ tier -> plug_enabled (a_kind r) pl = true ->
        match p_kind pl with
        | KGang => c ∈ gang_vote (a_pre r) (a_cands r)
        | KConf => critical E c = false
        | KPrio => is_reclaim (a_kind r) = false ->
            (t_job c <> t_job (a_task r) /\ jprio E (t_job c) < jprio E (t_job (a_task r))) \/
            (t_job c = t_job (a_task r) /\ t_prio c < t_prio (a_task r))
        | KProp => is_reclaim (a_kind r) = true -> c ∈ prop_vote eps E' (a_pre r) (a_cands r)
        | KCap => is_reclaim (a_kind r) = true -> c ∈ cap_vote eps E' (a_pre r) (a_task r) (a_cands r)
        | KDrf => is_reclaim (a_kind r) = false -> c ∈ drf_vote eps (a_pre r) (a_task r) (a_cands r)
        end.
Proof. exact Eligible.eviction_eligible. Qed.
Print Assumptions eviction_eligible.

(* ---------- the placement on the FINAL SESSION (observables) ---------- *)

(* MAIN 1 on observables: for every run from a well-formed session, every pod in the evictor's accepted-call list
   sat on the node of a committed node attempt, and in the final session the task that attempt was made for
   is Pipelined on that same node *)
Theorem evictions_with_final_placement : forall (eps : Z) (E : env) (cs : list choice) (s s' : sess) (lg : list arec),
  wf s -> clear s -> run eps E s cs = (s', lg) ->
  forall x, x ∈ evicts s' ->
    x ∈ evicts s \/
    exists r c q, r ∈ lg /\ a_ok r = true /\ c ∈ a_evicted r /\ t_id c = x /\ t_node c = Some (a_node r) /\
                  heap s' !! t_id (a_task r) = Some q /\ t_status q = Pipelined /\ t_node q = Some (a_node r).
Proof. exact PlacedRun.evictions_with_final_placement. Qed.
Print Assumptions evictions_with_final_placement.

(* the invariant is kept by every run (so the theorem composes over cycles of one session) *)
Theorem runs_keep_sessions_well_formed : forall (eps : Z) (E : env) (cs : list choice) (s s' : sess) (lg : list arec),
  wf s -> clear s -> run eps E s cs = (s', lg) ->
  wf s' /\ forall r, r ∈ lg -> wf (a_pre r) /\ placed s' r.
Proof. exact PlacedRun.run_placed. Qed.
Print Assumptions runs_keep_sessions_well_formed.

(* the converse side on the session state: an attempt that is not assigned leaves its preemptor Pending, every
   Pipelined task object untouched and every Running / Bound / Releasing task in such a status *)
Theorem failed_attempt_session : forall (eps : Z) (E : env) (k : akind) (s : sess) (tid : positive) (p : task) (pq : positive)
    (a : attempt) (s' : sess) (v : Z) (lg : list arec),
  wf s -> ops s nsid = [] -> heap s !! tid = Some p -> t_status p = Pending ->
  run_attempt eps E k s p pq a = (s', false, v, lg) ->
  wf s' /\ (exists p', heap s' !! tid = Some p' /\ t_status p' = Pending) /\ keep_pip s s' /\ keep_busy s s'.
Proof. exact PlacedRun.failed_attempt_session. Qed.
Print Assumptions failed_attempt_session.

(* the well-formedness hypothesis is decidable; the entry evaluates the checker on every generated session *)
Theorem wf_check_sound : forall s, wfb s = true -> wf s.
Proof. exact wfb_sound. Qed.
Print Assumptions wf_check_sound.

(* ---------- faults ---------- *)

(* Statement.Pipeline failing (a handler reports Event.Err for this placement): for EVERY fault
   script the attempt is not assigned, leaves no operation behind and sends nothing to the evictor *)
Theorem faulted_attempt_contributes_nothing : forall (eps : Z) (E : env) (k : akind) (s : sess) (p : task) (pq : positive)
    (a : attempt) (s' : sess) (ok : bool) (v : Z) (lg : list arec),
  ops s nsid = [] -> heap_ok s -> (t_id p, at_node a) ∈ e_faults E ->
  run_attempt eps E k s p pq a = (s', ok, v, lg) ->
  ok = false /\ evicts s' = evicts s /\ ops s' jsid = ops s jsid /\ ops s' nsid = [].
Proof. exact Eligible.faulted_attempt_contributes_nothing. Qed.
Print Assumptions faulted_attempt_contributes_nothing.

(* cache.Evict refusing a victim at Commit: the victim is un-evicted and never appears in the
   evictor log (its preemptor stays pipelined: a placement without its eviction, not the converse) *)
Theorem refused_eviction_not_logged : forall (eps : Z) (E : env) (cs : list choice) (s s' : sess) (lg : list arec) (x : positive),
  clear s -> heap_ok s -> run eps E s cs = (s', lg) ->
  x ∈ refuse_evict s -> x ∈ evicts s' -> x ∈ evicts s.
Proof. exact Eligible.refused_eviction_not_logged. Qed.
Print Assumptions refused_eviction_not_logged.

(* the hypotheses of the main theorems hold for every session the codec builds, with any fault script *)
Theorem built_sessions_satisfy_hypotheses : forall eps ns js ts he rb re jr,
  clear (upd_faults (build eps ns js ts) he rb re jr) /\ heap_ok (upd_faults (build eps ns js ts) he rb re jr).
Proof. exact build_clear_heap_ok. Qed.
Print Assumptions built_sessions_satisfy_hypotheses.

(* what does not hold (and the real code shows it, known finding C04-lower-tier-overrides-veto):
   a voter of a tier in front of the deciding tier need not be respected *)
Theorem all_consulted_voters_respected_refuted :
  exists E s p l c,
    c ∈ victims 1 E AInter s p l /\
    exists pre tier post pl, e_tiers E = pre ++ tier :: post /\ pl ∈ tier /\
      p_kind pl = KPrio /\ p_pre pl = true /\ ~ c ∈ prio_vote E s p l.
Proof. exact Eligible.all_consulted_voters_respected_refuted. Qed.
Print Assumptions all_consulted_voters_respected_refuted.

(* ---------- non-vacuity: three real cycles (harness seed 1) replayed by the model.  Each result is
   (evictor log, number of committed attempt records, all records ok, the session the cycle starts from is
   well-formed): the hypotheses of the MAIN theorems hold and their conclusions are not vacuous.
   A = cycle-523: a node attempt whose Pipeline fails by a scripted handler fault and is rolled back, then a
       committed eviction on another node;
   B = cycle-275: reclaim with the capacity plugin, several victims of one queue on one node;
   D = cycle-586: preempt with topology-aware preemption, a gang whose first attempt fails by a handler fault;
   C = cycle-435: intra-job preemption. ---------- *)
Definition ex_of (toks : list Z) : option (list positive * nat * bool * bool) :=
  match run_dec dCase toks with
  | Some c =>
    let sp := cs_spec c in
    let '(s', lg) := run (sp_eps sp) (env_of sp (cs_lims c) (cs_clims c)) (sess_of sp) (cs_choices c) in
    Some (evicts s', length lg, forallb a_ok lg, wfb (sess_of sp))
  | None => None
  end.

Definition ex_toks_A : list Z := [2; 3; 1; 1; 1000; 8388608; 1; 0; 2; 1; 1000; 1048576; 1; 1; 3; 1; 500; 8912896; 3; 0; 1; 1; 1; 1; 0; 0; 3; 1; 1; 0; 0; 3; 2; 1; 4; 0; 3; 3; 1; 0; 0; 1; 6; 1; 1; 1; 2; 500; 524288; 0; 6; 3; 1; 2; 2; 1; 0; 500; 524288; 0; 1; 0; 1; 3; 2; 1; 1; 750; 2621440; 0; 1; 0; 1; 4; 2; 1; 1; 250; 2097152; 0; 1; 0; 1; 5; 2; 1; 2; 750; 2097152; 0; 1; 0; 0; 6; 3; 1; 0; 1000; 524288; 0; 1; 0; 1; 3; 1; 0; 0; 2; 3; 0; 3; 1; 0; 6; 1; 0; 2; 0; 3; 0; 4; 0; 5; 0; 6; 0; 1; 1; 2; 1; 1; 0; 0; 0; 0; 3; 0; 2; 3; 1; 1; 2; 1; 1; 0; 1; 1; 4; 2; 1; 2; 2; 3; 3; 4; 3; 0; 0; 0; 1; 1; 2; 3; 5; 1; 1; 0; 0; 0; 0; 4; 1; 3; 1; 1; 1; 1; 1; 1; 0; 2; 2; 2; 0; 0; 0; 0; 3; 1; 1; 1; 1; 1; 1; 0].
Definition ex_toks_B : list Z := [2; 2; 1; 1; 1750; 6815744; 6; 0; 2; 1; 8000; 67108864; 4; 0; 3; 1; 1; 1; 0; 0; 2; 1; 1; 0; 0; 3; 1; 1; 0; 0; 3; 1; 1; 0; 0; 3; 2; 2; 1; 0; 3; 3; 3; 0; 0; 3; 5; 1; 1; 1; 0; 500; 2097152; 0; 6; 1; 1; 2; 1; 1; 0; 500; 2097152; 0; 6; 1; 1; 3; 1; 1; 1; 500; 2097152; 0; 6; 1; 1; 4; 2; 1; 1; 1500; 2097152; 0; 1; 0; 1; 5; 3; 1; 0; 8000; 33554432; 0; 6; 2; 1; 3; 1; 0; 0; 2; 2; 0; 3; 0; 0; 5; 1; 0; 2; 0; 3; 0; 4; 0; 5; 0; 3; 1; 1; 2; 1; 3; 2; 3; 1; 0; 0; 0; 0; 2; 0; 0; 0; 6291456; 3; 0; 0; 8000; 67108864; 1; 2; 1; 1; 1; 5; 1; 1; 1; 2; 0; 0; 0; 3; 1; 0; 0; 0; 0; 0; 0; 0; 0; 156000; 1182793728; 1; 1; 1; 160; 2; 0; 100663296; 0; 0; 0; 0; 0; 0; 156000; 1182793728; 1; 1; 1; 160; 3; 128000; 1073741824; 0; 0; 0; 0; 0; 0; 156000; 1182793728; 1; 1; 1; 160; 1; 3; 1; 2; 1; 4; 1; 1; 3; 1; 2; 3; 3; 3; 2; 1; 3; 3; 2; 1; 0].
Definition ex_toks_C : list Z := [2; 3; 1; 1; 500; 8388608; 2; 1; 2; 1; 1500; 6291456; 7; 2; 3; 1; 3750; 13107200; 7; 1; 3; 1; 1; 1; 0; 0; 2; 1; 4; 7000; 0; 3; 1; 4; 0; 0; 2; 1; 1; 3; 0; 2; 2; 2; 2; 0; 3; 6; 1; 1; 1; 2; 1500; 2621440; 0; 1; 0; 1; 2; 1; 1; 2; 1500; 2621440; 1; 2; 3; 1; 3; 1; 1; 1; 1000; 2097152; 1; 5; 2; 1; 4; 1; 1; 0; 1250; 2097152; 0; 6; 3; 0; 5; 1; 1; 1; 500; 3145728; 0; 6; 2; 1; 6; 2; 1; 2; 750; 1048576; 0; 1; 0; 1; 2; 1; 1; 0; 2; 3; 0; 6; 1; 0; 2; 0; 3; 0; 4; 0; 5; 0; 6; 0; 3; 1; 1; 2; 1; 3; 1; 3; 1; 0; 0; 0; 0; 2; 0; 0; 0; 0; 3; 0; 0; 0; 0; 2; 0; 3; 3; 1; 1; 2; 1; 1; 4; 1; 1; 2; 2; 1; 0; 1; 4; 2; 1; 80000; 201326592; 1; 2; 1; 80; 4; 32000; 80000; 201326592; 1; 2; 1; 80; 4; 32000; 80000; 201326592; 1; 2; 1; 80; 4; 32000; 2; 12000; 16777216; 1; 2; 1; 16; 4; 0; 12000; 16777216; 1; 2; 1; 16; 4; 0; 12000; 16777216; 1; 2; 1; 16; 4; 0; 0; 2; 1; 2; 1; 6; 1; 3; 0; 0; 0; 0; 2; 1; 1; 1; 2; 2; 3; 5; 2; 5; 3; 2; 5; 3; 0].

Definition ex_toks_D : list Z := [2; 1; 1; 1; 2750; 16777216; 4; 0; 3; 1; 1; 3; 0; 0; 2; 1; 4; 11000; 0; 3; 1; 3; 0; 0; 3; 1; 1; 0; 0; 3; 2; 1; 1; 0; 3; 3; 3; 1; 0; 2; 10; 1; 1; 1; 1; 750; 2621440; 0; 5; 1; 1; 2; 1; 1; 0; 500; 1048576; 0; 6; 1; 0; 3; 1; 1; 0; 500; 2621440; 0; 6; 1; 1; 4; 2; 1; 0; 750; 2097152; 0; 1; 0; 0; 5; 2; 1; 2; 1000; 1572864; 0; 1; 0; 0; 6; 2; 1; 2; 1250; 1048576; 0; 1; 0; 1; 7; 2; 1; 2; 1500; 524288; 0; 1; 0; 1; 8; 2; 1; 0; 750; 2097152; 0; 1; 0; 1; 9; 3; 1; 2; 1000; 2097152; 0; 6; 1; 1; 10; 3; 1; 2; 1000; 2621440; 0; 1; 0; 1; 3; 1; 0; 0; 2; 2; 0; 3; 0; 0; 10; 1; 0; 2; 0; 3; 0; 4; 0; 5; 0; 6; 0; 7; 0; 8; 0; 9; 0; 10; 0; 3; 1; 1; 2; 0; 3; 2; 3; 1; 0; 0; 0; 0; 2; 0; 0; 0; 0; 3; 0; 0; 0; 0; 2; 3; 1; 1; 1; 2; 0; 1; 3; 1; 0; 0; 1; 3; 2; 4; 1; 5; 1; 0; 0; 0; 1; 1; 2; 2; 5; 1; 1; 2; 1; 3; 2; 1; 3; 2; 3; 1; 1; 6; 1; 1; 2; 3; 1; 2; 1; 3; 2; 3; 1; 1].

Example ex_topology_aware_preempt : ex_of ex_toks_D = Some ([3%positive; 1%positive], 1%nat, true, true).
Proof. vm_compute. reflexivity. Qed.
Example ex_run_commits_an_eviction : ex_of ex_toks_A = Some ([1%positive], 2%nat, true, true).
Proof. vm_compute. reflexivity. Qed.
Example ex_capacity_reclaim : ex_of ex_toks_B = Some ([1%positive; 2%positive; 3%positive], 1%nat, true, true).
Proof. vm_compute. reflexivity. Qed.
Example ex_intra_job_preempt : ex_of ex_toks_C = Some ([3%positive; 5%positive], 2%nat, true, true).
Proof. vm_compute. reflexivity. Qed.
