(* Property C01: gang scheduling is all-or-nothing: no partial gang is ever bound.
   Theorems only; proofs are in Sched/GangLemmas*.v. *)
From stdpp Require Import gmap.
From Coq Require Import ZArith.
From V Require Import Base.Res Sched.LedgerModel Sched.StmtModel Sched.GangModel Sched.CycleModel Sched.LedgerInvP
                      Sched.GangLemmas Sched.GangLemmasInv Sched.GangLemmasStmt Sched.GangLemmasCycle Sched.GangLemmasMain
                      Sched.CycleCodec Sched.GangValid Sched.SubGroupModel Sched.SubGroupLemmas Sched.GangLemmasEvict
                      Sched.GangLemmasShape Sched.GangLemmasAudit Sched.SubGroupLaw Sched.LedgerCodec Sched.DumpCodec Sched.GangLawSound.
From V Require Sched.CycleLaws.
Open Scope Z_scope.

(* 1. the counts the gang plugin reads from TaskStatusIndex are the counts over the task list *)
Theorem C01_index_counts_spec h j : job_inv h j ->
  let ts := tasks_in h (j_tasks j) in
  ready_num (j_index j) = count_tasks ready_status ts /\
  pending_be_num h (j_index j) = count_tasks (fun t => has_status Pending t && t_best_effort t) ts /\
  waiting_num (j_index j) = count_tasks (has_status Pipelined) ts /\
  (forall b r, role_occupied h (j_index j) b r = count_tasks (fun t => slot_counted b t && in_role r t) ts).
Proof. exact (index_counts_spec h j). Qed.
Print Assumptions C01_index_counts_spec.

(* 2. JobReady / JobPipelined / JobStarving of the gang plugin in the property's wording *)
Theorem C01_gang_ready_spec h j : job_inv h j ->
  (gang_job_ready h j = true <-> gang_cond session_ready h j) /\
  (gang_job_pipelined h j = true <-> gang_cond session_pipelined h j) /\
  (gang_job_starving j = true <->
   count_tasks (has_status Pipelined) (tasks_in h (j_tasks j)) + count_tasks ready_status (tasks_in h (j_tasks j)) < j_min j).
Proof. exact (gang_ready_spec h j). Qed.
Print Assumptions C01_gang_ready_spec.

(* 3. main: every bind of a cycle belongs to a gang that is complete, in the cluster-visible
   sense, at the end of the cycle, and the bound task is Binding.  For every eps, every world,
   every list of oracle choices that satisfies the attempt guard (see docs/notes/C01.md, F10). *)
Theorem C01_bind_only_when_gang_ok eps w ops :
  ledger_inv (w_sess w) -> heap_members (w_sess w) ->
  refuse_bind (w_sess w) = ∅ -> stmts (w_sess w) = ∅ ->
  guarded eps w ops ->
  binds_ok (w_sess w) (w_sess (run eps w ops)).
Proof. exact (bind_only_when_gang_ok eps w ops). Qed.
Print Assumptions C01_bind_only_when_gang_ok.

(* the same from the light invariant alone (what the examples instantiate) *)
Theorem C01_bind_only_when_gang_ok_core eps w ops :
  gang_inv (w_sess w) -> refuse_bind (w_sess w) = ∅ -> stmts (w_sess w) = ∅ ->
  guarded eps w ops ->
  binds_ok (w_sess w) (w_sess (run eps w ops)) /\ gang_inv (w_sess (run eps w ops)).
Proof. exact (bind_only_when_gang_ok_core eps w ops). Qed.
Print Assumptions C01_bind_only_when_gang_ok_core.

(* the guard is decidable: the executable check the harness law 104 evaluates *)
Theorem C01_guardedb_sound eps ops w : guardedb eps w ops = true -> guarded eps w ops.
Proof. exact (guardedb_sound eps ops w). Qed.
Print Assumptions C01_guardedb_sound.

(* 3'. F10: without the guard the statement is false on the model (and on the real code) *)
Theorem C01_bind_without_guard_refuted :
  exists eps w ops,
    gang_inv (w_sess w) /\ refuse_bind (w_sess w) = ∅ /\ stmts (w_sess w) = ∅ /\
    (forall i t, heap (w_sess w) !! i = Some t -> t_status t <> Allocated /\ t_status t <> Binding /\ t_status t <> Pipelined) /\
    guardedb eps w ops = false /\
    let s' := w_sess (run eps w ops) in
    exists b j, b ∈ binds s' /\ (exists t, heap s' !! b.1 = Some t /\ jobs s' !! t_job t = Some j) /\ ~ gang_ok (heap s') j.
Proof. exact bind_without_guard_refuted. Qed.
Print Assumptions C01_bind_without_guard_refuted.

(* 4. contrapositive *)
Theorem C01_no_bind_without_gang eps w ops :
  ledger_inv (w_sess w) -> heap_members (w_sess w) ->
  refuse_bind (w_sess w) = ∅ -> stmts (w_sess w) = ∅ ->
  guarded eps w ops ->
  let s' := w_sess (run eps w ops) in
  exists nb, binds s' = nb ++ binds (w_sess w) /\
    (forall jid j, jobs s' !! jid = Some j -> ~ gang_ok (heap s') j ->
       forall b t, b ∈ nb -> heap s' !! b.1 = Some t -> t_job t <> jid) /\
    (forall i t, heap s' !! i = Some t -> t_status t <> Binding -> forall b, b ∈ nb -> b.1 <> i).
Proof. exact (no_bind_without_gang eps w ops). Qed.
Print Assumptions C01_no_bind_without_gang.

(* consecutive cycles: the next snapshot has no tentative status left and a complete gang is
   still complete once its binds have become Bound pods *)
Theorem C01_cycles_compose h j :
  (forall i t, next_heap h !! i = Some t ->
     t_status t <> Allocated /\ t_status t <> Pipelined /\ t_status t <> Binding) /\
  (gang_ok h j -> gang_ok (next_heap h) j).
Proof. exact (cycles_compose h j). Qed.
Print Assumptions C01_cycles_compose.

Theorem C01_next_cycle_guard (s : sess) h jid : heap s = next_heap h -> no_kept_alloc s jid.
Proof. exact (next_cycle_guard s h jid). Qed.
Print Assumptions C01_next_cycle_guard.

(* 5. non-vacuity *)
Example C01_ex_committed :
  hyps_okb (ex_case ex_cops 7000) = true /\
  binds_of (ex_case ex_cops 7000) = [(4, Some 1); (3, Some 1); (2, Some 1)]%positive /\
  status_after (ex_case ex_cops 7000) 2 = Some Binding.
Proof. exact ex_committed. Qed.
Print Assumptions C01_ex_committed.

Example C01_ex_kept :
  hyps_okb (ex_case ex_cops 4000) = true /\
  binds_of (ex_case ex_cops 4000) = [] /\
  status_after (ex_case ex_cops 4000) 2 = Some Allocated /\ status_after (ex_case ex_cops 4000) 4 = Some Pipelined.
Proof. exact ex_kept. Qed.
Print Assumptions C01_ex_kept.

Example C01_ex_discarded :
  hyps_okb (ex_case ex_cops 2500) = true /\
  binds_of (ex_case ex_cops 2500) = [] /\
  status_after (ex_case ex_cops 2500) 2 = Some Pending /\ status_after (ex_case ex_cops 2500) 3 = Some Pending.
Proof. exact ex_discarded. Qed.
Print Assumptions C01_ex_discarded.

Example C01_ex_theorem_applies :
  let c := ex_case ex_cops 7000 in
  binds_ok (w_sess (world_of c)) (w_sess (run (cc_eps c) (world_of c) (cc_cops c))) /\ length (binds_of c) = 3%nat.
Proof. exact ex_theorem_applies. Qed.
Print Assumptions C01_ex_theorem_applies.

(* ---------- extension: sub-group policies ---------- *)

(* 6. JobReady / JobPipelined of the gang plugin for a job WITH sub-group policies (gang.go 191-219:
   CheckTaskReady && CheckSubJobReady && IsReady): the policy-less conclusions and, for every policy
   with MinSubGroups <> 0, at least that many sub-groups with >= SubGroupSize occupied slots, counted
   over the sub-group's task list *)
Theorem C01_gang_ready_sub_spec h sg : job_inv h (sg_job sg) ->
  (gang_job_ready_sub h sg = true <-> gang_cond session_ready h (sg_job sg) /\ sub_groups_cond session_ready h sg) /\
  (gang_job_pipelined_sub h sg = true <-> gang_cond session_pipelined h (sg_job sg) /\ sub_groups_cond session_pipelined h sg).
Proof. exact (gang_ready_sub_spec h sg). Qed.
Print Assumptions C01_gang_ready_sub_spec.

Theorem C01_gang_ready_sub_sound h sg : job_inv h (sg_job sg) -> gang_job_ready_sub h sg = true ->
  gang_cond session_ready h (sg_job sg) /\
  forall g m, sg_min_subs sg !! g = Some m -> m <> 0 ->
    m <= subs_with sg g (fun sj => sj_min sj <=? count_tasks session_ready (tasks_in h (sj_tasks sj))).
Proof. exact (gang_ready_sub_sound h sg). Qed.
Print Assumptions C01_gang_ready_sub_sound.

Example C01_ex_sg_incomplete :
  let '(h, sg) := ex_sg Pending in
  gang_job_ready h (sg_job sg) = true /\ gang_job_ready_sub h sg = false /\
  subs_with sg 1 (sub_ready h) = 1 /\ gang_job_valid_sub h sg = 0.
Proof. exact ex_sg_incomplete. Qed.
Print Assumptions C01_ex_sg_incomplete.

Example C01_ex_sg_complete :
  let '(h, sg) := ex_sg Allocated in
  gang_job_ready_sub h sg = true /\ subs_with sg 1 (sub_ready h) = 2.
Proof. exact ex_sg_complete. Qed.
Print Assumptions C01_ex_sg_complete.

Example C01_ex_sg_pipelined :
  let '(h, sg) := ex_sg Pipelined in
  gang_job_ready_sub h sg = false /\ gang_job_pipelined_sub h sg = true.
Proof. exact ex_sg_pipelined. Qed.
Print Assumptions C01_ex_sg_pipelined.

(* ---------- extension: preempt / reclaim ---------- *)

(* 7. a history over the Statement / Session operations WITHOUT Statement.Allocate, Session.Allocate and
   RecoverOperations (what preempt and reclaim are made of: Pipeline, Evict, Merge, Commit, Discard),
   started with no Allocate operation in any statement, adds nothing to the bind log *)
Theorem C01_evict_ops_no_bind eps (SS : positive -> Prop) ops s :
  Forall (evict_alphabet SS) ops -> no_alloc_ops SS s ->
  binds (StmtModel.run eps s ops) = binds s /\ no_alloc_ops SS (StmtModel.run eps s ops).
Proof. exact (evict_ops_no_bind eps SS ops s). Qed.
Print Assumptions C01_evict_ops_no_bind.

(* ---------- audit round ---------- *)

(* 8. (audit W1) the gang theorem for choice lists of the one-allocate SHAPE [kept_free]: no job is
   attempted again after an attempt that the MODEL decides not to commit (allocate.go 305-356 re-pushes a
   job only after Commit); backfill placements anywhere.  [kept_free] is still a hypothesis about the
   run: it recurses through [step] and branches on the model's [decide] in every intermediate world
   (the same choice list can have the shape on one cluster and not on another).  What it replaces is
   the state invariant [guarded]; what it asks for is the closed-loop behaviour of allocate's queue
   loop, which is NOT modelled here: that real single-allocate runs have the shape is checked per
   real trace by law 104.  Only [C01_gang_ok_attempt_once] below has a purely syntactic hypothesis. *)
Theorem C01_kept_free_guarded eps ops w K :
  winv w -> kinv (w_sess w) K -> kept_free eps w K ops -> guarded eps w ops.
Proof. exact (kept_free_guarded eps ops w K). Qed.
Print Assumptions C01_kept_free_guarded.

Theorem C01_gang_ok_one_allocate eps w ops :
  ledger_inv (w_sess w) -> heap_members (w_sess w) ->
  refuse_bind (w_sess w) = ∅ -> stmts (w_sess w) = ∅ -> no_tentative (w_sess w) ->
  kept_free eps w ∅ ops ->
  binds_ok (w_sess w) (w_sess (CycleModel.run eps w ops)).
Proof. exact (gang_ok_one_allocate eps w ops). Qed.
Print Assumptions C01_gang_ok_one_allocate.

(* purely syntactic hypothesis: every job attempted at most once *)
Theorem C01_gang_ok_attempt_once eps w ops :
  ledger_inv (w_sess w) -> heap_members (w_sess w) ->
  refuse_bind (w_sess w) = ∅ -> stmts (w_sess w) = ∅ -> no_tentative (w_sess w) ->
  NoDup (attempt_jobs ops) -> static_non_be (w_sess w) ops ->
  binds_ok (w_sess w) (w_sess (CycleModel.run eps w ops)).
Proof. exact (gang_ok_attempt_once eps w ops). Qed.
Print Assumptions C01_gang_ok_attempt_once.

Theorem C01_kept_freeb_sound eps ops w K : kept_freeb eps w K ops = true -> kept_free eps w K ops.
Proof. exact (kept_freeb_sound eps ops w K). Qed.
Print Assumptions C01_kept_freeb_sound.

(* 9. (audit W7) at bind time: the binds a step sends are complete gangs in the session right after it *)
Theorem C01_bind_time_gang_ok eps w ops1 o ops2 :
  gang_inv (w_sess w) -> refuse_bind (w_sess w) = ∅ -> stmts (w_sess w) = ∅ ->
  guarded eps w (ops1 ++ o :: ops2) ->
  let w1 := CycleModel.run eps w ops1 in
  let w2 := (CycleModel.step eps w1 o).1 in
  exists nb, binds (w_sess w2) = nb ++ binds (w_sess w1) /\ forall b, b ∈ nb -> bound_ok (w_sess w2) b.1.
Proof. exact (bind_time_gang_ok eps w ops1 o ops2). Qed.
Print Assumptions C01_bind_time_gang_ok.

(* 10. (audit W3) allocate / backfill choices followed, in the same session, by any preempt / reclaim
   history on fresh statements: no further bind, even with kept statements left by allocate *)
Theorem C01_alloc_then_evict_no_new_bind eps w cops eops :
  gang_inv (w_sess w) -> refuse_bind (w_sess w) = ∅ -> stmts (w_sess w) = ∅ ->
  guarded eps w cops ->
  let w' := CycleModel.run eps w cops in
  Forall (evict_alphabet (fresh_ids w')) eops ->
  binds (StmtModel.run eps (w_sess w') eops) = binds (w_sess w') /\
  binds_ok (w_sess w) (w_sess w').
Proof. exact (alloc_then_evict_no_new_bind eps w cops eops). Qed.
Print Assumptions C01_alloc_then_evict_no_new_bind.

(* 11. (audit W4) consecutive cycles as a history: every cycle a choice list of the one-allocate shape,
   started from the session fed back by the previous one; every bind of every cycle is a complete gang *)
Theorem C01_cycles_gang_ok eps cs w :
  gang_inv (w_sess w) -> refuse_bind (w_sess w) = ∅ -> stmts (w_sess w) = ∅ -> no_tentative (w_sess w) ->
  cycles_shape eps w cs -> cycles_binds_ok eps w cs.
Proof. exact (cycles_gang_ok eps cs w). Qed.
Print Assumptions C01_cycles_gang_ok.

Theorem C01_next_sess_gang_inv s : gang_inv s -> gang_inv (next_sess s).
Proof. exact (next_sess_gang_inv s). Qed.
Print Assumptions C01_next_sess_gang_inv.

(* 12. (audit W5) the bind-fault boundary: with a refused AddBindTask the theorem is false *)
Theorem C01_bind_fault_refuted :
  exists eps w ops,
    gang_inv (w_sess w) /\ stmts (w_sess w) = ∅ /\ no_tentative (w_sess w) /\ kept_free eps w ∅ ops /\
    refuse_bind (w_sess w) <> ∅ /\
    let s' := w_sess (CycleModel.run eps w ops) in
    exists b j, b ∈ binds s' /\ (exists t, heap s' !! b.1 = Some t /\ jobs s' !! t_job t = Some j) /\ ~ gang_ok (heap s') j.
Proof. exact bind_fault_refuted. Qed.
Print Assumptions C01_bind_fault_refuted.

(* 13. (audit W6) what the executable laws mean *)
Theorem C01_law_gang_sound c d bound : CycleLaws.law_gang c d bound = true ->
  (forall j, In j (cc_jobs c) ->
     (exists t, In t (CycleLaws.spec_tasks c) /\ t_job t = js_id j /\ t_id t ∈ bound) ->
     js_min j <= CycleLaws.count_tasks (CycleLaws.visible_ready d) (job_spec_tasks c j) /\
     (fold_left (fun acc kv => acc + snd kv) (js_role_min j) 0 <= js_min j ->
      forall r m, In (r, m) (js_role_min j) ->
        m <= CycleLaws.count_tasks (fun t => CycleLaws.visible_ready d t && bool_decide (t_role t = r)) (job_spec_tasks c j))) /\
  (forall t, In t (CycleLaws.spec_tasks c) -> t_id t ∈ bound -> CycleLaws.final_status d t = Binding).
Proof. exact (law_gang_sound c d bound). Qed.
Print Assumptions C01_law_gang_sound.

Theorem C01_law_gang_sub_sound jobs ts bound : law_gang_sub jobs ts bound = true ->
  (forall j, In j jobs ->
     let tj := job_tasks jobs ts j in
     (exists t, In t tj /\ In (mt_id t) bound) ->
     mj_min j <= mcount mvisible tj /\ role_clause_P j tj /\ sub_clause_P j tj) /\
  (forall t, In t (map (norm_task jobs) ts) -> In (mt_id t) bound -> mt_final t = Binding).
Proof. exact (law_gang_sub_sound jobs ts bound). Qed.
Print Assumptions C01_law_gang_sub_sound.

(* richer non-vacuity: two gangs, a commit followed by a re-attempt of the same job, a backfill of an
   empty-request pod; the headline theorem instantiated through ledger_okb_sound_b *)
Example C01_ex2_theorem_applies :
  let c := ex2_case ex2_cops in
  binds_ok (w_sess (world_of c)) (w_sess (CycleModel.run (cc_eps c) (world_of c) (cc_cops c))) /\
  length (binds_of c) = 5%nat.
Proof. exact ex2_theorem_applies. Qed.
Print Assumptions C01_ex2_theorem_applies.

Example C01_f10_not_kept_free : kept_freeb eps0 f10_world ∅ f10_cops = false.
Proof. exact f10_not_kept_free. Qed.
Print Assumptions C01_f10_not_kept_free.
