From V Require Import C10.Model.
