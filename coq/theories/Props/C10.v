(* Property C10 — admitted queue changes keep the hierarchy a bounded,
   resource-consistent tree.  Property theorems only; each is closed by [exact]
   of a lemma proved in C10/Lemmas.v and followed by its assumptions.

   The model (C10/Model.v) is the webhook of pkg/webhooks/admission/queues/validate
   AFTER the three fix commits recorded in docs/notes/C10.md. *)
From stdpp Require Import gmap.
From Coq Require Import ZArith.
From V Require Import Base.Res C10.Model C10.Laws C10.Lemmas.
Open Scope Z_scope.

(* --- main theorem: for every initial queue set satisfying the invariant and EVERY history of
   create / update (incl. re-parenting and resource edits) / delete requests and status updates,
   the queue set produced by applying the admitted ones still satisfies it:
     ShapeInv     root exists and has no parent; every other queue reaches root by parent links in
                  at most MaxQueueDepth links (hence: every named parent exists, no cycles);
     PerQueueInv  all amounts >= 0, guarantee <= deserved (deserved set wherever guarantee is),
                  deserved <= capability wherever capability is set;
     SumInv       for every parent other than root and every dimension the scheduler's Resource
                  keeps: sum of the children's guarantee <= parent's guarantee, same for deserved
                  (an unset amount counts as 0);
     CapInv       a positive capability of a queue is <= the capability of the nearest proper
                  ancestor below root that sets that dimension (a positive amount), for the
                  dimensions the scheduler's Resource keeps (like SumInv: a name api.NewResource
                  drops is bounded by neither clause).
   Hypothesis of the statement itself: every request is validated against the queue set produced
   by the previously admitted ones (serialised admission, lister up to date) — see
   C10_concurrent_*_refuted below.
   TermInv (fifth conjunct of TreeInv): a terminating queue (DELETE admitted, finalizer pending) has no
   children — a DELETE is admitted only for a queue without children and (fourth fix) a terminating
   queue is refused as a new parent — so the removal of its finalizer, whenever it comes, keeps the tree. --- *)
Theorem C10_admitted_history_preserves_tree : forall c rs Q0,
  1 <= max_depth c -> TreeInv c Q0 -> TreeInv c (run_history c Q0 rs).
Proof. exact tree_history. Qed.
Print Assumptions C10_admitted_history_preserves_tree.

(* queue status (allocated pods; state Open / Closed / Closing / Unknown) is no part of any clause:
   every status update keeps the invariant, e.g. a closed child still counts in its parent's sums *)
Theorem C10_status_update_keeps_tree : forall c Q n a st,
  1 <= max_depth c -> TreeInv c Q -> TreeInv c (apply_req Q (EnvStatus n a st)).
Proof. exact tree_status_update. Qed.
Print Assumptions C10_status_update_keeps_tree.

(* the record of the fourth defect: the validation as it was before the fix admits a CREATE under a
   terminating queue; once the finalizer is removed the set is not a tree and the capacity plugin refuses it *)
Theorem C10_terminating_parent_dangling_refuted :
  exists c Q n s p ps, TreeInv c Q /\ 1 <= max_depth c /\ Q !! p = Some ps /\ qterm ps = true /\
    qparent s = Some p /\ validate_hier_preterm c Q n s = VAllowed /\
    ~ ShapeInv c (delete p (<[n := s]> Q)) /\ capacity_ready (delete p (<[n := s]> Q)) = false.
Proof. exact terminating_parent_dangling_refuted. Qed.
Print Assumptions C10_terminating_parent_dangling_refuted.

(* the shape part alone *)
Theorem C10_shape_history : forall c rs Q0,
  1 <= max_depth c -> TermInv Q0 -> ShapeInv c Q0 -> ShapeInv c (run_history c Q0 rs).
Proof. exact shape_history. Qed.
Print Assumptions C10_shape_history.

(* consequences of ShapeInv: no queue is its own proper ancestor, and every named parent exists.
   The second is the one condition on which the capacity plugin's hierarchy build
   (capacity.go buildHierarchicalQueueAttrs / updateAncestors) really aborts the session: its cycle
   test is dead for a cycle detached from root (queueOpts is consulted before recursing), so
   C10_capacity_plugin_accepts below is C10_parent_exists restated on the model [capacity_ready]
   of that abort condition — the real plugin is run on every final queue set by the harness. *)
Theorem C10_no_cycle : forall c Q n s,
  ShapeInv c Q -> Q !! n = Some s -> n <> root -> ~ anc Q n n.
Proof. exact shape_acyclic. Qed.
Print Assumptions C10_no_cycle.

Theorem C10_parent_exists : forall c Q n s,
  ShapeInv c Q -> Q !! n = Some s -> n <> root ->
  is_top (qparent s) = true \/ exists p ps, qparent s = Some p /\ p <> root /\ Q !! p = Some ps.
Proof. exact shape_parent_exists. Qed.
Print Assumptions C10_parent_exists.

Theorem C10_capacity_plugin_accepts : forall c Q, ShapeInv c Q -> capacity_ready Q = true.
Proof. exact shape_capacity_ready. Qed.
Print Assumptions C10_capacity_plugin_accepts.

(* guarantee <= deserved <= capability within a queue, in the form the code enforces *)
Theorem C10_queue_order : forall s d, QueueOk s ->
  amount (qguar s) d <= amount (qdes s) d /\
  (is_Some (qcap s !! d) -> amount (qdes s) d <= amount (qcap s) d).
Proof. exact QueueOk_order. Qed.
Print Assumptions C10_queue_order.

(* --- capability against the nearest ancestor that sets the dimension: preserved by every
   admitted request, re-parenting of whole subtrees included (second fix) --- *)
Theorem C10_capability_step : forall c Q r,
  1 <= max_depth c -> TermInv Q -> ShapeInv c Q -> CapInv Q -> CapInv (apply_if_admitted c Q r).
Proof. exact cap_step. Qed.
Print Assumptions C10_capability_step.

(* --- deletion --- *)
Theorem C10_delete_guard : forall c Q n,
  verdict_of c Q (Delete n) = VAllowed ->
  n <> root /\ n <> default_q /\
  exists s, Q !! n = Some s /\ (alloc_check c = true -> qalloc s = 0) /\
            forall m sm, Q !! m = Some sm -> qparent sm <> Some n.
Proof. exact delete_guard. Qed.
Print Assumptions C10_delete_guard.

(* the deletion clause "a queue that has allocated pods is not deleted" is FALSE on the current code
   in the default configuration (EnableQueueAllocatedPodsCheck = false): a queue whose status shows
   3 allocated pods is deleted (known finding C10-delete-allocated-pods-flag-off; law 107) *)
Theorem C10_delete_allocated_without_flag_refuted :
  exists c Q n s, TreeInv c Q /\ alloc_check c = false /\ Q !! n = Some s /\ qalloc s <> 0 /\
                  verdict_of c Q (Delete n) = VAllowed /\ (apply_if_admitted c Q (Delete n)) !! n = None.
Proof. exact delete_allocated_without_flag_refuted. Qed.
Print Assumptions C10_delete_allocated_without_flag_refuted.

(* the executable guard of law 105 means the clause of C10_delete_guard, and accepts every DELETE
   the model admits *)
Theorem C10_delete_guard_law_sound : forall c Q n,
  delete_guardb c Q (Delete n) = true ->
  n <> root /\ n <> default_q /\
  exists s, Q !! n = Some s /\ (alloc_check c = true -> qalloc s = 0) /\
            forall m sm, Q !! m = Some sm -> qparent sm <> Some n.
Proof. exact delete_guardb_sound. Qed.
Print Assumptions C10_delete_guard_law_sound.

Theorem C10_delete_guard_law_complete : forall c Q n,
  verdict_of c Q (Delete n) = VAllowed -> delete_guardb c Q (Delete n) = true.
Proof. exact delete_guardb_complete. Qed.
Print Assumptions C10_delete_guard_law_complete.

(* DELETE of a queue held by a finalizer (the object lingers as terminating) is validated like DELETE;
   laws 105 and 107 judge it too; law 107's guard means "no allocated pods", and holds with the flag on *)
Theorem C10_delete_fin_guard : forall c Q n,
  verdict_of c Q (DeleteFin n) = VAllowed ->
  n <> root /\ n <> default_q /\
  exists s, Q !! n = Some s /\ (alloc_check c = true -> qalloc s = 0) /\
            forall m sm, Q !! m = Some sm -> qparent sm <> Some n.
Proof. exact delete_fin_guard. Qed.
Print Assumptions C10_delete_fin_guard.

Theorem C10_delete_fin_guard_law_sound : forall c Q n,
  delete_guardb c Q (DeleteFin n) = true ->
  n <> root /\ n <> default_q /\
  exists s, Q !! n = Some s /\ (alloc_check c = true -> qalloc s = 0) /\
            forall m sm, Q !! m = Some sm -> qparent sm <> Some n.
Proof. exact delete_fin_guardb_sound. Qed.
Print Assumptions C10_delete_fin_guard_law_sound.

Theorem C10_delete_alloc_law_sound : forall Q n s,
  (delete_allocb Q (Delete n) = true \/ delete_allocb Q (DeleteFin n) = true) -> Q !! n = Some s -> qalloc s = 0.
Proof. exact delete_allocb_sound. Qed.
Print Assumptions C10_delete_alloc_law_sound.

Theorem C10_delete_alloc_law_holds_with_flag : forall c Q n,
  alloc_check c = true -> verdict_of c Q (Delete n) = VAllowed ->
  delete_allocb Q (Delete n) = true /\ delete_allocb Q (DeleteFin n) = true.
Proof. exact delete_allocb_flag_on. Qed.
Print Assumptions C10_delete_alloc_law_holds_with_flag.

Theorem C10_root_and_default_stay : forall c rs n Q0,
  n = root \/ n = default_q -> is_Some (Q0 !! n) -> is_Some (run_history c Q0 rs !! n).
Proof. exact protected_history. Qed.
Print Assumptions C10_root_and_default_stay.

(* --- the executable checkers evaluated on the implementation's results (C10/Laws.v) imply
   the predicates of the theorems --- *)
Theorem C10_checker_sound : forall c Q, tree_okb c Q = true -> TreeInv c Q.
Proof. exact tree_okb_sound. Qed.
Print Assumptions C10_checker_sound.

(* --- the root queue is carved out of clauses 7 and 8 by the code (SumInv and CapInv say "parent /
   ancestor other than root"): with explicit amounts on root, an admitted top-level queue exceeds
   root's guarantee, deserved and capability --- *)
Theorem C10_root_not_enforced_refuted :
  exists c Q n s sr d, TreeInv c Q /\ Q !! root = Some sr /\ qparent s = Some root /\
    verdict_of c Q (Create n s) = VAllowed /\
    amount (qguar sr) d < csum qguar (apply_if_admitted c Q (Create n s)) root d /\
    amount (qdes sr) d < csum qdes (apply_if_admitted c Q (Create n s)) root d /\
    0 < capd sr d /\ capd sr d < capd s d.
Proof. exact root_not_enforced_refuted. Qed.
Print Assumptions C10_root_not_enforced_refuted.

(* --- the model's "fuel exhausted" answer (where the Go recursion would not return) never occurs
   on a queue set satisfying ShapeInv --- *)
Theorem C10_no_fuel_verdict : forall c Q, ShapeInv c Q -> forall r, verdict_of c Q r <> VFuel.
Proof. exact no_fuel_verdict. Qed.
Print Assumptions C10_no_fuel_verdict.

(* --- serialised admission is a hypothesis, not a theorem: two requests validated against the SAME
   queue set (two webhook replicas, or two requests closer than the informer's propagation delay)
   are both admitted and leave a cycle / an over-subscribed parent / a dangling parent that makes the
   capacity plugin abort.  The property's quantifier ("against the queue set produced by the
   previously admitted requests") makes the same assumption. --- *)
Theorem C10_concurrent_cycle_refuted :
  exists c Q r1 r2, TreeInv c Q /\ 1 <= max_depth c /\ verdict_of c Q r1 = VAllowed /\
    verdict_of c Q r2 = VAllowed /\ ~ ShapeInv c (apply_req (apply_req Q r1) r2).
Proof. exact concurrent_cycle_refuted. Qed.
Print Assumptions C10_concurrent_cycle_refuted.

Theorem C10_concurrent_sums_refuted :
  exists c Q r1 r2, TreeInv c Q /\ 1 <= max_depth c /\ verdict_of c Q r1 = VAllowed /\
    verdict_of c Q r2 = VAllowed /\ ~ SumInv (apply_req (apply_req Q r1) r2).
Proof. exact concurrent_sums_refuted. Qed.
Print Assumptions C10_concurrent_sums_refuted.

Theorem C10_concurrent_dangling_refuted :
  exists c Q r1 r2, TreeInv c Q /\ 1 <= max_depth c /\ verdict_of c Q r1 = VAllowed /\
    verdict_of c Q r2 = VAllowed /\ ~ ShapeInv c (apply_req (apply_req Q r1) r2) /\
    capacity_ready (apply_req (apply_req Q r1) r2) = false.
Proof. exact concurrent_dangling_refuted. Qed.
Print Assumptions C10_concurrent_dangling_refuted.

(* --- the record of the defects: the validation as it was BEFORE the fixes admits a re-parenting
   that closes a cycle, one that pushes a moved subtree beyond the depth limit (F3, first fix), and
   one that puts a descendant under an ancestor of smaller capability (second fix) --- *)
Theorem C10_precap_reparent_refuted :
  exists c Q n s o, TreeInv c Q /\ 1 <= max_depth c /\ Q !! n = Some o /\
                    admit_cu_precap c Q n s (Some o) = VAllowed /\ ~ CapInv (<[n := s]> Q).
Proof. exact precap_reparent_refuted. Qed.
Print Assumptions C10_precap_reparent_refuted.

Theorem C10_prefix_cycle_refuted :
  exists c Q n s, TreeInv c Q /\ 1 <= max_depth c /\ validate_hier_prefix c Q n s = VAllowed /\
                  ~ ShapeInv c (<[n := s]> Q).
Proof. exact prefix_cycle_refuted. Qed.
Print Assumptions C10_prefix_cycle_refuted.

Theorem C10_prefix_depth_refuted :
  exists c Q n s, TreeInv c Q /\ 1 <= max_depth c /\ validate_hier_prefix c Q n s = VAllowed /\
                  ~ ShapeInv c (<[n := s]> Q).
Proof. exact prefix_depth_refuted. Qed.
Print Assumptions C10_prefix_depth_refuted.

(* --- non-vacuity: a concrete three-level hierarchy satisfies every hypothesis, and a
   history over it exercises admitted and refused requests of every kind --- *)
Example C10_hypotheses_satisfiable :
  1 <= max_depth ex_cfg /\ TreeInv ex_cfg ex_Q /\
  verdicts ex_cfg ex_Q ex_history =
  [VAllowed; VAllowed; VSiblingSum; VAllowed; VSpec; VAllowed; VAllowed; VCycle; VRootParent; VAllowed; VAllowed;
   VCapAncestor; VAllowed; VDelChildren].
Proof. split; [done|]. split; [exact ex_tree_inv|exact ex_history_verdicts]. Qed.

(* the bootstrap queue set of a fresh cluster, {root, default}, satisfies the invariant *)
Example C10_bootstrap_satisfies_invariant :
  TreeInv default_cfg (list_to_map [(root, q_ None [] [] []); (default_q, q_ (Some root) [] [] [])]) /\
  TreeInv default_cfg (list_to_map [(root, q_ None [] [] []); (default_q, q_ None [] [] [])]).
Proof. exact bootstrap_tree_inv. Qed.
