(* Property C19 — node agent over-subscription stays within bounds and evicts
   only offline pods.  Property theorems only; each is closed by [exact] of a
   lemma proved in C19/Lemmas.v, C19/EvictLemmas.v or C19/ReporterLemmas.v and followed by its
   assumptions.

   Stated input range (int64 overflow is excluded by it, and the model carries
   the two's-complement wrap explicitly so that the range is a hypothesis of
   the theorems, not of the model):
     0 <= ratio <= 100, 0 <= allocatable <= max_alloc = 2^53 (cpu in milli, memory in bytes),
     0 <= usage <= max_amount = 2^62, 0 <= guaranteed cpu request <= 2^62,
     at most 10 samples in the queue (proved of the queue, not assumed). *)
From Coq Require Import ZArith List Bool Permutation Sorted Lia.
From V Require Import C19.Model C19.Laws C19.Lemmas C19.EvictLemmas C19.Reporter C19.ReporterLaws C19.ReporterLemmas.
Import ListNotations.
Open Scope Z_scope.

(* ---- one sample (extend.go CalOverSubscriptionResources, one resource type) ---- *)
Theorem C19_sample_bounds : forall ratio alloc greq usage,
  0 <= ratio <= 100 -> 0 <= alloc <= max_alloc -> 0 <= greq <= max_amount -> 0 <= usage <= max_amount ->
  let total := alloc - greq in
  let s := calc_sample (sub64 alloc greq) usage ratio in
  0 <= s /\ s <= alloc * ratio / 100 /\ alloc * ratio / 100 <= alloc /\
  (usage <= total -> s = (total - usage) * ratio / 100 /\ s <= total - usage) /\
  (total < usage -> s = 0).
Proof. exact sample_bounds. Qed.
Print Assumptions C19_sample_bounds.

Theorem C19_sample_pair_bounds : forall ratio acpu amem greq ucpu umem,
  0 <= ratio <= 100 -> 0 <= acpu <= max_alloc -> 0 <= amem <= max_alloc ->
  0 <= greq <= max_amount -> 0 <= ucpu <= max_amount -> 0 <= umem <= max_amount ->
  let r := sample_pair ratio acpu amem greq ucpu umem in
  0 <= fst r <= acpu * ratio / 100 /\ 0 <= snd r <= amem * ratio / 100 /\
  (acpu - greq < ucpu -> fst r = 0) /\ (amem < umem -> snd r = 0) /\
  (ucpu <= acpu - greq -> fst r = (acpu - greq - ucpu) * ratio / 100) /\
  (umem <= amem -> snd r = (amem - umem) * ratio / 100).
Proof. exact sample_pair_bounds. Qed.
Print Assumptions C19_sample_pair_bounds.

(* the request of guaranteed pods is in range for every pod population of at
   most 256 pods with cpu requests in [0, 2^53] and every cpu-manager policy *)
Theorem C19_guaranteed_request_range : forall policy pods,
  Forall (fun p => 0 <= p_cpu p <= max_alloc) pods -> (length pods <= 256)%nat ->
  0 <= guaranteed_cpu_request policy pods <= max_amount.
Proof. exact guaranteed_request_range. Qed.
Print Assumptions C19_guaranteed_request_range.

(* ---- the queue keeps at most ten samples, the newest last ---- *)
Theorem C19_queue_at_most_ten : forall q r,
  (length q <= 10)%nat -> (1 <= length (enqueue q r) <= 10)%nat.
Proof. exact enqueue_length. Qed.
Print Assumptions C19_queue_at_most_ten.

Theorem C19_queue_newest_last : forall q r, exists l, enqueue q r = l ++ [r].
Proof. exact enqueue_last. Qed.
Print Assumptions C19_queue_newest_last.

(* ---- the report (computeOverSubRes): ALL histories of 1..10 samples ---- *)
Theorem C19_report_bounds : forall q lo1 hi1 lo2 hi2,
  (1 <= length q <= 10)%nat -> 0 <= lo1 -> hi1 <= max_alloc -> 0 <= lo2 -> hi2 <= max_alloc ->
  Forall (fun u => lo1 <= fst u <= hi1 /\ lo2 <= snd u <= hi2) q ->
  exists c m, compute_report q = Some (c, m) /\
    lo1 <= c <= hi1 /\ lo2 <= m <= hi2 /\
    c = fst (wsum 1 (map fst q)) / snd (wsum 1 (map fst q)) /\
    m = fst (wsum 1 (map snd q)) / snd (wsum 1 (map snd q)) /\
    snd (wsum 1 (map fst q)) = 2 ^ Z.of_nat (length q) - 1.
Proof. exact report_bounds. Qed.
Print Assumptions C19_report_bounds.

Theorem C19_report_between_min_and_max_sample : forall q,
  (1 <= length q <= 10)%nat ->
  Forall (fun u => 0 <= fst u <= max_alloc /\ 0 <= snd u <= max_alloc) q ->
  exists c m, compute_report q = Some (c, m) /\
    lmin (map fst q) <= c <= lmax (map fst q) /\ lmin (map snd q) <= m <= lmax (map snd q) /\
    0 <= c /\ 0 <= m.
Proof. exact report_between_min_max. Qed.
Print Assumptions C19_report_between_min_and_max_sample.

(* ---- switched-off resource types are reported as zero ---- *)
Theorem C19_report_zero_for_switched_off_types : forall ratio pods s node_err label annot acpu amem s' ev,
  cstep ratio pods s (OReport node_err label annot acpu amem) = (s', ReportOut (Some ev)) ->
  (has_type 1 (effective_types (c_types s) annot) = false -> fst ev = 0) /\
  (has_type 2 (effective_types (c_types s) annot) = false -> snd ev = 0).
Proof. exact report_step_masked. Qed.
Print Assumptions C19_report_zero_for_switched_off_types.

(* ---- every history of sampling / reporting / reconfiguration steps ---- *)
Theorem C19_history_reports_bounded : forall ratio pods Ac Am,
  0 <= ratio <= 100 -> 0 <= Ac <= max_alloc -> 0 <= Am <= max_alloc ->
  (forall policy psel, 0 <= guaranteed_cpu_request policy (pods_at pods psel) <= max_amount) ->
  forall ops, Forall (op_ok Ac Am) ops ->
  forall ev, In (ReportOut (Some ev)) (snd (crun ratio pods cinit ops)) ->
    0 <= fst ev <= Ac * ratio / 100 /\ 0 <= snd ev <= Am * ratio / 100 /\
    Ac * ratio / 100 <= Ac /\ Am * ratio / 100 <= Am.
Proof. exact history_reports_bounded. Qed.
Print Assumptions C19_history_reports_bounded.

(* AFTER FIX /repo 21d1eba (audit W1): every report of every history is within
   [0, ratio% of the allocatable the node has AT THAT REPORT STEP]; pods is the
   list of pod populations of the history, each sampling step names the active one *)
Theorem C19_history_reports_within_current_allocatable : forall ratio pods Ac Am,
  0 <= ratio <= 100 -> 0 <= Ac <= max_alloc -> 0 <= Am <= max_alloc ->
  (forall policy psel, 0 <= guaranteed_cpu_request policy (pods_at pods psel) <= max_amount) ->
  forall ops, Forall (op_ok Ac Am) ops ->
  Forall2 (fun o out =>
             match o, out with
             | OReport _ _ _ acpu amem, ReportOut (Some ev) =>
                 0 <= fst ev <= acpu * ratio / 100 /\ 0 <= snd ev <= amem * ratio / 100
             | _, _ => True
             end) ops (snd (crun ratio pods cinit ops)).
Proof. exact history_reports_within_current_allocatable. Qed.
Print Assumptions C19_history_reports_within_current_allocatable.

(* the cap itself: never negative, never above the computed amount, never above
   ratio% of the current allocatable, and the identity below it *)
Theorem C19_cap_by_current_allocatable : forall ratio acpu amem r,
  0 <= ratio <= 100 -> 0 <= acpu <= max_alloc -> 0 <= amem <= max_alloc -> 0 <= fst r -> 0 <= snd r ->
  let e := cap_event ratio acpu amem r in
  0 <= fst e <= fst r /\ 0 <= snd e <= snd r /\
  (0 < ratio -> fst e <= acpu * ratio / 100 /\ snd e <= amem * ratio / 100) /\
  (fst r <= acpu * ratio / 100 -> fst e = fst r) /\ (snd r <= amem * ratio / 100 -> snd e = snd r).
Proof. exact cap_event_bounds. Qed.
Print Assumptions C19_cap_by_current_allocatable.

(* ---- eviction under pressure: one event, all pod populations, all failure patterns ---- *)
Theorem C19_evict_only_offline_noncritical : forall pods fl e c,
  In c (h_calls (snd (handle (pods, fl) e))) ->
  exists p, In p pods /\ p_id p = fst c /\ preemptable p = true /\ critical p = false.
Proof. exact handle_only_offline. Qed.
Print Assumptions C19_evict_only_offline_noncritical.

Theorem C19_evict_at_most_one_success_per_event : forall pods fl e,
  let cs := h_calls (snd (handle (pods, fl) e)) in
  (length (filter (fun c => snd c) cs) <= 1)%nat /\
  (forall pre c post, cs = pre ++ c :: post -> snd c = true -> post = []).
Proof. exact handle_at_most_one. Qed.
Print Assumptions C19_evict_at_most_one_success_per_event.

Theorem C19_evict_largest_request_first : forall pods fl e, processed e = true ->
  let o := snd (handle (pods, fl) e) in
  exists tried rest,
    map p_id tried = map fst (h_calls o) /\
    StronglySorted (fun a b => req (e_res e) b <= req (e_res e) a) (tried ++ rest) /\
    Permutation (tried ++ rest) (filter eligible pods) /\
    (Forall (fun c => snd c = false) (h_calls o) -> rest = []).
Proof. exact handle_largest_first. Qed.
Print Assumptions C19_evict_largest_request_first.

Theorem C19_evict_everybody_else_stays : forall pods fl e p,
  NoDup (map p_id pods) -> In p pods -> ~ In p (fst (fst (handle (pods, fl) e))) ->
  preemptable p = true /\ critical p = false /\ In (p_id p, true) (h_calls (snd (handle (pods, fl) e))).
Proof. exact handle_keeps_others. Qed.
Print Assumptions C19_evict_everybody_else_stays.

(* ---- every sequence of pressure events ---- *)
Theorem C19_pressure_history : forall evs pods0 pods fl,
  incl pods pods0 -> NoDup (map p_id pods) ->
  Forall (fun oa : hout * list Z =>
            (forall c, In c (h_calls (fst oa)) ->
               exists p, In p pods0 /\ p_id p = fst c /\ preemptable p = true /\ critical p = false) /\
            (length (filter (fun c => snd c) (h_calls (fst oa))) <= 1)%nat /\
            (forall pre c post, h_calls (fst oa) = pre ++ c :: post -> snd c = true -> post = []))
         (snd (hrun (pods, fl) evs)) /\
  incl (fst (fst (hrun (pods, fl) evs))) pods /\
  (forall p, In p pods -> preemptable p = false \/ critical p = true ->
             In p (fst (fst (hrun (pods, fl) evs)))).
Proof. exact hrun_ok. Qed.
Print Assumptions C19_pressure_history.

(* ---- turning over-subscription off (Cleanup / EvictPods): the loop ends
   (never ClFuel), only offline non-critical pods reach the client, and every
   online or critical pod is still there ---- *)
Theorem C19_cleanup_terminates_and_evicts_only_offline : forall ne pods fl,
  NoDup (map p_id pods) ->
  exists err rounds passes s,
    cleanup ne (pods, fl) = ClDone err rounds passes s /\
    (forall c, In c (flat_passes passes) ->
       exists p, In p pods /\ p_id p = fst c /\ preemptable p = true /\ critical p = false) /\
    incl (fst s) pods /\
    (forall p, In p pods -> preemptable p = false \/ critical p = true -> In p (fst s)) /\
    (* largest request first in every pass (audit W3): the pods behind the calls
       of a cpu pass are sorted by descending cpu request, those of a memory pass
       by descending memory request; at most one success per pass, nothing after it *)
    Forall (fun p => pass_sorted 1 pods (fst p) /\ pass_sorted 2 pods (snd p)) passes.
Proof. exact cleanup_ok. Qed.
Print Assumptions C19_cleanup_terminates_and_evicts_only_offline.

(* SECOND AUDIT N1: no larger eligible pod is skipped.  calls_strong res pods cs
   (EvictLemmas.v) says: the pods behind the calls cs are, in order, a PREFIX
   tried of a list tried ++ rest that is a permutation of the eligible pods of
   the population pods, sorted by descending request of res, and rest = [] when
   no call succeeded.  So the first call targets a maximal-request eligible pod
   and every next call a maximal one among the pods not yet tried.
   pass_strong res pods cs = if the extend resource is in use then calls_strong
   else cs = [];  passes_strong judges every pass of every round on the
   population THAT pass listed (the previous one minus the pods whose eviction
   succeeded, remove_succ). *)
Theorem C19_cleanup_no_larger_pod_skipped : forall ne pods fl,
  match cleanup ne (pods, fl) with
  | ClDone _ _ passes s => passes_strong pods passes /\ fst s = pods_after pods passes
  | ClFuel => True
  end.
Proof. exact cleanup_strong. Qed.
Print Assumptions C19_cleanup_no_larger_pod_skipped.

(* every event of every sequence of pressure events: the output at its position is
   the handler's answer on the state reached by the earlier events, and its calls
   are strong for the population the event sees *)
Theorem C19_pressure_history_no_larger_pod_skipped : forall evs1 e evs2 pods fl,
  processed e = true ->
  let s1 := fst (hrun (pods, fl) evs1) in
  exists o ids, nth_error (snd (hrun (pods, fl) (evs1 ++ e :: evs2))) (length evs1) = Some (o, ids) /\
                o = snd (handle s1 e) /\ calls_strong (e_res e) (fst s1) (h_calls o).
Proof. exact hrun_strong. Qed.
Print Assumptions C19_pressure_history_no_larger_pod_skipped.

(* weaker corollary kept from the first audit: the calls made along a sequence are in descending order *)
Theorem C19_pressure_history_largest_first : forall evs pods0 pods fl, incl pods pods0 ->
  Forall2 (fun e (oa : hout * list Z) =>
             exists tried, map p_id tried = map fst (h_calls (fst oa)) /\
                           StronglySorted (fun a b => req (e_res e) b <= req (e_res e) a) tried /\
                           incl tried pods0)
          evs (snd (hrun (pods, fl) evs)).
Proof. exact hrun_sorted. Qed.
Print Assumptions C19_pressure_history_largest_first.

(* with unique pod names THE pod of a call's name is offline and non-critical (audit W8) *)
Theorem C19_evict_only_offline_noncritical_unique : forall pods fl e c,
  NoDup (map p_id pods) -> In c (h_calls (snd (handle (pods, fl) e))) ->
  forall p, In p pods -> p_id p = fst c -> preemptable p = true /\ critical p = false.
Proof. exact handle_only_offline_unique. Qed.
Print Assumptions C19_evict_only_offline_noncritical_unique.

(* ---- the sort used for the victims: a sorted permutation of the offline pods ---- *)
Theorem C19_victims_sorted_permutation : forall res pods,
  Permutation (victims res pods) (filter preemptable pods) /\
  StronglySorted (fun a b => req res b <= req res a) (victims res pods).
Proof. exact (fun res pods => conj (victims_perm res pods) (victims_sorted res pods)). Qed.
Print Assumptions C19_victims_sorted_permutation.

(* ---- Prop-level meaning of the executable laws (soundness lemmas; law_report,
   law_history and the completeness direction are not proved) ---- *)
Theorem C19_law_sample_accepts_model : forall ratio policy pods acpu amem ucpu umem,
  law_sample ratio policy pods acpu amem ucpu umem
    (sample_pair ratio acpu amem (guaranteed_cpu_request policy pods) ucpu umem) = true.
Proof. exact law_sample_accepts_model. Qed.
Print Assumptions C19_law_sample_accepts_model.

Theorem C19_law_sample1_sound : forall alloc total usage ratio got,
  law_sample1 alloc total usage ratio got = true ->
  0 <= got /\ got * 100 <= alloc * ratio /\ got <= alloc /\
  (usage <= total -> got = (total - usage) * ratio / 100) /\ (total < usage -> got = 0).
Proof. exact law_sample1_sound. Qed.
Print Assumptions C19_law_sample1_sound.

Theorem C19_law_evict_sound : forall res pods calls after,
  nodupb (map p_id pods) = true -> law_evict res pods calls after = true ->
  (forall c, In c calls ->
     exists p, In p pods /\ p_id p = fst c /\ preemptable p = true /\ critical p = false) /\
  (length (filter (fun c => snd c) calls) <= 1)%nat.
Proof. exact law_evict_sound. Qed.
Print Assumptions C19_law_evict_sound.

Theorem C19_law_evict_sound_order : forall res pods calls after,
  nodupb (map p_id pods) = true -> law_evict res pods calls after = true ->
  StronglySorted (fun a b => b <= a) (map (call_req res pods) calls) /\
  (forall pre c post, calls = pre ++ c :: post -> snd c = true -> post = []) /\
  after = map p_id (filter (fun p => negb (zmem (p_id p) (succeeded calls))) pods).
Proof. exact law_evict_sound_order. Qed.
Print Assumptions C19_law_evict_sound_order.

Theorem C19_law_cleanup_sound : forall pods passes after,
  nodupb (map p_id pods) = true -> law_cleanup pods passes after = true ->
  forall c, In c (flat_passes passes) ->
    exists p, In p pods /\ p_id p = fst c /\ preemptable p = true /\ critical p = false.
Proof. exact law_cleanup_sound. Qed.
Print Assumptions C19_law_cleanup_sound.

Theorem C19_law_cleanup_sound_passes : forall pods passes after,
  nodupb (map p_id pods) = true -> law_cleanup pods passes after = true -> passes_ok pods passes = true.
Proof. exact law_cleanup_sound_passes. Qed.
Print Assumptions C19_law_cleanup_sound_passes.

(* what the boolean check of one pass means (passes_ok applies it to every pass on
   the population that pass listed) *)
Theorem C19_law_pass_ok_sound : forall res pods cs, pass_ok res pods cs = true ->
  (forall c, In c cs -> exists p, In p pods /\ p_id p = fst c /\ preemptable p = true /\ critical p = false) /\
  StronglySorted (fun a b => b <= a) (map (call_req res pods) cs) /\
  (forall pre c post, cs = pre ++ c :: post -> snd c = true -> post = []) /\
  (use_extend res pods = false -> cs = []) /\
  (use_extend res pods = true -> forall p, In p pods -> eligible p = true -> ~ In (p_id p) (map fst cs) ->
     succeeded cs <> [] /\ exists lastc, rev cs = lastc :: tl (rev cs) /\ req res p <= call_req res pods lastc).
Proof. exact pass_ok_sound. Qed.
Print Assumptions C19_law_pass_ok_sound.

(* the no-skip conjunct of law_evict and of pass_ok *)
Theorem C19_law_no_skip_sound : forall res pods calls p,
  no_skip res pods calls = true -> In p pods -> eligible p = true -> ~ In (p_id p) (map fst calls) ->
  succeeded calls <> [] /\
  exists lastc, rev calls = lastc :: tl (rev calls) /\ req res p <= call_req res pods lastc.
Proof. exact no_skip_sound. Qed.
Print Assumptions C19_law_no_skip_sound.

Theorem C19_law_event_current_sound : forall ratio acpu amem ev,
  0 <= ratio <= 100 -> 0 <= acpu <= max_alloc -> 0 <= amem <= max_alloc ->
  law_event_current ratio acpu amem ev = true ->
  fst ev <= acpu * ratio / 100 /\ snd ev <= amem * ratio / 100.
Proof. exact law_event_current_sound. Qed.
Print Assumptions C19_law_event_current_sound.

(* ==== the value ON THE NODE OBJECT (reporter, Cleanup, whole pipeline) ====
   The reporter writes the event unrounded into the extended resources
   kubernetes.io/batch-cpu / batch-memory of Status.Allocatable and
   Status.Capacity (one optional integer per resource in the model). *)

(* what UpdateOverSubscription leaves on the node reads back as exactly the event *)
Theorem C19_node_write_is_exact : forall n ev, cur_of (write_ext n ev) = ev.
Proof. exact write_ext_cur. Qed.
Print Assumptions C19_node_write_is_exact.

(* ALL histories of sampling / report / reconfiguration / restart / administrator
   steps, every prefix: the amounts on the node are absent or within
   [0, Rmax% of the largest allocatable], Rmax the largest ratio used *)
Theorem C19_node_bounded_after_every_prefix : forall pods Rmax Ac Am,
  0 <= Rmax <= 100 -> 0 <= Ac <= max_alloc -> 0 <= Am <= max_alloc ->
  (forall policy psel, 0 <= guaranteed_cpu_request policy (pods_at pods psel) <= max_amount) ->
  forall ratio n ops,
  0 <= ratio <= Rmax -> 0 <= n_acpu n <= Ac -> 0 <= n_amem n <= Am ->
  node_bounded Rmax Ac Am n -> Forall (pop_ok Rmax Ac Am) ops ->
  Forall (fun on : pout * node => node_bounded Rmax Ac Am (snd on)) (snd (prun pods (pinit ratio n) ops)) /\
  pinv Rmax Ac Am (fst (prun pods (pinit ratio n) ops)).
Proof. exact prun_node_bounded. Qed.
Print Assumptions C19_node_bounded_after_every_prefix.

(* the invariant is kept by every single step, so the per-step theorems below
   apply after any prefix *)
Theorem C19_pipeline_invariant_step : forall pods Rmax Ac Am,
  0 <= Rmax <= 100 -> 0 <= Ac <= max_alloc -> 0 <= Am <= max_alloc ->
  (forall policy psel, 0 <= guaranteed_cpu_request policy (pods_at pods psel) <= max_amount) ->
  forall s o, pinv Rmax Ac Am s -> pop_ok Rmax Ac Am o -> pinv Rmax Ac Am (fst (pstep pods s o)).
Proof. exact pstep_inv. Qed.
Print Assumptions C19_pipeline_invariant_step.

(* every emitted event is within [0, largest sample in the queue] *)
Theorem C19_event_at_most_largest_recent_sample : forall pods Rmax Ac Am,
  0 <= Rmax <= 100 -> 0 <= Ac <= max_alloc -> 0 <= Am <= max_alloc ->
  forall s fail ev, pinv Rmax Ac Am s -> o_ev (snd (pstep pods s (PReport fail))) = Some ev ->
  0 <= fst ev <= lmax (map fst (c_queue (ps_c s))) /\ 0 <= snd ev <= lmax (map snd (c_queue (ps_c s))).
Proof. exact pstep_event_le_max_sample. Qed.
Print Assumptions C19_event_at_most_largest_recent_sample.

(* AFTER FIX /repo 21d1eba (audit W1): in every reachable pipeline state every
   emitted event is within [0, ratio% of the node's CURRENT allocatable] *)
Theorem C19_event_within_current_allocatable : forall pods Rmax Ac Am,
  0 <= Rmax <= 100 -> 0 <= Ac <= max_alloc -> 0 <= Am <= max_alloc ->
  (forall policy psel, 0 <= guaranteed_cpu_request policy (pods_at pods psel) <= max_amount) ->
  forall s fail ev, pinv Rmax Ac Am s -> o_ev (snd (pstep pods s (PReport fail))) = Some ev ->
  0 <= fst ev <= n_acpu (ps_n s) * ps_ratio s / 100 /\ 0 <= snd ev <= n_amem (ps_n s) * ps_ratio s / 100.
Proof. exact pstep_event_current_allocatable. Qed.
Print Assumptions C19_event_within_current_allocatable.

(* a report handled (active handler, over-subscription node, no API failure):
   the node now shows exactly the event, or -- never on a forced re-sync -- it
   was left alone because the event is within 10% of what it shows; then the
   node shows at most 10/9 of the event *)
Theorem C19_node_after_handled_report : forall pods Rmax Ac Am,
  0 <= Rmax <= 100 -> 0 <= Ac <= max_alloc -> 0 <= Am <= max_alloc ->
  (forall policy psel, 0 <= guaranteed_cpu_request policy (pods_at pods psel) <= max_amount) ->
  forall s, pinv Rmax Ac Am s ->
  o_handled (snd (pstep pods s (PReport 0))) = true -> label_on (n_label (ps_n s)) = true ->
  let s' := fst (pstep pods s (PReport 0)) in
  exists ev, o_ev (snd (pstep pods s (PReport 0))) = Some ev /\
    0 <= fst ev <= NBc Rmax Ac /\ 0 <= snd ev <= NBm Rmax Am /\
    (cur_of (ps_n s') = ev \/
     (ps_n s' = ps_n s /\ (r_times (ps_r s) + 1) mod re_sync_period <> 0 /\
      close1 (fst (cur_of (ps_n s))) (fst ev) = true /\ close1 (snd (cur_of (ps_n s))) (snd ev) = true /\
      9 * fst (cur_of (ps_n s')) <= 10 * fst ev /\ 9 * snd (cur_of (ps_n s')) <= 10 * snd ev)).
Proof. exact pstep_report_close. Qed.
Print Assumptions C19_node_after_handled_report.

(* SECOND AUDIT N2: after a handled report the node shows at most 10/9 of ratio% of
   the node's CURRENT allocatable *)
Theorem C19_node_within_current_allocatable_after_report : forall pods Rmax Ac Am,
  0 <= Rmax <= 100 -> 0 <= Ac <= max_alloc -> 0 <= Am <= max_alloc ->
  (forall policy psel, 0 <= guaranteed_cpu_request policy (pods_at pods psel) <= max_amount) ->
  forall s, pinv Rmax Ac Am s ->
  o_handled (snd (pstep pods s (PReport 0))) = true -> label_on (n_label (ps_n s)) = true ->
  let n' := ps_n (fst (pstep pods s (PReport 0))) in
  9 * fst (cur_of n') * 100 <= 10 * (n_acpu (ps_n s) * ps_ratio s) /\
  9 * snd (cur_of n') * 100 <= 10 * (n_amem (ps_n s) * ps_ratio s).
Proof. exact pstep_report_node_current. Qed.
Print Assumptions C19_node_within_current_allocatable_after_report.

(* a report on a node whose label is not "true"/"1" is ignored altogether (no
   counter, no write): nothing bounds the staleness then either *)
Theorem C19_report_ignored_when_label_off : forall r n ev fail,
  fail <> 2 -> label_on (n_label n) = false -> rhandle r n ev fail = (r, n, 0).
Proof. exact rhandle_label_off. Qed.
Print Assumptions C19_report_ignored_when_label_off.

(* the step whose counter r_times reaches a multiple of 6 is written whatever the
   threshold says.  r_times counts every report that reached the patch decision on
   an over-subscription node, INCLUDING those whose write then failed; so without
   API failures a stale amount survives at most 5 consecutive handled reports *)
Theorem C19_node_forced_resync : forall pods s,
  o_handled (snd (pstep pods s (PReport 0))) = true -> label_on (n_label (ps_n s)) = true ->
  (r_times (ps_r s) + 1) mod re_sync_period = 0 ->
  exists ev, o_ev (snd (pstep pods s (PReport 0))) = Some ev /\
             cur_of (ps_n (fst (pstep pods s (PReport 0)))) = ev.
Proof. exact pstep_report_forced. Qed.
Print Assumptions C19_node_forced_resync.

(* zero for switched-off types ON THE NODE after the next handled report (the
   threshold never keeps a positive amount against a zero event) *)
Theorem C19_node_zero_for_switched_off_types : forall pods Rmax Ac Am,
  0 <= Rmax <= 100 -> 0 <= Ac <= max_alloc -> 0 <= Am <= max_alloc ->
  (forall policy psel, 0 <= guaranteed_cpu_request policy (pods_at pods psel) <= max_amount) ->
  forall s, pinv Rmax Ac Am s ->
  o_handled (snd (pstep pods s (PReport 0))) = true -> label_on (n_label (ps_n s)) = true ->
  let ty := effective_types (c_types (ps_c s)) (n_annot (ps_n s)) in
  let n' := ps_n (fst (pstep pods s (PReport 0))) in
  (has_type 1 ty = false -> fst (cur_of n') = 0) /\ (has_type 2 ty = false -> snd (cur_of n') = 0).
Proof. exact pstep_report_switched_off. Qed.
Print Assumptions C19_node_zero_for_switched_off_types.

(* the threshold on integers: not exceeding means within 10%, which bounds the
   node by 10/9 of the event from above and 10/11 from below *)
Theorem C19_threshold_within_ten_percent : forall c e,
  0 <= c <= max_amount -> 0 <= e <= max_amount -> exceeds c e = false ->
  close1 c e = true /\ 9 * c <= 10 * e /\ 10 * e <= 11 * c.
Proof.
  exact (fun c e Hc He H => conj (exceeds_false_close c e Hc He H)
           (close1_bound c e (proj1 Hc) (exceeds_false_close c e Hc He H))).
Qed.
Print Assumptions C19_threshold_within_ten_percent.

(* steps that do not report leave the reported amounts alone; a report that
   the (inactive) handler does not get changes nothing at all *)
Theorem C19_node_untouched_by_other_steps : forall pods s o,
  match o with
  | PReport _ | PReporterCfg _ _ _ => True
  | _ => n_xcpu (ps_n (fst (pstep pods s o))) = n_xcpu (ps_n s) /\
         n_xmem (ps_n (fst (pstep pods s o))) = n_xmem (ps_n s)
  end.
Proof. exact pstep_untouched. Qed.
Print Assumptions C19_node_untouched_by_other_steps.

Theorem C19_unhandled_report_changes_nothing : forall pods s fail,
  o_handled (snd (pstep pods s (PReport fail))) = false -> fst (pstep pods s (PReport fail)) = s.
Proof. exact pstep_unhandled. Qed.
Print Assumptions C19_unhandled_report_changes_nothing.

(* the negative side (audit W2): while the handler is inactive NO sequence of
   sampling / report / type-configuration / allocatable / annotation steps changes
   what the node shows; a stale amount, also of a switched-off type, stays indefinitely *)
Theorem C19_node_stale_while_handler_inactive : forall pods ops s,
  Forall (fun o => match o with
                   | PSample _ _ _ _ _ _ | PReport _ | PTypes _ _ | PSetAlloc _ _ | PSetAnnot _ => True
                   | _ => False end) ops ->
  r_active (ps_r s) = false ->
  n_xcpu (ps_n (fst (prun pods s ops))) = n_xcpu (ps_n s) /\
  n_xmem (ps_n (fst (prun pods s ops))) = n_xmem (ps_n s).
Proof. exact prun_stale_while_inactive. Qed.
Print Assumptions C19_node_stale_while_handler_inactive.

(* over-subscription switched off in the configuration (Cleanup succeeded):
   nothing is reported any more, the node is no over-subscription node, the
   handler is inactive *)
Theorem C19_node_after_switch_off : forall r n node_enable fail r' n',
  rrefresh r n false node_enable fail = (r', n', false) ->
  cur_of n' = (0, 0) /\ label_on (n_label n') = false /\ r_active r' = false /\ r_enabled r' = false.
Proof. exact rrefresh_disable. Qed.
Print Assumptions C19_node_after_switch_off.

Theorem C19_node_after_node_label_switch_off : forall r n fail r' n',
  r_enabled r = true -> rrefresh r n true false fail = (r', n', false) ->
  cur_of n' = (0, 0) /\ label_on (n_label n') = false /\ r_active r' = false.
Proof. exact rrefresh_node_disable. Qed.
Print Assumptions C19_node_after_node_label_switch_off.

(* the literal statement "never more than ratio% of allocatable / than the
   largest recent sample" is REFUTED for the node object by the update
   threshold: ratio 60 -> node 600; restart with ratio 57 -> computed 570, the
   node keeps 600.  Reproduced on the real code (corpus/C19/reporter.jsonl),
   known finding C19-update-threshold-keeps-stale-larger-amount. *)
Theorem C19_node_strict_refuted :
  exists ops n0, let '(s, outs) := prun [] (pinit 60 n0) ops in
    n_acpu (ps_n s) = 1000 /\ ps_ratio s = 57 /\ c_queue (ps_c s) = [(570, 570)] /\
    n_xcpu (ps_n s) = Some 600 /\
    law_node_strict (ps_ratio s) 1000 1000 (c_queue (ps_c s)) (n_xcpu (ps_n s)) (n_xmem (ps_n s)) = false.
Proof. exact node_strict_refuted. Qed.
Print Assumptions C19_node_strict_refuted.

(* ---- Prop-level meaning of the laws on the node object ---- *)
Theorem C19_law_node_bounds_sound : forall rmax amaxc amaxm k xc xm,
  0 <= rmax <= 100 -> 0 <= amaxc <= rep_max -> 0 <= amaxm <= rep_max ->
  law_node_bounds rmax amaxc amaxm k xc xm = true ->
  k = true /\
  match xc with None => True | Some x => 0 <= x /\ x * 100 <= amaxc * rmax end /\
  match xm with None => True | Some x => 0 <= x /\ x * 100 <= amaxm * rmax end.
Proof. exact law_node_bounds_sound. Qed.
Print Assumptions C19_law_node_bounds_sound.

Theorem C19_law_report_step_sound : forall forced bc bm ac am ev,
  0 <= oz bc <= rep_max -> 0 <= oz bm <= rep_max -> 0 <= fst ev <= rep_max -> 0 <= snd ev <= rep_max ->
  law_report_step forced bc bm ac am ev = true ->
  (oz ac = fst ev /\ oz am = snd ev) \/
  (ac = bc /\ am = bm /\ forced = false /\ close1 (oz bc) (fst ev) = true /\ close1 (oz bm) (snd ev) = true).
Proof. exact law_report_step_sound. Qed.
Print Assumptions C19_law_report_step_sound.

Theorem C19_law_switched_off_sound : forall cfg annot ac am,
  law_switched_off cfg annot ac am = true ->
  (has_type 1 (effective_types cfg annot) = false -> oz ac = 0) /\
  (has_type 2 (effective_types cfg annot) = false -> oz am = 0).
Proof. exact law_switched_off_sound. Qed.
Print Assumptions C19_law_switched_off_sound.

Theorem C19_law_cleanup_node_sound : forall al ac am,
  law_cleanup_node al ac am = true -> label_on al = false /\ oz ac = 0 /\ oz am = 0.
Proof. exact law_cleanup_node_sound. Qed.
Print Assumptions C19_law_cleanup_node_sound.

(* ---- non-vacuity ---- *)
Definition ex_pods : list pod :=
  [ mkPod 1 4 0 None 1 500 1000 500 0 false;            (* offline *)
    mkPod 2 4 0 (Some 2000000000) 1 900 100 0 0 false;  (* offline but critical *)
    mkPod 3 0 0 None 2 2000 4096 0 0 false;             (* online, guaranteed *)
    mkPod 4 4 0 None 0 700 3000 0 0 true;               (* offline, eviction always refused *)
    mkPod 5 4 0 None 1 700 2000 0 0 false ].            (* offline *)

(* a history inside the stated range: hypotheses of C19_history_reports_bounded
   hold and a non-zero report comes out; usage above total gives a zero sample *)
Example C19_nonvacuous_history :
  let ops := [ORefresh 3 [1; 2]; OSample false 1 8000 16384 false 2 1000 4096 0;
              OSample false 1 8000 16384 false 2 9000 20000 0; OSample false 1 8000 16384 false 1 3000 0 1;
              OReport false 1 None 8000 16384; OReport false 1 (Some [1]) 8000 16384;
              OReport false 1 None 3000 16384] in   (* allocatable shrunk: capped at 60% of 3000 *)
  Forall (op_ok 8000 16384) ops /\
  (forall policy psel, 0 <= guaranteed_cpu_request policy (pods_at [ex_pods; []] psel) <= max_amount) /\
  snd (crun 60 [ex_pods; []] cinit ops) =
    [RefreshOut false; SampleOut 0 [(3000, 7372)]; SampleOut 0 [(3000, 7372); (0, 0)];
     SampleOut 1 [(3000, 7372); (0, 0); (3000, 9830)];
     ReportOut (Some (2142, 6670)); ReportOut (Some (2142, 0)); ReportOut (Some (1800, 6670))].
Proof.
  split; [|split].
  - repeat (apply Forall_cons; [cbn; unfold max_amount; try lia; auto|]); apply Forall_nil.
  - intros policy psel. apply guaranteed_request_range.
    + unfold pods_at. destruct (Z.to_nat psel) as [|[|[|k]]]; cbn;
        repeat (apply Forall_cons; [cbn; unfold max_alloc; lia|]); apply Forall_nil.
    + unfold pods_at. destruct (Z.to_nat psel) as [|[|[|k]]]; cbn; lia.
  - vm_compute. reflexivity.
Qed.

(* a pressure event where the largest eligible pod cannot be evicted, the
   critical pod is skipped without a client call and the next one succeeds *)
Example C19_nonvacuous_eviction :
  NoDup (map p_id ex_pods) /\
  processed (mkEv 1 false false false) = true /\
  handle (ex_pods, [false; true]) (mkEv 1 false false false) =
    ((filter (fun p => negb (p_id p =? 1)) ex_pods, []), mkH 0 4 [(4, false); (5, false); (1, true)]) /\
  exists calls s, cleanup (-1) (ex_pods, []) = ClDone 0 3 calls s /\ map p_id (fst s) = [2; 3; 4].
Proof.
  split; [|split; [|split]].
  - cbn. repeat constructor; cbn; intuition congruence.
  - reflexivity.
  - vm_compute. reflexivity.
  - eexists _, _. vm_compute. split; reflexivity.
Qed.

(* the pipeline invariant is satisfiable and a handled report both writes and
   skips: 600 written, then 570 computed and skipped, a switched-off type is
   zeroed at once, switching off removes the amounts *)
Example C19_nonvacuous_pipeline :
  let n0 := mkNode 1 1000 1000 None None None in
  pinv 60 1000 1000 (pinit 60 n0) /\
  map (fun on : pout * node => (o_handled (fst on), n_xcpu (snd on), n_xmem (snd on)))
      (snd (prun [] (pinit 60 n0)
             [PTypes 3 [1; 2]; PReporterCfg true true 0; PSample false false 1 0 0 0; PReport 0;
              PSample false false 1 50 50 0; PReport 0; PTypes 3 [1]; PReport 0;
              PSetAlloc 500 500; PReport 0;     (* allocatable shrunk: the event is capped at 60% of 500 *)
              PReporterCfg false true 0])) =
    [(false, None, None); (false, None, None); (false, None, None); (true, Some 600, Some 600);
     (false, Some 600, Some 600); (true, Some 600, Some 600); (false, Some 600, Some 600);
     (true, Some 580, Some 0); (false, Some 580, Some 0); (true, Some 300, Some 0); (false, None, None)].
Proof.
  split.
  - apply pinv_init; cbn; try lia. unfold node_bounded; cbn; auto.
  - vm_compute. reflexivity.
Qed.
