(* C19 — proofs about the model of the over-subscription calculator. *)
From Coq Require Import ZArith List Bool Lia.
From V Require Import C19.Model C19.Laws.
Import ListNotations.
Open Scope Z_scope.

(* ---------- int64 ---------- *)
Definition in64 (x : Z) : Prop := - two63 <= x < two63.

Lemma wrap64_small x : in64 x -> wrap64 x = x.
Proof.
  unfold in64, wrap64, two63, two64. intros H.
  rewrite Z.mod_small; lia.
Qed.

Ltac consts := unfold in64, two63, two64, max_alloc, max_amount in *.

(* ---------- one sample ---------- *)

(* extend.go 143-147 for one resource type, inside the stated range: the
   sample is the ratio% share (rounded down) of what is left unused, never
   negative, never above ratio% of allocatable, zero when usage exceeds total *)
Lemma sample_bounds ratio alloc greq usage :
  0 <= ratio <= 100 -> 0 <= alloc <= max_alloc -> 0 <= greq <= max_amount -> 0 <= usage <= max_amount ->
  let total := alloc - greq in
  let s := calc_sample (sub64 alloc greq) usage ratio in
  0 <= s /\ s <= alloc * ratio / 100 /\ alloc * ratio / 100 <= alloc /\
  (usage <= total -> s = (total - usage) * ratio / 100 /\ s <= total - usage) /\
  (total < usage -> s = 0).
Proof.
  intros Hr Ha Hg Hu total s.
  assert (Hsub : sub64 alloc greq = total).
  { unfold sub64. apply wrap64_small. consts. subst total. lia. }
  assert (Hdiv : alloc * ratio / 100 <= alloc).
  { apply Z.div_le_upper_bound; nia. }
  assert (H0 : 0 <= alloc * ratio / 100) by (apply Z.div_pos; nia).
  subst s. unfold calc_sample. rewrite Hsub.
  destruct (total >=? usage) eqn:E.
  - assert (usage <= total) by lia.
    assert (Hd : 0 <= total - usage <= alloc) by (subst total; lia).
    unfold sub64. rewrite (wrap64_small (total - usage)) by (consts; lia).
    unfold mul64. rewrite wrap64_small by (consts; nia).
    unfold quot64. rewrite Z.quot_div_nonneg by nia.
    assert (0 <= (total - usage) * ratio / 100) by (apply Z.div_pos; nia).
    assert ((total - usage) * ratio / 100 <= alloc * ratio / 100) by (apply Z.div_le_mono; nia).
    assert ((total - usage) * ratio / 100 <= total - usage) by (apply Z.div_le_upper_bound; nia).
    repeat split; try lia.
  - assert (total < usage) by lia.
    repeat split; try lia.
Qed.

(* the request of guaranteed pods is within range for every sane pod list *)
Lemma guaranteed_fold_bounds pods acc :
  Forall (fun p => 0 <= p_cpu p <= max_alloc) pods -> 0 <= acc ->
  acc <= fold_left (fun acc p => if guaranteed_online p then acc + p_cpu p else acc) pods acc
      <= acc + Z.of_nat (length pods) * max_alloc.
Proof.
  intros H; revert acc; induction H as [|p l Hp Hl IH]; intros acc Hacc.
  - simpl. lia.
  - cbn [fold_left length]. rewrite Nat2Z.inj_succ.
    destruct (guaranteed_online p).
    + specialize (IH (acc + p_cpu p) ltac:(lia)). unfold max_alloc in *. lia.
    + specialize (IH acc Hacc). unfold max_alloc in *. lia.
Qed.

Lemma guaranteed_request_range policy pods :
  Forall (fun p => 0 <= p_cpu p <= max_alloc) pods -> (length pods <= 256)%nat ->
  0 <= guaranteed_cpu_request policy pods <= max_amount.
Proof.
  intros H L. unfold guaranteed_cpu_request.
  destruct (include_guaranteed policy). { consts; lia. }
  pose proof (guaranteed_fold_bounds pods 0 H ltac:(lia)). consts. lia.
Qed.

(* both components of the sample that CalOverSubscriptionResources enqueues *)
Lemma sample_pair_bounds ratio acpu amem greq ucpu umem :
  0 <= ratio <= 100 -> 0 <= acpu <= max_alloc -> 0 <= amem <= max_alloc ->
  0 <= greq <= max_amount -> 0 <= ucpu <= max_amount -> 0 <= umem <= max_amount ->
  let r := sample_pair ratio acpu amem greq ucpu umem in
  0 <= fst r <= acpu * ratio / 100 /\ 0 <= snd r <= amem * ratio / 100 /\
  (acpu - greq < ucpu -> fst r = 0) /\ (amem < umem -> snd r = 0) /\
  (ucpu <= acpu - greq -> fst r = (acpu - greq - ucpu) * ratio / 100) /\
  (umem <= amem -> snd r = (amem - umem) * ratio / 100).
Proof.
  intros Hr Hac Ham Hg Huc Hum r. subst r. unfold sample_pair. cbn [fst snd].
  pose proof (sample_bounds ratio acpu greq ucpu Hr Hac Hg Huc) as Hc.
  pose proof (sample_bounds ratio amem 0 umem Hr Ham ltac:(consts; lia) Hum) as Hm.
  cbv zeta in Hc, Hm.
  assert (E0 : sub64 amem 0 = amem).
  { unfold sub64. rewrite Z.sub_0_r. apply wrap64_small. consts. lia. }
  rewrite E0 in Hm. rewrite Z.sub_0_r in Hm.
  destruct Hc as (c1 & c2 & c3 & c4 & c5). destruct Hm as (m1 & m2 & m3 & m4 & m5).
  repeat split; try lia.
Qed.

(* ---------- the queue ---------- *)
Lemma enqueue_length q r : (length q <= 10)%nat -> (1 <= length (enqueue q r) <= 10)%nat.
Proof.
  intros H. unfold enqueue, queue_size.
  destruct (Nat.ltb 10 (length (q ++ [r]))) eqn:E.
  - apply Nat.ltb_lt in E. rewrite app_length in E. simpl in E.
    destruct q as [|x q']; simpl in *. lia.
    rewrite app_length. simpl. lia.
  - apply Nat.ltb_ge in E. rewrite app_length in *. simpl in *. lia.
Qed.

Lemma enqueue_forall (P : Z * Z -> Prop) q r : Forall P q -> P r -> Forall P (enqueue q r).
Proof.
  intros Hq Hr. unfold enqueue.
  assert (H : Forall P (q ++ [r])) by (apply Forall_app; split; auto).
  destruct (Nat.ltb queue_size (length (q ++ [r]))); auto.
  destruct (q ++ [r]); simpl; auto. inversion H; auto.
Qed.

(* the newest sample is the last element: it gets the largest weight *)
Lemma enqueue_last q r : exists l, enqueue q r = l ++ [r].
Proof.
  unfold enqueue. destruct (Nat.ltb queue_size (length (q ++ [r]))) eqn:E.
  - destruct q as [|x q']; simpl in *.
    + unfold queue_size in E. discriminate.
    + exists q'. reflexivity.
  - exists q. reflexivity.
Qed.

(* ---------- computeOverSubRes ---------- *)
Definition wstep_pure (s : wstate) (u : Z * Z) : wstate :=
  let '(ac, am, tw, w) := s in (ac + fst u * w, am + snd u * w, tw + w, w * 2).

Lemma pow2_bounds (k : nat) : (k <= 10)%nat -> 1 <= 2 ^ Z.of_nat k <= 1024.
Proof.
  intros H. split.
  - pose proof (Z.pow_pos_nonneg 2 (Z.of_nat k)). lia.
  - change 1024 with (2 ^ 10). apply Z.pow_le_mono_r; lia.
Qed.

Lemma mul_mono_r lo c hi w : lo <= c <= hi -> 0 <= w -> lo * w <= c * w <= hi * w.
Proof. intros [H1 H2] Hw. split; apply Z.mul_le_mono_nonneg_r; auto. Qed.
Lemma mul_bound a b A B : 0 <= a <= A -> 0 <= b <= B -> 0 <= a * b <= A * B.
Proof.
  intros [? ?] [? ?]. split. apply Z.mul_nonneg_nonneg; auto. apply Z.mul_le_mono_nonneg; auto.
Qed.

Lemma wfold_inv : forall q (k : nat) ac am tw w lo1 hi1 lo2 hi2,
  0 <= lo1 -> hi1 <= max_alloc -> 0 <= lo2 -> hi2 <= max_alloc ->
  Forall (fun u => lo1 <= fst u <= hi1 /\ lo2 <= snd u <= hi2) q ->
  (k + length q <= 10)%nat -> w = 2 ^ Z.of_nat k -> tw = w - 1 ->
  lo1 * tw <= ac <= hi1 * tw -> lo2 * tw <= am <= hi2 * tw ->
  exists ac' am' tw' w',
    fold_left wstep q (ac, am, tw, w) = (ac', am', tw', w') /\
    fold_left wstep_pure q (ac, am, tw, w) = (ac', am', tw', w') /\
    w' = 2 ^ Z.of_nat (k + length q) /\ tw' = w' - 1 /\
    lo1 * tw' <= ac' <= hi1 * tw' /\ lo2 * tw' <= am' <= hi2 * tw'.
Proof.
  induction q as [|u q IH]; intros k ac am tw w lo1 hi1 lo2 hi2 Hlo1 Hhi1 Hlo2 Hhi2 HF Hk Hw Htw Hac Ham.
  - exists ac, am, tw, w. simpl. rewrite Nat.add_0_r. repeat split; auto; lia.
  - inversion HF as [|u' q' Hu HF']; subst u' q'. destruct Hu as [Hu1 Hu2].
    simpl length in Hk.
    assert (Hwb : 1 <= w <= 512).
    { subst w. split. apply (pow2_bounds k); lia.
      change 512 with (2 ^ 9). apply Z.pow_le_mono_r; lia. }
    assert (Htwb : 0 <= tw <= 511) by lia.
    cbn [fold_left]. unfold wstep at 2. unfold wstep_pure at 2.
    destruct u as [c m]. cbn [fst snd] in *.
    assert (Hw0 : 0 <= w) by lia.
    pose proof (mul_mono_r lo1 c hi1 w Hu1 Hw0) as Hcw.
    pose proof (mul_mono_r lo2 m hi2 w Hu2 Hw0) as Hmw.
    assert (Hc0 : 0 <= c * w) by (apply Z.mul_nonneg_nonneg; lia).
    assert (Hm0 : 0 <= m * w) by (apply Z.mul_nonneg_nonneg; lia).
    pose proof (mul_bound hi1 (tw + w) max_alloc 1023 ltac:(lia) ltac:(lia)) as Hh1.
    pose proof (mul_bound hi2 (tw + w) max_alloc 1023 ltac:(lia) ltac:(lia)) as Hh2.
    pose proof (mul_bound c w max_alloc 512 ltac:(lia) ltac:(lia)) as Hcw'.
    pose proof (mul_bound m w max_alloc 512 ltac:(lia) ltac:(lia)) as Hmw'.
    assert (E1 : mul64 c w = c * w) by (unfold mul64; apply wrap64_small; consts; lia).
    assert (E2 : mul64 m w = m * w) by (unfold mul64; apply wrap64_small; consts; lia).
    assert (Hac' : lo1 * (tw + w) <= ac + c * w <= hi1 * (tw + w)) by (rewrite !Z.mul_add_distr_l; lia).
    assert (Ham' : lo2 * (tw + w) <= am + m * w <= hi2 * (tw + w)) by (rewrite !Z.mul_add_distr_l; lia).
    assert (Hl1 : 0 <= lo1 * (tw + w)) by (apply Z.mul_nonneg_nonneg; lia).
    assert (Hl2 : 0 <= lo2 * (tw + w)) by (apply Z.mul_nonneg_nonneg; lia).
    assert (E3 : add64 ac (mul64 c w) = ac + c * w).
    { rewrite E1. unfold add64. apply wrap64_small. consts. lia. }
    assert (E4 : add64 am (mul64 m w) = am + m * w).
    { rewrite E2. unfold add64. apply wrap64_small. consts. lia. }
    assert (E5 : add64 tw w = tw + w) by (unfold add64; apply wrap64_small; consts; lia).
    assert (E6 : mul64 w 2 = w * 2) by (unfold mul64; apply wrap64_small; consts; lia).
    rewrite E3, E4, E5, E6.
    assert (Hw2 : w * 2 = 2 ^ Z.of_nat (S k)).
    { rewrite Nat2Z.inj_succ, Z.pow_succ_r by lia. lia. }
    destruct (IH (S k) (ac + c * w) (am + m * w) (tw + w) (w * 2) lo1 hi1 lo2 hi2) as (ac' & am' & tw' & w' & F1 & F2 & G1 & G2 & G3 & G4);
      auto; try lia.
    exists ac', am', tw', w'. repeat split; auto; try lia.
    rewrite G1. simpl length. f_equal. lia.
Qed.

(* the pure fold is the mathematical weighted sum of Laws.wsum *)
Lemma wfold_pure_wsum : forall q ac am tw w,
  fold_left wstep_pure q (ac, am, tw, w) =
  (ac + fst (wsum w (map fst q)), am + fst (wsum w (map snd q)), tw + snd (wsum w (map fst q)),
   w * 2 ^ Z.of_nat (length q)).
Proof.
  induction q as [|u q IH]; intros ac am tw w.
  - simpl. f_equal; try f_equal; try f_equal; lia.
  - cbn [fold_left]. unfold wstep_pure at 2. rewrite IH.
    cbn [map wsum length].
    replace (w * 2) with (2 * w) by lia.
    destruct (wsum (2 * w) (map fst q)) as [s1 t1] eqn:W1.
    destruct (wsum (2 * w) (map snd q)) as [s2 t2] eqn:W2.
    cbn [fst snd]. rewrite Nat2Z.inj_succ, Z.pow_succ_r by lia.
    f_equal; [f_equal; [f_equal|]|]; ring.
Qed.

Lemma wsum_weight_indep : forall (l1 l2 : list Z) w, length l1 = length l2 -> snd (wsum w l1) = snd (wsum w l2).
Proof.
  induction l1 as [|x l1 IH]; destruct l2 as [|y l2]; intros w H; try discriminate; auto.
  simpl in H. injection H as H. cbn [wsum].
  specialize (IH l2 (2 * w) H).
  destruct (wsum (2 * w) l1), (wsum (2 * w) l2). cbn [snd] in *. lia.
Qed.

(* main lemma about the report: for every history of 1..10 samples, each
   within [lo, hi] (0 <= lo, hi <= 2^53), the reported amount is the weighted
   mean with doubling weights rounded down, and lies within [lo, hi] *)
Lemma report_bounds q lo1 hi1 lo2 hi2 :
  (1 <= length q <= 10)%nat -> 0 <= lo1 -> hi1 <= max_alloc -> 0 <= lo2 -> hi2 <= max_alloc ->
  Forall (fun u => lo1 <= fst u <= hi1 /\ lo2 <= snd u <= hi2) q ->
  exists c m, compute_report q = Some (c, m) /\
    lo1 <= c <= hi1 /\ lo2 <= m <= hi2 /\
    c = fst (wsum 1 (map fst q)) / snd (wsum 1 (map fst q)) /\
    m = fst (wsum 1 (map snd q)) / snd (wsum 1 (map snd q)) /\
    snd (wsum 1 (map fst q)) = 2 ^ Z.of_nat (length q) - 1.
Proof.
  intros Hlen Hlo1 Hhi1 Hlo2 Hhi2 HF.
  destruct (wfold_inv q 0 0 0 0 1 lo1 hi1 lo2 hi2) as (ac & am & tw & w & F1 & F2 & G1 & G2 & G3 & G4);
    auto; try lia.
  pose proof (pow2_bounds (length q) ltac:(lia)) as Hp. simpl Nat.add in G1.
  assert (Hw1 : 2 <= w).
  { rewrite G1. change 2 with (2 ^ 1) at 1. apply Z.pow_le_mono_r; lia. }
  assert (Htw : 1 <= tw) by lia.
  rewrite wfold_pure_wsum in F2. injection F2 as A1 A2 A3 A4.
  exists (ac / tw), (am / tw).
  assert (Hsame : snd (wsum 1 (map snd q)) = snd (wsum 1 (map fst q))).
  { apply wsum_weight_indep. now rewrite !map_length. }
  split.
  { unfold compute_report. destruct q as [|u q']. { simpl in Hlen; lia. }
    rewrite F1. unfold quot64. rewrite !Z.quot_div_nonneg by nia. reflexivity. }
  split. { split. apply Z.div_le_lower_bound; nia. apply Z.div_le_upper_bound; nia. }
  split. { split. apply Z.div_le_lower_bound; nia. apply Z.div_le_upper_bound; nia. }
  rewrite Hsame. simpl in A1, A2, A3. subst ac am tw.
  repeat split; auto. lia.
Qed.

(* the report is at most the largest and at least the smallest recent sample *)
Lemma lmax_ge l x : In x l -> x <= lmax l.
Proof. induction l; simpl; intros H; [tauto|]. destruct H; [subst|apply IHl in H]; lia. Qed.
Lemma fold_min_le_init y l : fold_right Z.min y l <= y.
Proof. induction l; simpl; lia. Qed.
Lemma fold_min_le_in y l x : In x l -> fold_right Z.min y l <= x.
Proof. induction l; simpl; intros H; [tauto|]. destruct H; [subst|apply IHl in H]; lia. Qed.
Lemma lmin_le l x : In x l -> lmin l <= x.
Proof.
  destruct l as [|y l]; simpl; intros H; [tauto|].
  destruct H as [H|H].
  - subst. apply fold_min_le_init.
  - now apply fold_min_le_in.
Qed.
Lemma lmin_nonneg l : Forall (fun x => 0 <= x) l -> 0 <= lmin l.
Proof.
  destruct l as [|y l]; simpl; intros H; [lia|]. inversion H; subst.
  revert y H H2. induction l; intros; simpl. lia. inversion H3; subst.
  assert (0 <= fold_right Z.min y l) by (apply IHl; auto). lia.
Qed.
Lemma lmax_le_bound l b : 0 <= b -> Forall (fun x => x <= b) l -> lmax l <= b.
Proof. intros Hb H; induction H; simpl; lia. Qed.

Lemma report_between_min_max q :
  (1 <= length q <= 10)%nat ->
  Forall (fun u => 0 <= fst u <= max_alloc /\ 0 <= snd u <= max_alloc) q ->
  exists c m, compute_report q = Some (c, m) /\
    lmin (map fst q) <= c <= lmax (map fst q) /\ lmin (map snd q) <= m <= lmax (map snd q) /\
    0 <= c /\ 0 <= m.
Proof.
  intros Hlen HF.
  assert (N1 : 0 <= lmin (map fst q)).
  { apply lmin_nonneg. apply Forall_map. eapply Forall_impl; [|exact HF]. simpl; tauto. }
  assert (N2 : 0 <= lmin (map snd q)).
  { apply lmin_nonneg. apply Forall_map. eapply Forall_impl; [|exact HF]. simpl; tauto. }
  destruct (report_bounds q (lmin (map fst q)) (lmax (map fst q)) (lmin (map snd q)) (lmax (map snd q)))
    as (c & m & E & B1 & B2 & _); auto.
  - apply lmax_le_bound. unfold max_alloc; lia. apply Forall_map. eapply Forall_impl; [|exact HF]. simpl; tauto.
  - apply lmax_le_bound. unfold max_alloc; lia. apply Forall_map. eapply Forall_impl; [|exact HF]. simpl; tauto.
  - apply Forall_forall. intros u Hu. split; split.
    + apply lmin_le. now apply in_map.
    + apply lmax_ge. now apply in_map.
    + apply lmin_le. now apply in_map.
    + apply lmax_ge. now apply in_map.
  - exists c, m. repeat split; auto; lia.
Qed.

(* ---------- switched-off types ---------- *)
Lemma mask_off_cpu types r : has_type 1 types = false -> fst (mask_event types r) = 0.
Proof. intros H. unfold mask_event. rewrite H. reflexivity. Qed.
Lemma mask_off_mem types r : has_type 2 types = false -> snd (mask_event types r) = 0.
Proof. intros H. unfold mask_event. rewrite H. reflexivity. Qed.
Lemma mask_bounds types r lo1 hi1 lo2 hi2 :
  lo1 <= 0 <= hi1 -> lo2 <= 0 <= hi2 -> lo1 <= fst r <= hi1 -> lo2 <= snd r <= hi2 ->
  lo1 <= fst (mask_event types r) <= hi1 /\ lo2 <= snd (mask_event types r) <= hi2.
Proof.
  intros. unfold mask_event. destruct (has_type 1 types), (has_type 2 types); cbn [fst snd]; lia.
Qed.

(* what one preProcess emits: zero for every switched-off type *)
Lemma report_step_masked ratio pods s node_err label annot acpu amem s' ev :
  cstep ratio pods s (OReport node_err label annot acpu amem) = (s', ReportOut (Some ev)) ->
  (has_type 1 (effective_types (c_types s) annot) = false -> fst ev = 0) /\
  (has_type 2 (effective_types (c_types s) annot) = false -> snd ev = 0).
Proof.
  unfold cstep. destruct (node_err || negb (label_on label)); [discriminate|].
  destruct (compute_report (c_queue s)) as [r|]; [|discriminate].
  intros H. injection H as _ H. subst ev. split; intros; [apply mask_off_cpu|apply mask_off_mem]; auto.
Qed.

(* ---------- the cap by the current allocatable ---------- *)
Lemma cap_event_bounds ratio acpu amem r :
  0 <= ratio <= 100 -> 0 <= acpu <= max_alloc -> 0 <= amem <= max_alloc -> 0 <= fst r -> 0 <= snd r ->
  let e := cap_event ratio acpu amem r in
  0 <= fst e <= fst r /\ 0 <= snd e <= snd r /\
  (0 < ratio -> fst e <= acpu * ratio / 100 /\ snd e <= amem * ratio / 100) /\
  (fst r <= acpu * ratio / 100 -> fst e = fst r) /\ (snd r <= amem * ratio / 100 -> snd e = snd r).
Proof.
  intros Hr Ha Hm H1 H2 e. subst e. unfold cap_event.
  destruct (ratio <=? 0) eqn:R.
  - apply Z.leb_le in R. repeat split; auto; lia.
  - apply Z.leb_gt in R.
    assert (L1 : quot64 (mul64 acpu ratio) 100 = acpu * ratio / 100).
    { unfold mul64. rewrite wrap64_small by (consts; nia). unfold quot64. apply Z.quot_div_nonneg; nia. }
    assert (L2 : quot64 (mul64 amem ratio) 100 = amem * ratio / 100).
    { unfold mul64. rewrite wrap64_small by (consts; nia). unfold quot64. apply Z.quot_div_nonneg; nia. }
    rewrite L1, L2. cbn [fst snd].
    assert (0 <= acpu * ratio / 100) by (apply Z.div_pos; nia).
    assert (0 <= amem * ratio / 100) by (apply Z.div_pos; nia).
    unfold cap1.
    destruct (acpu * ratio / 100 <? fst r) eqn:C1; destruct (amem * ratio / 100 <? snd r) eqn:C2;
      try apply Z.ltb_lt in C1; try apply Z.ltb_ge in C1; try apply Z.ltb_lt in C2; try apply Z.ltb_ge in C2;
      repeat split; intros; lia.
Qed.

(* ---------- whole histories of the calculator ---------- *)
Section History.
  (* pods: the pod populations of the history (a sampling step names the active one) *)
  Variables (ratio : Z) (pods : list (list pod)) (Ac Am : Z).
  Hypothesis Hratio : 0 <= ratio <= 100.
  Hypothesis HAc : 0 <= Ac <= max_alloc.
  Hypothesis HAm : 0 <= Am <= max_alloc.
  Hypothesis Hpods : forall policy psel, 0 <= guaranteed_cpu_request policy (pods_at pods psel) <= max_amount.

  Definition op_ok (o : cop) : Prop :=
    match o with
    | OSample _ _ acpu amem _ _ ucpu umem _ =>
        0 <= acpu <= Ac /\ 0 <= amem <= Am /\ 0 <= ucpu <= max_amount /\ 0 <= umem <= max_amount
    | OReport _ _ _ acpu amem => 0 <= acpu <= Ac /\ 0 <= amem <= Am
    | _ => True
    end.

  (* what a report step emits, against the allocatable the node has AT THAT STEP *)
  Definition step_ok (o : cop) (out : cout) : Prop :=
    match o, out with
    | OReport _ _ _ acpu amem, ReportOut (Some ev) =>
        0 <= fst ev <= acpu * ratio / 100 /\ 0 <= snd ev <= amem * ratio / 100
    | _, _ => True
    end.

  Definition Bc := Ac * ratio / 100.
  Definition Bm := Am * ratio / 100.

  Definition cinv (s : cstate) : Prop :=
    (length (c_queue s) <= 10)%nat /\
    Forall (fun u => 0 <= fst u <= Bc /\ 0 <= snd u <= Bm) (c_queue s).

  Lemma B_bounds : 0 <= Bc <= max_alloc /\ 0 <= Bm <= max_alloc.
  Proof.
    unfold Bc, Bm. repeat split.
    - apply Z.div_pos; nia.
    - assert (Ac * ratio / 100 <= Ac) by (apply Z.div_le_upper_bound; nia). lia.
    - apply Z.div_pos; nia.
    - assert (Am * ratio / 100 <= Am) by (apply Z.div_le_upper_bound; nia). lia.
  Qed.

  Lemma cinv_init : cinv cinit.
  Proof. split; simpl; [lia|constructor]. Qed.

  Definition out_ok (o : cout) : Prop :=
    match o with
    | ReportOut (Some ev) => 0 <= fst ev <= Bc /\ 0 <= snd ev <= Bm
    | SampleOut _ q => (length q <= 10)%nat /\ Forall (fun u => 0 <= fst u <= Bc /\ 0 <= snd u <= Bm) q
    | _ => True
    end.

  Lemma cstep_inv s o : cinv s -> op_ok o ->
    cinv (fst (cstep ratio pods s o)) /\ out_ok (snd (cstep ratio pods s o)) /\ step_ok o (snd (cstep ratio pods s o)).
  Proof.
    intros [Hl HF] Hop. pose proof B_bounds as [HBc HBm].
    destruct o as [ne lb ac am pe po uc um ps | ne lb an ac am | k ty]; unfold cstep.
    - destruct (ne || negb (label_on lb) || pe); cbn [fst snd].
      + split; [split; auto|]. simpl. auto.
      + destruct Hop as (O1 & O2 & O3 & O4).
        pose proof (sample_pair_bounds ratio ac am (guaranteed_cpu_request po (pods_at pods ps)) uc um Hratio
                      ltac:(lia) ltac:(lia) (Hpods po ps) O3 O4) as (S1 & S2 & _).
        assert (ac * ratio / 100 <= Bc) by (unfold Bc; apply Z.div_le_mono; nia).
        assert (am * ratio / 100 <= Bm) by (unfold Bm; apply Z.div_le_mono; nia).
        assert (HF' : Forall (fun u => 0 <= fst u <= Bc /\ 0 <= snd u <= Bm)
                        (enqueue (c_queue s) (sample_pair ratio ac am (guaranteed_cpu_request po (pods_at pods ps)) uc um))).
        { apply enqueue_forall; auto. lia. }
        pose proof (enqueue_length (c_queue s) (sample_pair ratio ac am (guaranteed_cpu_request po (pods_at pods ps)) uc um) Hl).
        split; [split|split; [split|exact I]]; cbn [c_queue]; auto; lia.
    - destruct (ne || negb (label_on lb)); cbn [fst snd]. { split; [split; auto|split; exact I]. }
      destruct (compute_report (c_queue s)) as [r|] eqn:E; cbn [fst snd]; [|split; [split; auto|split; exact I]].
      split; [split; auto|].
      assert (Hlen : (1 <= length (c_queue s) <= 10)%nat).
      { split; auto. destruct (c_queue s); [discriminate|simpl; lia]. }
      destruct (report_bounds (c_queue s) 0 Bc 0 Bm Hlen) as (c & m & E' & R1 & R2 & _); auto; try lia.
      rewrite E in E'. injection E' as E'. subst r. cbn [out_ok step_ok].
      destruct Hop as [Oc Om].
      pose proof (cap_event_bounds ratio ac am (c, m) Hratio ltac:(lia) ltac:(lia) ltac:(cbn; lia) ltac:(cbn; lia))
        as (C1 & C2 & C3 & _). cbn [fst snd] in C1, C2.
      assert (D1 : 0 <= ac * ratio / 100) by (apply Z.div_pos; nia).
      assert (D2 : 0 <= am * ratio / 100) by (apply Z.div_pos; nia).
      assert (K : fst (cap_event ratio ac am (c, m)) <= ac * ratio / 100 /\ snd (cap_event ratio ac am (c, m)) <= am * ratio / 100).
      { destruct (Z.eq_dec ratio 0) as [E0|NZ].
        - assert (Bc = 0) by (unfold Bc; rewrite E0, Z.mul_0_r; reflexivity).
          assert (Bm = 0) by (unfold Bm; rewrite E0, Z.mul_0_r; reflexivity).
          rewrite E0 at 2 4. rewrite !Z.mul_0_r. change (0 / 100) with 0. lia.
        - apply C3. lia. }
      split; apply mask_bounds; cbn [fst snd]; lia.
    - destruct ((k =? 0) || (k =? 1) || (k =? 2)); cbn [fst snd]; split; try exact I; try (split; auto); split; exact I.
  Qed.

  (* every report of every history stays within [0, ratio% of the largest allocatable] *)
  Lemma crun_inv : forall ops s, cinv s -> Forall op_ok ops ->
    cinv (fst (crun ratio pods s ops)) /\ Forall out_ok (snd (crun ratio pods s ops)).
  Proof.
    induction ops as [|o ops IH]; intros s Hs Hops.
    - simpl. split; auto.
    - inversion Hops as [|o' ops' Ho Hops']; subst.
      cbn [crun]. pose proof (cstep_inv s o Hs Ho) as (I1 & O1 & _).
      destruct (cstep ratio pods s o) as [s1 out]. cbn [fst snd] in *.
      destruct (IH s1 I1 Hops') as [I2 O2].
      destruct (crun ratio pods s1 ops) as [s2 outs]. cbn [fst snd] in *.
      split; auto.
  Qed.

  (* every report of every history stays within [0, ratio% of the allocatable the
     node has at that report step] *)
  Lemma crun_current : forall ops s, cinv s -> Forall op_ok ops ->
    Forall2 step_ok ops (snd (crun ratio pods s ops)).
  Proof.
    induction ops as [|o ops IH]; intros s Hs Hops.
    - simpl. constructor.
    - inversion Hops as [|o' ops' Ho Hops']; subst.
      cbn [crun]. pose proof (cstep_inv s o Hs Ho) as (I1 & _ & S1).
      destruct (cstep ratio pods s o) as [s1 out]. cbn [fst snd] in *.
      specialize (IH s1 I1 Hops').
      destruct (crun ratio pods s1 ops) as [s2 outs]. cbn [fst snd] in *.
      constructor; auto.
  Qed.

  Lemma history_reports_within_current_allocatable ops :
    Forall op_ok ops -> Forall2 step_ok ops (snd (crun ratio pods cinit ops)).
  Proof. intros. apply crun_current; auto. apply cinv_init. Qed.

  Lemma history_reports_bounded ops :
    Forall op_ok ops ->
    forall ev, In (ReportOut (Some ev)) (snd (crun ratio pods cinit ops)) ->
      0 <= fst ev <= Ac * ratio / 100 /\ 0 <= snd ev <= Am * ratio / 100 /\
      Ac * ratio / 100 <= Ac /\ Am * ratio / 100 <= Am.
  Proof.
    intros Hops ev Hin.
    destruct (crun_inv ops cinit cinv_init Hops) as [_ HO].
    rewrite Forall_forall in HO. specialize (HO _ Hin). simpl in HO.
    pose proof B_bounds. unfold Bc, Bm in *.
    assert (Ac * ratio / 100 <= Ac) by (apply Z.div_le_upper_bound; nia).
    assert (Am * ratio / 100 <= Am) by (apply Z.div_le_upper_bound; nia).
    lia.
  Qed.
End History.

(* ---------- the executable laws and the theorems speak about the same predicate ---------- *)
Lemma floor_unique x got : got * 100 <= x -> x < (got + 1) * 100 -> got = x / 100.
Proof. intros H1 H2. apply (Z.div_unique x 100 got (x - got * 100)); lia. Qed.

Lemma law_sample1_sound alloc total usage ratio got :
  law_sample1 alloc total usage ratio got = true ->
  0 <= got /\ got * 100 <= alloc * ratio /\ got <= alloc /\
  (usage <= total -> got = (total - usage) * ratio / 100) /\ (total < usage -> got = 0).
Proof.
  unfold law_sample1. intros H.
  apply andb_true_iff in H as [H H4]. apply andb_true_iff in H as [H H3].
  apply andb_true_iff in H as [H1 H2].
  apply Z.leb_le in H1, H2, H3.
  destruct (usage <=? total) eqn:E.
  - apply andb_true_iff in H4 as [H4 H5]. apply Z.leb_le in H4, E. apply Z.ltb_lt in H5.
    repeat split; auto; try lia. intros _. now apply floor_unique.
  - apply Z.eqb_eq in H4. apply Z.leb_gt in E. repeat split; auto; lia.
Qed.

Lemma law_sample1_complete alloc total usage ratio got :
  0 <= ratio -> 0 <= alloc -> total <= alloc -> 0 <= usage ->
  0 <= got -> got <= alloc * ratio / 100 -> alloc * ratio / 100 <= alloc ->
  (usage <= total -> got = (total - usage) * ratio / 100) -> (total < usage -> got = 0) ->
  law_sample1 alloc total usage ratio got = true.
Proof.
  intros Hr Ha Ht Hu H0 H1 H2 H3 H4. unfold law_sample1.
  assert (got * 100 <= alloc * ratio).
  { pose proof (Z.mul_div_le (alloc * ratio) 100 ltac:(lia)). lia. }
  apply andb_true_iff; split; [apply andb_true_iff; split; [apply andb_true_iff; split|]|];
    try (apply Z.leb_le; lia).
  destruct (usage <=? total) eqn:E.
  - apply Z.leb_le in E. specialize (H3 E).
    pose proof (Z.mul_div_le ((total - usage) * ratio) 100 ltac:(lia)).
    pose proof (Z.mul_succ_div_gt ((total - usage) * ratio) 100 ltac:(lia)).
    apply andb_true_iff; split; [apply Z.leb_le|apply Z.ltb_lt]; subst got; lia.
  - apply Z.leb_gt in E. apply Z.eqb_eq. auto.
Qed.

(* the law accepts what the model computes, for every input *)
Lemma law_sample_accepts_model ratio policy pods acpu amem ucpu umem :
  law_sample ratio policy pods acpu amem ucpu umem
    (sample_pair ratio acpu amem (guaranteed_cpu_request policy pods) ucpu umem) = true.
Proof.
  unfold law_sample.
  destruct (ratio_ok ratio && pods_ok pods && zin 0 max_alloc acpu && zin 0 max_alloc amem &&
            zin 0 max_amount ucpu && zin 0 max_amount umem) eqn:R; auto.
  apply andb_true_iff in R as [R R6]. apply andb_true_iff in R as [R R5].
  apply andb_true_iff in R as [R R4]. apply andb_true_iff in R as [R R3].
  apply andb_true_iff in R as [R1 R2].
  unfold ratio_ok, zin in R1, R3, R4, R5, R6.
  apply andb_true_iff in R1 as [R1a R1b]. apply andb_true_iff in R3 as [R3a R3b].
  apply andb_true_iff in R4 as [R4a R4b]. apply andb_true_iff in R5 as [R5a R5b].
  apply andb_true_iff in R6 as [R6a R6b].
  apply Z.leb_le in R1a, R1b, R3a, R3b, R4a, R4b, R5a, R5b, R6a, R6b.
  assert (Hg : 0 <= guaranteed_cpu_request policy pods <= max_amount).
  { unfold pods_ok in R2. apply andb_true_iff in R2 as [HP HL].
    apply guaranteed_request_range.
    - rewrite forallb_forall in HP.
      apply Forall_forall. intros p Hp. specialize (HP p Hp). unfold zin in HP.
      apply andb_true_iff in HP as [A B]. apply Z.leb_le in A, B. lia.
    - apply Nat.leb_le in HL. exact HL. }
  set (g := guaranteed_cpu_request policy pods) in *.
  pose proof (sample_pair_bounds ratio acpu amem g ucpu umem ltac:(lia) ltac:(lia) ltac:(lia) Hg ltac:(lia) ltac:(lia))
    as (S1 & S2 & S3 & S4 & S5 & S6).
  assert (D1 : acpu * ratio / 100 <= acpu) by (apply Z.div_le_upper_bound; nia).
  assert (D2 : amem * ratio / 100 <= amem) by (apply Z.div_le_upper_bound; nia).
  apply andb_true_iff; split; [apply andb_true_iff; split|].
  - apply Z.leb_le. lia.
  - apply law_sample1_complete; try lia.
  - apply law_sample1_complete; try lia.
Qed.

Lemma law_event_current_sound ratio acpu amem ev :
  0 <= ratio <= 100 -> 0 <= acpu <= max_alloc -> 0 <= amem <= max_alloc ->
  law_event_current ratio acpu amem ev = true ->
  fst ev <= acpu * ratio / 100 /\ snd ev <= amem * ratio / 100.
Proof.
  intros Hr Hc Hm. unfold law_event_current, ratio_ok, zin.
  replace ((0 <=? ratio) && (ratio <=? 100) && ((0 <=? acpu) && (acpu <=? max_alloc)) &&
           ((0 <=? amem) && (amem <=? max_alloc))) with true.
  2:{ symmetry. repeat (apply andb_true_iff; split); apply Z.leb_le; lia. }
  intros H. repeat (apply andb_true_iff in H as [H ?]).
  repeat match goal with X : (_ <=? _) = true |- _ => apply Z.leb_le in X end.
  split; apply Z.div_le_lower_bound; lia.
Qed.
