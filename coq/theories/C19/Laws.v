(* Executable forms of the C19 property, evaluated on what the IMPLEMENTATION
   returned.  They are written from the property text (bounds, eligibility,
   order, at most one success) and use the model only for input-side getters
   (qos level, critical, request, guaranteed request); none of them calls
   calc_sample, compute_report, try_evict, handle or cleanup. *)
From Coq Require Import ZArith List Bool.
From V Require Import C19.Model.
Import ListNotations.
Open Scope Z_scope.

(* the stated input range in which no int64 operation of the calculator wraps *)
Definition max_alloc : Z := 9007199254740992.          (* 2^53 *)
Definition max_amount : Z := 4611686018427387904.      (* 2^62 *)
Definition zin (lo hi x : Z) : bool := (lo <=? x) && (x <=? hi).
Definition ratio_ok (ratio : Z) : bool := zin 0 100 ratio.

Definition pods_ok (pods : list pod) : bool :=
  forallb (fun p => zin 0 max_alloc (p_cpu p)) pods && Nat.leb (length pods) 256.

(* one resource of one sample: got is floor((total-usage)*ratio/100) clamped at 0,
   within [0, ratio% of allocatable] *)
Definition law_sample1 (alloc total usage ratio got : Z) : bool :=
  (0 <=? got) && (got * 100 <=? alloc * ratio) && (got <=? alloc) &&
  (if usage <=? total
   then (got * 100 <=? (total - usage) * ratio) && ((total - usage) * ratio <? (got + 1) * 100)
   else got =? 0).

Definition law_sample (ratio policy : Z) (pods : list pod) (acpu amem ucpu umem : Z) (got : Z * Z) : bool :=
  if ratio_ok ratio && pods_ok pods && zin 0 max_alloc acpu && zin 0 max_alloc amem &&
     zin 0 max_amount ucpu && zin 0 max_amount umem
  then
    let greq := guaranteed_cpu_request policy pods in
    (0 <=? greq) &&
    law_sample1 acpu (acpu - greq) ucpu ratio (fst got) &&
    law_sample1 amem amem umem ratio (snd got)
  else true.

(* the mathematical weighted sum with doubling weights, and the total weight *)
Fixpoint wsum (w : Z) (l : list Z) : Z * Z :=
  match l with
  | [] => (0, 0)
  | x :: r => let '(s, t) := wsum (2 * w) r in (x * w + s, w + t)
  end.
Definition lmax (l : list Z) : Z := fold_right Z.max 0 l.
Definition lmin (l : list Z) : Z := match l with [] => 0 | x :: r => fold_right Z.min x r end.

(* one resource of a report: zero when switched off, else the floor of the
   weighted mean (between the smallest and the largest sample) or, when that
   exceeds it, the cap lim = ratio% of the current allocatable (None: no cap) *)
Definition law_report1 (on : bool) (l : list Z) (lim : option Z) (got : Z) : bool :=
  if on then
    let '(s, t) := wsum 1 l in
    (got <=? lmax l) && (0 <=? got) &&
    (((lmin l <=? got) && (got * t <=? s) && (s <? (got + 1) * t) &&
      match lim with Some x => got <=? x | None => true end)
     || match lim with Some x => (got =? x) && ((x + 1) * t <=? s) | None => false end)
  else got =? 0.

Definition cap_limit (ratio alloc : Z) : option Z :=
  if ratio <=? 0 then None else Some (alloc * ratio / 100).

Definition law_report (q : list (Z * Z)) (cfg : list Z) (annot : option (list Z))
                      (ratio acpu amem : Z) (ev : option (Z * Z)) : bool :=
  match q with
  | [] => match ev with None => true | Some _ => false end
  | _ =>
    (* the queue never holds more than ten samples *)
    Nat.leb (length q) 10 &&
    if forallb (fun s => zin 0 max_alloc (fst s) && zin 0 max_alloc (snd s)) q &&
       zin 0 100 ratio && zin 0 max_alloc acpu && zin 0 max_alloc amem
    then match ev with
         | None => false
         | Some (c, m) =>
             let ty := effective_types cfg annot in
             law_report1 (has_type 1 ty) (map fst q) (cap_limit ratio acpu) c &&
             law_report1 (has_type 2 ty) (map snd q) (cap_limit ratio amem) m
         end
    else true
  end.

(* a whole history: every reported amount is within [0, ratio% of the largest
   allocatable seen]; samples = (acpu, amem, ucpu, umem) of every sampling step *)
Definition law_history (ratio : Z) (pods : list pod) (samples : list (Z * Z * Z * Z))
                       (events : list (Z * Z * Z * Z)) : bool :=
  if ratio_ok ratio && pods_ok pods &&
     forallb (fun '(ac, am, uc, um) => zin 0 max_alloc ac && zin 0 max_alloc am &&
                                       zin 0 max_amount uc && zin 0 max_amount um) samples
  then
    let ac := lmax (map (fun '(ac, _, _, _) => ac) samples) in
    let am := lmax (map (fun '(_, am, _, _) => am) samples) in
    (* events = (allocatable cpu, memory at the report step, reported cpu, memory) *)
    forallb (fun '(rc, rm, c, m) =>
               if zin 0 max_alloc rc && zin 0 max_alloc rm
               then (0 <=? c) && (c * 100 <=? ac * ratio) && (0 <=? m) && (m * 100 <=? am * ratio)
               else true) events
  else true.

(* one emitted event against the node's CURRENT allocatable (after fix 21d1eba);
   holds whatever the samples in the queue are (non-negativity is law 102 / 103) *)
Definition law_event_current (ratio acpu amem : Z) (ev : Z * Z) : bool :=
  if ratio_ok ratio && zin 0 max_alloc acpu && zin 0 max_alloc amem
  then (fst ev * 100 <=? acpu * ratio) && (snd ev * 100 <=? amem * ratio)
  else true.

(* ---------- eviction ---------- *)
Definition find_pod (id : Z) (pods : list pod) : option pod :=
  find (fun p => p_id p =? id) pods.

Definition eligible (p : pod) : bool := preemptable p && negb (critical p).

Definition call_eligible (pods : list pod) (c : Z * bool) : bool :=
  match find_pod (fst c) pods with Some p => eligible p | None => false end.

Definition call_req (res : Z) (pods : list pod) (c : Z * bool) : Z :=
  match find_pod (fst c) pods with Some p => req res p | None => 0 end.

Fixpoint descending (l : list Z) : bool :=
  match l with
  | x :: ((y :: _) as r) => (y <=? x) && descending r
  | _ => true
  end.

(* no success except possibly the last call *)
Fixpoint success_only_last (calls : list (Z * bool)) : bool :=
  match calls with
  | [] => true
  | [_] => true
  | c :: r => negb (snd c) && success_only_last r
  end.

Definition succeeded (calls : list (Z * bool)) : list Z :=
  map fst (filter (fun c => snd c) calls).
Definition zmem (x : Z) (l : list Z) : bool := existsb (Z.eqb x) l.
Fixpoint nodupb (l : list Z) : bool :=
  match l with [] => true | x :: r => negb (zmem x r) && nodupb r end.
Fixpoint zlist_eqb (a b : list Z) : bool :=
  match a, b with
  | [], [] => true
  | x :: r, y :: s => (x =? y) && zlist_eqb r s
  | _, _ => false
  end.

(* no eligible pod with a larger request was passed over; when nothing
   succeeded every eligible pod was tried *)
Definition no_skip (res : Z) (pods : list pod) (calls : list (Z * bool)) : bool :=
  forallb (fun p => if eligible p && negb (zmem (p_id p) (map fst calls))
                    then match succeeded calls, rev calls with
                         | _ :: _, lastc :: _ => req res p <=? call_req res pods lastc
                         | _, _ => false
                         end
                    else true) pods.

(* the population after a pass, recomputed from the calls alone *)
Definition remove_succ (cs : list (Z * bool)) (pods : list pod) : list pod :=
  filter (fun p => negb (zmem (p_id p) (succeeded cs))) pods.

(* one pressure event on resource res (1 cpu, 2 memory): pods = the active pods
   before the event, calls = what reached the eviction client, after = the
   active pod ids after the event *)
Definition law_evict (res : Z) (pods : list pod) (calls : list (Z * bool)) (after : list Z) : bool :=
  if nodupb (map p_id pods) then
    (* only offline, non-critical, active pods reach the client, each at most once *)
    forallb (call_eligible pods) calls && nodupb (map fst calls) &&
    (* largest request first *)
    descending (map (call_req res pods) calls) &&
    (* stops at the first success: at most one, and nothing after it *)
    success_only_last calls && Nat.leb (length (succeeded calls)) 1 &&
    (* nobody else disappears: online and critical pods all stay *)
    zlist_eqb after (map p_id (filter (fun p => negb (zmem (p_id p) (succeeded calls))) pods)) &&
    no_skip res pods calls
  else true.

(* turning over-subscription off: per round the calls of the cpu pass and of the
   memory pass; within a pass largest request first and nothing after a success *)
Definition flat_passes (passes : list (list (Z * bool) * list (Z * bool))) : list (Z * bool) :=
  flat_map (fun p => fst p ++ snd p) passes.

(* one pass on the population it listed: only eligible pods, largest request
   first, nothing after a success, NO larger eligible pod skipped; nothing at
   all when the extend resource is not in use *)
Definition pass_ok (res : Z) (pods : list pod) (calls : list (Z * bool)) : bool :=
  forallb (call_eligible pods) calls && nodupb (map fst calls) &&
  descending (map (call_req res pods) calls) && success_only_last calls &&
  (if use_extend res pods then no_skip res pods calls
   else match calls with [] => true | _ => false end).

Fixpoint passes_ok (pods : list pod) (passes : list (list (Z * bool) * list (Z * bool))) : bool :=
  match passes with
  | [] => true
  | (c1, c2) :: r =>
      pass_ok 1 pods c1 && pass_ok 2 (remove_succ c1 pods) c2 &&
      passes_ok (remove_succ c2 (remove_succ c1 pods)) r
  end.

Definition law_cleanup (pods : list pod) (passes : list (list (Z * bool) * list (Z * bool))) (after : list Z) : bool :=
  let calls := flat_passes passes in
  if nodupb (map p_id pods) then
    forallb (call_eligible pods) calls &&
    nodupb (succeeded calls) &&
    passes_ok pods passes &&
    zlist_eqb after (map p_id (filter (fun p => negb (zmem (p_id p) (succeeded calls))) pods))
  else true.

(* an event that must not evict (foreign resource, wrong event type, failed
   node / pod read): nothing reaches the client and nobody disappears *)
Definition law_no_eviction (pods : list pod) (calls : list (Z * bool)) (after : list Z) : bool :=
  match calls with [] => zlist_eqb after (map p_id pods) | _ => false end.
