(* C19 — proofs about the value ON THE NODE OBJECT: the reporter, Cleanup and
   every history of the whole pipeline. *)
From Coq Require Import ZArith List Bool Lia.
From V Require Import C19.Model C19.Laws C19.Lemmas C19.Reporter C19.ReporterLaws.
Import ListNotations.
Open Scope Z_scope.

(* ---------- writing ---------- *)
Lemma write_ext_cur n ev : cur_of (write_ext n ev) = ev.
Proof.
  unfold write_ext. destruct ((fst (cur_of n) =? fst ev) && (snd (cur_of n) =? snd ev)) eqn:E.
  - apply andb_true_iff in E as [E1 E2]. apply Z.eqb_eq in E1, E2.
    destruct (cur_of n), ev; simpl in *; congruence.
  - destruct ev; reflexivity.
Qed.

Lemma write_ext_fields n ev :
  (write_ext n ev = n /\ cur_of n = ev) \/
  (n_xcpu (write_ext n ev) = Some (fst ev) /\ n_xmem (write_ext n ev) = Some (snd ev)).
Proof.
  unfold write_ext. destruct ((fst (cur_of n) =? fst ev) && (snd (cur_of n) =? snd ev)) eqn:E.
  - left. split; auto. apply andb_true_iff in E as [E1 E2]. apply Z.eqb_eq in E1, E2.
    destruct (cur_of n), ev; simpl in *; congruence.
  - right. split; reflexivity.
Qed.

Lemma write_ext_other n ev :
  n_label (write_ext n ev) = n_label n /\ n_acpu (write_ext n ev) = n_acpu n /\
  n_amem (write_ext n ev) = n_amem n /\ n_annot (write_ext n ev) = n_annot n.
Proof. unfold write_ext. destruct (_ && _); simpl; auto. Qed.

(* ---------- the threshold ---------- *)
Lemma exceeds_false_close c e :
  0 <= c <= max_amount -> 0 <= e <= max_amount -> exceeds c e = false -> close1 c e = true.
Proof.
  intros Hc He. unfold exceeds, close1.
  assert (Hs : sub64 e c = e - c).
  { unfold sub64. apply wrap64_small. unfold in64, two63, max_amount in *. lia. }
  rewrite Hs.
  assert (Hd : (if e - c <? 0 then wrap64 (- (e - c)) else e - c) = Z.abs (e - c)).
  { destruct (e - c <? 0) eqn:E.
    - apply Z.ltb_lt in E. rewrite wrap64_small by (unfold in64, two63, max_amount in *; lia). lia.
    - apply Z.ltb_ge in E. lia. }
  rewrite Hd. destruct (c =? 0) eqn:C0.
  - apply Z.eqb_eq in C0. subst c. intros H. apply negb_false_iff in H. apply Z.eqb_eq in H. apply Z.eqb_eq. lia.
  - apply Z.eqb_neq in C0. destruct (c <? 0) eqn:Cn. { apply Z.ltb_lt in Cn. lia. }
    intros H. apply Z.ltb_ge in H. apply andb_true_iff. split; [apply Z.ltb_lt|apply Z.leb_le]; lia.
Qed.

Lemma close1_bound c e : 0 <= c -> close1 c e = true -> 9 * c <= 10 * e /\ 10 * e <= 11 * c.
Proof.
  unfold close1. intros Hc. destruct (c =? 0) eqn:C0.
  - apply Z.eqb_eq in C0. intros H. apply Z.eqb_eq in H. lia.
  - intros H. apply andb_true_iff in H as [H1 H2]. apply Z.ltb_lt in H1. apply Z.leb_le in H2. lia.
Qed.

Lemma close1_zero_event c : 0 <= c -> close1 c 0 = true -> c = 0.
Proof. intros Hc H. apply close1_bound in H; auto. lia. Qed.

(* ---------- reporter.Handle ---------- *)
Lemma rhandle_spec r n ev :
  label_on (n_label n) = true ->
  let '(r', n', err) := rhandle r n ev 0 in
  err = 0 /\ r_times r' = r_times r + 1 /\
  (n' = write_ext n ev \/
   (n' = n /\ (r_times r + 1) mod re_sync_period <> 0 /\ should_update (cur_of n) ev = false)).
Proof.
  intros L. unfold rhandle. change (0 =? 2) with false. rewrite L.
  change (0 =? 3) with false. change (0 =? 4) with false. cbn [negb orb]. cbv iota.
  destruct ((r_times r + 1) mod re_sync_period =? 0) eqn:F; cbn [orb]; cbv iota.
  - repeat split; auto.
  - destruct (should_update (cur_of n) ev) eqn:S; cbv iota.
    + repeat split; auto.
    + apply Z.eqb_neq in F. repeat split; auto.
Qed.

Lemma rhandle_node r n ev fail :
  let '(_, n', _) := rhandle r n ev fail in n' = n \/ n' = write_ext n ev.
Proof.
  unfold rhandle. destruct (fail =? 2); auto. destruct (negb (label_on (n_label n))); auto.
  destruct (_ || should_update _ _); auto. destruct ((fail =? 3) || (fail =? 4)); auto.
Qed.

(* ---------- RefreshCfg of the reporter / Cleanup ---------- *)
Lemma cleanup_node_spec n fail :
  let '(n', err) := cleanup_node n fail in
  (err = true -> n' = n) /\
  (err = false -> cur_of n' = (0, 0) /\ label_on (n_label n') = false) /\
  (n' = n \/ (n_xcpu n' = None /\ n_xmem n' = None)) /\
  n_acpu n' = n_acpu n /\ n_amem n' = n_amem n /\ n_annot n' = n_annot n.
Proof.
  unfold cleanup_node. destruct (fail =? 1). { repeat split; auto; discriminate. }
  destruct (negb (reset_label (n_label n) =? n_label n) || negb (oz (n_xcpu n) =? 0) || negb (oz (n_xmem n) =? 0)) eqn:Ch; simpl negb; cbv iota.
  - destruct (fail =? 2). { repeat split; auto; discriminate. }
    repeat split; auto; try discriminate.
    unfold reset_label, label_on. simpl. destruct (n_label n =? 0) eqn:E; reflexivity.
  - apply orb_false_iff in Ch as [Ch C3]. apply orb_false_iff in Ch as [C1 C2].
    apply negb_false_iff in C1, C2, C3. apply Z.eqb_eq in C1, C2, C3.
    repeat split; auto; try discriminate.
    + unfold cur_of. now rewrite C2, C3.
    + unfold reset_label, label_on in *. destruct (n_label n =? 0) eqn:E.
      * apply Z.eqb_eq in E. rewrite E. reflexivity.
      * rewrite <- C1. reflexivity.
Qed.

Lemma set_label_true_spec n fail :
  let '(n', err) := set_label_true n fail in
  n_xcpu n' = n_xcpu n /\ n_xmem n' = n_xmem n /\ n_acpu n' = n_acpu n /\ n_amem n' = n_amem n /\
  n_annot n' = n_annot n /\ (err = false -> n_label n' = 1) /\ (err = true -> n' = n).
Proof.
  unfold set_label_true. destruct (fail =? 1). { repeat split; auto; discriminate. }
  destruct (n_label n =? 1) eqn:E. { apply Z.eqb_eq in E. repeat split; auto; discriminate. }
  destruct (fail =? 2); repeat split; auto; discriminate.
Qed.

Lemma rrefresh_node r n enable node_enable fail :
  let '(_, n', _) := rrefresh r n enable node_enable fail in
  ((n_xcpu n' = n_xcpu n /\ n_xmem n' = n_xmem n) \/ (n_xcpu n' = None /\ n_xmem n' = None)) /\
  n_acpu n' = n_acpu n /\ n_amem n' = n_amem n /\ n_annot n' = n_annot n.
Proof.
  unfold rrefresh.
  destruct (negb enable).
  - pose proof (cleanup_node_spec n fail) as H. destruct (cleanup_node n fail) as [n' err].
    destruct H as (_ & _ & [->|H] & A); auto.
  - destruct (r_enabled r && negb node_enable).
    + pose proof (cleanup_node_spec n fail) as H. destruct (cleanup_node n fail) as [n' err].
      destruct H as (_ & _ & [->|H] & A); auto.
    + pose proof (set_label_true_spec n fail) as H. destruct (set_label_true n fail) as [n' err].
      destruct H as (A & B & C & D & E & _). destruct err; auto.
Qed.

(* switching over-subscription off in the configuration: when the call
   succeeds nothing is reported any more and the node is no over-subscription node *)
Lemma rrefresh_disable r n node_enable fail r' n' :
  rrefresh r n false node_enable fail = (r', n', false) ->
  cur_of n' = (0, 0) /\ label_on (n_label n') = false /\ r_active r' = false /\ r_enabled r' = false.
Proof.
  unfold rrefresh. simpl negb. cbv iota.
  pose proof (cleanup_node_spec n fail) as H. destruct (cleanup_node n fail) as [n1 err].
  intros E. injection E as <- <- ->. destruct H as (_ & H & _). destruct (H eq_refl).
  simpl. rewrite andb_false_r. auto.
Qed.

(* the node-label configuration switched off while the reporter is enabled *)
Lemma rrefresh_node_disable r n fail r' n' :
  r_enabled r = true -> rrefresh r n true false fail = (r', n', false) ->
  cur_of n' = (0, 0) /\ label_on (n_label n') = false /\ r_active r' = false.
Proof.
  intros En. unfold rrefresh. simpl negb. cbv iota. rewrite En. simpl andb. cbv iota.
  pose proof (cleanup_node_spec n fail) as H. destruct (cleanup_node n fail) as [n1 err].
  intros E. injection E as <- <- ->. destruct H as (_ & H & _). destruct (H eq_refl). auto.
Qed.

(* ---------- one step of the pipeline ---------- *)
Definition ext_same (a b : node) : Prop := n_xcpu a = n_xcpu b /\ n_xmem a = n_xmem b.

(* steps that do not report leave the reported amounts alone *)
Lemma pstep_untouched pods s o :
  match o with
  | PReport _ | PReporterCfg _ _ _ => True
  | _ => ext_same (ps_n (fst (pstep pods s o))) (ps_n s)
  end.
Proof.
  destruct o; cbn [pstep]; auto; try (split; reflexivity).
  - match goal with |- context [cstep ?a ?b ?c ?d] => destruct (cstep a b c d) as [c' out] end.
    split; reflexivity.
  - match goal with |- context [cstep ?a ?b ?c ?d] => destruct (cstep a b c d) as [c' out] end.
    split; reflexivity.
Qed.

Lemma pstep_unhandled pods s fail :
  o_handled (snd (pstep pods s (PReport fail))) = false -> fst (pstep pods s (PReport fail)) = s.
Proof.
  cbn [pstep].
  match goal with |- context [cstep ?a ?b ?c ?d] => destruct (snd (cstep a b c d)) as [f q|[ev|]|e] end; simpl; auto.
  destruct (r_active (ps_r s)); simpl; auto.
  destruct (rhandle (ps_r s) (ps_n s) ev fail) as [[r' n'] err]. simpl. discriminate.
Qed.

(* a report handled without injected failure on an over-subscription node:
   the node now carries the event, or it was left alone because this was no
   forced re-sync and the event is within 10% of what the node shows *)
Lemma pstep_report_node pods s :
  o_handled (snd (pstep pods s (PReport 0))) = true -> label_on (n_label (ps_n s)) = true ->
  let s' := fst (pstep pods s (PReport 0)) in
  exists ev, o_ev (snd (pstep pods s (PReport 0))) = Some ev /\
    snd (cstep (ps_ratio s) pods (ps_c s) (OReport false (n_label (ps_n s)) (n_annot (ps_n s)) (n_acpu (ps_n s)) (n_amem (ps_n s)))) = ReportOut (Some ev) /\
    r_times (ps_r s') = r_times (ps_r s) + 1 /\
    (ps_n s' = write_ext (ps_n s) ev \/
     (ps_n s' = ps_n s /\ (r_times (ps_r s) + 1) mod re_sync_period <> 0 /\
      should_update (cur_of (ps_n s)) ev = false)).
Proof.
  intros H L. cbn [pstep] in *. change (0 =? 1) with false in *.
  destruct (snd (cstep (ps_ratio s) pods (ps_c s) (OReport false (n_label (ps_n s)) (n_annot (ps_n s)) (n_acpu (ps_n s)) (n_amem (ps_n s)))))
    as [f q|[ev|]|e] eqn:C; simpl in H; try discriminate.
  destruct (r_active (ps_r s)); simpl in H; try discriminate.
  pose proof (rhandle_spec (ps_r s) (ps_n s) ev L) as R.
  destruct (rhandle (ps_r s) (ps_n s) ev 0) as [[r' n'] err]. simpl.
  destruct R as (_ & T & R). exists ev. auto.
Qed.

Section Pipeline.
  Variables (pods : list (list pod)) (Rmax Ac Am : Z).
  Hypothesis HR : 0 <= Rmax <= 100.
  Hypothesis HAc : 0 <= Ac <= max_alloc.
  Hypothesis HAm : 0 <= Am <= max_alloc.
  Hypothesis Hpods : forall policy psel, 0 <= guaranteed_cpu_request policy (pods_at pods psel) <= max_amount.

  Definition NBc := Ac * Rmax / 100.
  Definition NBm := Am * Rmax / 100.

  Definition optz_in (b : Z) (o : option Z) : Prop :=
    match o with None => True | Some v => 0 <= v <= b end.
  Definition node_bounded (n : node) : Prop := optz_in NBc (n_xcpu n) /\ optz_in NBm (n_xmem n).

  Definition pinv (s : pstate) : Prop :=
    0 <= ps_ratio s <= Rmax /\ cinv (ps_ratio s) Ac Am (ps_c s) /\
    0 <= n_acpu (ps_n s) <= Ac /\ 0 <= n_amem (ps_n s) <= Am /\ node_bounded (ps_n s).

  Definition pop_ok (o : pop) : Prop :=
    match o with
    | PSample _ _ _ ucpu umem _ => 0 <= ucpu <= max_amount /\ 0 <= umem <= max_amount
    | PSetAlloc c m => 0 <= c <= Ac /\ 0 <= m <= Am
    | PRestart r => 0 <= r <= Rmax
    | _ => True
    end.

  Lemma B_mono ratio : 0 <= ratio <= Rmax -> Bc ratio Ac <= NBc /\ Bm ratio Am <= NBm.
  Proof. intros H. unfold Bc, Bm, NBc, NBm. split; apply Z.div_le_mono; nia. Qed.

  Lemma NB_le : 0 <= NBc <= Ac /\ 0 <= NBm <= Am.
  Proof.
    unfold NBc, NBm. repeat split.
    - apply Z.div_pos; nia.
    - apply Z.div_le_upper_bound; nia.
    - apply Z.div_pos; nia.
    - apply Z.div_le_upper_bound; nia.
  Qed.

  Lemma node_bounded_write n ev :
    0 <= fst ev <= NBc -> 0 <= snd ev <= NBm -> node_bounded n -> node_bounded (write_ext n ev).
  Proof.
    intros H1 H2 Hn. destruct (write_ext_fields n ev) as [[-> _]|[E1 E2]]; auto.
    unfold node_bounded. rewrite E1, E2. simpl. auto.
  Qed.

  Lemma pstep_inv s o : pinv s -> pop_ok o -> pinv (fst (pstep pods s o)).
  Proof.
    intros (Hr & Hc & Ha & Hm & Hn) Ho. pose proof Hn as [Hn1 Hn2].
    assert (Hr' : 0 <= ps_ratio s <= 100) by lia.
    destruct o as [ne pe po uc um psl|fail|k ty|en nen fail|l|c m|a|r]; cbn [pstep].
    - pose proof (cstep_inv (ps_ratio s) pods Ac Am Hr' HAc HAm Hpods (ps_c s)
                    (OSample ne (n_label (ps_n s)) (n_acpu (ps_n s)) (n_amem (ps_n s)) pe po uc um psl) Hc) as I.
      destruct (cstep _ _ _ _) as [c' out]. cbn [fst snd] in *.
      destruct Ho as [U1 U2]. destruct I as [I _]. { simpl. repeat split; lia. }
      unfold pinv; cbn [ps_ratio ps_c ps_n].
      split; [lia|]. split; [auto|]. split; [lia|]. split; [lia|]. exact Hn.
    - pose proof (cstep_inv (ps_ratio s) pods Ac Am Hr' HAc HAm Hpods (ps_c s)
                    (OReport (fail =? 1) (n_label (ps_n s)) (n_annot (ps_n s)) (n_acpu (ps_n s)) (n_amem (ps_n s))) Hc (conj Ha Hm)) as (_ & O & SO).
      destruct (snd (cstep _ _ _ _)) as [f q|[ev|]|e]; cbn [fst];
        try exact (conj Hr (conj Hc (conj Ha (conj Hm Hn)))).
      destruct (r_active (ps_r s)); cbn [fst]; try exact (conj Hr (conj Hc (conj Ha (conj Hm Hn)))).
      pose proof (rhandle_node (ps_r s) (ps_n s) ev fail) as R.
      destruct (rhandle (ps_r s) (ps_n s) ev fail) as [[r' n'] err]. cbn [fst].
      unfold pinv; cbn [ps_ratio ps_c ps_n].
      simpl in O. destruct (B_mono (ps_ratio s) Hr) as [M1 M2].
      destruct R as [->| ->]. { exact (conj Hr (conj Hc (conj Ha (conj Hm Hn)))). }
      destruct (write_ext_other (ps_n s) ev) as (_ & E1 & E2 & _). rewrite E1, E2.
      split; [lia|]. split; [auto|]. split; [lia|]. split; [lia|].
      apply node_bounded_write; auto; lia.
    - pose proof (cstep_inv (ps_ratio s) pods Ac Am Hr' HAc HAm Hpods (ps_c s) (ORefresh k ty) Hc I) as [I' _].
      destruct (cstep _ _ _ _) as [c' out]. cbn [fst snd] in *.
      unfold pinv; cbn [ps_ratio ps_c ps_n].
      split; [lia|]. split; [auto|]. split; [lia|]. split; [lia|]. exact Hn.
    - pose proof (rrefresh_node (ps_r s) (ps_n s) en nen fail) as R.
      destruct (rrefresh (ps_r s) (ps_n s) en nen fail) as [[r' n'] err]. cbn [fst].
      unfold pinv; cbn [ps_ratio ps_c ps_n].
      destruct R as (X & E1 & E2 & _). rewrite E1, E2.
      split; [lia|]. split; [auto|]. split; [lia|]. split; [lia|].
      unfold node_bounded in *. destruct X as [[-> ->]|[-> ->]]; simpl; auto.
    - cbn [fst]. unfold pinv; cbn [ps_ratio ps_c ps_n with_label n_acpu n_amem n_xcpu n_xmem].
      split; [lia|]. split; [auto|]. split; [lia|]. split; [lia|]. exact Hn.
    - cbn [fst]. destruct Ho. unfold pinv; cbn [ps_ratio ps_c ps_n with_alloc n_acpu n_amem].
      split; [lia|]. split; [auto|]. split; [lia|]. split; [lia|]. exact Hn.
    - cbn [fst]. unfold pinv; cbn [ps_ratio ps_c ps_n with_annot n_acpu n_amem].
      split; [lia|]. split; [auto|]. split; [lia|]. split; [lia|]. exact Hn.
    - cbn [fst]. simpl in Ho. unfold pinv; cbn [ps_ratio ps_c ps_n].
      split; [lia|]. split; [apply cinv_init|]. split; [lia|]. split; [lia|]. exact Hn.
  Qed.

  (* after ANY prefix of ANY history the amounts on the node are absent or within
     [0, Rmax% of the largest allocatable] *)
  Lemma prun_inv : forall ops s, pinv s -> Forall pop_ok ops ->
    pinv (fst (prun pods s ops)) /\
    Forall (fun on : pout * node => node_bounded (snd on)) (snd (prun pods s ops)).
  Proof.
    induction ops as [|o ops IH]; intros s Hs Hops; cbn [prun]. { simpl. auto. }
    inversion Hops as [|? ? Ho Hops']; subst.
    pose proof (pstep_inv s o Hs Ho) as H1.
    destruct (pstep pods s o) as [s1 out]. cbn [fst] in H1.
    destruct (IH s1 H1 Hops') as [I2 O2].
    destruct (prun pods s1 ops) as [s2 outs]. cbn [fst snd] in *.
    split; auto. constructor; auto. destruct H1 as (_ & _ & _ & _ & H1). exact H1.
  Qed.

  Lemma pinv_init ratio n :
    0 <= ratio <= Rmax -> 0 <= n_acpu n <= Ac -> 0 <= n_amem n <= Am -> node_bounded n ->
    pinv (pinit ratio n).
  Proof.
    intros. unfold pinit, pinv. cbn [ps_ratio ps_c ps_n].
    split; [lia|]. split; [apply cinv_init|]. split; [lia|]. split; [lia|]. assumption.
  Qed.

  Lemma prun_node_bounded ratio n ops :
    0 <= ratio <= Rmax -> 0 <= n_acpu n <= Ac -> 0 <= n_amem n <= Am -> node_bounded n ->
    Forall pop_ok ops ->
    Forall (fun on : pout * node => node_bounded (snd on)) (snd (prun pods (pinit ratio n) ops)) /\
    pinv (fst (prun pods (pinit ratio n) ops)).
  Proof.
    intros. destruct (prun_inv ops (pinit ratio n)); auto. apply pinv_init; auto.
  Qed.

  (* a handled report: event within bounds, node amounts non-negative, so the
     threshold lemma applies: the node shows the event exactly or at most 10/9 of it *)
  Lemma pstep_report_close s :
    pinv s -> o_handled (snd (pstep pods s (PReport 0))) = true -> label_on (n_label (ps_n s)) = true ->
    let s' := fst (pstep pods s (PReport 0)) in
    exists ev, o_ev (snd (pstep pods s (PReport 0))) = Some ev /\
      0 <= fst ev <= NBc /\ 0 <= snd ev <= NBm /\
      (cur_of (ps_n s') = ev \/
       (ps_n s' = ps_n s /\ (r_times (ps_r s) + 1) mod re_sync_period <> 0 /\
        close1 (fst (cur_of (ps_n s))) (fst ev) = true /\ close1 (snd (cur_of (ps_n s))) (snd ev) = true /\
        9 * fst (cur_of (ps_n s')) <= 10 * fst ev /\ 9 * snd (cur_of (ps_n s')) <= 10 * snd ev)).
  Proof.
    intros (Hr & Hc & Ha & Hm & Hn) H L.
    assert (Hr' : 0 <= ps_ratio s <= 100) by lia.
    destruct (pstep_report_node pods s H L) as (ev & E & C & _ & D). exists ev. split; auto.
    pose proof (cstep_inv (ps_ratio s) pods Ac Am Hr' HAc HAm Hpods (ps_c s)
                  (OReport false (n_label (ps_n s)) (n_annot (ps_n s)) (n_acpu (ps_n s)) (n_amem (ps_n s))) Hc (conj Ha Hm)) as (_ & O & SO).
    rewrite C in O. simpl in O. destruct (B_mono (ps_ratio s) Hr) as [M1 M2].
    destruct NB_le as (N1 & N2).
    split; [lia|]. split; [lia|].
    destruct D as [D|(D & F & S)].
    - left. rewrite D. apply write_ext_cur.
    - right. rewrite D. split; auto. split; auto.
      apply orb_false_iff in S as [S1 S2].
      assert (R1 : 0 <= fst (cur_of (ps_n s)) <= max_amount).
      { destruct Hn as [Hn _]. unfold cur_of, oz. simpl. destruct (n_xcpu (ps_n s)); simpl in *;
        unfold max_amount, max_alloc in *; lia. }
      assert (R2 : 0 <= snd (cur_of (ps_n s)) <= max_amount).
      { destruct Hn as [_ Hn]. unfold cur_of, oz. simpl. destruct (n_xmem (ps_n s)); simpl in *;
        unfold max_amount, max_alloc in *; lia. }
      assert (K1 : close1 (fst (cur_of (ps_n s))) (fst ev) = true).
      { apply exceeds_false_close; auto. unfold max_amount, max_alloc in *. lia. }
      assert (K2 : close1 (snd (cur_of (ps_n s))) (snd ev) = true).
      { apply exceeds_false_close; auto. unfold max_amount, max_alloc in *. lia. }
      repeat split; auto.
      + apply close1_bound in K1; lia.
      + apply close1_bound in K2; lia.
  Qed.

  Lemma lmax_nonneg l : 0 <= lmax l.
  Proof. induction l; simpl; lia. Qed.

  (* every emitted event is at most the largest sample in the queue (and zero at least) *)
  Lemma pstep_event_le_max_sample s fail ev :
    pinv s -> o_ev (snd (pstep pods s (PReport fail))) = Some ev ->
    0 <= fst ev <= lmax (map fst (c_queue (ps_c s))) /\ 0 <= snd ev <= lmax (map snd (c_queue (ps_c s))).
  Proof.
    intros (Hr & [Hl HF] & Ha & Hm & _) H. cbn [pstep] in H. unfold cstep in H.
    destruct ((fail =? 1) || negb (label_on (n_label (ps_n s)))); cbn [snd] in H; [discriminate|].
    destruct (compute_report (c_queue (ps_c s))) as [r|] eqn:C; cbn [snd] in H; [|discriminate].
    assert (Hev : ev = mask_event (effective_types (c_types (ps_c s)) (n_annot (ps_n s)))
                         (cap_event (ps_ratio s) (n_acpu (ps_n s)) (n_amem (ps_n s)) r)).
    { destruct (r_active (ps_r s)).
      - destruct (rhandle _ _ _ _) as [[r' n'] err]. cbn [snd o_ev] in H. congruence.
      - cbn [snd o_ev] in H. congruence. }
    assert (Hlen : (1 <= length (c_queue (ps_c s)) <= 10)%nat).
    { split; auto. destruct (c_queue (ps_c s)); [discriminate|simpl; lia]. }
    destruct (B_mono (ps_ratio s) Hr) as [M1 M2]. destruct NB_le as (N1 & N2).
    destruct (report_between_min_max (c_queue (ps_c s)) Hlen) as (c & m & E & B1 & B2 & P1 & P2).
    { eapply Forall_impl; [|exact HF]. simpl. intros u U. unfold max_alloc in *. lia. }
    rewrite C in E. injection E as ->. subst ev.
    pose proof (cap_event_bounds (ps_ratio s) (n_acpu (ps_n s)) (n_amem (ps_n s)) (c, m)
                  ltac:(lia) ltac:(lia) ltac:(lia) ltac:(cbn; lia) ltac:(cbn; lia)) as (K1 & K2 & _).
    cbn [fst snd] in K1, K2. unfold mask_event. cbn [fst snd].
    pose proof (lmax_nonneg (map fst (c_queue (ps_c s)))). pose proof (lmax_nonneg (map snd (c_queue (ps_c s)))).
    destruct (has_type 1 _), (has_type 2 _); lia.
  Qed.

  (* AFTER FIX 21d1eba: every emitted event is within ratio% of the allocatable the
     node has AT THAT MOMENT (not only of the largest allocatable of the history) *)
  Lemma pstep_event_current_allocatable s fail ev :
    pinv s -> o_ev (snd (pstep pods s (PReport fail))) = Some ev ->
    0 <= fst ev <= n_acpu (ps_n s) * ps_ratio s / 100 /\ 0 <= snd ev <= n_amem (ps_n s) * ps_ratio s / 100.
  Proof.
    intros (Hr & Hc & Ha & Hm & _) H.
    assert (Hr' : 0 <= ps_ratio s <= 100) by lia.
    pose proof (cstep_inv (ps_ratio s) pods Ac Am Hr' HAc HAm Hpods (ps_c s)
                  (OReport (fail =? 1) (n_label (ps_n s)) (n_annot (ps_n s)) (n_acpu (ps_n s)) (n_amem (ps_n s)))
                  Hc (conj Ha Hm)) as (_ & _ & SO).
    cbn [pstep] in H.
    destruct (snd (cstep (ps_ratio s) pods (ps_c s) _)) as [f q|[e|]|e]; cbn [snd o_ev] in H; try discriminate.
    assert (e = ev).
    { destruct (r_active (ps_r s)).
      - destruct (rhandle _ _ _ _) as [[r' n'] err]. cbn [snd o_ev] in H. congruence.
      - cbn [snd o_ev] in H. congruence. }
    subst e. exact SO.
  Qed.

  (* second audit N2: after a handled report the node shows at most 10/9 of ratio%
     of the node's CURRENT allocatable (the event is capped by it, the threshold adds 1/9) *)
  Lemma pstep_report_node_current s :
    pinv s -> o_handled (snd (pstep pods s (PReport 0))) = true -> label_on (n_label (ps_n s)) = true ->
    let n' := ps_n (fst (pstep pods s (PReport 0))) in
    9 * fst (cur_of n') * 100 <= 10 * (n_acpu (ps_n s) * ps_ratio s) /\
    9 * snd (cur_of n') * 100 <= 10 * (n_amem (ps_n s) * ps_ratio s).
  Proof.
    intros Hinv H L n'.
    destruct (pstep_report_close s Hinv H L) as (ev & E & _ & _ & D).
    destruct (pstep_event_current_allocatable s 0 ev Hinv E) as [[P1 Q1] [P2 Q2]].
    pose proof (Z.mul_div_le (n_acpu (ps_n s) * ps_ratio s) 100 ltac:(lia)).
    pose proof (Z.mul_div_le (n_amem (ps_n s) * ps_ratio s) 100 ltac:(lia)).
    subst n'. destruct D as [D|(_ & _ & _ & _ & K1 & K2)].
    - rewrite D. lia.
    - lia.
  Qed.

  (* every 6th handled report is written whatever the threshold says *)
  Lemma pstep_report_forced s :
    o_handled (snd (pstep pods s (PReport 0))) = true -> label_on (n_label (ps_n s)) = true ->
    (r_times (ps_r s) + 1) mod re_sync_period = 0 ->
    exists ev, o_ev (snd (pstep pods s (PReport 0))) = Some ev /\ cur_of (ps_n (fst (pstep pods s (PReport 0)))) = ev.
  Proof.
    intros H L F. destruct (pstep_report_node pods s H L) as (ev & E & _ & _ & D). exists ev. split; auto.
    destruct D as [D|(_ & F' & _)]; [|contradiction]. rewrite D. apply write_ext_cur.
  Qed.

  (* zero for switched-off types ON THE NODE after the next handled report *)
  Lemma pstep_report_switched_off s :
    pinv s -> o_handled (snd (pstep pods s (PReport 0))) = true -> label_on (n_label (ps_n s)) = true ->
    let ty := effective_types (c_types (ps_c s)) (n_annot (ps_n s)) in
    let n' := ps_n (fst (pstep pods s (PReport 0))) in
    (has_type 1 ty = false -> fst (cur_of n') = 0) /\ (has_type 2 ty = false -> snd (cur_of n') = 0).
  Proof.
    intros Hinv H L ty n'.
    destruct (pstep_report_node pods s H L) as (ev & _ & C & _ & _).
    destruct (cstep (ps_ratio s) pods (ps_c s) (OReport false (n_label (ps_n s)) (n_annot (ps_n s)) (n_acpu (ps_n s)) (n_amem (ps_n s)))) as [c1 o1] eqn:CS.
    simpl in C. subst o1.
    destruct (report_step_masked _ _ _ _ _ _ _ _ _ _ CS) as [Z1 Z2].
    destruct (pstep_report_close s Hinv H L) as (ev' & E' & _ & _ & D).
    assert (ev' = ev).
    { destruct (pstep_report_node pods s H L) as (ev2 & E2 & C2 & _). rewrite CS in C2. simpl in C2.
      injection C2 as ->. congruence. }
    subst ev'. destruct Hinv as (_ & _ & _ & _ & Hn).
    split; intros T.
    - specialize (Z1 T). destruct D as [D|(D & _ & K1 & _)].
      + subst n'. rewrite D. exact Z1.
      + subst n'. rewrite D. rewrite Z1 in K1. apply close1_zero_event; auto.
        destruct Hn as [Hn _]. unfold cur_of, oz. simpl. destruct (n_xcpu (ps_n s)); simpl in *; lia.
    - specialize (Z2 T). destruct D as [D|(D & _ & _ & K2 & _)].
      + subst n'. rewrite D. exact Z2.
      + subst n'. rewrite D. rewrite Z2 in K2. apply close1_zero_event; auto.
        destruct Hn as [_ Hn]. unfold cur_of, oz. simpl. destruct (n_xmem (ps_n s)); simpl in *; lia.
  Qed.
End Pipeline.

(* a report on a node whose label is not "true"/"1" is ignored altogether: no
   counter, no write (the handler returns before reportTimes++) *)
Lemma rhandle_label_off r n ev fail :
  fail <> 2 -> label_on (n_label n) = false -> rhandle r n ev fail = (r, n, 0).
Proof.
  intros F L. unfold rhandle. destruct (fail =? 2) eqn:E; [apply Z.eqb_eq in E; contradiction|].
  rewrite L. reflexivity.
Qed.

(* ---------- how long a stale amount can stay: unboundedly while the handler is inactive ---------- *)
Definition quiet_op (o : pop) : Prop :=
  match o with PSample _ _ _ _ _ _ | PReport _ | PTypes _ _ | PSetAlloc _ _ | PSetAnnot _ => True | _ => False end.

Lemma pstep_quiet_inactive pods s o : quiet_op o -> r_active (ps_r s) = false ->
  ext_same (ps_n (fst (pstep pods s o))) (ps_n s) /\ r_active (ps_r (fst (pstep pods s o))) = false.
Proof.
  intros Q A. destruct o; simpl in Q; try contradiction; cbn [pstep].
  - match goal with |- context [cstep ?a ?b ?c ?d] => destruct (cstep a b c d) as [c' out] end.
    cbn [fst ps_n ps_r]. split; [split; reflexivity|exact A].
  - match goal with |- context [cstep ?a ?b ?c ?d] => destruct (snd (cstep a b c d)) as [f q|[ev|]|e] end;
      try (cbn [fst]; split; [split; reflexivity|exact A]).
    rewrite A. cbn [fst]. split; [split; reflexivity|exact A].
  - match goal with |- context [cstep ?a ?b ?c ?d] => destruct (cstep a b c d) as [c' out] end.
    cbn [fst ps_n ps_r]. split; [split; reflexivity|exact A].
  - cbn [fst ps_n ps_r]. split; [split; reflexivity|exact A].
  - cbn [fst ps_n ps_r]. split; [split; reflexivity|exact A].
Qed.

(* while the handler is inactive NO sequence of sampling / report / type
   configuration / allocatable / annotation steps changes what the node shows:
   a non-zero amount (also of a switched-off type) stays indefinitely *)
Lemma prun_stale_while_inactive pods : forall ops s, Forall quiet_op ops -> r_active (ps_r s) = false ->
  ext_same (ps_n (fst (prun pods s ops))) (ps_n s).
Proof.
  induction ops as [|o ops IH]; intros s Q A; cbn [prun]. { split; reflexivity. }
  inversion Q as [|? ? Qo Qr]; subst.
  destruct (pstep_quiet_inactive pods s o Qo A) as [[E1 E2] A'].
  destruct (pstep pods s o) as [s1 out]. cbn [fst] in *.
  specialize (IH s1 Qr A'). destruct (prun pods s1 ops) as [s2 outs]. cbn [fst] in *.
  destruct IH as [I1 I2]. split; congruence.
Qed.

(* ---------- the literal statement is refuted by the update threshold ---------- *)
Definition stale_history : list pop :=
  [PTypes 3 [1; 2]; PReporterCfg true true 0;
   PSample false false 1 0 0 0; PReport 0;            (* node: 600 m *)
   PRestart 57; PTypes 3 [1; 2]; PReporterCfg true true 0;
   PSample false false 1 0 0 0; PReport 0].           (* computed 570 m, node keeps 600 m *)

Lemma node_strict_refuted :
  exists ops n0, let '(s, outs) := prun [] (pinit 60 n0) ops in
    n_acpu (ps_n s) = 1000 /\ ps_ratio s = 57 /\ c_queue (ps_c s) = [(570, 570)] /\
    n_xcpu (ps_n s) = Some 600 /\
    (* more than ratio% of allocatable and more than the largest sample in the queue *)
    law_node_strict (ps_ratio s) 1000 1000 (c_queue (ps_c s)) (n_xcpu (ps_n s)) (n_xmem (ps_n s)) = false.
Proof.
  exists stale_history, (mkNode 1 1000 1000 None None None). vm_compute. repeat split; reflexivity.
Qed.

(* ---------- Prop-level meaning of the boolean laws on the node ---------- *)
Lemma optz_eqb_eq a b : optz_eqb a b = true -> a = b.
Proof. destruct a, b; simpl; intros H; try discriminate; auto. apply Z.eqb_eq in H. congruence. Qed.

Lemma law_node_bounds_sound rmax amaxc amaxm k xc xm :
  0 <= rmax <= 100 -> 0 <= amaxc <= rep_max -> 0 <= amaxm <= rep_max ->
  law_node_bounds rmax amaxc amaxm k xc xm = true ->
  k = true /\
  match xc with None => True | Some x => 0 <= x /\ x * 100 <= amaxc * rmax end /\
  match xm with None => True | Some x => 0 <= x /\ x * 100 <= amaxm * rmax end.
Proof.
  intros Hr Hc Hm. unfold law_node_bounds, zin.
  replace ((0 <=? rmax) && (rmax <=? 100) && ((0 <=? amaxc) && (amaxc <=? rep_max)) &&
           ((0 <=? amaxm) && (amaxm <=? rep_max))) with true.
  2:{ symmetry. repeat (apply andb_true_iff; split); apply Z.leb_le; lia. }
  intros H. apply andb_true_iff in H as [K H]. apply andb_true_iff in H as [H1 H2].
  split; auto. unfold law_node_bound1 in *.
  split; [destruct xc|destruct xm]; auto;
    [apply andb_true_iff in H1 as [A B]|apply andb_true_iff in H2 as [A B]]; apply Z.leb_le in A, B; auto.
Qed.

Lemma law_switched_off_sound cfg annot ac am :
  law_switched_off cfg annot ac am = true ->
  (has_type 1 (effective_types cfg annot) = false -> oz ac = 0) /\
  (has_type 2 (effective_types cfg annot) = false -> oz am = 0).
Proof.
  unfold law_switched_off. intros H. apply andb_true_iff in H as [H1 H2].
  split; intros T; rewrite T in *; simpl in *; apply Z.eqb_eq; assumption.
Qed.

Lemma law_report_step_sound forced bc bm ac am ev :
  0 <= oz bc <= rep_max -> 0 <= oz bm <= rep_max -> 0 <= fst ev <= rep_max -> 0 <= snd ev <= rep_max ->
  law_report_step forced bc bm ac am ev = true ->
  (oz ac = fst ev /\ oz am = snd ev) \/
  (ac = bc /\ am = bm /\ forced = false /\ close1 (oz bc) (fst ev) = true /\ close1 (oz bm) (snd ev) = true).
Proof.
  intros R1 R2 R3 R4. unfold law_report_step, zin.
  replace ((0 <=? oz bc) && (oz bc <=? rep_max) && ((0 <=? oz bm) && (oz bm <=? rep_max)) &&
           ((0 <=? fst ev) && (fst ev <=? rep_max)) && ((0 <=? snd ev) && (snd ev <=? rep_max))) with true.
  2:{ symmetry. repeat (apply andb_true_iff; split); apply Z.leb_le; lia. }
  intros H. apply orb_true_iff in H as [H|H].
  - left. apply andb_true_iff in H as [H _]. apply andb_true_iff in H as [A B]. apply Z.eqb_eq in A, B. auto.
  - right. repeat (apply andb_true_iff in H as [H ?]).
    apply optz_eqb_eq in H. repeat split; auto. now apply optz_eqb_eq. now apply negb_true_iff.
Qed.

Lemma law_cleanup_node_sound al ac am :
  law_cleanup_node al ac am = true -> label_on al = false /\ oz ac = 0 /\ oz am = 0.
Proof.
  unfold law_cleanup_node. intros H. apply andb_true_iff in H as [H C]. apply andb_true_iff in H as [A B].
  apply negb_true_iff in A. apply Z.eqb_eq in B, C. auto.
Qed.
