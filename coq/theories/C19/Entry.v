(* Entry point of the C19 correspondence: selector + tokens -> tokens.
   Selectors < 100 run the model; selectors >= 100 evaluate a law on the
   implementation's own results.  Field tags (-100-i) locate a disagreement. *)
From Coq Require Import ZArith List Bool.
From V Require Import Base.Codec C19.Model C19.Laws C19.Reporter C19.ReporterLaws.
Import ListNotations.
Open Scope Z_scope.

Definition tag (i : Z) : list Z := [-100 - i].

Definition dPod : dec pod :=
  let* id := dZ in let* qos := dZ in let* src := dZ in let* prio := dOpt dZ in
  let* kq := dZ in let* c := dZ in let* m := dZ in let* xc := dZ in let* xm := dZ in
  let* st := dBool in ret (mkPod id qos src prio kq c m xc xm st).

Definition dCop : dec cop :=
  let* t := dZ in
  if t =? 1 then
    let* ne := dBool in let* lb := dZ in let* ac := dZ in let* am := dZ in
    let* pe := dBool in let* po := dZ in let* uc := dZ in let* um := dZ in let* ps := dZ in
    ret (OSample ne lb ac am pe po uc um ps)
  else if t =? 2 then
    let* ne := dBool in let* lb := dZ in let* an := dOpt (dList dZ) in
    let* ac := dZ in let* am := dZ in ret (OReport ne lb an ac am)
  else if t =? 3 then
    let* k := dZ in let* l := dList dZ in ret (ORefresh k l)
  else fail.

Definition dEvent : dec pevent :=
  let* r := dZ in let* ne := dBool in let* pe := dBool in let* de := dBool in ret (mkEv r ne pe de).

Definition dCall : dec (Z * bool) := dPair dZ dBool.

Definition ePair (r : Z * Z) : list Z := [fst r; snd r].
Definition eCall (c : Z * bool) : list Z := fst c :: eBool (snd c).
Definition eZ (x : Z) : list Z := [x].

Definition eCout (o : cout) : list Z :=
  match o with
  | SampleOut f q => tag 1 ++ [f] ++ eList ePair q
  | ReportOut ev => tag 2 ++ eOpt ePair ev
  | RefreshOut err => tag 3 ++ eBool err
  end.

Definition eHout (o : hout * list Z) : list Z :=
  tag 11 ++ [h_err (fst o)] ++ eNat (h_tried (fst o)) ++ eList eCall (h_calls (fst o)) ++ eList eZ (snd o).


Definition dNode : dec node :=
  let* l := dZ in let* ac := dZ in let* am := dZ in let* an := dOpt (dList dZ) in
  let* xc := dOpt dZ in let* xm := dOpt dZ in ret (mkNode l ac am an xc xm).

Definition dPop : dec pop :=
  let* t := dZ in
  if t =? 1 then
    let* ne := dBool in let* pe := dBool in let* po := dZ in let* uc := dZ in let* um := dZ in
    let* ps := dZ in ret (PSample ne pe po uc um ps)
  else if t =? 2 then let* f := dZ in ret (PReport f)
  else if t =? 3 then let* k := dZ in let* l := dList dZ in ret (PTypes k l)
  else if t =? 4 then let* en := dBool in let* ne := dBool in let* f := dZ in ret (PReporterCfg en ne f)
  else if t =? 5 then let* l := dZ in ret (PSetLabel l)
  else if t =? 6 then let* c := dZ in let* m := dZ in ret (PSetAlloc c m)
  else if t =? 7 then let* a := dOpt (dList dZ) in ret (PSetAnnot a)
  else if t =? 8 then let* r := dZ in ret (PRestart r)
  else fail.

Definition eOptZ (o : option Z) : list Z := eOpt eZ o.

Definition ePout (o : pout * node) : list Z :=
  tag 31 ++ eOpt ePair (o_ev (fst o)) ++ eBool (o_handled (fst o)) ++ [o_err (fst o)] ++
  [n_label (snd o)] ++ eOptZ (n_xcpu (snd o)) ++ eOptZ (n_xmem (snd o)) ++ [1].

Definition count_true (l : list (Z * bool)) : Z := Z.of_nat (length (filter (fun c => snd c) l)).

Definition entry (sel : Z) (toks : list Z) : list Z :=
  match sel with
  (* calculator history: ratio, pod populations, ops *)
  | 1 => match run_dec (let* r := dZ in let* ps := dList (dList dPod) in let* ops := dList dCop in ret (r, ps, ops)) toks with
         | Some (r, ps, ops) =>
             let '(s, outs) := crun r ps cinit ops in
             flat_map eCout outs ++ tag 4 ++ eList ePair (c_queue s)
         | None => bad_input end
  (* the same calculator history, run by the harness through the agent's REAL constructor
     NewCalculator (registered policy, metric collector manager, config getters) *)
  | 5 => match run_dec (let* r := dZ in let* ps := dList (dList dPod) in let* ops := dList dCop in ret (r, ps, ops)) toks with
         | Some (r, ps, ops) =>
             let '(s, outs) := crun r ps cinit ops in
             flat_map eCout outs ++ tag 4 ++ eList ePair (c_queue s)
         | None => bad_input end
  (* pressure events: pods, failure flags, events *)
  | 2 => match run_dec (let* ps := dList dPod in let* fl := dList dBool in let* evs := dList dEvent in ret (ps, fl, evs)) toks with
         | Some (ps, fl, evs) =>
             let '(s, outs) := hrun (ps, fl) evs in
             flat_map eHout outs ++ tag 12 ++ eNat (length (snd s)) ++
             [fold_left (fun acc o => acc + count_true (h_calls (fst o))) outs 0]
         | None => bad_input end
  (* cleanup: pods, failure flags, index of the failing GetNode call *)
  | 3 => match run_dec (let* ps := dList dPod in let* fl := dList dBool in let* ne := dZ in ret (ps, fl, ne)) toks with
         | Some (ps, fl, ne) =>
             match cleanup ne (ps, fl) with
             | ClDone err rounds passes s =>
                 tag 21 ++ [err] ++ eNat rounds ++
                 eList (fun p => eList eCall (fst p) ++ eList eCall (snd p)) passes ++
                 eList eZ (map p_id (fst s)) ++
                 eNat (length (snd s))
             | ClFuel => tag 29
             end
         | None => bad_input end
  (* whole pipeline: ratio, pods, initial node, steps; the queue is printed after every step *)
  | 4 => match run_dec (let* r := dZ in let* ps := dList (dList dPod) in let* n := dNode in
                        let* ops := dList dPop in ret (r, ps, n, ops)) toks with
         | Some (r, ps, n, ops) =>
             (fix go (s : pstate) (l : list pop) : list Z :=
                match l with
                | [] => tag 32
                | o :: rest => let '(s1, out) := pstep ps s o in
                               ePout (out, ps_n s1) ++ eList ePair (c_queue (ps_c s1)) ++ go s1 rest
                end) (pinit r n) ops
         | None => bad_input end
  (* ---- laws on the implementation's results ---- *)
  | 101 => match run_dec (let* r := dZ in let* po := dZ in let* ps := dList dPod in
                          let* ac := dZ in let* am := dZ in let* uc := dZ in let* um := dZ in
                          let* g := dPair dZ dZ in ret (r, po, ps, ac, am, uc, um, g)) toks with
           | Some (r, po, ps, ac, am, uc, um, g) => eBool (law_sample r po ps ac am uc um g)
           | None => bad_input end
  | 102 => match run_dec (let* q := dList (dPair dZ dZ) in let* cfg := dList dZ in
                          let* an := dOpt (dList dZ) in let* r := dZ in let* ac := dZ in let* am := dZ in
                          let* ev := dOpt (dPair dZ dZ) in ret (q, cfg, an, r, ac, am, ev)) toks with
           | Some (q, cfg, an, r, ac, am, ev) => eBool (law_report q cfg an r ac am ev)
           | None => bad_input end
  | 103 => match run_dec (let* r := dZ in let* ps := dList dPod in
                          let* ss := dList (let* a := dZ in let* b := dZ in let* c := dZ in let* d := dZ in ret (a, b, c, d)) in
                          let* evs := dList (let* a := dZ in let* b := dZ in let* c := dZ in let* d := dZ in ret (a, b, c, d)) in
                          ret (r, ps, ss, evs)) toks with
           | Some (r, ps, ss, evs) => eBool (law_history r ps ss evs)
           | None => bad_input end
  | 104 => match run_dec (let* r := dZ in let* ac := dZ in let* am := dZ in let* ev := dPair dZ dZ in
                          ret (r, ac, am, ev)) toks with
           | Some (r, ac, am, ev) => eBool (law_event_current r ac am ev)
           | None => bad_input end
  | 110 => match run_dec (let* res := dZ in let* ps := dList dPod in let* cs := dList dCall in
                          let* af := dList dZ in ret (res, ps, cs, af)) toks with
           | Some (res, ps, cs, af) => eBool (law_evict res ps cs af)
           | None => bad_input end
  | 111 => match run_dec (let* ps := dList dPod in
                          let* cs := dList (dPair (dList dCall) (dList dCall)) in
                          let* af := dList dZ in ret (ps, cs, af)) toks with
           | Some (ps, cs, af) => eBool (law_cleanup ps cs af)
           | None => bad_input end
  | 112 => match run_dec (let* ps := dList dPod in let* cs := dList dCall in
                          let* af := dList dZ in ret (ps, cs, af)) toks with
           | Some (ps, cs, af) => eBool (law_no_eviction ps cs af)
           | None => bad_input end
  | 126 => match run_dec (let* r := dZ in let* a := dZ in let* b := dZ in
                          let* ac := dOpt dZ in let* am := dOpt dZ in ret (r, a, b, ac, am)) toks with
           | Some (r, a, b, ac, am) => eBool (law_node_current r a b ac am)
           | None => bad_input end
  | 120 => match run_dec (let* r := dZ in let* a := dZ in let* b := dZ in let* k := dBool in
                          let* xc := dOpt dZ in let* xm := dOpt dZ in ret (r, a, b, k, xc, xm)) toks with
           | Some (r, a, b, k, xc, xm) => eBool (law_node_bounds r a b k xc xm)
           | None => bad_input end
  | 121 => match run_dec (let* f := dBool in let* bc := dOpt dZ in let* bm := dOpt dZ in
                          let* ac := dOpt dZ in let* am := dOpt dZ in let* ev := dPair dZ dZ in
                          ret (f, bc, bm, ac, am, ev)) toks with
           | Some (f, bc, bm, ac, am, ev) => eBool (law_report_step f bc bm ac am ev)
           | None => bad_input end
  | 122 => match run_dec (let* cfg := dList dZ in let* an := dOpt (dList dZ) in
                          let* ac := dOpt dZ in let* am := dOpt dZ in ret (cfg, an, ac, am)) toks with
           | Some (cfg, an, ac, am) => eBool (law_switched_off cfg an ac am)
           | None => bad_input end
  | 123 => match run_dec (let* bl := dZ in let* bc := dOpt dZ in let* bm := dOpt dZ in
                          let* al := dZ in let* ac := dOpt dZ in let* am := dOpt dZ in
                          ret (bl, bc, bm, al, ac, am)) toks with
           | Some (bl, bc, bm, al, ac, am) => eBool (law_untouched bl bc bm al ac am)
           | None => bad_input end
  | 124 => match run_dec (let* al := dZ in let* ac := dOpt dZ in let* am := dOpt dZ in ret (al, ac, am)) toks with
           | Some (al, ac, am) => eBool (law_cleanup_node al ac am)
           | None => bad_input end
  | 125 => match run_dec (let* r := dZ in let* a := dZ in let* b := dZ in let* q := dList (dPair dZ dZ) in
                          let* ac := dOpt dZ in let* am := dOpt dZ in ret (r, a, b, q, ac, am)) toks with
           | Some (r, a, b, q, ac, am) => eBool (law_node_strict r a b q ac am)
           | None => bad_input end
  | _ => bad_input
  end.
