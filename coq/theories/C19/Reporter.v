(* C19 — model of the reporting path: from the emitted NodeResourceEvent to
   what is written on the Node object, and of the whole agent pipeline
   (sampling, report, reconfiguration, restart, administrator changes of the
   node).  Executable definitions only.

   Modelled Go code (pkg/agent/...):
     events/handlers/oversubscription/resource_reporter.go 73-107  reporter.Handle
     events/handlers/oversubscription/resource_reporter.go 109-151 RefreshCfg, shouldPatchOverSubscription
     events/handlers/base/base.go RefreshCfg + features.Enabled(OverSubscriptionFeature)
     events/framework/events.go 96-99                              only active handlers get the event
     oversubscription/policy/extend/extend.go 74-100               ShouldUpdateOverSubscription,
                                                                   UpdateOverSubscription, Cleanup
     oversubscription/policy/policy.go 145-159                     ShouldUpdateNodeOverSubscription
     utils/node/resource.go 84-101                                 GetNodeStatusOverSubscription
     utils/node/patcher.go 43-66, 68-100, 116-121, 146-158         update, updateNodeOverSoldStatus,
                                                                   deleteNodeOverSoldStatus, needUpdate
     utils/node/label.go 37-55                                     SetOverSubscriptionLabel, ResetOverSubscriptionLabel

   The amounts are written as the extended resources kubernetes.io/batch-cpu
   (milli-cpu count, DecimalSI) and kubernetes.io/batch-memory (bytes,
   BinarySI) into BOTH Status.Allocatable and Status.Capacity, unrounded.  The
   model keeps one optional integer per resource (the harness asserts that
   Allocatable and Capacity agree).

   float64(delta)/float64(current) > 0.1 is modelled on integers as
   10*delta > current for current > 0; for 0 <= delta, 0 < current <= 2^52 the
   two agree (the rounded quotient can only equal the double nearest to 0.1
   when the exact quotient is within 1.25e-17 of it, which needs
   current > 8e15).  current = 0: x/0 = +Inf > 0.1 for x > 0, 0/0 = NaN is not. *)
From Coq Require Import ZArith List Bool.
From V Require Import C19.Model.
Import ListNotations.
Open Scope Z_scope.

Record node := mkNode {
  n_label : Z;                 (* volcano.sh/oversubscription: 0 absent 1 "true" 2 "false" 3 "yes" 4 "1" *)
  n_acpu : Z;                  (* Status.Allocatable cpu, milli *)
  n_amem : Z;                  (* Status.Allocatable memory, bytes *)
  n_annot : option (list Z);   (* volcano.sh/oversubscription-types *)
  n_xcpu : option Z;           (* reported over-subscribed cpu (extended resource), absent = None *)
  n_xmem : option Z            (* reported over-subscribed memory *)
}.

Definition oz (o : option Z) : Z := match o with Some v => v | None => 0 end.

(* GetNodeStatusOverSubscription: absent reads as 0 *)
Definition cur_of (n : node) : Z * Z := (oz (n_xcpu n), oz (n_xmem n)).

(* one resource of ShouldUpdateNodeOverSubscription *)
Definition exceeds (cur new : Z) : bool :=
  let d0 := sub64 new cur in
  let d := if d0 <? 0 then wrap64 (- d0) else d0 in
  if cur =? 0 then negb (d =? 0)
  else if cur <? 0 then false
  else cur <? 10 * d.

Definition should_update (cur new : Z * Z) : bool :=
  exceeds (fst cur) (fst new) || exceeds (snd cur) (snd new).

(* UpdateNodeExtendResource through update/needUpdate: quantities are compared
   by value and an absent quantity equals zero, so writing (0,0) on a node
   without the extended resources changes nothing *)
Definition write_ext (n : node) (ev : Z * Z) : node :=
  if (fst (cur_of n) =? fst ev) && (snd (cur_of n) =? snd ev) then n
  else mkNode (n_label n) (n_acpu n) (n_amem n) (n_annot n) (Some (fst ev)) (Some (snd ev)).

Record rstate := mkR {
  r_times : Z;        (* reportTimes *)
  r_enabled : bool;   (* reporter.enabled *)
  r_active : bool     (* BaseHandle.Active: inactive handlers do not get events *)
}.
Definition rinit : rstate := mkR 0 true false.

Definition re_sync_period : Z := 6.

(* reporter.Handle.  fail = 2: the handler's own node read fails (error returned);
   3: the node read inside update fails; 4: the UpdateStatus call fails (both only logged) *)
Definition rhandle (r : rstate) (n : node) (ev : Z * Z) (fail : Z) : rstate * node * Z :=
  if fail =? 2 then (r, n, 1)
  else if negb (label_on (n_label n)) then (r, n, 0)
  else
    let t := r_times r + 1 in
    let r' := mkR t (r_enabled r) (r_active r) in
    if (t mod re_sync_period =? 0) || should_update (cur_of n) ev then
      if (fail =? 3) || (fail =? 4) then (r', n, 0) else (r', write_ext n ev, 0)
    else (r', n, 0).

(* DeleteNodeOverSoldStatus: label "false" when present, extended resources
   deleted; needUpdate compares quantities (absent = 0).  fail = 1: node read
   fails, 2: UpdateStatus fails *)
Definition reset_label (l : Z) : Z := if l =? 0 then 0 else 2.
Definition cleanup_node (n : node) (fail : Z) : node * bool :=
  if fail =? 1 then (n, true)
  else
    let changed := negb (reset_label (n_label n) =? n_label n) ||
                   negb (oz (n_xcpu n) =? 0) || negb (oz (n_xmem n) =? 0) in
    if negb changed then (n, false)
    else if fail =? 2 then (n, true)
    else (mkNode (reset_label (n_label n)) (n_acpu n) (n_amem n) (n_annot n) None None, false).

(* SetOverSubscriptionLabel *)
Definition set_label_true (n : node) (fail : Z) : node * bool :=
  if fail =? 1 then (n, true)
  else if n_label n =? 1 then (n, false)
  else if fail =? 2 then (n, true)
  else (mkNode 1 (n_acpu n) (n_amem n) (n_annot n) (n_xcpu n) (n_xmem n), false).

(* reporter.RefreshCfg with a complete configuration (all pointers set, the
   feature supported): Active := nodeOverSubscriptionEnable && enable *)
Definition rrefresh (r : rstate) (n : node) (enable node_enable : bool) (fail : Z) : rstate * node * bool :=
  let act := node_enable && enable in
  if negb enable then
    let '(n', err) := cleanup_node n fail in (mkR (r_times r) false act, n', err)
  else if r_enabled r && negb node_enable then
    let '(n', err) := cleanup_node n fail in (mkR (r_times r) (r_enabled r) act, n', err)
  else
    let '(n', err) := set_label_true n fail in
    if err then (mkR (r_times r) (r_enabled r) act, n', true)
    else (mkR (r_times r) true act, n', false).

(* ---------- the whole pipeline ---------- *)
Record pstate := mkP { ps_ratio : Z; ps_c : cstate; ps_r : rstate; ps_n : node }.

Inductive pop :=
| PSample (node_err pods_err : bool) (policy ucpu umem : Z) (psel : Z)
| PReport (fail : Z)               (* 0 none, 1 the probe's node read fails, 2/3/4 see rhandle *)
| PTypes (kind : Z) (types : list Z)
| PReporterCfg (enable node_enable : bool) (fail : Z)
| PSetLabel (l : Z)                (* administrator edits of the node *)
| PSetAlloc (acpu amem : Z)
| PSetAnnot (a : option (list Z))
| PRestart (ratio : Z).            (* new agent process: queue, types, counters start afresh *)

Record pout := mkO {
  o_ev : option (Z * Z);           (* NodeResourceEvent emitted by this step *)
  o_handled : bool;                (* the reporter was given the event *)
  o_err : Z                        (* error returned by the step's entry point (0 none) *)
}.

Definition with_label (n : node) (l : Z) : node :=
  mkNode l (n_acpu n) (n_amem n) (n_annot n) (n_xcpu n) (n_xmem n).
Definition with_alloc (n : node) (c m : Z) : node :=
  mkNode (n_label n) c m (n_annot n) (n_xcpu n) (n_xmem n).
Definition with_annot (n : node) (a : option (list Z)) : node :=
  mkNode (n_label n) (n_acpu n) (n_amem n) a (n_xcpu n) (n_xmem n).

Definition pstep (pods : list (list pod)) (s : pstate) (o : pop) : pstate * pout :=
  let n := ps_n s in
  match o with
  | PSample node_err pods_err policy ucpu umem psel =>
      let '(c', _) := cstep (ps_ratio s) pods (ps_c s)
                        (OSample node_err (n_label n) (n_acpu n) (n_amem n) pods_err policy ucpu umem psel) in
      (mkP (ps_ratio s) c' (ps_r s) n, mkO None false 0)
  | PReport fail =>
      match snd (cstep (ps_ratio s) pods (ps_c s) (OReport (fail =? 1) (n_label n) (n_annot n) (n_acpu n) (n_amem n))) with
      | ReportOut (Some ev) =>
          if r_active (ps_r s) then
            let '(r', n', err) := rhandle (ps_r s) n ev fail in
            (mkP (ps_ratio s) (ps_c s) r' n', mkO (Some ev) true err)
          else (s, mkO (Some ev) false 0)
      | _ => (s, mkO None false 0)
      end
  | PTypes kind types =>
      let '(c', out) := cstep (ps_ratio s) pods (ps_c s) (ORefresh kind types) in
      (mkP (ps_ratio s) c' (ps_r s) n,
       mkO None false (match out with RefreshOut true => 1 | _ => 0 end))
  | PReporterCfg enable node_enable fail =>
      let '(r', n', err) := rrefresh (ps_r s) n enable node_enable fail in
      (mkP (ps_ratio s) (ps_c s) r' n', mkO None false (if err then 1 else 0))
  | PSetLabel l => (mkP (ps_ratio s) (ps_c s) (ps_r s) (with_label n l), mkO None false 0)
  | PSetAlloc c m => (mkP (ps_ratio s) (ps_c s) (ps_r s) (with_alloc n c m), mkO None false 0)
  | PSetAnnot a => (mkP (ps_ratio s) (ps_c s) (ps_r s) (with_annot n a), mkO None false 0)
  | PRestart ratio => (mkP ratio cinit rinit n, mkO None false 0)
  end.

Fixpoint prun (pods : list (list pod)) (s : pstate) (ops : list pop) : pstate * list (pout * node) :=
  match ops with
  | [] => (s, [])
  | o :: r => let '(s1, out) := pstep pods s o in
              let '(s2, outs) := prun pods s1 r in (s2, (out, ps_n s1) :: outs)
  end.

Definition pinit (ratio : Z) (n : node) : pstate := mkP ratio cinit rinit n.
