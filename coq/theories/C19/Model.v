(* C19 — model of the node agent's over-subscription calculator and of the
   eviction of offline pods.  Executable definitions only, no proofs.

   Modelled Go code (pkg/agent/...):
     oversubscription/policy/extend/extend.go 110-152   CalOverSubscriptionResources
     oversubscription/policy/extend/extend.go 83-100    Cleanup
     oversubscription/policy/policy.go 100-143          EvictPods
     oversubscription/queue/internal_queue.go           SqQueue
     events/probes/noderesources/resource_calculator.go 79-169
                                                        RefreshCfg, preProcess, computeOverSubRes,
                                                        getOverSubscriptionTypes
     events/handlers/eviction/eviction.go 65-103        manager.Handle
     utils/eviction/eviction.go 105-120                 Evict (critical pods refused)
     utils/node/resource.go 43-53, 132-154              UseExtendResource, GetLatestPodsAndResList
     utils/node/node.go 47-50                           IsNodeSupportOverSubscription
     utils/pod/pod.go 57-131                            sorters, IsPreemptablePod, GuaranteedPodsCPURequest,
                                                        FilterOutPreemptablePods
     apis/extension/qos.go 38-54                        qosLevelMap, GetQosLevel

   Go int64 arithmetic wraps; the wrap is written explicitly so that the model
   agrees with the code on ALL int64 inputs and the theorems can say under
   which input range no wrap happens. *)
From Coq Require Import ZArith List Bool.
Import ListNotations.
Open Scope Z_scope.

(* ---------- int64 ---------- *)
Definition two63 : Z := 9223372036854775808.
Definition two64 : Z := 18446744073709551616.
Definition wrap64 (x : Z) : Z := (x + two63) mod two64 - two63.
Definition add64 (a b : Z) : Z := wrap64 (a + b).
Definition sub64 (a b : Z) : Z := wrap64 (a - b).
Definition mul64 (a b : Z) : Z := wrap64 (a * b).
(* Go's / truncates toward zero.  The divisors that occur are the constant 100
   and a positive total weight, so the one wrapping quotient MinInt64 / -1
   cannot occur and no wrap is applied. *)
Definition quot64 (a b : Z) : Z := Z.quot a b.

(* ---------- pods ---------- *)
Record pod := mkPod {
  p_id : Z;              (* name table kept by the harness *)
  p_qos : Z;             (* volcano.sh/qos-level: 0 absent 1 LC 2 HLS 3 LS 4 BE, other = unknown text *)
  p_src : Z;             (* 0 no kubelet annotation, 1 config.source=file (static pod),
                            2 config.mirror present (mirror pod), 3 config.source=api *)
  p_prio : option Z;     (* Spec.Priority *)
  p_kqos : Z;            (* Status.QOSClass: 0 BestEffort 1 Burstable 2 Guaranteed *)
  p_cpu : Z;             (* effective cpu request, milli *)
  p_mem : Z;             (* effective memory request, bytes *)
  p_xcpu : Z;            (* request of the extend cpu resource kubernetes.io/batch-cpu *)
  p_xmem : Z;            (* request of the extend memory resource kubernetes.io/batch-memory *)
  p_stuck : bool         (* environment: the API server refuses every eviction of this pod *)
}.

(* qos.go: qosLevelMap / GetQosLevel; unknown or absent annotation gives 0 *)
Definition qos_level (q : Z) : Z :=
  match q with
  | 1 => 2 | 2 => 2 | 3 => 1 | 4 => -1
  | _ => 0
  end.

(* pod.go IsPreemptablePod: an offline pod *)
Definition preemptable (p : pod) : bool := qos_level (p_qos p) <? 0.

(* kubelet types.IsCriticalPod: static, mirror, or priority >= SystemCriticalPriority *)
Definition system_critical_priority : Z := 2000000000.
Definition critical (p : pod) : bool :=
  (p_src p =? 1) || (p_src p =? 2) ||
  match p_prio p with Some v => system_critical_priority <=? v | None => false end.

(* pod.go IsGuaranteedAndNonPreemptablePods *)
Definition guaranteed_online (p : pod) : bool := (p_kqos p =? 2) && negb (preemptable p).

(* utils.GetCPUManagerPolicy as seen by IncludeGuaranteedPods:
   0 state file missing, 1 "none", 2 "static", 3 unparsable file, other = another policy name *)
Definition include_guaranteed (policy : Z) : bool :=
  (policy =? 0) || (policy =? 1) || (policy =? 3).

(* pod.go GuaranteedPodsCPURequest (a resource.Quantity sum: no int64 wrap) *)
Definition guaranteed_cpu_request (policy : Z) (pods : list pod) : Z :=
  if include_guaranteed policy then 0
  else fold_left (fun acc p => if guaranteed_online p then acc + p_cpu p else acc) pods 0.

(* node.go IsNodeSupportOverSubscription: strconv.ParseBool of the label;
   0 absent, 1 "true", 2 "false", 3 "yes" (not a bool), 4 "1" *)
Definition label_on (l : Z) : bool := (l =? 1) || (l =? 4).

(* ---------- one sample: extend.go 132-150 ---------- *)
Definition calc_sample (total usage ratio : Z) : Z :=
  if total >=? usage then quot64 (mul64 (sub64 total usage) ratio) 100 else 0.

Definition sample_pair (ratio acpu amem greq ucpu umem : Z) : Z * Z :=
  (calc_sample (sub64 acpu greq) ucpu ratio, calc_sample amem umem ratio).

(* ---------- the queue: internal_queue.go ---------- *)
Definition queue_size : nat := 10.
Definition enqueue (q : list (Z * Z)) (r : Z * Z) : list (Z * Z) :=
  let q' := q ++ [r] in
  if Nat.ltb queue_size (length q') then tl q' else q'.

(* ---------- computeOverSubRes: resource_calculator.go 125-145 ---------- *)
Definition wstate := (Z * Z * Z * Z)%type.  (* cpu acc, memory acc, totalWeight, initWeight *)
Definition wstep (s : wstate) (u : Z * Z) : wstate :=
  let '(ac, am, tw, w) := s in
  (add64 ac (mul64 (fst u) w), add64 am (mul64 (snd u) w), add64 tw w, mul64 w 2).
Definition compute_report (q : list (Z * Z)) : option (Z * Z) :=
  match q with
  | [] => None
  | _ => let '(ac, am, tw, _) := fold_left wstep q (0, 0, 0, 1) in
         Some (quot64 ac tw, quot64 am tw)
  end.

(* ---------- resource type lists ----------
   A list element t stands for one comma-separated item of the configured /
   annotated string: t mod 10 is the trimmed name (0 empty, 1 cpu, 2 memory,
   other = some other name), t / 10 is white-space decoration the harness adds
   and strings.TrimSpace removes. *)
Definition has_type (n : Z) (l : list Z) : bool := existsb (fun t => t mod 10 =? n) l.

(* the node annotation volcano.sh/oversubscription-types overrides the
   configuration unless it is absent or the empty string; the rendered string
   is empty exactly for [] and [0] *)
Definition annot_effective (a : option (list Z)) : option (list Z) :=
  match a with
  | None => None
  | Some [] => None
  | Some [0] => None
  | Some l => Some l
  end.
Definition effective_types (cfg : list Z) (a : option (list Z)) : list Z :=
  match annot_effective a with Some l => l | None => cfg end.

Definition mask_event (types : list Z) (r : Z * Z) : Z * Z :=
  (if has_type 1 types then fst r else 0, if has_type 2 types then snd r else 0).

(* ---------- capByAllocatable: resource_calculator.go (fix 21d1eba) ----------
   the reported amount is capped by ratio% of the node's CURRENT allocatable;
   a ratio <= 0 means no cap *)
Definition cap1 (v lim : Z) : Z := if lim <? v then lim else v.
Definition cap_event (ratio acpu amem : Z) (r : Z * Z) : Z * Z :=
  if ratio <=? 0 then r
  else (cap1 (fst r) (quot64 (mul64 acpu ratio) 100), cap1 (snd r) (quot64 (mul64 amem ratio) 100)).

(* ---------- calculator state machine ---------- *)
Record cstate := mkC { c_queue : list (Z * Z); c_types : list Z }.
Definition cinit : cstate := mkC [] [].

Inductive cop :=
| OSample (node_err : bool) (label acpu amem : Z) (pods_err : bool) (policy ucpu umem : Z)
          (psel : Z)      (* which of the pod populations is active at this sampling step *)
| OReport (node_err : bool) (label : Z) (annot : option (list Z)) (acpu amem : Z)
| ORefresh (kind : Z) (types : list Z).  (* kind 0 cfg nil, 1 OverSubscriptionConfig nil, 2 types nil, other valid *)

Inductive cout :=
| SampleOut (usage_flag : Z) (queue : list (Z * Z))   (* flag given to UsagesByValue, -1 = not called *)
| ReportOut (ev : option (Z * Z))
| RefreshOut (err : bool).

(* the pod population changes between sampling steps: pops lists the populations
   of a history, a sampling step names the one that is active *)
Definition pods_at (pops : list (list pod)) (psel : Z) : list pod := nth (Z.to_nat psel) pops [].

Definition cstep (ratio : Z) (pops : list (list pod)) (s : cstate) (o : cop) : cstate * cout :=
  match o with
  | OSample node_err label acpu amem pods_err policy ucpu umem psel =>
      if node_err || negb (label_on label) || pods_err then (s, SampleOut (-1) (c_queue s))
      else
        let r := sample_pair ratio acpu amem (guaranteed_cpu_request policy (pods_at pops psel)) ucpu umem in
        let q := enqueue (c_queue s) r in
        (mkC q (c_types s), SampleOut (if include_guaranteed policy then 1 else 0) q)
  | OReport node_err label annot acpu amem =>
      if node_err || negb (label_on label) then (s, ReportOut None)
      else match compute_report (c_queue s) with
           | None => (s, ReportOut None)
           | Some r => (s, ReportOut (Some (mask_event (effective_types (c_types s) annot)
                                                        (cap_event ratio acpu amem r))))
           end
  | ORefresh kind types =>
      if (kind =? 0) || (kind =? 1) || (kind =? 2) then (s, RefreshOut true)
      else (mkC (c_queue s) types, RefreshOut false)
  end.

Fixpoint crun (ratio : Z) (pops : list (list pod)) (s : cstate) (ops : list cop) : cstate * list cout :=
  match ops with
  | [] => (s, [])
  | o :: r => let '(s1, out) := cstep ratio pops s o in
              let '(s2, outs) := crun ratio pops s1 r in (s2, out :: outs)
  end.

(* ---------- eviction ---------- *)
(* request of the pressured resource: the cpu sorter is used for cpu, the
   memory sorter for every other resource name (resource.go 139-143) *)
Definition req (res : Z) (p : pod) : Z := if res =? 1 then p_cpu p else p_mem p.

(* sort.Sort with Less(i,j) = request_i > request_j.  For at most 12 elements
   Go's sort.Sort is a plain insertion sort (stable); that is what is modelled.
   Longer lists go through pdqsort, whose order among equal requests is not
   modelled (the theorems only use: sorted permutation). *)
Fixpoint insert_desc (res : Z) (x : pod) (l : list pod) : list pod :=
  match l with
  | [] => [x]
  | y :: r => if req res y <? req res x then x :: l else y :: insert_desc res x r
  end.
Definition sort_desc (res : Z) (l : list pod) : list pod :=
  fold_left (fun acc x => insert_desc res x acc) l [].

(* GetLatestPodsAndResList: the preemptable pods, sorted *)
Definition victims (res : Z) (pods : list pod) : list pod :=
  sort_desc res (filter preemptable pods).

Definition remove_pod (id : Z) (pods : list pod) : list pod :=
  filter (fun p => negb (p_id p =? id)) pods.

(* answer of the eviction client: the next failure flag is consumed by every
   call that reaches the client; an exhausted flag list means success *)
Definition next_flag (fl : list bool) : bool * list bool :=
  match fl with [] => (false, []) | b :: t => (b, t) end.

Record attempt := mkAttempt {
  a_calls : list (Z * bool);   (* pods handed to the eviction client, with the client's answer *)
  a_tried : nat;               (* loop iterations (= DisableSchedule calls in the handler) *)
  a_flags : list bool;         (* failure flags left *)
  a_evicted : option Z         (* the one pod evicted, if any *)
}.

(* the loop "for _, pod := range preemptablePods { if Evict(pod) { break } }"
   with Evict = utils/eviction.Evict: a critical pod is refused before the client is called *)
Fixpoint try_evict (l : list pod) (fl : list bool) : attempt :=
  match l with
  | [] => mkAttempt [] 0 fl None
  | p :: r =>
      if critical p then
        let a := try_evict r fl in mkAttempt (a_calls a) (S (a_tried a)) (a_flags a) (a_evicted a)
      else
        let '(fail, fl') := next_flag fl in
        if negb (p_stuck p) && negb fail then mkAttempt [(p_id p, true)] 1 fl' (Some (p_id p))
        else let a := try_evict r fl' in
             mkAttempt ((p_id p, false) :: a_calls a) (S (a_tried a)) (a_flags a) (a_evicted a)
  end.

Definition after_attempt (pods : list pod) (a : attempt) : list pod :=
  match a_evicted a with Some id => remove_pod id pods | None => pods end.

(* a pressure event: res 0 = not a NodeMonitorEvent at all, 1 cpu, 2 memory,
   other = a resource name that is not an over-subscription type *)
Record pevent := mkEv { e_res : Z; e_node_err : bool; e_pods_err : bool; e_dis_err : bool }.

Record hout := mkH {
  h_err : Z;                   (* 0 nil, 1 getNode error, 2 getPods error *)
  h_tried : nat;
  h_calls : list (Z * bool)
}.

Definition estate := (list pod * list bool)%type.   (* active pods, failure flags *)

(* manager.Handle; e_dis_err (DisableSchedule fails) is only logged *)
Definition handle (s : estate) (e : pevent) : estate * hout :=
  let '(pods, fl) := s in
  if e_res e =? 0 then (s, mkH 0 0 [])
  else if e_node_err e then (s, mkH 1 0 [])
  else if negb ((e_res e =? 1) || (e_res e =? 2)) then (s, mkH 0 0 [])
  else if e_pods_err e then (s, mkH 2 0 [])
  else
    let a := try_evict (victims (e_res e) pods) fl in
    ((after_attempt pods a, a_flags a), mkH 0 (a_tried a) (a_calls a)).

Fixpoint hrun (s : estate) (evs : list pevent) : estate * list (hout * list Z) :=
  match evs with
  | [] => (s, [])
  | e :: r => let '(s1, o) := handle s e in
              let '(s2, os) := hrun s1 r in (s2, (o, map p_id (fst s1)) :: os)
  end.

(* ---------- Cleanup: extend.go 83-100 + policy.go EvictPods ---------- *)
(* resource.go UseExtendResource over getResourceList: the extend resource is
   requested by some active pod (offline or not) *)
Definition use_extend (res : Z) (pods : list pod) : bool :=
  negb (fold_left (fun acc p => acc + (if res =? 1 then p_xcpu p else p_xmem p)) pods 0 =? 0).

(* one pass of the inner loop for one resource type *)
Definition evict_pass (res : Z) (s : estate) : estate * list (Z * bool) * bool :=
  let '(pods, fl) := s in
  if use_extend res pods then
    let a := try_evict (victims res pods) fl in
    ((after_attempt pods a, a_flags a), a_calls a,
     match a_evicted a with Some _ => true | None => false end)
  else (s, [], false).

Inductive cl_result :=
| ClDone (err : Z) (rounds : nat) (passes : list (list (Z * bool) * list (Z * bool))) (s : estate)
    (* err 0 nil, 1 getNode error; passes: per round the client calls of the cpu pass and of the memory pass *)
| ClFuel.                                                               (* loop did not end within the fuel *)

(* the "for { ... }" of EvictPods; round = index of the GetNode call (call 0
   was made by DeleteNodeOverSoldStatus); node_err_at = the GetNode call that fails, if any *)
Fixpoint evict_loop (fuel : nat) (round : nat) (node_err_at : Z) (s : estate)
                    (acc : list (list (Z * bool) * list (Z * bool))) : cl_result :=
  match fuel with
  | O => ClFuel
  | S k =>
      if node_err_at =? Z.of_nat round then ClDone 1 round acc s
      else
        let '(s1, c1, k1) := evict_pass 1 s in
        let '(s2, c2, k2) := evict_pass 2 s1 in
        if k1 || k2 then evict_loop k (S round) node_err_at s2 (acc ++ [(c1, c2)])
        else ClDone 0 round (acc ++ [(c1, c2)]) s2
  end.

Definition cleanup (node_err_at : Z) (s : estate) : cl_result :=
  if node_err_at =? 0 then ClDone 1 0 [] s
  else evict_loop (S (length (fst s))) 1 node_err_at s [].
