(* Executable forms of the C19 statements about the value ON THE NODE OBJECT,
   evaluated after every step on what the implementation wrote.  None of them
   calls rhandle, rrefresh, write_ext or pstep. *)
From Coq Require Import ZArith List Bool.
From V Require Import C19.Model C19.Laws C19.Reporter.
Import ListNotations.
Open Scope Z_scope.

Definition rep_max : Z := 4503599627370496.   (* 2^52: the float test of the threshold is exact below *)

Definition optz_eqb (a b : option Z) : bool :=
  match a, b with
  | None, None => true
  | Some x, Some y => x =? y
  | _, _ => false
  end.

(* the reported amount is absent or within [0, rmax% of the largest allocatable seen] *)
Definition law_node_bound1 (rmax amax : Z) (v : option Z) : bool :=
  match v with None => true | Some x => (0 <=? x) && (x * 100 <=? amax * rmax) end.
(* consistent: Status.Allocatable and Status.Capacity carry the same amounts *)
Definition law_node_bounds (rmax amaxc amaxm : Z) (consistent : bool) (xc xm : option Z) : bool :=
  consistent &&
  if zin 0 100 rmax && zin 0 rep_max amaxc && zin 0 rep_max amaxm
  then law_node_bound1 rmax amaxc xc && law_node_bound1 rmax amaxm xm
  else true.

(* |e - c| is at most 10% of c; a zero amount only stands for a zero event *)
Definition close1 (c e : Z) : bool :=
  if c =? 0 then e =? 0 else (0 <? c) && (10 * Z.abs (e - c) <=? c).

(* a report handled without injected failure: the node carries the event, or
   it was left alone because the event is within 10% of what is there (never
   on a forced re-sync) *)
Definition law_report_step (forced : bool) (bc bm ac am : option Z) (ev : Z * Z) : bool :=
  if zin 0 rep_max (oz bc) && zin 0 rep_max (oz bm) && zin 0 rep_max (fst ev) && zin 0 rep_max (snd ev) then
    ((oz ac =? fst ev) && (oz am =? snd ev) &&
     (* a real write sets both keys *)
     ((optz_eqb ac bc && optz_eqb am bm) || (optz_eqb ac (Some (fst ev)) && optz_eqb am (Some (snd ev)))))
    ||
    (optz_eqb ac bc && optz_eqb am bm && negb forced && close1 (oz bc) (fst ev) && close1 (oz bm) (snd ev))
  else true.

(* after a handled report the amount of a switched-off type is zero *)
Definition law_switched_off (cfg : list Z) (annot : option (list Z)) (ac am : option Z) : bool :=
  let ty := effective_types cfg annot in
  (has_type 1 ty || (oz ac =? 0)) && (has_type 2 ty || (oz am =? 0)).

(* steps that do not report leave the reported fields alone *)
Definition law_untouched (bl : Z) (bc bm : option Z) (al : Z) (ac am : option Z) : bool :=
  (bl =? al) && optz_eqb bc ac && optz_eqb bm am.

(* after over-subscription was switched off successfully nothing is reported
   and the node no longer counts as an over-subscription node *)
Definition law_cleanup_node (al : Z) (ac am : option Z) : bool :=
  negb (label_on al) && (oz ac =? 0) && (oz am =? 0).

(* the literal statement: what the node shows is at most ratio% of the
   (largest, since the agent started) allocatable and at most the largest sample
   in the current queue *)
Definition law_node_strict (ratio amaxc amaxm : Z) (q : list (Z * Z)) (ac am : option Z) : bool :=
  (oz ac * 100 <=? amaxc * ratio) && (oz ac <=? lmax (map fst q)) &&
  (oz am * 100 <=? amaxm * ratio) && (oz am <=? lmax (map snd q)).

(* after a handled report without failure, against the node's CURRENT
   allocatable and ratio: at most 10/9 of ratio% (the update threshold's slack) *)
Definition law_node_current (ratio acpu amem : Z) (ac am : option Z) : bool :=
  if zin 0 100 ratio && zin 0 rep_max acpu && zin 0 rep_max amem
  then (9 * oz ac * 100 <=? 10 * (acpu * ratio)) && (9 * oz am * 100 <=? 10 * (amem * ratio))
  else true.
