(* C19 — proofs about the eviction part of the model: who can reach the
   eviction client, in which order, and how many evictions can succeed. *)
From Coq Require Import ZArith List Bool Lia Permutation Sorted.
From V Require Import C19.Model C19.Laws.
Import ListNotations.
Open Scope Z_scope.

(* ---------- the sort ---------- *)
Definition ge_req (res : Z) (a b : pod) : Prop := req res b <= req res a.

Lemma insert_perm res x l : Permutation (insert_desc res x l) (x :: l).
Proof.
  induction l as [|y r IH]; simpl; auto.
  destruct (req res y <? req res x); auto.
  eapply perm_trans; [apply perm_skip, IH|apply perm_swap].
Qed.

Lemma sort_perm_gen res l : forall acc,
  Permutation (fold_left (fun acc x => insert_desc res x acc) l acc) (l ++ acc).
Proof.
  induction l as [|x l IH]; intros acc; simpl; auto.
  eapply perm_trans; [apply IH|].
  eapply perm_trans; [apply Permutation_app_head, insert_perm|].
  symmetry. apply Permutation_middle.
Qed.

Lemma sort_perm res l : Permutation (sort_desc res l) l.
Proof. unfold sort_desc. rewrite <- (app_nil_r l) at 2. apply sort_perm_gen. Qed.

Lemma insert_sorted res x l :
  StronglySorted (ge_req res) l -> StronglySorted (ge_req res) (insert_desc res x l).
Proof.
  induction 1 as [|y r Hr IH Hy]; simpl.
  - constructor; constructor.
  - destruct (req res y <? req res x) eqn:E.
    + apply Z.ltb_lt in E. constructor. constructor; auto.
      constructor. unfold ge_req; lia.
      eapply Forall_impl; [|exact Hy]. unfold ge_req. intros; lia.
    + apply Z.ltb_ge in E. constructor; auto.
      rewrite Forall_forall. intros z Hz.
      apply (Permutation_in _ (insert_perm res x r)) in Hz. destruct Hz as [<-|Hz].
      * unfold ge_req; lia.
      * rewrite Forall_forall in Hy. auto.
Qed.

Lemma sort_sorted_gen res l : forall acc,
  StronglySorted (ge_req res) acc ->
  StronglySorted (ge_req res) (fold_left (fun acc x => insert_desc res x acc) l acc).
Proof. induction l; intros acc H; simpl; auto. apply IHl, insert_sorted, H. Qed.

Lemma sort_sorted res l : StronglySorted (ge_req res) (sort_desc res l).
Proof. apply sort_sorted_gen. constructor. Qed.

Lemma victims_perm res pods : Permutation (victims res pods) (filter preemptable pods).
Proof. apply sort_perm. Qed.

Lemma victims_in res pods p : In p (victims res pods) <-> In p pods /\ preemptable p = true.
Proof.
  rewrite <- filter_In. split; apply Permutation_in; [|symmetry]; apply victims_perm.
Qed.

Lemma victims_sorted res pods : StronglySorted (ge_req res) (victims res pods).
Proof. apply sort_sorted. Qed.

(* ---------- the eviction loop ---------- *)
Definition noncritical (p : pod) : bool := negb (critical p).

(* ghost: the pods behind the calls *)
Fixpoint tried_pods (l : list pod) (fl : list bool) : list pod :=
  match l with
  | [] => []
  | p :: r =>
      if critical p then tried_pods r fl
      else let '(fail, fl') := next_flag fl in
           if negb (p_stuck p) && negb fail then [p] else p :: tried_pods r fl'
  end.

Lemma tried_ids : forall l fl, map p_id (tried_pods l fl) = map fst (a_calls (try_evict l fl)).
Proof.
  induction l as [|p r IH]; intros fl; simpl; auto.
  destruct (critical p); simpl; auto.
  destruct (next_flag fl) as [fail fl'].
  destruct (negb (p_stuck p) && negb fail); simpl; auto. now rewrite IH.
Qed.

(* the pods tried are a prefix of the non-critical victims, in their order;
   the whole list when nothing succeeded *)
Lemma tried_prefix : forall l fl, exists rest,
  filter noncritical l = tried_pods l fl ++ rest /\
  (a_evicted (try_evict l fl) = None -> rest = []).
Proof.
  induction l as [|p r IH]; intros fl; simpl.
  - exists []. auto.
  - unfold noncritical at 1. destruct (critical p) eqn:C; simpl.
    + destruct (IH fl) as (rest & E & N). exists rest. auto.
    + destruct (next_flag fl) as [fail fl'].
      destruct (negb (p_stuck p) && negb fail); simpl.
      * exists (filter noncritical r). split; auto. discriminate.
      * destruct (IH fl') as (rest & E & N). exists rest. split; auto. now rewrite E.
Qed.

(* all calls but possibly the last failed; the last one is the eviction, if any *)
Lemma calls_shape : forall l fl, exists fails,
  Forall (fun c => snd c = false) fails /\
  a_calls (try_evict l fl) =
    fails ++ match a_evicted (try_evict l fl) with Some id => [(id, true)] | None => [] end.
Proof.
  induction l as [|p r IH]; intros fl; simpl.
  - exists []. auto.
  - destruct (critical p); simpl.
    + apply IH.
    + destruct (next_flag fl) as [fail fl'].
      destruct (negb (p_stuck p) && negb fail); simpl.
      * exists []. auto.
      * destruct (IH fl') as (fails & F & E). exists ((p_id p, false) :: fails).
        split. constructor; auto. simpl. now rewrite E.
Qed.

Lemma evicted_in : forall l fl id, a_evicted (try_evict l fl) = Some id ->
  exists p, In p l /\ p_id p = id /\ critical p = false /\ p_stuck p = false.
Proof.
  induction l as [|p r IH]; intros fl id; simpl. discriminate.
  destruct (critical p) eqn:C; simpl.
  - intros H. destruct (IH _ _ H) as (q & ? & ?). exists q; auto.
  - destruct (next_flag fl) as [fail fl'].
    destruct (negb (p_stuck p) && negb fail) eqn:S; simpl.
    + intros H. injection H as <-. exists p. repeat split; auto.
      apply andb_true_iff in S. destruct S as [S _]. now apply negb_true_iff in S.
    + intros H. destruct (IH _ _ H) as (q & ? & ?). exists q; auto.
Qed.

Lemma tried_in : forall l fl p, In p (tried_pods l fl) -> In p l /\ critical p = false.
Proof.
  induction l as [|q r IH]; intros fl p; simpl. tauto.
  destruct (critical q) eqn:C.
  - intros H. apply IH in H. tauto.
  - destruct (next_flag fl) as [fail fl'].
    destruct (negb (p_stuck q) && negb fail); simpl.
    + intros [<-|[]]. auto.
    + intros [<-|H]; auto. apply IH in H. tauto.
Qed.

Lemma calls_in : forall l fl c, In c (a_calls (try_evict l fl)) ->
  exists p, In p l /\ p_id p = fst c /\ critical p = false.
Proof.
  intros l fl c H.
  assert (Hid : In (fst c) (map p_id (tried_pods l fl))).
  { rewrite tried_ids. now apply in_map. }
  apply in_map_iff in Hid. destruct Hid as (p & E & Hp).
  apply tried_in in Hp. exists p. tauto.
Qed.

Lemma tried_count : forall l fl, (a_tried (try_evict l fl) <= length l)%nat.
Proof.
  induction l as [|p r IH]; intros fl; simpl. lia.
  destruct (critical p); simpl. specialize (IH fl); lia.
  destruct (next_flag fl) as [fail fl'].
  destruct (negb (p_stuck p) && negb fail); simpl. lia. specialize (IH fl'). lia.
Qed.

(* consequences of the shape *)
Lemma shape_one_success fails (o : option Z) :
  Forall (fun c : Z * bool => snd c = false) fails ->
  let cs := fails ++ match o with Some id => [(id, true)] | None => [] end in
  (length (filter (fun c => snd c) cs) <= 1)%nat /\
  (forall pre c post, cs = pre ++ c :: post -> snd c = true -> post = []).
Proof.
  intros F cs. subst cs. split.
  - rewrite filter_app, app_length.
    assert (filter (fun c : Z * bool => snd c) fails = []).
    { induction F; simpl; auto. now rewrite H. }
    rewrite H. destruct o; simpl; lia.
  - intros pre c post E Hc.
    revert pre E. induction F as [|f fails Hf F IH]; intros pre E.
    + destruct o; simpl in E.
      * destruct pre as [|x pre]; simpl in E. now injection E as _ <-.
        injection E as _ E. destruct pre; discriminate.
      * destruct pre; discriminate.
    + destruct pre as [|x pre]; simpl in E.
      * injection E as <- _. congruence.
      * injection E as _ E. eauto.
Qed.

(* ---------- one pressure event ---------- *)
Lemma remove_pod_incl id pods : incl (remove_pod id pods) pods.
Proof. intros p H. unfold remove_pod in H. apply filter_In in H. tauto. Qed.

Lemma after_attempt_incl pods a : incl (after_attempt pods a) pods.
Proof. unfold after_attempt. destruct (a_evicted a). apply remove_pod_incl. apply incl_refl. Qed.

Lemma nodup_id_eq pods p q :
  NoDup (map p_id pods) -> In p pods -> In q pods -> p_id p = p_id q -> p = q.
Proof.
  induction pods as [|x r IH]; simpl; intros ND Hp Hq E. tauto.
  inversion ND as [|? ? Hx ND']; subst.
  destruct Hp as [<-|Hp], Hq as [<-|Hq]; auto.
  - exfalso. apply Hx. rewrite E. now apply in_map.
  - exfalso. apply Hx. rewrite <- E. now apply in_map.
Qed.

Definition processed (e : pevent) : bool :=
  ((e_res e =? 1) || (e_res e =? 2)) && negb (e_node_err e) && negb (e_pods_err e).

Lemma handle_processed pods fl e : processed e = true ->
  handle (pods, fl) e =
    let a := try_evict (victims (e_res e) pods) fl in
    ((after_attempt pods a, a_flags a), mkH 0 (a_tried a) (a_calls a)).
Proof.
  unfold processed, handle. intros H.
  apply andb_true_iff in H as [H H3]. apply andb_true_iff in H as [H1 H2].
  apply negb_true_iff in H2, H3. rewrite H1, H2, H3. simpl.
  destruct (e_res e =? 0) eqn:E0; auto.
  apply Z.eqb_eq in E0. rewrite E0 in H1. discriminate.
Qed.

Lemma handle_not_processed pods fl e : processed e = false ->
  fst (handle (pods, fl) e) = (pods, fl) /\ h_calls (snd (handle (pods, fl) e)) = [].
Proof.
  unfold processed, handle. intros H.
  destruct (e_res e =? 0); auto. destruct (e_node_err e); auto.
  destruct ((e_res e =? 1) || (e_res e =? 2)); auto. simpl in *.
  destruct (e_pods_err e); auto. discriminate.
Qed.

(* only offline, non-critical, active pods reach the eviction client *)
Lemma handle_only_offline pods fl e c :
  In c (h_calls (snd (handle (pods, fl) e))) ->
  exists p, In p pods /\ p_id p = fst c /\ preemptable p = true /\ critical p = false.
Proof.
  destruct (processed e) eqn:P.
  - rewrite (handle_processed _ _ _ P). cbn [snd h_calls]. intros H.
    apply calls_in in H. destruct H as (p & Hp & E & C).
    apply victims_in in Hp. exists p. tauto.
  - destruct (handle_not_processed pods fl e P) as [_ H]. rewrite H. intros [].
Qed.

(* at most one eviction succeeds per event and nothing is tried after it *)
Lemma handle_at_most_one pods fl e :
  let cs := h_calls (snd (handle (pods, fl) e)) in
  (length (filter (fun c => snd c) cs) <= 1)%nat /\
  (forall pre c post, cs = pre ++ c :: post -> snd c = true -> post = []).
Proof.
  destruct (processed e) eqn:P.
  - rewrite (handle_processed _ _ _ P). cbn [snd h_calls].
    destruct (calls_shape (victims (e_res e) pods) fl) as (fails & F & E).
    rewrite E. apply shape_one_success; auto.
  - destruct (handle_not_processed pods fl e P) as [_ H]. rewrite H. simpl.
    split. lia. intros pre c post E. destruct pre; discriminate.
Qed.

Lemma filter_eligible l : filter eligible l = filter noncritical (filter preemptable l).
Proof.
  induction l as [|x l IH]; simpl; auto. unfold eligible, noncritical in *.
  destruct (preemptable x); simpl; [destruct (critical x); simpl|]; rewrite IH; auto.
Qed.

(* largest request first: the pods handed to the client are, in order, a
   prefix of the offline non-critical pods sorted by descending request of the
   pressured resource; all of them when no eviction succeeded *)
Lemma handle_largest_first pods fl e : processed e = true ->
  let o := snd (handle (pods, fl) e) in
  exists tried rest,
    map p_id tried = map fst (h_calls o) /\
    StronglySorted (ge_req (e_res e)) (tried ++ rest) /\
    Permutation (tried ++ rest) (filter eligible pods) /\
    (Forall (fun c => snd c = false) (h_calls o) -> rest = []).
Proof.
  intros P. rewrite (handle_processed _ _ _ P). cbn [snd h_calls].
  set (v := victims (e_res e) pods).
  destruct (tried_prefix v fl) as (rest & E & N).
  exists (tried_pods v fl), rest. split; [apply tried_ids|]. rewrite <- E. split; [|split].
  - pose proof (victims_sorted (e_res e) pods) as S. fold v in S.
    clear -S. induction S as [|x l S IH Hx]; simpl. constructor.
    destruct (noncritical x); auto. constructor; auto.
    rewrite Forall_forall in *. intros y Hy. apply filter_In in Hy. apply Hx. tauto.
  - rewrite filter_eligible.
    assert (Hp : forall (f : pod -> bool) l1 l2, Permutation l1 l2 -> Permutation (filter f l1) (filter f l2)).
    { intros f l1 l2 H. induction H; simpl; auto.
      - destruct (f x); auto.
      - destruct (f x), (f y); auto. apply perm_swap.
      - eapply perm_trans; eauto. }
    apply Hp, victims_perm.
  - intros F. apply N.
    destruct (calls_shape v fl) as (fails & _ & Es).
    destruct (a_evicted (try_evict v fl)) as [id|]; auto.
    rewrite Es in F. apply Forall_app in F as [_ F]. inversion F; subst. discriminate.
Qed.

(* nobody else disappears: a pod missing after the event is the offline,
   non-critical pod whose eviction succeeded; in particular online and
   critical pods all stay *)
Lemma handle_keeps_others pods fl e p :
  NoDup (map p_id pods) -> In p pods -> ~ In p (fst (fst (handle (pods, fl) e))) ->
  preemptable p = true /\ critical p = false /\ In (p_id p, true) (h_calls (snd (handle (pods, fl) e))).
Proof.
  intros ND Hp Hn. destruct (processed e) eqn:P.
  - rewrite (handle_processed _ _ _ P) in *. cbn [fst snd h_calls] in *.
    set (v := victims (e_res e) pods) in *.
    unfold after_attempt in Hn.
    destruct (a_evicted (try_evict v fl)) as [id|] eqn:Ev; [|tauto].
    destruct (evicted_in _ _ _ Ev) as (q & Hq & Eq & Cq & _).
    apply victims_in in Hq. destruct Hq as [Hq Pq].
    assert (p_id p = id).
    { destruct (p_id p =? id) eqn:E; [now apply Z.eqb_eq in E|].
      exfalso. apply Hn. unfold remove_pod. apply filter_In. split; auto. now rewrite E. }
    assert (p = q) by (apply (nodup_id_eq pods); auto; congruence). subst q.
    repeat split; auto.
    destruct (calls_shape v fl) as (fails & _ & Es). rewrite Es, Ev.
    apply in_or_app. right. left. congruence.
  - destruct (handle_not_processed pods fl e P) as [H _]. rewrite H in Hn. simpl in Hn. tauto.
Qed.

Lemma handle_incl pods fl e : incl (fst (fst (handle (pods, fl) e))) pods.
Proof.
  destruct (processed e) eqn:P.
  - rewrite (handle_processed _ _ _ P). cbn [fst]. apply after_attempt_incl.
  - destruct (handle_not_processed pods fl e P) as [H _]. rewrite H. apply incl_refl.
Qed.

Lemma filter_nodup_ids (f : pod -> bool) pods : NoDup (map p_id pods) -> NoDup (map p_id (filter f pods)).
Proof.
  induction pods as [|x r IH]; simpl; intros ND; auto.
  inversion ND as [|? ? Hx ND']; subst.
  destruct (f x); simpl; auto. constructor; auto.
  intros H. apply Hx. apply in_map_iff in H. destruct H as (y & E & Hy).
  apply filter_In in Hy. rewrite <- E. apply in_map. tauto.
Qed.

Lemma handle_nodup pods fl e : NoDup (map p_id pods) -> NoDup (map p_id (fst (fst (handle (pods, fl) e)))).
Proof.
  intros ND. destruct (processed e) eqn:P.
  - rewrite (handle_processed _ _ _ P). cbn [fst]. unfold after_attempt.
    destruct (a_evicted _); auto. apply filter_nodup_ids; auto.
  - destruct (handle_not_processed pods fl e P) as [H _]. now rewrite H.
Qed.

(* ---------- every sequence of pressure events ---------- *)
Definition event_ok (pods0 : list pod) (o : hout) : Prop :=
  (forall c, In c (h_calls o) ->
     exists p, In p pods0 /\ p_id p = fst c /\ preemptable p = true /\ critical p = false) /\
  (length (filter (fun c => snd c) (h_calls o)) <= 1)%nat /\
  (forall pre c post, h_calls o = pre ++ c :: post -> snd c = true -> post = []).

Lemma hrun_ok : forall evs pods0 pods fl,
  incl pods pods0 -> NoDup (map p_id pods) ->
  Forall (fun oa => event_ok pods0 (fst oa)) (snd (hrun (pods, fl) evs)) /\
  incl (fst (fst (hrun (pods, fl) evs))) pods /\
  (forall p, In p pods -> preemptable p = false \/ critical p = true ->
             In p (fst (fst (hrun (pods, fl) evs)))).
Proof.
  induction evs as [|e evs IH]; intros pods0 pods fl Hincl ND.
  - simpl. split; [constructor|split; [apply incl_refl|auto]].
  - cbn [hrun].
    pose proof (handle_only_offline pods fl e) as H1.
    pose proof (handle_at_most_one pods fl e) as H2.
    pose proof (handle_incl pods fl e) as H3.
    pose proof (handle_nodup pods fl e ND) as H4.
    pose proof (fun p => handle_keeps_others pods fl e p ND) as H5.
    destruct (handle (pods, fl) e) as [[pods1 fl1] o]. cbn [fst snd] in *.
    specialize (IH pods0 pods1 fl1 (incl_tran H3 Hincl) H4).
    destruct (hrun (pods1, fl1) evs) as [s2 os]. cbn [fst snd] in *.
    destruct IH as (I1 & I2 & I3).
    split; [|split].
    + constructor; auto. cbn [fst]. split; [|exact H2].
      intros c Hc. destruct (H1 c Hc) as (p & ? & ?). exists p. split; auto.
    + eapply incl_tran; eauto.
    + intros p Hp Hon. apply I3; auto.
      destruct (in_dec (fun a b : pod => ltac:(decide equality; try apply Z.eq_dec; try apply bool_dec;
                                            decide equality; apply Z.eq_dec) : {a = b} + {a <> b}) p pods1) as [Hi|Hn]; auto.
      destruct (H5 p Hp Hn) as (A & B & _). destruct Hon; congruence.
Qed.

(* ---------- Cleanup ---------- *)
Lemma filter_len_le (f : pod -> bool) l : (length (filter f l) <= length l)%nat.
Proof. induction l; simpl; auto. destruct (f a); simpl; lia. Qed.

Lemma ssorted_app_l {A} (R : A -> A -> Prop) l1 l2 : StronglySorted R (l1 ++ l2) -> StronglySorted R l1.
Proof.
  induction l1 as [|x l1 IH]; simpl; intros H. constructor.
  inversion H; subst. constructor; auto. rewrite Forall_forall in *. intros y Hy. apply H3. apply in_or_app. auto.
Qed.

Lemma ssorted_filter {A} (R : A -> A -> Prop) (f : A -> bool) l : StronglySorted R l -> StronglySorted R (filter f l).
Proof.
  induction 1 as [|x l S IH Hx]; simpl. constructor.
  destruct (f x); auto. constructor; auto.
  rewrite Forall_forall in *. intros y Hy. apply filter_In in Hy. apply Hx. tauto.
Qed.

(* the pods behind the calls of one pass, in call order, are sorted by
   descending request of that pass's resource *)
Lemma tried_sorted res pods fl :
  let tried := tried_pods (victims res pods) fl in
  map p_id tried = map fst (a_calls (try_evict (victims res pods) fl)) /\
  StronglySorted (ge_req res) tried /\ incl tried pods.
Proof.
  intros tried. split; [apply tried_ids|]. split.
  - destruct (tried_prefix (victims res pods) fl) as (rest & E & _).
    apply (ssorted_app_l _ _ rest). fold tried in E. rewrite <- E.
    apply ssorted_filter, victims_sorted.
  - intros p Hp. apply tried_in in Hp. destruct Hp as [Hp _]. apply victims_in in Hp. tauto.
Qed.

Definition pass_sorted (res : Z) (pods0 : list pod) (calls : list (Z * bool)) : Prop :=
  (exists tried, map p_id tried = map fst calls /\ StronglySorted (ge_req res) tried /\ incl tried pods0) /\
  (length (filter (fun c => snd c) calls) <= 1)%nat /\
  (forall pre c post, calls = pre ++ c :: post -> snd c = true -> post = []).

Lemma evict_pass_sorted res pods fl :
  let '(_, cs, _) := evict_pass res (pods, fl) in pass_sorted res pods cs.
Proof.
  unfold evict_pass. destruct (use_extend res pods).
  - split.
    + exists (tried_pods (victims res pods) fl). apply tried_sorted.
    + destruct (calls_shape (victims res pods) fl) as (fails & F & E). rewrite E. apply shape_one_success; auto.
  - split. { exists []. simpl. split; auto. split; [constructor|intros x []]. }
    simpl. split. lia. intros pre c post E. destruct pre; discriminate.
Qed.

Lemma pass_sorted_incl res pods pods0 cs : incl pods pods0 -> pass_sorted res pods cs -> pass_sorted res pods0 cs.
Proof.
  intros I ((tried & A & B & C) & D). split; auto. exists tried. split; auto. split; auto. eapply incl_tran; eauto.
Qed.

Lemma evict_pass_facts res pods fl :
  let '(s', cs, k) := evict_pass res (pods, fl) in
  incl (fst s') pods /\
  (k = true -> (length (fst s') < length pods)%nat) /\
  (forall c, In c cs -> exists p, In p pods /\ p_id p = fst c /\ preemptable p = true /\ critical p = false) /\
  (forall p, In p pods -> ~ In p (fst s') -> NoDup (map p_id pods) ->
             preemptable p = true /\ critical p = false /\ In (p_id p, true) cs) /\
  (NoDup (map p_id pods) -> NoDup (map p_id (fst s'))).
Proof.
  unfold evict_pass. destruct (use_extend res pods).
  - set (v := victims res pods). set (a := try_evict v fl). cbn [fst].
    split; [apply after_attempt_incl|]. split; [|split; [|split]].
    + unfold after_attempt. destruct (a_evicted a) as [id|] eqn:Ev; [|discriminate]. intros _.
      destruct (evicted_in _ _ _ Ev) as (q & Hq & Eq & _). apply victims_in in Hq. destruct Hq as [Hq _].
      unfold remove_pod. clear -Hq Eq. induction pods as [|x r IH]; simpl in *. tauto.
      destruct Hq as [->|Hq].
      * rewrite Eq, Z.eqb_refl. simpl. pose proof (filter_len_le (fun p => negb (p_id p =? id)) r). lia.
      * specialize (IH Hq). destruct (negb (p_id x =? id)); simpl; lia.
    + intros c Hc. apply calls_in in Hc. destruct Hc as (p & Hp & E & C).
      apply victims_in in Hp. exists p. tauto.
    + intros p Hp Hn ND. unfold after_attempt in Hn.
      destruct (a_evicted a) as [id|] eqn:Ev; [|tauto].
      destruct (evicted_in _ _ _ Ev) as (q & Hq & Eq & Cq & _).
      apply victims_in in Hq. destruct Hq as [Hq Pq].
      assert (p_id p = id).
      { destruct (p_id p =? id) eqn:E; [now apply Z.eqb_eq in E|].
        exfalso. apply Hn. unfold remove_pod. apply filter_In. split; auto. now rewrite E. }
      assert (p = q) by (apply (nodup_id_eq pods); auto; congruence). subst q.
      repeat split; auto.
      destruct (calls_shape v fl) as (fails & _ & Es). fold a in Es. rewrite Es, Ev.
      apply in_or_app. right. left. congruence.
    + intros ND. unfold after_attempt. destruct (a_evicted a); auto. apply filter_nodup_ids; auto.
  - cbn [fst]. split; [apply incl_refl|]. split; [discriminate|]. split; [intros c []|]. split; auto.
    intros p Hp Hn. tauto.
Qed.

Definition cl_ok (pods0 : list pod) (passes : list (list (Z * bool) * list (Z * bool))) (s : estate) : Prop :=
  (forall c, In c (flat_passes passes) ->
     exists p, In p pods0 /\ p_id p = fst c /\ preemptable p = true /\ critical p = false) /\
  incl (fst s) pods0 /\
  (forall p, In p pods0 -> preemptable p = false \/ critical p = true -> In p (fst s)) /\
  (* largest request first within every pass: cpu passes by cpu request, memory passes by memory request *)
  Forall (fun p => pass_sorted 1 pods0 (fst p) /\ pass_sorted 2 pods0 (snd p)) passes.

Lemma flat_passes_app a b : flat_passes (a ++ b) = flat_passes a ++ flat_passes b.
Proof. unfold flat_passes. apply flat_map_app. Qed.

Lemma pod_eq_dec (a b : pod) : {a = b} + {a <> b}.
Proof. decide equality; try apply Z.eq_dec; try apply bool_dec. decide equality; apply Z.eq_dec. Qed.

(* the loop of EvictPods always ends within the fuel, only offline
   non-critical pods reach the client and every other pod stays *)
Lemma evict_loop_ok : forall fuel round ne pods0 pods fl acc,
  (length pods < fuel)%nat -> NoDup (map p_id pods) -> cl_ok pods0 acc (pods, fl) ->
  exists err rounds calls s, evict_loop fuel round ne (pods, fl) acc = ClDone err rounds calls s /\ cl_ok pods0 calls s.
Proof.
  induction fuel as [|k IH]; intros round ne pods0 pods fl acc Hlen ND Hok. lia.
  cbn [evict_loop]. destruct (ne =? Z.of_nat round). { do 4 eexists. split; eauto. }
  pose proof (evict_pass_facts 1 pods fl) as F1. pose proof (evict_pass_sorted 1 pods fl) as G1.
  destruct (evict_pass 1 (pods, fl)) as [[[pods1 fl1] c1] k1]. cbn [fst] in F1.
  destruct F1 as (A1 & A2 & A3 & A4 & A5).
  pose proof (evict_pass_facts 2 pods1 fl1) as F2. pose proof (evict_pass_sorted 2 pods1 fl1) as G2.
  destruct (evict_pass 2 (pods1, fl1)) as [[[pods2 fl2] c2] k2]. cbn [fst] in F2.
  destruct F2 as (B1 & B2 & B3 & B4 & B5).
  destruct Hok as (O1 & O2 & O3 & O4). cbn [fst] in *.
  assert (Hok' : cl_ok pods0 (acc ++ [(c1, c2)]) (pods2, fl2)).
  { split; [|split; [|split]]; cbn [fst].
    - intros c Hc. rewrite flat_passes_app in Hc. apply in_app_or in Hc. destruct Hc as [Hc|Hc]; auto.
      unfold flat_passes in Hc. simpl in Hc. rewrite app_nil_r in Hc.
      apply in_app_or in Hc. destruct Hc as [Hc|Hc].
      + destruct (A3 c Hc) as (p & ? & ?). exists p. split; auto.
      + destruct (B3 c Hc) as (p & ? & ?). exists p. split; auto.
    - eapply incl_tran; eauto. eapply incl_tran; eauto.
    - intros p Hp Hon. specialize (O3 p Hp Hon).
      destruct (in_dec pod_eq_dec p pods1) as [H1|H1].
      + destruct (in_dec pod_eq_dec p pods2) as [H2|H2]; auto.
        destruct (B4 p H1 H2 (A5 ND)) as (X & Y & _). destruct Hon; congruence.
      + destruct (A4 p O3 H1 ND) as (X & Y & _). destruct Hon; congruence.
    - apply Forall_app. split; auto. constructor; [|constructor]. cbn [fst snd]. split.
      + eapply pass_sorted_incl; eauto.
      + eapply pass_sorted_incl; [|exact G2]. eapply incl_tran; eauto. }
  destruct (k1 || k2) eqn:K.
  - apply IH; auto.
    + assert (length pods2 <= length pods1)%nat by (apply NoDup_incl_length; auto; apply NoDup_map_inv in B5; auto; apply (NoDup_map_inv p_id); auto).
      assert (length pods1 <= length pods)%nat by (apply NoDup_incl_length; auto; apply (NoDup_map_inv p_id); auto).
      apply orb_true_iff in K. destruct K as [->| ->]; [specialize (A2 eq_refl)|specialize (B2 eq_refl)]; lia.
  - do 4 eexists. split; eauto.
Qed.

Lemma cleanup_ok ne pods fl : NoDup (map p_id pods) ->
  exists err rounds calls s, cleanup ne (pods, fl) = ClDone err rounds calls s /\ cl_ok pods calls s.
Proof.
  intros ND. unfold cleanup.
  assert (Hok : cl_ok pods [] (pods, fl)).
  { split; [intros c []|split; [apply incl_refl|split; [auto|constructor]]]. }
  destruct (ne =? 0). { do 4 eexists. split; eauto. }
  cbn [fst]. apply evict_loop_ok; auto.
Qed.

(* ---------- the executable eviction law implies the theorem's predicate ---------- *)
Lemma call_eligible_sound pods c : call_eligible pods c = true ->
  exists p, In p pods /\ p_id p = fst c /\ preemptable p = true /\ critical p = false.
Proof.
  unfold call_eligible, find_pod. destruct (find _ pods) as [p|] eqn:F; [|discriminate].
  intros E. apply find_some in F as [Hp Hid]. apply Z.eqb_eq in Hid.
  unfold eligible in E. apply andb_true_iff in E as [E1 E2]. apply negb_true_iff in E2.
  exists p. auto.
Qed.

Lemma law_evict_sound res pods calls after :
  nodupb (map p_id pods) = true -> law_evict res pods calls after = true ->
  (forall c, In c calls ->
     exists p, In p pods /\ p_id p = fst c /\ preemptable p = true /\ critical p = false) /\
  (length (filter (fun c => snd c) calls) <= 1)%nat.
Proof.
  intros ND. unfold law_evict. rewrite ND. intros H.
  repeat (apply andb_true_iff in H as [H ?]).
  split.
  - rewrite forallb_forall in H. intros c Hc. apply call_eligible_sound. auto.
  - match goal with X : Nat.leb _ 1 = true |- _ => apply Nat.leb_le in X; unfold succeeded in X; rewrite map_length in X; exact X end.
Qed.

Lemma law_cleanup_sound pods passes after :
  nodupb (map p_id pods) = true -> law_cleanup pods passes after = true ->
  forall c, In c (flat_passes passes) ->
    exists p, In p pods /\ p_id p = fst c /\ preemptable p = true /\ critical p = false.
Proof.
  intros ND. unfold law_cleanup. rewrite ND. intros H.
  repeat (apply andb_true_iff in H as [H ?]).
  rewrite forallb_forall in H. intros c Hc. apply call_eligible_sound. auto.
Qed.

(* ---------- audit additions ---------- *)
(* with unique pod names the pod behind a call is THE pod of that name *)
Lemma handle_only_offline_unique pods fl e c :
  NoDup (map p_id pods) -> In c (h_calls (snd (handle (pods, fl) e))) ->
  forall p, In p pods -> p_id p = fst c -> preemptable p = true /\ critical p = false.
Proof.
  intros ND Hc p Hp E. destruct (handle_only_offline pods fl e c Hc) as (q & Hq & Eq & A & B).
  assert (p = q) by (apply (nodup_id_eq pods); auto; congruence). subst q. auto.
Qed.

(* largest request first along every sequence of pressure events: the pods
   behind the calls of each event, in call order, are sorted by descending
   request of THAT event's resource *)
Lemma hrun_sorted : forall evs pods0 pods fl, incl pods pods0 ->
  Forall2 (fun e (oa : hout * list Z) =>
             exists tried, map p_id tried = map fst (h_calls (fst oa)) /\
                           StronglySorted (ge_req (e_res e)) tried /\ incl tried pods0)
          evs (snd (hrun (pods, fl) evs)).
Proof.
  induction evs as [|e evs IH]; intros pods0 pods fl Hincl; cbn [hrun]. { constructor. }
  pose proof (handle_incl pods fl e) as H3.
  assert (Hs : exists tried, map p_id tried = map fst (h_calls (snd (handle (pods, fl) e))) /\
                             StronglySorted (ge_req (e_res e)) tried /\ incl tried pods0).
  { destruct (processed e) eqn:P.
    - rewrite (handle_processed _ _ _ P). cbn [snd h_calls].
      destruct (tried_sorted (e_res e) pods fl) as (A & B & C).
      exists (tried_pods (victims (e_res e) pods) fl). split; auto. split; auto. eapply incl_tran; eauto.
    - destruct (handle_not_processed pods fl e P) as [_ H]. rewrite H. exists []. simpl.
      split; auto. split; [constructor|intros x []]. }
  destruct (handle (pods, fl) e) as [[pods1 fl1] o]. cbn [fst snd] in *.
  specialize (IH pods0 pods1 fl1 (incl_tran H3 Hincl)).
  destruct (hrun (pods1, fl1) evs) as [s2 os]. cbn [fst snd] in *.
  constructor; auto.
Qed.

(* ---------- Prop-level meaning of the boolean order checks ---------- *)
Lemma descending_sound l : descending l = true -> StronglySorted (fun a b => b <= a) l.
Proof.
  intros H. apply Sorted_StronglySorted. { intros x y z; lia. }
  induction l as [|x l IH]; [constructor|].
  destruct l as [|y l']. { constructor; constructor. }
  simpl in H. apply andb_true_iff in H as [H1 H2]. apply Z.leb_le in H1.
  constructor; [apply IH; exact H2|constructor; exact H1].
Qed.

Lemma success_only_last_sound cs : success_only_last cs = true ->
  forall pre c post, cs = pre ++ c :: post -> snd c = true -> post = [].
Proof.
  induction cs as [|x cs IH]; intros H pre c post E Hc. { destruct pre; discriminate. }
  destruct cs as [|y cs'].
  - destruct pre as [|? pre]; simpl in E. now injection E as _ <-.
    injection E as _ E. destruct pre; discriminate.
  - simpl in H. apply andb_true_iff in H as [H1 H2]. apply negb_true_iff in H1.
    destruct pre as [|? pre]; simpl in E.
    + injection E as <- _. congruence.
    + injection E as _ E. eapply IH; eauto.
Qed.

(* law_evict: order and stop-at-first-success clauses *)
Lemma law_evict_sound_order res pods calls after :
  nodupb (map p_id pods) = true -> law_evict res pods calls after = true ->
  StronglySorted (fun a b => b <= a) (map (call_req res pods) calls) /\
  (forall pre c post, calls = pre ++ c :: post -> snd c = true -> post = []) /\
  after = map p_id (filter (fun p => negb (zmem (p_id p) (succeeded calls))) pods).
Proof.
  intros ND. unfold law_evict. rewrite ND. intros H.
  repeat (apply andb_true_iff in H as [H ?]).
  split; [apply descending_sound; assumption|]. split; [apply success_only_last_sound; assumption|].
  match goal with X : zlist_eqb after _ = true |- _ => revert X end.
  generalize (map p_id (filter (fun p => negb (zmem (p_id p) (succeeded calls))) pods)).
  induction after as [|a after IH]; intros [|b l] E; simpl in E; try discriminate; auto.
  apply andb_true_iff in E as [E1 E2]. apply Z.eqb_eq in E1. f_equal; auto.
Qed.

(* ---------- second audit: no larger eligible pod is skipped ---------- *)
(* the strong form of "largest request first" for one list of calls made on the
   population pods: the pods behind the calls are, in order, a PREFIX of the
   eligible pods of that population sorted by descending request; the whole
   list when no call succeeded.  So the first call targets a maximal-request
   eligible pod and every next call a maximal one among those not yet tried. *)
Definition calls_strong (res : Z) (pods : list pod) (cs : list (Z * bool)) : Prop :=
  exists tried rest,
    map p_id tried = map fst cs /\
    StronglySorted (ge_req res) (tried ++ rest) /\
    Permutation (tried ++ rest) (filter eligible pods) /\
    (Forall (fun c => snd c = false) cs -> rest = []).

Lemma try_evict_strong res pods fl :
  calls_strong res pods (a_calls (try_evict (victims res pods) fl)).
Proof.
  set (v := victims res pods).
  destruct (tried_prefix v fl) as (rest & E & N).
  exists (tried_pods v fl), rest. split; [apply tried_ids|]. rewrite <- E. split; [|split].
  - apply ssorted_filter, victims_sorted.
  - rewrite filter_eligible.
    assert (Hp : forall (f : pod -> bool) l1 l2, Permutation l1 l2 -> Permutation (filter f l1) (filter f l2)).
    { intros f l1 l2 H. induction H; simpl; auto.
      - destruct (f x); auto.
      - destruct (f x), (f y); auto. apply perm_swap.
      - eapply perm_trans; eauto. }
    apply Hp, victims_perm.
  - intros F. apply N.
    destruct (calls_shape v fl) as (fails & _ & Es).
    destruct (a_evicted (try_evict v fl)) as [id|]; auto.
    rewrite Es in F. apply Forall_app in F as [_ F]. inversion F; subst. discriminate.
Qed.

Lemma filter_all_true {A} (f : A -> bool) l : (forall x, f x = true) -> filter f l = l.
Proof. intros H. induction l; simpl; auto. now rewrite H, IHl. Qed.

(* one Cleanup pass: nothing is called when the extend resource is not in use,
   otherwise the strong form on the population that pass listed *)
Definition pass_strong (res : Z) (pods : list pod) (cs : list (Z * bool)) : Prop :=
  if use_extend res pods then calls_strong res pods cs else cs = [].

Lemma evict_pass_strong res pods fl :
  let '(s', cs, _) := evict_pass res (pods, fl) in
  pass_strong res pods cs /\ fst s' = remove_succ cs pods.
Proof.
  unfold evict_pass, pass_strong. destruct (use_extend res pods).
  - split; [apply try_evict_strong|]. cbn [fst]. unfold after_attempt, remove_succ.
    destruct (calls_shape (victims res pods) fl) as (fails & F & E). rewrite E. clear E.
    assert (Hs : succeeded fails = []).
    { unfold succeeded. clear -F. induction F as [|c l Hc F IH]; simpl; auto. rewrite Hc. exact IH. }
    unfold succeeded in *. rewrite filter_app, map_app, Hs.
    destruct (a_evicted (try_evict (victims res pods) fl)) as [id|]; cbn [filter snd map fst app].
    + unfold remove_pod. apply filter_ext. intros p. unfold zmem. cbn [existsb]. now rewrite orb_false_r.
    + symmetry. apply filter_all_true. intros x. reflexivity.
  - split; auto. cbn [fst]. unfold remove_succ, succeeded. cbn [filter map].
    symmetry. apply filter_all_true. intros x. reflexivity.
Qed.

(* all passes of a Cleanup, each judged on the population IT listed *)
Fixpoint passes_strong (pods : list pod) (passes : list (list (Z * bool) * list (Z * bool))) : Prop :=
  match passes with
  | [] => True
  | (c1, c2) :: r =>
      pass_strong 1 pods c1 /\ pass_strong 2 (remove_succ c1 pods) c2 /\
      passes_strong (remove_succ c2 (remove_succ c1 pods)) r
  end.

Fixpoint pods_after (pods : list pod) (passes : list (list (Z * bool) * list (Z * bool))) : list pod :=
  match passes with
  | [] => pods
  | (c1, c2) :: r => pods_after (remove_succ c2 (remove_succ c1 pods)) r
  end.

Lemma passes_strong_snoc : forall passes pods c1 c2,
  passes_strong pods passes ->
  pass_strong 1 (pods_after pods passes) c1 ->
  pass_strong 2 (remove_succ c1 (pods_after pods passes)) c2 ->
  passes_strong pods (passes ++ [(c1, c2)]) /\
  pods_after pods (passes ++ [(c1, c2)]) = remove_succ c2 (remove_succ c1 (pods_after pods passes)).
Proof.
  induction passes as [|[a b] r IH]; intros pods c1 c2 H H1 H2; simpl in *.
  - repeat split; auto.
  - destruct H as (A & B & C). destruct (IH _ c1 c2 C H1 H2) as [I1 I2]. repeat split; auto.
Qed.

Lemma evict_loop_strong : forall fuel round ne pods0 pods fl acc,
  passes_strong pods0 acc -> pods = pods_after pods0 acc ->
  match evict_loop fuel round ne (pods, fl) acc with
  | ClDone _ _ passes s => passes_strong pods0 passes /\ fst s = pods_after pods0 passes
  | ClFuel => True
  end.
Proof.
  induction fuel as [|k IH]; intros round ne pods0 pods fl acc HS HP; cbn [evict_loop]; auto.
  destruct (ne =? Z.of_nat round). { split; auto. }
  pose proof (evict_pass_strong 1 pods fl) as F1.
  destruct (evict_pass 1 (pods, fl)) as [[[pods1 fl1] c1] k1]. cbn [fst] in F1. destruct F1 as [S1 E1].
  pose proof (evict_pass_strong 2 pods1 fl1) as F2.
  destruct (evict_pass 2 (pods1, fl1)) as [[[pods2 fl2] c2] k2]. cbn [fst] in F2. destruct F2 as [S2 E2].
  subst pods pods1.
  destruct (passes_strong_snoc acc pods0 c1 c2 HS S1 S2) as [N1 N2].
  destruct (k1 || k2).
  - apply IH; auto. congruence.
  - split; auto. cbn [fst]. congruence.
Qed.

(* Cleanup: in every pass of every round no larger eligible pod of the population
   listed by that pass is skipped *)
Lemma cleanup_strong ne pods fl :
  match cleanup ne (pods, fl) with
  | ClDone _ _ passes s => passes_strong pods passes /\ fst s = pods_after pods passes
  | ClFuel => True
  end.
Proof.
  unfold cleanup. destruct (ne =? 0). { simpl. auto. }
  cbn [fst]. apply evict_loop_strong; simpl; auto.
Qed.

(* sequences of pressure events: the i-th output is the handler's answer on the
   state reached after the first i events, hence the strong single-event
   theorem applies to every event at the population IT sees *)
Lemma hrun_app : forall l1 l2 s,
  hrun s (l1 ++ l2) =
  let '(s1, o1) := hrun s l1 in let '(s2, o2) := hrun s1 l2 in (s2, o1 ++ o2).
Proof.
  induction l1 as [|e l1 IH]; intros l2 s; cbn [hrun app].
  - destruct (hrun s l2). reflexivity.
  - destruct (handle s e) as [s1 o]. rewrite IH.
    destruct (hrun s1 l1) as [s2 o1]. destruct (hrun s2 l2) as [s3 o2]. reflexivity.
Qed.

Lemma hrun_length : forall l s, length (snd (hrun s l)) = length l.
Proof.
  induction l as [|e l IH]; intros s; cbn [hrun]; auto.
  destruct (handle s e) as [s1 o]. specialize (IH s1). destruct (hrun s1 l). simpl in *. now rewrite IH.
Qed.

Lemma hrun_strong evs1 e evs2 pods fl : processed e = true ->
  let s1 := fst (hrun (pods, fl) evs1) in
  exists o ids, nth_error (snd (hrun (pods, fl) (evs1 ++ e :: evs2))) (length evs1) = Some (o, ids) /\
                o = snd (handle s1 e) /\ calls_strong (e_res e) (fst s1) (h_calls o).
Proof.
  intros P s1. rewrite hrun_app.
  pose proof (hrun_length evs1 (pods, fl)) as L.
  destruct (hrun (pods, fl) evs1) as [[pods1 fl1] o1] eqn:H1. subst s1. cbn [fst snd] in *.
  cbn [hrun]. destruct (handle (pods1, fl1) e) as [s2 o] eqn:He.
  destruct (hrun s2 evs2) as [s3 o2]. cbn [snd].
  exists o, (map p_id (fst s2)). split; [|split].
  - rewrite nth_error_app2 by lia. rewrite L, Nat.sub_diag. reflexivity.
  - reflexivity.
  - pose proof (handle_processed pods1 fl1 e P) as HP. rewrite He in HP. injection HP as _ ->.
    cbn [h_calls]. apply try_evict_strong.
Qed.

(* meaning of the boolean no-skip check used by the laws *)
Lemma no_skip_sound res pods calls p :
  no_skip res pods calls = true -> In p pods -> eligible p = true -> ~ In (p_id p) (map fst calls) ->
  succeeded calls <> [] /\ exists lastc, rev calls = lastc :: tl (rev calls) /\ req res p <= call_req res pods lastc.
Proof.
  unfold no_skip. intros H Hp He Hn. rewrite forallb_forall in H. specialize (H p Hp).
  rewrite He in H. simpl in H.
  assert (Z : zmem (p_id p) (map fst calls) = false).
  { unfold zmem. apply not_true_is_false. intros T. apply existsb_exists in T as (x & Hx & Ex).
    apply Z.eqb_eq in Ex. subst x. auto. }
  rewrite Z in H. simpl in H.
  destruct (succeeded calls) as [|s ss]; [discriminate|]. destruct (rev calls) as [|lastc r]; [discriminate|].
  apply Z.leb_le in H. split; [discriminate|]. exists lastc. simpl. auto.
Qed.

(* law_cleanup: every pass is judged on the population it listed *)
Lemma pass_ok_sound res pods cs : pass_ok res pods cs = true ->
  (forall c, In c cs -> exists p, In p pods /\ p_id p = fst c /\ preemptable p = true /\ critical p = false) /\
  StronglySorted (fun a b => b <= a) (map (call_req res pods) cs) /\
  (forall pre c post, cs = pre ++ c :: post -> snd c = true -> post = []) /\
  (use_extend res pods = false -> cs = []) /\
  (use_extend res pods = true -> forall p, In p pods -> eligible p = true -> ~ In (p_id p) (map fst cs) ->
     succeeded cs <> [] /\ exists lastc, rev cs = lastc :: tl (rev cs) /\ req res p <= call_req res pods lastc).
Proof.
  unfold pass_ok. intros H. apply andb_true_iff in H as [H U]. apply andb_true_iff in H as [H S].
  apply andb_true_iff in H as [H D]. apply andb_true_iff in H as [E N].
  split; [|split; [|split; [|split]]].
  - rewrite forallb_forall in E. intros c Hc. apply call_eligible_sound. auto.
  - now apply descending_sound.
  - now apply success_only_last_sound.
  - intros X. rewrite X in U. destruct cs; auto. discriminate.
  - intros X. rewrite X in U. intros p Hp He Hn. eapply no_skip_sound; eauto.
Qed.

Lemma law_cleanup_sound_passes pods passes after :
  nodupb (map p_id pods) = true -> law_cleanup pods passes after = true -> passes_ok pods passes = true.
Proof.
  intros ND. unfold law_cleanup. rewrite ND. intros H.
  repeat (apply andb_true_iff in H as [H ?]). assumption.
Qed.
