(* C14 — proofs about the model of C14/Model.v. *)
From Coq Require Import ZArith List Bool Lia.
From V Require Import C14.Model C14.Laws.
Import ListNotations.
Open Scope Z_scope.

(* ================= placement: tier bound of the gradient ================= *)

(* x is reachable from r through Children entries that have an info *)
Inductive reach (hn : list (positive * info)) : positive -> positive -> Prop :=
| reach_refl r : reach hn r r
| reach_step r y i c : reach hn r y -> aget y hn = Some i -> In c (i_children i) -> reach hn r c.

Lemma bfs_inv hn limit r : forall fuel queue enq acc l,
  (forall q, In q queue -> reach hn r q) ->
  (forall x t, In (x, t) acc -> t <= limit /\ tier_of hn x = Some t /\ reach hn r x) ->
  bfs hn limit fuel queue enq acc = GOk l ->
  forall x t, In (x, t) l -> t <= limit /\ tier_of hn x = Some t /\ reach hn r x.
Proof.
  induction fuel as [|f IH]; intros queue enq acc l Hq Hacc H; simpl in H; [discriminate|].
  destruct queue as [|cur q].
  - inversion H; subst. intros x t Hin. apply in_rev in Hin. auto.
  - destruct (aget cur hn) as [i|] eqn:Hc; [|discriminate].
    eapply IH; [| |exact H].
    + intros y Hy. apply in_app_or in Hy. destruct Hy as [Hy|Hy].
      * apply Hq. now right.
      * apply filter_In in Hy. destruct Hy as [Hy _].
        eapply reach_step; [apply Hq; now left|exact Hc|exact Hy].
    + intros x t Hin. destruct (Z.leb (i_tier i) limit) eqn:Hle.
      * destruct Hin as [Heq|Hin]; [|auto].
        inversion Heq; subst. split; [apply Z.leb_le; exact Hle|].
        split; [unfold tier_of; now rewrite Hc|apply Hq; now left].
      * auto.
Qed.

(* every HyperNode the gradient returns has tier <= limit and lies in the
   subtree (Children closure) of the search root *)
Theorem gradient_tier_bound : forall hn start limit alloc l,
  gradient hn start limit alloc = GOk l ->
  exists r, search_root hn start limit alloc = ROk r /\
    forall x t, In (x, t) l -> t <= limit /\ tier_of hn x = Some t /\ reach hn r x.
Proof.
  intros hn start limit alloc l H. unfold gradient in H.
  destruct (aget start hn); [|discriminate].
  destruct (search_root hn start limit alloc) as [| |r] eqn:Hr; try discriminate.
  exists r. split; [reflexivity|].
  eapply bfs_inv; [| |exact H].
  - intros q [<-|[]]. constructor.
  - intros x t [].
Qed.

Lemma highest_allowed_loop_spec hn limit : forall ancs best r,
  highest_allowed_loop hn limit ancs best = Some (Some r) ->
  (best = Some r) \/ (In r ancs /\ exists t, tier_of hn r = Some t /\ t <= limit).
Proof.
  induction ancs as [|a rest IH]; intros best r H; simpl in H.
  - left. now inversion H.
  - destruct (tier_of hn a) as [t|] eqn:Ht; [|discriminate].
    destruct (Z.ltb limit t) eqn:Hlt.
    + left. now inversion H.
    + apply IH in H. destruct H as [H|[Hin Hex]].
      * inversion H; subst. right. split; [now left|]. exists t. split; [exact Ht|].
        apply Z.ltb_ge in Hlt. exact Hlt.
      * right. split; [now right|exact Hex].
Qed.

(* with a prior allocation a, the search root is the start HyperNode or the
   highest allowed ancestor hha of a (an ancestor of a with tier <= limit), and
   the two are related by the LCA test of getSearchRoot *)
Theorem search_root_with_allocation : forall hn start limit a r,
  search_root hn start limit (Some a) = ROk r ->
  exists ancs hha t,
    get_ancestors hn a = Some ancs /\ In hha ancs /\ tier_of hn hha = Some t /\ t <= limit /\
    ((r = start /\ get_lca hn (Some start) (Some hha) = Some (Some hha)) \/
     (r = hha /\ get_lca hn (Some start) (Some hha) = Some (Some start))).
Proof.
  intros hn start limit a r H. unfold search_root in H.
  destruct (get_ancestors hn a) as [ancs|] eqn:Ha; [|discriminate].
  destruct (highest_allowed_loop hn limit ancs None) as [[hha|]|] eqn:Hh; try discriminate.
  apply highest_allowed_loop_spec in Hh. destruct Hh as [Hh|[Hin [t [Ht Hle]]]]; [discriminate|].
  destruct (get_lca hn (Some start) (Some hha)) as [l|] eqn:Hl; [|discriminate].
  exists ancs, hha, t. repeat split; auto.
  destruct l as [x|].
  - destruct (Pos.eqb x hha) eqn:E1.
    + apply Pos.eqb_eq in E1. subst x. inversion H; subst. left. auto.
    + destruct (Pos.eqb x start) eqn:E2; [|discriminate].
      apply Pos.eqb_eq in E2. subst x.
      destruct (aget hha hn); [|discriminate]. inversion H; subst. right. auto.
  - discriminate.
Qed.



(* ================= GetAncestors / GetLCAHyperNode on forests ================= *)
Section Par.
  Variable par : positive -> option positive.

  Fixpoint iter_par (n : nat) (x : positive) : option positive :=
    match n with
    | O => Some x
    | S k => match par x with Some p => iter_par k p | None => None end
    end.
  (* y is x or an ancestor of x *)
  Definition anc (x y : positive) : Prop := exists n, iter_par n x = Some y.

  Lemma anc_refl x : anc x x. Proof. now exists O. Qed.
  Lemma anc_par x p y : par x = Some p -> anc p y -> anc x y.
  Proof. intros Hp [n Hn]. exists (S n). simpl. now rewrite Hp. Qed.
  Lemma anc_trans x y z : anc x y -> anc y z -> anc x z.
  Proof.
    intros [n Hn]. revert x Hn. induction n as [|n IH]; intros x Hn Hyz; simpl in Hn.
    - now inversion Hn; subst.
    - destruct (par x) as [p|] eqn:Hp; [|discriminate]. eapply anc_par; eauto.
  Qed.

  Lemma pmem_In x l : pmem x l = true <-> In x l.
  Proof.
    induction l as [|y r IH]; simpl; [split; [discriminate|tauto]|].
    rewrite orb_true_iff, IH, Pos.eqb_eq. split; intros [H|H]; auto.
  Qed.

  (* the walk only collects ancestors of its start, in order, after acc *)
  Lemma anc_loop_sound : forall fuel acc cur l,
    anc_loop par fuel acc cur = Some l ->
    exists ext, l = acc ++ ext /\ forall y, In y ext -> anc cur y.
  Proof.
    induction fuel as [|f IH]; intros acc cur l H; simpl in H; [discriminate|].
    destruct (par cur) as [p|] eqn:Hp.
    - destruct (pmem p acc).
      + inversion H; subst. exists []. rewrite app_nil_r. split; [reflexivity|intros y []].
      + apply IH in H. destruct H as [ext [-> Hext]]. exists (p :: ext).
        rewrite <- app_assoc. split; [reflexivity|].
        intros y [<-|Hy]; [eapply anc_par; [exact Hp|apply anc_refl]|].
        eapply anc_par; [exact Hp|auto].
    - inversion H; subst. exists []. rewrite app_nil_r. split; [reflexivity|intros y []].
  Qed.

  Theorem ancestors_sound : forall fuel x l y,
    ancestors_gen par fuel x = Some l -> In y l -> anc x y.
  Proof.
    intros fuel x l y H Hin. apply anc_loop_sound in H. destruct H as [ext [-> Hext]].
    destruct Hin as [<-|Hin]; [apply anc_refl|auto].
  Qed.

  (* completeness: the walk stops only at a root or at a repetition *)
  Lemma anc_loop_complete : forall fuel acc cur l,
    anc_loop par fuel acc cur = Some l -> In cur acc ->
    (forall y, In y acc -> forall p, par y = Some p -> In p acc \/ y = cur) ->
    forall y, In y l -> forall p, par y = Some p -> In p l.
  Proof.
    induction fuel as [|f IH]; intros acc cur l H Hcur Hclosed; simpl in H; [discriminate|].
    destruct (par cur) as [p|] eqn:Hp.
    - destruct (pmem p acc) eqn:Hm.
      + inversion H; subst. intros y Hy q Hq. destruct (Hclosed y Hy q Hq) as [?| ->]; auto.
        rewrite Hp in Hq. inversion Hq; subst. now apply pmem_In.
      + eapply IH; [exact H|apply in_or_app; right; now left|].
        intros y Hy q Hq. apply in_app_or in Hy. destruct Hy as [Hy|[<-|[]]]; [|now right].
        left. apply in_or_app. destruct (Hclosed y Hy q Hq) as [?| ->]; [now left|].
        rewrite Hp in Hq. inversion Hq; subst. right. now left.
    - inversion H; subst. intros y Hy q Hq. destruct (Hclosed y Hy q Hq) as [?| ->]; auto.
      rewrite Hp in Hq. discriminate.
  Qed.

  Theorem ancestors_complete : forall fuel x l y,
    ancestors_gen par fuel x = Some l -> anc x y -> In y l.
  Proof.
    intros fuel x l y H [n Hn].
    assert (Hx : In x l).
    { pose proof (anc_loop_sound _ _ _ _ H) as [ext [-> _]]. now left. }
    assert (Hcl : forall z, In z l -> forall p, par z = Some p -> In p l).
    { eapply anc_loop_complete; [exact H|now left|].
      intros z [<-|[]] p _. now right. }
    clear H. revert x Hx Hn. induction n as [|n IH]; intros x Hx Hn; simpl in Hn.
    - now inversion Hn; subst.
    - destruct (par x) as [p|] eqn:Hp; [|discriminate]. eapply IH; [|exact Hn]. eauto.
  Qed.

  (* GetAncestors = exactly the ancestors-or-self, whenever the fuel sufficed *)
  Corollary ancestors_spec : forall fuel x l,
    ancestors_gen par fuel x = Some l -> forall y, In y l <-> anc x y.
  Proof. intros; split; [eapply ancestors_sound|eapply ancestors_complete]; eauto. Qed.

  (* the list is the walk itself: each element's later elements are its ancestors *)
  Lemma anc_loop_ordered : forall fuel acc cur l,
    anc_loop par fuel acc cur = Some l ->
    exists ext, l = acc ++ ext /\
      forall pre y post, ext = pre ++ y :: post -> forall z, In z post -> anc y z.
  Proof.
    induction fuel as [|f IH]; intros acc cur l H; simpl in H; [discriminate|].
    destruct (par cur) as [p|] eqn:Hp.
    - destruct (pmem p acc).
      + inversion H; subst. exists []. rewrite app_nil_r. split; [reflexivity|].
        intros pre y post E. destruct pre; discriminate.
      + pose proof (anc_loop_sound _ _ _ _ H) as [ext0 [E0 Hs]].
        apply IH in H. destruct H as [ext [-> Hord]]. exists (p :: ext).
        rewrite <- app_assoc. split; [reflexivity|].
        intros pre y post E z Hz. destruct pre as [|q pre]; simpl in E; inversion E; subst.
        * apply app_inv_head in E0. subst. apply Hs. exact Hz.
        * eapply Hord; eauto.
    - inversion H; subst. exists []. rewrite app_nil_r. split; [reflexivity|].
      intros pre y post E. destruct pre; discriminate.
  Qed.

  Lemma ancestors_ordered : forall fuel x l pre y post,
    ancestors_gen par fuel x = Some l -> l = pre ++ y :: post -> forall z, In z post -> anc y z.
  Proof.
    intros fuel x l pre y post H E z Hz.
    pose proof (anc_loop_sound _ _ _ _ H) as [ext0 [E0 Hs]].
    apply anc_loop_ordered in H. destruct H as [ext [-> Hord]].
    destruct pre as [|q pre]; simpl in E; inversion E; subst.
    - apply app_inv_head in E0. subst. apply Hs. exact Hz.
    - eapply Hord; eauto.
  Qed.

  (* GetLCAHyperNode: the answer is a common ancestor-or-self, every common one
     is an ancestor-or-self of the answer, and the answer is "" iff there is none *)
  Theorem lca_correct : forall fuel a b r,
    lca_gen par fuel (Some a) (Some b) = Some r ->
    match r with
    | Some x => anc a x /\ anc b x /\ forall c, anc a c -> anc b c -> anc x c
    | None => forall c, anc a c -> anc b c -> False
    end.
  Proof.
    intros fuel a b r H. unfold lca_gen in H.
    destruct (ancestors_gen par fuel a) as [la|] eqn:Ha; [|discriminate].
    destruct (ancestors_gen par fuel b) as [lb|] eqn:Hb; [|discriminate].
    inversion H; subst; clear H. unfold lca_lists.
    destruct (find (fun x => pmem x la) lb) as [x|] eqn:Hf.
    - pose proof (find_some _ _ Hf) as [Hin Hm]. apply pmem_In in Hm.
      split; [eapply ancestors_sound; eauto|]. split; [eapply ancestors_sound; eauto|].
      intros c Hac Hbc.
      assert (Hcl : In c lb) by (eapply ancestors_complete; eauto).
      assert (Hca : In c la) by (eapply ancestors_complete; eauto).
      (* x is the first element of lb that is in la: c = x or c comes later *)
      clear Hin. revert Hf Hcl. generalize (eq_refl lb). generalize lb at 1 3 4 as l0.
      intros l0. revert Hb. generalize lb as full. intros full Hb.
      assert (G : forall pre l0, full = pre ++ l0 -> find (fun x0 => pmem x0 la) l0 = Some x -> In c l0 -> anc x c).
      { intros pre l1. revert pre. induction l1 as [|y rest IH]; intros pre E Hf Hc; [destruct Hc|].
        simpl in Hf. destruct (pmem y la) eqn:Hy.
        - inversion Hf; subst. destruct Hc as [<-|Hc]; [apply anc_refl|].
          eapply ancestors_ordered; eauto.
        - destruct Hc as [<-|Hc].
          + apply pmem_In in Hca. congruence.
          + apply (IH (pre ++ [y])); auto. rewrite <- app_assoc. exact E. }
      intros E Hf Hc. apply (G [] l0); auto. 
    - intros c Hac Hbc.
      assert (Hcl : In c lb) by (eapply ancestors_complete; eauto).
      assert (Hca : In c la) by (eapply ancestors_complete; eauto).
      eapply find_none in Hf; [|exact Hcl]. apply pmem_In in Hca. simpl in Hf. congruence.
  Qed.
End Par.

(* ---------- the code before the repairs (run_prefix) violates the property;
   the same inputs on the repaired code (run) do not ---------- *)

(* D1: Ready was restored by a later unrelated success while h2 claims itself *)
Lemma d1_ready_restored_refuted : exists evs,
  let objs := [mkObj 2 3 [MHyper 2]; mkObj 1 1 [MNode 5]]%positive in
  bad_membership objs = true /\
  s_ready (snd (run_prefix (mkEnv [] []) evs)) = true /\
  s_ready (snd (run (mkEnv [] []) evs)) = false.
Proof.
  exists [EUpd (mkObj 2 3 [MHyper 2]); EUpd (mkObj 1 1 [MNode 5])]%positive.
  vm_compute. repeat split; reflexivity.
Qed.

(* D3: after deleting a claimed child the gradient dereferenced a missing entry *)
Lemma d3_gradient_crash_refuted : exists evs,
  gradient (add_top (snd (run_prefix (mkEnv [] []) evs))) top_name 5 None = GCrash /\
  exists l, gradient (add_top (snd (run (mkEnv [] []) evs))) top_name 5 None = GOk l.
Proof.
  exists [EUpd (mkObj 2 2 [MHyper 1; MHyper 3]); EUpd (mkObj 1 1 []); EUpd (mkObj 3 1 []); EDel 3]%positive.
  vm_compute. split; [reflexivity|eexists; reflexivity].
Qed.

(* D4: a tier-0 HyperNode first seen as a member never entered the tier sets *)
Lemma d4_tier0_not_indexed_refuted : exists evs,
  zget 0 (s_tier (snd (run_prefix (mkEnv [] []) evs))) = None /\
  zget 0 (s_tier (snd (run (mkEnv [] []) evs))) = Some [1%positive].
Proof.
  exists [EUpd (mkObj 2 2 [MHyper 1]); EUpd (mkObj 1 0 [])]%positive.
  vm_compute. split; reflexivity.
Qed.

(* D6 (round 3): after a failed delete the entry stayed marked as being deleted and a
   later update of the same name did not revive it: a double claim went unreported *)
Lemma d6_failed_delete_refuted : exists evs,
  let objs := [mkObj 1 1 []; mkObj 2 3 [MHyper 1]; mkObj 3 2 [MHyper 1]]%positive in
  bad_membership objs = true /\
  s_ready (snd (run_round2 (mkEnv [] []) evs)) = true /\
  s_ready (snd (run (mkEnv [] []) evs)) = false.
Proof.
  exists [EUpd (mkObj 1 2 [MHyper 3; MHyper 1]); EDel 3; EUpd (mkObj 1 1 []);
          EUpd (mkObj 3 2 [MHyper 1]); EUpd (mkObj 2 3 [MHyper 1])]%positive.
  vm_compute. repeat split; reflexivity.
Qed.

(* D9 (round 3): deleting a HyperNode that had failed to adopt h2 detached h2 from its
   real parent h3 *)
Lemma d9_foreign_release_refuted : exists evs,
  (exists i, aget 2%positive (s_hn (snd (run_round2 (mkEnv [] []) evs))) = Some i /\ i_parent i = None) /\
  (exists i, aget 2%positive (s_hn (snd (run (mkEnv [] []) evs))) = Some i /\ i_parent i = Some 3%positive).
Proof.
  exists [EUpd (mkObj 3 2 [MHyper 2]); EUpd (mkObj 5 2 [MHyper 2]); EUpd (mkObj 2 1 []); EDel 5]%positive.
  vm_compute. split; eexists; split; reflexivity.
Qed.

(* D5 (round 5): after the claimed child h2 was deleted, a second claimer h3 was accepted
   without error; now addChild sees that h1 still lists h2 and refuses *)
Lemma d5_second_claimer_refuted :
  let s := snd (run (mkEnv [] []) [EUpd (mkObj 1 2 [MHyper 2]); EUpd (mkObj 2 1 []); EDel 2;
                                   EUpd (mkObj 4 1 [])])%positive in
  let s3 := set_hn s (aset 3%positive (mkInfo 2 [MHyper 2%positive] None [] false) (s_hn s)) in
  snd (add_child_prefix s3 3 2) = false /\ add_child s3 3 2 = (s3, true).
Proof. vm_compute. split; reflexivity. Qed.

(* D2a (round 5): a node deleted from the cluster stayed in the leaf set of a HyperNode that
   selects its nodes by label (the label of a deleted node cannot be looked up) *)
Lemma d2a_label_leaf_stale_refuted :
  let e := mkEnv [1%positive] [(1%positive, [1%positive])] in
  let evs := [EUpd (mkObj 1 1 [MSel true 1]); ENodeDel 1]%positive in
  real_get (snd (run_round4 e evs)) 1 = [1%positive] /\ real_get (snd (run e evs)) 1 = [].
Proof. vm_compute. split; reflexivity. Qed.

(* D14 (thorough-tier finding): h2 and h3 both list h4; the double claim is resolved by deleting
   h2, but the deletion rebuilt h3 while h4 still pointed to h2, failed, and could never succeed:
   h2 stayed in the view for ever and the view never became ready again, although the remaining
   object h3 is a consistent forest.  Now the members are released first. *)
Lemma d14_blocked_delete_refuted :
  let e := mkEnv [] [] in
  let evs := [EUpd (mkObj 2 1 [MHyper 4]); EUpd (mkObj 3 3 [MHyper 4; MHyper 2]); EDel 2; EDel 2]%positive in
  forest_ok [mkObj 3 3 [MHyper 4; MHyper 2]]%positive = true /\
  (s_ready (snd (run_round8 e evs)) = false /\ aget 2%positive (s_hn (snd (run_round8 e evs))) <> None) /\
  (s_ready (snd (run e evs)) = true /\
   exists i, aget 3%positive (s_hn (snd (run e evs))) = Some i /\ i_children i = [4%positive]).
Proof. vm_compute. repeat split; try discriminate; try reflexivity. eexists. split; reflexivity. Qed.

(* D15 (thorough-tier finding): h1 is listed by h3 and h2 (h2's update was refused); when h1's
   object arrives only ONE claimer's chain was rebuilt: with h2 picked, the retry of h2's failed
   rebuild succeeded and the view reported Ready with h1 a member of both.  Now the rebuild of
   a HyperNode that more than one HyperNode lists fails. *)
Lemma d15_arrival_under_two_claimers_refuted :
  let e := mkEnv [] [] in
  let evs := [EUpd (mkObj 3 2 [MHyper 1]); EDel 1; EUpd (mkObj 2 1 [MHyper 1]); EUpd (mkObj 1 0 [])]%positive in
  bad_membership [mkObj 1 0 []; mkObj 2 1 [MHyper 1]; mkObj 3 2 [MHyper 1]]%positive = true /\
  s_ready (snd (run_round9 e evs)) = true /\ s_ready (snd (run e evs)) = false.
Proof. vm_compute. repeat split; reflexivity. Qed.

(* still open (known finding D7): on the repaired code a bad membership can stay unreported
   when the claimer's tier is not above the member's *)
Lemma bad_membership_not_ready_refuted : exists evs,
  let objs := [mkObj 1 1 [MHyper 2]; mkObj 2 1 [MHyper 1]]%positive in
  bad_membership objs = true /\ s_ready (snd (run (mkEnv [] []) evs)) = true.
Proof.
  exists [EUpd (mkObj 1 1 [MHyper 2]); EDel 2; EUpd (mkObj 2 1 [MHyper 1])]%positive.
  vm_compute. split; reflexivity.
Qed.

(* ---------- errors are reported: every failing update / delete leaves Ready = false ---------- *)
(* loops that stop at the first error keep "error flag set => not ready" *)
Lemma rebuild_all_err e : forall l a,
  (snd a = true -> s_ready (fst a) = false) ->
  snd (fold_left (fun (acc : st * bool) k => let '(s0, e0) := acc in
         if (e0 : bool) then acc else
         let '(s1, e1) := rebuild_cache_gen 5 e s0 k in
         if (e1 : bool) then (mark_failed 5 s1 k, true) else (unfail 5 s1 k, false)) l a) = true ->
  s_ready (fst (fold_left (fun (acc : st * bool) k => let '(s0, e0) := acc in
         if (e0 : bool) then acc else
         let '(s1, e1) := rebuild_cache_gen 5 e s0 k in
         if (e1 : bool) then (mark_failed 5 s1 k, true) else (unfail 5 s1 k, false)) l a)) = false.
Proof.
  induction l as [|k l IH]; intros a Ha; simpl; [exact Ha|].
  apply IH. destruct a as [s2 e2]. destruct e2; [exact Ha|].
  destruct (rebuild_cache_gen 5 e s2 k) as [s3 e3]. destruct e3; simpl; [reflexivity|discriminate].
Qed.

Lemma freed_loop_err e nm : forall l a,
  (snd a = true -> s_ready (fst a) = false) ->
  snd (fold_left (fun (acc : st * bool) fr => let '(s0, e0) := acc in
         if (e0 : bool) then acc else rebuild_all 5 e s0 (claimers (s_hn s0) fr nm)) l a) = true ->
  s_ready (fst (fold_left (fun (acc : st * bool) fr => let '(s0, e0) := acc in
         if (e0 : bool) then acc else rebuild_all 5 e s0 (claimers (s_hn s0) fr nm)) l a)) = false.
Proof.
  induction l as [|x l IH]; intros a Ha; simpl; [exact Ha|].
  apply IH. destruct a as [s0 e0]. destruct e0; [exact Ha|].
  unfold rebuild_all. apply rebuild_all_err. simpl. discriminate.
Qed.

Lemma upd_error_not_ready : forall e s o s', upd e s o = (s', true) -> s_ready s' = false.
Proof.
  intros e s o s' H. unfold upd, upd_gen in H. cbv zeta in H.
  match type of H with (if ?c then _ else _) = _ => destruct c end; [discriminate|].
  match type of H with (let '(_, _) := ?c in _) = _ => destruct c as [s1 freed] end.
  match type of H with (if ?c then _ else _) = _ => destruct c end; [|discriminate].
  match type of H with (let '(_, _) := ?c in _) = _ => destruct c as [s4 err] end.
  destruct err.
  - inversion H; subst. reflexivity.
  - pose proof (freed_loop_err e (o_name o) freed (unfail 5 s4 (o_name o), false)
                  ltac:(simpl; discriminate)) as G.
    match type of H with (let '(_, _) := ?c in _) = _ => set (r := c) in H end.
    change (snd r = true -> s_ready (fst r) = false) in G.
    destruct r as [s5 err5]. destruct err5; [|discriminate]. inversion H; subst s'.
    apply G. reflexivity.
Qed.

Lemma del_error_not_ready : forall e s nm s', del e s nm = (s', true) -> s_ready s' = false.
Proof.
  intros e s nm s' H. unfold del, del_gen in H.
  match type of H with (let '(_, _) := ?c in _) = _ => destruct c as [s2 err] end. destruct err; [|discriminate].
  inversion H; subst. reflexivity.
Qed.

(* the two error sources of BuildHyperNodeCache: a name already on the ancestor chain
   (cycle) and a member that already has another parent (double claim) *)
Lemma build_cycle_errors : forall f e s nm processed chain ancset,
  pmem nm chain = true -> build (S f) e s nm processed chain ancset = (s, processed, true).
Proof. intros. simpl. now rewrite H. Qed.

Lemma add_child_second_parent_errors : forall s parent c i p,
  aget c (s_hn s) = Some i -> i_parent i = Some p -> p <> parent ->
  add_child s parent c = (s, true).
Proof.
  intros s parent c i p Hc Hp Hne. unfold add_child. rewrite Hc. unfold add_child_prefix. rewrite Hc. rewrite Hc, Hp.
  destruct (Pos.eqb p parent) eqn:E; [apply Pos.eqb_eq in E; contradiction|reflexivity].
Qed.
