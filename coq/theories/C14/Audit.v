(* C14 — theorems added in the audit round: a positive "bad membership => not ready" theorem
   on the classes where it holds, the history invariant behind it (Ready implies that no
   rebuild is outstanding), the Prop reading of the boolean view checker, and the honest
   statement of what the recorded AllocatedHyperNode is. *)
From Coq Require Import ZArith List Bool Lia Sorted.
From V Require Import C14.Model C14.Laws C14.Lemmas C14.Scratch.
Import ListNotations.
Open Scope Z_scope.

(* ================= W1: what the recorded AllocatedHyperNode is ================= *)
(* The code records LCA(previous allocation, HyperNode chosen by the gradient).  By
   GetLCAHyperNode correctness this is the LOWEST common ancestor-or-self of the previous
   allocation and the chosen domain — it holds every node of the chosen domain and of the
   previous allocation, but it is in general ABOVE the LCA of the nodes actually bound. *)
Theorem recorded_is_lca_of_domains : forall hn p c r,
  new_allocated hn (Some p) c = Some r ->
  match r with
  | Some x => anc (parent_of hn) p x /\ anc (parent_of hn) c x /\
              forall y, anc (parent_of hn) p y -> anc (parent_of hn) c y -> anc (parent_of hn) x y
  | None => forall y, anc (parent_of hn) p y -> anc (parent_of hn) c y -> False
  end.
Proof. intros hn p c r H. exact (lca_correct (parent_of hn) (anc_fuel hn) p c r H). Qed.

(* the property text's "recorded = LCA of the placements" is false for the code as designed:
   leaves h1=[n1] h2=[n2] under h3; the gradient offers the tier-2 domain h3 and both pods fit
   on n1: the record is h3 although the lowest HyperNode holding the placements is h1 *)
Lemma recorded_is_lca_of_placements_refuted :
  let s := scratch (mkEnv [] []) [mkObj 1 1 [MNode 1]; mkObj 2 1 [MNode 2]; mkObj 3 2 [MHyper 1; MHyper 2]]%positive in
  let hn := add_top s in
  new_allocated hn None 3%positive = Some (Some 3%positive) /\
  real_get s 1 = [1%positive] /\ real_get s 3 = [1; 2]%positive /\
  tier_of hn 1%positive = Some 1 /\ tier_of hn 3%positive = Some 2.
Proof. vm_compute. repeat split; reflexivity. Qed.

(* ================= W4: Ready implies that no failed rebuild is outstanding ================= *)
(* the elementary state updates never touch the failed set *)
Lemma add_child_failed s p c : s_failed (fst (add_child s p c)) = s_failed s.
Proof.
  unfold add_child. destruct (aget c (s_hn s)); [|destruct (other_claimers (s_hn s) c p); [|reflexivity]];
  unfold add_child_prefix;
  repeat match goal with
  | |- context [match ?x with _ => _ end] => destruct x eqn:?
  | |- context [if ?x then _ else _] => destruct x eqn:?
  end; simpl;
  repeat match goal with
  | |- context [upd_info ?s ?k ?f] =>
      let H := fresh in pose proof (upd_info_other s k f) as H;
      destruct H as (_ & _ & _ & H & _); rewrite H
  end; reflexivity.
Qed.

Lemma real_union_failed s k l : s_failed (real_union s k l) = s_failed s.
Proof. reflexivity. Qed.

Lemma build_failed : forall f e s nm pr ch an,
  s_failed (fst (fst (build f e s nm pr ch an))) = s_failed s.
Proof.
  induction f as [|f IH]; intros e s nm pr ch an; simpl; [reflexivity|].
  destruct (pmem nm ch); [reflexivity|]. destruct (pmem nm pr); [reflexivity|].
  destruct (negb (pmem nm an)); [reflexivity|].
  destruct (aget nm (s_hn s)) as [i|]; [|reflexivity].
  destruct (i_deleting i); [reflexivity|].
  match goal with |- context [fold_left ?F ?ll ?aa] =>
    assert (G : forall l a, s_failed (fst (fst (fold_left F l a))) = s_failed (fst (fst a))) end.
  { induction l as [|m l IHl]; intros [[s1 pr1] e1]; simpl; [reflexivity|].
    rewrite IHl. destruct e1; [reflexivity|].
    destruct m as [n|lb sel|c]; simpl; try reflexivity.
    pose proof (add_child_failed s1 nm c) as Ha. destruct (add_child s1 nm c) as [s2 e2]. simpl in Ha.
    destruct e2; simpl; [exact Ha|].
    pose proof (IH e s2 c pr1 (nm :: ch) an) as Hb.
    destruct (build f e s2 c pr1 (nm :: ch) an) as [[s3 pr3] e3]. simpl in Hb.
    destruct e3; simpl; congruence. }
  specialize (G (i_members i) (s, pr, false)). cbn [fst] in G.
  match goal with |- context [fold_left ?F (i_members i) (s, pr, false)] =>
    set (r := fold_left F (i_members i) (s, pr, false)) in * end.
  destruct r as [[s' pr'] err]. cbn [fst] in G. destruct err; cbn [fst]; exact G.
Qed.

Lemma clear_derived_failed s a : s_failed (clear_derived s a) = s_failed s.
Proof.
  unfold clear_derived.
  destruct (upd_info_other (set_real s (adel a (s_real s))) a (fun i => with_children [] (with_parent None i)))
    as (_ & _ & _ & H & _). rewrite H. reflexivity.
Qed.

Lemma rebuild_cache_prefix_failed e s nm :
  s_failed (fst (rebuild_cache_prefix e s nm)) = s_failed s.
Proof.
  unfold rebuild_cache_prefix. destruct (get_ancestors (s_hn s) nm) as [ancs|]; [|reflexivity].
  assert (Hc : forall l s0, s_failed (fold_left clear_derived l s0) = s_failed s0).
  { induction l as [|a l IH]; intros s0; simpl; [reflexivity|]. rewrite IH. apply clear_derived_failed. }
  match goal with |- context [fold_left ?F ancs ?aa] =>
    assert (G : forall l a, s_failed (fst (fst (fold_left F l a))) = s_failed (fst (fst a))) end.
  { induction l as [|a l IHl]; intros [[s0 pr] e0]; cbn [fold_left]; [reflexivity|].
    rewrite IHl. destruct e0; [reflexivity|].
    destruct (aget a (s_hn s0)); [|reflexivity]. apply build_failed. }
  specialize (G ancs (fold_left clear_derived ancs s, [], false)). cbn [fst] in G.
  match goal with |- context [fold_left ?F ancs (fold_left clear_derived ancs s, [], false)] =>
    set (r := fold_left F ancs (fold_left clear_derived ancs s, [], false)) in * end.
  destruct r as [[s2 pr2] err]. cbn [fst] in *. now rewrite G, Hc.
Qed.

Lemma rebuild_cache_failed e s nm :
  s_failed (fst (rebuild_cache_gen 5 e s nm)) = s_failed s.
Proof.
  change (rebuild_cache_gen 5 e s nm) with (rebuild_cache e s nm). unfold rebuild_cache.
  destruct (doubly_listed s nm); [reflexivity|apply rebuild_cache_prefix_failed].
Qed.

(* the invariant: a ready view has no rebuild outstanding *)
Definition ready_ok (s : st) : Prop := s_ready s = true -> s_failed s = [].

Lemma pdel_notin k l : pmem k (pdel k l) = false.
Proof.
  unfold pdel. induction l as [|y r IH]; simpl; [reflexivity|].
  destruct (Pos.eqb k y) eqn:E; simpl; [exact IH|]. now rewrite E.
Qed.

Lemma refresh_ready_ok e s : ready_ok (refresh_ready 5 e s).
Proof.
  unfold refresh_ready, ready_ok. cbn [fx1 Nat.ltb Nat.leb].
  (* the loop removes every name it gets through; it stops only with Ready = false *)
  assert (G : forall l s0,
    let r := fold_left (fun (acc : st * bool) k => let '(s0, e0) := acc in
                   if (e0 : bool) then acc else
                   match aget k (s_hn s0) with
                   | None => (unfail 5 s0 k, false)
                   | Some _ => let '(s1, e1) := rebuild_cache_gen 5 e s0 k in
                               if (e1 : bool) then (set_ready s1 false, true) else (unfail 5 s1 k, false)
                   end) l (s0, false) in
    (snd r = true -> s_ready (fst r) = false) /\
    (snd r = false -> forall x, pmem x (s_failed (fst r)) = true -> pmem x (s_failed s0) = true /\ ~ In x l)).
  { induction l as [|k l IH]; intros s0; simpl.
    - split; [discriminate|]. intros _ x Hx. split; [exact Hx|intros []].
    - assert (Hstop : forall l' (a : st), fold_left (fun (acc : st * bool) k => let '(s0, e0) := acc in
                   if (e0 : bool) then acc else
                   match aget k (s_hn s0) with
                   | None => (unfail 5 s0 k, false)
                   | Some _ => let '(s1, e1) := rebuild_cache_gen 5 e s0 k in
                               if (e1 : bool) then (set_ready s1 false, true) else (unfail 5 s1 k, false)
                   end) l' (a, true) = (a, true)).
      { induction l' as [|k' l' IH']; intros a; simpl; [reflexivity|apply IH']. }
      assert (Hun : forall s1, s_failed s1 = s_failed s0 ->
                forall x, pmem x (s_failed (unfail 5 s1 k)) = true -> pmem x (s_failed s0) = true /\ x <> k).
      { intros s1 Hs1 x Hx. unfold unfail in Hx. cbn [fx1 Nat.ltb Nat.leb] in Hx.
        unfold set_failed in Hx. simpl in Hx. rewrite Hs1 in Hx. split.
        - unfold pdel in Hx. clear -Hx. induction (s_failed s0) as [|y r IHr]; simpl in *; [discriminate|].
          destruct (Pos.eqb k y); simpl in Hx.
          + apply orb_true_iff. right. now apply IHr.
          + apply orb_true_iff in Hx. apply orb_true_iff. destruct Hx; [now left|right; now apply IHr].
        - intro; subst x. now rewrite pdel_notin in Hx. }
      destruct (aget k (s_hn s0)) as [i|] eqn:Ek.
      + pose proof (rebuild_cache_failed e s0 k) as Hf.
        destruct (rebuild_cache_gen 5 e s0 k) as [s1 e1]. simpl in Hf. destruct e1.
        * rewrite Hstop. simpl. split; [reflexivity|discriminate].
        * specialize (IH (unfail 5 s1 k)). simpl in IH. destruct IH as [I1 I2]. split; [exact I1|].
          intros Hs x Hx. destruct (I2 Hs x Hx) as [J1 J2]. destruct (Hun s1 Hf x J1) as [K1 K2].
          split; [exact K1|]. intros [->|Hin]; [congruence|contradiction].
      + specialize (IH (unfail 5 s0 k)). simpl in IH. destruct IH as [I1 I2]. split; [exact I1|].
        intros Hs x Hx. destruct (I2 Hs x Hx) as [J1 J2]. destruct (Hun s0 eq_refl x J1) as [K1 K2].
        split; [exact K1|]. intros [->|Hin]; [congruence|contradiction]. }
  specialize (G (s_failed s) s). cbv zeta in G.
  match goal with |- context [fold_left ?F (s_failed s) (s, false)] =>
    set (r := fold_left F (s_failed s) (s, false)) in * end.
  destruct r as [s' stop]. cbn [fst snd] in G. destruct G as [G1 G2].
  destruct stop.
  - intros Hr. rewrite (G1 eq_refl) in Hr. discriminate.
  - intros _. unfold set_ready. simpl.
    destruct (s_failed s') as [|x r] eqn:E; [reflexivity|]. exfalso.
    destruct (G2 eq_refl x) as [H1 H2]; [simpl; now rewrite Pos.eqb_refl|].
    apply H2. apply (proj1 (pmem_In (fun _ => None) x (s_failed s))). exact H1.
Qed.

Lemma fold_release_other fx nm : forall l s,
  s_ready (fold_left (release_child fx nm) l s) = s_ready s /\
  s_failed (fold_left (release_child fx nm) l s) = s_failed s.
Proof.
  induction l as [|c l IH]; intros s; simpl; [auto|].
  destruct (IH (release_child fx nm s c)) as [I1 I2]. rewrite I1, I2.
  unfold release_child, reset_parent.
  destruct (Nat.ltb 1 fx).
  - destruct (aget c (s_hn s)) as [i|]; [|auto]. destruct (i_parent i) as [p|]; [|auto].
    destruct (Pos.eqb p nm); [|auto].
    destruct (upd_info_other s c (with_parent None)) as (_ & _ & a & b & _). auto.
  - destruct (upd_info_other s c (with_parent None)) as (_ & _ & a & b & _). auto.
Qed.

Lemma update_tier_set_other s o :
  s_ready (update_tier_set s o) = s_ready s /\ s_failed (update_tier_set s o) = s_failed s /\
  s_hn (update_tier_set s o) = s_hn s.
Proof.
  unfold update_tier_set, remove_from_tier, set_tier.
  destruct (aget (o_name o) (s_hn s)) as [i|]; [|simpl; auto].
  destruct (Z.eqb (i_tier i) (o_tier o)); [simpl; auto|].
  destruct (zget (i_tier i) (s_tier s)); simpl; auto.
Qed.

Theorem upd_ready_ok : forall e s o, ready_ok s -> ready_ok (fst (upd e s o)).
Proof.
  intros e s o Hs. unfold upd, upd_gen. cbv zeta.
  match goal with |- context [if ?c then (s, false) else _] => destruct c end; [exact Hs|].
  match goal with |- context [let '(_, _) := ?c in _] => destruct c as [s1 freed] eqn:Eup end.
  match goal with |- context [if ?c then _ else _] => destruct c eqn:Erb end.
  - match goal with |- context [let '(_, _) := ?c in _] => destruct c as [s4 err] end.
    destruct err; cbn [fst].
    + intros Hr. unfold mark_failed, set_ready in Hr. simpl in Hr. discriminate.
    + pose proof (freed_loop_err e (o_name o) freed (unfail 5 s4 (o_name o), false)
                    ltac:(simpl; discriminate)) as G.
      match goal with |- context [let '(_, _) := ?c in _] => set (r := c) in * end.
      change (snd r = true -> s_ready (fst r) = false) in G.
      destruct r as [s5 err5]. destruct err5; cbn [fst].
      * intros Hr. pose proof (G eq_refl) as G'. cbn [fst] in G'. rewrite G' in Hr. discriminate.
      * apply refresh_ready_ok.
  - (* no rebuild: Ready and the failed set are those of s *)
    cbn [fst].
    assert (H1 : s_ready s1 = s_ready s /\ s_failed s1 = s_failed s).
    { destruct (_ : bool) in Eup.
      - unfold update_parent in Eup. inversion Eup; subst. apply fold_release_other.
      - inversion Eup; subst. auto. }
    destruct H1 as [R1 F1].
    assert (H2 : forall b : bool,
              s_ready (if b then update_tier_set s1 o else s1) = s_ready s /\
              s_failed (if b then update_tier_set s1 o else s1) = s_failed s).
    { intros [|]; [destruct (update_tier_set_other s1 o) as (a & b & _); rewrite a, b|]; auto. }
    match goal with |- ready_ok (match aget ?k (s_hn (if ?c then _ else _)) with _ => _ end) =>
      specialize (H2 c); set (s2 := if c then update_tier_set s1 o else s1) in * end.
    destruct H2 as [R2 F2].
    destruct (aget (o_name o) (s_hn s2)).
    + match goal with |- ready_ok (upd_info ?s2 ?k ?f) =>
        destruct (upd_info_other s2 k f) as (_ & _ & a & b & _) end.
      unfold ready_ok. rewrite a, b, R2, F2. exact Hs.
    + unfold ready_ok, set_hn. simpl. rewrite R2, F2. exact Hs.
Qed.

Theorem del_ready_ok : forall e s nm, ready_ok (fst (del e s nm)).
Proof.
  intros e s nm. unfold del, del_gen. cbv zeta.
  match goal with |- context [let '(_, _) := ?c in _] => destruct c as [s2 err] end.
  destruct err; cbn [fst].
  - intros Hr. unfold mark_failed, set_ready in Hr. simpl in Hr. discriminate.
  - apply refresh_ready_ok.
Qed.

Lemma trigger_ready_ok : forall e s n, ready_ok s -> ready_ok (fst (trigger e s n)).
Proof.
  intros e s n Hs. unfold trigger, trigger_gen.
  match goal with |- context [fold_left ?F ?ll (s, false)] =>
    assert (G : forall l a, ready_ok (fst a) -> ready_ok (fst (fold_left F l a))) end.
  { induction l as [|ki l IH]; intros [s0 e0] Ha; cbn [fold_left]; [exact Ha|].
    apply IH. destruct e0; [exact Ha|]. cbn [fst] in *.
    destruct (aget (fst ki) (s_hn s0)) as [i|]; [|exact Ha].
    destruct (_ || _); [|exact Ha]. now apply upd_ready_ok. }
  apply G. exact Hs.
Qed.

(* W4, history form: after ANY history of HyperNode and node events (no hypothesis on the
   objects), a view that reports Ready has no failed rebuild outstanding — every rebuild that
   failed on a cycle or a double claim has since succeeded (or its HyperNode is gone).
   Contrapositive: as long as some rebuild has failed and has not been repaired, Ready = false. *)
Theorem ready_implies_no_failed_rebuild : forall evs e,
  let s := snd (run e evs) in s_ready s = true -> s_failed s = [].
Proof.
  intros evs e. unfold run.
  assert (G : forall evs es, ready_ok (snd es) -> ready_ok (snd (fold_left step evs es))).
  { induction evs0 as [|ev r IH]; intros [e0 s0] H0; cbn [fold_left]; [exact H0|].
    apply IH. unfold step, step_gen. destruct ev as [o|nm|n|n]; cbn [snd] in *.
    - change (upd_gen 5 e0 s0 o) with (upd e0 s0 o). now apply upd_ready_ok.
    - change (del_gen 5 e0 s0 nm) with (del e0 s0 nm). apply del_ready_ok.
    - match goal with |- context [trigger_gen 5 ?e' s0 n] => change (trigger_gen 5 e' s0 n) with (trigger e' s0 n) end.
      now apply trigger_ready_ok.
    - match goal with |- context [trigger_gen 5 ?e' s0 n] => change (trigger_gen 5 e' s0 n) with (trigger e' s0 n) end.
      now apply trigger_ready_ok. }
  apply (G evs (e, init_st)). intros _. reflexivity.
Qed.

(* ================= W4: a second claim of an existing member is refused ================= *)
(* once the error flag is set the member loop keeps state and flag *)
Lemma body_error_sticks e nm f ch an : forall ms s pr,
  fold_left (body e nm f ch an) ms (s, pr, true) = (s, pr, true).
Proof. induction ms as [|m ms IH]; intros s pr; simpl; [reflexivity|apply IH]. Qed.

(* a new object arrives whose members are fine up to a HyperNode member c that exists and
   already has a parent p (p <> the new object): UpdateHyperNode returns an error and the
   view is not ready *)
Theorem second_claim_not_ready : forall e s P nm t ms1 c rest p,
  Rep s P ->
  find_obj P nm = None ->
  Forall (fun m => match m with
                   | MNode _ => True | MSel _ _ => False
                   | MHyper c' => c' <> nm /\ find_obj P c' <> None /\ spec_parent P c' = None
                   end) ms1 ->
  c <> nm -> find_obj P c <> None -> spec_parent P c = Some p -> p <> nm ->
  ~ In (MHyper c) ms1 ->
  exists s', upd e s (mkObj nm t (ms1 ++ MHyper c :: rest)) = (s', true) /\ s_ready s' = false.
Proof.
  intros e s P nm t ms1 c rest p HR Hfresh Hms1 Hcn Hcex Hcp Hpn Hnotin.
  destruct (upd e s (mkObj nm t (ms1 ++ MHyper c :: rest))) as [s' err] eqn:Eu.
  destruct err; [exists s'; split; [reflexivity|exact (upd_error_not_ready _ _ _ _ Eu)]|].
  exfalso.
  (* run UpdateHyperNode symbolically as in upd_fresh, up to the member loop *)
  destruct HR as [Rhn Rreal Rtier Rready Rfailed Rfuel Rsorted Rclosed].
  set (ms := ms1 ++ MHyper c :: rest) in *.
  assert (Hnm : aget nm (s_hn s) = None) by (rewrite Rhn, Hfresh; reflexivity).
  unfold upd, upd_gen in Eu. cbn [o_name o_tier o_members] in Eu.
  unfold known in Eu. rewrite Hnm in Eu.
  cbn [fx1 fx2 Nat.ltb Nat.leb andb negb orb] in Eu.
  unfold update_parent, stored_children in Eu. cbn [o_name o_members] in Eu. rewrite Hnm in Eu.
  cbn [pdiff filter fold_left] in Eu.
  unfold update_tier_set in Eu. cbn [o_name o_tier] in Eu. rewrite Hnm in Eu.
  set (tiers' := zset t (pins nm (match zget t (s_tier s) with Some l => l | None => [] end)) (s_tier s)) in Eu.
  change (s_hn (set_tier s tiers')) with (s_hn s) in Eu. rewrite Hnm in Eu.
  set (s3 := set_hn (set_tier s tiers') (aset nm (mkInfo t ms None [] false) (s_hn s))) in Eu.
  assert (H3nm : aget nm (s_hn s3) = Some (mkInfo t ms None [] false)) by apply aget_aset_eq.
  assert (H3hn : forall k, k <> nm -> aget k (s_hn s3) = aget k (s_hn s)).
  { intros k Hk. unfold s3, set_hn. simpl. now apply aget_aset_ne. }
  assert (Hunc : forall ki, In ki (s_hn s) -> claims (i_members (snd ki)) nm = false).
  { intros [k i] Hin. cbn [snd]. apply (sorted_In_aget k i _ Rsorted) in Hin.
    rewrite Rhn in Hin. destruct (find_obj P k) as [ok|] eqn:E; [|discriminate].
    inversion Hin; subst. cbn [i_members].
    destruct (claims (o_members ok) nm) eqn:Ec; [|reflexivity].
    exfalso. apply find_obj_some in E. destruct E as [Ein _]. exact (Rclosed ok nm Ein Ec Hfresh). }
  assert (H3u : unclaimed (s_hn s3) nm).
  { intros ki Hin. rewrite H3nm. cbn [i_tier].
    apply In_aset in Hin. destruct Hin as [->|Hin].
    - cbn [snd i_tier]. now rewrite Z.ltb_irrefl.
    - rewrite (Hunc ki Hin). apply andb_false_r. }
  assert (H3l : listed_by (s_hn s3) nm = []).
  { unfold listed_by. rewrite filter_all_false; [reflexivity|].
    intros ki Hin. apply In_aset in Hin. destruct Hin as [->|Hin].
    - cbn [fst]. now rewrite Pos.eqb_refl.
    - pose proof (Hunc ki Hin) as Hc. unfold claims in Hc. rewrite Hc. apply andb_false_r. }
  change (rebuild_cache_gen 5 e s3 nm) with (rebuild_cache e s3 nm) in Eu.
  unfold rebuild_cache, doubly_listed in Eu. rewrite H3l in Eu. cbn [length Nat.ltb Nat.leb] in Eu.
  rewrite andb_false_r in Eu. unfold rebuild_cache_prefix in Eu.
  rewrite (get_ancestors_root _ _ _ H3nm eq_refl H3u) in Eu.
  cbn [fold_left length] in Eu.
  set (s0 := clear_derived s3 nm) in Eu.
  assert (H0nm : aget nm (s_hn s0) = Some (mkInfo t ms None [] false)).
  { unfold s0, clear_derived. rewrite hn_upd_info, Pos.eqb_refl.
    change (s_hn (set_real s3 (adel nm (s_real s3)))) with (s_hn s3). now rewrite H3nm. }
  assert (H0hn : forall k, k <> nm -> aget k (s_hn s0) = aget k (s_hn s)).
  { intros k Hk. unfold s0, clear_derived. rewrite hn_upd_info.
    assert (E : Pos.eqb k nm = false) by now apply Pos.eqb_neq. rewrite E.
    change (s_hn (set_real s3 (adel nm (s_real s3)))) with (s_hn s3). now apply H3hn. }
  rewrite H0nm in Eu.
  rewrite (build_unfold _ e s0 nm _ [] [] [nm]) in Eu by
    (try reflexivity; try exact H0nm; simpl; now rewrite Pos.eqb_refl).
  cbn [i_members] in Eu. unfold ms in Eu. rewrite fold_left_app in Eu.
  (* the members before c are adopted without error *)
  assert (Hms0 : Forall (MOk nm s0) ms1).
  { eapply Forall_impl; [|exact Hms1]. intros m Hm. destruct m as [n| |c']; simpl in *; auto.
    destruct Hm as [Hc' [Hex Hsp]]. split; [exact Hc'|].
    rewrite (H0hn c' Hc'), Rhn. destruct (find_obj P c') as [oc|]; [|contradiction].
    eexists. split; [reflexivity|exact Hsp]. }
  assert (Hinit : LInv nm t (ms1 ++ MHyper c :: rest) [] s0 s0).
  { constructor; auto.
    - intros n. assert (H0rnm : real_get s0 nm = []).
      { unfold real_get, s0, clear_derived.
        destruct (upd_info_other (set_real s3 (adel nm (s_real s3))) nm
                    (fun i => with_children [] (with_parent None i))) as (a1 & _).
        rewrite a1. unfold set_real. simpl. now rewrite aget_adel, Pos.eqb_refl. }
      rewrite H0rnm. simpl. split; [intros []|intros [[]|[c0 [[] _]]]].
    - unfold s0, clear_derived. apply upd_info_sorted. unfold set_real. simpl.
      unfold s3, set_hn. simpl. now apply aset_sorted. }
  destruct (loop_ok e nm t (ms1 ++ MHyper c :: rest) s0 1 ms1 [] s0 Hms0 Hinit) as [s1 [Hfold Hinv]].
  rewrite Hfold in Eu. cbn [fold_left app] in Eu.
  (* at c: it exists and its parent is p <> nm *)
  destruct Hinv as [Inm Ihn _ _ _ _ _ _ _]. simpl in Ihn.
  assert (Hc1 : exists ic, aget c (s_hn s1) = Some ic /\ i_parent ic = Some p).
  { rewrite (Ihn c Hcn).
    assert (Ecl : claims ms1 c = false).
    { destruct (claims ms1 c) eqn:E; [|reflexivity]. apply claims_In in E. contradiction. }
    rewrite Ecl, (H0hn c Hcn), Rhn. destruct (find_obj P c) as [oc|]; [|contradiction].
    eexists. split; [reflexivity|exact Hcp]. }
  destruct Hc1 as [ic [Hc1 Hp1]].
  unfold body at 2 in Eu. cbv beta iota in Eu.
  rewrite (add_child_second_parent_errors s1 nm c ic p Hc1 Hp1 Hpn) in Eu. cbv beta iota in Eu.
  rewrite body_error_sticks in Eu. cbv beta iota in Eu.
  unfold mark_failed, set_ready in Eu. inversion Eu.
Qed.

(* ================= W6: what the boolean view checker means ================= *)
Lemma list_eqb_eq {A} (eqb : A -> A -> bool) :
  (forall x y, eqb x y = true -> x = y) -> forall a b, list_eqb eqb a b = true -> a = b.
Proof.
  intros H. induction a as [|x r IH]; intros [|y s] E; simpl in E; try discriminate; [reflexivity|].
  apply andb_true_iff in E. destruct E as [E1 E2]. f_equal; [now apply H|now apply IH].
Qed.
Lemma plist_eqb_eq a b : plist_eqb a b = true -> a = b.
Proof. apply list_eqb_eq. intros x y. apply Pos.eqb_eq. Qed.
Lemma opt_eqb_eq a b : opt_eqb a b = true -> a = b.
Proof. destruct a, b; simpl; try discriminate; [|reflexivity]. intros H. apply Pos.eqb_eq in H. now subst. Qed.

(* view_matches_spec = true means, for every object: its entry exists with the object's tier,
   the unique claimer as Parent, exactly the claimed members that exist as Children (every
   listed child is claimed and has an entry), and the leaf set computed from the objects;
   the tier sets are the objects grouped by tier; no leaf set belongs to a non-object *)
Theorem view_matches_spec_sound : forall e objs v,
  view_matches_spec e objs v = true ->
  (forall o, In o objs -> exists i,
      aget (o_name o) (s_hn v) = Some i /\
      i_tier i = o_tier o /\
      i_parent i = spec_parent objs (o_name o) /\
      real_only objs (i_children i) = real_only objs (hchildren (o_members o)) /\
      (forall c, In c (i_children i) -> pmem c (hchildren (o_members o)) = true /\ aget c (s_hn v) <> None) /\
      real_get v (o_name o) = spec_real (S (length objs)) e objs (o_name o)) /\
  s_tier v = spec_tiers objs /\
  (forall k l, In (k, l) (s_real v) -> pmem k (obj_names objs) = true \/ l = []).
Proof.
  intros e objs v H. unfold view_matches_spec, view_matches_spec_gen in H.
  apply andb_true_iff in H. destruct H as [H H3]. apply andb_true_iff in H. destruct H as [H1 H2].
  split; [|split].
  2:{ unfold tiers_eqb in H2. apply (list_eqb_eq _) in H2; [exact H2|].
      intros [t1 l1] [t2 l2] E. simpl in E. apply andb_true_iff in E. destruct E as [E1 E2].
      apply Z.eqb_eq in E1. apply plist_eqb_eq in E2. now subst. }
  - intros o Hin. rewrite forallb_forall in H1. specialize (H1 o Hin).
    destruct (aget (o_name o) (s_hn v)) as [i|]; [|discriminate]. exists i. split; [reflexivity|].
    apply andb_true_iff in H1. destruct H1 as [H1 Hr]. apply andb_true_iff in H1. destruct H1 as [H1 Hc].
    apply andb_true_iff in H1. destruct H1 as [Ht Hp].
    split; [now apply Z.eqb_eq|]. split; [now apply opt_eqb_eq|].
    unfold children_ok in Hc. apply andb_true_iff in Hc. destruct Hc as [Hc1 Hc2].
    split; [now apply plist_eqb_eq|]. split.
    + intros c Hcin. rewrite forallb_forall in Hc2. specialize (Hc2 c Hcin).
      apply andb_true_iff in Hc2. destruct Hc2 as [A B]. split; [exact A|].
      destruct (aget c (s_hn v)); [discriminate|discriminate].
    + simpl in Hr. now apply plist_eqb_eq.
  - intros k l Hin. rewrite forallb_forall in H3. specialize (H3 (k, l) Hin). simpl in H3.
    apply orb_true_iff in H3. destruct H3 as [H3|H3]; [now left|right]. now destruct l.
Qed.

(* ================= W3: the VIEW clause is false on the code in two known classes ================= *)
(* D2b: a HyperNode that mixes a HyperNode member with a regex node member is not refreshed
   when a matching node is added: its leaf set stays empty, a fresh view lists the node *)
Lemma view_order_independence_refuted_mixed_members :
  let e0 := mkEnv [] [(1%positive, [1%positive])] in
  let objs := [mkObj 2 1 []; mkObj 1 2 [MSel false 1; MHyper 2]]%positive in
  let incr := run e0 (map EUpd objs ++ [ENodeAdd 1%positive]) in
  real_get (snd incr) 1 = [] /\
  real_get (scratch (fst incr) objs) 1 = [1%positive] /\
  s_ready (snd incr) = true.
Proof. vm_compute. repeat split; reflexivity. Qed.

(* D7: h3 (tier 1) lists h1; h1 arrives with tier 1 (not below its claimer) and is then
   corrected to tier 0: h3 never adopts it, a fresh view has h3 as its parent *)
Lemma view_order_independence_refuted_tier_inversion :
  let e0 := mkEnv [] [] in
  let evs := [EUpd (mkObj 3 1 [MHyper 1]); EDel 1; EUpd (mkObj 1 1 []); EUpd (mkObj 1 0 [])]%positive in
  let objs := [mkObj 1 0 []; mkObj 3 1 [MHyper 1]]%positive in
  forest_ok objs = true /\
  (exists i, aget 1%positive (s_hn (snd (run e0 evs))) = Some i /\ i_parent i = None) /\
  (exists i, aget 1%positive (s_hn (scratch e0 objs)) = Some i /\ i_parent i = Some 3%positive).
Proof. vm_compute. split; [reflexivity|split; eexists; split; reflexivity]. Qed.
