(* C14 — specification of the HyperNode tree "derived from the final objects"
   and executable laws evaluated on what the IMPLEMENTATION returned.
   Nothing here calls the modelled functions (upd/del/build/gradient/get_lca):
   the laws use only the objects, parent pointers and set lookups. *)
From Coq Require Import ZArith List Bool.
From V Require Import C14.Model.
Import ListNotations.
Open Scope Z_scope.

(* ---------- the tree derived from a set of objects ---------- *)
Definition obj_names (objs : list hobj) : list positive := map o_name objs.
Definition find_obj (objs : list hobj) (k : positive) : option hobj :=
  find (fun o => Pos.eqb (o_name o) k) objs.

Definition spec_parent (objs : list hobj) (c : positive) : option positive :=
  match find (fun o => claims (o_members o) c) objs with Some o => Some (o_name o) | None => None end.

Definition node_members (e : env) (ms : list member) : list positive :=
  fold_left (fun acc m => match m with
                          | MNode n => pins n acc
                          | MSel _ sel => punion acc (resolve e sel)
                          | MHyper _ => acc end) ms [].

(* leaves below o: own node members plus those of the existing children *)
Fixpoint spec_real (fuel : nat) (e : env) (objs : list hobj) (k : positive) : list positive :=
  match fuel with
  | O => []
  | S f => match find_obj objs k with
           | None => []
           | Some o => fold_left (fun acc c => punion acc (spec_real f e objs c))
                                 (hchildren (o_members o)) (node_members e (o_members o))
           end
  end.

Definition spec_tiers (objs : list hobj) : list (Z * list positive) :=
  fold_left (fun acc o => zset (o_tier o)
                (pins (o_name o) (match zget (o_tier o) acc with Some l => l | None => [] end)) acc) objs [].

(* walk up the claimer pointers: Some n = reached a root within n steps *)
Fixpoint climbs (fuel : nat) (objs : list hobj) (k : positive) : bool :=
  match fuel with
  | O => false
  | S f => match spec_parent objs k with None => true | Some p => climbs f objs p end
  end.

Definition tier_monotone (objs : list hobj) : bool :=
  forallb (fun o => forallb (fun c => match find_obj objs c with
                                      | Some oc => Z.ltb (o_tier oc) (o_tier o)
                                      | None => Z.ltb 0 (o_tier o) end)
                            (hchildren (o_members o))) objs.

Definition unique_names (objs : list hobj) : bool := negb (has_dup (obj_names objs)).
Definition no_double_claim (objs : list hobj) : bool :=
  negb (has_dup (flat_map (fun o => hchildren (o_members o)) objs)).
Definition acyclic (objs : list hobj) : bool :=
  forallb (fun o => climbs (S (length objs)) objs (o_name o)) objs.

(* cycle or doubly-claimed child: must be reported as not ready *)
Definition bad_membership (objs : list hobj) : bool := negb (no_double_claim objs) || negb (acyclic objs).
(* consistent forest: the class on which the view is fully specified *)
Definition forest_ok (objs : list hobj) : bool :=
  unique_names objs && no_double_claim objs && acyclic objs && tier_monotone objs.

(* ---------- observed views ---------- *)
(* what the accessors of HyperNodesInfo show (same shape as the model state) *)
Definition view := st.

Fixpoint list_eqb {A} (eqb : A -> A -> bool) (a b : list A) : bool :=
  match a, b with
  | [], [] => true
  | x :: r, y :: s => eqb x y && list_eqb eqb r s
  | _, _ => false
  end.
Definition plist_eqb := list_eqb Pos.eqb.
Definition opt_eqb (a b : option positive) : bool :=
  match a, b with None, None => true | Some x, Some y => Pos.eqb x y | _, _ => false end.

Definition tiers_eqb (a b : list (Z * list positive)) : bool :=
  list_eqb (fun x y => Z.eqb (fst x) (fst y) && plist_eqb (snd x) (snd y)) a b.

(* Children: exactly the claimed members that exist as objects; a claimed member
   without an object may or may not be listed (addChild lists it with a
   placeholder entry, DeleteHyperNode unlists it), but every listed name is
   claimed and has an entry *)
Definition real_only (objs : list hobj) (l : list positive) : list positive :=
  filter (fun c => pmem c (obj_names objs)) l.
Definition children_ok (objs : list hobj) (v : view) (got claimed : list positive) : bool :=
  plist_eqb (real_only objs got) (real_only objs claimed) &&
  forallb (fun c => pmem c claimed && match aget c (s_hn v) with Some _ => true | None => false end) got.

(* some HyperNode at or below k has a regex / label node member *)
Fixpoint sel_below (fuel : nat) (objs : list hobj) (k : positive) : bool :=
  match fuel with
  | O => false
  | S f => match find_obj objs k with
           | None => false
           | Some o => has_sel (o_members o) || existsb (sel_below f objs) (hchildren (o_members o))
           end
  end.

(* the view agrees with the tree derived from objs on every real HyperNode;
   [strict = false] skips the leaf sets of HyperNodes with selector members at
   or below them (what finding D2 leaves stale) and checks everything else *)
Definition view_matches_spec_gen (strict : bool) (e : env) (objs : list hobj) (v : view) : bool :=
  forallb (fun o =>
    match aget (o_name o) (s_hn v) with
    | None => false
    | Some i =>
        Z.eqb (i_tier i) (o_tier o) &&
        opt_eqb (i_parent i) (spec_parent objs (o_name o)) &&
        children_ok objs v (i_children i) (hchildren (o_members o)) &&
        (negb strict && sel_below (S (length objs)) objs (o_name o) ||
         plist_eqb (real_get v (o_name o)) (spec_real (S (length objs)) e objs (o_name o)))
    end) objs &&
  tiers_eqb (s_tier v) (spec_tiers objs) &&
  forallb (fun kl => pmem (fst kl) (obj_names objs) || match snd kl with [] => true | _ => false end) (s_real v).

Definition view_matches_spec := view_matches_spec_gen true.

(* L1: the final view is the tree of the final objects *)
Definition law_view (e : env) (objs : list hobj) (v : view) : bool :=
  if forest_ok objs then view_matches_spec e objs v else true.

(* L1b: cyclic or doubly-claimed memberships are reported as not ready *)
Definition law_bad_not_ready (objs : list hobj) (v : view) : bool :=
  if bad_membership objs then negb (s_ready v) else true.

(* L1r: a consistent forest is reported ready (liveness side, reported separately) *)
Definition law_ready (objs : list hobj) (v : view) : bool :=
  if forest_ok objs then s_ready v else true.

(* L2: order-independence — the incremental view equals the view of a fresh
   HyperNodesInfo fed only the final objects, on every real HyperNode *)
Definition views_agree_gen (strict : bool) (objs : list hobj) (a b : view) : bool :=
  forallb (fun o =>
    match aget (o_name o) (s_hn a), aget (o_name o) (s_hn b) with
    | Some i, Some j =>
        Z.eqb (i_tier i) (i_tier j) && opt_eqb (i_parent i) (i_parent j) &&
        plist_eqb (real_only objs (i_children i)) (real_only objs (i_children j)) &&
        (negb strict && sel_below (S (length objs)) objs (o_name o) ||
         plist_eqb (real_get a (o_name o)) (real_get b (o_name o)))
    | _, _ => false
    end) objs &&
  tiers_eqb (s_tier a) (s_tier b) && Bool.eqb (s_ready a) (s_ready b).

Definition views_agree := views_agree_gen true.

(* the same two laws without the leaf sets that depend on selectors *)
Definition law_view_nosel (e : env) (objs : list hobj) (v : view) : bool :=
  if forest_ok objs then view_matches_spec_gen false e objs v else true.
Definition law_fresh_nosel (objs : list hobj) (incr fresh : view) : bool :=
  if forest_ok objs then views_agree_gen false objs incr fresh else true.

Definition law_fresh (objs : list hobj) (incr fresh : view) : bool :=
  if forest_ok objs then views_agree objs incr fresh else true.

(* ---------- placement laws on a session's HyperNode map ---------- *)
(* chain of Parent pointers (no getParent fallback): name, parent, grandparent ... *)
Fixpoint up_chain (fuel : nat) (hn : list (positive * info)) (k : positive) : list positive :=
  match fuel with
  | O => [k]
  | S f => match aget k hn with
           | Some i => match i_parent i with Some p => k :: up_chain f hn p | None => [k] end
           | None => [k]
           end
  end.
Definition chain_of (hn : list (positive * info)) (k : positive) := up_chain (S (length hn)) hn k.
Definition under (hn : list (positive * info)) (x a : positive) : bool := pmem a (chain_of hn x).

(* highest ancestor-or-self of a whose tier is <= limit, walking up while allowed *)
Fixpoint highest_allowed_spec (hn : list (positive * info)) (limit : Z) (ch : list positive) (best : option positive) :=
  match ch with
  | [] => best
  | a :: r => match aget a hn with
              | Some i => if Z.leb (i_tier i) limit then highest_allowed_spec hn limit r (Some a) else best
              | None => best
              end
  end.

(* L3: every HyperNode offered for a hard-mode job has tier <= limit, is under the
   start HyperNode and, with a prior allocation, under its highest allowed ancestor *)
Definition law_gradient (hn : list (positive * info)) (start : positive) (limit : Z) (alloc : option positive)
           (got : list (positive * Z)) : bool :=
  negb (has_dup (map fst got)) &&
  forallb (fun kt =>
    Z.leb (snd kt) limit &&
    match aget (fst kt) hn with Some i => Z.eqb (i_tier i) (snd kt) | None => false end &&
    under hn (fst kt) start &&
    match alloc with
    | None => true
    | Some a => match highest_allowed_spec hn limit (chain_of hn a) None with
                | Some h => under hn (fst kt) h
                | None => false
                end
    end) got.

(* L4: GetLCAHyperNode a b = r: r is a common ancestor-or-self and every common one is above r *)
Definition law_lca (hn : list (positive * info)) (a b : positive) (r : option positive) : bool :=
  match aget a hn, aget b hn with
  | Some _, Some _ =>
  match r with
  | Some x => under hn a x && under hn b x &&
              forallb (fun c => implb (under hn a c && under hn b c) (under hn x c))
                      (chain_of hn a)
  | None => negb (existsb (fun c => under hn b c) (chain_of hn a))
  end
  | _, _ => true      (* names without an entry: not specified *)
  end.

(* L5: the gradient never dereferences a missing HyperNode entry *)
Definition law_no_crash (crashed : bool) : bool := negb crashed.
