(* C14 — a second universe for the small-scope theorem of SmallScope.v: a
   four-tier chain h1 < h2 < h3 < h4 plus a second leaf h5 that can hang under
   any of them (re-parenting across tiers, dangling members, deletes). *)
From Coq Require Import ZArith List Bool.
From V Require Import C14.Model C14.Laws C14.SmallScope.
Import ListNotations.
Open Scope Z_scope.

Definition v_env : env := mkEnv [1%positive; 2%positive] [].
Definition v_objs : list hobj :=
  [ mkObj 1 1 []; mkObj 1 1 [MNode 1];
    mkObj 5 1 [MNode 2];
    mkObj 2 2 []; mkObj 2 2 [MHyper 1]; mkObj 2 2 [MHyper 1; MHyper 5];
    mkObj 3 3 []; mkObj 3 3 [MHyper 2]; mkObj 3 3 [MHyper 2; MHyper 5];
    mkObj 4 4 []; mkObj 4 4 [MHyper 3]; mkObj 4 4 [MHyper 3; MHyper 5] ]%positive.
Definition v_alphabet : list event :=
  map EUpd v_objs ++ [EDel 1; EDel 2; EDel 3; EDel 4; EDel 5]%positive.
Definition v_reach : list cfg :=
  match explore v_env v_alphabet 4000 [u_init] [u_init] with Some v => v | None => [] end.

Lemma v_reach_closed : closed v_env v_alphabet v_reach && inb u_init v_reach = true.
Proof. vm_compute. reflexivity. Qed.

Theorem incremental_equals_scratch_small_scope2 : forall h,
  guards_along v_env v_alphabet u_init h ->
  let c := fold_left (cstep v_env) h u_init in
  view_matches_spec v_env (c_objs c) (c_st c) = true /\
  s_ready (c_st c) = true /\ s_fuel (c_st c) = false /\
  views_agree (c_objs c) (c_st c) (scratch v_env (c_objs c)) = true.
Proof.
  intros h Hg. apply good_elim.
  exact (small_scope_generic v_env v_alphabet u_init v_reach v_reach_closed h Hg).
Qed.
