(* C14 — law on the binds of a real allocate action (kept apart from Laws.v so that
   the small-scope proofs do not depend on it). *)
From Coq Require Import ZArith List Bool.
From V Require Import C14.Model.
Import ListNotations.
Open Scope Z_scope.

(* L6: placements of a hard-mode job / sub-job after a real allocate action.
   [nodes] = nodes of its allocated + bound + already running pods.  They all lie in
   the leaf set of ONE HyperNode of tier <= limit, and the recorded
   AllocatedHyperNode (if any) has tier <= limit and covers every placement. *)
Definition covers (real : list (positive * list positive)) (h : positive) (nodes : list positive) : bool :=
  match aget h real with
  | Some l => forallb (fun n => pmem n l) nodes
  | None => match nodes with [] => true | _ => false end
  end.
Definition law_placement (hn : list (positive * info)) (real : list (positive * list positive))
           (limit : Z) (recorded : option positive) (nodes : list positive) : bool :=
  match nodes with
  | [] => true
  | _ => existsb (fun ki => Z.leb (i_tier (snd ki)) limit && covers real (fst ki) nodes) hn
  end.

(* L6b: the recorded AllocatedHyperNode covers every placement and respects the limit *)
Definition law_recorded (hn : list (positive * info)) (real : list (positive * list positive))
           (limit : Z) (recorded : option positive) (nodes : list positive) : bool :=
  match nodes, recorded with
  | [], _ | _, None => true
  | _, Some r => covers real r nodes &&
                 match aget r hn with Some i => Z.leb (i_tier i) limit | None => false end
  end.
