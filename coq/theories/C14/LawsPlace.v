(* C14 — law on the binds of a real allocate action (kept apart from Laws.v so that
   the small-scope proofs do not depend on it). *)
From Coq Require Import ZArith List Bool.
From V Require Import C14.Model.
Import ListNotations.
Open Scope Z_scope.

(* L6: placements of a hard-mode job / sub-job after a real allocate action.
   [nodes] = nodes of its allocated + bound + already running pods.  They all lie in
   the leaf set of ONE HyperNode of tier <= limit, and the recorded
   AllocatedHyperNode (if any) has tier <= limit and covers every placement. *)
Definition covers (real : list (positive * list positive)) (h : positive) (nodes : list positive) : bool :=
  match aget h real with
  | Some l => forallb (fun n => pmem n l) nodes
  | None => match nodes with [] => true | _ => false end
  end.
Definition law_placement (hn : list (positive * info)) (real : list (positive * list positive))
           (limit : Z) (recorded : option positive) (nodes : list positive) : bool :=
  match nodes with
  | [] => true
  | _ => existsb (fun ki => Z.leb (i_tier (snd ki)) limit && covers real (fst ki) nodes) hn
  end.

(* L6b: the recorded AllocatedHyperNode covers every placement and respects the limit *)
Definition law_recorded (hn : list (positive * info)) (real : list (positive * list positive))
           (limit : Z) (recorded : option positive) (nodes : list positive) : bool :=
  match nodes, recorded with
  | [], _ | _, None => true
  | _, Some r => covers real r nodes &&
                 match aget r hn with Some i => Z.leb (i_tier i) limit | None => false end
  end.

(* L6c: the property text's reading — the recorded AllocatedHyperNode is the LOWEST HyperNode
   that holds every placement (no HyperNode of a lower tier does).  The code records the LCA of
   the chosen DOMAINS instead (finding D11), so this law is expected to fail when a domain
   wider than the placements was chosen. *)
Definition law_recorded_lowest (hn : list (positive * info)) (real : list (positive * list positive))
           (recorded : option positive) (nodes : list positive) : bool :=
  match nodes, recorded with
  | [], _ | _, None => true
  | _, Some r =>
      match aget r hn with
      | None => false
      | Some ir => forallb (fun ki => negb (covers real (fst ki) nodes) || Z.leb (i_tier ir) (i_tier (snd ki))) hn
      end
  end.

(* L7: a view that is not ready is not scheduled on: no pod of a job that has any hard topology
   constraint (job level or sub-group level) is bound in such a session *)
Definition law_not_ready_no_bind (not_ready : bool) (new_binds : Z) : bool :=
  implb not_ready (Z.eqb new_binds 0).

(* L8: a hard limit the scheduler cannot interpret (tier name that no HyperNode carries) must
   not be dropped silently: no pod of such a job / sub-group is bound (finding D13) *)
Definition law_unknown_name_no_bind (unknown : bool) (binds : Z) : bool :=
  implb unknown (Z.eqb binds 0).

(* ---------- what the placement laws mean ---------- *)
Lemma covers_sound real h nodes : covers real h nodes = true ->
  nodes = [] \/ exists l, aget h real = Some l /\ forall n, In n nodes -> In n l.
Proof.
  unfold covers. destruct (aget h real) as [l|].
  - intros H. right. exists l. split; [reflexivity|]. intros n Hn.
    rewrite forallb_forall in H. specialize (H n Hn).
    clear -H. induction l as [|y r IH]; simpl in H; [discriminate|].
    apply orb_true_iff in H. destruct H as [H|H]; [apply Pos.eqb_eq in H; now left|right; auto].
  - destruct nodes; [now left|discriminate].
Qed.

(* law 108 = "all placements lie in the leaf set of ONE HyperNode of tier <= limit" *)
Theorem law_placement_sound : forall hn real limit recorded nodes,
  law_placement hn real limit recorded nodes = true ->
  nodes = [] \/
  exists h i l, In (h, i) hn /\ i_tier i <= limit /\ aget h real = Some l /\ forall n, In n nodes -> In n l.
Proof.
  intros hn real limit recorded nodes H. unfold law_placement in H.
  destruct nodes as [|n0 ns]; [now left|]. right.
  apply existsb_exists in H. destruct H as [[h i] [Hin H]]. apply andb_true_iff in H. destruct H as [Ht Hc].
  apply Z.leb_le in Ht. apply covers_sound in Hc. destruct Hc as [Hc|[l [Hl Hall]]]; [discriminate|].
  exists h, i, l. auto.
Qed.

(* law 109 = "the recorded AllocatedHyperNode holds every placement and has tier <= limit" *)
Theorem law_recorded_sound : forall hn real limit r nodes,
  law_recorded hn real limit (Some r) nodes = true -> nodes <> [] ->
  (exists i, aget r hn = Some i /\ i_tier i <= limit) /\
  exists l, aget r real = Some l /\ forall n, In n nodes -> In n l.
Proof.
  intros hn real limit r nodes H Hne. unfold law_recorded in H.
  destruct nodes as [|n0 ns]; [contradiction|].
  apply andb_true_iff in H. destruct H as [Hc Ht].
  apply covers_sound in Hc. destruct Hc as [Hc|Hc]; [discriminate|].
  split; [|exact Hc]. destruct (aget r hn) as [i|]; [|discriminate].
  exists i. split; [reflexivity|now apply Z.leb_le].
Qed.

Theorem law_not_ready_no_bind_sound : forall nr k,
  law_not_ready_no_bind nr k = true -> nr = true -> k = 0.
Proof. intros nr k H ->. simpl in H. now apply Z.eqb_eq. Qed.
