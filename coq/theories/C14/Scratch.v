(* C14 — unbounded theorem: building the view from scratch, for EVERY consistent forest
   with exact-match members whose objects arrive leaf-first (every HyperNode member of an
   object has arrived before it and is not yet claimed), yields the tree derived from the
   objects: parent / children / tier of every HyperNode, realNodes(h) = the node members
   at or below h, tier sets, Ready.  Induction over the arrival order; no bound on the
   number of HyperNodes, tiers or members. *)
From Coq Require Import ZArith List Bool Lia Sorted.
From V Require Import C14.Model C14.Laws C14.Lemmas.
Import ListNotations.
Open Scope Z_scope.

(* ---------- lookups in the sorted-list maps (hold for arbitrary lists) ---------- *)
Lemma aget_aset_eq {A} k (v : A) l : aget k (aset k v l) = Some v.
Proof.
  induction l as [|[k' a'] r IH]; simpl; [now rewrite Pos.eqb_refl|].
  destruct (Pos.compare k k') eqn:E; simpl.
  - now rewrite Pos.eqb_refl.
  - now rewrite Pos.eqb_refl.
  - assert (k <> k') by (intro; subst; rewrite Pos.compare_refl in E; discriminate).
    apply Pos.eqb_neq in H. now rewrite H.
Qed.

Lemma aget_aset_ne {A} k k' (v : A) l : k <> k' -> aget k (aset k' v l) = aget k l.
Proof.
  intros Hne. induction l as [|[k2 a2] r IH]; simpl.
  - apply Pos.eqb_neq in Hne. now rewrite Hne.
  - destruct (Pos.compare k' k2) eqn:E; simpl.
    + apply Pos.compare_eq in E. subst k2. apply Pos.eqb_neq in Hne. now rewrite Hne.
    + apply Pos.eqb_neq in Hne. now rewrite Hne.
    + destruct (Pos.eqb k k2); [reflexivity|exact IH].
Qed.

Lemma aget_adel {A} k k' (l : list (positive * A)) :
  aget k (adel k' l) = if Pos.eqb k' k then None else aget k l.
Proof.
  unfold adel. induction l as [|[k2 a2] r IH]; simpl; [now destruct (Pos.eqb k' k)|].
  destruct (Pos.eqb k' k2) eqn:E2; simpl.
  - apply Pos.eqb_eq in E2. subst k2. rewrite IH.
    destruct (Pos.eqb k' k) eqn:E; [reflexivity|].
    rewrite Pos.eqb_sym in E. now rewrite E.
  - rewrite IH. destruct (Pos.eqb k k2) eqn:E3; [|reflexivity].
    apply Pos.eqb_eq in E3. subst k2. now rewrite E2.
Qed.

Lemma pins_In x y l : In x (pins y l) <-> x = y \/ In x l.
Proof.
  induction l as [|z r IH]; simpl; [intuition|].
  destruct (Pos.compare y z) eqn:E; simpl.
  - apply Pos.compare_eq in E. subst. intuition.
  - intuition.
  - rewrite IH. intuition.
Qed.

Lemma In_aset_raw {A} k (v : A) l x : In x (aset k v l) -> x = (k, v) \/ In x l.
Proof.
  induction l as [|[k' a'] r IH]; simpl; [intuition|].
  destruct (Pos.compare k k'); simpl; intuition.
Qed.

Lemma punion_In x a b : In x (punion a b) <-> In x a \/ In x b.
Proof.
  unfold punion. revert a. induction b as [|y r IH]; intros a; simpl; [intuition|].
  rewrite IH, pins_In. intuition.
Qed.

(* keys strictly ascending: every entry is the one its key looks up *)
Definition ksorted {A} (l : list (positive * A)) : Prop :=
  StronglySorted (fun a b => Pos.lt (fst a) (fst b)) l.

Lemma aset_sorted {A} k (v : A) l : ksorted l -> ksorted (aset k v l).
Proof.
  unfold ksorted. induction l as [|[k' a'] r IH]; intros Hs; simpl.
  - constructor; constructor.
  - inversion Hs as [|x y Hr Hall]; subst.
    destruct (Pos.compare k k') eqn:E.
    + apply Pos.compare_eq in E. subst k'. constructor; assumption.
    + apply Pos.compare_lt_iff in E. constructor; [exact Hs|]. constructor; [exact E|].
      eapply Forall_impl; [|exact Hall]. intros b Hb. simpl in *. now apply (Pos.lt_trans _ k').
    + apply Pos.compare_gt_iff in E. constructor; [now apply IH|].
      rewrite Forall_forall. intros x Hx. apply In_aset_raw in Hx. destruct Hx as [->|Hx]; [exact E|].
      rewrite Forall_forall in Hall. now apply Hall.
Qed.

Lemma sorted_In_aget {A} k (v : A) l : ksorted l -> In (k, v) l -> aget k l = Some v.
Proof.
  unfold ksorted. induction l as [|[k' a'] r IH]; intros Hs Hin; [destruct Hin|].
  inversion Hs as [|x y Hr Hall]; subst. simpl. destruct Hin as [Heq|Hin].
  - inversion Heq; subst. now rewrite Pos.eqb_refl.
  - rewrite Forall_forall in Hall. specialize (Hall _ Hin). simpl in Hall.
    assert (Hne : Pos.eqb k k' = false) by (apply Pos.eqb_neq; intro; subst; now apply Pos.lt_irrefl in Hall).
    rewrite Hne. now apply IH.
Qed.

(* ---------- state accessors under the elementary updates ---------- *)
Lemma hn_upd_info s k f k' :
  aget k' (s_hn (upd_info s k f)) =
  if Pos.eqb k' k then match aget k (s_hn s) with Some i => Some (f i) | None => None end
  else aget k' (s_hn s).
Proof.
  unfold upd_info. destruct (aget k (s_hn s)) as [i|] eqn:E; unfold set_hn; simpl.
  - destruct (Pos.eqb k' k) eqn:E2.
    + apply Pos.eqb_eq in E2. subst. apply aget_aset_eq.
    + apply Pos.eqb_neq in E2. now apply aget_aset_ne.
  - destruct (Pos.eqb k' k) eqn:E2; [|reflexivity]. apply Pos.eqb_eq in E2. now subst.
Qed.

Lemma upd_info_sorted s k f : ksorted (s_hn s) -> ksorted (s_hn (upd_info s k f)).
Proof.
  intros H. unfold upd_info. destruct (aget k (s_hn s)); [|exact H].
  unfold set_hn. simpl. now apply aset_sorted.
Qed.

Lemma upd_info_other s k f :
  s_real (upd_info s k f) = s_real s /\ s_tier (upd_info s k f) = s_tier s /\
  s_ready (upd_info s k f) = s_ready s /\ s_failed (upd_info s k f) = s_failed s /\
  s_fuel (upd_info s k f) = s_fuel s.
Proof. unfold upd_info. destruct (aget k (s_hn s)); unfold set_hn; simpl; auto. Qed.

Lemma real_union_spec s k l :
  s_hn (real_union s k l) = s_hn s /\ s_tier (real_union s k l) = s_tier s /\
  s_ready (real_union s k l) = s_ready s /\ s_failed (real_union s k l) = s_failed s /\
  s_fuel (real_union s k l) = s_fuel s /\
  (forall k', k' <> k -> aget k' (s_real (real_union s k l)) = aget k' (s_real s)) /\
  (forall n, In n (real_get (real_union s k l) k) <-> In n (real_get s k) \/ In n l).
Proof.
  unfold real_union, set_real. simpl.
  do 5 (split; [reflexivity|]). split.
  - intros k' Hne. now apply aget_aset_ne.
  - intros n. unfold real_get at 1. simpl. rewrite aget_aset_eq. apply punion_In.
Qed.

(* a member that is not on the ancestor chain is skipped by BuildHyperNodeCache *)
Lemma build_skip f e s c processed chain ancset :
  pmem c chain = false -> pmem c processed = false -> pmem c ancset = false ->
  build (S f) e s c processed chain ancset = (s, processed, false).
Proof. intros H1 H2 H3. simpl. now rewrite H1, H2, H3. Qed.

(* ---------- addChild on a member that exists and is free (or already ours) ---------- *)
Lemma add_child_ok s nm c ic :
  c <> nm -> aget c (s_hn s) = Some ic -> (i_parent ic = None \/ i_parent ic = Some nm) ->
  exists s', add_child s nm c = (s', false) /\
    (forall k, aget k (s_hn s') =
       if Pos.eqb k nm then match aget nm (s_hn s) with
                            | Some i => Some (with_children (pins c (i_children i)) i) | None => None end
       else if Pos.eqb k c then Some (with_parent (Some nm) ic) else aget k (s_hn s)) /\
    s_real s' = s_real s /\ s_tier s' = s_tier s /\ s_ready s' = s_ready s /\
    s_failed s' = s_failed s /\ s_fuel s' = s_fuel s /\
    (ksorted (s_hn s) -> ksorted (s_hn s')).
Proof.
  intros Hne Hc Hp. unfold add_child. rewrite Hc. unfold add_child_prefix. rewrite Hc. rewrite Hc.
  assert (Hcn : Pos.eqb c nm = false) by now apply Pos.eqb_neq.
  assert (Hnc : Pos.eqb nm c = false) by (rewrite Pos.eqb_sym; exact Hcn).
  destruct Hp as [Hp|Hp]; rewrite Hp.
  - eexists. split; [reflexivity|]. split.
    + intros k. rewrite hn_upd_info. destruct (Pos.eqb k nm) eqn:E.
      * rewrite hn_upd_info, Hnc. reflexivity.
      * rewrite hn_upd_info. destruct (Pos.eqb k c); [now rewrite Hc|reflexivity].
    + pose proof (upd_info_other (upd_info s c (with_parent (Some nm))) nm
                    (fun i => with_children (pins c (i_children i)) i)) as H1.
      pose proof (upd_info_other s c (with_parent (Some nm))) as H2.
      destruct H1 as (a1 & a2 & a3 & a4 & a5). destruct H2 as (b1 & b2 & b3 & b4 & b5).
      repeat split; try congruence.
      intros Hs. now apply upd_info_sorted, upd_info_sorted.
  - rewrite Pos.eqb_refl. eexists. split; [reflexivity|]. split.
    + intros k. rewrite hn_upd_info. destruct (Pos.eqb k nm) eqn:E; [reflexivity|].
      destruct (Pos.eqb k c) eqn:E2; [|reflexivity].
      apply Pos.eqb_eq in E2. subst k. rewrite Hc. f_equal.
      destruct ic; simpl in *; subst; reflexivity.
    + pose proof (upd_info_other s nm (fun i => with_children (pins c (i_children i)) i)) as H1.
      destruct H1 as (a1 & a2 & a3 & a4 & a5). repeat split; try assumption.
      intros Hs. now apply upd_info_sorted.
Qed.

(* ---------- the member loop of BuildHyperNodeCache ---------- *)
Definition body (e : env) (nm : positive) (f : nat) (chain' ancset : list positive) : bres -> member -> bres :=
  fun (acc : bres) m =>
    let '(s1, pr1, e1) := acc in
    if (e1 : bool) then acc else
    match m with
    | MNode n => (real_union s1 nm [n], pr1, false)
    | MSel _ sel => (real_union s1 nm (resolve e sel), pr1, false)
    | MHyper c =>
        let '(s2, e2) := add_child s1 nm c in
        if (e2 : bool) then (s2, pr1, true) else
        let '(s3, pr3, e3) := build f e s2 c pr1 chain' ancset in
        if (e3 : bool) then (s3, pr3, true)
        else (real_union s3 nm (real_get s3 c), pr3, false)
    end.

Lemma hchildren_snoc ms m :
  hchildren (ms ++ [m]) = match m with MHyper h => pins h (hchildren ms) | _ => hchildren ms end.
Proof. unfold hchildren. rewrite fold_left_app. reflexivity. Qed.

Lemma claims_snoc ms m k :
  claims (ms ++ [m]) k = claims ms k || match m with MHyper h => Pos.eqb h k | _ => false end.
Proof. unfold claims. rewrite existsb_app. simpl. now rewrite orb_false_r. Qed.

(* member of a new object, seen from the state s0 at the start of the loop *)
Definition MOk (nm : positive) (s0 : st) (m : member) : Prop :=
  match m with
  | MNode _ => True
  | MSel _ _ => False
  | MHyper c => c <> nm /\ exists ic, aget c (s_hn s0) = Some ic /\ i_parent ic = None
  end.

Record LInv (nm : positive) (t : Z) (ms ms1 : list member) (s0 s1 : st) : Prop := {
  li_nm : aget nm (s_hn s1) = Some (mkInfo t ms None (hchildren ms1) false);
  li_hn : forall k, k <> nm -> aget k (s_hn s1) =
            if claims ms1 k then match aget k (s_hn s0) with
                                 | Some i => Some (with_parent (Some nm) i) | None => None end
            else aget k (s_hn s0);
  li_real : forall k, k <> nm -> aget k (s_real s1) = aget k (s_real s0);
  li_rnm : forall n, In n (real_get s1 nm) <->
             In (MNode n) ms1 \/ exists c, In (MHyper c) ms1 /\ In n (real_get s0 c);
  li_tier : s_tier s1 = s_tier s0;
  li_ready : s_ready s1 = s_ready s0;
  li_failed : s_failed s1 = s_failed s0;
  li_fuel : s_fuel s1 = s_fuel s0;
  li_sorted : ksorted (s_hn s1) }.

Lemma loop_ok e nm t ms s0 f : forall rest ms1 s1,
  Forall (MOk nm s0) rest -> LInv nm t ms ms1 s0 s1 ->
  exists s', fold_left (body e nm (S f) [nm] [nm]) rest (s1, [], false) = (s', [], false) /\
             LInv nm t ms (ms1 ++ rest) s0 s'.
Proof.
  induction rest as [|m rest IH]; intros ms1 s1 Hok Hinv.
  - exists s1. rewrite app_nil_r. split; [reflexivity|exact Hinv].
  - inversion Hok as [|m' r' Hm Hrest]; subst. cbn [fold_left].
    replace (ms1 ++ m :: rest) with ((ms1 ++ [m]) ++ rest) by (rewrite <- app_assoc; reflexivity).
    destruct Hinv as [Inm Ihn Ireal Irnm It Ir Ifl Ifu Iso].
    destruct m as [n| |c]; simpl in Hm; [|contradiction|].
    + (* node member *)
      unfold body at 2. cbv beta iota.
      apply IH; [exact Hrest|].
      pose proof (real_union_spec s1 nm [n]) as (R1 & R2 & R3 & R4 & R5 & R6 & R7).
      constructor; try congruence; try (rewrite R1; exact Iso).
      * rewrite R1, hchildren_snoc. exact Inm.
      * intros k Hk. rewrite R1, claims_snoc, orb_false_r. now apply Ihn.
      * intros k Hk. rewrite R6 by exact Hk. now apply Ireal.
      * intros x. rewrite R7, Irnm. split.
        -- intros [[H|[c [H1 H2]]]|[H|[]]].
           ++ left. apply in_or_app. now left.
           ++ right. exists c. split; [apply in_or_app; now left|exact H2].
           ++ subst. left. apply in_or_app. right. now left.
        -- intros [H|[c [H1 H2]]].
           ++ apply in_app_or in H. destruct H as [H|[H|[]]]; [left; now left|].
              inversion H; subst. right. now left.
           ++ apply in_app_or in H1. destruct H1 as [H1|[H1|[]]]; [|discriminate].
              left. right. exists c. split; assumption.
    + (* HyperNode member *)
      destruct Hm as [Hcn [ic0 [Hc0 Hp0]]].
      assert (Hc1 : exists ic1, aget c (s_hn s1) = Some ic1 /\
                (i_parent ic1 = None \/ i_parent ic1 = Some nm) /\
                with_parent (Some nm) ic1 = with_parent (Some nm) ic0).
      { rewrite (Ihn c Hcn), Hc0. destruct (claims ms1 c).
        - eexists. split; [reflexivity|]. split; [right; reflexivity|reflexivity].
        - exists ic0. split; [reflexivity|]. split; [left; exact Hp0|reflexivity]. }
      destruct Hc1 as [ic1 [Hc1 [Hp1 Hw]]].
      destruct (add_child_ok s1 nm c ic1 Hcn Hc1 Hp1) as [s2 [Ha [A1 [A2 [A3 [A4 [A5 [A6 A7]]]]]]]].
      unfold body at 2. cbv beta iota. rewrite Ha. cbv beta iota.
      assert (Hnc : Pos.eqb c nm = false) by now apply Pos.eqb_neq.
      rewrite build_skip by (simpl; now rewrite ?Hnc).
      cbv beta iota.
      apply IH; [exact Hrest|].
      pose proof (real_union_spec s2 nm (real_get s2 c)) as (R1 & R2 & R3 & R4 & R5 & R6 & R7).
      constructor; try congruence; try (rewrite R1; now apply A7).
      * rewrite R1, A1, Pos.eqb_refl, Inm, hchildren_snoc. reflexivity.
      * intros k Hk. rewrite R1, A1.
        assert (Ek : Pos.eqb k nm = false) by now apply Pos.eqb_neq.
        rewrite Ek, claims_snoc.
        destruct (Pos.eqb k c) eqn:Ekc.
        -- apply Pos.eqb_eq in Ekc. subst k. rewrite Pos.eqb_refl, orb_true_r, Hc0. now rewrite Hw.
        -- rewrite Pos.eqb_sym in Ekc. rewrite Ekc, orb_false_r. now apply Ihn.
      * intros k Hk. rewrite R6 by exact Hk. rewrite A2. now apply Ireal.
      * intros x. rewrite R7.
        assert (Rc : real_get s2 c = real_get s0 c).
        { unfold real_get. rewrite A2, (Ireal c Hcn). reflexivity. }
        assert (Rn : real_get s2 nm = real_get s1 nm) by (unfold real_get; now rewrite A2).
        rewrite Rc, Rn, Irnm. split.
        -- intros [[H|[c' [H1 H2]]]|H].
           ++ left. apply in_or_app. now left.
           ++ right. exists c'. split; [apply in_or_app; now left|exact H2].
           ++ right. exists c. split; [apply in_or_app; right; now left|exact H].
        -- intros [H|[c' [H1 H2]]].
           ++ apply in_app_or in H. destruct H as [H|[H|[]]]; [left; now left|discriminate].
           ++ apply in_app_or in H1. destruct H1 as [H1|[H1|[]]].
              ** left. right. exists c'. split; assumption.
              ** inversion H1; subst. now right.
Qed.

(* ---------- rebuildCache for a HyperNode nobody claims ---------- *)
Lemma In_aset {A} k (v : A) l x : In x (aset k v l) -> x = (k, v) \/ In x l.
Proof.
  induction l as [|[k' a'] r IH]; simpl; [intuition|].
  destruct (Pos.compare k k'); simpl; intuition.
Qed.

Lemma find_all_false {A} (f : A -> bool) l : (forall x, In x l -> f x = false) -> find f l = None.
Proof.
  induction l as [|x r IH]; intros H; simpl; [reflexivity|].
  rewrite (H x) by now left. apply IH. intros y Hy. apply H. now right.
Qed.

(* nobody in hn claims nm with a higher tier *)
Definition unclaimed (hn : list (positive * info)) (nm : positive) : Prop :=
  forall ki, In ki hn -> Z.ltb (match aget nm hn with Some i => i_tier i | None => -1 end) (i_tier (snd ki))
                         && claims (i_members (snd ki)) nm = false.

Lemma get_ancestors_root hn nm i :
  aget nm hn = Some i -> i_parent i = None -> unclaimed hn nm -> get_ancestors hn nm = Some [nm].
Proof.
  intros Hi Hp Hu. unfold get_ancestors, ancestors_gen, anc_fuel. simpl.
  assert (Hpar : parent_of hn nm = None).
  { unfold parent_of. rewrite Hi, Hp. unfold get_parent.
    rewrite find_all_false; [reflexivity|]. intros ki Hin. apply Hu. exact Hin. }
  now rewrite Hpar.
Qed.

Lemma build_unfold f e s nm i processed chain ancset :
  pmem nm chain = false -> pmem nm processed = false -> pmem nm ancset = true ->
  aget nm (s_hn s) = Some i -> i_deleting i = false ->
  build (S f) e s nm processed chain ancset =
  let '(s', pr', err) := fold_left (body e nm f (nm :: chain) ancset) (i_members i) (s, processed, false) in
  if (err : bool) then (s', pr', true) else (s', pins nm pr', false).
Proof. intros H1 H2 H3 H4 H5. simpl. rewrite H1, H2, H3, H4, H5. reflexivity. Qed.

(* state at the start of the member loop, nm just inserted *)
Lemma rebuild_root e s3 nm t ms :
  aget nm (s_hn s3) = Some (mkInfo t ms None [] false) ->
  unclaimed (s_hn s3) nm ->
  Forall (MOk nm s3) ms ->
  ksorted (s_hn s3) ->
  listed_by (s_hn s3) nm = [] ->
  exists s', rebuild_cache e s3 nm = (s', false) /\
    ksorted (s_hn s') /\
    aget nm (s_hn s') = Some (mkInfo t ms None (hchildren ms) false) /\
    (forall k, k <> nm -> aget k (s_hn s') =
        if claims ms k then match aget k (s_hn s3) with
                            | Some i => Some (with_parent (Some nm) i) | None => None end
        else aget k (s_hn s3)) /\
    (forall k, k <> nm -> aget k (s_real s') = aget k (s_real s3)) /\
    (forall n, In n (real_get s' nm) <->
        In (MNode n) ms \/ exists c, In (MHyper c) ms /\ In n (real_get s3 c)) /\
    s_tier s' = s_tier s3 /\ s_ready s' = s_ready s3 /\ s_failed s' = s_failed s3 /\ s_fuel s' = s_fuel s3.
Proof.
  intros Hnm Hu Hms Hso Hlist. unfold rebuild_cache, doubly_listed. rewrite Hlist. cbn [length Nat.ltb Nat.leb].
  rewrite andb_false_r. unfold rebuild_cache_prefix.
  rewrite (get_ancestors_root _ _ _ Hnm eq_refl Hu).
  cbn [fold_left length].
  set (s0 := clear_derived s3 nm).
  (* lookups of s0 *)
  assert (H0nm : aget nm (s_hn s0) = Some (mkInfo t ms None [] false)).
  { unfold s0, clear_derived. rewrite hn_upd_info, Pos.eqb_refl. unfold set_real. simpl. now rewrite Hnm. }
  assert (H0hn : forall k, k <> nm -> aget k (s_hn s0) = aget k (s_hn s3)).
  { intros k Hk. unfold s0, clear_derived. rewrite hn_upd_info.
    apply Pos.eqb_neq in Hk. rewrite Hk. reflexivity. }
  assert (H0real : forall k, k <> nm -> aget k (s_real s0) = aget k (s_real s3)).
  { intros k Hk. unfold s0, clear_derived.
    destruct (upd_info_other (set_real s3 (adel nm (s_real s3))) nm
                (fun i => with_children [] (with_parent None i))) as (a1 & _).
    rewrite a1. unfold set_real. simpl. rewrite aget_adel.
    assert (E : Pos.eqb nm k = false) by (apply Pos.eqb_neq; congruence). now rewrite E. }
  assert (H0rnm : real_get s0 nm = []).
  { unfold real_get, s0, clear_derived.
    destruct (upd_info_other (set_real s3 (adel nm (s_real s3))) nm
                (fun i => with_children [] (with_parent None i))) as (a1 & _).
    rewrite a1. unfold set_real. simpl. now rewrite aget_adel, Pos.eqb_refl. }
  assert (H0other : s_tier s0 = s_tier s3 /\ s_ready s0 = s_ready s3 /\ s_failed s0 = s_failed s3 /\ s_fuel s0 = s_fuel s3).
  { unfold s0, clear_derived.
    destruct (upd_info_other (set_real s3 (adel nm (s_real s3))) nm
                (fun i => with_children [] (with_parent None i))) as (_ & a2 & a3 & a4 & a5).
    unfold set_real in *. simpl in *. auto. }
  rewrite H0nm.
  rewrite (build_unfold _ e s0 nm _ [] [] [nm]) by
    (try reflexivity; try exact H0nm; simpl; now rewrite Pos.eqb_refl).
  cbn [i_members].
  assert (Hms0 : Forall (MOk nm s0) ms).
  { eapply Forall_impl; [|exact Hms]. intros m Hm. destruct m as [n| |c]; simpl in *; auto.
    destruct Hm as [Hc [ic [H1 H2]]]. split; [exact Hc|]. exists ic. rewrite H0hn by exact Hc. auto. }
  assert (Hinit : LInv nm t ms [] s0 s0).
  { constructor; auto.
    - intros n. rewrite H0rnm. simpl. split; [intros []|intros [[]|[c [[] _]]]].
    - unfold s0, clear_derived. apply upd_info_sorted. unfold set_real. simpl. exact Hso. }
  destruct (loop_ok e nm t ms s0 1 ms [] s0 Hms0 Hinit) as [s' [Hfold Hinv]].
  rewrite Hfold. cbv beta iota.
  destruct Hinv as [Inm Ihn Ireal Irnm It Ir Ifl Ifu Iso]. simpl in *.
  destruct H0other as (o1 & o2 & o3 & o4).
  exists s'. split; [reflexivity|]. split; [exact Iso|]. split; [exact Inm|]. split.
  { intros k Hk. rewrite (Ihn k Hk), (H0hn k Hk). reflexivity. }
  split. { intros k Hk. rewrite (Ireal k Hk). now apply H0real. }
  split.
  { intros n. rewrite Irnm. split; intros [H|[c [H1 H2]]]; auto; right; exists c; split; auto.
    - assert (Hc : c <> nm).
      { rewrite Forall_forall in Hms. specialize (Hms _ H1). simpl in Hms. tauto. }
      unfold real_get in *. now rewrite <- (H0real c Hc).
    - assert (Hc : c <> nm).
      { rewrite Forall_forall in Hms. specialize (Hms _ H1). simpl in Hms. tauto. }
      unfold real_get in *. now rewrite (H0real c Hc). }
  repeat split; congruence.
Qed.

Lemma filter_all_false {A} (f : A -> bool) l : (forall x, In x l -> f x = false) -> filter f l = [].
Proof.
  induction l as [|x r IH]; intros H; simpl; [reflexivity|].
  rewrite (H x) by now left. apply IH. intros y Hy. apply H. now right.
Qed.

(* ---------- UpdateHyperNode for an object that arrives after all its members ---------- *)
Lemma upd_fresh e s nm t ms :
  aget nm (s_hn s) = None ->
  (forall ki, In ki (s_hn s) -> claims (i_members (snd ki)) nm = false) ->
  s_failed s = [] ->
  Forall (MOk nm s) ms ->
  ksorted (s_hn s) ->
  exists s', upd e s (mkObj nm t ms) = (s', false) /\
    ksorted (s_hn s') /\
    aget nm (s_hn s') = Some (mkInfo t ms None (hchildren ms) false) /\
    (forall k, k <> nm -> aget k (s_hn s') =
        if claims ms k then match aget k (s_hn s) with
                            | Some i => Some (with_parent (Some nm) i) | None => None end
        else aget k (s_hn s)) /\
    (forall k, k <> nm -> aget k (s_real s') = aget k (s_real s)) /\
    (forall n, In n (real_get s' nm) <->
        In (MNode n) ms \/ exists c, In (MHyper c) ms /\ In n (real_get s c)) /\
    s_tier s' = zset t (pins nm (match zget t (s_tier s) with Some l => l | None => [] end)) (s_tier s) /\
    s_ready s' = true /\ s_failed s' = [] /\ s_fuel s' = s_fuel s.
Proof.
  intros Hfresh Hunc Hfailed Hms Hso.
  unfold upd, upd_gen. cbn [o_name o_tier o_members].
  unfold known. rewrite Hfresh.
  cbn [fx1 fx2 Nat.ltb Nat.leb andb negb orb].
  unfold update_parent, stored_children. cbn [o_name o_members]. rewrite Hfresh.
  cbn [pdiff filter fold_left].
  unfold update_tier_set. cbn [o_name o_tier]. rewrite Hfresh.
  set (tiers' := zset t (pins nm (match zget t (s_tier s) with Some l => l | None => [] end)) (s_tier s)).
  change (s_hn (set_tier s tiers')) with (s_hn s). rewrite Hfresh.
  set (s3 := set_hn (set_tier s tiers') (aset nm (mkInfo t ms None [] false) (s_hn s))).
  assert (H3nm : aget nm (s_hn s3) = Some (mkInfo t ms None [] false)) by apply aget_aset_eq.
  assert (H3hn : forall k, k <> nm -> aget k (s_hn s3) = aget k (s_hn s)).
  { intros k Hk. unfold s3, set_hn. simpl. now apply aget_aset_ne. }
  assert (H3u : unclaimed (s_hn s3) nm).
  { intros ki Hin. rewrite H3nm. cbn [i_tier].
    apply In_aset in Hin. destruct Hin as [->|Hin].
    - cbn [snd i_tier]. now rewrite Z.ltb_irrefl.
    - rewrite (Hunc ki Hin). apply andb_false_r. }
  assert (H3ms : Forall (MOk nm s3) ms).
  { eapply Forall_impl; [|exact Hms]. intros m Hm. destruct m as [n| |c]; simpl in *; auto.
    destruct Hm as [Hc [ic [H1 H2]]]. split; [exact Hc|]. exists ic. rewrite H3hn by exact Hc. auto. }
  assert (H3so : ksorted (s_hn s3)) by (unfold s3, set_hn; simpl; now apply aset_sorted).
  assert (H3l : listed_by (s_hn s3) nm = []).
  { unfold listed_by. rewrite filter_all_false; [reflexivity|].
    intros ki Hin. apply In_aset in Hin. destruct Hin as [->|Hin].
    - cbn [fst]. now rewrite Pos.eqb_refl.
    - pose proof (Hunc ki Hin) as Hc. unfold claims in Hc. rewrite Hc. apply andb_false_r. }
  change (rebuild_cache_gen 5 e s3 nm) with (rebuild_cache e s3 nm).
  destruct (rebuild_root e s3 nm t ms H3nm H3u H3ms H3so H3l)
    as [s4 [Hrb [R0 [R1 [R2 [R3 [R4 [R5 [R6 [R7 R8]]]]]]]]]].
  rewrite Hrb. cbv beta iota.
  assert (Hf4 : s_failed s4 = []) by (rewrite R7; exact Hfailed).
  unfold unfail, refresh_ready. cbn [fx1 Nat.ltb Nat.leb]. unfold set_failed at 1 2. cbn [s_failed].
  rewrite Hf4. cbn [pdel filter fold_left].
  eexists. split; [reflexivity|].
  unfold set_ready, set_failed. cbn [s_hn s_real s_tier s_ready s_failed s_fuel].
  split; [exact R0|]. split; [exact R1|]. split.
  { intros k Hk. rewrite (R2 k Hk), (H3hn k Hk). reflexivity. }
  split. { intros k Hk. now rewrite (R3 k Hk). }
  split. { exact R4. }
  split. { rewrite R5. reflexivity. }
  split; [reflexivity|]. split; [reflexivity|]. rewrite R8. reflexivity.
Qed.

(* ================= the tree derived from the objects, and the induction ================= *)
Lemma zget_zset_eq {A} k (v : A) l : zget k (zset k v l) = Some v.
Proof.
  induction l as [|[k' a'] r IH]; simpl; [now rewrite Z.eqb_refl|].
  destruct (Z.compare k k') eqn:E; simpl.
  - now rewrite Z.eqb_refl.
  - now rewrite Z.eqb_refl.
  - assert (k <> k') by (intro; subst; rewrite Z.compare_refl in E; discriminate).
    apply Z.eqb_neq in H. now rewrite H.
Qed.

Lemma zget_zset_ne {A} k k' (v : A) l : k <> k' -> zget k (zset k' v l) = zget k l.
Proof.
  intros Hne. induction l as [|[k2 a2] r IH]; simpl.
  - apply Z.eqb_neq in Hne. now rewrite Hne.
  - destruct (Z.compare k' k2) eqn:E; simpl.
    + apply Z.compare_eq in E. subst k2. apply Z.eqb_neq in Hne. now rewrite Hne.
    + apply Z.eqb_neq in Hne. now rewrite Hne.
    + destruct (Z.eqb k k2); [reflexivity|exact IH].
Qed.

Lemma claims_In ms k : claims ms k = true <-> In (MHyper k) ms.
Proof.
  unfold claims. rewrite existsb_exists. split.
  - intros [m [Hin Hm]]. destruct m; try discriminate. apply Pos.eqb_eq in Hm. now subst.
  - intros Hin. exists (MHyper k). split; [exact Hin|apply Pos.eqb_refl].
Qed.

Lemma find_obj_snoc P o k :
  find_obj (P ++ [o]) k = match find_obj P k with
                          | Some x => Some x
                          | None => if Pos.eqb (o_name o) k then Some o else None end.
Proof.
  unfold find_obj. induction P as [|x r IH]; simpl; [reflexivity|].
  destruct (Pos.eqb (o_name x) k); [reflexivity|exact IH].
Qed.

Lemma spec_parent_snoc P o c :
  spec_parent (P ++ [o]) c = match spec_parent P c with
                             | Some p => Some p
                             | None => if claims (o_members o) c then Some (o_name o) else None end.
Proof.
  unfold spec_parent. induction P as [|x r IH]; simpl; [now destruct (claims (o_members o) c)|].
  destruct (claims (o_members x) c); [reflexivity|exact IH].
Qed.

Lemma find_obj_some P k o : find_obj P k = Some o -> In o P /\ o_name o = k.
Proof.
  unfold find_obj. intros H. apply find_some in H. destruct H as [H1 H2].
  apply Pos.eqb_eq in H2. auto.
Qed.

Lemma spec_parent_some P c p : spec_parent P c = Some p ->
  exists o, In o P /\ claims (o_members o) c = true.
Proof.
  unfold spec_parent. destruct (find _ P) as [o|] eqn:E; [|discriminate].
  intros _. apply find_some in E. exists o. exact E.
Qed.

(* n is a node member of k or of a HyperNode below k *)
Inductive leaf_below (P : list hobj) : positive -> positive -> Prop :=
| lb_node k o n : find_obj P k = Some o -> In (MNode n) (o_members o) -> leaf_below P k n
| lb_child k o c n : find_obj P k = Some o -> In (MHyper c) (o_members o) ->
                     leaf_below P c n -> leaf_below P k n.

(* o arrives after all its members: they exist, are free, and are exact-match *)
Definition arrives (P : list hobj) (o : hobj) : Prop :=
  find_obj P (o_name o) = None /\
  Forall (fun m => match m with
                   | MNode _ => True
                   | MSel _ _ => False
                   | MHyper c => c <> o_name o /\ find_obj P c <> None /\ spec_parent P c = None
                   end) (o_members o).

Inductive leaf_first : list hobj -> Prop :=
| lf_nil : leaf_first []
| lf_snoc P o : leaf_first P -> arrives P o -> leaf_first (P ++ [o]).

(* the view [s] is the tree derived from the objects [P] *)
Record Rep (s : st) (P : list hobj) : Prop := {
  rep_hn : forall k, aget k (s_hn s) =
             match find_obj P k with
             | Some o => Some (mkInfo (o_tier o) (o_members o) (spec_parent P k) (hchildren (o_members o)) false)
             | None => None end;
  rep_real : forall k n, In n (real_get s k) <-> leaf_below P k n;
  rep_tier : forall t k, In k (match zget t (s_tier s) with Some l => l | None => [] end) <->
                         exists o, In o P /\ o_name o = k /\ o_tier o = t;
  rep_ready : s_ready s = true;
  rep_failed : s_failed s = [];
  rep_fuel : s_fuel s = false;
  rep_sorted : ksorted (s_hn s);
  rep_closed : forall o c, In o P -> claims (o_members o) c = true -> find_obj P c <> None }.

Lemma Rep_init : Rep init_st [].
Proof.
  constructor; simpl; auto.
  all: try (intros k n; split; [intros []|intros H; inversion H; discriminate]).
  all: try (intros t k; split; [intros []|intros [o [[] _]]]).
  all: try (now constructor).
  all: try (intros o c []).
Qed.

Lemma lb_mono P o k n : find_obj P (o_name o) = None -> leaf_below P k n -> leaf_below (P ++ [o]) k n.
Proof.
  intros Hf H. induction H as [k ok n H1 H2|k ok c n H1 H2 H3 IH].
  - eapply lb_node; [|exact H2]. now rewrite find_obj_snoc, H1.
  - eapply lb_child; [|exact H2|exact IH]. now rewrite find_obj_snoc, H1.
Qed.

Lemma lb_back P o k n :
  find_obj P (o_name o) = None ->
  (forall o' c, In o' P -> claims (o_members o') c = true -> find_obj P c <> None) ->
  leaf_below (P ++ [o]) k n -> k <> o_name o -> leaf_below P k n.
Proof.
  intros Hf Hcl H. induction H as [k ok n H1 H2|k ok c n H1 H2 H3 IH]; intros Hk.
  - rewrite find_obj_snoc in H1. destruct (find_obj P k) as [x|] eqn:E.
    + inversion H1; subst. eapply lb_node; eauto.
    + destruct (Pos.eqb (o_name o) k) eqn:E2; [|discriminate]. apply Pos.eqb_eq in E2. congruence.
  - rewrite find_obj_snoc in H1. destruct (find_obj P k) as [x|] eqn:E.
    + inversion H1; subst. eapply lb_child; [exact E|exact H2|]. apply IH.
      intro Hc. subst c. apply find_obj_some in E. destruct E as [Ein _].
      apply (Hcl ok (o_name o) Ein); [now apply claims_In|exact Hf].
    + destruct (Pos.eqb (o_name o) k) eqn:E2; [|discriminate]. apply Pos.eqb_eq in E2. congruence.
Qed.

(* one arrival preserves the representation *)
Lemma Rep_step e s P o : Rep s P -> arrives P o ->
  exists s', upd e s o = (s', false) /\ Rep s' (P ++ [o]).
Proof.
  intros [Rhn Rreal Rtier Rready Rfailed Rfuel Rsorted Rclosed] [Hfresh Hmem].
  destruct o as [nm t ms]. cbn [o_name o_members] in *.
  assert (Hnm : aget nm (s_hn s) = None) by (rewrite Rhn, Hfresh; reflexivity).
  assert (Hunc : forall ki, In ki (s_hn s) -> claims (i_members (snd ki)) nm = false).
  { intros [k i] Hin. cbn [snd]. apply (sorted_In_aget k i _ Rsorted) in Hin.
    rewrite Rhn in Hin. destruct (find_obj P k) as [ok|] eqn:E; [|discriminate].
    inversion Hin; subst. cbn [i_members].
    destruct (claims (o_members ok) nm) eqn:Ec; [|reflexivity].
    exfalso. apply find_obj_some in E. destruct E as [Ein _].
    exact (Rclosed ok nm Ein Ec Hfresh). }
  assert (Hms : Forall (MOk nm s) ms).
  { eapply Forall_impl; [|exact Hmem]. intros m Hm. destruct m as [n| |c]; simpl in *; auto.
    destruct Hm as [Hc [Hex Hsp]]. split; [exact Hc|].
    rewrite Rhn. destruct (find_obj P c) as [oc|]; [|contradiction].
    eexists. split; [reflexivity|]. exact Hsp. }
  destruct (upd_fresh e s nm t ms Hnm Hunc Rfailed Hms Rsorted)
    as [s' [Hupd [U0 [U1 [U2 [U3 [U4 [U5 [U6 [U7 U8]]]]]]]]]].
  exists s'. split; [exact Hupd|].
  assert (Hself : claims ms nm = false).
  { destruct (claims ms nm) eqn:Ec; [|reflexivity]. apply claims_In in Ec.
    rewrite Forall_forall in Hmem. specialize (Hmem _ Ec). simpl in Hmem. tauto. }
  assert (Hspnm : spec_parent P nm = None).
  { destruct (spec_parent P nm) as [p|] eqn:E; [|reflexivity].
    apply spec_parent_some in E. destruct E as [o' [Hin Hc]]. exfalso. exact (Rclosed o' nm Hin Hc Hfresh). }
  constructor.
  - (* entries *)
    intros k. rewrite find_obj_snoc, spec_parent_snoc. cbn [o_name o_members].
    destruct (Pos.eq_dec k nm) as [->|Hk].
    + rewrite U1, Hfresh, Pos.eqb_refl, Hspnm, Hself. reflexivity.
    + rewrite (U2 k Hk), Rhn.
      assert (E : Pos.eqb nm k = false) by (apply Pos.eqb_neq; congruence).
      destruct (find_obj P k) as [ok|] eqn:Ek.
      * destruct (claims ms k) eqn:Ec.
        -- apply claims_In in Ec. rewrite Forall_forall in Hmem. specialize (Hmem _ Ec). simpl in Hmem.
           destruct Hmem as (_ & _ & Hsp). rewrite Hsp. reflexivity.
        -- destruct (spec_parent P k); reflexivity.
      * rewrite E. now destruct (claims ms k).
  - (* leaf sets *)
    intros k n. destruct (Pos.eq_dec k nm) as [->|Hk].
    + rewrite U4. split.
      * intros [H|[c [H1 H2]]].
        -- apply (lb_node _ nm (mkObj nm t ms) n); [|exact H].
           rewrite find_obj_snoc, Hfresh. cbn [o_name]. now rewrite Pos.eqb_refl.
        -- apply (lb_child _ nm (mkObj nm t ms) c n); [|exact H1|].
           ++ rewrite find_obj_snoc, Hfresh. cbn [o_name]. now rewrite Pos.eqb_refl.
           ++ apply lb_mono; [exact Hfresh|]. now apply Rreal.
      * intros H. inversion H as [k' ok n' H1 H2|k' ok c n' H1 H2 H3]; subst;
          rewrite find_obj_snoc, Hfresh in H1; cbn [o_name] in H1; rewrite Pos.eqb_refl in H1;
          inversion H1; subst; cbn [o_members] in *.
        -- now left.
        -- right. exists c. split; [exact H2|]. apply Rreal.
           eapply (lb_back P (mkObj nm t ms)); eauto.
           rewrite Forall_forall in Hmem. specialize (Hmem _ H2). simpl in Hmem. cbn [o_name]. tauto.
    + assert (Er : real_get s' k = real_get s k) by (unfold real_get; now rewrite (U3 k Hk)).
      rewrite Er, Rreal. split.
      * now apply lb_mono.
      * intros H. eapply (lb_back P (mkObj nm t ms)); eauto.
  - (* tier sets *)
    intros t' k. rewrite U5. destruct (Z.eq_dec t' t) as [->|Ht].
    + rewrite zget_zset_eq, pins_In, Rtier. split.
      * intros [->|[o' [H1 [H2 H3]]]].
        -- exists (mkObj nm t ms). split; [apply in_or_app; right; now left|auto].
        -- exists o'. split; [apply in_or_app; now left|auto].
      * intros [o' [H1 [H2 H3]]]. apply in_app_or in H1. destruct H1 as [H1|[<-|[]]].
        -- right. exists o'. auto.
        -- left. now cbn [o_name] in H2.
    + rewrite zget_zset_ne by exact Ht. rewrite Rtier. split.
      * intros [o' [H1 [H2 H3]]]. exists o'. split; [apply in_or_app; now left|auto].
      * intros [o' [H1 [H2 H3]]]. apply in_app_or in H1. destruct H1 as [H1|[<-|[]]].
        -- exists o'. auto.
        -- cbn [o_tier] in H3. congruence.
  - exact U6.
  - exact U7.
  - now rewrite U8.
  - exact U0.
  - intros o' c Hin Hc. rewrite find_obj_snoc. apply in_app_or in Hin. destruct Hin as [Hin|[<-|[]]].
    + pose proof (Rclosed o' c Hin Hc) as H. destruct (find_obj P c); [discriminate|contradiction].
    + cbn [o_members] in Hc. apply claims_In in Hc. rewrite Forall_forall in Hmem.
      specialize (Hmem _ Hc). simpl in Hmem. destruct Hmem as (_ & Hex & _).
      destruct (find_obj P c); [discriminate|contradiction].
Qed.

Lemma run_adds e P : forall s, exists s', fold_left step (map EUpd P) (e, s) = (e, s').
Proof.
  induction P as [|o r IH]; intros s; simpl; [now exists s|]. apply IH.
Qed.

(* rebuild_from_scratch_spec, leaf-first arrival orders, any forest *)
Theorem scratch_leaf_first : forall e P, leaf_first P -> Rep (scratch e P) P.
Proof.
  intros e P H. induction H as [|P o HP IH Ha].
  - exact Rep_init.
  - unfold scratch, run in *. rewrite map_app, fold_left_app.
    destruct (run_adds e P init_st) as [s Hs]. rewrite Hs in *. cbn [snd] in IH.
    destruct (Rep_step e s P o IH Ha) as [s' [Hu Hr]].
    cbn [map fold_left]. unfold step, step_gen. change (upd_gen 5 e s o) with (upd e s o).
    rewrite Hu. exact Hr.
Qed.

(* ================= order-independence among leaf-first arrival orders ================= *)
From Coq Require Import Permutation.

Lemma lf_find P : leaf_first P -> forall k o, find_obj P k = Some o <-> (In o P /\ o_name o = k).
Proof.
  intros H. induction H as [|P o HP IH [Hfresh _]]; intros k x.
  - split; [discriminate|intros [[] _]].
  - rewrite find_obj_snoc. split.
    + destruct (find_obj P k) as [y|] eqn:E.
      * intros Hx. inversion Hx; subst. apply IH in E. destruct E. split; [apply in_or_app; now left|assumption].
      * destruct (Pos.eqb (o_name o) k) eqn:E2; [|discriminate]. intros Hx. inversion Hx; subst.
        apply Pos.eqb_eq in E2. split; [apply in_or_app; right; now left|exact E2].
    + intros [Hin Hn]. apply in_app_or in Hin. destruct Hin as [Hin|[<-|[]]].
      * assert (E : find_obj P k = Some x) by (apply IH; auto). now rewrite E.
      * subst k. rewrite Hfresh, Pos.eqb_refl. reflexivity.
Qed.

Lemma lf_parent P : leaf_first P -> forall c p,
  spec_parent P c = Some p <-> exists o, In o P /\ o_name o = p /\ claims (o_members o) c = true.
Proof.
  intros H. induction H as [|P o HP IH [Hfresh Hmem]]; intros c p.
  - split; [discriminate|intros [o [[] _]]].
  - rewrite spec_parent_snoc. split.
    + destruct (spec_parent P c) as [q|] eqn:E.
      * intros Hq. inversion Hq; subst. apply IH in E. destruct E as [x [H1 H2]].
        exists x. split; [apply in_or_app; now left|exact H2].
      * destruct (claims (o_members o) c) eqn:Ec; [|discriminate]. intros Hq. inversion Hq; subst.
        exists o. split; [apply in_or_app; right; now left|auto].
    + intros [x [Hin [Hn Hc]]]. apply in_app_or in Hin. destruct Hin as [Hin|[<-|[]]].
      * assert (E : spec_parent P c = Some p) by (apply IH; exists x; auto). now rewrite E.
      * apply claims_In in Hc. rewrite Forall_forall in Hmem. specialize (Hmem _ Hc). simpl in Hmem.
        destruct Hmem as (_ & _ & Hsp). rewrite Hsp. apply claims_In in Hc. rewrite Hc. now subst.
Qed.

Section Perm.
  Variables P Q : list hobj.
  Hypothesis HP : leaf_first P.
  Hypothesis HQ : leaf_first Q.
  Hypothesis Hperm : Permutation P Q.

  Lemma perm_find k : find_obj P k = find_obj Q k.
  Proof.
    destruct (find_obj P k) as [o|] eqn:E.
    - symmetry. apply (lf_find Q HQ). apply (lf_find P HP) in E. destruct E as [Hin Hn].
      split; [eapply Permutation_in; eauto|exact Hn].
    - destruct (find_obj Q k) as [o|] eqn:E2; [|reflexivity].
      apply (lf_find Q HQ) in E2. destruct E2 as [Hin Hn].
      assert (E3 : find_obj P k = Some o).
      { apply (lf_find P HP). split; [eapply Permutation_in; [apply Permutation_sym|]; eauto|exact Hn]. }
      congruence.
  Qed.

  Lemma perm_parent c : spec_parent P c = spec_parent Q c.
  Proof.
    destruct (spec_parent P c) as [p|] eqn:E.
    - symmetry. apply (lf_parent Q HQ). apply (lf_parent P HP) in E. destruct E as [o [Hin H2]].
      exists o. split; [eapply Permutation_in; eauto|exact H2].
    - destruct (spec_parent Q c) as [p|] eqn:E2; [|reflexivity].
      apply (lf_parent Q HQ) in E2. destruct E2 as [o [Hin H2]].
      assert (E3 : spec_parent P c = Some p).
      { apply (lf_parent P HP). exists o. split; [eapply Permutation_in; [apply Permutation_sym|]; eauto|exact H2]. }
      congruence.
  Qed.
End Perm.

Lemma perm_leaf P Q : (forall k, find_obj P k = find_obj Q k) ->
  forall k n, leaf_below P k n -> leaf_below Q k n.
Proof.
  intros Hf k n H. induction H as [k o n H1 H2|k o c n H1 H2 H3 IH].
  - eapply lb_node; [|exact H2]. now rewrite <- Hf.
  - eapply lb_child; [|exact H2|exact IH]. now rewrite <- Hf.
Qed.

(* incremental_equals_scratch on the class "objects arrive leaf-first": any two leaf-first
   arrival orders of the same objects give the same view (entries, leaf sets, tier sets, Ready) *)
Theorem leaf_first_order_independent : forall e P Q,
  leaf_first P -> leaf_first Q -> Permutation P Q ->
  let s := scratch e P in let s' := scratch e Q in
  (forall k, aget k (s_hn s) = aget k (s_hn s')) /\
  (forall k n, In n (real_get s k) <-> In n (real_get s' k)) /\
  (forall t k, In k (match zget t (s_tier s) with Some l => l | None => [] end) <->
               In k (match zget t (s_tier s') with Some l => l | None => [] end)) /\
  s_ready s = true /\ s_ready s' = true.
Proof.
  intros e P Q HP HQ Hperm s s'.
  pose proof (scratch_leaf_first e P HP) as RP. pose proof (scratch_leaf_first e Q HQ) as RQ.
  fold s in RP. fold s' in RQ.
  assert (Hf : forall k, find_obj P k = find_obj Q k) by (intro; now apply perm_find).
  split; [|split; [|split]].
  - intros k. rewrite (rep_hn _ _ RP), (rep_hn _ _ RQ), Hf, (perm_parent P Q HP HQ Hperm). reflexivity.
  - intros k n. rewrite (rep_real _ _ RP), (rep_real _ _ RQ). split; apply perm_leaf; auto.
  - intros t k. rewrite (rep_tier _ _ RP), (rep_tier _ _ RQ).
    split; intros [o [H1 H2]]; exists o; (split; [|exact H2]).
    + eapply Permutation_in; eauto.
    + eapply Permutation_in; [apply Permutation_sym|]; eauto.
  - split; [exact (rep_ready _ _ RP)|exact (rep_ready _ _ RQ)].
Qed.

(* non-vacuity: a three-tier forest with a shared-nothing second tree, in two leaf-first orders *)
Example leaf_first_example :
  leaf_first [mkObj 1 1 [MNode 1; MNode 2]; mkObj 2 1 [MNode 3]; mkObj 5 1 [];
              mkObj 3 2 [MHyper 1; MNode 4; MHyper 2]; mkObj 4 3 [MHyper 3]; mkObj 6 2 [MHyper 5]]%positive.
Proof.
  repeat match goal with
  | |- leaf_first [] => constructor
  | |- leaf_first ?l =>
      let l' := eval cbv in (removelast l) in
      let x := eval cbv in (last l (mkObj 1 0 [])) in
      change l with (l' ++ [x]); constructor
  end.
  all: split; [reflexivity|repeat constructor; try discriminate].
Qed.
