(* C14 — incremental view = tree of the final objects = from-scratch view, for
   EVERY history (any length) of HyperNode add / update / delete events over a
   fixed small universe of objects whose intermediate object sets are all
   consistent forests.  Proved by computing the finite set of reachable
   (objects, view) configurations, checking that it is closed under every
   guarded event and that every member is good, and lifting by induction on
   the history.  The bound (the universe) is part of the statement. *)
From Coq Require Import ZArith List Bool.
From V Require Import C14.Model C14.Laws.
Import ListNotations.
Open Scope Z_scope.

Record cfg := mkCfg { c_objs : list hobj; c_st : st }.

Fixpoint set_obj (o : hobj) (objs : list hobj) : list hobj :=
  match objs with
  | [] => [o]
  | x :: r => match Pos.compare (o_name o) (o_name x) with
              | Lt => o :: objs | Eq => o :: r | Gt => x :: set_obj o r end
  end.
Definition del_obj (n : positive) (objs : list hobj) : list hobj :=
  filter (fun x => negb (Pos.eqb n (o_name x))) objs.

Section Scope.
  Variable e : env.                 (* fixed lister content; exact-match members only *)
  Variable alphabet : list event.   (* the events of the universe *)

  Definition cstep (c : cfg) (ev : event) : cfg :=
    mkCfg (match ev with
           | EUpd o => set_obj o (c_objs c) | EDel n => del_obj n (c_objs c) | _ => c_objs c end)
          (snd (step (e, c_st c) ev)).

  (* the event keeps the object set a consistent forest *)
  Definition guard (c : cfg) (ev : event) : bool := forest_ok (c_objs (cstep c ev)).

  Definition good (c : cfg) : bool :=
    view_matches_spec e (c_objs c) (c_st c) && s_ready (c_st c) && negb (s_fuel (c_st c)) &&
    views_agree (c_objs c) (c_st c) (scratch e (c_objs c)).

  Definition cfg_eq_dec : forall a b : cfg, {a = b} + {a <> b}.
  Proof. repeat decide equality. Defined.
  Definition inb (c : cfg) (l : list cfg) : bool := existsb (fun x => if cfg_eq_dec c x then true else false) l.

  Lemma inb_In c l : inb c l = true -> In c l.
  Proof.
    unfold inb. rewrite existsb_exists. intros [x [Hin Hx]].
    destruct (cfg_eq_dec c x); [now subst|discriminate].
  Qed.

  Fixpoint add_new (xs visited frontier : list cfg) : list cfg * list cfg :=
    match xs with
    | [] => (visited, frontier)
    | x :: r => if inb x visited then add_new r visited frontier
                else add_new r (x :: visited) (x :: frontier)
    end.

  Fixpoint explore (fuel : nat) (frontier visited : list cfg) : option (list cfg) :=
    match fuel with
    | O => None
    | S f => match frontier with
             | [] => Some visited
             | c :: rest =>
                 let succs := map (cstep c) (filter (guard c) alphabet) in
                 let '(v', fr') := add_new succs visited rest in
                 explore f fr' v'
             end
    end.

  Definition closed (V : list cfg) : bool :=
    forallb (fun c => good c &&
                      forallb (fun ev => negb (guard c ev) || inb (cstep c ev) V) alphabet) V.

  Fixpoint guards_along (c : cfg) (h : list event) : Prop :=
    match h with
    | [] => True
    | ev :: r => In ev alphabet /\ guard c ev = true /\ guards_along (cstep c ev) r
    end.

  Lemma closed_sound V : closed V = true -> forall h c, In c V -> guards_along c h ->
    good (fold_left cstep h c) = true.
  Proof.
    intros HV. unfold closed in HV. rewrite forallb_forall in HV.
    induction h as [|ev r IH]; intros c Hc Hg; simpl.
    - specialize (HV c Hc). apply andb_true_iff in HV. tauto.
    - destruct Hg as [Hin [Hgd Hr]].
      apply IH; [|exact Hr].
      specialize (HV c Hc). apply andb_true_iff in HV. destruct HV as [_ HV].
      rewrite forallb_forall in HV. specialize (HV ev Hin). rewrite Hgd in HV. simpl in HV.
      now apply inb_In.
  Qed.
  Definition event_eq_dec : forall a b : event, {a = b} + {a <> b}.
  Proof. repeat decide equality. Defined.
  Fixpoint guards_b (c : cfg) (h : list event) : bool :=
    match h with
    | [] => true
    | ev :: r => existsb (fun x => if event_eq_dec ev x then true else false) alphabet &&
                 guard c ev && guards_b (cstep c ev) r
    end.
  Lemma guards_b_sound : forall h c, guards_b c h = true -> guards_along c h.
  Proof.
    induction h as [|ev r IH]; intros c H; simpl in *; [exact I|].
    apply andb_true_iff in H. destruct H as [H H3]. apply andb_true_iff in H. destruct H as [H1 H2].
    split; [|split; auto].
    apply existsb_exists in H1. destruct H1 as [x [Hin Hx]].
    destruct (event_eq_dec ev x); [now subst|discriminate].
  Qed.
End Scope.

(* ---------- the universe ---------- *)
(* nodes n1 n2 (both in the lister); HyperNodes h1 h2 (tier 1), h3 (tier 2), h4 (tier 3) *)
Definition u_env : env := mkEnv [1%positive; 2%positive] [].
Definition u_objs : list hobj :=
  [ mkObj 1 1 []; mkObj 1 1 [MNode 1]; mkObj 1 1 [MNode 1; MNode 2];
    mkObj 2 1 []; mkObj 2 1 [MNode 2];
    mkObj 3 2 []; mkObj 3 2 [MHyper 1]; mkObj 3 2 [MHyper 2]; mkObj 3 2 [MHyper 1; MHyper 2];
    mkObj 3 2 [MNode 1; MHyper 2];
    mkObj 4 3 []; mkObj 4 3 [MHyper 3]; mkObj 4 3 [MHyper 1]; mkObj 4 3 [MHyper 3; MHyper 2];
    mkObj 4 3 [MHyper 2; MNode 2] ]%positive.
Definition u_alphabet : list event :=
  map EUpd u_objs ++ [EDel 1; EDel 2; EDel 3; EDel 4]%positive.

Definition u_init : cfg := mkCfg [] init_st.
Definition u_reach : list cfg :=
  match explore u_env u_alphabet 4000 [u_init] [u_init] with Some v => v | None => [] end.

Lemma good_elim e c : good e c = true ->
  view_matches_spec e (c_objs c) (c_st c) = true /\
  s_ready (c_st c) = true /\ s_fuel (c_st c) = false /\
  views_agree (c_objs c) (c_st c) (scratch e (c_objs c)) = true.
Proof.
  unfold good. intros G.
  apply andb_true_iff in G. destruct G as [G G4].
  apply andb_true_iff in G. destruct G as [G G3].
  apply andb_true_iff in G. destruct G as [G1 G2].
  apply negb_true_iff in G3. auto.
Qed.

Lemma small_scope_generic e alphabet init V :
  closed e alphabet V && inb init V = true ->
  forall h, guards_along e alphabet init h -> good e (fold_left (cstep e) h init) = true.
Proof.
  intros HC h Hg. apply andb_true_iff in HC. destruct HC as [HC Hi].
  exact (closed_sound e alphabet V HC h init (inb_In _ _ Hi) Hg).
Qed.

Lemma u_reach_closed : closed u_env u_alphabet u_reach && inb u_init u_reach = true.
Proof. vm_compute. reflexivity. Qed.

(* every history over the universe (any length) whose intermediate object sets
   are consistent forests: the incremental view is the tree of the final
   objects, it is ready, no model fuel ran out, and it agrees with the view of
   a fresh HyperNodesInfo fed only the final objects *)
Theorem incremental_equals_scratch_small_scope : forall h,
  guards_along u_env u_alphabet u_init h ->
  let c := fold_left (cstep u_env) h u_init in
  view_matches_spec u_env (c_objs c) (c_st c) = true /\
  s_ready (c_st c) = true /\ s_fuel (c_st c) = false /\
  views_agree (c_objs c) (c_st c) (scratch u_env (c_objs c)) = true.
Proof.
  intros h Hg. apply good_elim.
  exact (small_scope_generic u_env u_alphabet u_init u_reach u_reach_closed h Hg).
Qed.

(* non-vacuity: a history that builds a 3-tier tree, re-parents h2 from h3 to
   h4 in two steps, deletes and re-adds a leaf satisfies the guard *)
Example small_scope_nonvacuous :
  guards_along u_env u_alphabet u_init
    [EUpd (mkObj 4 3 [MHyper 3]); EUpd (mkObj 3 2 [MHyper 1; MHyper 2]); EUpd (mkObj 1 1 [MNode 1]);
     EUpd (mkObj 2 1 [MNode 2]); EUpd (mkObj 3 2 [MHyper 1]); EUpd (mkObj 4 3 [MHyper 3; MHyper 2]);
     EDel 1; EUpd (mkObj 1 1 [MNode 1; MNode 2])]%positive.
Proof. apply guards_b_sound. vm_compute. reflexivity. Qed.
