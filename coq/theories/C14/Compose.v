(* C14 — the view half and the placement half composed (audit W2): on the view built from a
   forest (leaf-first arrival), every HyperNode that hyperNodeGradientFn offers to a hard-mode
   job has tier <= limit and its leaf set is contained in the leaf set of the search root;
   with a prior allocation a, in the leaf set of ONE HyperNode H of tier <= limit that also
   contains the leaf set of a. *)
From Coq Require Import ZArith List Bool Lia Sorted.
From V Require Import C14.Model C14.Laws C14.Lemmas C14.Scratch.
Import ListNotations.
Open Scope Z_scope.

Lemma hchildren_In ms c : In c (hchildren ms) <-> In (MHyper c) ms.
Proof.
  unfold hchildren.
  assert (G : forall ms acc, In c (fold_left (fun acc m => match m with MHyper h => pins h acc | _ => acc end) ms acc)
                             <-> In c acc \/ In (MHyper c) ms).
  { induction ms0 as [|m r IH]; intros acc; simpl; [intuition|].
    rewrite IH. destruct m as [n|l sl|h]; try (intuition; discriminate).
    rewrite pins_In. split.
    - intros [[->|H]|H]; auto.
    - intros [H|[H|H]]; auto. inversion H; auto. }
  rewrite G. simpl. intuition.
Qed.

Lemma aget_map_snd {A B} (g : positive * A -> B) k l :
  aget k (map (fun ki => (fst ki, g ki)) l) =
  match aget k l with Some a => Some (g (k, a)) | None => None end.
Proof.
  induction l as [|[k' a'] r IH]; simpl; [reflexivity|].
  destruct (Pos.eqb k k') eqn:E; [|exact IH]. apply Pos.eqb_eq in E. now subst.
Qed.

(* entries of the session map: those of the view, roots re-parented to the cluster top *)
Lemma add_top_entry s k : k <> top_name ->
  aget k (add_top s) =
  match aget k (s_hn s) with
  | Some i => Some (match i_parent i with None => with_parent (Some top_name) i | Some _ => i end)
  | None => None
  end.
Proof.
  intros Hk. unfold add_top. rewrite aget_aset_ne by exact Hk.
  replace (map (fun ki : positive * info =>
                  match i_parent (snd ki) with
                  | Some _ => ki
                  | None => (fst ki, with_parent (Some top_name) (snd ki))
                  end) (s_hn s))
    with (map (fun ki : positive * info =>
                 (fst ki, match i_parent (snd ki) with
                          | None => with_parent (Some top_name) (snd ki) | Some _ => snd ki end)) (s_hn s)).
  - rewrite (aget_map_snd (fun ki => match i_parent (snd ki) with
                                     | None => with_parent (Some top_name) (snd ki) | Some _ => snd ki end)).
    destruct (aget k (s_hn s)); reflexivity.
  - apply map_ext. intros [k' i']. simpl. destruct (i_parent i'); reflexivity.
Qed.

Section OnForest.
  Variable e : env.
  Variable P : list hobj.
  Hypothesis HP : leaf_first P.
  Hypothesis Htop : find_obj P top_name = None.

  Let s := scratch e P.
  Let hn := add_top s.

  Lemma rep : Rep s P.
  Proof. exact (scratch_leaf_first e P HP). Qed.

  (* children in the session map = claimed members, for every HyperNode but the top *)
  Lemma session_children k i : k <> top_name -> aget k hn = Some i ->
    exists o, find_obj P k = Some o /\ i_children i = hchildren (o_members o) /\ i_tier i = o_tier o.
  Proof.
    intros Hk Hi. unfold hn in Hi. rewrite add_top_entry in Hi by exact Hk.
    rewrite (rep_hn _ _ rep) in Hi. destruct (find_obj P k) as [o|]; [|discriminate].
    exists o. split; [reflexivity|].
    destruct (spec_parent P k); inversion Hi; subst; simpl; auto.
  Qed.

  (* Children-reachability inside the session map implies leaf-set containment *)
  Lemma reach_contains r x : reach hn r x -> r <> top_name ->
    x <> top_name /\ forall n, leaf_below P x n -> leaf_below P r n.
  Proof.
    intros H Hr. induction H as [r|r y i c Hry IH Hy Hc].
    - split; [exact Hr|auto].
    - destruct (IH Hr) as [Hyt Hsub].
      destruct (session_children y i Hyt Hy) as [o [Ho [Hch _]]].
      rewrite Hch in Hc. apply hchildren_In in Hc.
      assert (Hcex : find_obj P c <> None).
      { apply find_obj_some in Ho. destruct Ho as [Hin _].
        apply (rep_closed _ _ rep o c Hin). now apply claims_In. }
      split; [intro; subst c; contradiction|].
      intros n Hn. apply Hsub. eapply lb_child; eauto.
  Qed.

  (* placement without a prior allocation: every offered HyperNode has tier <= limit and its
     nodes are nodes of the HyperNode the search started from *)
  Theorem gradient_on_forest_no_allocation : forall start limit l x t,
    start <> top_name ->
    gradient hn start limit None = GOk l -> In (x, t) l ->
    t <= limit /\ tier_of hn x = Some t /\
    forall n, In n (real_get s x) -> In n (real_get s start).
  Proof.
    intros start limit l x t Hst Hg Hin.
    destruct (gradient_tier_bound hn start limit None l Hg) as [r [Hr Hall]].
    simpl in Hr. inversion Hr; subst r.
    destruct (Hall x t Hin) as (H1 & H2 & H3). split; [exact H1|]. split; [exact H2|].
    destruct (reach_contains start x H3 Hst) as [_ Hsub].
    intros n Hn. apply (rep_real _ _ rep). apply Hsub. now apply (rep_real _ _ rep).
  Qed.

  (* ---------- the Parent walk of the session map ---------- *)
  Lemma session_entries ki : In ki hn ->
    ki = (top_name, match aget top_name hn with Some i => i | None => snd ki end) \/
    exists o, find_obj P (fst ki) = Some o /\ i_members (snd ki) = o_members o.
  Proof.
    intros Hin. unfold hn, add_top in Hin. apply In_aset in Hin. destruct Hin as [->|Hin].
    - left. unfold hn, add_top. now rewrite aget_aset_eq.
    - right. apply in_map_iff in Hin. destruct Hin as [[k0 i0] [Heq Hin0]].
      apply (sorted_In_aget k0 i0 _ (rep_sorted _ _ rep)) in Hin0.
      rewrite (rep_hn _ _ rep) in Hin0. destruct (find_obj P k0) as [o|] eqn:Eo; [|discriminate].
      exists o. inversion Hin0; subst i0. simpl in Heq.
      destruct (spec_parent P k0); inversion Heq; subst; simpl; auto.
  Qed.

  Lemma nobody_claims k : find_obj P k = None -> get_parent hn k = None.
  Proof.
    intros Hk. unfold get_parent. rewrite find_all_false; [reflexivity|].
    intros ki Hin. destruct (session_entries ki Hin) as [Ht|[o [Ho Hm]]].
    - rewrite Ht. simpl. unfold hn, add_top. rewrite aget_aset_eq. simpl. apply andb_false_r.
    - rewrite Hm. destruct (claims (o_members o) k) eqn:Ec; [|apply andb_false_r].
      exfalso. apply find_obj_some in Ho. destruct Ho as [Hin' _].
      exact (rep_closed _ _ rep o k Hin' Ec Hk).
  Qed.

  Lemma top_is_root : parent_of hn top_name = None.
  Proof.
    unfold parent_of. unfold hn at 1, add_top. rewrite aget_aset_eq. simpl. now apply nobody_claims.
  Qed.

  Lemma parent_cases k p : parent_of hn k = Some p ->
    exists o, find_obj P k = Some o /\ k <> top_name /\
              (spec_parent P k = Some p \/ (spec_parent P k = None /\ p = top_name)).
  Proof.
    intros H. destruct (Pos.eq_dec k top_name) as [->|Hk]; [rewrite top_is_root in H; discriminate|].
    unfold parent_of in H. unfold hn at 1 in H. rewrite add_top_entry in H by exact Hk.
    rewrite (rep_hn _ _ rep) in H. destruct (find_obj P k) as [o|] eqn:Eo.
    - exists o. split; [reflexivity|]. split; [exact Hk|].
      destruct (spec_parent P k) as [q|]; simpl in H; inversion H; subst; auto.
    - rewrite (nobody_claims k Eo) in H. discriminate.
  Qed.

  Lemma iter_top n h : iter_par (parent_of hn) n top_name = Some h -> h = top_name.
  Proof. destruct n; simpl; [now inversion 1|]. rewrite top_is_root. discriminate. Qed.

  (* an ancestor (Parent walk) holds every node of its descendants *)
  Lemma anc_contains : forall n k h, iter_par (parent_of hn) n k = Some h ->
    h = top_name \/ forall x, leaf_below P k x -> leaf_below P h x.
  Proof.
    induction n as [|n IH]; intros k h H; simpl in H.
    - inversion H; subst. now right.
    - destruct (parent_of hn k) as [p|] eqn:Ep; [|discriminate].
      destruct (parent_cases k p Ep) as [o [Ho [Hk [Hsp|[Hsp ->]]]]].
      + destruct (IH p h H) as [->|Hsub]; [now left|right].
        intros x Hx. apply Hsub.
        apply (lf_parent P HP) in Hsp. destruct Hsp as [op [Hin [Hn Hc]]].
        assert (Hop : find_obj P p = Some op) by (apply (lf_find P HP); auto).
        apply (lb_child P p op k x Hop); [apply (proj1 (claims_In _ _)); exact Hc|exact Hx].
      + left. now apply (iter_top n).
  Qed.

  (* placement with a prior allocation a: every offered HyperNode x has tier <= limit, and
     there is ONE HyperNode H of tier <= limit whose leaf set holds the nodes of x and the
     nodes of a (or H is the cluster top, which holds every node) *)
  Theorem gradient_on_forest_with_allocation : forall start limit a l x t,
    gradient hn start limit (Some a) = GOk l -> In (x, t) l ->
    t <= limit /\
    exists H tH, tier_of hn H = Some tH /\ tH <= limit /\
      (H = top_name \/
       ((forall n, In n (real_get s x) -> In n (real_get s H)) /\
        (forall n, In n (real_get s a) -> In n (real_get s H)))).
  Proof.
    intros start limit a l x t Hg Hin.
    destruct (gradient_tier_bound hn start limit (Some a) l Hg) as [r [Hr Hall]].
    destruct (Hall x t Hin) as (H1 & _ & H3). split; [exact H1|].
    destruct (search_root_with_allocation hn start limit a r Hr)
      as [ancs [hha [tH [Ha [Hin' [Ht [Hle Hcase]]]]]]].
    exists hha, tH. split; [exact Ht|]. split; [exact Hle|].
    assert (Haa : anc (parent_of hn) a hha).
    { unfold get_ancestors in Ha. eapply ancestors_sound; eauto. }
    destruct Haa as [n Hn]. destruct (anc_contains n a hha Hn) as [->|Hsuba]; [now left|].
    destruct (Pos.eq_dec hha top_name) as [->|Hht]; [now left|]. right.
    assert (Hx : forall z, leaf_below P x z -> leaf_below P hha z).
    { destruct Hcase as [[-> Hl]|[-> Hl]].
      - (* the root is the start HyperNode, which lies under hha *)
        pose proof (lca_correct (parent_of hn) (anc_fuel hn) start hha (Some hha) Hl) as (A1 & _ & _).
        destruct A1 as [m Hm]. destruct (anc_contains m start hha Hm) as [->|Hsub]; [contradiction|].
        destruct (Pos.eq_dec start top_name) as [->|Hst].
        + apply iter_top in Hm. contradiction.
        + destruct (reach_contains start x H3 Hst) as [_ Hs]. auto.
      - destruct (reach_contains hha x H3 Hht) as [_ Hs]. exact Hs. }
    split; intros z Hz; apply (rep_real _ _ rep); [apply Hx|apply Hsuba]; now apply (rep_real _ _ rep).
  Qed.
End OnForest.
