(* C14 — model of Session.recoverAllocatedHyperNode (framework/session.go:364-448) on the
   clusters of the allocate-trace stream, and its specification.
   At session open the in-memory AllocatedHyperNode of a hard-topology job is rebuilt from
   the nodes of its tasks in an allocated status (Bound, Binding, Running, Allocated):
   per sub-job with a topology of its own, the lowest-tier HyperNode whose leaf set holds
   all those nodes; for the job, the LCA of its sub-jobs' HyperNodes.  Sub-jobs without a
   topology of their own are skipped (finding D8). *)
From Coq Require Import ZArith List Bool Lia.
From V Require Import C14.Model C14.Lemmas.
Import ListNotations.
Open Scope Z_scope.

(* ---------- the cluster of a trace: leaves (tier 1), groups (tier 2), optional root (tier 3) ---------- *)
Fixpoint leaf_objs (i : positive) (next : positive) (leaves : list (positive * list Z))
  : list hobj * list (positive * positive) :=           (* objects, (leaf, group) pairs *)
  match leaves with
  | [] => ([], [])
  | (g, caps) :: r =>
      let nodes := map (fun k => Pos.of_nat (Pos.to_nat next + k)) (seq 0 (length caps)) in
      let '(os, gs) := leaf_objs (Pos.succ i) (Pos.of_nat (Pos.to_nat next + length caps)) r in
      (mkObj i 1 (map MNode nodes) :: os, (i, g) :: gs)
  end.

Definition max_group (gs : list (positive * positive)) : positive :=
  fold_left (fun m ig => Pos.max m (snd ig)) gs 1%positive.

Definition trace_objs (depth : Z) (leaves : list (positive * list Z)) : list hobj :=
  let '(los, gs) := leaf_objs 1 1 leaves in
  let L := Pos.of_nat (length leaves) in
  let G := max_group gs in
  let groups := map Pos.of_nat (seq 1 (Pos.to_nat G)) in
  let mids := flat_map (fun g =>
                 match map fst (filter (fun ig => Pos.eqb (snd ig) g) gs) with
                 | [] => []
                 | ls => [mkObj (L + g) 2 (map MHyper ls)]
                 end) groups in
  let root := if Z.leb 3 depth then [mkObj (L + G + 1) 3 (map (fun o => MHyper (o_name o)) mids)] else [] in
  los ++ mids ++ root.

(* the session's HyperNode map and leaf sets (cluster top included) *)
Definition trace_session (depth : Z) (leaves : list (positive * list Z))
  : list (positive * info) * list (positive * list positive) :=
  let s := scratch (mkEnv [] []) (trace_objs depth leaves) in
  let all := fold_left (fun acc kl => punion acc (snd kl)) (s_real s) [] in
  (add_top s, aset top_name all (s_real s)).

(* ---------- recovery ---------- *)
Definition covers_all (real : list (positive * list positive)) (h : positive) (nodes : list positive) : bool :=
  match aget h real with Some l => forallb (fun n => pmem n l) nodes | None => false end.

Definition lower (best : option (positive * info)) (ki : positive * info) : option (positive * info) :=
  match best with
  | None => Some ki
  | Some b => if Z.ltb (i_tier (snd ki)) (i_tier (snd b)) then Some ki else best
  end.

(* getLowestTierHyperNode over the HyperNodes that hold every node *)
Definition recover_sub (hn : list (positive * info)) (real : list (positive * list positive))
           (nodes : list positive) : option positive :=
  match nodes with
  | [] => None
  | _ => match fold_left (fun best ki => if covers_all real (fst ki) nodes then lower best ki else best) hn None with
         | Some b => Some (fst b)
         | None => None
         end
  end.

(* LCA over the sub-jobs' HyperNodes; the Go loop stops once the LCA is "" *)
Definition lca_fold (lca2 : option positive -> option positive -> option (option positive))
           (subs : list (option positive)) : option (option positive * bool) :=
  fold_left (fun acc s =>
    match acc with
    | None => None
    | Some (l, stop) =>
        if (stop : bool) then acc else
        match s with
        | None => acc
        | Some h => match lca2 l (Some h) with
                    | None => None
                    | Some r => Some (r, match r with None => true | Some _ => false end)
                    end
        end
    end) subs (Some (None, false)).

Definition recover_job (hn : list (positive * info)) (subs : list (option positive)) : option (option positive) :=
  match lca_fold (get_lca hn) subs with Some (l, _) => Some l | None => None end.

(* a pod of the trace: status code (0 pending, 1 Running, 2 Bound, 3 Binding, 4 Allocated,
   5 Releasing), node (where it sits / nominated node), role (sub-group label value) *)
Definition placed_status (c : Z) : bool := (1 <=? c) && (c <=? 4).

Definition roles_of (policy : Z) (pods : list (Z * positive * Z)) : list Z :=
  if Z.eqb policy 0 then [0]
  else fold_left (fun acc p => let r := snd p in
                    if existsb (Z.eqb r) acc then acc else acc ++ [r]) pods [].

Fixpoint zinsert (x : Z) (l : list Z) : list Z :=
  match l with [] => [x] | y :: r => if Z.leb x y then x :: l else y :: zinsert x r end.
Definition zsort (l : list Z) : list Z := fold_left (fun acc x => zinsert x acc) l [].

Definition nodes_of (policy role : Z) (pods : list (Z * positive * Z)) : list positive :=
  pset_of (map (fun p => snd (fst p))
               (filter (fun p => placed_status (fst (fst p)) &&
                                 (Z.eqb policy 0 || Z.eqb (snd p) role)) pods)).

(* recovered AllocatedHyperNode of every sub-job (by ascending role) and of the job.
   [fixed = false] is the code before the repair of finding D8: a sub-job created by a
   sub-group policy without a topology of its own (policy 1) was skipped although the job
   itself is constrained, so nothing was recovered for the job either. *)
Definition recover_all_gen (fixed : bool) (hn : list (positive * info)) (real : list (positive * list positive))
           (policy : Z) (pods : list (Z * positive * Z))
  : list (Z * option positive) * option (option positive) :=
  let subs := map (fun r => (r, if Z.eqb policy 1 && negb fixed then None
                                else recover_sub hn real (nodes_of policy r pods)))
                  (zsort (roles_of policy pods)) in
  (subs, recover_job hn (map snd subs)).
Definition recover_all := recover_all_gen true.

(* A scheduler that did not restart still remembers the job's AllocatedHyperNode (cache.go keeps
   it across sessions).  Session open (session.go:319-359, 376, 433):
   removeInvalidAllocatedHyperNode forgets it when that HyperNode has no entry or the job has no
   task in an allocated status; recoverAllocatedHyperNode then recovers the sub-jobs (none of
   them is remembered in the traces) and recomputes the job's HyperNode as the LCA of the
   sub-jobs' whenever it is empty OR some sub-job was just recovered — so a remembered value
   only survives when nothing is recovered for any sub-job. *)
Definition recover_with_memory (hn : list (positive * info)) (real : list (positive * list positive))
           (policy : Z) (pods : list (Z * positive * Z)) (remembered : option positive)
  : list (Z * option positive) * option (option positive) :=
  let '(subs, lca) := recover_all hn real policy pods in
  let placed := existsb (fun p => placed_status (fst (fst p))) pods in
  let kept := match remembered with
              | Some r => match aget r hn with Some _ => if placed then Some r else None | None => None end
              | None => None end in
  let updated := existsb (fun rs => match snd rs with Some _ => true | None => false end) subs in
  (subs, match kept with
         | Some r => if updated then lca else Some (Some r)
         | None => lca
         end).

(* ---------- allocate.Recorder (recorder.go): decisions of the job-level candidates ---------- *)
(* While a job-level candidate HyperNode is tried, the HyperNode chosen for each sub-job is
   recorded under that candidate; after the commit the records of the selected candidate are
   applied: AllocatedHyperNode(sub) := LCA(AllocatedHyperNode(sub), recorded).
   [reset = true] (repair of finding D10): a round starts from an empty record.  Before the
   repair the records of earlier rounds stayed and were replayed when a later round selected
   a candidate that an earlier round had only tried. *)
Definition rec_state := list (positive * list (Z * positive)).
Definition save_decision (r : rec_state) (cand : positive) (sub : Z) (h : positive) : rec_state :=
  let cur := match aget cand r with Some l => l | None => [] end in
  aset cand (zset sub h cur) r.

Definition apply_decisions (hn : list (positive * info)) (allocs : list (Z * option positive))
           (ds : list (Z * positive)) : list (Z * option positive) :=
  fold_left (fun acc d =>
    let cur := match zget (fst d) acc with Some o => o | None => None end in
    match get_lca hn cur (Some (snd d)) with
    | Some l => zset (fst d) l acc
    | None => acc
    end) ds allocs.

(* one allocation round of a job: the candidates tried (with the sub-job decisions made in
   each) and the candidate finally selected *)
Definition round := (list (positive * list (Z * positive)) * positive)%type.

Definition run_round (reset : bool) (hn : list (positive * info))
           (st : rec_state * list (Z * option positive)) (rd : round) : rec_state * list (Z * option positive) :=
  let '(r0, allocs) := st in
  let r1 := if reset then [] else r0 in
  let r2 := fold_left (fun r try => fold_left (fun r' d => save_decision r' (fst try) (fst d) (snd d)) (snd try) r)
                      (fst rd) r1 in
  (r2, apply_decisions hn allocs (match aget (snd rd) r2 with Some l => l | None => [] end)).

Definition run_rounds (reset : bool) (hn : list (positive * info)) (rds : list round) : list (Z * option positive) :=
  snd (fold_left (run_round reset hn) rds ([], [])).

(* ---------- adjustNetworkTopologySpec (session.go): tier limits given by NAME ---------- *)
(* A limit is a number or a tier name; "tier<n>" is name n.  The name table of the session
   (HyperNodeTierNameMap) maps the tier names carried by the HyperNodes to their tiers: in the
   trace clusters every HyperNode of tier t carries the name "tier<t>".  A name that no
   HyperNode carries cannot be translated: the failure is logged and the spec stays without a
   numeric limit (IsHardTopologyMode = false).  The job's spec is translated first, then the
   spec of each of its sub-jobs — each on its own.
   [skip = true] is the seeded mutant C14-r5-2: after a job-level failure the sub-jobs are not
   looked at (kept as a _refuted witness for the theorem below). *)
Inductive tier_ref := TNum (t : Z) | TName (n : Z).

Definition name_table (s : st) : list Z := map fst (s_tier s).

Definition translate (table : list Z) (r : tier_ref) : option Z :=
  match r with
  | TNum t => Some t
  | TName n => if existsb (Z.eqb n) table then Some n else None
  end.

Definition untranslated (r : tier_ref) : option Z :=
  match r with TNum t => Some t | TName _ => None end.

Definition adjust (skip : bool) (table : list Z) (job : option tier_ref) (subs : list (Z * option tier_ref))
  : option Z * list (Z * option Z) :=
  let job_failed := match job with
                    | Some r => match translate table r with None => true | Some _ => false end
                    | None => false end in
  (match job with Some r => translate table r | None => None end,
   map (fun rs => (fst rs, match snd rs with
                           | None => None
                           | Some r => if skip && job_failed then untranslated r else translate table r
                           end)) subs).

(* the limit specs of a trace: job level (absent when only the sub-group policy carries the
   topology) and per sub-job (its own policy limit; a sub-job of a policy without topology has
   none; the default sub-job of a job without policy carries the job's spec) *)
Definition mk_ref (mode limit : Z) : tier_ref :=
  if Z.eqb mode 0 then TNum limit else if Z.eqb mode 1 then TName limit else TName 0.

Definition trace_limits (policy limit sub_limit job_mode sub_mode : Z) (roles : list Z)
  : option tier_ref * list (Z * option tier_ref) :=
  let jr := if Z.eqb policy 3 then None else Some (mk_ref job_mode limit) in
  (jr, map (fun r => (r, if Z.leb 2 policy then Some (mk_ref sub_mode sub_limit)
                         else if Z.eqb policy 0 then jr else None)) roles).

(* a sub-group's valid tier name is translated whatever the job-level spec is *)
Theorem adjust_sub_valid_name : forall table job subs role n,
  In (role, Some (TName n)) subs -> existsb (Z.eqb n) table = true ->
  In (role, Some n) (snd (adjust false table job subs)).
Proof.
  intros table job subs role n Hin Hn. unfold adjust. cbn [snd].
  apply in_map_iff. exists (role, Some (TName n)). split; [|exact Hin].
  cbn [fst snd andb translate]. now rewrite Hn.
Qed.

(* and every sub-job's limit is what its own spec says, independently of the job's *)
Theorem adjust_sub_independent : forall table job job' subs,
  snd (adjust false table job subs) = snd (adjust false table job' subs).
Proof. reflexivity. Qed.

(* finding D13: a hard limit given by a name that no HyperNode carries is not translated: the
   spec keeps no numeric limit and the job is scheduled as if it had no constraint *)
Lemma adjust_unknown_name_unconstrained :
  fst (adjust false [1; 2] (Some (TName 0)) []) = None /\
  fst (adjust false [1; 2] (Some (TName 2)) []) = Some 2.
Proof. vm_compute. split; reflexivity. Qed.

(* the mutant (sub-jobs skipped after a job-level failure) loses a valid sub-group limit *)
Lemma adjust_skip_refuted :
  let table := [1; 2] in
  let subs := [(1, Some (TName 1))] in
  snd (adjust true table (Some (TName 0)) subs) = [(1, None)] /\
  snd (adjust false table (Some (TName 0)) subs) = [(1, Some 1)].
Proof. vm_compute. split; reflexivity. Qed.

(* ================= specification ================= *)
(* the recovered HyperNode of a sub-job holds every node of an allocated-status task and
   no HyperNode of a lower tier does *)
Lemma recover_fold_spec real nodes : forall hn best,
  (match best with
   | Some b => covers_all real (fst b) nodes = true
   | None => True end) ->
  match fold_left (fun best ki => if covers_all real (fst ki) nodes then lower best ki else best) hn best with
  | Some r => covers_all real (fst r) nodes = true /\
              (forall ki, In ki hn -> covers_all real (fst ki) nodes = true -> i_tier (snd r) <= i_tier (snd ki)) /\
              (match best with Some b => i_tier (snd r) <= i_tier (snd b) | None => True end) /\
              (In r hn \/ best = Some r)
  | None => best = None /\ forall ki, In ki hn -> covers_all real (fst ki) nodes = false
  end.
Proof.
  induction hn as [|ki r IH]; intros best Hb; simpl.
  - destruct best as [b|]; [|split; [reflexivity|intros ki []]].
    split; [exact Hb|]. split; [intros ki []|]. split; [lia|now right].
  - destruct (covers_all real (fst ki) nodes) eqn:Ec.
    + specialize (IH (lower best ki)).
      assert (Hl : match lower best ki with Some b => covers_all real (fst b) nodes = true | None => True end).
      { unfold lower. destruct best as [b|]; [|exact Ec].
        destruct (Z.ltb (i_tier (snd ki)) (i_tier (snd b))); [exact Ec|exact Hb]. }
      specialize (IH Hl).
      destruct (fold_left _ r (lower best ki)) as [x|] eqn:Ef.
      * destruct IH as (I1 & I2 & I3 & I4). split; [exact I1|].
        assert (Hki : i_tier (snd x) <= i_tier (snd ki)).
        { unfold lower in I3. destruct best as [b|]; [|exact I3].
          destruct (Z.ltb (i_tier (snd ki)) (i_tier (snd b))) eqn:El; [exact I3|].
          apply Z.ltb_ge in El. lia. }
        split. { intros k [<-|Hin] Hc; [exact Hki|now apply I2]. }
        split.
        { destruct best as [b|]; [|exact I].
          unfold lower in I3. destruct (Z.ltb (i_tier (snd ki)) (i_tier (snd b))) eqn:El; [|exact I3].
          apply Z.ltb_lt in El. lia. }
        destruct I4 as [I4|I4]; [left; now right|].
        unfold lower in I4. destruct best as [b|].
        -- destruct (Z.ltb (i_tier (snd ki)) (i_tier (snd b))); inversion I4; subst; [left; now left|now right].
        -- inversion I4; subst. left. now left.
      * destruct IH as [I1 _]. unfold lower in I1. destruct best as [b|]; [|discriminate].
        destruct (Z.ltb (i_tier (snd ki)) (i_tier (snd b))); discriminate.
    + specialize (IH best Hb).
      destruct (fold_left _ r best) as [x|] eqn:Ef.
      * destruct IH as (I1 & I2 & I3 & I4). split; [exact I1|].
        split. { intros k [<-|Hin] Hc; [congruence|now apply I2]. }
        split; [exact I3|]. destruct I4; [left; now right|now right].
      * destruct IH as [I1 I2]. split; [exact I1|]. intros k [<-|Hin]; [exact Ec|now apply I2].
Qed.

Theorem recover_sub_spec : forall hn real nodes h,
  recover_sub hn real nodes = Some h ->
  covers_all real h nodes = true /\
  exists i, In (h, i) hn /\
    forall k i', In (k, i') hn -> covers_all real k nodes = true -> i_tier i <= i_tier i'.
Proof.
  intros hn real nodes h H. unfold recover_sub in H. destruct nodes as [|n ns]; [discriminate|].
  pose proof (recover_fold_spec real (n :: ns) hn None I) as S.
  destruct (fold_left _ hn None) as [[k i]|]; [|discriminate].
  inversion H; subst. destruct S as (S1 & S2 & _ & S4). split; [exact S1|].
  exists i. split; [destruct S4 as [S4|S4]; [exact S4|discriminate]|].
  intros k i' Hin Hc. exact (S2 (k, i') Hin Hc).
Qed.

(* nothing is recovered only when no HyperNode holds all the nodes (or there are none) *)
Theorem recover_sub_none : forall hn real nodes,
  recover_sub hn real nodes = None ->
  nodes = [] \/ forall ki, In ki hn -> covers_all real (fst ki) nodes = false.
Proof.
  intros hn real nodes H. unfold recover_sub in H. destruct nodes as [|n ns]; [now left|]. right.
  pose proof (recover_fold_spec real (n :: ns) hn None I) as S.
  destruct (fold_left _ hn None) as [x|]; [discriminate|]. exact (proj2 S).
Qed.

(* the recovered HyperNode of the job is the lowest common ancestor-or-self of the
   HyperNodes recovered for its sub-jobs (GetLCAHyperNode correctness, C14_lca_correct) *)
Section JobLevel.
  Variable par : positive -> option positive.
  Variable fuel : nat.

  Definition inv (done : list (option positive)) (l : option positive) : Prop :=
    match l with
    | None => forall h, ~ In (Some h) done
    | Some x => (forall h, In (Some h) done -> anc par h x) /\
                (forall c, (forall h, In (Some h) done -> anc par h c) -> anc par x c)
    end.

  Lemma lca_fold_inv : forall rest done l r stop,
    inv done l ->
    fold_left (fun acc s =>
      match acc with
      | None => None
      | Some (l, stop) =>
          if (stop : bool) then acc else
          match s with
          | None => acc
          | Some h => match lca_gen par fuel l (Some h) with
                      | None => None
                      | Some r => Some (r, match r with None => true | Some _ => false end)
                      end
          end
      end) rest (Some (l, false)) = Some (Some r, stop) ->
    inv (done ++ rest) (Some r).
  Proof.
    induction rest as [|s rest IH]; intros done l r stop Hinv H; simpl in H.
    - inversion H; subst. rewrite app_nil_r. exact Hinv.
    - replace (done ++ s :: rest) with ((done ++ [s]) ++ rest) by (rewrite <- app_assoc; reflexivity).
      destruct s as [h|].
      + destruct (lca_gen par fuel l (Some h)) as [r'|] eqn:El.
        * destruct r' as [y|].
          -- eapply IH; [|exact H]. simpl.
             destruct l as [x|].
             ++ pose proof (lca_correct par fuel x h (Some y) El) as (A1 & A2 & A3).
                destruct Hinv as [I1 I2]. split.
                ** intros h' Hin. apply in_app_or in Hin. destruct Hin as [Hin|[Hin|[]]].
                   --- eapply anc_trans; [apply I1; exact Hin|exact A1].
                   --- inversion Hin; subst. exact A2.
                ** intros c Hc. apply A3.
                   --- apply I2. intros h' Hin. apply Hc. apply in_or_app. now left.
                   --- apply Hc. apply in_or_app. right. now left.
             ++ simpl in El. inversion El; subst. split.
                ** intros h' Hin. apply in_app_or in Hin. destruct Hin as [Hin|[Hin|[]]].
                   --- exfalso. exact (Hinv h' Hin).
                   --- inversion Hin; subst. apply anc_refl.
                ** intros c Hc. apply Hc. apply in_or_app. right. now left.
          -- (* the LCA became "": the loop stops and the result stays "" *)
             exfalso. clear -H.
             assert (G : forall rest, fold_left (fun acc s =>
                match acc with
                | None => None
                | Some (l, stop) =>
                    if (stop : bool) then acc else
                    match s with
                    | None => acc
                    | Some h => match lca_gen par fuel l (Some h) with
                                | None => None
                                | Some r => Some (r, match r with None => true | Some _ => false end)
                                end
                    end
                end) rest (Some (@None positive, true)) = Some (None, true)).
             { induction rest0 as [|a r0 IH0]; simpl; [reflexivity|exact IH0]. }
             rewrite G in H. inversion H.
        * exfalso. clear -H.
          assert (G : forall rest, fold_left (fun acc s =>
                match acc with
                | None => None
                | Some (l, stop) =>
                    if (stop : bool) then acc else
                    match s with
                    | None => acc
                    | Some h => match lca_gen par fuel l (Some h) with
                                | None => None
                                | Some r => Some (r, match r with None => true | Some _ => false end)
                                end
                    end
                end) rest None = None).
          { induction rest0 as [|a r0 IH0]; simpl; [reflexivity|exact IH0]. }
          rewrite G in H. discriminate.
      + eapply IH; [|exact H]. destruct l as [x|]; simpl in *.
        * destruct Hinv as [I1 I2]. split.
          -- intros h' Hin. apply in_app_or in Hin. destruct Hin as [Hin|[Hin|[]]]; [now apply I1|discriminate].
          -- intros c Hc. apply I2. intros h' Hin. apply Hc. apply in_or_app. now left.
        * intros h' Hin. apply in_app_or in Hin. destruct Hin as [Hin|[Hin|[]]]; [exact (Hinv h' Hin)|discriminate].
  Qed.

  Theorem recover_job_spec : forall subs r stop,
    lca_fold (lca_gen par fuel) subs = Some (Some r, stop) ->
    (forall h, In (Some h) subs -> anc par h r) /\
    (forall c, (forall h, In (Some h) subs -> anc par h c) -> anc par r c).
  Proof.
    intros subs r stop H. unfold lca_fold in H.
    apply (lca_fold_inv subs [] None r stop) in H; [exact H|].
    intros h [].
  Qed.
End JobLevel.

(* ================= the code before the repairs of D8 and D10 ================= *)
(* D8: leaves h1=[n1] h2=[n2]; hard job, sub-group policy without own topology; one pod
   Running on n2.  Before the repair nothing was recovered (the pending pod could then be
   bound under h1); now the job is known to sit in h2. *)
Lemma d8_recovery_refuted :
  let '(hn, real) := trace_session 2 [(1%positive, [1]); (1%positive, [1])] in
  let pods := [(1, 2%positive, 2); (0, 1%positive, 1)] in
  snd (recover_all_gen false hn real 1 pods) = Some None /\
  snd (recover_all_gen true hn real 1 pods) = Some (Some 2%positive).
Proof. vm_compute. split; reflexivity. Qed.

(* D10: leaves h1 h2 h3 under the tier-2 HyperNode h4.  Round 1 tries h2, h3, h1 for sub-job
   1 and commits h3; round 2 tries h3, h1, h2 for sub-job 2 and commits h2.  Before the
   repair the stale record "sub-job 1 -> h2" of round 1 was replayed: sub-job 1 ended at
   LCA(h3, h2) = h4 (tier 2) although its pods never left h3. *)
Lemma d10_stale_decision_refuted :
  let '(hn, _) := trace_session 2 [(1%positive, [1; 1; 1]); (1%positive, [2]); (1%positive, [1])] in
  let rounds : list round :=
    [ ([(2%positive, [(1, 2%positive)]); (3%positive, [(1, 3%positive)]); (1%positive, [(1, 1%positive)])], 3%positive);
      ([(3%positive, [(2, 3%positive)]); (1%positive, [(2, 1%positive)]); (2%positive, [(2, 2%positive)])], 2%positive) ] in
  zget 1 (run_rounds false hn rounds) = Some (Some 4%positive) /\
  zget 1 (run_rounds true hn rounds) = Some (Some 3%positive) /\
  zget 2 (run_rounds true hn rounds) = Some (Some 2%positive).
Proof. vm_compute. repeat split; reflexivity. Qed.
