(* C14 — executable model of the scheduler's HyperNode view and of the
   network-topology-aware gradient filter.  Definitions only, no proofs.

   Modelled code (volcano, /repo):
     pkg/scheduler/api/hyper_node_info.go
        UpdateHyperNode 251-334, BuildHyperNodeCache 348-415, updateParent 430-444,
        getChildren 470-484, GetRegexOrLabelMatchLeafHyperNodes 522-545, addChild 548-571,
        hyperNodesThatClaimMember 593-609, updateAncestors 612-627, rebuildCache 633-657,
        removeFromTierSet/updateHyperNodesSetByTier 660-684, removeParent..deleteHyperNode 687-714,
        DeleteHyperNode 239-249, NodeRegexOrLabelMatchLeafHyperNode/nodeMatchSelector 746-797,
        GetAncestors 800-821, getParent 825-847, GetLCAHyperNode 850-872
     pkg/scheduler/cache/event_handlers.go triggerUpdateHyperNode 809-840
     pkg/scheduler/framework/session.go addClusterTopHyperNode 287-315
     pkg/scheduler/plugins/network-topology-aware/network_topology_aware.go
        hyperNodeGradientFn 602-647, isEligibleHyperNode 649-671 (tier test only),
        getSearchRoot 677-702, getHighestAllowedHyperNode 704-724
     pkg/scheduler/actions/allocate/allocate.go 524 (AllocatedHyperNode := LCA)

   Names of HyperNodes and nodes are positives ("" is None); selectors (regex /
   label) are oracle-resolved: [e_sel] maps a selector id to the set of node
   names it matches, the current lister content is [e_nodes].
   Go map iteration order is modelled as ascending key order; the entry point
   flags the histories in which that order can matter (see Entry.v). *)
From Coq Require Import ZArith List Bool.
Import ListNotations.
Open Scope Z_scope.

(* ---------- finite sets / maps as sorted lists ---------- *)
Fixpoint pmem (x : positive) (l : list positive) : bool :=
  match l with [] => false | y :: r => Pos.eqb x y || pmem x r end.
Fixpoint pins (x : positive) (l : list positive) : list positive :=
  match l with
  | [] => [x]
  | y :: r => match Pos.compare x y with Lt => x :: l | Eq => l | Gt => y :: pins x r end
  end.
Definition punion (a b : list positive) : list positive := fold_left (fun acc x => pins x acc) b a.
Definition pdiff (a b : list positive) : list positive := filter (fun x => negb (pmem x b)) a.
Definition pdel (x : positive) (l : list positive) : list positive := filter (fun y => negb (Pos.eqb x y)) l.
Definition pset_of (l : list positive) : list positive := punion [] l.

Fixpoint aget {A} (k : positive) (l : list (positive * A)) : option A :=
  match l with [] => None | (k', a) :: r => if Pos.eqb k k' then Some a else aget k r end.
Fixpoint aset {A} (k : positive) (a : A) (l : list (positive * A)) : list (positive * A) :=
  match l with
  | [] => [(k, a)]
  | (k', a') :: r => match Pos.compare k k' with
                     | Lt => (k, a) :: l | Eq => (k, a) :: r | Gt => (k', a') :: aset k a r end
  end.
Definition adel {A} (k : positive) (l : list (positive * A)) : list (positive * A) :=
  filter (fun ka => negb (Pos.eqb k (fst ka))) l.

Fixpoint zget {A} (k : Z) (l : list (Z * A)) : option A :=
  match l with [] => None | (k', a) :: r => if Z.eqb k k' then Some a else zget k r end.
Fixpoint zset {A} (k : Z) (a : A) (l : list (Z * A)) : list (Z * A) :=
  match l with
  | [] => [(k, a)]
  | (k', a') :: r => match Z.compare k k' with
                     | Lt => (k, a) :: l | Eq => (k, a) :: r | Gt => (k', a') :: zset k a r end
  end.
Definition zdel {A} (k : Z) (l : list (Z * A)) : list (Z * A) :=
  filter (fun ka => negb (Z.eqb k (fst ka))) l.

(* ---------- objects and state ---------- *)
Inductive member :=
| MNode (n : positive)                    (* type Node, exactMatch *)
| MSel (lbl : bool) (sel : positive)      (* type Node, regexMatch (false) / labelMatch (true) *)
| MHyper (h : positive).                  (* type HyperNode, exactMatch *)

Definition member_eqb (a b : member) : bool :=
  match a, b with
  | MNode x, MNode y => Pos.eqb x y
  | MSel l x, MSel m y => Bool.eqb l m && Pos.eqb x y
  | MHyper x, MHyper y => Pos.eqb x y
  | _, _ => false
  end.
Fixpoint members_eqb (a b : list member) : bool :=
  match a, b with
  | [], [] => true
  | x :: r, y :: s => member_eqb x y && members_eqb r s
  | _, _ => false
  end.

Record hobj := mkObj { o_name : positive; o_tier : Z; o_members : list member }.

Record info := mkInfo {
  i_tier : Z; i_members : list member;
  i_parent : option positive; i_children : list positive; i_deleting : bool }.

Record st := mkSt {
  s_hn : list (positive * info);
  s_tier : list (Z * list positive);
  s_real : list (positive * list positive);
  s_ready : bool;
  s_fuel : bool;  (* sticky: some fuel-bounded loop of the model ran out (never on explored inputs) *)
  s_failed : list positive  (* failedRebuilds (fix D1): HyperNodes whose last rebuildCache failed *) }.

Record env := mkEnv { e_nodes : list positive; e_sel : list (positive * list positive) }.

Definition init_st : st := mkSt [] [] [] true false [].
Definition placeholder : info := mkInfo 0 [] None [] false.

Definition set_hn (s : st) (h : list (positive * info)) : st := mkSt h (s_tier s) (s_real s) (s_ready s) (s_fuel s) (s_failed s).
Definition set_tier (s : st) (t : list (Z * list positive)) : st := mkSt (s_hn s) t (s_real s) (s_ready s) (s_fuel s) (s_failed s).
Definition set_real (s : st) (r : list (positive * list positive)) : st := mkSt (s_hn s) (s_tier s) r (s_ready s) (s_fuel s) (s_failed s).
Definition set_ready (s : st) (b : bool) : st := mkSt (s_hn s) (s_tier s) (s_real s) b (s_fuel s) (s_failed s).
Definition set_failed (s : st) (l : list positive) : st :=
  mkSt (s_hn s) (s_tier s) (s_real s) (s_ready s) (s_fuel s) l.
Definition set_fuel (s : st) : st := mkSt (s_hn s) (s_tier s) (s_real s) (s_ready s) true (s_failed s).

Definition hchildren (ms : list member) : list positive :=
  fold_left (fun acc m => match m with MHyper h => pins h acc | _ => acc end) ms [].
Definition claims (ms : list member) (c : positive) : bool :=
  existsb (fun m => match m with MHyper h => Pos.eqb h c | _ => false end) ms.
Definition has_sel (ms : list member) : bool :=
  existsb (fun m => match m with MSel _ _ => true | _ => false end) ms.

Definition resolve (e : env) (sel : positive) : list positive :=
  match aget sel (e_sel e) with
  | None => []
  | Some m => filter (fun n => pmem n m) (e_nodes e)
  end.

(* ---------- GetAncestors / getParent / GetLCAHyperNode ---------- *)
Definition get_parent (hn : list (positive * info)) (nm : positive) : option positive :=
  let tier := match aget nm hn with Some i => i_tier i | None => -1 end in
  match find (fun ki => Z.ltb tier (i_tier (snd ki)) && claims (i_members (snd ki)) nm) hn with
  | Some (k, _) => Some k
  | None => None
  end.

Definition parent_of (hn : list (positive * info)) (cur : positive) : option positive :=
  match aget cur hn with
  | Some i => match i_parent i with Some p => Some p | None => get_parent hn cur end
  | None => get_parent hn cur
  end.

(* the BFS of GetAncestors enqueues at most one name per round: it is a walk *)
Fixpoint anc_loop (par : positive -> option positive) (fuel : nat) (acc : list positive) (cur : positive)
  : option (list positive) :=
  match fuel with
  | O => None
  | S f => match par cur with
           | None => Some acc
           | Some p => if pmem p acc then Some acc else anc_loop par f (acc ++ [p]) p
           end
  end.
Definition ancestors_gen (par : positive -> option positive) (fuel : nat) (nm : positive) :=
  anc_loop par fuel [nm] nm.

Definition anc_fuel (hn : list (positive * info)) : nat := S (S (length hn + length hn)).
Definition get_ancestors (hn : list (positive * info)) (nm : positive) : option (list positive) :=
  ancestors_gen (parent_of hn) (anc_fuel hn) nm.

Definition lca_lists (la lb : list positive) : option positive := find (fun x => pmem x la) lb.

(* None at the outer level = fuel ran out *)
Definition lca_gen (par : positive -> option positive) (fuel : nat) (a b : option positive)
  : option (option positive) :=
  match a, b with
  | None, _ => Some b
  | _, None => Some a
  | Some x, Some y =>
      match ancestors_gen par fuel x, ancestors_gen par fuel y with
      | Some la, Some lb => Some (lca_lists la lb)
      | _, _ => None
      end
  end.
Definition get_lca (hn : list (positive * info)) (a b : option positive) : option (option positive) :=
  lca_gen (parent_of hn) (anc_fuel hn) a b.

(* ---------- BuildHyperNodeCache ---------- *)
Definition real_get (s : st) (k : positive) : list positive :=
  match aget k (s_real s) with Some l => l | None => [] end.
Definition real_union (s : st) (k : positive) (l : list positive) : st :=
  set_real s (aset k (punion (real_get s k) l) (s_real s)).

Definition upd_info (s : st) (k : positive) (f : info -> info) : st :=
  match aget k (s_hn s) with
  | Some i => set_hn s (aset k (f i) (s_hn s))
  | None => s
  end.
Definition with_parent (p : option positive) (i : info) : info :=
  mkInfo (i_tier i) (i_members i) p (i_children i) (i_deleting i).
Definition with_children (c : list positive) (i : info) : info :=
  mkInfo (i_tier i) (i_members i) (i_parent i) c (i_deleting i).
Definition with_deleting (b : bool) (i : info) : info :=
  mkInfo (i_tier i) (i_members i) (i_parent i) (i_children i) b.
Definition with_obj (t : Z) (ms : list member) (i : info) : info :=
  mkInfo t ms (i_parent i) (i_children i) (i_deleting i).

(* addChild: returns the state and the error flag.  [add_child_prefix] is the code before
   the repair of finding D5 (kept for the _refuted witness). *)
Definition add_child_prefix (s : st) (parent c : positive) : st * bool :=
  let s1 := match aget c (s_hn s) with Some _ => s | None => set_hn s (aset c placeholder (s_hn s)) end in
  let ci := match aget c (s_hn s1) with Some i => i | None => placeholder end in
  match i_parent ci with
  | Some p => if Pos.eqb p parent
              then (upd_info s1 parent (fun i => with_children (pins c (i_children i)) i), false)
              else (s1, true)
  | None =>
      let s2 := upd_info s1 c (with_parent (Some parent)) in
      (upd_info s2 parent (fun i => with_children (pins c (i_children i)) i), false)
  end.

(* repair of D5: a member without an entry (never created, or deleted while still claimed)
   cannot record its parent, so another HyperNode whose spec lists it is a second parent too *)
Definition other_claimers (hn : list (positive * info)) (c exclude : positive) : list positive :=
  map fst (filter (fun ki => negb (Pos.eqb (fst ki) exclude) &&
                             existsb (fun m => match m with MHyper h => Pos.eqb h c | _ => false end)
                                     (i_members (snd ki))) hn).
Definition add_child (s : st) (parent c : positive) : st * bool :=
  match aget c (s_hn s), other_claimers (s_hn s) c parent with
  | None, _ :: _ => (s, true)
  | _, _ => add_child_prefix s parent c
  end.

Definition bres := (st * list positive * bool)%type.   (* state, processed, error *)

Fixpoint build (fuel : nat) (e : env) (s : st) (nm : positive) (processed chain ancset : list positive) : bres :=
  match fuel with
  | O => (set_fuel s, processed, true)
  | S f =>
    if pmem nm chain then (s, processed, true)
    else if pmem nm processed then (s, processed, false)
    else if negb (pmem nm ancset) then (s, processed, false)
    else match aget nm (s_hn s) with
    | None => (s, processed, false)
    | Some i =>
      if i_deleting i then (s, processed, false) else
      let chain' := nm :: chain in
      let '(s', pr', err) :=
        fold_left (fun (acc : bres) m =>
          let '(s1, pr1, e1) := acc in
          if (e1 : bool) then acc else
          match m with
          | MNode n => (real_union s1 nm [n], pr1, false)
          | MSel _ sel => (real_union s1 nm (resolve e sel), pr1, false)
          | MHyper c =>
              let '(s2, e2) := add_child s1 nm c in
              if (e2 : bool) then (s2, pr1, true) else
              let '(s3, pr3, e3) := build f e s2 c pr1 chain' ancset in
              if (e3 : bool) then (s3, pr3, true)
              else (real_union s3 nm (real_get s3 c), pr3, false)
          end) (i_members i) (s, processed, false) in
      if (err : bool) then (s', pr', true) else (s', pins nm pr', false)
    end
  end.

Definition clear_derived (s : st) (a : positive) : st :=
  let s1 := set_real s (adel a (s_real s)) in
  upd_info s1 a (fun i => with_children [] (with_parent None i)).

Definition rebuild_cache_prefix (e : env) (s : st) (nm : positive) : st * bool :=
  match get_ancestors (s_hn s) nm with
  | None => (set_fuel s, true)
  | Some ancs =>
      let s1 := fold_left clear_derived ancs s in
      let '(s2, _, err) :=
        fold_left (fun (acc : bres) a =>
          let '(s0, pr, e0) := acc in
          if (e0 : bool) then acc else
          match aget a (s_hn s0) with
          | None => acc
          | Some _ => build (S (S (length ancs))) e s0 a pr [] ancs
          end) ancs (s1, [], false) in
      (s2, err)
  end.

(* repair of D15: a HyperNode that more than one HyperNode lists has no single ancestor chain
   (GetAncestors would follow just one claimer): its rebuild fails, unless it is being deleted.
   [rebuild_cache_prefix] is the code before the repair. *)
Definition listed_by (hn : list (positive * info)) (c : positive) : list positive :=
  map fst (filter (fun ki => negb (Pos.eqb (fst ki) c) &&
                             existsb (fun m => match m with MHyper h => Pos.eqb h c | _ => false end)
                                     (i_members (snd ki))) hn).
Definition doubly_listed (s : st) (nm : positive) : bool :=
  negb (match aget nm (s_hn s) with Some i => i_deleting i | None => false end) &&
  Nat.ltb 1 (length (listed_by (s_hn s) nm)).
Definition rebuild_cache (e : env) (s : st) (nm : positive) : st * bool :=
  if doubly_listed s nm then (s, true) else rebuild_cache_prefix e s nm.
Definition rebuild_cache_gen (fx : nat) : env -> st -> positive -> st * bool :=
  if Nat.ltb 4 fx then rebuild_cache else rebuild_cache_prefix.

(* ---------- UpdateHyperNode ---------- *)
Definition remove_from_tier (s : st) (nm : positive) (t : Z) : st :=
  match zget t (s_tier s) with
  | None => s
  | Some l => let l' := pdel nm l in
              set_tier s (match l' with [] => zdel t (s_tier s) | _ => zset t l' (s_tier s) end)
  end.

Definition update_tier_set (s : st) (o : hobj) : st :=
  let s1 := match aget (o_name o) (s_hn s) with
            | Some i => if Z.eqb (i_tier i) (o_tier o) then s else remove_from_tier s (o_name o) (i_tier i)
            | None => s
            end in
  let cur := match zget (o_tier o) (s_tier s1) with Some l => l | None => [] end in
  set_tier s1 (zset (o_tier o) (pins (o_name o) cur) (s_tier s1)).

Definition reset_parent (s : st) (k : positive) : st := upd_info s k (with_parent None).

Definition stored_children (s : st) (nm : positive) : list positive :=
  match aget nm (s_hn s) with Some i => hchildren (i_members i) | None => [] end.

(* releaseChild (fix D9): only a member whose Parent points to [parent] is released;
   before the repair every listed member was reset *)
Definition release_child (fx : nat) (parent : positive) (s : st) (c : positive) : st :=
  if Nat.ltb 1 fx then
    match aget c (s_hn s) with
    | Some i => match i_parent i with
                | Some p => if Pos.eqb p parent then reset_parent s c else s
                | None => s end
    | None => s
    end
  else reset_parent s c.

Definition update_parent (fx : nat) (s : st) (o : hobj) : st * list positive :=
  let removed := pdiff (stored_children s (o_name o)) (hchildren (o_members o)) in
  (fold_left (release_child fx (o_name o)) removed s, removed).

Definition claimers (hn : list (positive * info)) (c exclude : positive) : list positive :=
  map fst (filter (fun ki => negb (Pos.eqb (fst ki) exclude) && claims (i_members (snd ki)) c) hn).

(* The code under test carries three repairs (commits "fix:" in /repo, see
   docs/notes/C14.md): D1 failedRebuilds / refreshReady, D3 deleteHyperNode
   drops the deleted name from every Children set, D4 a placeholder entry is
   not "known"; and round 3: D6 an update revives an entry whose deletion failed,
   D9 only adopted members are released.  [fx] is the repair level: 0 = the code
   before any repair, 1 = D1+D3+D4, 2 = + D6+D9, 3 = + D2a, 4 = the code as it is now (kept for the
   _refuted witnesses). *)
Definition fx1 (fx : nat) : bool := Nat.ltb 0 fx.
Definition fx2 (fx : nat) : bool := Nat.ltb 1 fx.
Definition fx3 (fx : nat) : bool := Nat.ltb 2 fx.
Definition fx4 (fx : nat) : bool := Nat.ltb 3 fx.
(* level 5 (D15): rebuild_cache_gen uses the guarded rebuild_cache *)   (* D14: DeleteHyperNode releases the members before rebuilding the ancestors *)   (* round 5: D2a, a listed node that no longer matches is dropped *)
Definition mark_failed (fx : nat) (s : st) (k : positive) : st :=
  set_ready (if fx1 fx then set_failed s (pins k (s_failed s)) else s) false.
Definition unfail (fx : nat) (s : st) (k : positive) : st :=
  if fx1 fx then set_failed s (pdel k (s_failed s)) else s.

(* rebuild a list of names, stopping at the first error *)
Definition rebuild_all (fx : nat) (e : env) (s : st) (l : list positive) : st * bool :=
  fold_left (fun (acc : st * bool) k => let '(s0, e0) := acc in
               if (e0 : bool) then acc else
               let '(s1, e1) := rebuild_cache_gen fx e s0 k in
               if (e1 : bool) then (mark_failed fx s1 k, true) else (unfail fx s1 k, false)) l (s, false).

(* refreshReady: retry the failed rebuilds (ascending names); ready iff none is left *)
Definition refresh_ready (fx : nat) (e : env) (s : st) : st :=
  if fx1 fx then
    let '(s', stop) :=
      fold_left (fun (acc : st * bool) k => let '(s0, e0) := acc in
                   if (e0 : bool) then acc else
                   match aget k (s_hn s0) with
                   | None => (unfail fx s0 k, false)
                   | Some _ => let '(s1, e1) := rebuild_cache_gen fx e s0 k in
                               if (e1 : bool) then (set_ready s1 false, true) else (unfail fx s1 k, false)
                   end) (s_failed s) (s, false) in
    if (stop : bool) then s' else set_ready s' true
  else set_ready s true.

(* the entry carries an object that was delivered (it is in its tier set) *)
Definition known (s : st) (nm : positive) : bool :=
  match aget nm (s_hn s) with
  | Some i => match zget (i_tier i) (s_tier s) with Some l => pmem nm l | None => false end
  | None => false
  end.

Definition upd_gen (fx : nat) (e : env) (s : st) (o : hobj) : st * bool :=
  let nm := o_name o in
  let old := aget nm (s_hn s) in
  let exists_ := match old with Some _ => true | None => false end in
  let deleting := match old with Some i => i_deleting i | None => false end in
  let kn := if fx1 fx then known s nm && negb (fx2 fx && deleting) else exists_ in
  let tierChanged := match old with Some i => if kn then negb (Z.eqb (i_tier i) (o_tier o)) else true | None => true end in
  let membersChanged := match old with Some i => if kn then negb (members_eqb (i_members i) (o_members o)) else true | None => true end in
  if negb (membersChanged || tierChanged) && kn && negb (has_sel (o_members o)) then (s, false)
  else
    let '(s1, freed) := if membersChanged then update_parent fx s o else (s, []) in
    let s2 := if negb kn || tierChanged then update_tier_set s1 o else s1 in
    let s3 := match aget nm (s_hn s2) with
              | Some _ => upd_info s2 nm (fun i => let i' := with_obj (o_tier o) (o_members o) i in
                                             if fx2 fx then with_deleting false i' else i')
              | None => set_hn s2 (aset nm (mkInfo (o_tier o) (o_members o) None [] false) (s_hn s2))
              end in
    if membersChanged || has_sel (o_members o) then
      let '(s4, err) := rebuild_cache_gen fx e s3 nm in
      if err then (mark_failed fx s4 nm, true) else
      let '(s5, err5) :=
        fold_left (fun (acc : st * bool) fr => let '(s0, e0) := acc in
                     if (e0 : bool) then acc else rebuild_all fx e s0 (claimers (s_hn s0) fr nm))
                  freed (unfail fx s4 nm, false) in
      if err5 then (s5, true) else (refresh_ready fx e s5, false)
    else (s3, false).

(* ---------- DeleteHyperNode ---------- *)
Definition drop_child_everywhere (s : st) (nm : positive) : st :=
  set_hn s (map (fun ki => (fst ki, with_children (pdel nm (i_children (snd ki))) (snd ki))) (s_hn s)).

Definition del_gen (fx : nat) (e : env) (s : st) (nm : positive) : st * bool :=
  let s1 := upd_info s nm (with_deleting true) in
  (* repair D14: the members are released BEFORE the ancestors are rebuilt *)
  let s1' := if fx4 fx then fold_left (release_child fx nm) (stored_children s1 nm) s1 else s1 in
  let '(s2, err) := rebuild_cache_gen fx e s1' nm in
  if err then (mark_failed fx s2 nm, true) else
  let s3 := unfail fx s2 nm in
  let s4 := if fx4 fx then s3 else fold_left (release_child fx nm) (stored_children s3 nm) s3 in
  let s5 := match aget nm (s_hn s4) with
            | None => s4
            | Some i => let s' := remove_from_tier (set_hn s4 (adel nm (s_hn s4))) nm (i_tier i) in
                        if fx1 fx then drop_child_everywhere s' nm else s'
            end in
  (refresh_ready fx e s5, false).

(* ---------- node events: cache.triggerUpdateHyperNode ---------- *)
Definition is_sel_leaf (ms : list member) : bool :=
  (* the Go loop breaks at the first HyperNode member: a leaf has none *)
  negb (existsb (fun m => match m with MHyper _ => true | _ => false end) ms) && has_sel ms.

Definition node_matches (e : env) (n : positive) (ms : list member) : bool :=
  existsb (fun m => match m with
                    | MSel false sel => match aget sel (e_sel e) with Some l => pmem n l | None => false end
                    | MSel true sel => pmem n (e_nodes e) &&
                                       match aget sel (e_sel e) with Some l => pmem n l | None => false end
                    | _ => false
                    end) ms.

Definition trigger_gen (fx : nat) (e : env) (s : st) (n : positive) : st * bool :=
  let leaves := filter (fun ki => is_sel_leaf (i_members (snd ki))) (s_hn s) in
  fold_left (fun (acc : st * bool) ki =>
    let '(s0, e0) := acc in
    if (e0 : bool) then acc else
    (* the leaf list was taken before the loop; the object is re-read by name *)
    match aget (fst ki) (s_hn s0) with
    | None => acc
    | Some i => if node_matches e n (i_members i) || (fx3 fx && pmem n (real_get s0 (fst ki)))
                then upd_gen fx e s0 (mkObj (fst ki) (i_tier i) (i_members i)) else acc
    end) leaves (s, false).

Inductive event :=
| EUpd (o : hobj) | EDel (nm : positive) | ENodeAdd (n : positive) | ENodeDel (n : positive).

Definition step_gen (fx : nat) (es : env * st) (ev : event) : env * st :=
  let '(e, s) := es in
  match ev with
  | EUpd o => (e, fst (upd_gen fx e s o))
  | EDel nm => (e, fst (del_gen fx e s nm))
  | ENodeAdd n => let e' := mkEnv (pins n (e_nodes e)) (e_sel e) in (e', fst (trigger_gen fx e' s n))
  | ENodeDel n => let e' := mkEnv (pdel n (e_nodes e)) (e_sel e) in (e', fst (trigger_gen fx e' s n))
  end.

Definition upd := upd_gen 5.
Definition del := del_gen 5.
Definition trigger := trigger_gen 5.
Definition step := step_gen 5.
Definition run (e : env) (evs : list event) : env * st := fold_left step evs (e, init_st).
(* the code before the repairs *)
Definition run_prefix (e : env) (evs : list event) : env * st := fold_left (step_gen 0) evs (e, init_st).
(* the code after the round-2 repairs (D1, D3, D4) and before D6, D9 *)
Definition run_round2 (e : env) (evs : list event) : env * st := fold_left (step_gen 1) evs (e, init_st).
(* the code after D6, D9 and before the round-5 repair D2a *)
Definition run_round4 (e : env) (evs : list event) : env * st := fold_left (step_gen 2) evs (e, init_st).
(* the code before the repair D14 (delete releases the members first) *)
Definition run_round8 (e : env) (evs : list event) : env * st := fold_left (step_gen 3) evs (e, init_st).
(* the code before the repair D15 (rebuild of a doubly listed HyperNode) *)
Definition run_round9 (e : env) (evs : list event) : env * st := fold_left (step_gen 4) evs (e, init_st).

(* from scratch: a fresh view fed only the given objects, in the given order *)
Definition scratch (e : env) (objs : list hobj) : st := snd (run e (map EUpd objs)).

(* ---------- order-dependence flags (see Entry.v) ---------- *)
Definition all_claimed (hn : list (positive * info)) : list positive :=
  flat_map (fun ki => hchildren (i_members (snd ki))) hn.
Fixpoint has_dup (l : list positive) : bool :=
  match l with [] => false | x :: r => pmem x r || has_dup r end.
Definition doubly_claimed (hn : list (positive * info)) : bool := has_dup (all_claimed hn).

Definition frees_many (s : st) (ev : event) : bool :=
  match ev with
  | EUpd o => match aget (o_name o) (s_hn s) with
              | Some i => Nat.ltb 1 (length (pdiff (hchildren (i_members i)) (hchildren (o_members o))))
              | None => false
              end
  | _ => false
  end.

(* ---------- session view and the gradient ---------- *)
Definition top_name : positive := 999983.

Definition add_top (s : st) : list (positive * info) :=
  let topTier := fold_left (fun t kl => if Z.leb t (fst kl) then fst kl + 1 else t) (s_tier s) 1 in
  let roots := map fst (filter (fun ki => match i_parent (snd ki) with None => true | _ => false end) (s_hn s)) in
  let hn' := map (fun ki => match i_parent (snd ki) with
                            | None => (fst ki, with_parent (Some top_name) (snd ki))
                            | _ => ki end) (s_hn s) in
  aset top_name (mkInfo topTier [] None (pset_of roots) false) hn'.

Inductive gres :=
| GErr                                   (* the plugin logs an error and returns nil *)
| GCrash                                 (* nil HyperNodeInfo dereferenced: a child name without an entry *)
| GFuel
| GNoStart                               (* the caller passed a HyperNode that has no entry: not exercised *)
| GOk (l : list (positive * Z)).         (* eligible HyperNodes with their tiers, BFS order *)

Definition tier_of (hn : list (positive * info)) (k : positive) : option Z :=
  match aget k hn with Some i => Some (i_tier i) | None => None end.

(* getHighestAllowedHyperNode: walk the ancestors while tier <= limit *)
Fixpoint highest_allowed_loop (hn : list (positive * info)) (limit : Z) (ancs : list positive)
         (best : option positive) : option (option positive) :=
  match ancs with
  | [] => Some best
  | a :: r => match tier_of hn a with
              | None => None                                   (* "ancestor not found" *)
              | Some t => if Z.ltb limit t then Some best else highest_allowed_loop hn limit r (Some a)
              end
  end.

Inductive root_res := RErr | RFuel | ROk (r : positive).

Definition search_root (hn : list (positive * info)) (start : positive) (limit : Z) (alloc : option positive) : root_res :=
  match alloc with
  | None => ROk start
  | Some a =>
      match get_ancestors hn a with
      | None => RFuel
      | Some ancs =>
          match highest_allowed_loop hn limit ancs None with
          | None | Some None => RErr
          | Some (Some hha) =>
              match get_lca hn (Some start) (Some hha) with
              | None => RFuel
              | Some l =>
                  if match l with Some x => Pos.eqb x hha | None => false end then ROk start
                  else if match l with Some x => Pos.eqb x start | None => false end
                       then match aget hha hn with Some _ => ROk hha | None => RErr end
                       else RErr
              end
          end
      end
  end.

(* BFS over Children; a queue entry is a name whose info may be missing (nil) *)
Fixpoint bfs (hn : list (positive * info)) (limit : Z) (fuel : nat) (queue enq : list positive)
         (acc : list (positive * Z)) : gres :=
  match fuel with
  | O => GFuel
  | S f =>
      match queue with
      | [] => GOk (rev acc)
      | cur :: q =>
          match aget cur hn with
          | None => GCrash
          | Some i =>
              let acc' := if Z.leb (i_tier i) limit then (cur, i_tier i) :: acc else acc in
              let new := filter (fun c => negb (pmem c enq)) (i_children i) in
              bfs hn limit f (q ++ new) (enq ++ new) acc'
          end
      end
  end.

Definition gradient (hn : list (positive * info)) (start : positive) (limit : Z) (alloc : option positive) : gres :=
  match aget start hn with None => GNoStart | Some _ =>
  match search_root hn start limit alloc with
  | RErr => GErr
  | RFuel => GFuel
  | ROk r => bfs hn limit (S (S (length hn + length (flat_map (fun ki => i_children (snd ki)) hn)))) [r] [r] []
  end end.

(* allocate.go:524 / session.go:436: the recorded AllocatedHyperNode after a committed placement *)
Definition new_allocated (hn : list (positive * info)) (prev : option positive) (chosen : positive)
  : option (option positive) := get_lca hn prev (Some chosen).
