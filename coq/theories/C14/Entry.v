(* Entry point of the C14 correspondence: selector + tokens -> tokens.
   sel 1: history of HyperNode / node events -> the view after every event
   sel 2: history, then gradient / LCA / ancestors queries on the session map
   sel >= 100: laws on the implementation's results.
   A history in which Go's map iteration order can influence the result
   (a member claimed by two stored HyperNodes at some point, or an update that
   frees two members at once, or a node event whose handler fails part-way) is answered by [-7] on both sides: such cases
   are checked by the laws only. *)
From Coq Require Import ZArith List Bool.
From V Require Import Base.Codec C14.Model C14.Laws C14.LawsPlace C14.Recover.
Import ListNotations.
Open Scope Z_scope.

Definition tag (i : Z) : list Z := [-100 - i].

(* ---------- decoders ---------- *)
Definition dMember : dec member :=
  let* k := dZ in let* a := dPos in
  match k with
  | 0 => ret (MNode a) | 1 => ret (MSel false a) | 2 => ret (MSel true a) | 3 => ret (MHyper a)
  | _ => fail end.
Definition dObj : dec hobj :=
  let* n := dPos in let* t := dZ in let* ms := dList dMember in ret (mkObj n t ms).
Definition dEvent : dec event :=
  let* k := dZ in
  match k with
  | 0 => let* o := dObj in ret (EUpd o)
  | 1 => let* n := dPos in ret (EDel n)
  | 2 => let* n := dPos in ret (ENodeAdd n)
  | 3 => let* n := dPos in ret (ENodeDel n)
  | _ => fail end.
Definition dEnv : dec env :=
  let* sel := dList (dPair dPos (dList dPos)) in
  let* nodes := dList dPos in
  ret (mkEnv (pset_of nodes) sel).
Definition dOptPos : dec (option positive) :=
  let* x := dZ in if x <=? 0 then ret None else ret (Some (Z.to_pos x)).
Definition dInfo : dec (positive * info) :=
  let* k := dPos in let* t := dZ in let* p := dOptPos in
  let* ch := dList dPos in let* ms := dList dMember in
  ret (k, mkInfo t ms p ch false).
Definition dView : dec st :=
  let* rd := dBool in let* fu := dBool in
  let* hn := dList dInfo in
  let* ti := dList (dPair dZ (dList dPos)) in
  let* re := dList (dPair dPos (dList dPos)) in
  ret (mkSt hn ti re rd fu []).

(* ---------- encoders ---------- *)
Definition eMember (m : member) : list Z :=
  match m with
  | MNode a => [0; Zpos a] | MSel false a => [1; Zpos a] | MSel true a => [2; Zpos a] | MHyper a => [3; Zpos a] end.
Definition eOptPos (o : option positive) : list Z := match o with Some p => [Zpos p] | None => [0] end.
Definition eInfo (ki : positive * info) : list Z :=
  Zpos (fst ki) :: i_tier (snd ki) :: eOptPos (i_parent (snd ki)) ++
  eList ePos (i_children (snd ki)) ++ eList eMember (i_members (snd ki)).
Definition eView (s : st) : list Z :=
  eBool (s_ready s) ++ eBool (s_fuel s) ++
  eList eInfo (s_hn s) ++
  eList (fun kl => fst kl :: eList ePos (snd kl)) (s_tier s) ++
  eList (fun kl => Zpos (fst kl) :: eList ePos (snd kl)) (s_real s).

(* ---------- histories ---------- *)
(* run, collecting the state after every event and the order-dependence flag *)
Fixpoint run_obs (es : env * st) (evs : list event) (i : Z) (amb : bool) (out : list Z) : bool * (env * st) * list Z :=
  match evs with
  | [] => (amb, es, out)
  | ev :: r =>
      let terr := match ev with
                  | ENodeAdd n => snd (trigger (mkEnv (pins n (e_nodes (fst es))) (e_sel (fst es))) (snd es) n)
                  | ENodeDel n => snd (trigger (mkEnv (pdel n (e_nodes (fst es))) (e_sel (fst es))) (snd es) n)
                  | _ => false end in
      let amb1 := amb || frees_many (snd es) ev || terr in
      let es' := step es ev in
      let amb2 := amb1 || doubly_claimed (s_hn (snd es')) in
      run_obs es' r (i + 1) amb2 (out ++ tag i ++ eView (snd es'))
  end.

Definition amb_out : list Z := [-7].

(* ---------- gradient results ---------- *)
Definition group_by_tier (l : list (positive * Z)) : list (Z * list positive) :=
  fold_left (fun acc kt => zset (snd kt) (pins (fst kt) (match zget (snd kt) acc with Some x => x | None => [] end)) acc) l [].
Definition eGres (g : gres) : list Z :=
  match g with
  | GErr => [0] | GCrash => [-666] | GFuel => [-888] | GNoStart => [-5]
  | GOk [] => [0]                      (* Go returns a nil slice: indistinguishable from the error case *)
  | GOk l => 1 :: eList (fun kl => fst kl :: eList ePos (snd kl)) (group_by_tier l)
  end.
Definition eLca (r : option (option positive)) : list Z :=
  match r with None => [-888] | Some o => eOptPos o end.

Definition dQuery := let* s := dPos in let* l := dZ in let* a := dOptPos in ret (s, l, a).

Definition entry (sel : Z) (toks : list Z) : list Z :=
  match sel with
  | 1 => match run_dec (dPair dEnv (dList dEvent)) toks with
         | Some (e, evs) =>
             let '(amb, _, out) := run_obs (e, init_st) evs 1 false [] in
             if (amb : bool) then amb_out else out
         | None => bad_input end
  | 2 => match run_dec (let* e := dEnv in let* evs := dList dEvent in
                        let* qs := dList dQuery in
                        let* ls := dList (dPair dOptPos dOptPos) in
                        let* ans := dList dPos in ret (e, evs, qs, ls, ans)) toks with
         | Some (e, evs, qs, ls, ans) =>
             let '(amb, es, _) := run_obs (e, init_st) evs 1 false [] in
             if (amb : bool) then amb_out else
             let hn := add_top (snd es) in
             tag 1 ++ eList eInfo hn ++
             tag 2 ++ flat_map (fun q => let '(s, l, a) := q in eGres (gradient hn s l a)) qs ++
             tag 3 ++ flat_map (fun ab => eLca (get_lca hn (fst ab) (snd ab))) ls ++
             tag 4 ++ flat_map (fun k => match get_ancestors hn k with
                                         | Some l => eList ePos l | None => [-888] end) ans
         | None => bad_input end
  (* sel 3: a real allocate trace.  Correspondence: the AllocatedHyperNode that
     recoverAllocatedHyperNode rebuilds at session open for the job and every sub-job
     (the allocate action itself is not modelled: its binds are judged by laws 108/109) *)
  | 3 => match run_dec (let* d := dZ in let* leaves := dList (dPair dPos (dList dZ)) in
                        let* job := dList dZ in let* pods := dList (dList dZ) in ret (d, leaves, job, pods)) toks with
         | Some (d, leaves, job, pods) =>
             let policy := nth 2 job 0 in
             let pods' := map (fun p => (nth 0 p 0, Z.to_pos (nth 1 p 1), nth 2 p 0)) pods in
             let '(hn, real) := trace_session d leaves in
             (* a view that is not ready: OpenSession skips the recovery *)
             let pods'' := if Z.eqb (nth 5 job 0) 0 then pods' else map (fun p => (0, snd (fst p), snd p)) pods' in
             let remembered := let a := nth 4 job 0 in if Z.leb a 0 then None else Some (Z.to_pos a) in
             let '(subs, jb0) := recover_with_memory hn real policy pods'' remembered in
             (* on a view that is not ready nothing is removed or recovered: the remembered value stays *)
             let jb := if Z.eqb (nth 5 job 0) 0 then jb0 else Some remembered in
             let table := name_table (scratch (mkEnv [] []) (trace_objs d leaves)) in
             let '(jr, srs) := trace_limits policy (nth 0 job 0) (nth 3 job 0) (nth 7 job 0) (nth 8 job 0) (map fst subs) in
             let '(jl, sls) := adjust false table jr srs in
             let eLim := fun (o : option Z) => match o with Some t => [1; t] | None => [0; 0] end in
             tag 1 ++ eLca jb ++
             tag 2 ++ eList (fun rs => fst rs :: eOptPos (snd rs)) subs ++
             tag 3 ++ eLim jl ++ eList (fun rl => fst rl :: eLim (snd rl)) sls
         | None => bad_input end
  (* ---- laws on the implementation's results ---- *)
  | 101 => match run_dec (let* e := dEnv in let* objs := dList dObj in let* v := dView in ret (e, objs, v)) toks with
           | Some (e, objs, v) => eBool (law_view e objs v) | None => bad_input end
  | 102 => match run_dec (let* objs := dList dObj in let* a := dView in let* b := dView in ret (objs, a, b)) toks with
           | Some (objs, a, b) => eBool (law_fresh objs a b) | None => bad_input end
  | 103 => match run_dec (let* hn := dList dInfo in let* q := dQuery in
                          let* got := dList (dPair dPos dZ) in ret (hn, q, got)) toks with
           | Some (hn, (s, l, a), got) => eBool (law_gradient hn s l a got) | None => bad_input end
  | 104 => match run_dec (let* hn := dList dInfo in let* a := dPos in let* b := dPos in
                          let* r := dOptPos in ret (hn, a, b, r)) toks with
           | Some (hn, a, b, r) => eBool (law_lca hn a b r) | None => bad_input end
  | 105 => match run_dec (let* objs := dList dObj in let* v := dView in ret (objs, v)) toks with
           | Some (objs, v) => eBool (law_ready objs v) | None => bad_input end
  | 111 => match run_dec (let* e := dEnv in let* objs := dList dObj in let* v := dView in ret (e, objs, v)) toks with
           | Some (e, objs, v) => eBool (law_view_nosel e objs v) | None => bad_input end
  | 112 => match run_dec (let* objs := dList dObj in let* a := dView in let* b := dView in ret (objs, a, b)) toks with
           | Some (objs, a, b) => eBool (law_fresh_nosel objs a b) | None => bad_input end
  | 108 => match run_dec (let* hn := dList dInfo in let* real := dList (dPair dPos (dList dPos)) in
                          let* limit := dZ in let* r := dOptPos in let* nodes := dList dPos in
                          ret (hn, real, limit, r, nodes)) toks with
           | Some (hn, real, limit, r, nodes) => eBool (law_placement hn real limit r nodes) | None => bad_input end
  | 109 => match run_dec (let* hn := dList dInfo in let* real := dList (dPair dPos (dList dPos)) in
                          let* limit := dZ in let* r := dOptPos in let* nodes := dList dPos in
                          ret (hn, real, limit, r, nodes)) toks with
           | Some (hn, real, limit, r, nodes) => eBool (law_recorded hn real limit r nodes) | None => bad_input end
  | 113 => match run_dec (let* hn := dList dInfo in let* real := dList (dPair dPos (dList dPos)) in
                          let* limit := dZ in let* r := dOptPos in let* nodes := dList dPos in
                          ret (hn, real, limit, r, nodes)) toks with
           | Some (hn, real, _, r, nodes) => eBool (law_recorded_lowest hn real r nodes) | None => bad_input end
  | 114 => match run_dec (dPair dBool dZ) toks with
           | Some (u, k) => eBool (law_unknown_name_no_bind u k) | None => bad_input end
  | 110 => match run_dec (dPair dBool dZ) toks with
           | Some (nr, k) => eBool (law_not_ready_no_bind nr k) | None => bad_input end
  | 106 => match run_dec (let* objs := dList dObj in let* v := dView in ret (objs, v)) toks with
           | Some (objs, v) => eBool (law_bad_not_ready objs v) | None => bad_input end
  | 107 => match run_dec dBool toks with
           | Some c => eBool (law_no_crash c) | None => bad_input end
  | _ => bad_input
  end.
