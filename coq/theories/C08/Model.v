(* C08 model: the scheduler cache as a mirror of the API objects.

   Modelled code (volcano /repo):
     pkg/scheduler/cache/event_handlers.go
        getOrCreateJob 70-84, addTask 228-251, addPod 271-304, syncTask 306-333,
        updateTask 335-341, allocatedPodInCache 344-354, updatePod 357-372,
        deleteTask 387-412, deletePod 428-449, AddPod/UpdatePod/DeletePod 452-527,
        AddOrUpdateNode 571-595, RemoveNode 597-640 (with the placeholder kept
        by fix e29cb66; [remove_node_prefix] is the handler before the fix),
        setPodGroup / deletePodGroup 870-912, PodGroup and Queue handlers 914-1093
     pkg/scheduler/cache/cache.go
        findJobAndTask 919-933, Evict 938-981, Bind 984-1016, deleteJob /
        processCleanupJob 1127-1176, resyncTask / processResyncTask 1206-1288,
        AddBindTask 1344-1380, Snapshot 1481-1590
     pkg/scheduler/api/node_info.go  NewNodeInfo 153-185, Clone 219-254, SetNode / setNode 342-424
     pkg/scheduler/api/job_info.go   NewTaskInfo 207-254, SetPodGroup / UnsetPodGroup 478-538, Clone 757-819
     pkg/scheduler/api/helpers.go    getTaskStatus 41-68, JobTerminated 138-140
   JobInfo.AddTaskInfo / DeleteTaskInfo and NodeInfo.AddTask / RemoveTask /
   UpdateTask are the functions of Sched/LedgerModel.v (shared with C07).

   The informer is part of the model: [c_store] is the informer's store (the
   last delivered version of every pod), it supplies the "old" object of
   UpdatePod / DeletePod, and it is what syncTask reads back from the API.
   Executable definitions only. *)
From stdpp Require Import gmap.
From Coq Require Import ZArith.
From V Require Import Base.Codec Base.Res Sched.LedgerModel.
Open Scope Z_scope.

(* ---------- API objects ---------- *)

Inductive phase := PPending | PRunning | PSucceeded | PFailed | PUnknown.
Global Instance phase_eq_dec : EqDecision phase.
Proof. solve_decision. Defined.

Record pod := mkPod {
  p_id : positive;
  p_job : option positive;      (* scheduling.k8s.io/group-name annotation *)
  p_node : option positive;     (* spec.nodeName *)
  p_phase : phase;
  p_deleting : bool;            (* metadata.deletionTimestamp != nil *)
  p_role : positive;
  p_prio : Z;
  p_preempt : bool;
  p_req : res;                  (* GetPodResourceRequest(pod) *)
}.

(* the node as NodeInfo sees it after setOversubscription: id and Allocatable =
   NewResource(status.allocatable) + OversubscriptionResource *)
Record nodeobj := mkNodeObj { no_id : positive; no_alloc : res }.

(* a delivered version of a Node object: what the cache reads of it *)
Record nodever := mkNodeVer {
  nv_id : positive;
  nv_base : res;                (* NewResource(status.allocatable) *)
  nv_over_cpu : option Z;       (* annotation volcano.sh/oversubscription-cpu, if present *)
  nv_over_mem : option Z;       (* annotation volcano.sh/oversubscription-memory, if present *)
  nv_over_node : bool;          (* label volcano.sh/oversubscription parses to true *)
  nv_offline : bool;            (* annotation volcano.sh/offline-job-evicting parses to true *)
  nv_zone : Z;                  (* label volcano.sh/revocable-zone (0 = absent) *)
}.

(* what a NodeInfo remembers of the node object besides the ledger *)
Record nattr := mkNAttr {
  na_over_cpu : Z; na_over_mem : Z;     (* OversubscriptionResource *)
  na_over_node : bool; na_offline : bool; na_zone : Z;
  na_obj_alloc : res;                   (* Allocatable as NewNodeInfo(ni.Node) computes it (what Clone uses) *)
}.
Definition no_attr : nattr := mkNAttr 0 0 false false 0 empty_res.
Definition over_res (a : nattr) : res := mkRes (na_over_cpu a) (na_over_mem a) None.

Record pgobj := mkPG {
  g_id : positive;      (* the job id "namespace/name" *)
  g_uid : Z;            (* metadata.uid: a re-created PodGroup has a new one *)
  g_queue : Z;          (* spec.queue; 0 = "" *)
  g_min : Z;            (* spec.minMember *)
}.

(* helpers.go getTaskStatus *)
Definition pod_status (p : pod) : status :=
  match p_phase p with
  | PRunning => if p_deleting p then Releasing else Running
  | PPending => if p_deleting p then Releasing
                else match p_node p with None => Pending | Some _ => Bound end
  | PUnknown => Unknown
  | PSucceeded => Succeeded
  | PFailed => Failed
  end.

(* event_handlers.go isTerminated *)
Definition terminated (s : status) : bool :=
  match s with Succeeded | Failed => true | _ => false end.

(* the job id stored in a TaskInfo of a pod without group annotation is "";
   the model keeps the option at the call sites and stores this number *)
Definition no_job : positive := 1%positive.
Definition default_queue : Z := 1.    (* sc.defaultQueue *)

(* ---------- cache state ---------- *)

Record cjob := mkCJob {
  cj_job : job;          (* the JobInfo ledger part (LedgerModel) *)
  cj_pg : bool;          (* JobInfo.PodGroup != nil *)
  cj_pguid : Z;          (* JobInfo.PgUID (0 = "") *)
  cj_queue : Z;          (* JobInfo.Queue (0 = "") *)
}.

Record cache := mkCache {
  c_store : gmap positive pod;      (* informer store: the last delivered version of every pod *)
  c_gone : gset positive;           (* pods already deleted on the API server whose delete
                                       notification has not been delivered yet (informer lag) *)
  c_heap : gmap positive task;      (* the TaskInfo objects held in JobInfo.Tasks, by pod id (for a pod
                                       without a job: a ghost copy of the task built at its last add) *)
  c_jobs : gmap positive cjob;
  c_nodes : gmap positive node;
  c_nodelist : list positive;       (* sc.NodeList *)
  c_queues : gset positive;
  c_errq : list (positive * positive);   (* errTasks keys (job, task), FIFO without duplicates *)
  c_delq : list (positive * Z);          (* DeletedJobs keys (job, PgUID) *)
  c_nattr : gmap positive nattr;         (* per NodeInfo that has seen a node object *)
}.

Definition empty_cache : cache := mkCache ∅ ∅ ∅ ∅ ∅ [] ∅ [] [] ∅.

Definition with_store (c : cache) (s : gmap positive pod) (g : gset positive) : cache :=
  mkCache s g (c_heap c) (c_jobs c) (c_nodes c) (c_nodelist c) (c_queues c) (c_errq c) (c_delq c) (c_nattr c).
Definition with_hjn (c : cache) (h : gmap positive task) (j : gmap positive cjob) (n : gmap positive node) : cache :=
  mkCache (c_store c) (c_gone c) h j n (c_nodelist c) (c_queues c) (c_errq c) (c_delq c) (c_nattr c).
Definition with_jobs (c : cache) (j : gmap positive cjob) : cache := with_hjn c (c_heap c) j (c_nodes c).
Definition with_nodes (c : cache) (n : gmap positive node) (l : list positive) : cache :=
  mkCache (c_store c) (c_gone c) (c_heap c) (c_jobs c) n l (c_queues c) (c_errq c) (c_delq c) (c_nattr c).
Definition with_queues (c : cache) (q : gset positive) : cache :=
  mkCache (c_store c) (c_gone c) (c_heap c) (c_jobs c) (c_nodes c) (c_nodelist c) q (c_errq c) (c_delq c) (c_nattr c).
Definition with_errq (c : cache) (q : list (positive * positive)) : cache :=
  mkCache (c_store c) (c_gone c) (c_heap c) (c_jobs c) (c_nodes c) (c_nodelist c) (c_queues c) q (c_delq c) (c_nattr c).
Definition with_nattr (c : cache) (a : gmap positive nattr) : cache :=
  mkCache (c_store c) (c_gone c) (c_heap c) (c_jobs c) (c_nodes c) (c_nodelist c) (c_queues c) (c_errq c) (c_delq c) a.
Definition with_delq (c : cache) (q : list (positive * Z)) : cache :=
  mkCache (c_store c) (c_gone c) (c_heap c) (c_jobs c) (c_nodes c) (c_nodelist c) (c_queues c) (c_errq c) q (c_nattr c).

(* workqueue.Add: no duplicate of a waiting key *)
Definition enq {A} `{EqDecision A} (q : list A) (k : A) : list A :=
  if bool_decide (k ∈ q) then q else q ++ [k].

(* ---------- constructors of the shared ledger records (all positional uses are here) ---------- *)

(* NewJobInfo(uid) *)
Definition new_job (jid : positive) : job :=
  mkJob jid 1%positive 0 ∅ 0 ∅ ∅ empty_res empty_res ∅ ∅.
Definition new_cjob (jid : positive) : cjob := mkCJob (new_job jid) false 0 0.

Definition job_with (j : job) (min : Z) (subs : gmap positive subjob) : job :=
  mkJob (j_id j) (j_queue j) min (j_role_min j) (j_role_total j) (j_tasks j) (j_index j)
        (j_alloc j) (j_total j) subs (j_task_sub j).

(* NewNodeInfo(nil) with Name set: the placeholder of addTask / RemoveNode *)
Definition placeholder (nid : positive) : node :=
  mkNode nid false empty_res empty_res empty_res empty_res empty_res ∅.
(* NewNodeInfo(node) *)
Definition fresh_node (o : nodeobj) : node :=
  mkNode (no_id o) true (no_alloc o) empty_res empty_res empty_res (no_alloc o) ∅.

Definition default_sub : positive := 1%positive.
Definition mk_default_sub (min : Z) (ts : gset positive) (ix : index) : subjob := mkSub min ts ix.

Section WithEps.
Variable eps : Z.

(* NewTaskInfo(pod) *)
Definition task_of_pod (p : pod) : task :=
  mkTask (p_id p) (default no_job (p_job p)) default_sub (p_role p) (p_prio p) (p_req p) (p_req p)
         (is_empty eps (p_req p)) (p_preempt p) (pod_status p) (p_node p).

(* ---------- tasks ---------- *)

(* job.Tasks[uid] in sc.Jobs[job] *)
Definition stored_task (c : cache) (jo : option positive) (tid : positive) : option task :=
  match jo with
  | None => None
  | Some j =>
    match c_jobs c !! j with
    | Some cj => if bool_decide (tid ∈ j_tasks (cj_job cj)) then c_heap c !! tid else None
    | None => None
    end
  end.

Definition upd_job (cj : cjob) (j : job) : cjob := mkCJob j (cj_pg cj) (cj_pguid cj) (cj_queue cj).

(* addTask(pi): the placeholder is created before AddTask can fail; on failure
   the job does not get the task.  Returns the cache and whether it succeeded. *)
Definition add_task_nodes (c : cache) (t : task) : gmap positive node * bool :=
  match t_node t with
  | None => (c_nodes c, true)
  | Some n =>
    let ni := default (placeholder n) (c_nodes c !! n) in
    if terminated (t_status t) then (<[n := ni]> (c_nodes c), true)
    else match node_add eps ni t with
         | inl (ni', _) => (<[n := ni']> (c_nodes c), true)
         | inr _ => (<[n := ni]> (c_nodes c), false)
         end
  end.

Definition add_task (c : cache) (jo : option positive) (t : task) : cache * bool :=
  let '(nodes1, ok) := add_task_nodes c t in
  if negb ok then (with_hjn c (c_heap c) (c_jobs c) nodes1, false)
  else
    match jo with
    | None => (with_hjn c (<[t_id t := t]> (c_heap c)) (c_jobs c) nodes1, true)
    | Some j =>
      let cj := default (new_cjob j) (c_jobs c !! j) in
      (with_hjn c (<[t_id t := t]> (c_heap c)) (<[j := upd_job cj (job_add (cj_job cj) t)]> (c_jobs c)) nodes1, true)
    end.

(* deleteTask(ti); [jo] is ti.Job, [t] the TaskInfo passed *)
Definition delete_task_jobs (c : cache) (jo : option positive) (t : task) : gmap positive task * gmap positive cjob :=
  let tid := t_id t in
  match jo with
  | None => (delete tid (c_heap c), c_jobs c)
  | Some j =>
    match c_jobs c !! j with
    | Some cj =>
      if bool_decide (tid ∈ j_tasks (cj_job cj)) then
        match c_heap c !! tid with
        | Some st => (delete tid (c_heap c), <[j := upd_job cj (job_del (cj_job cj) st)]> (c_jobs c))
        | None => (c_heap c, c_jobs c)
        end
      else (c_heap c, c_jobs c)
    | None => (c_heap c, c_jobs c)
    end
  end.

Definition delete_task_nodes (c : cache) (t : task) : gmap positive node :=
  match t_node t with
  | Some n =>
    if terminated (t_status t) then c_nodes c
    else match c_nodes c !! n with
         | Some ni => <[n := node_remove ni (t_id t)]> (c_nodes c)
         | None => c_nodes c
         end
  | None => c_nodes c
  end.

Definition delete_task (c : cache) (jo : option positive) (t : task) : cache :=
  with_hjn c (fst (delete_task_jobs c jo t)) (snd (delete_task_jobs c jo t)) (delete_task_nodes c t).

(* JobTerminated *)
Definition job_terminated (cj : cjob) : bool :=
  negb (cj_pg cj) && bool_decide (j_tasks (cj_job cj) = ∅).

(* deleteJob: queue the key job/PgUID *)
Definition delete_job (c : cache) (jid : positive) (cj : cjob) : cache :=
  with_delq c (enq (c_delq c) (jid, cj_pguid cj)).

(* deletePod(pod) *)
Definition delete_pod (c : cache) (p : pod) : cache :=
  let pi := task_of_pod p in
  let t := default pi (stored_task c (p_job p) (p_id p)) in
  let c1 := delete_task c (p_job p) t in
  match p_job p with
  | Some j => match c_jobs c1 !! j with
              | Some cj => if job_terminated cj then delete_job c1 j cj else c1
              | None => c1
              end
  | None => c1
  end.

(* addPod(pod) *)
Definition add_pod (c : cache) (p : pod) : cache := fst (add_task c (p_job p) (task_of_pod p)).

(* allocatedPodInCache(pod) *)
Definition allocated_in_cache (c : cache) (p : pod) : bool :=
  match stored_task c (p_job p) (p_id p) with
  | Some t => allocated_status (t_status t)
  | None => false
  end.

(* updatePod(old, new) *)
Definition update_pod (c : cache) (old new : pod) : cache :=
  if allocated_in_cache c new && bool_decide (p_node new = None) then c
  else add_pod (delete_pod c old) new.

(* ---------- nodes ---------- *)

(* setNode: the ledger is recomputed from the tasks the NodeInfo holds *)
Definition node_set_acc (n : node) (t : task) : node :=
  let r := t_req t in
  match t_status t with
  | Releasing => node_with n (sub (n_idle n) r) (add (n_used n) r) (add (n_releasing n) r) (n_pipelined n) (n_tasks n)
  | Pipelined => node_with n (n_idle n) (n_used n) (n_releasing n) (add (n_pipelined n) r) (n_tasks n)
  | _ => node_with n (sub (n_idle n) r) (add (n_used n) r) (n_releasing n) (n_pipelined n) (n_tasks n)
  end.

Definition node_reset (n : node) (o : nodeobj) : node :=
  mkNode (n_id n) true (no_alloc o) empty_res empty_res empty_res (no_alloc o) (n_tasks n).

Definition node_set (n : node) (o : nodeobj) : node :=
  fold_left node_set_acc (map snd (map_to_list (n_tasks n))) (node_reset n o).

(* AddOrUpdateNode *)
Definition add_or_update_node (c : cache) (o : nodeobj) : cache :=
  let nid := no_id o in
  let ni := match c_nodes c !! nid with Some ni => node_set ni o | None => fresh_node o end in
  with_nodes c (<[nid := ni]> (c_nodes c))
             (if bool_decide (nid ∈ c_nodelist c) then c_nodelist c else c_nodelist c ++ [nid]).

(* Allocatable of a NodeInfo built from this version alone *)
Definition obj_alloc (v : nodever) : res :=
  add (nv_base v) (mkRes (default 0 (nv_over_cpu v)) (default 0 (nv_over_mem v)) None).

(* AddOrUpdateNode(node): setOversubscription recomputes the oversold amounts and the
   flags from the delivered version alone (after fix d373588) *)
Definition node_attr (v : nodever) : nattr :=
  mkNAttr (default 0 (nv_over_cpu v)) (default 0 (nv_over_mem v))
          (nv_over_node v) (nv_offline v) (nv_zone v) (obj_alloc v).
Definition eff_obj (v : nodever) : nodeobj :=
  mkNodeObj (nv_id v) (add (nv_base v) (over_res (node_attr v))).
Definition node_event (c : cache) (v : nodever) : cache :=
  with_nattr (add_or_update_node c (eff_obj v)) (<[nv_id v := node_attr v]> (c_nattr c)).

(* before fix d373588 OversubscriptionResource was only ever overwritten: the amount of an
   annotation that is no longer there survived from the previous version *)
Definition node_attr_prefix (c : cache) (v : nodever) : nattr :=
  let old := default no_attr (c_nattr c !! nv_id v) in
  mkNAttr (default (na_over_cpu old) (nv_over_cpu v)) (default (na_over_mem old) (nv_over_mem v))
          (nv_over_node v) (nv_offline v) (nv_zone v) (obj_alloc v).
Definition node_event_prefix (c : cache) (v : nodever) : cache :=
  with_nattr (add_or_update_node c (mkNodeObj (nv_id v) (add (nv_base v) (over_res (node_attr_prefix c v)))))
             (<[nv_id v := node_attr_prefix c v]> (c_nattr c)).

Fixpoint remove_first (x : positive) (l : list positive) : list positive :=
  match l with
  | [] => []
  | y :: r => if bool_decide (x = y) then r else y :: remove_first x r
  end.

(* the placeholder RemoveNode leaves for the tasks of the removed node *)
Definition keep_tasks (ni : node) : node :=
  mkNode (n_id ni) false empty_res empty_res empty_res empty_res empty_res (n_tasks ni).

(* RemoveNode (after fix e29cb66) *)
Definition remove_node_ledger (c : cache) (nid : positive) : cache :=
  let l := remove_first nid (c_nodelist c) in
  match c_nodes c !! nid with
  | None => with_nodes c (c_nodes c) l
  | Some ni =>
    if bool_decide (n_tasks ni = ∅) then with_nodes c (delete nid (c_nodes c)) l
    else with_nodes c (<[nid := keep_tasks ni]> (c_nodes c)) l
  end.

(* the NodeInfo object goes away (deleted or replaced by a placeholder): so does what it remembered *)
Definition remove_node (c : cache) (nid : positive) : cache :=
  let c1 := remove_node_ledger c nid in with_nattr c1 (delete nid (c_nattr c1)).

(* RemoveNode as it was before the fix: the NodeInfo is dropped with its tasks *)
Definition remove_node_prefix (c : cache) (nid : positive) : cache :=
  with_nattr (with_nodes c (delete nid (c_nodes c)) (remove_first nid (c_nodelist c))) (delete nid (c_nattr c)).

(* ---------- PodGroups, queues ---------- *)

(* clear(SubJobs); for every task: addTaskToSubJob (no SubGroupPolicy: one default sub-job) *)
Definition rebuild_subs (heap : gmap positive task) (j : job) : gmap positive subjob :=
  let ids := elements (j_tasks j) in
  match ids with
  | [] => ∅
  | _ => {[ default_sub :=
            mk_default_sub (j_min j) (j_tasks j)
              (foldr (fun i ix => match heap !! i with
                                  | Some t => idx_add ix (t_status t) i
                                  | None => ix end) ∅ ids) ]}
  end.

(* setPodGroup *)
Definition set_pod_group (c : cache) (g : pgobj) : cache :=
  let jid := g_id g in
  let cj := default (new_cjob jid) (c_jobs c !! jid) in
  let j1 := job_with (cj_job cj) (g_min g) (j_subs (cj_job cj)) in
  let j2 := if cj_pg cj then j1 else job_with j1 (g_min g) (rebuild_subs (c_heap c) j1) in
  with_jobs c (<[jid := mkCJob j2 true (g_uid g) (if g_queue g =? 0 then default_queue else g_queue g)]> (c_jobs c)).

(* deletePodGroup *)
Definition delete_pod_group (c : cache) (jid : positive) : cache :=
  match c_jobs c !! jid with
  | None => c
  | Some cj =>
    let j1 := job_with (cj_job cj) (j_min (cj_job cj)) (rebuild_subs (c_heap c) (cj_job cj)) in
    let cj1 := mkCJob j1 false (cj_pguid cj) (cj_queue cj) in
    delete_job (with_jobs c (<[jid := cj1]> (c_jobs c))) jid cj1
  end.

(* ---------- repair queues ---------- *)

(* processCleanupJob on one key: (cache, retry) *)
Definition cleanup_one (c : cache) (k : positive * Z) : cache * bool :=
  match c_jobs c !! fst k with
  | None => (c, false)
  | Some cj =>
    if job_terminated cj then
      (if bool_decide (cj_pguid cj = snd k) then with_jobs c (delete (fst k) (c_jobs c)) else c, false)
    else (c, true)
  end.

(* a drain processes the keys waiting at its start; retried keys wait for the next one *)
Definition drain_cleanup (c : cache) : cache :=
  let '(c', keep) :=
    fold_left (fun (acc : cache * list (positive * Z)) k =>
                 let '(c1, retry) := cleanup_one (fst acc) k in
                 (c1, if retry then snd acc ++ [k] else snd acc))
              (c_delq c) (c, []) in
  with_delq c' keep.

(* syncTask(stored): re-read the pod; (cache, ok) *)
Definition api_pod (c : cache) (id : positive) : option pod :=
  if bool_decide (id ∈ c_gone c) then None else c_store c !! id.

Definition sync_task (c : cache) (j : positive) (st : task) : cache * bool :=
  match api_pod c (t_id st) with
  | None => (delete_task c (Some j) st, true)      (* NotFound: no cleanup is queued for the job *)
  | Some p => add_task (delete_task c (Some j) st) (p_job p) (task_of_pod p)
  end.

(* processResyncTask on one key *)
Definition resync_one (c : cache) (k : positive * positive) : cache * bool :=
  match stored_task c (Some (fst k)) (snd k) with
  | None => (c, false)
  | Some st => let '(c1, ok) := sync_task c (fst k) st in (c1, negb ok)
  end.

Definition drain_resync (c : cache) : cache :=
  let '(c', keep) :=
    fold_left (fun (acc : cache * list (positive * positive)) k =>
                 let '(c1, retry) := resync_one (fst acc) k in
                 (c1, if retry then snd acc ++ [k] else snd acc))
              (c_errq c) (with_errq c [], []) in
  with_errq c' (c_errq c' ++ keep).

(* a drain during which every GET of syncTask fails (API server unreachable): processResyncTask
   re-queues the key (retryResyncTask, no bound on the number of retries) and changes nothing;
   a key whose task is no longer held is forgotten before any GET *)
Definition drain_resync_allfail (c : cache) : cache :=
  with_errq c (List.filter (fun k => match stored_task c (Some (fst k)) (snd k) with Some _ => true | None => false end)
                           (c_errq c)).

(* ---------- what the scheduling cycle does to the cache ---------- *)

Inductive opres := RDone | RNoTask | RNoNode | RNoPodGroup | RNodeRefused.

(* JobInfo.UpdateTaskStatus(stored, s) *)
Definition job_set_status (j : job) (st : task) (s : status) : job * task :=
  let t' := set_status st s in (job_add (job_del j st) t', t').

(* AddBindTask for the task [tid] of job [jid] placed on node [nid], followed by
   what BindTask runs for the queued context: the pre-binders, then Binder.Bind.
   [bind_ok] = every pre-binder and the binder succeeded; a failure of either
   (executePreBinds 1437-1455, Bind 984-1016) queues the task for resync,
   whatever the pod status update answers *)
Definition bind_task (c : cache) (jid tid nid : positive) (bind_ok : bool) : cache * opres :=
  match c_jobs c !! jid, stored_task c (Some jid) tid with
  | Some cj, Some st =>
    match c_nodes c !! nid with
    | None => (c, RNoNode)
    | Some ni =>
      (* after fix 8dab8c3: a NodeInfo without Node object (the placeholder of addTask /
         RemoveNode) is refused before the task status is touched; the caller treats it like
         "host does not exist" *)
      if negb (n_has_node ni) then (c, RNoNode) else
      let '(j1, t1) := job_set_status (cj_job cj) st Binding in
      match node_add eps ni t1 with
      | inl (ni', t2) =>
        let c1 := with_hjn c (<[tid := t2]> (c_heap c)) (<[jid := upd_job cj j1]> (c_jobs c)) (<[nid := ni']> (c_nodes c)) in
        (if bind_ok then c1 else with_errq c1 (enq (c_errq c1) (jid, tid)), RDone)
      | inr _ =>
        (* the status is put back; the job ledger went through a delete and an add twice *)
        let '(j2, t2) := job_set_status j1 t1 (t_status st) in
        (with_hjn c (<[tid := t2]> (c_heap c)) (<[jid := upd_job cj j2]> (c_jobs c)) (c_nodes c), RNodeRefused)
      end
    end
  | _, _ => (c, RNoTask)
  end.

(* A BATCH of bind contexts (BATCH_BIND_NUM > 1): AddBindTask for every context, then BindTask on
   the batch: executePreBinds walks the whole batch (a context whose pre-binder fails is resynced
   and skipped, the walk goes on), then Bind sends the remaining ones and resyncs those the binder
   refuses.  [f] is the API outcome of a context: 1 bound; 2, 3 a pre-binder fails; 0, 4 the
   binder fails.  The resync keys of pre-bind failures are queued before those of bind failures. *)
Definition bind_batch (c : cache) (l : list (positive * positive * positive * Z)) : cache * list opres :=
  let '(c1, rs) :=
    fold_left (fun (acc : cache * list opres) x =>
                 let '(j, t, n, _) := x in
                 let '(c', r) := bind_task (fst acc) j t n true in (c', snd acc ++ [r]))
              l (c, []) in
  let accepted := List.filter (fun xr : (positive * positive * positive * Z) * opres =>
                                 match snd xr with RDone => true | _ => false end) (zip l rs) in
  let key (xr : (positive * positive * positive * Z) * opres) := let '(j, t, _, _) := fst xr in (j, t) in
  let fault (xr : (positive * positive * positive * Z) * opres) := let '(_, _, _, f) := fst xr in f in
  let pre := List.filter (fun xr => (fault xr =? 2) || (fault xr =? 3)) accepted in
  let bnd := List.filter (fun xr => (fault xr =? 0) || (fault xr =? 4)) accepted in
  (with_errq c1 (fold_left (fun q xr => enq q (key xr)) (pre ++ bnd) (c_errq c1)), rs).

(* Evict *)
Definition evict_task (c : cache) (jid tid : positive) (evict_ok : bool) : cache * opres :=
  match c_jobs c !! jid, stored_task c (Some jid) tid with
  | Some cj, Some st =>
    match (match t_node st with Some n => c_nodes c !! n | None => None end) with
    | None => (c, RNoNode)
    | Some ni =>
      if negb (cj_pg cj) then (c, RNoPodGroup)
      else
        let '(j1, t1) := job_set_status (cj_job cj) st Releasing in
        match node_update eps ni t1 with
        | inl (ni', t2) =>
          let c1 := with_hjn c (<[tid := t2]> (c_heap c)) (<[jid := upd_job cj j1]> (c_jobs c)) (<[n_id ni := ni']> (c_nodes c)) in
          (if evict_ok then c1 else with_errq c1 (enq (c_errq c1) (jid, tid)), RDone)
        | inr _ => (c, RNodeRefused)    (* klog.Fatalf in UpdateTask: unreachable, see Lemmas *)
        end
    end
  | _, _ => (c, RNoTask)
  end.

(* ---------- Snapshot ---------- *)

(* NodeInfo.Clone: NewNodeInfo(ni.Node), then AddTask for every task (errors ignored) *)
Definition clone_node (alloc : res) (ni : node) : node :=
  fold_left (fun acc t => match node_add eps acc t with inl (acc', _) => acc' | inr _ => acc end)
            (map snd (map_to_list (n_tasks ni)))
            (mkNode (n_id ni) true alloc empty_res empty_res empty_res alloc ∅).
Definition clone_alloc (c : cache) (n : positive) (ni : node) : res :=
  match c_nattr c !! n with Some a => na_obj_alloc a | None => n_alloc ni end.

(* JobInfo.Clone: a fresh JobInfo with the same attributes, AddTaskInfo(task.Clone()) for every task *)
Definition clone_job (heap : gmap positive task) (j : job) : job :=
  fold_left (fun acc i => match heap !! i with Some t => job_add acc t | None => acc end)
            (elements (j_tasks j))
            (mkJob (j_id j) (j_queue j) (j_min j) (j_role_min j) (j_role_total j) ∅ ∅ empty_res empty_res ∅ ∅).

Record snapshot := mkSnap {
  s_heap : gmap positive task;     (* clones of the tasks of the snapshot's jobs *)
  s_jobs : gmap positive cjob;
  s_nodes : gmap positive node;
  s_nodelist : list positive;
  s_queues : gset positive;
}.

(* Snapshot(): ready nodes, queues, jobs that have a PodGroup and whose queue exists *)
Definition in_snapshot (c : cache) (cj : cjob) : bool :=
  cj_pg cj && bool_decide (0 < cj_queue cj) && bool_decide (Z.to_pos (cj_queue cj) ∈ c_queues c).

Definition take_snapshot (c : cache) : snapshot :=
  let js := filter (fun kv => in_snapshot c (snd kv) = true) (c_jobs c) in
  mkSnap (filter (fun kv => bool_decide (map_Exists (fun _ cj => fst kv ∈ j_tasks (cj_job cj)) js)) (c_heap c))
         ((fun cj => upd_job cj (clone_job (c_heap c) (cj_job cj))) <$> js)
         (map_imap (fun n ni => if n_has_node ni then Some (clone_node (clone_alloc c n ni) ni) else None) (c_nodes c))
         (c_nodelist c) (c_queues c).

(* a Binding task is re-checked against Idle when the node is cloned; when the
   ledger is overdrawn the outcome depends on Go's map iteration order *)
Definition clone_hazard (ni : node) : bool :=
  bool_decide (map_Exists (fun _ t => t_status t = Binding) (n_tasks ni)) &&
  negb (bool_decide (- eps < cpu (n_idle ni)) && bool_decide (- eps < mem (n_idle ni)) &&
        map_allb (fun _ v => bool_decide (- eps < v)) (scm (n_idle ni))).

(* ---------- events ---------- *)

Inductive event :=
| EPod (p : pod)              (* informer delivers a pod version: AddPod, or UpdatePod(old, new) *)
| EPodDel (id : positive)     (* DeletePod(last delivered version) *)
| ENode (v : nodever)         (* AddOrUpdateNode *)
| ENodeDel (id : positive)    (* RemoveNode *)
| EPG (g : pgobj)             (* AddPodGroup / UpdatePodGroup *)
| EPGDel (id : positive)      (* DeletePodGroup *)
| EQueue (q : positive)       (* AddQueue / UpdateQueue *)
| EQueueDel (q : positive)
| EDrainCleanup               (* processCleanupJob on every waiting key *)
| EDrainResync                (* processResyncTask on every waiting key *)
| EBind (jid tid nid : positive) (ok : bool)
| EEvict (jid tid : positive) (ok : bool)
| EApiGone (id : positive).   (* the pod is deleted on the API server; DeletePod comes later *)

Definition handle_with (rm : cache -> positive -> cache) (nd : cache -> nodever -> cache) (c : cache) (e : event) : cache :=
  match e with
  | EPod p =>
    let c1 := match c_store c !! p_id p with
              | None => add_pod c p
              | Some old => update_pod c old p
              end in
    with_store c1 (<[p_id p := p]> (c_store c1)) (c_gone c1 ∖ {[p_id p]})
  | EPodDel id =>
    match c_store c !! id with
    | None => c
    | Some old => let c1 := delete_pod c old in with_store c1 (delete id (c_store c1)) (c_gone c1 ∖ {[id]})
    end
  | ENode v => nd c v
  | ENodeDel id => rm c id
  | EPG g => set_pod_group c g
  | EPGDel id => delete_pod_group c id
  | EQueue q => with_queues c ({[q]} ∪ c_queues c)
  | EQueueDel q => with_queues c (c_queues c ∖ {[q]})
  | EDrainCleanup => drain_cleanup c
  | EDrainResync => drain_resync c
  | EBind j t n ok => fst (bind_task c j t n ok)
  | EEvict j t ok => fst (evict_task c j t ok)
  | EApiGone id => if bool_decide (is_Some (c_store c !! id)) then with_store c (c_store c) ({[id]} ∪ c_gone c) else c
  end.

Definition handle := handle_with remove_node node_event.
Definition handle_prefix := handle_with remove_node_prefix node_event.       (* before fix e29cb66 *)
Definition handle_over_prefix := handle_with remove_node node_event_prefix.  (* before fix d373588 *)

Definition run (c : cache) (h : list event) : cache := fold_left handle h c.
Definition run_prefix (c : cache) (h : list event) : cache := fold_left handle_prefix h c.
Definition run_over_prefix (c : cache) (h : list event) : cache := fold_left handle_over_prefix h c.

(* ---------- the final objects of a history and the cache built from them alone ---------- *)

Record objs := mkObjs {
  o_pods : gmap positive pod;
  o_nodes : gmap positive nodever;
  o_pgs : gmap positive pgobj;
  o_queues : gset positive;
}.
Definition no_objs : objs := mkObjs ∅ ∅ ∅ ∅.

Definition apply_event (o : objs) (e : event) : objs :=
  match e with
  | EPod p => mkObjs (<[p_id p := p]> (o_pods o)) (o_nodes o) (o_pgs o) (o_queues o)
  | EPodDel id => mkObjs (delete id (o_pods o)) (o_nodes o) (o_pgs o) (o_queues o)
  | ENode n => mkObjs (o_pods o) (<[nv_id n := n]> (o_nodes o)) (o_pgs o) (o_queues o)
  | ENodeDel id => mkObjs (o_pods o) (delete id (o_nodes o)) (o_pgs o) (o_queues o)
  | EPG g => mkObjs (o_pods o) (o_nodes o) (<[g_id g := g]> (o_pgs o)) (o_queues o)
  | EPGDel id => mkObjs (o_pods o) (o_nodes o) (delete id (o_pgs o)) (o_queues o)
  | EQueue q => mkObjs (o_pods o) (o_nodes o) (o_pgs o) ({[q]} ∪ o_queues o)
  | EQueueDel q => mkObjs (o_pods o) (o_nodes o) (o_pgs o) (o_queues o ∖ {[q]})
  | _ => o
  end.
Definition final_objects (h : list event) : objs := fold_left apply_event h no_objs.

(* the canonical order: pods first (so that every pod arrives before its node
   and its PodGroup), then PodGroups, nodes, queues; ascending ids within a kind *)
Definition build_events (o : objs) : list event :=
  map (fun kv => EPod (snd kv)) (sort_kv (map_to_list (o_pods o))) ++
  map (fun kv => EPG (snd kv)) (sort_kv (map_to_list (o_pgs o))) ++
  map (fun kv => ENode (snd kv)) (sort_kv (map_to_list (o_nodes o))) ++
  map EQueue (sort_pos (elements (o_queues o))).
Definition build (o : objs) : cache := run empty_cache (build_events o).

End WithEps.
