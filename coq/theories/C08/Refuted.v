(* C08: the witness of finding F4 (RemoveNode before fix e29cb66), and concrete
   states showing that the hypotheses of the theorems are satisfiable. *)
From stdpp Require Import gmap.
From Coq Require Import ZArith.
From V Require Import Base.Res Sched.LedgerModel Sched.LedgerCodec C08.Model C08.Laws C08.Lemmas.
Open Scope Z_scope.

Definition eps0 : Z := 2.

Definition node1 : nodever := mkNodeVer 1 (mk_alloc 8000 1073741824 10 0) None None false false 0.
Definition pod1 : pod := mkPod 1 (Some 2%positive) (Some 1%positive) PRunning false 1 0 false (mk_req 2000 1048576 0).

(* node added, running pod added, node removed, node added again *)
Definition f4_history : list event := [ENode node1; EPod pod1; ENodeDel 1; ENode node1].

(* with the handler as it was, the re-added node shows no task and its whole
   allocatable idle, whereas the cache built from the final objects (node1, pod1)
   shows the pod and 2 cpu less; the invariant (a node entry for every task that
   sits on a node) is already lost right after the removal *)
Theorem converges_prefix_refuted :
  exists h, view_eqb (run_prefix eps0 empty_cache h) (build eps0 (final_objects h)) = false /\
            cache_invb (run_prefix eps0 empty_cache h) = false.
Proof. exists f4_history. split; vm_compute; reflexivity. Qed.

Theorem remove_node_prefix_breaks_inv :
  exists c n, cache_invb c = true /\ cache_invb (remove_node_prefix c n) = false.
Proof. exists (run eps0 empty_cache [ENode node1; EPod pod1]), 1%positive. split; vm_compute; reflexivity. Qed.

(* the same history through the repaired handler converges and keeps the invariant *)
Example f4_history_fixed :
  view_eqb (run eps0 empty_cache f4_history) (build eps0 (final_objects f4_history)) = true /\
  cache_invb (run eps0 empty_cache f4_history) = true.
Proof. split; vm_compute; reflexivity. Qed.

(* non-vacuity: a non-trivial state satisfying the hypotheses of the pod theorems *)
Example pod1_ok : pod_ok pod1.
Proof. split; [discriminate|]. split; [|discriminate]. vm_compute. discriminate. Qed.

(* non-vacuity of the convergence theorem: the F4 history and the canonical
   feed of its final objects are both API-consistent histories with the same
   final pods and nodes *)
Example f4_hist_ok : hist_ok eps0 empty_cache f4_history /\ hist_ok eps0 empty_cache (build_events (final_objects f4_history)).
Proof.
  assert (Hp : pod_ok pod1) by exact pod1_ok.
  assert (Ha : sc (nv_base node1) <> None) by (vm_compute; discriminate).
  split.
  - simpl. repeat split; auto; try (intros _; vm_compute; reflexivity). intros old H. vm_compute in H. discriminate.
  - vm_compute build_events. simpl. repeat split; auto; try (intros _; vm_compute; reflexivity). intros old H. vm_compute in H. discriminate.
Qed.

Local Instance pod_eq_dec : EqDecision pod.
Proof. solve_decision. Defined.
Local Instance nodever_eq_dec : EqDecision nodever.
Proof. solve_decision. Defined.

Example f4_same_final :
  o_pods (final_objects f4_history) = o_pods (final_objects (build_events (final_objects f4_history))) /\
  o_nodes (final_objects f4_history) = o_nodes (final_objects (build_events (final_objects f4_history))).
Proof. split; apply (bool_decide_unpack _); vm_compute; exact I. Qed.

(* ---------- finding (repaired by d373588): a removed oversubscription annotation left its amount behind ---------- *)

(* node1 oversold by 2 cpu (annotation volcano.sh/oversubscription-cpu = 2000) *)
Definition node1_over : nodever :=
  mkNodeVer 1 (mk_alloc 8000 1073741824 10 0) (Some (2000 * grid)) None true false 0.

(* the node is delivered with the annotation, then without it: before the fix
   NodeInfo.setOversubscription only ever overwrote OversubscriptionResource, so Allocatable
   and Idle kept the 2 oversold cpu (10 cpu), whereas a cache that only sees the final object
   shows 8 cpu (and so does every Snapshot clone) *)
Definition over_history : list event := [ENode node1_over; ENode node1].

Theorem converges_over_prefix_refuted :
  exists h, view_eqb (run_over_prefix eps0 empty_cache h) (build eps0 (final_objects h)) = false /\
            cache_invb (run_over_prefix eps0 empty_cache h) = true.
Proof. exists over_history. split; vm_compute; reflexivity. Qed.

Example over_history_fixed :
  view_eqb (run eps0 empty_cache over_history) (build eps0 (final_objects over_history)) = true.
Proof. vm_compute. reflexivity. Qed.

(* ---------- non-vacuity of the repair theorem ---------- *)
From V Require Import C08.Lemmas2.

Definition pg2 : pgobj := mkPG 2 1 1 1.
Definition pod_pending : pod := mkPod 1 (Some 2%positive) None PPending false 1 0 false (mk_req 1000 1048576 0).
(* node, PodGroup, pending pod, AddBindTask accepted by the node but the API bind fails *)
Definition fail_history : list event := [ENode node1; EPG pg2; EPod pod_pending; EBind 2 1 1 false].

Example fail_history_ok : hist_ok3 eps0 empty_cache fail_history.
Proof.
  assert (Hp : pod_ok pod_pending) by (split; [discriminate|]; split; [vm_compute; discriminate|discriminate]).
  simpl. repeat split; auto; try discriminate; try (vm_compute; discriminate);
    try (intros old H; vm_compute in H; discriminate).
Qed.

(* the failed bind really leaves the task Binding on the node, queued for resync; the drain puts it back *)
Example fail_history_effect :
  (t_status <$> c_heap (run eps0 empty_cache fail_history) !! 1%positive) = Some Binding /\
  c_errq (run eps0 empty_cache fail_history) = [(2%positive, 1%positive)] /\
  (t_status <$> c_heap (run eps0 empty_cache (fail_history ++ [EDrainResync])) !! 1%positive) = Some Pending.
Proof. repeat split; vm_compute; reflexivity. Qed.

(* ---------- audit round ---------- *)
From V Require Import C08.Lemmas3.

(* the state the reviewer used: node1 with the running pod1 whose job has no PodGroup.  The
   node of the snapshot holds a copy of pod1's task, its job is not in the snapshot: read with
   [s_heap] alone the snapshot fails the consistency law, read with the heap the codec rebuilds
   from a real dump (tasks of its jobs + copies held by its nodes) it satisfies it *)
Definition c_w1 : cache := run eps0 empty_cache [ENode node1; EPod pod1].
Example snapshot_law_needs_node_copies :
  law_snapshot c_w1 (take_snapshot eps0 c_w1) = false /\
  law_snapshot c_w1 (full_snapshot eps0 c_w1) = true /\
  law_snapshot (run eps0 empty_cache fail_history) (full_snapshot eps0 (run eps0 empty_cache fail_history)) = true.
Proof. repeat split; vm_compute; reflexivity. Qed.

(* a mix of outcomes: one bind succeeds at the API (pod 1), another fails (pod 2) *)
Definition pod_pending2 : pod := mkPod 2 (Some 2%positive) None PPending false 1 0 false (mk_req 500 1048576 0).
Definition mixed_history : list event :=
  [ENode node1; EPG pg2; EPod pod_pending; EPod pod_pending2; EBind 2 1 1 true; EBind 2 2 1 false].
Example mixed_history_ok : hist_ok4 eps0 empty_cache mixed_history.
Proof.
  assert (Hp : pod_ok pod_pending) by (split; [discriminate|]; split; [vm_compute; discriminate|discriminate]).
  assert (Hp2 : pod_ok pod_pending2) by (split; [discriminate|]; split; [vm_compute; discriminate|discriminate]).
  simpl. repeat split; auto; try discriminate; try (vm_compute; discriminate);
    try (intros old H; vm_compute in H; discriminate).
Qed.
(* after the drain the failed one is Pending again, the bound one is still Binding and is the
   only task awaiting its pod notification *)
Example mixed_history_effect :
  let c := run eps0 empty_cache (mixed_history ++ [EDrainResync]) in
  (t_status <$> c_heap c !! 1%positive) = Some Binding /\
  (t_status <$> c_heap c !! 2%positive) = Some Pending /\
  await_run eps0 empty_cache ∅ mixed_history = {[1%positive]}.
Proof. repeat split; try (vm_compute; reflexivity). apply (bool_decide_unpack _). vm_compute. exact I. Qed.

(* non-vacuity of the whole-alphabet convergence theorem: the pod arrives before its node and
   PodGroup and a bind attempt fails at the API, vs. the objects delivered in another order
   without any cycle step *)
Definition conv_h1 : list event := [EPod pod_pending; EPG pg2; ENode node1; EBind 2 1 1 false; EDrainCleanup].
Definition conv_h2 : list event := [ENode node1; EPG pg2; EPod pod_pending].
Example conv_hyps :
  hist_ok4 eps0 empty_cache conv_h1 /\ hist_ok4 eps0 empty_cache conv_h2 /\
  quiescent eps0 conv_h1 /\ quiescent eps0 conv_h2 /\
  o_pods (final_objects conv_h1) = o_pods (final_objects conv_h2) /\
  o_nodes (final_objects conv_h1) = o_nodes (final_objects conv_h2).
Proof.
  assert (Hp : pod_ok pod_pending) by (split; [discriminate|]; split; [vm_compute; discriminate|discriminate]).
  split; [|split].
  - simpl. repeat split; auto; try discriminate; try (vm_compute; discriminate);
      try (intros old H; vm_compute in H; discriminate).
  - simpl. repeat split; auto; try discriminate; try (vm_compute; discriminate);
      try (intros old H; vm_compute in H; discriminate).
  - repeat split; apply (bool_decide_unpack _); vm_compute; exact I.
Qed.
(* and the failed bind is really visible before the final drain *)
Example conv_h1_diverges_before_drain :
  (t_status <$> c_heap (run eps0 empty_cache conv_h1) !! 1%positive) = Some Binding.
Proof. vm_compute. reflexivity. Qed.

(* second audit: a non-trivial instance of quiescence -- a successful bind acknowledged by the
   pod notification that carries the node name, a failed bind, a pod vanishing from the API
   server before its resync, its delete notification -- against plain delivery in another order *)
Definition pod_bound1 : pod := mkPod 1 (Some 2%positive) (Some 1%positive) PPending false 1 0 false (mk_req 1000 1048576 0).
Definition conv_h3 : list event :=
  [ENode node1; EPG pg2; EPod pod_pending; EPod pod_pending2; EBind 2 1 1 true; EPod pod_bound1;
   EBind 2 2 1 false; EApiGone 2; EDrainResync; EPodDel 2].
Definition conv_h4 : list event := [EPod pod_bound1; ENode node1; EPG pg2].
Example conv_hyps_nontrivial :
  hist_ok4 eps0 empty_cache conv_h3 /\ hist_ok4 eps0 empty_cache conv_h4 /\
  quiescent eps0 conv_h3 /\ quiescent eps0 conv_h4 /\
  fold_left pend_syn conv_h3 ∅ = ∅ /\
  o_pods (final_objects conv_h3) = o_pods (final_objects conv_h4) /\
  o_nodes (final_objects conv_h3) = o_nodes (final_objects conv_h4) /\
  snd (bind_task eps0 (run eps0 empty_cache [ENode node1; EPG pg2; EPod pod_pending; EPod pod_pending2]) 2 1 1 true) = RDone.
Proof.
  assert (Hp : pod_ok pod_pending) by (split; [discriminate|]; split; [vm_compute; discriminate|discriminate]).
  assert (Hp2 : pod_ok pod_pending2) by (split; [discriminate|]; split; [vm_compute; discriminate|discriminate]).
  assert (Hp3 : pod_ok pod_bound1) by (split; [discriminate|]; split; [vm_compute; discriminate|discriminate]).
  split; [|split].
  - simpl. repeat split; auto; try discriminate; try (vm_compute; discriminate);
      try (intros old H; vm_compute in H; first [discriminate | injection H as <-; intros Hn; vm_compute in Hn; congruence]).
  - simpl. repeat split; auto; try discriminate; try (vm_compute; discriminate);
      try (intros old H; vm_compute in H; discriminate).
  - repeat split; try (apply (bool_decide_unpack _); vm_compute; exact I); vm_compute; reflexivity.
Qed.

(* ---------- third audit (E22): the batch walk that stops at the first pre-bind failure ---------- *)

Definition pod_n (i : positive) : pod := mkPod i (Some 2%positive) None PPending false 1 0 false (mk_req 500 1048576 0).
Definition batch_state : cache := run eps0 empty_cache [ENode node1; EPG pg2; EPod (pod_n 1); EPod (pod_n 2); EPod (pod_n 3)].
(* three contexts: the pre-binder of the first fails, the second is bound, the binder refuses the third *)
Definition batch_ctxs : list (positive * positive * positive * Z) :=
  [(2%positive, 1%positive, 1%positive, 2); (2%positive, 2%positive, 1%positive, 1); (2%positive, 3%positive, 1%positive, 0)].

(* the walk with `break` (seed C01-r7-1) satisfies the seventh round's statement
   (bind_batch_break_same_but_errq) but not the queue clause of bind_batch_errq: the failed bind of
   the third context is queued by the history of single binds and by bind_batch, not by it *)
Theorem bind_batch_break_refuted :
  exists c l, faults_ok l /\
    snd (bind_batch_break eps0 c l) = [RDone; RDone; RDone] /\
    exists k, k ∈ c_errq (run eps0 c (batch_events l)) /\ k ∈ c_errq (fst (bind_batch eps0 c l)) /\
              k ∉ c_errq (fst (bind_batch_break eps0 c l)).
Proof.
  exists batch_state, batch_ctxs.
  split; [unfold faults_ok, batch_ctxs; repeat (apply Forall_cons; split; [simpl; split; discriminate|]); apply Forall_nil; exact Logic.I|].
  split; [vm_compute; reflexivity|].
  exists (2%positive, 3%positive).
  assert (E1 : c_errq (run eps0 batch_state (batch_events batch_ctxs)) = [(2%positive, 1%positive); (2%positive, 3%positive)]) by (vm_compute; reflexivity).
  assert (E2 : c_errq (fst (bind_batch eps0 batch_state batch_ctxs)) = [(2%positive, 1%positive); (2%positive, 3%positive)]) by (vm_compute; reflexivity).
  assert (E3 : c_errq (fst (bind_batch_break eps0 batch_state batch_ctxs)) = [(2%positive, 1%positive)]) by (vm_compute; reflexivity).
  rewrite E1, E2, E3. split; [right; left|]. split; [right; left|]. intros H. apply elem_of_list_singleton in H. discriminate.
Qed.

(* non-vacuity of bind_batch_errq / bind_batch_law105: the queue clause has members *)
Example batch_failed_keys :
  failed_keys batch_ctxs (snd (bind_batch eps0 batch_state batch_ctxs)) = [(2%positive, 1%positive); (2%positive, 3%positive)].
Proof. vm_compute. reflexivity. Qed.

