(* C08, PriorityClass part of the cache: model and proofs.

   Modelled code: pkg/scheduler/cache/event_handlers.go AddPriorityClass /
   UpdatePriorityClass / DeletePriorityClass, addPriorityClass / deletePriorityClass
   (after fix: the default is the best class marked globalDefault, recomputed when the
   default goes away), and the part of Snapshot() that reads them (cache.go cloneJob:
   job.Priority = priority class of PodGroup.Spec.PriorityClassName, else defaultPriority).

   The state is kept beside [cache] (the handlers touch nothing else): the
   classes, the current default, and the priorityClassName of every job's PodGroup. *)
From stdpp Require Import gmap.
From Coq Require Import ZArith Lia.
Open Scope Z_scope.

Record pcobj := mkPC { pc_id : positive; pc_value : Z; pc_global : bool }.
Global Instance pcobj_eq_dec : EqDecision pcobj.
Proof. solve_decision. Defined.

Record pstate := mkPS {
  ps_classes : gmap positive pcobj;     (* sc.PriorityClasses, by name *)
  ps_default : option pcobj;            (* sc.defaultPriorityClass (defaultPriority = its value, 0 if nil) *)
  ps_pgclass : gmap positive Z;         (* job -> PodGroup.Spec.PriorityClassName (0 = "") *)
}.
Definition empty_ps : pstate := mkPS ∅ None ∅.

(* which of two classes marked globalDefault is THE default: the lower value, then the
   lower name (upstream's admission plugin picks the lowest value as well) *)
Definition better (a b : pcobj) : bool :=
  bool_decide (pc_value a < pc_value b) ||
  (bool_decide (pc_value a = pc_value b) && bool_decide ((pc_id a < pc_id b)%positive)).

Definition pick (pc : pcobj) (acc : option pcobj) : option pcobj :=
  if pc_global pc then
    match acc with
    | None => Some pc
    | Some b => if better pc b then Some pc else Some b
    end
  else acc.

(* the default recomputed from the classes the cache holds *)
Definition pick_default (m : gmap positive pcobj) : option pcobj :=
  fold_right pick None (map snd (map_to_list m)).

(* addPriorityClass *)
Definition prio_add (s : pstate) (pc : pcobj) : pstate :=
  mkPS (<[pc_id pc := pc]> (ps_classes s)) (pick pc (ps_default s)) (ps_pgclass s).

(* deletePriorityClass(pc): [pc] is the object the informer hands over *)
Definition prio_del (s : pstate) (pc : pcobj) : pstate :=
  let m := delete (pc_id pc) (ps_classes s) in
  mkPS m
       (match ps_default s with
        | Some d => if bool_decide (pc_id d = pc_id pc) then pick_default m else Some d
        | None => None
        end)
       (ps_pgclass s).

(* before the fix: the last class added with globalDefault wins; deleting ANY class marked
   globalDefault clears the default, whatever other default class is still there *)
Definition prio_add_prefix (s : pstate) (pc : pcobj) : pstate :=
  mkPS (<[pc_id pc := pc]> (ps_classes s)) (if pc_global pc then Some pc else ps_default s) (ps_pgclass s).
Definition prio_del_prefix (s : pstate) (pc : pcobj) : pstate :=
  mkPS (delete (pc_id pc) (ps_classes s)) (if pc_global pc then None else ps_default s) (ps_pgclass s).

Inductive pevent :=
| PClass (pc : pcobj)                 (* informer delivers a version: Add, or Update(old, new) = delete old; add new *)
| PClassDel (id : positive)           (* Delete(last delivered version) *)
| PPodGroup (job : positive) (cls : Z) (* a PodGroup version names a priority class (0 = none) *)
| PPodGroupDel (job : positive).

Definition phandle_with (addf delf : pstate -> pcobj -> pstate) (s : pstate) (e : pevent) : pstate :=
  match e with
  | PClass pc =>
    match ps_classes s !! pc_id pc with
    | Some old => addf (delf s old) pc
    | None => addf s pc
    end
  | PClassDel id =>
    match ps_classes s !! id with
    | Some old => delf s old
    | None => s
    end
  | PPodGroup j cls => mkPS (ps_classes s) (ps_default s) (<[j := cls]> (ps_pgclass s))
  | PPodGroupDel j => mkPS (ps_classes s) (ps_default s) (delete j (ps_pgclass s))
  end.
Definition phandle := phandle_with prio_add prio_del.
Definition phandle_prefix := phandle_with prio_add_prefix prio_del_prefix.
Definition prun (s : pstate) (h : list pevent) : pstate := fold_left phandle h s.
Definition prun_prefix (s : pstate) (h : list pevent) : pstate := fold_left phandle_prefix h s.

(* Snapshot(): the priority of a job that has a PodGroup *)
Definition default_priority (s : pstate) : Z :=
  match ps_default s with Some d => pc_value d | None => 0 end.
Definition job_priority (s : pstate) (j : positive) : Z :=
  match ps_pgclass s !! j with
  | Some cls =>
    if 0 <? cls then
      match ps_classes s !! Z.to_pos cls with
      | Some pc => pc_value pc
      | None => default_priority s
      end
    else default_priority s
  | None => default_priority s
  end.

(* the final PriorityClass objects of a history *)
Definition papply (m : gmap positive pcobj) (e : pevent) : gmap positive pcobj :=
  match e with
  | PClass pc => <[pc_id pc := pc]> m
  | PClassDel id => delete id m
  | _ => m
  end.
Definition papply_pg (m : gmap positive Z) (e : pevent) : gmap positive Z :=
  match e with
  | PPodGroup j cls => <[j := cls]> m
  | PPodGroupDel j => delete j m
  | _ => m
  end.

(* ---------- proofs ---------- *)

(* [b] is the best class marked globalDefault among [m] *)
Definition is_best (m : gmap positive pcobj) (o : option pcobj) : Prop :=
  match o with
  | Some b => m !! pc_id b = Some b /\ pc_global b = true /\
              forall i x, m !! i = Some x -> pc_global x = true -> x = b \/ better b x = true
  | None => forall i x, m !! i = Some x -> pc_global x = false
  end.

Definition keyed (m : gmap positive pcobj) : Prop := forall i x, m !! i = Some x -> pc_id x = i.

Lemma better_total a b : pc_id a <> pc_id b -> better a b = true \/ better b a = true.
Proof.
  intros Hne. unfold better. repeat case_bool_decide; simpl; auto; try lia.
Qed.

Lemma better_trans a b c : better a b = true -> better b c = true -> better a c = true.
Proof. unfold better. repeat case_bool_decide; simpl; intros; auto; try lia; try discriminate. Qed.

Lemma better_asym a b : better a b = true -> better b a = true -> False.
Proof. unfold better. repeat case_bool_decide; simpl; intros; try lia; try discriminate. Qed.

(* the best class is unique *)
Lemma is_best_unique m o o' : keyed m -> is_best m o -> is_best m o' -> o = o'.
Proof.
  intros Hk. destruct o as [b|], o' as [b'|]; simpl.
  - intros (H1 & H2 & H3) (H1' & H2' & H3').
    destruct (H3 _ _ H1' H2') as [->|Hb]; [reflexivity|].
    destruct (H3' _ _ H1 H2) as [->|Hb']; [reflexivity|]. exfalso. exact (better_asym _ _ Hb Hb').
  - intros (H1 & H2 & _) H'. rewrite (H' _ _ H1) in H2. discriminate.
  - intros H (H1 & H2 & _). rewrite (H _ _ H1) in H2. discriminate.
  - reflexivity.
Qed.

Lemma pick_best m o pc :
  keyed m -> m !! pc_id pc = None -> is_best m o -> is_best (<[pc_id pc := pc]> m) (pick pc o).
Proof.
  intros Hk Hn Hb. unfold pick. destruct (pc_global pc) eqn:Hg.
  - destruct o as [b|]; simpl in *.
    + destruct Hb as (H1 & H2 & H3).
      assert (Hne : pc_id pc <> pc_id b) by (intros E; rewrite E in Hn; congruence).
      destruct (better pc b) eqn:Hpb; simpl.
      * split; [apply lookup_insert|]. split; [exact Hg|]. intros i x Hx Hgx.
        destruct (decide (i = pc_id pc)) as [->|Hne2].
        -- rewrite lookup_insert in Hx. injection Hx as <-. auto.
        -- rewrite lookup_insert_ne in Hx by congruence. right.
           destruct (H3 i x Hx Hgx) as [->|Hbx]; [exact Hpb|exact (better_trans _ _ _ Hpb Hbx)].
      * split; [rewrite lookup_insert_ne by congruence; exact H1|]. split; [exact H2|]. intros i x Hx Hgx.
        destruct (decide (i = pc_id pc)) as [->|Hne2].
        -- rewrite lookup_insert in Hx. injection Hx as <-. right.
           destruct (better_total b pc ltac:(congruence)) as [Hy|Hy]; [exact Hy|congruence].
        -- rewrite lookup_insert_ne in Hx by congruence. exact (H3 i x Hx Hgx).
    + split; [apply lookup_insert|]. split; [exact Hg|]. intros i x Hx Hgx.
      destruct (decide (i = pc_id pc)) as [->|Hne2].
      * rewrite lookup_insert in Hx. injection Hx as <-. auto.
      * rewrite lookup_insert_ne in Hx by congruence. rewrite (Hb i x Hx) in Hgx. discriminate.
  - destruct o as [b|]; simpl in *.
    + destruct Hb as (H1 & H2 & H3).
      assert (Hne : pc_id pc <> pc_id b) by (intros E; rewrite E in Hn; congruence).
      split; [rewrite lookup_insert_ne by congruence; exact H1|]. split; [exact H2|]. intros i x Hx Hgx.
      destruct (decide (i = pc_id pc)) as [->|Hne2].
      * rewrite lookup_insert in Hx. injection Hx as <-. congruence.
      * rewrite lookup_insert_ne in Hx by congruence. exact (H3 i x Hx Hgx).
    + intros i x Hx. destruct (decide (i = pc_id pc)) as [->|Hne2].
      * rewrite lookup_insert in Hx. injection Hx as <-. exact Hg.
      * rewrite lookup_insert_ne in Hx by congruence. exact (Hb i x Hx).
Qed.

Definition best_of_list (l : list pcobj) (o : option pcobj) : Prop :=
  match o with
  | Some b => b ∈ l /\ pc_global b = true /\ forall x, x ∈ l -> pc_global x = true -> x = b \/ better b x = true
  | None => forall x, x ∈ l -> pc_global x = false
  end.

Lemma fold_pick_best l :
  (forall x y, x ∈ l -> y ∈ l -> pc_id x = pc_id y -> x = y) -> best_of_list l (fold_right pick None l).
Proof.
  induction l as [|a l IH]; intros Hd; simpl.
  - intros x Hx. inversion Hx.
  - assert (IH' : best_of_list l (fold_right pick None l)).
    { apply IH. intros x y Hx Hy. apply Hd; right; assumption. }
    unfold pick at 1. destruct (pc_global a) eqn:Hg.
    + destruct (fold_right pick None l) as [b|]; simpl in *.
      * destruct IH' as (H1 & H2 & H3).
        destruct (decide (a = b)) as [->|Hab].
        { destruct (better b b); (split; [left|split; [exact H2|]]);
            intros x Hx Hgx; apply elem_of_cons in Hx; destruct Hx as [->|Hx]; auto. }
        assert (Hne : pc_id a <> pc_id b).
        { intros E. apply Hab. apply Hd; [left|right; exact H1|exact E]. }
        destruct (better a b) eqn:Hpb; simpl.
        -- split; [left|]. split; [exact Hg|]. intros x Hx Hgx. apply elem_of_cons in Hx. destruct Hx as [->|Hx]; [auto|].
           right. destruct (H3 x Hx Hgx) as [->|Hbx]; [exact Hpb|exact (better_trans _ _ _ Hpb Hbx)].
        -- split; [right; exact H1|]. split; [exact H2|]. intros x Hx Hgx. apply elem_of_cons in Hx. destruct Hx as [->|Hx].
           ++ right. destruct (better_total b a ltac:(congruence)) as [Hy|Hy]; [exact Hy|congruence].
           ++ exact (H3 x Hx Hgx).
      * split; [left|]. split; [exact Hg|]. intros x Hx Hgx. apply elem_of_cons in Hx. destruct Hx as [->|Hx]; [auto|].
        rewrite (IH' x Hx) in Hgx. discriminate.
    + destruct (fold_right pick None l) as [b|]; simpl in *.
      * destruct IH' as (H1 & H2 & H3). split; [right; exact H1|]. split; [exact H2|].
        intros x Hx Hgx. apply elem_of_cons in Hx. destruct Hx as [->|Hx]; [congruence|exact (H3 x Hx Hgx)].
      * intros x Hx. apply elem_of_cons in Hx. destruct Hx as [->|Hx]; [exact Hg|exact (IH' x Hx)].
Qed.

Lemma pick_default_best m : keyed m -> is_best m (pick_default m).
Proof.
  intros Hk. unfold pick_default.
  assert (Hin : forall x, x ∈ map snd (map_to_list m) <-> exists i, m !! i = Some x).
  { intros x. rewrite elem_of_list_fmap. split.
    - intros ([i y] & -> & Hy). apply elem_of_map_to_list in Hy. eauto.
    - intros (i & Hi). exists (i, x). split; [reflexivity|]. apply elem_of_map_to_list. exact Hi. }
  pose proof (fold_pick_best (map snd (map_to_list m))) as H.
  assert (Hd : forall x y, x ∈ map snd (map_to_list m) -> y ∈ map snd (map_to_list m) -> pc_id x = pc_id y -> x = y).
  { intros x y Hx Hy E. apply Hin in Hx. apply Hin in Hy. destruct Hx as (i & Hi). destruct Hy as (j & Hj).
    pose proof (Hk _ _ Hi). pose proof (Hk _ _ Hj). assert (i = j) as -> by congruence. congruence. }
  specialize (H Hd). destruct (fold_right pick None (map snd (map_to_list m))) as [b|]; simpl in *.
  - destruct H as (H1 & H2 & H3). apply Hin in H1. destruct H1 as (i & Hi).
    split; [rewrite (Hk _ _ Hi); exact Hi|]. split; [exact H2|]. intros j x Hx Hgx. apply H3; [|exact Hgx]. apply Hin. eauto.
  - intros i x Hx. apply H. apply Hin. eauto.
Qed.

(* the invariant of the PriorityClass part: the classes are keyed by name and the default is
   the best class marked globalDefault *)
Definition PInv (s : pstate) : Prop := keyed (ps_classes s) /\ is_best (ps_classes s) (ps_default s).

Lemma pinv_empty : PInv empty_ps.
Proof. split; [intros i x Hx|intros i x Hx]; simpl in Hx; rewrite lookup_empty in Hx; discriminate. Qed.

Lemma prio_add_inv s pc : PInv s -> ps_classes s !! pc_id pc = None -> PInv (prio_add s pc).
Proof.
  intros [Hk Hb] Hn. split; simpl.
  - intros i x Hx. destruct (decide (i = pc_id pc)) as [->|Hne].
    + rewrite lookup_insert in Hx. congruence.
    + rewrite lookup_insert_ne in Hx by congruence. exact (Hk i x Hx).
  - apply pick_best; auto.
Qed.

Lemma prio_del_inv s old : PInv s -> ps_classes s !! pc_id old = Some old -> PInv (prio_del s old).
Proof.
  intros [Hk Hb] Hold.
  assert (Hk' : keyed (delete (pc_id old) (ps_classes s))).
  { intros i x Hx. rewrite lookup_delete_Some in Hx. apply Hk. tauto. }
  split; [exact Hk'|]. simpl. destruct (ps_default s) as [d|] eqn:Hd; simpl in *.
  - case_bool_decide as E.
    + apply pick_default_best. exact Hk'.
    + destruct Hb as (H1 & H2 & H3). split; [rewrite lookup_delete_ne by congruence; exact H1|]. split; [exact H2|].
      intros i x Hx. rewrite lookup_delete_Some in Hx. apply (H3 i x). tauto.
  - intros i x Hx. rewrite lookup_delete_Some in Hx. apply (Hb i x). tauto.
Qed.

(* Theorem: every PriorityClass / PodGroup notification keeps the invariant and the classes
   and class names the cache holds are those of the final objects *)
Theorem phandle_inv s e :
  PInv s -> PInv (phandle s e) /\
  ps_classes (phandle s e) = papply (ps_classes s) e /\ ps_pgclass (phandle s e) = papply_pg (ps_pgclass s) e.
Proof.
  intros I. destruct e as [pc|id|j cls|j]; unfold phandle, phandle_with; simpl.
  - destruct (ps_classes s !! pc_id pc) as [old|] eqn:Hold.
    + assert (Hido : pc_id old = pc_id pc) by (apply (proj1 I); exact Hold).
      rewrite <- Hido in Hold.
      pose proof (prio_del_inv s old I Hold) as I1.
      split; [apply prio_add_inv; [exact I1|simpl; rewrite Hido; apply lookup_delete]|].
      simpl. rewrite Hido, insert_delete_insert. auto.
    + split; [apply prio_add_inv; auto|auto].
  - destruct (ps_classes s !! id) as [old|] eqn:Hold.
    + assert (Hido : pc_id old = id) by (apply (proj1 I); exact Hold). rewrite <- Hido in Hold.
      split; [exact (prio_del_inv s old I Hold)|]. simpl. rewrite Hido. auto.
    + split; [exact I|]. split; [symmetry; apply delete_notin; exact Hold|reflexivity].
  - split; [exact I|auto].
  - split; [exact I|auto].
Qed.

Lemma prun_inv h : forall s, PInv s ->
  PInv (prun s h) /\ ps_classes (prun s h) = fold_left papply h (ps_classes s) /\
  ps_pgclass (prun s h) = fold_left papply_pg h (ps_pgclass s).
Proof.
  induction h as [|e r IH]; intros s I; [auto|]. simpl.
  destruct (phandle_inv s e I) as (I1 & E1 & E2). destruct (IH _ I1) as (I2 & F1 & F2).
  split; [exact I2|]. rewrite F1, F2, E1, E2. auto.
Qed.

(* Theorem (the priority part of the view is determined by the final objects): two histories
   of PriorityClass and PodGroup notifications with the same final PriorityClass objects and
   the same final class names give every job the same priority -- value changes, globalDefault
   toggles, two classes marked default at once, deletion of the default included *)
Theorem priority_determined h h' :
  fold_left papply h ∅ = fold_left papply h' ∅ ->
  fold_left papply_pg h ∅ = fold_left papply_pg h' ∅ ->
  forall j, job_priority (prun empty_ps h) j = job_priority (prun empty_ps h') j.
Proof.
  intros Hc Hp j.
  destruct (prun_inv h empty_ps pinv_empty) as ((Hk & Hb) & E1 & E2).
  destruct (prun_inv h' empty_ps pinv_empty) as ((Hk' & Hb') & E1' & E2').
  simpl in E1, E2, E1', E2'.
  assert (Ec : ps_classes (prun empty_ps h) = ps_classes (prun empty_ps h')) by congruence.
  assert (Ep : ps_pgclass (prun empty_ps h) = ps_pgclass (prun empty_ps h')) by congruence.
  assert (Ed : ps_default (prun empty_ps h) = ps_default (prun empty_ps h')).
  { rewrite Ec in Hb, Hk. exact (is_best_unique _ _ _ Hk Hb Hb'). }
  unfold job_priority, default_priority. rewrite Ec, Ep, Ed. reflexivity.
Qed.

(* before the fix: two classes marked globalDefault, the later one deleted -- the default is
   gone although the other default class is still there *)
Definition pcA : pcobj := mkPC 1 10 true.
Definition pcB : pcobj := mkPC 2 20 true.
Theorem priority_prefix_refuted :
  exists h, fold_left papply h ∅ = fold_left papply [PClass pcA] ∅ /\
            job_priority (prun_prefix empty_ps h) 1%positive <> job_priority (prun_prefix empty_ps [PClass pcA]) 1%positive.
Proof.
  exists [PClass pcA; PClass pcB; PClassDel 2%positive]. split.
  - apply (bool_decide_unpack _). vm_compute. exact I.
  - vm_compute. discriminate.
Qed.

Example priority_fixed :
  job_priority (prun empty_ps [PClass pcA; PClass pcB; PClassDel 2%positive]) 1%positive = 10 /\
  job_priority (prun empty_ps [PClass pcB; PClass pcA]) 1%positive = 10.
Proof. split; vm_compute; reflexivity. Qed.
