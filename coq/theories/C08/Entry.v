(* C08 entry.
   selector 1   : run a history of events / cycle operations / snapshots on the
                  empty cache; after every step the whole cache is dumped
   selector 2   : the cache built from the final objects of a history alone
   selectors >= 100 : laws on the dumps of the real SchedulerCache *)
From stdpp Require Import gmap.
From Coq Require Import ZArith.
From V Require Import Base.Codec Base.Res Base.ResCodec Sched.LedgerModel Sched.LedgerCodec Sched.LedgerInv
                      C08.Model C08.Laws C08.Prio.
Open Scope Z_scope.

(* ---------- encoders ---------- *)

Definition eJobRef (j : positive) : list Z := [if bool_decide (j = no_job) then 0 else Zpos j].

Definition eTaskFull (t : task) : list Z :=
  [Zpos (t_id t); Zpos (skey (t_status t))] ++ eNodeRef (t_node t) ++ eJobRef (t_job t) ++ eRes (t_req t).

Definition eTasks (m : gmap positive task) : list Z :=
  eList (fun kv => eTaskFull (snd kv)) (sort_kv (map_to_list m)).

Definition eCJob (cj : cjob) : list Z :=
  eJob (cj_job cj) ++ [if cj_pg cj then 1 else 0; cj_pguid cj; cj_queue cj; j_min (cj_job cj)].

Definition eNodeFull (a : nattr) (n : node) : list Z :=
  [Zpos (n_id n); if n_has_node n then 1 else 0;
   if na_over_node a then 1 else 0; if na_offline a then 1 else 0; na_zone a] ++
  eRes (n_idle n) ++ eRes (n_used n) ++ eRes (n_releasing n) ++ eRes (n_pipelined n) ++ eRes (n_alloc n) ++
  eTasks (n_tasks n).

Definition eCache (c : cache) : list Z :=
  [-110] ++ eTasks (job_tasks c) ++
  [-111] ++ eList (fun kv => eCJob (snd kv)) (sort_kv (map_to_list (c_jobs c))) ++
  [-112] ++ eList (fun kv => eNodeFull (default no_attr (c_nattr c !! fst kv)) (snd kv)) (sort_kv (map_to_list (c_nodes c))) ++
  [-113] ++ eList ePos (c_nodelist c) ++ eSet (c_queues c) ++
  [-114] ++ eList (fun k : positive * positive => [Zpos (fst k); Zpos (snd k)]) (c_errq c) ++
            eList (fun k : positive * Z => [Zpos (fst k); snd k]) (c_delq c).

(* nodes whose clone depends on map iteration order are listed, not dumped *)
Definition eSnap (eps : Z) (c : cache) (s : snapshot) : list Z :=
  let hz := filter (fun kv => clone_hazard eps (snd kv) = true)
                   (filter (fun kv => n_has_node (snd kv) = true) (c_nodes c)) in
  eTasks (s_heap s) ++
  eList (fun kv => eCJob (snd kv)) (sort_kv (map_to_list (s_jobs s))) ++
  eList (fun kv => eNodeFull (default no_attr (c_nattr c !! fst kv)) (snd kv))
        (sort_kv (map_to_list (filter (fun kv => hz !! fst kv = None) (s_nodes s)))) ++
  eSet (dom hz) ++
  eList ePos (s_nodelist s) ++ eSet (s_queues s).

(* ---------- decoders ---------- *)

Definition dJobRef : dec (option positive) := dNodeRef.

Definition dPhase : dec phase :=
  let* k := dZ in
  match k with
  | 1 => ret PPending | 2 => ret PRunning | 3 => ret PSucceeded | 4 => ret PFailed | 5 => ret PUnknown
  | _ => fail
  end.

Definition dPod : dec pod :=
  let* i := dPos in let* j := dJobRef in let* n := dNodeRef in let* ph := dPhase in let* del := dBool in
  let* role := dPos in let* prio := dZ in let* pre := dBool in
  let* c := dZ in let* m := dZ in let* g := dZ in
  (* the PodScheduled=False condition an earlier failed bind wrote (0 none, k = "failed to bind to
     node n<k>", 9 = pre-bind failure): it decides whether taskUnschedulable's status write is a
     no-op; delivered to the real cache, no effect on the cache state *)
  let* _ := dZ in
  if (c <? 0) || (m <? 0) || (g <? 0) then fail
  else ret (mkPod i j n ph del role prio pre (mk_req c m g)).

(* id cpu mem pods gpu | annotation oversubscription-cpu (present, milli) -memory (present, bytes) |
   oversubscription label, offline-job-evicting, revocable zone | unschedulable, tainted, not-ready
   (the last three are delivered to the real cache and, like it, ignored here) *)
Definition dNodeObj : dec nodever :=
  let* i := dPos in let* c := dZ in let* m := dZ in let* p := dZ in let* g := dZ in
  let* oc := dOpt dZ in let* om := dOpt dZ in
  let* on := dBool in let* off := dBool in let* z := dZ in
  let* _ := dZ in let* _ := dZ in let* _ := dZ in
  ret (mkNodeVer i (mk_alloc c m p g) ((fun x => x * grid) <$> oc) ((fun x => x * grid) <$> om) on off z).

Definition dPG : dec (pgobj * Z) :=
  let* i := dPos in let* u := dZ in let* q := dZ in let* m := dZ in
  (* number of status conditions already on the object, annotations present: delivered to the
     real cache, no effect on the view *)
  let* _ := dZ in let* _ := dZ in
  (* spec.priorityClassName (0 = none) *)
  let* cls := dZ in
  if (q <? 0) || (cls <? 0) then fail else ret (mkPG i u q m, cls).

Definition dPC : dec pcobj :=
  let* i := dPos in let* v := dZ in let* g := dBool in ret (mkPC i v g).

Inductive op := OEv (e : event) | OSnap | OPG (g : pgobj) (cls : Z) | OPrio (pc : pcobj) | OPrioDel (id : positive)
  | OQueue (q : positive) (w st : Z)   (* a Queue version: spec.weight, status.state (1 Open 2 Closed 3 Closing 0 other) *)
  | OStatus (j : positive)
  | ODrainFail (k : nat)
  | OBatch (l : list (positive * positive * positive * Z)).   (* a batch of bind contexts: job task node outcome *)              (* k resync drains during which every GET of syncTask fails *)            (* the cycle's UpdateJobStatus for job j: writes nothing the model holds *)

(* outcome of the API side of a bind: 1 = bound; 0 = Binder.Bind fails; 2 = a pre-binder fails;
   3 = a pre-binder fails and the pod status write that follows fails too; 4 = Binder.Bind fails and
   the status write fails too.  (Whether the status write is attempted at all depends on the
   condition the pod already carries.)  Bind(): the status write's error is only logged, the
   pre-binders are rolled back and resyncTask is called ALWAYS: for the cache every code but 1
   is the same failure *)
Definition dFault : dec bool :=
  let* x := dZ in if (x <? 0) || (4 <? x) then fail else ret (x =? 1).

Definition dOp : dec op :=
  let* c := dZ in
  match c with
  | 1 => let* p := dPod in ret (OEv (EPod p))
  | 2 => let* i := dPos in ret (OEv (EPodDel i))
  | 3 => let* o := dNodeObj in ret (OEv (ENode o))
  | 4 => let* i := dPos in ret (OEv (ENodeDel i))
  | 5 => let* gc := dPG in ret (OPG (fst gc) (snd gc))
  | 15 => let* pc := dPC in ret (OPrio pc)
  | 16 => let* i := dPos in ret (OPrioDel i)
  | 6 => let* i := dPos in ret (OEv (EPGDel i))
  | 7 => let* q := dPos in let* w := dZ in let* st := dZ in ret (OQueue q w st)
  | 17 => let* j := dPos in ret (OStatus j)
  | 18 => let* k := dNat in ret (ODrainFail k)
  | 19 => let* l := dList (let* j := dPos in let* t := dPos in let* n := dPos in let* f := dZ in
                           if (f <? 0) || (4 <? f) then fail else ret (j, t, n, f)) in ret (OBatch l)
  | 8 => let* q := dPos in ret (OEv (EQueueDel q))
  | 9 => ret (OEv EDrainCleanup)
  | 10 => ret (OEv EDrainResync)
  | 11 => let* j := dPos in let* t := dPos in let* n := dPos in let* ok := dFault in ret (OEv (EBind j t n ok))
  | 14 => let* i := dPos in ret (OEv (EApiGone i))
  | 12 => let* j := dPos in let* t := dPos in let* ok := dBool in ret (OEv (EEvict j t ok))
  | 13 => ret OSnap
  | _ => fail
  end.

Definition dCase : dec (Z * list op) := let* e := dZ in let* ops := dList dOp in ret (e, ops).

(* ---- dumps of the implementation ---- *)

Definition dTaskFull : dec task :=
  let* i := dPos in let* s := dStatus in let* n := dNodeRef in let* j := dJobRef in let* r := dRes in
  ret (mkTask i (default no_job j) default_sub 1%positive 0 r r false false s n).

Definition dSet : dec (gset positive) := let* l := dList dPos in ret (list_to_set l).
Definition dIndex : dec (gmap positive (gset positive)) :=
  let* l := dList (dPair dPos dSet) in ret (list_to_map l).

Definition dCJob : dec cjob :=
  let* i := dPos in let* ts := dSet in let* ix := dIndex in let* al := dRes in let* tot := dRes in
  let* subs := dList (let* sid := dPos in let* st := dSet in let* six := dIndex in ret (sid, (st, six))) in
  let* pg := dBool in let* uid := dZ in let* q := dZ in let* mn := dZ in
  let sm : gmap positive subjob :=
    list_to_map (map (fun x : positive * (gset positive * gmap positive (gset positive)) =>
                        (fst x, mk_default_sub mn (fst (snd x)) (snd (snd x)))) subs) in
  (* TaskToSubJob is rebuilt from the sub-jobs' task sets *)
  let tsub : gmap positive positive :=
    list_to_map (flat_map (fun x : positive * (gset positive * gmap positive (gset positive)) =>
                             map (fun t => (t, fst x)) (elements (fst (snd x)))) subs) in
  let j0 := new_job i in
  ret (mkCJob (mkJob i (j_queue j0) mn (j_role_min j0) (j_role_total j0) ts ix al tot sm tsub) pg uid q).

Definition dNodeFull : dec (node * nattr) :=
  let* i := dPos in let* has := dBool in
  let* on := dBool in let* off := dBool in let* z := dZ in
  let* idle := dRes in let* used := dRes in let* rel := dRes in let* pip := dRes in let* al := dRes in
  let* cs := dList dTaskFull in
  ret (mkNode i has idle used rel pip al (list_to_map (map (fun t => (t_id t, t)) cs)),
       mkNAttr 0 0 on off z al).

Definition tag (t : Z) : dec unit := let* x := dZ in if x =? t then ret tt else fail.

(* the heap of a dumped cache: the tasks of its jobs, plus (as the model's
   ghost entries) the node-held copies of pods without a job *)
Definition heap_with (any_job : bool) (ts : list task) (ns : list node) : gmap positive task :=
  let h : gmap positive task := list_to_map (map (fun t => (t_id t, t)) ts) in
  fold_left (fun acc n =>
      map_fold (fun i cl a => if (any_job || bool_decide (t_job cl = no_job)) && bool_decide (a !! i = None)
                              then <[i := cl]> a else a) acc (n_tasks n)) ns h.
Definition heap_of := heap_with false.

Definition dCache : dec cache :=
  let* _ := tag (-110) in let* ts := dList dTaskFull in
  let* _ := tag (-111) in let* js := dList dCJob in
  let* _ := tag (-112) in let* nas := dList dNodeFull in
  let ns := map fst nas in
  let* _ := tag (-113) in let* nl := dList dPos in let* qs := dSet in
  let* _ := tag (-114) in let* eq := dList (dPair dPos dPos) in let* dq := dList (dPair dPos dZ) in
  ret (mkCache ∅ ∅ (heap_of ts ns)
               (list_to_map (map (fun cj => (j_id (cj_job cj), cj)) js))
               (list_to_map (map (fun n => (n_id n, n)) ns)) nl qs eq dq
               (list_to_map (map (fun na : node * nattr => (n_id (fst na), snd na)) nas))).

Definition dSnap : dec (snapshot * gset positive) :=
  let* ts := dList dTaskFull in let* js := dList dCJob in let* nas := dList dNodeFull in
  let ns := map fst nas in
  let* hz := dSet in let* nl := dList dPos in let* qs := dSet in
  (* a snapshot's nodes also hold copies of tasks whose job is not part of the snapshot *)
  ret (mkSnap (heap_with true ts ns)
              (list_to_map (map (fun cj => (j_id (cj_job cj), cj)) js))
              (list_to_map (map (fun n => (n_id n, n)) ns)) nl qs, hz).

(* ---------- running ---------- *)

Definition res_code (r : opres) : Z :=
  match r with RDone => 0 | RNoTask => 1 | RNoNode => 2 | RNoPodGroup => 3 | RNodeRefused => 4 end.

Definition step_code (eps : Z) (c : cache) (e : event) : Z :=
  match e with
  | EBind j t n ok => res_code (snd (bind_task eps c j t n ok))
  | EEvict j t ok => res_code (snd (evict_task eps c j t ok))
  | _ => 0
  end.

(* the priority Snapshot() gives every job it contains *)
Definition ePrios (c : cache) (s : pstate) : list Z :=
  [-115] ++ eList (fun kv : positive * cjob => [Zpos (fst kv); job_priority s (fst kv)])
                  (sort_kv (map_to_list (filter (fun kv => in_snapshot c (snd kv) = true) (c_jobs c)))).
(* what the cache holds of every Queue object (QueueInfo.Weight, Queue.Status.State): the
   latest delivered version, whatever changed in it *)
Definition qinfo := gmap positive (Z * Z).
Definition eQueuesInfo (qi : qinfo) : list Z :=
  [-116] ++ eList (fun kv : positive * (Z * Z) => [Zpos (fst kv); fst (snd kv); snd (snd kv)]) (sort_kv (map_to_list qi)).
Definition eCacheP (c : cache) (s : pstate) (qi : qinfo) : list Z := eCache c ++ ePrios c s ++ eQueuesInfo qi.

Definition dCacheP : dec (cache * (list (positive * Z) * list (positive * (Z * Z)))) :=
  let* c := dCache in let* _ := tag (-115) in let* ps := dList (dPair dPos dZ) in
  let* _ := tag (-116) in let* qs := dList (dPair dPos (dPair dZ dZ)) in ret (c, (ps, qs)).

Definition event_of (o : op) : option event :=
  match o with OEv e => Some e | OPG g _ => Some (EPG g) | OQueue q _ _ => Some (EQueue q) | _ => None end.
Definition qinfo_of (qi : qinfo) (o : op) : qinfo :=
  match o with
  | OQueue q w st => <[q := (w, st)]> qi
  | OEv (EQueueDel q) => delete q qi
  | _ => qi
  end.
Definition pevents_of (o : op) : list pevent :=
  match o with
  | OPG g cls => [PPodGroup (g_id g) cls]
  | OEv (EPGDel i) => [PPodGroupDel i]
  | OPrio pc => [PClass pc]
  | OPrioDel i => [PClassDel i]
  | _ => []
  end.

Fixpoint run_dump (eps : Z) (c : cache) (s : pstate) (qi : qinfo) (ops : list op) : list Z :=
  match ops with
  | [] => []
  | OSnap :: r => [-104] ++ eCacheP c s qi ++ [-102] ++ eSnap eps c (take_snapshot eps c) ++
                  [-103] ++ eCacheP c s qi ++ [-105; 1] ++ run_dump eps c s qi r
  | OBatch l :: r =>
    let '(c', rs) := bind_batch eps c l in
    [-106] ++ eList (fun x => [res_code x]) rs ++ [-101; 0] ++ eCacheP c' s qi ++ run_dump eps c' s qi r
  | ODrainFail k :: r =>
    let c' := Nat.iter k drain_resync_allfail c in
    [-101; 0] ++ eCacheP c' s qi ++ run_dump eps c' s qi r
  | o :: r =>
    let s' := fold_left phandle (pevents_of o) s in
    let qi' := qinfo_of qi o in
    match event_of o with
    | Some e => let c' := handle eps c e in
                [-101; step_code eps c e] ++ eCacheP c' s' qi' ++ run_dump eps c' s' qi' r
    | None => [-101; 0] ++ eCacheP c s' qi' ++ run_dump eps c s' qi' r
    end
  end.

Definition events_of (ops : list op) : list event := omap event_of ops.
Definition all_pevents (ops : list op) : list pevent := flat_map pevents_of ops.

(* the PriorityClass part of the cache built from the final objects alone *)
Definition build_ps (ops : list op) : pstate :=
  let pe := all_pevents ops in
  prun empty_ps
    (map (fun kv : positive * pcobj => PClass (snd kv)) (sort_kv (map_to_list (fold_left papply pe ∅))) ++
     map (fun kv : positive * Z => PPodGroup (fst kv) (snd kv)) (sort_kv (map_to_list (fold_left papply_pg pe ∅)))).

(* the snapshot's nodes with the hazard nodes put back from the cache side *)
Definition law_snapshot_hz (c : cache) (s : snapshot) (hz : gset positive) : bool :=
  law_snapshot (with_nodes c (filter (fun kv => fst kv ∉ hz) (c_nodes c)) (c_nodelist c)) s.

Definition entry (sel : Z) (toks : list Z) : list Z :=
  match sel with
  | 1 => match run_dec dCase toks with
         | Some (e, ops) => [-100] ++ run_dump e empty_cache empty_ps ∅ ops
         | None => bad_input end
  | 2 => match run_dec dCase toks with
         | Some (e, ops) => [-100] ++ eCacheP (build e (final_objects (events_of ops))) (build_ps ops) (fold_left qinfo_of ops ∅)
         | None => bad_input end
  | 101 => match run_dec dCacheP toks with
           | Some (c, _) => eBool (law_inv c)
           | None => bad_input end
  | 102 => match run_dec (dPair dCacheP dCacheP) toks with
           | Some ((a, pa), (b, pb)) => eBool (law_converge a b && bool_decide (pa = pb))
           | None => bad_input end
  | 103 => match run_dec (let* a := dCacheP in let* b := dCacheP in let* same := dZ in ret (a, b, same)) toks with
           | Some ((a, pa), (b, pb), same) => eBool (law_untouched a b && bool_decide (pa = pb) && (same =? 1))
           | None => bad_input end
  | 104 => match run_dec (dPair dCacheP dSnap) toks with
           | Some ((c, _), (s, hz)) => eBool (law_snapshot_hz c s hz)
           | None => bad_input end
  | 105 => match run_dec (let* c := dCacheP in let* ks := dList (dPair dPos dPos) in ret (c, ks)) toks with
           | Some ((c, _), ks) => eBool (law_failed_binds_queued c ks)
           | None => bad_input end
  (* diagnostics: the conjuncts of the invariant / of the view comparison *)
  | 201 => match run_dec dCacheP toks with
           | Some (c, _) => eBool (ledger_okb (c_heap c) (cj_job <$> c_jobs c) (c_nodes c)) ++
                       eBool (paired_jn c) ++ eBool (paired_nj c) ++ eBool (nodelist_okb c) ++
                       flat_map (fun kv => Zpos (fst kv) :: eBool (job_okb (c_heap c) (cj_job (snd kv))))
                                (map_to_list (c_jobs c)) ++ [-1] ++
                       flat_map (fun kv => Zpos (fst kv) :: eBool (node_okb (c_heap c) (snd kv)))
                                (map_to_list (c_nodes c))
           | None => bad_input end
  | 202 => match run_dec (dPair dCacheP dCacheP) toks with
           | Some ((a, pa), (b, pb)) =>
             eBool (bool_decide (pa = pb)) ++
             eBool (map_sameb task_view_sameb (job_tasks a) (job_tasks b)) ++
             eBool (map_sameb cjob_view_sameb (filter (fun kv => job_visible (snd kv) = true) (c_jobs a))
                                              (filter (fun kv => job_visible (snd kv) = true) (c_jobs b))) ++
             eBool (map_sameb node_view_sameb (filter (fun kv => node_visible (snd kv) = true) (c_nodes a))
                                              (filter (fun kv => node_visible (snd kv) = true) (c_nodes b))) ++
             eBool (cache_invb b)
           | None => bad_input end
  | _ => bad_input
  end.
