(* C08 proofs, part 3 (audit round): Snapshot against an independent specification
   (NodeInfo.Clone = SetNode on the same tasks), functional post-conditions of an accepted
   bind / eviction, repair under arbitrary mixes of successful and failed binds / evictions,
   convergence over the whole alphabet. *)
From stdpp Require Import gmap.
From Coq Require Import ZArith Lia.
From V Require Import Base.Codec Base.Res Base.ResLemmas Sched.LedgerModel Sched.LedgerInv
                      C08.Model C08.Laws C08.Lemmas C08.Lemmas2.
Open Scope Z_scope.

(* ---------- NodeInfo.Clone ---------- *)

Lemma node_ext_eq (X Y : node) :
  n_id X = n_id Y -> n_has_node X = n_has_node Y -> n_idle X = n_idle Y -> n_used X = n_used Y ->
  n_releasing X = n_releasing Y -> n_pipelined X = n_pipelined Y -> n_alloc X = n_alloc Y ->
  n_tasks X = n_tasks Y -> X = Y.
Proof. destruct X, Y; simpl; intros; subst; reflexivity. Qed.

Section Clone.
Variable eps : Z.

(* one AddTask of Clone = one accounting step of setNode, plus the copy *)
Lemma node_add_as_acc X t :
  t_node t = Some (n_id X) -> n_tasks X !! t_id t = None -> n_has_node X = true -> t_status t <> Binding ->
  node_add eps X t =
    inl (node_with X (n_idle (node_set_acc X t)) (n_used (node_set_acc X t)) (n_releasing (node_set_acc X t))
                   (n_pipelined (node_set_acc X t)) (<[t_id t := t]> (n_tasks X)), t).
Proof.
  intros Hn Hf Hh Hb. unfold node_add.
  rewrite bool_decide_eq_false_2 by (rewrite Hn; intros [_ H]; congruence).
  rewrite bool_decide_eq_false_2 by (rewrite Hf; intros [x Hx]; discriminate).
  rewrite (set_node_same t _ Hn), Hh. cbn [negb]. unfold node_set_acc.
  destruct (t_status t); try reflexivity. contradiction.
Qed.

Definition ledger_eq (X Y : node) : Prop :=
  n_id X = n_id Y /\ n_has_node X = n_has_node Y /\ n_alloc X = n_alloc Y /\ n_idle X = n_idle Y /\
  n_used X = n_used Y /\ n_releasing X = n_releasing Y /\ n_pipelined X = n_pipelined Y.

Lemma node_set_acc_ledger X Y t : ledger_eq X Y -> ledger_eq (node_set_acc X t) (node_set_acc Y t).
Proof.
  intros (A & B & C & D & E & F & G). unfold ledger_eq, node_set_acc.
  destruct (t_status t); simpl; rewrite ?A, ?B, ?C, ?D, ?E, ?F, ?G; repeat split; reflexivity.
Qed.

Definition clone_step (acc : node) (t : task) : node :=
  match node_add eps acc t with inl (acc', _) => acc' | inr _ => acc end.

Lemma clone_fold_nodes l : forall X Y,
  ledger_eq X Y -> n_has_node X = true ->
  (forall t, t ∈ l -> t_node t = Some (n_id X) /\ t_status t <> Binding /\ n_tasks X !! t_id t = None) ->
  NoDup (map t_id l) ->
  ledger_eq (fold_left clone_step l X) (fold_left node_set_acc l Y) /\
  n_tasks (fold_left clone_step l X) = fold_left (fun m t => <[t_id t := t]> m) l (n_tasks X).
Proof.
  induction l as [|t l IH]; intros X Y HE Hh Hl Hnd; [auto|].
  simpl. apply NoDup_cons in Hnd. destruct Hnd as [Hni Hnd].
  destruct (Hl t ltac:(left)) as (Hn & Hb & Hf).
  unfold clone_step at 2 4. rewrite (node_add_as_acc X t Hn Hf Hh Hb).
  set (X1 := node_with X _ _ _ _ _).
  assert (HE1 : ledger_eq X1 (node_set_acc Y t)).
  { pose proof (node_set_acc_ledger X Y t HE) as (A & B & C & D & E & F & G).
    destruct (node_set_acc_fields X t) as (E1 & E2 & E3 & _).
    unfold ledger_eq, X1. simpl. rewrite <- A, <- B, <- C, <- D, <- E, <- F, <- G, E1, E2, E3. repeat split; reflexivity. }
  apply IH; auto.
  intros u Hu. destruct (Hl u ltac:(right; exact Hu)) as (Hn' & Hb' & Hf'). split; [exact Hn'|]. split; [exact Hb'|].
  unfold X1. simpl. rewrite lookup_insert_ne; [exact Hf'|]. intros E. apply Hni. rewrite E.
  apply elem_of_list_fmap. eauto.
Qed.

Lemma fold_ins_lookup l : forall (M : gmap positive task) i t,
  NoDup (map t_id l) -> (forall u, u ∈ l -> M !! t_id u = None) ->
  fold_left (fun m u => <[t_id u := u]> m) l M !! i = Some t <->
  (M !! i = Some t \/ (t ∈ l /\ t_id t = i)).
Proof.
  induction l as [|a l IH]; intros M i t Hnd HM; simpl.
  - split; [auto|]. intros [H|[H _]]; [exact H|inversion H].
  - apply NoDup_cons in Hnd. destruct Hnd as [Hna Hnd].
    rewrite IH; [|exact Hnd|].
    + split.
      * intros [H|[H1 H2]]; [|right; split; [right; exact H1|exact H2]].
        destruct (decide (i = t_id a)) as [->|Hne].
        -- rewrite lookup_insert in H. injection H as <-. right. split; [left|reflexivity].
        -- rewrite lookup_insert_ne in H by congruence. left. exact H.
      * intros [H|[H1 H2]].
        -- left. rewrite lookup_insert_ne; [exact H|]. intros <-. rewrite (HM a ltac:(left)) in H. discriminate.
        -- apply elem_of_cons in H1. destruct H1 as [->|H1]; [left; rewrite <- H2; apply lookup_insert|right; auto].
    + intros u Hu. rewrite lookup_insert_ne; [apply HM; right; exact Hu|].
      intros E. apply Hna. rewrite E. apply elem_of_list_fmap. eauto.
Qed.

Lemma fold_set_acc_tasks l : forall Z, n_tasks (fold_left node_set_acc l Z) = n_tasks Z.
Proof.
  induction l as [|t l IH]; intros Z; [reflexivity|]. simpl. rewrite IH.
  destruct (node_set_acc_fields Z t) as (_ & _ & _ & E & _). exact E.
Qed.

(* Theorem (NodeInfo.Clone): when the node holds no Binding task, the clone -- a fresh
   NodeInfo to which every task is added again -- is exactly what SetNode computes on the
   same tasks with the same allocatable *)
Theorem clone_node_is_node_set T n ni alloc :
  NodeRep T n ni -> (forall i t, T !! i = Some t -> t_id t = i) ->
  (forall i t, n_tasks ni !! i = Some t -> t_status t <> Binding) ->
  clone_node eps alloc ni = node_set ni (mkNodeObj (n_id ni) alloc).
Proof.
  intros [Hid Hts Hl] Hwf Hnb. unfold clone_node, node_set.
  set (l := map snd (map_to_list (n_tasks ni))).
  assert (Hmem : forall t, t ∈ l <-> n_tasks ni !! t_id t = Some t).
  { intros t. unfold l. rewrite elem_of_list_fmap. split.
    - intros ([i u] & -> & Hu). apply elem_of_map_to_list in Hu. cbn [snd].
      assert (t_id u = i) as ->; [|exact Hu]. rewrite Hts in Hu. apply map_filter_lookup_Some in Hu. exact (Hwf i u (proj1 Hu)).
    - intros H. exists (t_id t, t). split; [reflexivity|]. apply elem_of_map_to_list. exact H. }
  assert (Hnd : NoDup (map t_id l)).
  { unfold l. rewrite map_map.
    assert (E : map (fun x : positive * task => t_id (snd x)) (map_to_list (n_tasks ni)) = map fst (map_to_list (n_tasks ni))).
    { apply map_ext_in. intros [i u] Hin. cbn [fst snd]. apply elem_of_list_In, elem_of_map_to_list in Hin.
      rewrite Hts in Hin. apply map_filter_lookup_Some in Hin. exact (Hwf i u (proj1 Hin)). }
    rewrite E. apply NoDup_fst_map_to_list. }
  set (X0 := mkNode (n_id ni) true alloc empty_res empty_res empty_res alloc ∅).
  set (Y0 := node_reset ni (mkNodeObj (n_id ni) alloc)).
  assert (HE0 : ledger_eq X0 Y0) by (repeat split; reflexivity).
  destruct (clone_fold_nodes l X0 Y0 HE0 eq_refl) as [(A & B & C & D & E & F & G) Htasks]; [|exact Hnd|].
  { intros t Ht. apply Hmem in Ht. split; [|split; [exact (Hnb _ _ Ht)|apply lookup_empty]].
    rewrite Hts in Ht. apply map_filter_lookup_Some in Ht. destruct Ht as [_ Hon]. cbn [snd] in Hon.
    simpl. rewrite Hid. exact (on_n_node n t Hon). }
  fold clone_step.
  assert (HY : n_tasks (fold_left node_set_acc l Y0) = n_tasks ni) by (rewrite fold_set_acc_tasks; reflexivity).
  apply node_ext_eq; auto.
  rewrite Htasks, HY. apply map_eq. intros i. apply option_eq. intros t.
  rewrite fold_ins_lookup; [|exact Hnd|intros u _; apply lookup_empty].
  unfold X0. cbn [n_tasks]. rewrite lookup_empty. split.
  - intros [H|[H1 H2]]; [discriminate|]. apply Hmem in H1. rewrite H2 in H1. exact H1.
  - intros H. right. assert (t_id t = i).
    { rewrite Hts in H. apply map_filter_lookup_Some in H. exact (Hwf i t (proj1 H)). }
    split; [apply Hmem; rewrite H0; exact H|exact H0].
Qed.

End Clone.

(* ---------- Snapshot() against an independent specification ---------- *)

Lemma clone_job_min heap J : j_min (clone_job heap J) = j_min J.
Proof.
  unfold clone_job. generalize (elements (j_tasks J)). intros l.
  set (J0 := mkJob (j_id J) (j_queue J) (j_min J) (j_role_min J) (j_role_total J) ∅ ∅ empty_res empty_res ∅ ∅).
  change (j_min J) with (j_min J0). generalize J0. clear J0.
  induction l as [|i l IH]; intros J0; [reflexivity|]. simpl. rewrite IH. destruct (heap !! i); reflexivity.
Qed.

(* what a correct Snapshot() of cache [c] is, without reference to how it is computed:
   the queues and the node list as they are; exactly the nodes that have a Node object, each
   the ledger of exactly the cache's tasks on that node with the allocatable NewNodeInfo(node)
   gives; exactly the jobs that have a PodGroup in an existing queue, each the ledger of exactly
   the cache's tasks of that job with the job's own attributes; only tasks the cache holds *)
Record SnapSpec (c : cache) (s : snapshot) : Prop := mkSnapSpec {
  ss_queues : s_queues s = c_queues c;
  ss_nodelist : s_nodelist s = c_nodelist c;
  ss_nodes_dom : forall n, is_Some (s_nodes s !! n) <-> exists N, c_nodes c !! n = Some N /\ n_has_node N = true;
  ss_jobs_dom : forall j, is_Some (s_jobs s !! j) <->
     exists cj, c_jobs c !! j = Some cj /\ cj_pg cj = true /\ 0 < cj_queue cj /\ Z.to_pos (cj_queue cj) ∈ c_queues c;
  ss_jobs : forall j sj, s_jobs s !! j = Some sj ->
     exists cj, c_jobs c !! j = Some cj /\ jmeta sj = jmeta cj /\ JobRep (c_heap c) j (cj_job sj);
  ss_nodes : forall n N', s_nodes s !! n = Some N' ->
     exists N, c_nodes c !! n = Some N /\
       ((forall i t, n_tasks N !! i = Some t -> t_status t <> Binding) -> sc (clone_alloc c n N) <> None ->
        NodeRep (c_heap c) n N' /\ n_has_node N' = true /\ n_alloc N' = clone_alloc c n N);
  ss_heap : forall i t, s_heap s !! i = Some t -> c_heap c !! i = Some t;
  (* ... and every task of a snapshot job is there, with exactly the record the cache holds *)
  ss_heap_full : forall i j sj, s_jobs s !! j = Some sj -> i ∈ j_tasks (cj_job sj) -> s_heap s !! i = c_heap c !! i;
}.

(* Theorem (snapshot internally consistent): in a cache satisfying the invariant the model of
   Snapshot() meets the specification *)
Theorem take_snapshot_spec eps c : Rep c -> SnapSpec c (take_snapshot eps c).
Proof.
  intros R. destruct (snapshot_selection eps c) as (Hn & Hj & Hq & Hl). split.
  - exact Hq.
  - exact Hl.
  - intros n. rewrite Hn. destruct (c_nodes c !! n) as [N|]; [destruct (n_has_node N) eqn:Hh|].
    + split; [intros _; eauto|intros _; eauto].
    + split; [intros [x Hx]; discriminate|intros (N' & HN' & Hh'); congruence].
    + split; [intros [x Hx]; discriminate|intros (N' & HN' & _); discriminate].
  - intros j. rewrite Hj. destruct (c_jobs c !! j) as [cj|]; [destruct (in_snapshot c cj) eqn:Hin|].
    + unfold in_snapshot in Hin. apply andb_true_iff in Hin. destruct Hin as [Hin H3]. apply andb_true_iff in Hin.
      destruct Hin as [H1 H2]. rewrite bool_decide_eq_true in H2, H3.
      split; [intros _; exists cj; auto|intros _; eauto].
    + split; [intros [x Hx]; discriminate|]. intros (cj' & Hc & H1 & H2 & H3). injection Hc as <-.
      unfold in_snapshot in Hin. rewrite H1, (bool_decide_eq_true_2 _ H2), (bool_decide_eq_true_2 _ H3) in Hin. discriminate.
    + split; [intros [x Hx]; discriminate|intros (cj' & Hc & _); discriminate].
  - intros j sj Hs. rewrite Hj in Hs. destruct (c_jobs c !! j) as [cj|] eqn:Hcj; [|discriminate].
    destruct (in_snapshot c cj); [|discriminate]. injection Hs as <-. exists cj. split; [reflexivity|]. split.
    + unfold jmeta. simpl. rewrite clone_job_min. reflexivity.
    + simpl. exact (clone_job_rep c j cj R Hcj).
  - intros n N' Hs. rewrite Hn in Hs. destruct (c_nodes c !! n) as [N|] eqn:HN; [|discriminate].
    destruct (n_has_node N); [|discriminate]. injection Hs as <-. exists N. split; [reflexivity|].
    intros Hnb Hsc. pose proof (rp_nodes c R n N HN) as HR.
    rewrite (clone_node_is_node_set eps (c_heap c) n N _ HR); [|intros i t Ht; exact (proj1 (rp_wf c R i t Ht))|exact Hnb].
    apply (node_set_rep (c_heap c) n N (mkNodeObj (n_id N) (clone_alloc c n N)) HR Hsc).
    intros i t Ht. exact (proj2 (rp_wf c R i t Ht)).
  - intros i t Hs. simpl in Hs. apply map_filter_lookup_Some in Hs. exact (proj1 Hs).
  - intros i j sj Hs Hin. rewrite Hj in Hs. destruct (c_jobs c !! j) as [cj|] eqn:Hcj; [|discriminate].
    destruct (in_snapshot c cj) eqn:Hsnap; [|discriminate]. injection Hs as <-. simpl in Hin.
    (* the clone has the members of the cache's entry *)
    assert (Hin' : i ∈ j_tasks (cj_job cj)).
    { apply (jr_tasks _ _ _ (rp_jobs c R j cj Hcj)). apply (jr_tasks _ _ _ (clone_job_rep c j cj R Hcj)). exact Hin. }
    simpl. destruct (c_heap c !! i) as [t|] eqn:Ht.
    + apply map_filter_lookup_Some. split; [exact Ht|]. cbn [fst]. apply bool_decide_pack.
      exists j, cj. split; [|exact Hin']. apply map_filter_lookup_Some. auto.
    + apply map_filter_lookup_None. left. exact Ht.
Qed.

(* ---------- repair under arbitrary mixes of successful and failed binds / evictions ---------- *)

Section Mixed.
Variable eps : Z.

(* what one processResyncTask does to the held tasks *)
Lemma resync_one_heap c k :
  Inv2 eps c ->
  (stored_task c (Some (fst k)) (snd k) = None /\ c_heap (fst (resync_one eps c k)) = c_heap c) \/
  (exists st, stored_task c (Some (fst k)) (snd k) = Some st /\ t_job st = fst k /\ fst k <> no_job /\
     c_heap (fst (resync_one eps c k)) =
       match api_pod c (snd k) with
       | Some p => <[snd k := task_of_pod eps p]> (c_heap c)
       | None => delete (snd k) (c_heap c) end).
Proof.
  intros I. unfold resync_one. destruct k as [j i]. cbn [fst snd].
  destruct (stored_task c (Some j) i) as [st|] eqn:Hst; [|left; auto].
  right. exists st. destruct I as (R & So & Co).
  destruct (stored_task_facts c j i st R Hst) as (_ & _ & Hs & Hid & Hj & Hjn & _).
  rewrite <- Hid in Hs.
  destruct (sync_task_post eps c j st (conj R (conj So Co)) Hs Hj Hjn) as (_ & _ & _ & Hh).
  destruct (sync_task eps c j st) as [c1 ok]. cbn [fst snd] in *. rewrite Hid in Hh. auto.
Qed.

Definition synced_at (c : cache) (i : positive) (t : task) : Prop :=
  exists p, c_store c !! i = Some p /\ t = task_of_pod eps p.

(* every held task equals NewTaskInfo(its pod), or waits in [l] for a resync, or is one of the
   tasks in [A]: a successful bind / eviction whose pod notification has not been applied yet *)
Definition QueuedInA (l : list (positive * positive)) (A : gset positive) (c : cache) : Prop :=
  forall i t, c_heap c !! i = Some t -> synced_at c i t \/ (t_job t, i) ∈ l \/ i ∈ A.
Definition QueuedA (A : gset positive) (c : cache) : Prop := QueuedInA (c_errq c) A c.

(* every pod of the informer store that is still on the API server is held *)
Definition Cover (c : cache) : Prop :=
  forall i p, c_store c !! i = Some p -> i ∈ c_gone c \/ is_Some (c_heap c !! i).

Lemma resync_one_queuedA c k l A :
  Inv2 eps c -> QueuedInA (k :: l) A c -> QueuedInA l A (fst (resync_one eps c k)).
Proof.
  intros I HP. pose proof I as (R & So & Co).
  destruct (resync_one_inv2 eps c k I) as (_ & _ & (Hst1 & _ & _) & _).
  intros i' t Ht. unfold synced_at. rewrite Hst1.
  destruct (resync_one_heap c k I) as [[Hno Hh]|(st & Hsto & Hj & Hjn & Hh)]; rewrite Hh in Ht.
  - destruct (HP i' t Ht) as [Hl|[Hr|Ha]]; [left; exact Hl| |right; right; exact Ha].
    apply elem_of_cons in Hr. destruct Hr as [Heq|Hin]; [|right; left; exact Hin].
    destruct (decide (t_job t = no_job)) as [Hnj|Hnj].
    + left. destruct (Co i' t Ht) as (p & Hp & _ & B). exists p. split; [exact Hp|exact (B Hnj)].
    + exfalso. rewrite <- Heq in Hno. cbn [fst snd] in Hno.
      rewrite (stored_some c (t_job t) i' t R Ht eq_refl Hnj) in Hno. discriminate.
  - destruct (decide (i' = snd k)) as [->|Hne].
    + destruct (api_pod c (snd k)) as [p|] eqn:Hapi.
      * rewrite lookup_insert in Ht. injection Ht as <-. left. exists p. split; [|reflexivity].
        unfold api_pod in Hapi. case_bool_decide; [discriminate|exact Hapi].
      * rewrite lookup_delete in Ht. discriminate.
    + assert (Ht0 : c_heap c !! i' = Some t).
      { destruct (api_pod c (snd k)); [rewrite lookup_insert_ne in Ht by congruence|rewrite lookup_delete_ne in Ht by congruence]; exact Ht. }
      destruct (HP i' t Ht0) as [Hl|[Hr|Ha]]; [left; exact Hl| |right; right; exact Ha].
      apply elem_of_cons in Hr. destruct Hr as [Heq|Hin]; [|right; left; exact Hin].
      exfalso. apply Hne. rewrite <- Heq. reflexivity.
Qed.

Lemma resync_one_cover c k : Inv2 eps c -> Cover c -> Cover (fst (resync_one eps c k)).
Proof.
  intros I HC. destruct (resync_one_inv2 eps c k I) as (_ & _ & (Hst1 & Hg1 & _) & _).
  intros i p. rewrite Hst1, Hg1. intros Hp.
  destruct (resync_one_heap c k I) as [[_ Hh]|(st & _ & _ & _ & Hh)]; rewrite Hh; [exact (HC i p Hp)|].
  destruct (decide (i = snd k)) as [->|Hne].
  - destruct (api_pod c (snd k)) as [q|] eqn:Hapi; [right; rewrite lookup_insert; eauto|].
    left. unfold api_pod in Hapi. case_bool_decide as Hg; [exact Hg|congruence].
  - destruct (HC i p Hp) as [Hg|Hh']; [left; exact Hg|right].
    destruct (api_pod c (snd k)); [rewrite lookup_insert_ne by congruence|rewrite lookup_delete_ne by congruence]; exact Hh'.
Qed.

Lemma resync_fold_A l : forall c keep A, Inv2 eps c -> QueuedInA l A c -> Cover c ->
  let r := fold_left (fun (acc : cache * list (positive * positive)) k =>
                        let '(c1, retry) := resync_one eps (fst acc) k in
                        (c1, if retry then snd acc ++ [k] else snd acc)) l (c, keep) in
  QueuedInA [] A (fst r) /\ Cover (fst r).
Proof.
  induction l as [|k l IH]; intros c keep A I HP HC; simpl; [auto|].
  destruct (resync_one_inv2 eps c k I) as (I1 & _ & _ & _).
  pose proof (resync_one_queuedA c k l A I HP) as P1. pose proof (resync_one_cover c k I HC) as C1.
  destruct (resync_one eps c k) as [c1 retry]. cbn [fst snd] in *.
  exact (IH c1 _ A I1 P1 C1).
Qed.

(* the drain, with tasks awaiting their pod notification: afterwards every held task equals
   NewTaskInfo(pod) unless it is awaiting; no pod that is still on the API server was dropped *)
Lemma drain_resync_A c A :
  Inv2 eps c -> QueuedA A c -> Cover c ->
  QueuedInA [] A (drain_resync eps c) /\ Cover (drain_resync eps c).
Proof.
  intros I HP HC. unfold drain_resync.
  assert (I0 : Inv2 eps (with_errq c [])) by (apply (inv2_frame eps c); auto).
  pose proof (resync_fold_A (c_errq c) (with_errq c []) [] A I0 HP HC) as H. cbv zeta in H.
  destruct (fold_left _ (c_errq c) (with_errq c [], [])) as [c' keep]. cbn [fst snd] in H.
  exact H.
Qed.


Lemma queuedA_mono l (A B : gset positive) c : A ⊆ B -> QueuedInA l A c -> QueuedInA l B c.
Proof. intros HAB HP i t Ht. destruct (HP i t Ht) as [H|[H|H]]; [left; exact H|right; left; exact H|right; right; set_solver]. Qed.

(* AddBindTask + bind flow with ANY outcome: a task left Binding is queued (API failure) or
   awaiting its pod notification (API success) *)
Lemma bind_queuedA c jid (tid : positive) nid (ok : bool) (A : gset positive) :
  Rep c -> QueuedA A c -> QueuedA (if ok then {[tid]} ∪ A else A) (fst (bind_task eps c jid tid nid ok)).
Proof.
  intros R HP.
  assert (HP' : QueuedA (if ok then {[tid]} ∪ A else A) c).
  { destruct ok; [|exact HP]. apply (queuedA_mono _ A); [set_solver|exact HP]. }
  unfold bind_task.
  destruct (c_jobs c !! jid) as [cj|] eqn:Hcj; [|exact HP'].
  destruct (stored_task c (Some jid) tid) as [st|] eqn:Hst; [|exact HP'].
  destruct (stored_task_facts c jid tid st R Hst) as (_ & _ & Hs & Hid & Hj & Hjn & Hw).
  destruct (c_nodes c !! nid) as [ni|]; [|exact HP'].
  destruct (n_has_node ni) eqn:Hhas; cbn [negb]; [|exact HP'].
  unfold job_set_status. cbn [fst snd].
  destruct (node_add eps ni (set_status st Binding)) as [[ni' t2]|err] eqn:Hadd.
  - assert (Ht2 : t_job t2 = jid).
    { unfold node_add in Hadd. repeat case_bool_decide; try discriminate.
      destruct (n_has_node ni); simpl in Hadd; [|injection Hadd as _ <-; exact Hj].
      destruct (less_equal_names eps _ _ _); [|discriminate]. injection Hadd as _ <-. exact Hj. }
    destruct ok; cbn [fst]; intros i t; unfold QueuedA, QueuedInA, synced_at in *; simpl;
      (destruct (decide (i = tid)) as [->|Hne];
       [rewrite lookup_insert; intros [= <-]|rewrite lookup_insert_ne by congruence; intros Ht]).
    + right. right. set_solver.
    + destruct (HP i t Ht) as [Hl|[Hr|Ha]]; [left; exact Hl|right; left; exact Hr|right; right; set_solver].
    + right. left. rewrite Ht2. apply elem_of_enq. auto.
    + destruct (HP i t Ht) as [Hl|[Hr|Ha]]; [left; exact Hl|right; left; apply elem_of_enq; auto|right; right; exact Ha].
  - rewrite set_status_back. cbn [fst]. intros i t. unfold synced_at. simpl.
    rewrite (insert_id (c_heap c) tid st Hs). apply HP'.
Qed.

Lemma evict_queuedA c jid (tid : positive) (ok : bool) (A : gset positive) :
  Rep c -> QueuedA A c -> QueuedA (if ok then {[tid]} ∪ A else A) (fst (evict_task eps c jid tid ok)).
Proof.
  intros R HP.
  assert (HP' : QueuedA (if ok then {[tid]} ∪ A else A) c).
  { destruct ok; [|exact HP]. apply (queuedA_mono _ A); [set_solver|exact HP]. }
  unfold evict_task.
  destruct (c_jobs c !! jid) as [cj|] eqn:Hcj; [|exact HP'].
  destruct (stored_task c (Some jid) tid) as [st|] eqn:Hst; [|exact HP'].
  destruct (stored_task_facts c jid tid st R Hst) as (_ & _ & Hs & Hid & Hj & Hjn & Hw).
  destruct (t_node st) as [n|]; [|exact HP'].
  destruct (c_nodes c !! n) as [ni|]; [|exact HP'].
  destruct (cj_pg cj); cbn [negb]; [|exact HP'].
  unfold job_set_status. cbn [fst snd].
  destruct (node_update eps ni (set_status st Releasing)) as [[ni' t2]|err] eqn:Hadd; [|exact HP'].
  assert (Ht2 : t_job t2 = jid).
  { unfold node_update, node_add in Hadd. repeat case_bool_decide; try discriminate.
    destruct (n_has_node (node_remove ni _)); simpl in Hadd; injection Hadd as _ <-; exact Hj. }
  destruct ok; cbn [fst]; intros i t; unfold QueuedA, QueuedInA, synced_at in *; simpl;
    (destruct (decide (i = tid)) as [->|Hne];
     [rewrite lookup_insert; intros [= <-]|rewrite lookup_insert_ne by congruence; intros Ht]).
  - right. right. set_solver.
  - destruct (HP i t Ht) as [Hl|[Hr|Ha]]; [left; exact Hl|right; left; exact Hr|right; right; set_solver].
  - right. left. rewrite Ht2. apply elem_of_enq. auto.
  - destruct (HP i t Ht) as [Hl|[Hr|Ha]]; [left; exact Hl|right; left; apply elem_of_enq; auto|right; right; exact Ha].
Qed.

Local Instance task_eq_dec : EqDecision task.
Proof. solve_decision. Defined.

(* the tasks awaiting their pod notification, along a history: a successful bind / eviction adds
   the task; a pod notification that is APPLIED (not the ignored update) or a pod delete removes it *)
Definition await (c : cache) (A : gset positive) (e : event) : gset positive :=
  match e with
  | EBind _ tid _ true | EEvict _ tid true => {[tid]} ∪ A
  | EPod p => if bool_decide (c_heap (handle eps c e) !! p_id p = Some (task_of_pod eps p)) then A ∖ {[p_id p]} else A
  | EPodDel i => A ∖ {[i]}
  | _ => A
  end.

(* the API rules; binds and evictions with any outcome *)
Definition step_ok4 (c : cache) (e : event) : Prop :=
  match e with
  | EPod p => pod_ok p /\ forall old, c_store c !! p_id p = Some old -> upd_ok old p
  | ENode v => sc (nv_base v) <> None
  | EPG g => g_id g <> no_job
  | _ => True
  end.
Lemma step_ok4_2 c e : step_ok4 c e -> step_ok2 e.
Proof. destruct e; simpl; tauto. Qed.

Lemma queuedA_frame c c' A :
  c_heap c' = c_heap c -> c_store c' = c_store c -> c_errq c' = c_errq c -> QueuedA A c -> QueuedA A c'.
Proof. intros H1 H2 H3 HP. unfold QueuedA, QueuedInA, synced_at. rewrite H1, H2, H3. exact HP. Qed.

Theorem step_queuedA c e A :
  Inv2 eps c -> QueuedA A c -> Cover c -> step_ok4 c e -> QueuedA (await c A e) (handle eps c e).
Proof.
  intros I HP HC Hok. pose proof I as (R & So & Co). destruct e; simpl in Hok.
  - destruct Hok as [Hokp Hupd].
    destruct (pod_event_full eps c p I Hokp) as ((_ & Hst & _) & Hoth & Hid). cbn [store_after] in Hst.
    pose proof (handle_errq eps c (EPod p) Logic.I) as Hq.
    unfold await. intros i t Ht. unfold synced_at. rewrite Hst, Hq.
    destruct (decide (i = p_id p)) as [->|Hne].
    + rewrite lookup_insert. case_bool_decide as Hap.
      * rewrite Hap in Ht. injection Ht as <-. left. eauto.
      * destruct Hid as [Hnew|(Hsame & t0 & Ht0 & Hal & Hnn)]; [contradiction|].
        rewrite Hsame, Ht0 in Ht. injection Ht as <-.
        destruct (HP _ t0 Ht0) as [(old & Hold & ->)|[Hr|Ha]]; [|right; left; exact Hr|right; right; exact Ha]. exfalso.
        destruct (So _ _ Hold) as [_ Hokold].
        pose proof (allocated_needs_node old Hokold Hal) as Hn. rewrite (Hupd old Hold Hn) in Hnn. contradiction.
    + rewrite Hoth in Ht by exact Hne. rewrite lookup_insert_ne by congruence.
      destruct (HP i t Ht) as [Hl|[Hr|Ha]]; [left; exact Hl|right; left; exact Hr|right; right].
      case_bool_decide; set_solver.
  - destruct (pod_delete_inv2 eps c id I) as ((_ & Hst & _) & Hh). cbn [store_after] in Hst.
    pose proof (handle_errq eps c (EPodDel id) Logic.I) as Hq.
    unfold await. intros i t Ht. unfold synced_at. rewrite Hst, Hq. rewrite Hh in Ht.
    destruct (c_store c !! id) as [old|] eqn:Hold.
    + rewrite lookup_delete_Some in Ht. destruct Ht as [Hne Ht]. rewrite lookup_delete_ne by congruence.
      destruct (HP i t Ht) as [Hl|[Hr|Ha]]; [left; exact Hl|right; left; exact Hr|right; right; set_solver].
    + destruct (decide (i = id)) as [->|Hne].
      * exfalso. destruct (Co id t Ht) as (p & Hp & _). congruence.
      * rewrite delete_notin by exact Hold.
        destruct (HP i t Ht) as [Hl|[Hr|Ha]]; [left; exact Hl|right; left; exact Hr|right; right; set_solver].
  - apply (queuedA_frame c); auto.
  - pose proof (handle_errq eps c (ENodeDel id) Logic.I) as Hq.
    assert (E : c_heap (remove_node c id) = c_heap c /\ c_store (remove_node c id) = c_store c).
    { unfold remove_node, remove_node_ledger. destruct (c_nodes c !! id); [case_bool_decide|]; split; reflexivity. }
    destruct E as [E1 E2]. apply (queuedA_frame c); auto.
  - apply (queuedA_frame c); auto.
  - pose proof (handle_errq eps c (EPGDel id) Logic.I) as Hq.
    assert (E : c_heap (delete_pod_group c id) = c_heap c /\ c_store (delete_pod_group c id) = c_store c).
    { unfold delete_pod_group. destruct (c_jobs c !! id); split; reflexivity. }
    destruct E as [E1 E2]. apply (queuedA_frame c); auto.
  - apply (queuedA_frame c); auto.
  - apply (queuedA_frame c); auto.
  - destruct (drain_cleanup_inv2 eps c I) as (_ & (E1 & _) & Hh).
    apply (queuedA_frame c); auto. exact (handle_errq eps c EDrainCleanup Logic.I).
  - destruct (drain_resync_A c A I HP HC) as [HQ _].
    intros i t Ht. destruct (HQ i t Ht) as [Hl|[Hr|Ha]]; [left; exact Hl|inversion Hr|right; right; exact Ha].
  - destruct ok; exact (bind_queuedA c jid tid nid _ A R HP).
  - destruct ok; exact (evict_queuedA c jid tid _ A R HP).
  - pose proof (handle_errq eps c (EApiGone id) Logic.I) as Hq. unfold handle, handle_with in *.
    case_bool_decide; apply (queuedA_frame c); auto.
Qed.


Lemma delete_pod_gone c old : c_gone (delete_pod eps c old) = c_gone c.
Proof.
  unfold delete_pod. destruct (p_job old) as [j|]; [|reflexivity].
  destruct (c_jobs (delete_task c (Some j) _) !! j) as [cj|]; [|reflexivity].
  destruct (job_terminated cj); reflexivity.
Qed.
Lemma add_task_gone c jo t : c_gone (fst (add_task eps c jo t)) = c_gone c.
Proof. unfold add_task. destruct (add_task_nodes eps c t) as [n ok]. destruct ok, jo; reflexivity. Qed.

(* Theorem: no step of the whole alphabet drops a pod that is still on the API server *)
Theorem step_cover c e : Inv2 eps c -> Cover c -> step_ok2 e -> Cover (handle eps c e).
Proof.
  intros I HC Hok. pose proof I as (R & So & Co). destruct e; simpl in Hok.
  - destruct (pod_event_full eps c p I Hok) as ((_ & Hst & _) & Hoth & Hid). cbn [store_after] in Hst.
    assert (Hg : c_gone (handle eps c (EPod p)) = c_gone c ∖ {[p_id p]}).
    { unfold handle, handle_with. destruct (c_store c !! p_id p) as [old|]; simpl.
      - unfold update_pod. destruct (_ && _); [reflexivity|]. unfold add_pod. rewrite add_task_gone, delete_pod_gone. reflexivity.
      - unfold add_pod. rewrite add_task_gone. reflexivity. }
    intros i q. rewrite Hst, Hg. destruct (decide (i = p_id p)) as [->|Hne].
    + intros _. right. destruct Hid as [Hnew|(Hsame & t0 & Ht0 & _)]; [rewrite Hnew; eauto|rewrite Hsame, Ht0; eauto].
    + rewrite lookup_insert_ne by congruence. intros Hq. rewrite Hoth by exact Hne.
      destruct (HC i q Hq) as [Hgo|Hh]; [left; set_solver|right; exact Hh].
  - destruct (pod_delete_inv2 eps c id I) as ((_ & Hst & _) & Hh). cbn [store_after] in Hst.
    intros i q. rewrite Hst, Hh. rewrite lookup_delete_Some. intros [Hne Hq].
    assert (Hg : forall x, x ∈ c_gone c -> x <> id -> x ∈ c_gone (handle eps c (EPodDel id))).
    { unfold handle, handle_with. destruct (c_store c !! id) as [old|]; [|auto]. simpl. rewrite delete_pod_gone. set_solver. }
    destruct (HC i q Hq) as [Hgo|Hh']; [left; apply Hg; auto|right].
    destruct (c_store c !! id); [rewrite lookup_delete_ne by congruence|]; exact Hh'.
  - exact HC.
  - assert (E : c_heap (remove_node c id) = c_heap c /\ c_store (remove_node c id) = c_store c /\ c_gone (remove_node c id) = c_gone c).
    { unfold remove_node, remove_node_ledger. destruct (c_nodes c !! id); [case_bool_decide|]; repeat split; reflexivity. }
    destruct E as (E1 & E2 & E3). unfold Cover, handle, handle_with. rewrite E1, E2, E3. exact HC.
  - exact HC.
  - assert (E : c_heap (delete_pod_group c id) = c_heap c /\ c_store (delete_pod_group c id) = c_store c /\ c_gone (delete_pod_group c id) = c_gone c).
    { unfold delete_pod_group. destruct (c_jobs c !! id); repeat split; reflexivity. }
    destruct E as (E1 & E2 & E3). unfold Cover, handle, handle_with. rewrite E1, E2, E3. exact HC.
  - exact HC.
  - exact HC.
  - destruct (drain_cleanup_inv2 eps c I) as (_ & (E1 & E2 & _) & Hh).
    unfold Cover, handle, handle_with. rewrite E1, E2, Hh. exact HC.
  - assert (HQ : QueuedA (dom (c_heap c)) c).
    { intros i t Ht. right. right. apply elem_of_dom. eauto. }
    exact (proj2 (drain_resync_A c _ I HQ HC)).
  - destruct (bind_task_post eps c jid tid nid ok R) as (_ & Hst & Hg & _ & _ & Hoth & Hid).
    intros i q. unfold handle, handle_with. rewrite Hst, Hg. intros Hq.
    destruct (HC i q Hq) as [Hgo|[t Ht]]; [left; exact Hgo|right].
    destruct (decide (i = tid)) as [->|Hne]; [|rewrite Hoth by exact Hne; eauto].
    rewrite Ht in Hid. destruct Hid as (t' & Ht' & _). eauto.
  - destruct (evict_task_rep eps c jid tid ok R) as (_ & Hst & Hg & _ & _ & Hoth & Hid).
    intros i q. unfold handle, handle_with. rewrite Hst, Hg. intros Hq.
    destruct (HC i q Hq) as [Hgo|[t Ht]]; [left; exact Hgo|right].
    destruct (decide (i = tid)) as [->|Hne]; [|rewrite Hoth by exact Hne; eauto].
    rewrite Ht in Hid. destruct Hid as (t' & Ht' & _). eauto.
  - unfold handle, handle_with. case_bool_decide; [|exact HC].
    intros i q Hq. simpl in *. destruct (HC i q Hq) as [Hgo|Hh]; [left; set_solver|right; exact Hh].
Qed.

Fixpoint hist_ok4 (c : cache) (h : list event) : Prop :=
  match h with [] => True | e :: r => step_ok4 c e /\ hist_ok4 (handle eps c e) r end.
Fixpoint await_run (c : cache) (A : gset positive) (h : list event) : gset positive :=
  match h with [] => A | e :: r => await_run (handle eps c e) (await c A e) r end.

Lemma history_queuedA h : forall c A, Inv2 eps c -> QueuedA A c -> Cover c -> hist_ok4 c h ->
  Inv2 eps (run eps c h) /\ QueuedA (await_run c A h) (run eps c h) /\ Cover (run eps c h).
Proof.
  induction h as [|e r IH]; intros c A I HP HC Hok; [auto|].
  destruct Hok as [H1 H2]. simpl. apply IH; [|apply step_queuedA; auto| |exact H2].
  - exact (proj1 (step_inv2 eps c e I (step_ok4_2 c e H1))).
  - exact (step_cover c e I HC (step_ok4_2 c e H1)).
Qed.

Lemma await_run_app c A h1 h2 :
  await_run c A (h1 ++ h2) = await_run (run eps c h1) (await_run c A h1) h2.
Proof. revert c A. induction h1 as [|e r IH]; intros c A; [reflexivity|]. simpl. apply IH. Qed.

(* Theorem (failed_bind_repaired / failed_evict_repaired, ANY mix of outcomes): after any history
   of informer events, successful / refused / failed binds and evictions, pods vanishing from the
   API server and drains, one resync drain leaves
   - the invariant,
   - every held task equal to NewTaskInfo(its pod), except the tasks of successful binds /
     evictions whose pod notification has not been applied yet ([await_run]),
   - and every pod of the informer store that is still on the API server held *)
Theorem mixed_failures_repaired h :
  hist_ok4 empty_cache h ->
  let c := run eps empty_cache (h ++ [EDrainResync]) in
  let A := await_run empty_cache ∅ h in
  Inv2 eps c /\
  (forall i t, c_heap c !! i = Some t -> synced_at c i t \/ i ∈ A) /\
  (forall i p, c_store c !! i = Some p -> i ∈ c_gone c \/ is_Some (c_heap c !! i)).
Proof.
  intros Hok c A.
  assert (HQ0 : QueuedA ∅ empty_cache) by (intros i t Ht; simpl in Ht; rewrite lookup_empty in Ht; discriminate).
  assert (HC0 : Cover empty_cache) by (intros i p Hp; simpl in Hp; rewrite lookup_empty in Hp; discriminate).
  destruct (history_queuedA h empty_cache ∅ (inv2_empty eps) HQ0 HC0 Hok) as (I & HQ & HC).
  unfold c, run. rewrite fold_left_app. simpl. fold (run eps empty_cache h). fold A in HQ.
  set (c1 := run eps empty_cache h) in *.
  destruct (drain_resync_inv2 eps c1 I) as (I' & _).
  destruct (drain_resync_A c1 A I HQ HC) as [HQ' HC'].
  split; [exact I'|]. split; [|exact HC'].
  intros i t Ht. destruct (HQ' i t Ht) as [Hl|[Hr|Ha]]; [left; exact Hl|inversion Hr|right; exact Ha].
Qed.

(* at quiescence -- nothing awaiting, no pod gone ahead of its notification -- the cache holds
   exactly NewTaskInfo of every delivered pod *)
Lemma quiescent_synced c :
  Inv2 eps c -> (forall i t, c_heap c !! i = Some t -> synced_at c i t) -> Cover c -> c_gone c = ∅ -> Synced eps c.
Proof.
  intros (R & So & Co) HS HC Hg. unfold Synced. apply map_eq. intros i. rewrite lookup_fmap.
  destruct (c_store c !! i) as [p|] eqn:Hp; simpl.
  - destruct (HC i p Hp) as [Hgo|[t Ht]]; [rewrite Hg in Hgo; set_solver|].
    destruct (HS i t Ht) as (q & Hq & ->). congruence.
  - destruct (c_heap c !! i) as [t|] eqn:Ht; [|reflexivity]. destruct (Co i t Ht) as (q & Hq & _). congruence.
Qed.


(* ---------- convergence over the WHOLE alphabet ---------- *)

Lemma o_pods_apply o e : o_pods (apply_event o e) = store_after (o_pods o) e.
Proof. destruct e; reflexivity. Qed.

(* the store and the node objects are tracked through every kind of step *)
Theorem step_tracks2 c e o :
  Inv2 eps c -> step_ok2 e -> Tracks c o -> Tracks (handle eps c e) (apply_event o e).
Proof.
  intros I Hok [Hst Hm]. pose proof I as (R & So & Co).
  destruct (step_inv2 eps c e I Hok) as (_ & Hst' & Hne).
  split; [rewrite o_pods_apply, Hst', Hst; reflexivity|].
  destruct e; simpl in Hok; try (apply (mirror_ext c); [apply Hne; reflexivity|exact Hm]).
  - destruct (node_event_inv c v R Hok) as (_ & N & HN & Hh & Ha).
    intros n. simpl. destruct (decide (n = nv_id v)) as [->|Hne2].
    + rewrite lookup_insert. exists N. auto.
    + rewrite lookup_insert_ne by congruence. specialize (Hm n).
      unfold handle, handle_with, node_event, add_or_update_node. simpl. rewrite lookup_insert_ne by congruence. exact Hm.
  - intros n. simpl. specialize (Hm n). unfold remove_node, remove_node_ledger.
    destruct (decide (n = id)) as [->|Hne2].
    + rewrite lookup_delete. destruct (c_nodes c !! id) as [ni|] eqn:E; [case_bool_decide|]; simpl.
      * intros N. rewrite lookup_delete. discriminate.
      * intros N. rewrite lookup_insert. intros [= <-]. reflexivity.
      * intros N HN. congruence.
    + rewrite lookup_delete_ne by congruence.
      destruct (c_nodes c !! id) as [ni|] eqn:E; [case_bool_decide|]; simpl;
        rewrite ?lookup_delete_ne, ?lookup_insert_ne by congruence; exact Hm.
Qed.

Lemma history_tracks2 h : forall c o,
  Inv2 eps c -> hist_ok2 h -> Tracks c o -> Tracks (run eps c h) (fold_left apply_event h o).
Proof.
  induction h as [|e r IH]; intros c o I Hok HT; [exact HT|].
  destruct Hok as [H1 H2]. simpl. apply IH; [exact (proj1 (step_inv2 eps c e I H1))|exact H2|apply step_tracks2; auto].
Qed.

Lemma hist_ok4_2 h : forall c, hist_ok4 c h -> hist_ok2 h.
Proof. induction h as [|e r IH]; intros c H; [exact Logic.I|]. destruct H as [H1 H2]. split; [exact (step_ok4_2 c e H1)|exact (IH _ H2)]. Qed.

(* two caches with the invariant, the same tasks and node entries mirroring the same node
   objects have the same view *)
Lemma view_of_tracks c c' (on : gmap positive nodever) :
  Rep c -> Rep c' -> c_heap c = c_heap c' -> NodesMirror c on -> NodesMirror c' on ->
  (forall j cj, c_jobs c !! j = Some cj ->
     (j_tasks (cj_job cj) <> ∅ -> is_Some (c_jobs c' !! j)) /\
     (forall cj', c_jobs c' !! j = Some cj' -> job_equiv cj cj')) /\
  (forall n N, c_nodes c !! n = Some N ->
     (n_tasks N <> ∅ \/ n_has_node N = true -> is_Some (c_nodes c' !! n)) /\
     (forall N', c_nodes c' !! n = Some N' ->
        n_tasks N = n_tasks N' /\ n_has_node N = n_has_node N' /\
        (n_has_node N = true ->
         res_eqv (n_alloc N) (n_alloc N') /\ res_eqv (n_idle N) (n_idle N') /\ res_eqv (n_used N) (n_used N') /\
         res_eqv (n_releasing N) (n_releasing N') /\ res_eqv (n_pipelined N) (n_pipelined N')))).
Proof.
  intros R R' Hh Hm Hm'. destruct (view_determined c c' R R' Hh) as [HJ HN]. split; [exact HJ|].
  intros n N HNn. destruct (HN n N HNn) as [Hex Heq]. split.
  - intros [Ht|Hhas]; [exact (Hex Ht)|].
    specialize (Hm n). specialize (Hm' n). destruct (on !! n) as [ob|].
    + destruct Hm' as (N' & HN' & _). eauto.
    + rewrite (Hm N HNn) in Hhas. discriminate.
  - intros N' HN'. destruct (Heq N' HN') as [Hts Hled].
    specialize (Hm n). specialize (Hm' n). destruct (on !! n) as [ob|].
    + destruct Hm as (N1 & HN1 & Hh1 & Ha1). destruct Hm' as (N2 & HN2 & Hh2 & Ha2).
      rewrite HNn in HN1. injection HN1 as <-. rewrite HN' in HN2. injection HN2 as <-.
      split; [exact Hts|]. split; [congruence|]. intros _.
      assert (Hal : res_eqv (n_alloc N) (n_alloc N')) by (rewrite Ha1, Ha2; apply res_eqv_amt; reflexivity).
      split; [exact Hal|]. exact (Hled Hh1 Hh2 Hal).
    + split; [exact Hts|]. rewrite (Hm N HNn), (Hm' N' HN'). split; [reflexivity|discriminate].
Qed.

(* a history brought to quiescence: a final resync drain, after which nothing is awaiting a pod
   notification and no pod is gone from the API server ahead of its delete notification *)
Definition quiescent (h : list event) : Prop :=
  await_run empty_cache ∅ h = ∅ /\ c_gone (run eps empty_cache (h ++ [EDrainResync])) = ∅.

Lemma quiescent_history_synced h :
  hist_ok4 empty_cache h -> quiescent h ->
  let c := run eps empty_cache (h ++ [EDrainResync]) in
  Inv2 eps c /\ Synced eps c /\ Tracks c (final_objects h).
Proof.
  intros Hok [HA Hg] c. destruct (mixed_failures_repaired h Hok) as (I & HS & HC). fold c in I, HS, HC, Hg.
  split; [exact I|]. split.
  - apply quiescent_synced; auto. intros i t Ht. destruct (HS i t Ht) as [H|H]; [exact H|]. rewrite HA in H. set_solver.
  - assert (Hok2 : hist_ok2 (h ++ [EDrainResync])).
    { pose proof (hist_ok4_2 h _ Hok) as H2. clear -H2. induction h as [|e r IH]; simpl; [auto|]. destruct H2. auto. }
    pose proof (history_tracks2 (h ++ [EDrainResync]) empty_cache no_objs (inv2_empty eps) Hok2 tracks_empty) as HT.
    rewrite fold_left_app in HT. exact HT.
Qed.

(* Theorem (converges_to_final_objects, WHOLE alphabet -- the property's headline clause): two
   histories of informer notifications (pods, nodes incl. remove / re-add, PodGroups, queues),
   scheduling-cycle steps (AddBindTask / Evict with any outcome), pods vanishing from the API
   server and repair-queue drains, in any interleaving, each brought to quiescence, with the same
   final pods and node objects, leave caches with the same view.  Taking for h' the canonical
   feed of the final objects gives "view = view built from the final objects alone". *)
Theorem converges_whole_alphabet h h' :
  hist_ok4 empty_cache h -> hist_ok4 empty_cache h' -> quiescent h -> quiescent h' ->
  o_pods (final_objects h) = o_pods (final_objects h') ->
  o_nodes (final_objects h) = o_nodes (final_objects h') ->
  let c := run eps empty_cache (h ++ [EDrainResync]) in
  let c' := run eps empty_cache (h' ++ [EDrainResync]) in
  c_heap c = c_heap c' /\
  (forall j cj, c_jobs c !! j = Some cj ->
     (j_tasks (cj_job cj) <> ∅ -> is_Some (c_jobs c' !! j)) /\
     (forall cj', c_jobs c' !! j = Some cj' -> job_equiv cj cj')) /\
  (forall n N, c_nodes c !! n = Some N ->
     (n_tasks N <> ∅ \/ n_has_node N = true -> is_Some (c_nodes c' !! n)) /\
     (forall N', c_nodes c' !! n = Some N' ->
        n_tasks N = n_tasks N' /\ n_has_node N = n_has_node N' /\
        (n_has_node N = true ->
         res_eqv (n_alloc N) (n_alloc N') /\ res_eqv (n_idle N) (n_idle N') /\ res_eqv (n_used N) (n_used N') /\
         res_eqv (n_releasing N) (n_releasing N') /\ res_eqv (n_pipelined N) (n_pipelined N')))).
Proof.
  intros Hok Hok' Hq Hq' Hp Hn c c'.
  destruct (quiescent_history_synced h Hok Hq) as ((R & _) & S & Hst & Hm).
  destruct (quiescent_history_synced h' Hok' Hq') as ((R' & _) & S' & Hst' & Hm').
  fold c in R, S, Hst, Hm. fold c' in R', S', Hst', Hm'.
  assert (Hh : c_heap c = c_heap c').
  { unfold Synced in S, S'. rewrite S, S', Hst, Hst', Hp. reflexivity. }
  split; [exact Hh|]. rewrite <- Hn in Hm'. exact (view_of_tracks c c' _ R R' Hh Hm Hm').
Qed.


(* ---------- what an accepted bind / eviction does (not just what it preserves) ---------- *)

Lemma node_add_result N t N' t' :
  node_add eps N t = inl (N', t') ->
  t' = set_node t (Some (n_id N)) /\ n_tasks N' = <[t_id t := t']> (n_tasks N).
Proof.
  unfold node_add. repeat case_bool_decide; try discriminate.
  destruct (n_has_node N); simpl.
  - destruct (t_status t); try (intros [= <- <-]; auto).
    destruct (less_equal_names eps _ _ _); [intros [= <- <-]; auto|discriminate].
  - intros [= <- <-]. auto.
Qed.

(* Theorem: an accepted AddBindTask leaves the task Binding with the node's name, in the job's
   table and as the node's copy; the API outcome decides whether a resync is queued *)
Theorem bind_task_done c jid tid nid ok :
  Rep c -> snd (bind_task eps c jid tid nid ok) = RDone ->
  let c' := fst (bind_task eps c jid tid nid ok) in
  exists st ni', stored_task c (Some jid) tid = Some st /\
    let t' := set_node (set_status st Binding) (Some nid) in
    c_heap c' !! tid = Some t' /\ c_nodes c' !! nid = Some ni' /\ n_tasks ni' !! tid = Some t' /\
    (if ok then c_errq c' = c_errq c else (jid, tid) ∈ c_errq c').
Proof.
  intros R. unfold bind_task.
  destruct (c_jobs c !! jid) as [cj|] eqn:Hcj; [|discriminate].
  destruct (stored_task c (Some jid) tid) as [st|] eqn:Hst; [|discriminate].
  destruct (stored_task_facts c jid tid st R Hst) as (_ & _ & Hs & Hid & _).
  destruct (c_nodes c !! nid) as [ni|] eqn:Hni; [|discriminate].
  destruct (n_has_node ni) eqn:Hhas; cbn [negb]; [|discriminate].
  pose proof (nr_id _ _ _ (rp_nodes c R nid ni Hni)) as Hidn.
  unfold job_set_status. cbn [fst snd].
  destruct (node_add eps ni (set_status st Binding)) as [[ni' t2]|err] eqn:Hadd; [|discriminate].
  destruct (node_add_result _ _ _ _ Hadd) as [Ht2 Hts]. rewrite Hidn in Ht2. change (t_id (set_status st Binding)) with (t_id st) in Hts.
  rewrite Hid in Hts. intros _. exists st, ni'. split; [reflexivity|]. cbv zeta. rewrite <- Ht2.
  destruct ok; cbn [fst]; simpl; rewrite !lookup_insert, Hts, lookup_insert; repeat split; auto.
  apply elem_of_enq. auto.
Qed.

Theorem evict_task_done c jid tid ok :
  Rep c -> snd (evict_task eps c jid tid ok) = RDone ->
  let c' := fst (evict_task eps c jid tid ok) in
  exists st n ni', stored_task c (Some jid) tid = Some st /\ t_node st = Some n /\
    let t' := set_status st Releasing in
    c_heap c' !! tid = Some t' /\ c_nodes c' !! n = Some ni' /\ n_tasks ni' !! tid = Some t' /\
    (if ok then c_errq c' = c_errq c else (jid, tid) ∈ c_errq c').
Proof.
  intros R. unfold evict_task.
  destruct (c_jobs c !! jid) as [cj|] eqn:Hcj; [|discriminate].
  destruct (stored_task c (Some jid) tid) as [st|] eqn:Hst; [|discriminate].
  destruct (stored_task_facts c jid tid st R Hst) as (_ & _ & Hs & Hid & _).
  destruct (t_node st) as [n|] eqn:Hnode; [|discriminate].
  destruct (c_nodes c !! n) as [ni|] eqn:Hni; [|discriminate].
  pose proof (nr_id _ _ _ (rp_nodes c R n ni Hni)) as Hidn.
  destruct (cj_pg cj); cbn [negb]; [|discriminate].
  unfold job_set_status. cbn [fst snd].
  destruct (node_update eps ni (set_status st Releasing)) as [[ni' t2]|err] eqn:Hadd; [|discriminate].
  unfold node_update in Hadd. destruct (node_add_result _ _ _ _ Hadd) as [Ht2 Hts].
  assert (Hidr : n_id (node_remove ni (t_id (set_status st Releasing))) = n).
  { unfold node_remove. destruct (n_tasks ni !! _); [|exact Hidn]. destruct (n_has_node ni); [destruct (t_status t)|]; exact Hidn. }
  rewrite Hidr in Ht2. rewrite (set_node_same (set_status st Releasing) n Hnode) in Ht2. subst t2.
  change (t_id (set_status st Releasing)) with (t_id st) in Hts. rewrite Hid in Hts.
  intros _. exists st, n, ni'. split; [reflexivity|]. split; [exact Hnode|]. cbv zeta. rewrite Hidn.
  destruct ok; cbn [fst]; simpl; rewrite !lookup_insert, Hts, lookup_insert; repeat split; auto.
  apply elem_of_enq. auto.
Qed.


(* ---------- a history-only sufficient condition for "nothing awaiting" ---------- *)

(* read off the history alone: a successful bind / eviction is acknowledged by a later pod
   notification that carries a node name (one without is the update UpdatePod may ignore) or
   by the pod's delete *)
Definition pend_syn (A : gset positive) (e : event) : gset positive :=
  match e with
  | EBind _ tid _ true | EEvict _ tid true => {[tid]} ∪ A
  | EPod p => if bool_decide (p_node p = None) then A else A ∖ {[p_id p]}
  | EPodDel i => A ∖ {[i]}
  | _ => A
  end.

Lemma await_sub c (A B : gset positive) e :
  Inv2 eps c -> step_ok2 e -> A ⊆ B -> await c A e ⊆ pend_syn B e.
Proof.
  intros I Hok HAB. destruct e; try (simpl; set_solver).
  - simpl in Hok. destruct (pod_event_full eps c p I Hok) as (_ & _ & Hid).
    unfold await, pend_syn. destruct (decide (p_node p = None)) as [Hn|Hn].
    + rewrite (bool_decide_eq_true_2 (p_node p = None)) by exact Hn. case_bool_decide; set_solver.
    + rewrite (bool_decide_eq_false_2 (p_node p = None)) by exact Hn.
      destruct Hid as [Hnew|(_ & t0 & _ & _ & Hnn)]; [|contradiction].
      rewrite bool_decide_eq_true_2 by exact Hnew. set_solver.
  - simpl. destruct ok; set_solver.
  - simpl. destruct ok; set_solver.
Qed.

Lemma await_run_sub h : forall c (A B : gset positive),
  Inv2 eps c -> hist_ok4 c h -> A ⊆ B -> await_run c A h ⊆ fold_left pend_syn h B.
Proof.
  induction h as [|e r IH]; intros c A B I Hok HAB; [exact HAB|].
  destruct Hok as [H1 H2]. simpl. apply IH; [|exact H2|].
  - exact (proj1 (step_inv2 eps c e I (step_ok4_2 c e H1))).
  - apply await_sub; auto. exact (step_ok4_2 c e H1).
Qed.

(* Theorem: the "nothing awaiting" half of [quiescent] follows from a condition on the history
   alone; the other half, [c_gone = ∅], is a condition on the final state of the environment
   (no pod deleted on the API server whose delete notification is still in flight) *)
Theorem acked_nothing_awaiting h :
  hist_ok4 empty_cache h -> fold_left pend_syn h ∅ = ∅ -> await_run empty_cache ∅ h = ∅.
Proof.
  intros Hok Hs. pose proof (await_run_sub h empty_cache ∅ ∅ (inv2_empty eps) Hok ltac:(set_solver)) as H.
  rewrite Hs in H. set_solver.
Qed.

End Mixed.

(* ---------- resync attempts whose GET fails ---------- *)

Section GetFailures.
Variable eps : Z.

(* Theorem: a drain during which every GET fails changes nothing but the queue, from which it
   only drops keys of tasks that are no longer held: the invariant, "every task that differs
   from its pod is queued or awaiting" and "no pod still on the API server is dropped" survive *)
Theorem allfail_keeps c (A : gset positive) :
  Inv2 eps c -> QueuedA eps A c -> Cover c ->
  Inv2 eps (drain_resync_allfail c) /\ QueuedA eps A (drain_resync_allfail c) /\ Cover (drain_resync_allfail c).
Proof.
  intros I HP HC. pose proof I as (R & So & Co). split; [apply (inv2_frame eps c); auto|]. split; [|exact HC].
  intros i t Ht. simpl in Ht. destruct (HP i t Ht) as [Hl|[Hr|Ha]]; [left; exact Hl| |right; right; exact Ha].
  destruct (decide (t_job t = no_job)) as [Hnj|Hnj].
  - left. destruct (Co i t Ht) as (p & Hp & _ & B). exists p. split; [exact Hp|exact (B Hnj)].
  - right. left. unfold drain_resync_allfail. cbn [c_errq with_errq]. apply elem_of_list_In, filter_In.
    split; [apply elem_of_list_In; exact Hr|]. cbn [fst snd].
    rewrite (stored_some c (t_job t) i t R Ht eq_refl Hnj). reflexivity.
Qed.

(* Theorem (repair is independent of the number of failed attempts): after ANY number [n] of
   drains whose GETs all fail -- retryResyncTask re-queues the key every time, without bound --
   one drain with the API server reachable repairs exactly as if there had been none *)
Theorem repaired_after_failed_attempts c (A : gset positive) n :
  Inv2 eps c -> QueuedA eps A c -> Cover c ->
  let c' := drain_resync eps (Nat.iter n drain_resync_allfail c) in
  Inv2 eps c' /\ (forall i t, c_heap c' !! i = Some t -> synced_at eps c' i t \/ i ∈ A) /\ Cover c'.
Proof.
  intros I HP HC.
  assert (H : Inv2 eps (Nat.iter n drain_resync_allfail c) /\ QueuedA eps A (Nat.iter n drain_resync_allfail c) /\
              Cover (Nat.iter n drain_resync_allfail c)).
  { induction n as [|n IH]; [auto|]. simpl. destruct IH as (I1 & P1 & C1). apply allfail_keeps; auto. }
  destruct H as (I1 & P1 & C1). cbv zeta.
  destruct (drain_resync_inv2 eps _ I1) as (I' & _). destruct (drain_resync_A eps _ A I1 P1 C1) as [HQ' HC'].
  split; [exact I'|]. split; [|exact HC'].
  intros i t Ht. destruct (HQ' i t Ht) as [Hl|[Hr|Ha]]; [left; exact Hl|inversion Hr|right; exact Ha].
Qed.

End GetFailures.

(* ---------- a batch of bind contexts is the fold of the single-context step ---------- *)

Section Batch.
Variable eps : Z.

(* everything but the resync queue *)
Definition same_but_errq (a b : cache) : Prop :=
  c_store a = c_store b /\ c_gone a = c_gone b /\ c_heap a = c_heap b /\ c_jobs a = c_jobs b /\
  c_nodes a = c_nodes b /\ c_nodelist a = c_nodelist b /\ c_queues a = c_queues b /\
  c_delq a = c_delq b /\ c_nattr a = c_nattr b.

Lemma cache_with_errq a b : same_but_errq a b -> b = with_errq a (c_errq b).
Proof. destruct a, b. unfold same_but_errq, with_errq. simpl. intros (-> & -> & -> & -> & -> & -> & -> & -> & ->). reflexivity. Qed.

(* AddBindTask reads nothing of the resync queue, and the API outcome touches nothing else *)
Lemma bind_task_errq_indep c q j t n ok :
  same_but_errq (fst (bind_task eps (with_errq c q) j t n ok)) (fst (bind_task eps c j t n true)) /\
  snd (bind_task eps (with_errq c q) j t n ok) = snd (bind_task eps c j t n true).
Proof.
  unfold bind_task.
  replace (stored_task (with_errq c q) (Some j) t) with (stored_task c (Some j) t) by reflexivity.
  change (c_jobs (with_errq c q)) with (c_jobs c). change (c_nodes (with_errq c q)) with (c_nodes c).
  destruct (c_jobs c !! j) as [cj|]; [|repeat split; reflexivity].
  destruct (stored_task c (Some j) t) as [st|]; [|repeat split; reflexivity].
  destruct (c_nodes c !! n) as [ni|]; [|repeat split; reflexivity].
  destruct (n_has_node ni); cbn [negb]; [|repeat split; reflexivity].
  unfold job_set_status. cbn [fst snd].
  destruct (node_add eps ni (set_status st Binding)) as [[ni' t2]|err]; [destruct ok|]; repeat split; reflexivity.
Qed.

(* Theorem (C08_bind_batch_is_fold): a batch of bind contexts leaves, in every field EXCEPT the
   resync queue (about which this statement says nothing: see bind_batch_errq below), the state
   the single-context step leaves when folded over the batch, each context with its own outcome *)
Theorem bind_batch_is_fold l : forall c,
  same_but_errq (fst (bind_batch eps c l))
                (fold_left (fun c x => let '(j, t, n, f) := x in fst (bind_task eps c j t n (f =? 1))) l c).
Proof.
  intros c. unfold bind_batch.
  assert (G : forall l (a b : cache) rs, same_but_errq a b ->
     same_but_errq
       (fst (fold_left (fun (acc : cache * list opres) x =>
                 let '(j, t, n, _) := x in
                 let '(c', r) := bind_task eps (fst acc) j t n true in (c', snd acc ++ [r])) l (a, rs)))
       (fold_left (fun c x => let '(j, t, n, f) := x in fst (bind_task eps c j t n (f =? 1))) l b)).
  { clear. induction l as [|[[[j t] n] f] l IH]; intros a b rs Hab; [exact Hab|]. simpl.
    destruct (bind_task eps a j t n true) as [a1 r1] eqn:Ea. cbn [fst snd]. apply IH.
    rewrite (cache_with_errq a b Hab).
    destruct (bind_task_errq_indep a (c_errq b) j t n (f =? 1)) as [H _]. rewrite Ea in H. cbn [fst] in H.
    destruct H as (A1 & A2 & A3 & A4 & A5 & A6 & A7 & A8 & A9). repeat split; congruence. }
  specialize (G l c c [] ltac:(repeat split; reflexivity)).
  destruct (fold_left _ l (c, [])) as [c1 rs]. cbn [fst snd] in *.
  destruct G as (A1 & A2 & A3 & A4 & A5 & A6 & A7 & A8 & A9). repeat split; simpl; assumption.
Qed.


(* ----- the resync queue of a batch (third audit, E22) ----- *)

Notation bctx := (positive * positive * positive * Z)%type.
Definition bkey (xr : bctx * opres) : positive * positive := let '(j, t, _, _) := fst xr in (j, t).
Definition bfault (xr : bctx * opres) : Z := let '(_, _, _, f) := fst xr in f.

(* the walk over a batch, each context with the API outcome [okf] assigns to its fault code *)
Definition bfold (okf : Z -> bool) (l : list bctx) (acc : cache * list opres) : cache * list opres :=
  fold_left (fun (acc : cache * list opres) x =>
               let '(j, t, n, f) := x in
               let '(c', r) := bind_task eps (fst acc) j t n (okf f) in (c', snd acc ++ [r])) l acc.

(* the independent reference: the batch as a history of single-context bind EVENTS of [run] *)
Definition batch_events (l : list bctx) : list event :=
  map (fun x : bctx => let '(j, t, n, f) := x in EBind j t n (f =? 1)) l.

Lemma bfold_is_run l : forall c rs, fst (bfold (fun f => f =? 1) l (c, rs)) = run eps c (batch_events l).
Proof.
  induction l as [|[[[j t] n] f] l IH]; intros c rs; [reflexivity|].
  unfold bfold in *. simpl. destruct (bind_task eps c j t n (f =? 1)) as [c1 r1] eqn:E. cbn [fst snd].
  rewrite IH. unfold run. simpl. reflexivity.
Qed.

Lemma bind_task_errq c j t n ok :
  c_errq (fst (bind_task eps c j t n ok)) =
  match snd (bind_task eps c j t n ok) with
  | RDone => if ok then c_errq c else enq (c_errq c) (j, t)
  | _ => c_errq c
  end.
Proof.
  unfold bind_task.
  destruct (c_jobs c !! j) as [cj|]; [|reflexivity].
  destruct (stored_task c (Some j) t) as [st|]; [|reflexivity].
  destruct (c_nodes c !! n) as [ni|]; [|reflexivity].
  destruct (n_has_node ni); cbn [negb]; [|reflexivity].
  unfold job_set_status. cbn [fst snd].
  destruct (node_add eps ni (set_status st Binding)) as [[ni' t2]|err]; [destruct ok|]; reflexivity.
Qed.

(* the queue after the walk: what was queued before, and the key of every context the cache
   ACCEPTED whose API side failed *)
Lemma bfold_spec okf l : forall a rs,
  exists rl, snd (bfold okf l (a, rs)) = rs ++ rl /\ length rl = length l /\
    forall k, k ∈ c_errq (fst (bfold okf l (a, rs))) <->
      k ∈ c_errq a \/ exists xr, xr ∈ zip l rl /\ snd xr = RDone /\ okf (bfault xr) = false /\ bkey xr = k.
Proof.
  induction l as [|[[[j t] n] f] l IH]; intros a rs.
  - exists []. rewrite app_nil_r. split; [reflexivity|]. split; [reflexivity|]. intros k. simpl. split; [auto|].
    intros [H|(xr & H & _)]; [exact H|inversion H].
  - unfold bfold. simpl. pose proof (bind_task_errq a j t n (okf f)) as Hq.
    destruct (bind_task eps a j t n (okf f)) as [a1 r1] eqn:E. cbn [fst snd] in *.
    destruct (IH a1 (rs ++ [r1])) as (rl & H1 & H2 & H3). unfold bfold in H1, H3.
    exists (r1 :: rl). split; [rewrite H1, <- app_assoc; reflexivity|]. split; [simpl; congruence|].
    intros k. rewrite H3. simpl. setoid_rewrite elem_of_cons. rewrite Hq. split.
    + intros [Hk|(xr & Hin & Hx)].
      * destruct r1; auto. destruct (okf f) eqn:Ef; auto. apply elem_of_enq in Hk. destruct Hk as [Hk| ->]; auto.
        right. exists ((j, t, n, f), RDone). split; [left; reflexivity|]. repeat split; auto.
      * right. exists xr. split; [right; exact Hin|exact Hx].
    + intros [Hk|(xr & [->|Hin] & Hd & Hf & Hk)].
      * left. destruct r1; auto. destruct (okf f); auto. apply elem_of_enq; auto.
      * left. cbn in Hd, Hf, Hk. subst r1. rewrite Hf. apply elem_of_enq; auto.
      * right. exists xr. auto.
Qed.

Lemma enq_fold_members {X} (g : X -> positive * positive) xs : forall q k,
  k ∈ fold_left (fun q x => enq q (g x)) xs q <-> k ∈ q \/ exists x, x ∈ xs /\ g x = k.
Proof.
  induction xs as [|x xs IH]; intros q k; simpl.
  - split; [auto|]. intros [H|(x & H & _)]; [exact H|inversion H].
  - rewrite IH, elem_of_enq. setoid_rewrite elem_of_cons. split.
    + intros [[H| ->]|(y & H & E)]; [auto|right; exists x; auto|right; exists y; auto].
    + intros [H|(y & [->|H] & E)]; [auto|auto|right; exists y; auto].
Qed.

Lemma bfold_indep okf1 okf2 l : forall a b rs, same_but_errq a b ->
  same_but_errq (fst (bfold okf1 l (a, rs))) (fst (bfold okf2 l (b, rs))) /\
  snd (bfold okf1 l (a, rs)) = snd (bfold okf2 l (b, rs)).
Proof.
  induction l as [|[[[j t] n] f] l IH]; intros a b rs Hab; [split; [exact Hab|reflexivity]|].
  unfold bfold. simpl.
  destruct (bind_task eps a j t n (okf1 f)) as [a1 r1] eqn:Ea.
  destruct (bind_task eps b j t n (okf2 f)) as [b1 r2] eqn:Eb. cbn [fst snd].
  assert (H : same_but_errq a1 b1 /\ r1 = r2).
  { pose proof (cache_with_errq b a ltac:(destruct Hab as (A1 & A2 & A3 & A4 & A5 & A6 & A7 & A8 & A9); repeat split; congruence)) as Ha.
    pose proof (bind_task_errq_indep b (c_errq a) j t n (okf1 f)) as [P1 P2]. rewrite <- Ha, Ea in P1, P2.
    pose proof (bind_task_errq_indep b (c_errq b) j t n (okf2 f)) as [Q1 Q2].
    replace (with_errq b (c_errq b)) with b in Q1, Q2 by (destruct b; reflexivity). rewrite Eb in Q1, Q2.
    cbn [fst snd] in *. split; [|congruence].
    destruct P1 as (A1 & A2 & A3 & A4 & A5 & A6 & A7 & A8 & A9). destruct Q1 as (B1 & B2 & B3 & B4 & B5 & B6 & B7 & B8 & B9).
    repeat split; congruence. }
  destruct H as [H ->]. apply (IH a1 b1 (rs ++ [r2]) H).
Qed.

Lemma bind_batch_unfold c l :
  bind_batch eps c l =
  let cr := bfold (fun _ => true) l (c, []) in
  let acc := List.filter (fun xr : bctx * opres => match snd xr with RDone => true | _ => false end) (zip l (snd cr)) in
  (with_errq (fst cr)
     (fold_left (fun q xr => enq q (bkey xr))
        (List.filter (fun xr => (bfault xr =? 2) || (bfault xr =? 3)) acc ++
         List.filter (fun xr => (bfault xr =? 0) || (bfault xr =? 4)) acc) (c_errq (fst cr))), snd cr).
Proof.
  unfold bind_batch, bfold. cbv beta zeta.
  destruct (fold_left _ l (c, [])) as [c1 rs]. reflexivity.
Qed.

(* fault codes as the decoder admits them *)
Definition faults_ok (l : list bctx) : Prop := Forall (fun x : bctx => 0 <= snd x <= 4) l.

(* Theorem (C08_bind_batch_errq): a batch leaves, in every field but the resync queue, the state
   of the HISTORY of single-context bind events, the same per-context results, and a resync
   queue with the same MEMBERS: what was queued before plus the key of every accepted context
   whose pre-binder or binder failed -- every one of them, wherever it stands in the batch *)
Theorem bind_batch_errq l c : faults_ok l ->
  let b := bind_batch eps c l in
  let f := bfold (fun f => f =? 1) l (c, []) in
  fst f = run eps c (batch_events l) /\
  same_but_errq (fst b) (fst f) /\ snd b = snd f /\
  (forall k, k ∈ c_errq (fst b) <-> k ∈ c_errq (fst f)) /\
  (forall k, k ∈ c_errq (fst b) <->
     k ∈ c_errq c \/ exists xr, xr ∈ zip l (snd b) /\ snd xr = RDone /\ bfault xr <> 1 /\ bkey xr = k).
Proof.
  intros Hf b f. split; [apply bfold_is_run|].
  destruct (bfold_indep (fun _ => true) (fun f => f =? 1) l c c [] ltac:(repeat split; reflexivity)) as [S1 S2].
  destruct (bfold_spec (fun _ => true) l c []) as (rl1 & R1 & L1 & M1).
  destruct (bfold_spec (fun f => f =? 1) l c []) as (rl2 & R2 & L2 & M2).
  unfold b, f. rewrite bind_batch_unfold. cbv zeta. cbn [fst snd].
  split; [|split; [exact S2|]].
  { destruct S1 as (A1 & A2 & A3 & A4 & A5 & A6 & A7 & A8 & A9). repeat split; assumption. }
  assert (E : forall k, k ∈ c_errq (with_errq (fst (bfold (fun _ => true) l (c, [])))
      (fold_left (fun q xr => enq q (bkey xr))
        (List.filter (fun xr => (bfault xr =? 2) || (bfault xr =? 3))
           (List.filter (fun xr : bctx * opres => match snd xr with RDone => true | _ => false end) (zip l (snd (bfold (fun _ => true) l (c, []))))) ++
         List.filter (fun xr => (bfault xr =? 0) || (bfault xr =? 4))
           (List.filter (fun xr : bctx * opres => match snd xr with RDone => true | _ => false end) (zip l (snd (bfold (fun _ => true) l (c, []))))))
        (c_errq (fst (bfold (fun _ => true) l (c, [])))))) <->
     k ∈ c_errq c \/ exists xr, xr ∈ zip l (snd (bfold (fun _ => true) l (c, []))) /\ snd xr = RDone /\ bfault xr <> 1 /\ bkey xr = k).
  { intros k. change (c_errq (with_errq ?x ?q)) with q. rewrite enq_fold_members, M1.
    assert (Hrange : forall xr, xr ∈ zip l (snd (bfold (fun _ => true) l (c, []))) -> 0 <= bfault xr <= 4).
    { intros [x r] Hin. apply elem_of_zip_l in Hin. unfold faults_ok in Hf. rewrite Forall_forall in Hf.
      specialize (Hf x Hin). unfold bfault. cbn [fst]. destruct x as [[[? ?] ?] ff]. exact Hf. }
    split.
    - intros [[H|(xr & _ & _ & Hx & _)]|(xr & Hin & Hk)]; [left; exact H|discriminate|].
      right. exists xr. apply elem_of_app in Hin.
      assert (Hin' : xr ∈ zip l (snd (bfold (fun _ => true) l (c, []))) /\ snd xr = RDone /\ bfault xr <> 1).
      { destruct Hin as [Hin|Hin]; apply elem_of_list_In, filter_In in Hin; destruct Hin as [Hin Hb];
          apply filter_In in Hin; destruct Hin as [Hin Hd]; apply elem_of_list_In in Hin;
          (split; [exact Hin|]); (split; [destruct (snd xr); try discriminate; reflexivity|]); lia. }
      tauto.
    - intros [H|(xr & Hin & Hd & Hne & Hk)]; [left; left; exact H|].
      right. exists xr. split; [|exact Hk]. pose proof (Hrange xr Hin) as Hr.
      assert (Hacc : In xr (List.filter (fun xr : bctx * opres => match snd xr with RDone => true | _ => false end) (zip l (snd (bfold (fun _ => true) l (c, [])))))).
      { apply filter_In. split; [apply elem_of_list_In; exact Hin|rewrite Hd; reflexivity]. }
      apply elem_of_app.
      destruct (decide (bfault xr = 2 \/ bfault xr = 3)) as [H23|H23].
      + left. apply elem_of_list_In, filter_In. split; [exact Hacc|]. lia.
      + right. apply elem_of_list_In, filter_In. split; [exact Hacc|]. lia. }
  split; [|exact E].
  simpl in R2. rewrite <- R2 in M2. intros k. rewrite E, M2. rewrite <- S2.
  split; intros [H|(xr & Hin & Hd & Hne & Hk)]; auto; right; exists xr; repeat split; auto.
  - apply Z.eqb_neq. exact Hne.
  - apply Z.eqb_neq. exact Hne.
Qed.

(* ----- histories WITH batches ----- *)

(* same fields, same members of the resync queue *)
Definition errq_equiv (a b : cache) : Prop := same_but_errq a b /\ forall k, k ∈ c_errq a <-> k ∈ c_errq b.

(* nothing the theorems below speak about depends on the ORDER of the resync queue *)
Lemma errq_equiv_keeps a b A :
  errq_equiv a b -> Inv2 eps b -> QueuedA eps A b -> Cover b -> Inv2 eps a /\ QueuedA eps A a /\ Cover a.
Proof.
  intros [(A1 & A2 & A3 & A4 & A5 & A6 & A7 & A8 & A9) M] I HQ HC. split; [apply (inv2_frame eps b a); auto|]. split.
  - intros i t Ht. rewrite A3 in Ht. destruct (HQ i t Ht) as [(p & H1 & H2)|[H|H]].
    + left. exists p. rewrite A1. auto.
    + right. left. apply M. exact H.
    + right. right. exact H.
  - intros i p Hp. rewrite A1 in Hp. rewrite A2, A3. exact (HC i p Hp).
Qed.

Lemma batch_events_ok l : forall c, hist_ok4 eps c (batch_events l).
Proof. induction l as [|[[[j t] n] f] l IH]; intros c; simpl; [exact I|]. split; [exact I|apply IH]. Qed.

(* Theorem (C08_bind_batch_keeps): a batch keeps the invariant, "every divergent task is queued
   or awaits its notification" and the coverage of the informer store, with the awaited set of
   the corresponding history of single binds *)
Theorem bind_batch_keeps l c A : faults_ok l ->
  Inv2 eps c -> QueuedA eps A c -> Cover c ->
  let c' := fst (bind_batch eps c l) in
  Inv2 eps c' /\ QueuedA eps (await_run eps c A (batch_events l)) c' /\ Cover c'.
Proof.
  intros Hf I HQ HC c'.
  destruct (bind_batch_errq l c Hf) as (E1 & E2 & _ & E4 & _). cbv zeta in *.
  destruct (history_queuedA eps (batch_events l) c A I HQ HC (batch_events_ok l c)) as (I1 & Q1 & C1).
  rewrite <- E1 in I1, Q1, C1. apply (errq_equiv_keeps _ _ _ (conj E2 E4)); assumption.
Qed.

Inductive bop := BEv (e : event) | BBatch (l : list bctx).
Definition bstep (c : cache) (o : bop) : cache :=
  match o with BEv e => handle eps c e | BBatch l => fst (bind_batch eps c l) end.
Definition brun (c : cache) (h : list bop) : cache := fold_left bstep h c.
Definition bstep_ok (c : cache) (o : bop) : Prop :=
  match o with BEv e => step_ok4 c e | BBatch l => faults_ok l end.
Fixpoint bhist_ok (c : cache) (h : list bop) : Prop :=
  match h with [] => True | o :: r => bstep_ok c o /\ bhist_ok (bstep c o) r end.
Definition bawait (c : cache) (A : gset positive) (o : bop) : gset positive :=
  match o with BEv e => await eps c A e | BBatch l => await_run eps c A (batch_events l) end.
Fixpoint bawait_run (c : cache) (A : gset positive) (h : list bop) : gset positive :=
  match h with [] => A | o :: r => bawait_run (bstep c o) (bawait c A o) r end.

Lemma bhistory_queuedA h : forall c A, Inv2 eps c -> QueuedA eps A c -> Cover c -> bhist_ok c h ->
  Inv2 eps (brun c h) /\ QueuedA eps (bawait_run c A h) (brun c h) /\ Cover (brun c h).
Proof.
  induction h as [|o r IH]; intros c A I HP HC Hok; [auto|].
  destruct Hok as [H1 H2]. simpl.
  assert (S : Inv2 eps (bstep c o) /\ QueuedA eps (bawait c A o) (bstep c o) /\ Cover (bstep c o)).
  { destruct o as [e|l]; simpl in *.
    - exact (history_queuedA eps [e] c A I HP HC (conj H1 Logic.I)).
    - exact (bind_batch_keeps l c A H1 I HP HC). }
  destruct S as (I1 & Q1 & C1). apply IH; assumption.
Qed.

(* Theorem (C08_batch_failures_repaired): histories of informer events, single binds, evictions,
   drains AND batches of bind contexts with any outcomes: after one more resync drain every held
   task equals NewTaskInfo(its pod) or belongs to a successful bind / eviction whose notification
   has not arrived; the invariant and the coverage hold *)
Theorem batch_failures_repaired h :
  bhist_ok empty_cache h ->
  let c := drain_resync eps (brun empty_cache h) in
  let A := bawait_run empty_cache ∅ h in
  Inv2 eps c /\
  (forall i t, c_heap c !! i = Some t -> synced_at eps c i t \/ i ∈ A) /\
  (forall i p, c_store c !! i = Some p -> i ∈ c_gone c \/ is_Some (c_heap c !! i)).
Proof.
  intros Hok c A.
  assert (HQ0 : QueuedA eps ∅ empty_cache) by (intros i t Ht; simpl in Ht; rewrite lookup_empty in Ht; discriminate).
  assert (HC0 : Cover empty_cache) by (intros i p Hp; simpl in Hp; rewrite lookup_empty in Hp; discriminate).
  destruct (bhistory_queuedA h empty_cache ∅ (inv2_empty eps) HQ0 HC0 Hok) as (I & HQ & HC).
  fold A in HQ. unfold c. set (c1 := brun empty_cache h) in *.
  destruct (drain_resync_inv2 eps c1 I) as (I' & _).
  destruct (drain_resync_A eps c1 A I HQ HC) as [HQ' HC'].
  split; [exact I'|]. split; [|exact HC'].
  intros i t Ht. destruct (HQ' i t Ht) as [Hl|[Hr|Ha]]; [left; exact Hl|inversion Hr|right; exact Ha].
Qed.

(* ----- the walk that stops at the first pre-bind failure (seed C01-r7-1: `break` for `continue`
   in executePreBinds): the contexts behind the failure are neither sent to the binder nor
   resynced.  It differs from [bind_batch] in the resync queue only ----- *)
Fixpoint walk_break (xs : list (bctx * opres)) : list (bctx * opres) :=
  match xs with
  | [] => []
  | x :: r => if (bfault x =? 2) || (bfault x =? 3) then [x] else x :: walk_break r
  end.
Definition bind_batch_break (c : cache) (l : list bctx) : cache * list opres :=
  let cr := bfold (fun _ => true) l (c, []) in
  let acc := walk_break (List.filter (fun xr : bctx * opres => match snd xr with RDone => true | _ => false end) (zip l (snd cr))) in
  (with_errq (fst cr)
     (fold_left (fun q xr => enq q (bkey xr))
        (List.filter (fun xr => (bfault xr =? 2) || (bfault xr =? 3)) acc ++
         List.filter (fun xr => (bfault xr =? 0) || (bfault xr =? 4)) acc) (c_errq (fst cr))), snd cr).

(* the statement of the seventh round (no clause on the queue) does not tell the two apart *)
Lemma bind_batch_break_same_but_errq c l :
  same_but_errq (fst (bind_batch_break c l)) (fst (bind_batch eps c l)) /\
  snd (bind_batch_break c l) = snd (bind_batch eps c l).
Proof. rewrite bind_batch_unfold. unfold bind_batch_break. cbv zeta. cbn [fst snd]. repeat split; reflexivity. Qed.

(* ----- law 105 (third audit, E23) ----- *)
Lemma law_failed_binds_queued_spec c keys :
  law_failed_binds_queued c keys = true <-> forall k, k ∈ keys -> k ∈ c_errq c.
Proof.
  unfold law_failed_binds_queued. rewrite forallb_forall. split.
  - intros H k Hk. apply elem_of_list_In in Hk. specialize (H k Hk). apply bool_decide_eq_true in H. exact H.
  - intros H k Hk. apply bool_decide_eq_true. apply H. apply elem_of_list_In. exact Hk.
Qed.

(* the keys the harness hands to law 105: the accepted contexts whose API side was scripted to fail *)
Definition failed_keys (l : list bctx) (rs : list opres) : list (positive * positive) :=
  map bkey (List.filter (fun xr : bctx * opres => match snd xr with RDone => negb (bfault xr =? 1) | _ => false end) (zip l rs)).

(* the model's batch satisfies law 105, and queues nothing else: the law's keys and the old
   queue are exactly the members of the new queue *)
Theorem bind_batch_law105 l c : faults_ok l ->
  let b := bind_batch eps c l in
  law_failed_binds_queued (fst b) (failed_keys l (snd b)) = true /\
  forall k, k ∈ c_errq (fst b) <-> k ∈ c_errq c \/ k ∈ failed_keys l (snd b).
Proof.
  intros Hf b. destruct (bind_batch_errq l c Hf) as (_ & _ & _ & _ & E). fold b in E.
  assert (K : forall k, k ∈ failed_keys l (snd b) <->
                exists xr, xr ∈ zip l (snd b) /\ snd xr = RDone /\ bfault xr <> 1 /\ bkey xr = k).
  { intros k. unfold failed_keys. rewrite elem_of_list_fmap. split.
    - intros (xr & -> & Hin). apply elem_of_list_In, filter_In in Hin. destruct Hin as [Hin Hb].
      exists xr. split; [apply elem_of_list_In; exact Hin|]. destruct (snd xr); try discriminate.
      split; [reflexivity|]. split; [|reflexivity]. apply negb_true_iff, Z.eqb_neq in Hb. exact Hb.
    - intros (xr & Hin & Hd & Hne & Hk). exists xr. split; [auto|]. apply elem_of_list_In, filter_In.
      split; [apply elem_of_list_In; exact Hin|]. rewrite Hd. apply negb_true_iff, Z.eqb_neq. exact Hne. }
  split.
  - apply law_failed_binds_queued_spec. intros k Hk. apply E. right. apply K. exact Hk.
  - intros k. rewrite E, K. reflexivity.
Qed.

End Batch.
