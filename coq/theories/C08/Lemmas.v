(* C08 proofs, part 1: the representation invariant and the two task-level
   operations (addTask / deleteTask) every pod handler is made of. *)
From stdpp Require Import gmap.
From Coq Require Import ZArith Lia.
From V Require Import Base.Codec Base.Res Base.ResLemmas Sched.LedgerModel Sched.LedgerInv C08.Model.
Open Scope Z_scope.

(* ---------- amounts, pointwise ---------- *)

Inductive dim := DCpu | DMem | DSc (k : positive).

Definition amt (r : res) (d : dim) : Z :=
  match d with DCpu => cpu r | DMem => mem r | DSc k => sget r k end.

Lemma res_eqv_amt r s : res_eqv r s <-> forall d, amt r d = amt s d.
Proof.
  split.
  - intros (H1 & H2 & H3) [| |k]; simpl; auto.
  - intros H. split; [exact (H DCpu)|]. split; [exact (H DMem)|]. intros k. exact (H (DSc k)).
Qed.

Lemma amt_empty d : amt empty_res d = 0.
Proof. destruct d; reflexivity. Qed.

Lemma amt_add r x d : amt (add r x) d = amt r d + amt x d.
Proof. destruct d; simpl; [reflexivity|reflexivity|apply add_sget]. Qed.

(* Go's sub drops the subtrahend's scalars when the receiver has a nil map *)
Lemma amt_sub r x d : (sc r = None -> scm x = ∅) -> amt (sub r x) d = amt r d - amt x d.
Proof.
  intros Hn. destruct d as [| |k]; simpl; [reflexivity|reflexivity|].
  destruct (sc r) as [m|] eqn:Hm.
  - apply sub_sget. congruence.
  - assert (Hx : sget x k = 0) by (unfold sget; rewrite (Hn eq_refl), lookup_empty; reflexivity).
    assert (Hr : sget r k = 0) by (unfold sget, scm; rewrite Hm; simpl; rewrite lookup_empty; reflexivity).
    assert (Hs : sget (sub r x) k = 0)
      by (unfold sget, scm; rewrite (sub_nil_drops_scalars r x Hm); simpl; rewrite lookup_empty; reflexivity).
    lia.
Qed.

Lemma sc_add_some r x : scm x <> ∅ -> sc (add r x) <> None.
Proof. intros H. unfold add. simpl. case_bool_decide; [contradiction|discriminate]. Qed.
Lemma sc_add_keep r x : sc r <> None -> sc (add r x) <> None.
Proof. intros H. unfold add. simpl. case_bool_decide; [exact H|discriminate]. Qed.
Lemma sc_sub_keep r x : sc r <> None -> sc (sub r x) <> None.
Proof. intros H. unfold sub. simpl. destruct (sc r); [discriminate|contradiction]. Qed.

(* ---------- sums over the task table ---------- *)

Definition tsum (f : task -> bool) (T : gmap positive task) (d : dim) : Z :=
  map_fold (fun _ t a => if f t then amt (t_req t) d + a else a) 0 T.

Lemma tsum_empty f d : tsum f ∅ d = 0.
Proof. unfold tsum. apply map_fold_empty. Qed.

Lemma tsum_insert f T i t d :
  T !! i = None -> tsum f (<[i := t]> T) d = (if f t then amt (t_req t) d else 0) + tsum f T d.
Proof.
  intros Hn. unfold tsum. rewrite map_fold_insert_L; [destruct (f t); lia| |exact Hn].
  intros j1 j2 z1 z2 y _ _ _. destruct (f z1), (f z2); lia.
Qed.

Lemma tsum_delete f T i t d :
  T !! i = Some t -> tsum f T d = (if f t then amt (t_req t) d else 0) + tsum f (delete i T) d.
Proof.
  intros Hs. rewrite <- (insert_delete T i t Hs) at 1.
  apply tsum_insert. apply lookup_delete.
Qed.

Lemma tsum_none f T d : (forall i t, T !! i = Some t -> f t = false) -> tsum f T d = 0.
Proof.
  induction T as [|i t T Hn IH] using map_ind; intros H; [apply tsum_empty|].
  rewrite tsum_insert by exact Hn. rewrite (H i t) by apply lookup_insert.
  rewrite IH; [lia|]. intros j u Hu. apply (H j u). rewrite lookup_insert_ne; [exact Hu|congruence].
Qed.

Lemma tsum_ext f g T d : (forall i t, T !! i = Some t -> f t = g t) -> tsum f T d = tsum g T d.
Proof.
  induction T as [|i t T Hn IH] using map_ind; intros H; [rewrite !tsum_empty; reflexivity|].
  rewrite !tsum_insert by exact Hn. rewrite (H i t) by apply lookup_insert.
  rewrite IH; [reflexivity|]. intros j u Hu. apply (H j u). rewrite lookup_insert_ne; [exact Hu|congruence].
Qed.

(* ---------- an accumulator of the requests of the members selected by [f] ---------- *)

(* every pod request carries at least the "pods" scalar *)
Definition task_wf (t : task) : Prop := scm (t_req t) <> ∅.

Definition acc_ok (r : res) (f : task -> bool) (T : gmap positive task) : Prop :=
  (forall d, amt r d = tsum f T d) /\
  (sc r = None -> forall i t, T !! i = Some t -> f t = false).

Lemma acc_empty f : acc_ok empty_res f ∅.
Proof. split; [intros d; rewrite amt_empty, tsum_empty; reflexivity|]. intros _ i t H. rewrite lookup_empty in H. discriminate. Qed.

Lemma acc_ext r f g T : (forall i t, T !! i = Some t -> f t = g t) -> acc_ok r f T -> acc_ok r g T.
Proof.
  intros He [H1 H2]. split.
  - intros d. rewrite H1. apply tsum_ext. exact He.
  - intros Hn i t Ht. rewrite <- (He i t Ht). exact (H2 Hn i t Ht).
Qed.

Lemma acc_insert_in r f T i t :
  T !! i = None -> f t = true -> task_wf t -> acc_ok r f T -> acc_ok (add r (t_req t)) f (<[i := t]> T).
Proof.
  intros Hn Hf Hw [H1 H2]. split.
  - intros d. rewrite amt_add, tsum_insert, Hf, H1 by exact Hn. lia.
  - intros Hs. exfalso. exact (sc_add_some r (t_req t) Hw Hs).
Qed.

Lemma acc_insert_out r f T i t :
  T !! i = None -> f t = false -> acc_ok r f T -> acc_ok r f (<[i := t]> T).
Proof.
  intros Hn Hf [H1 H2]. split.
  - intros d. rewrite tsum_insert, Hf, H1 by exact Hn. lia.
  - intros Hs j u Hu. destruct (decide (j = i)) as [->|Hne].
    + rewrite lookup_insert in Hu. congruence.
    + rewrite lookup_insert_ne in Hu by congruence. exact (H2 Hs j u Hu).
Qed.

Lemma acc_delete_in r f T i t :
  T !! i = Some t -> f t = true -> acc_ok r f T -> acc_ok (sub r (t_req t)) f (delete i T).
Proof.
  intros Hs Hf [H1 H2]. split.
  - intros d. rewrite amt_sub.
    + rewrite H1, (tsum_delete f T i t d Hs), Hf. lia.
    + intros Hn. rewrite (H2 Hn i t Hs) in Hf. discriminate.
  - intros Hn j u Hu. exfalso.
    assert (sc r = None) as Hr by (unfold sub in Hn; simpl in Hn; destruct (sc r); [discriminate|reflexivity]).
    rewrite (H2 Hr i t Hs) in Hf. discriminate.
Qed.

Lemma acc_delete_out r f T i t :
  T !! i = Some t -> f t = false -> acc_ok r f T -> acc_ok r f (delete i T).
Proof.
  intros Hs Hf [H1 H2]. split.
  - intros d. rewrite H1, (tsum_delete f T i t d Hs), Hf. lia.
  - intros Hn j u Hu. apply (H2 Hn j u). rewrite lookup_delete_Some in Hu. tauto.
Qed.

(* ---------- JobInfo ---------- *)

Definition in_j (j : positive) (t : task) : bool := bool_decide (t_job t = j).

Record JobRep (T : gmap positive task) (j : positive) (J : job) : Prop := mkJobRep {
  jr_id : j_id J = j;
  jr_tasks : forall i, i ∈ j_tasks J <-> exists t, T !! i = Some t /\ t_job t = j;
  jr_total : acc_ok (j_total J) (in_j j) T;
  jr_alloc : acc_ok (j_alloc J) (fun t => in_j j t && allocated_status (t_status t)) T;
}.

Lemma job_rep_new j : JobRep ∅ j (new_job j).
Proof.
  split; [reflexivity| |apply acc_empty|apply acc_empty].
  intros i. simpl. split; [set_solver|]. intros (t & Ht & _). rewrite lookup_empty in Ht. discriminate.
Qed.

Lemma job_add_rep T j J t :
  JobRep T j J -> T !! t_id t = None -> t_job t = j -> task_wf t ->
  JobRep (<[t_id t := t]> T) j (job_add J t).
Proof.
  intros [Hid Hts Htot Hal] Hn Hj Hw. split.
  - exact Hid.
  - intros i. simpl. rewrite elem_of_union, elem_of_singleton, Hts. split.
    + intros [->|(u & Hu & Huj)].
      * exists t. rewrite lookup_insert. auto.
      * exists u. rewrite lookup_insert_ne; [auto|]. intros <-. congruence.
    + intros (u & Hu & Huj). destruct (decide (i = t_id t)) as [->|Hne]; [auto|].
      right. exists u. rewrite lookup_insert_ne in Hu by congruence. auto.
  - simpl. apply acc_insert_in; auto. unfold in_j. rewrite bool_decide_eq_true. exact Hj.
  - simpl. destruct (allocated_status (t_status t)) eqn:Ha.
    + apply acc_insert_in; auto. unfold in_j. rewrite Ha, andb_true_r, bool_decide_eq_true. exact Hj.
    + apply acc_insert_out; auto. rewrite Ha, andb_false_r. reflexivity.
Qed.

Lemma job_insert_other T j J i t :
  JobRep T j J -> T !! i = None -> t_job t <> j -> JobRep (<[i := t]> T) j J.
Proof.
  intros [Hid Hts Htot Hal] Hn Hj.
  assert (Hf : in_j j t = false) by (unfold in_j; rewrite bool_decide_eq_false; exact Hj).
  split; [exact Hid| | |].
  - intros k. rewrite Hts. split; intros (u & Hu & Huj).
    + exists u. rewrite lookup_insert_ne; [auto|]. intros <-. congruence.
    + destruct (decide (k = i)) as [->|Hne].
      * rewrite lookup_insert in Hu. congruence.
      * exists u. rewrite lookup_insert_ne in Hu by congruence. auto.
  - apply acc_insert_out; auto.
  - apply acc_insert_out; auto. rewrite Hf. reflexivity.
Qed.

Lemma job_del_rep T j J t :
  JobRep T j J -> T !! t_id t = Some t -> t_job t = j ->
  JobRep (delete (t_id t) T) j (job_del J t).
Proof.
  intros [Hid Hts Htot Hal] Hs Hj.
  assert (Hf : in_j j t = true) by (unfold in_j; rewrite bool_decide_eq_true; exact Hj).
  split.
  - exact Hid.
  - intros i. simpl. rewrite elem_of_difference, elem_of_singleton, Hts. split.
    + intros [(u & Hu & Huj) Hne]. exists u. rewrite lookup_delete_ne by congruence. auto.
    + intros (u & Hu & Huj). rewrite lookup_delete_Some in Hu. destruct Hu as [Hne Hu]. split; [eauto|congruence].
  - simpl. apply acc_delete_in; auto.
  - simpl. destruct (allocated_status (t_status t)) eqn:Ha.
    + apply acc_delete_in; auto. rewrite Hf, Ha. reflexivity.
    + apply (acc_delete_out _ _ _ _ t); auto. rewrite Ha, andb_false_r. reflexivity.
Qed.

Lemma job_delete_other T j J i t :
  JobRep T j J -> T !! i = Some t -> t_job t <> j -> JobRep (delete i T) j J.
Proof.
  intros [Hid Hts Htot Hal] Hs Hj.
  assert (Hf : in_j j t = false) by (unfold in_j; rewrite bool_decide_eq_false; exact Hj).
  split; [exact Hid| | |].
  - intros k. rewrite Hts. split; intros (u & Hu & Huj).
    + exists u. rewrite lookup_delete_ne; [auto|]. intros <-. congruence.
    + rewrite lookup_delete_Some in Hu. destruct Hu as [_ Hu]. eauto.
  - apply (acc_delete_out _ _ _ _ t); auto.
  - apply (acc_delete_out _ _ _ _ t); auto. rewrite Hf. reflexivity.
Qed.
