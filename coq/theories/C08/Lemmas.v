(* C08 proofs, part 1: the representation invariant and the two task-level
   operations (addTask / deleteTask) every pod handler is made of. *)
From stdpp Require Import gmap.
From Coq Require Import ZArith Lia.
From V Require Import Base.Codec Base.Res Base.ResLemmas Sched.LedgerModel Sched.LedgerInv C08.Model.
Open Scope Z_scope.

(* ---------- amounts, pointwise ---------- *)

Inductive dim := DCpu | DMem | DSc (k : positive).

Definition amt (r : res) (d : dim) : Z :=
  match d with DCpu => cpu r | DMem => mem r | DSc k => sget r k end.

Lemma res_eqv_amt r s : res_eqv r s <-> forall d, amt r d = amt s d.
Proof.
  split.
  - intros (H1 & H2 & H3) [| |k]; simpl; auto.
  - intros H. split; [exact (H DCpu)|]. split; [exact (H DMem)|]. intros k. exact (H (DSc k)).
Qed.

Lemma amt_empty d : amt empty_res d = 0.
Proof. destruct d; reflexivity. Qed.

Lemma amt_add r x d : amt (add r x) d = amt r d + amt x d.
Proof. destruct d; simpl; [reflexivity|reflexivity|apply add_sget]. Qed.

(* Go's sub drops the subtrahend's scalars when the receiver has a nil map *)
Lemma amt_sub r x d : (sc r = None -> scm x = ∅) -> amt (sub r x) d = amt r d - amt x d.
Proof.
  intros Hn. destruct d as [| |k]; simpl; [reflexivity|reflexivity|].
  destruct (sc r) as [m|] eqn:Hm.
  - apply sub_sget. congruence.
  - assert (Hx : sget x k = 0) by (unfold sget; rewrite (Hn eq_refl), lookup_empty; reflexivity).
    assert (Hr : sget r k = 0) by (unfold sget, scm; rewrite Hm; simpl; rewrite lookup_empty; reflexivity).
    assert (Hs : sget (sub r x) k = 0)
      by (unfold sget, scm; rewrite (sub_nil_drops_scalars r x Hm); simpl; rewrite lookup_empty; reflexivity).
    lia.
Qed.

Lemma sc_add_some r x : scm x <> ∅ -> sc (add r x) <> None.
Proof. intros H. unfold add. simpl. case_bool_decide; [contradiction|discriminate]. Qed.
Lemma sc_add_keep r x : sc r <> None -> sc (add r x) <> None.
Proof. intros H. unfold add. simpl. case_bool_decide; [exact H|discriminate]. Qed.
Lemma sc_sub_keep r x : sc r <> None -> sc (sub r x) <> None.
Proof. intros H. unfold sub. simpl. destruct (sc r); [discriminate|contradiction]. Qed.

(* ---------- sums over the task table ---------- *)

Definition tsum (f : task -> bool) (T : gmap positive task) (d : dim) : Z :=
  map_fold (fun _ t a => if f t then amt (t_req t) d + a else a) 0 T.

Lemma tsum_empty f d : tsum f ∅ d = 0.
Proof. unfold tsum. apply map_fold_empty. Qed.

Lemma tsum_insert f T i t d :
  T !! i = None -> tsum f (<[i := t]> T) d = (if f t then amt (t_req t) d else 0) + tsum f T d.
Proof.
  intros Hn. unfold tsum. rewrite map_fold_insert_L; [destruct (f t); lia| |exact Hn].
  intros j1 j2 z1 z2 y _ _ _. destruct (f z1), (f z2); lia.
Qed.

Lemma tsum_delete f T i t d :
  T !! i = Some t -> tsum f T d = (if f t then amt (t_req t) d else 0) + tsum f (delete i T) d.
Proof.
  intros Hs. rewrite <- (insert_delete T i t Hs) at 1.
  apply tsum_insert. apply lookup_delete.
Qed.

Lemma tsum_none f T d : (forall i t, T !! i = Some t -> f t = false) -> tsum f T d = 0.
Proof.
  induction T as [|i t T Hn IH] using map_ind; intros H; [apply tsum_empty|].
  rewrite tsum_insert by exact Hn. rewrite (H i t) by apply lookup_insert.
  rewrite IH; [lia|]. intros j u Hu. apply (H j u). rewrite lookup_insert_ne; [exact Hu|congruence].
Qed.

Lemma tsum_ext f g T d : (forall i t, T !! i = Some t -> f t = g t) -> tsum f T d = tsum g T d.
Proof.
  induction T as [|i t T Hn IH] using map_ind; intros H; [rewrite !tsum_empty; reflexivity|].
  rewrite !tsum_insert by exact Hn. rewrite (H i t) by apply lookup_insert.
  rewrite IH; [reflexivity|]. intros j u Hu. apply (H j u). rewrite lookup_insert_ne; [exact Hu|congruence].
Qed.

(* ---------- an accumulator of the requests of the members selected by [f] ---------- *)

(* every pod request carries at least the "pods" scalar *)
Definition task_wf (t : task) : Prop := scm (t_req t) <> ∅.

Definition acc_ok (r : res) (f : task -> bool) (T : gmap positive task) : Prop :=
  (forall d, amt r d = tsum f T d) /\
  (sc r = None -> forall i t, T !! i = Some t -> f t = false).

Lemma acc_empty f : acc_ok empty_res f ∅.
Proof. split; [intros d; rewrite amt_empty, tsum_empty; reflexivity|]. intros _ i t H. rewrite lookup_empty in H. discriminate. Qed.

Lemma acc_ext r f g T : (forall i t, T !! i = Some t -> f t = g t) -> acc_ok r f T -> acc_ok r g T.
Proof.
  intros He [H1 H2]. split.
  - intros d. rewrite H1. apply tsum_ext. exact He.
  - intros Hn i t Ht. rewrite <- (He i t Ht). exact (H2 Hn i t Ht).
Qed.

Lemma acc_insert_in r f T i t :
  T !! i = None -> f t = true -> task_wf t -> acc_ok r f T -> acc_ok (add r (t_req t)) f (<[i := t]> T).
Proof.
  intros Hn Hf Hw [H1 H2]. split.
  - intros d. rewrite amt_add, tsum_insert, Hf, H1 by exact Hn. lia.
  - intros Hs. exfalso. exact (sc_add_some r (t_req t) Hw Hs).
Qed.

Lemma acc_insert_out r f T i t :
  T !! i = None -> f t = false -> acc_ok r f T -> acc_ok r f (<[i := t]> T).
Proof.
  intros Hn Hf [H1 H2]. split.
  - intros d. rewrite tsum_insert, Hf, H1 by exact Hn. lia.
  - intros Hs j u Hu. destruct (decide (j = i)) as [->|Hne].
    + rewrite lookup_insert in Hu. congruence.
    + rewrite lookup_insert_ne in Hu by congruence. exact (H2 Hs j u Hu).
Qed.

Lemma acc_delete_in r f T i t :
  T !! i = Some t -> f t = true -> acc_ok r f T -> acc_ok (sub r (t_req t)) f (delete i T).
Proof.
  intros Hs Hf [H1 H2]. split.
  - intros d. rewrite amt_sub.
    + rewrite H1, (tsum_delete f T i t d Hs), Hf. lia.
    + intros Hn. rewrite (H2 Hn i t Hs) in Hf. discriminate.
  - intros Hn j u Hu. exfalso.
    assert (sc r = None) as Hr by (unfold sub in Hn; simpl in Hn; destruct (sc r); [discriminate|reflexivity]).
    rewrite (H2 Hr i t Hs) in Hf. discriminate.
Qed.

Lemma acc_delete_out r f T i t :
  T !! i = Some t -> f t = false -> acc_ok r f T -> acc_ok r f (delete i T).
Proof.
  intros Hs Hf [H1 H2]. split.
  - intros d. rewrite H1, (tsum_delete f T i t d Hs), Hf. lia.
  - intros Hn j u Hu. apply (H2 Hn j u). rewrite lookup_delete_Some in Hu. tauto.
Qed.

(* ---------- JobInfo ---------- *)

Definition in_j (j : positive) (t : task) : bool := bool_decide (t_job t = j).

Record JobRep (T : gmap positive task) (j : positive) (J : job) : Prop := mkJobRep {
  jr_id : j_id J = j;
  jr_tasks : forall i, i ∈ j_tasks J <-> exists t, T !! i = Some t /\ t_job t = j;
  jr_total : acc_ok (j_total J) (in_j j) T;
  jr_alloc : acc_ok (j_alloc J) (fun t => in_j j t && allocated_status (t_status t)) T;
}.

Lemma job_rep_new j : JobRep ∅ j (new_job j).
Proof.
  split; [reflexivity| |apply acc_empty|apply acc_empty].
  intros i. simpl. split; [set_solver|]. intros (t & Ht & _). rewrite lookup_empty in Ht. discriminate.
Qed.

Lemma job_add_rep T j J t :
  JobRep T j J -> T !! t_id t = None -> t_job t = j -> task_wf t ->
  JobRep (<[t_id t := t]> T) j (job_add J t).
Proof.
  intros [Hid Hts Htot Hal] Hn Hj Hw. split.
  - exact Hid.
  - intros i. simpl. rewrite elem_of_union, elem_of_singleton, Hts. split.
    + intros [->|(u & Hu & Huj)].
      * exists t. rewrite lookup_insert. auto.
      * exists u. rewrite lookup_insert_ne; [auto|]. intros <-. congruence.
    + intros (u & Hu & Huj). destruct (decide (i = t_id t)) as [->|Hne]; [auto|].
      right. exists u. rewrite lookup_insert_ne in Hu by congruence. auto.
  - simpl. apply acc_insert_in; auto. unfold in_j. rewrite bool_decide_eq_true. exact Hj.
  - simpl. destruct (allocated_status (t_status t)) eqn:Ha.
    + apply acc_insert_in; auto. unfold in_j. rewrite Ha, andb_true_r, bool_decide_eq_true. exact Hj.
    + apply acc_insert_out; auto. rewrite Ha, andb_false_r. reflexivity.
Qed.

Lemma job_insert_other T j J i t :
  JobRep T j J -> T !! i = None -> t_job t <> j -> JobRep (<[i := t]> T) j J.
Proof.
  intros [Hid Hts Htot Hal] Hn Hj.
  assert (Hf : in_j j t = false) by (unfold in_j; rewrite bool_decide_eq_false; exact Hj).
  split; [exact Hid| | |].
  - intros k. rewrite Hts. split; intros (u & Hu & Huj).
    + exists u. rewrite lookup_insert_ne; [auto|]. intros <-. congruence.
    + destruct (decide (k = i)) as [->|Hne].
      * rewrite lookup_insert in Hu. congruence.
      * exists u. rewrite lookup_insert_ne in Hu by congruence. auto.
  - apply acc_insert_out; auto.
  - apply acc_insert_out; auto. rewrite Hf. reflexivity.
Qed.

Lemma job_del_rep T j J t :
  JobRep T j J -> T !! t_id t = Some t -> t_job t = j ->
  JobRep (delete (t_id t) T) j (job_del J t).
Proof.
  intros [Hid Hts Htot Hal] Hs Hj.
  assert (Hf : in_j j t = true) by (unfold in_j; rewrite bool_decide_eq_true; exact Hj).
  split.
  - exact Hid.
  - intros i. simpl. rewrite elem_of_difference, elem_of_singleton, Hts. split.
    + intros [(u & Hu & Huj) Hne]. exists u. rewrite lookup_delete_ne by congruence. auto.
    + intros (u & Hu & Huj). rewrite lookup_delete_Some in Hu. destruct Hu as [Hne Hu]. split; [eauto|congruence].
  - simpl. apply acc_delete_in; auto.
  - simpl. destruct (allocated_status (t_status t)) eqn:Ha.
    + apply acc_delete_in; auto. rewrite Hf, Ha. reflexivity.
    + apply (acc_delete_out _ _ _ _ t); auto. rewrite Ha, andb_false_r. reflexivity.
Qed.

Lemma job_delete_other T j J i t :
  JobRep T j J -> T !! i = Some t -> t_job t <> j -> JobRep (delete i T) j J.
Proof.
  intros [Hid Hts Htot Hal] Hs Hj.
  assert (Hf : in_j j t = false) by (unfold in_j; rewrite bool_decide_eq_false; exact Hj).
  split; [exact Hid| | |].
  - intros k. rewrite Hts. split; intros (u & Hu & Huj).
    + exists u. rewrite lookup_delete_ne; [auto|]. intros <-. congruence.
    + rewrite lookup_delete_Some in Hu. destruct Hu as [_ Hu]. eauto.
  - apply (acc_delete_out _ _ _ _ t); auto.
  - apply (acc_delete_out _ _ _ _ t); auto. rewrite Hf. reflexivity.
Qed.

(* ---------- NodeInfo ---------- *)

Definition on_n (n : positive) (t : task) : bool :=
  bool_decide (t_node t = Some n) && negb (terminated (t_status t)).
Definition is_st (s : status) (t : task) : bool := bool_decide (t_status t = s).
Definition f_used (n : positive) (t : task) : bool := on_n n t && negb (is_st Pipelined t).
Definition f_rel (n : positive) (t : task) : bool := on_n n t && is_st Releasing t.
Definition f_pip (n : positive) (t : task) : bool := on_n n t && is_st Pipelined t.

Record Ledger (T : gmap positive task) (n : positive) (N : node) : Prop := mkLedger {
  lg_idle_sc : sc (n_idle N) <> None;
  lg_used : acc_ok (n_used N) (f_used n) T;
  lg_rel : acc_ok (n_releasing N) (f_rel n) T;
  lg_pip : acc_ok (n_pipelined N) (f_pip n) T;
  lg_idle : forall d, amt (n_idle N) d = amt (n_alloc N) d - tsum (f_used n) T d;
}.

Record NodeRep (T : gmap positive task) (n : positive) (N : node) : Prop := mkNodeRep {
  nr_id : n_id N = n;
  nr_tasks : n_tasks N = filter (fun kv => on_n n (snd kv) = true) T;
  nr_ledger : n_has_node N = true -> Ledger T n N;
}.

Lemma set_node_same t n : t_node t = Some n -> set_node t (Some n) = t.
Proof. destruct t; simpl; intros ->; reflexivity. Qed.

Lemma ledger_insert_out T n N i t :
  T !! i = None -> on_n n t = false -> Ledger T n N -> Ledger (<[i := t]> T) n N.
Proof.
  intros Hn Hf [H1 H2 H3 H4 H5]. split; [exact H1| | | |].
  - apply acc_insert_out; auto. unfold f_used. rewrite Hf. reflexivity.
  - apply acc_insert_out; auto. unfold f_rel. rewrite Hf. reflexivity.
  - apply acc_insert_out; auto. unfold f_pip. rewrite Hf. reflexivity.
  - intros d. rewrite H5, tsum_insert by exact Hn. unfold f_used. rewrite Hf. simpl. lia.
Qed.

Lemma ledger_delete_out T n N i t :
  T !! i = Some t -> on_n n t = false -> Ledger T n N -> Ledger (delete i T) n N.
Proof.
  intros Hs Hf [H1 H2 H3 H4 H5]. split; [exact H1| | | |].
  - apply (acc_delete_out _ _ _ _ t); auto. unfold f_used. rewrite Hf. reflexivity.
  - apply (acc_delete_out _ _ _ _ t); auto. unfold f_rel. rewrite Hf. reflexivity.
  - apply (acc_delete_out _ _ _ _ t); auto. unfold f_pip. rewrite Hf. reflexivity.
  - intros d. rewrite H5, (tsum_delete (f_used n) T i t d Hs). unfold f_used. rewrite Hf. simpl. lia.
Qed.

Lemma node_insert_other T n N i t :
  NodeRep T n N -> T !! i = None -> on_n n t = false -> NodeRep (<[i := t]> T) n N.
Proof.
  intros [Hid Hts Hl] Hn Hf. split; [exact Hid| |].
  - rewrite Hts. symmetry. apply map_filter_insert_not'; cbn [snd fst].
    + rewrite Hf. discriminate.
    + intros y Hy. congruence.
  - intros Hh. apply ledger_insert_out; auto.
Qed.

Lemma node_delete_other T n N i t :
  NodeRep T n N -> T !! i = Some t -> on_n n t = false -> NodeRep (delete i T) n N.
Proof.
  intros [Hid Hts Hl] Hs Hf. split; [exact Hid| |].
  - rewrite Hts, map_filter_delete. symmetry. apply delete_notin.
    apply map_filter_lookup_None. right. intros x Hx. cbn [snd fst]. rewrite Hs in Hx. injection Hx as <-. rewrite Hf. discriminate.
  - intros Hh. eapply ledger_delete_out; eauto.
Qed.

Lemma node_rep_placeholder n : NodeRep ∅ n (placeholder n).
Proof. split; [reflexivity| |discriminate]. simpl. rewrite map_filter_empty. reflexivity. Qed.

Section WithEps.
Variable eps : Z.

(* the three ways a task counts in a node's ledger *)
Lemma ledger_in T n N i t idle used rel pip ts :
  T !! i = None -> on_n n t = true -> task_wf t -> Ledger T n N ->
  (idle, used, rel, pip) =
    (if is_st Pipelined t then (n_idle N, n_used N, n_releasing N, add (n_pipelined N) (t_req t))
     else if is_st Releasing t then (sub (n_idle N) (t_req t), add (n_used N) (t_req t), add (n_releasing N) (t_req t), n_pipelined N)
     else (sub (n_idle N) (t_req t), add (n_used N) (t_req t), n_releasing N, n_pipelined N)) ->
  Ledger (<[i := t]> T) n (node_with N idle used rel pip ts).
Proof.
  intros Hn Hon Hw [H1 H2 H3 H4 H5] He.
  destruct (is_st Pipelined t) eqn:Hp; [|destruct (is_st Releasing t) eqn:Hr]; injection He as -> -> -> ->;
    split; simpl; try (apply acc_insert_in; auto; unfold f_used, f_rel, f_pip; rewrite Hon, ?Hp, ?Hr; reflexivity);
    try (apply acc_insert_out; auto; unfold f_used, f_rel, f_pip; rewrite Hon, ?Hp, ?Hr; reflexivity);
    try (apply sc_sub_keep; exact H1); try exact H1.
  - unfold is_st in Hp. rewrite bool_decide_eq_true in Hp. apply acc_insert_out; auto.
    unfold f_rel, is_st. rewrite Hon, Hp. reflexivity.
  - intros d. rewrite H5, tsum_insert by exact Hn. unfold f_used. rewrite Hon, Hp. simpl. lia.
  - intros d. rewrite amt_sub by (intros Hx; contradiction). rewrite H5, tsum_insert by exact Hn.
    unfold f_used. rewrite Hon, Hp. simpl. lia.
  - intros d. rewrite amt_sub by (intros Hx; contradiction). rewrite H5, tsum_insert by exact Hn.
    unfold f_used. rewrite Hon, Hp. simpl. lia.
Qed.

Lemma node_add_rep T n N t N' t' :
  NodeRep T n N -> T !! t_id t = None -> t_node t = Some n -> terminated (t_status t) = false -> task_wf t ->
  node_add eps N t = inl (N', t') ->
  NodeRep (<[t_id t := t]> T) n N' /\ t' = t /\ n_has_node N' = n_has_node N /\ n_alloc N' = n_alloc N.
Proof.
  intros [Hid Hts Hl] Hn Hnode Hterm Hw.
  assert (Hon : on_n n t = true) by (unfold on_n; rewrite Hterm, bool_decide_eq_true_2 by exact Hnode; reflexivity).
  assert (Hts' : <[t_id t := t]> (n_tasks N) = filter (fun kv => on_n n (snd kv) = true) (<[t_id t := t]> T)).
  { rewrite Hts. symmetry. apply map_filter_insert_True. exact Hon. }
  unfold node_add. rewrite Hid.
  rewrite bool_decide_eq_false_2 by (rewrite Hnode; intros [_ H]; congruence).
  rewrite bool_decide_eq_false_2.
  2:{ rewrite Hts. intros [x Hx]. apply map_filter_lookup_Some in Hx. destruct Hx as [Hx _]. congruence. }
  rewrite (set_node_same t n Hnode).
  destruct (n_has_node N) eqn:Hh; simpl.
  - specialize (Hl eq_refl).
    assert (Hgen : forall idle used rel pip,
      (idle, used, rel, pip) =
        (if is_st Pipelined t then (n_idle N, n_used N, n_releasing N, add (n_pipelined N) (t_req t))
         else if is_st Releasing t then (sub (n_idle N) (t_req t), add (n_used N) (t_req t), add (n_releasing N) (t_req t), n_pipelined N)
         else (sub (n_idle N) (t_req t), add (n_used N) (t_req t), n_releasing N, n_pipelined N)) ->
      @inl (node * task) add_err (node_with N idle used rel pip (<[t_id t := t]> (n_tasks N)), t) = inl (N', t') ->
      NodeRep (<[t_id t := t]> T) n N' /\ t' = t /\ n_has_node N' = true /\ n_alloc N' = n_alloc N).
    { intros idle used rel pip He Hi. injection Hi as <- <-. split; [|auto].
      split; [exact Hid|exact Hts'|]. intros _. eapply ledger_in; eauto. }
    unfold is_st in Hgen.
    destruct (t_status t) eqn:Hst; try (apply Hgen; reflexivity).
    destruct (less_equal_names eps (t_req t) (n_idle N) DZero); [apply Hgen; reflexivity|discriminate].
  - intros Hi. injection Hi as <- <-. split; [|auto]. split; [exact Hid|exact Hts'|].
    simpl. rewrite Hh. discriminate.
Qed.

Lemma node_add_ok T n N t :
  NodeRep T n N -> T !! t_id t = None -> t_node t = Some n -> t_status t <> Binding ->
  exists N', node_add eps N t = inl (N', t).
Proof.
  intros [Hid Hts Hl] Hn Hnode Hb.
  unfold node_add. rewrite Hid.
  rewrite bool_decide_eq_false_2 by (rewrite Hnode; intros [_ H]; congruence).
  rewrite bool_decide_eq_false_2.
  2:{ rewrite Hts. intros [x Hx]. apply map_filter_lookup_Some in Hx. destruct Hx as [Hx _]. congruence. }
  rewrite (set_node_same t n Hnode).
  destruct (n_has_node N); simpl; [|eauto].
  destruct (t_status t); eauto. contradiction.
Qed.

Lemma ledger_out T n N i t :
  T !! i = Some t -> on_n n t = true -> Ledger T n N ->
  Ledger (delete i T) n
    (if is_st Pipelined t then node_with N (n_idle N) (n_used N) (n_releasing N) (sub (n_pipelined N) (t_req t)) (delete i (n_tasks N))
     else if is_st Releasing t then node_with N (add (n_idle N) (t_req t)) (sub (n_used N) (t_req t)) (sub (n_releasing N) (t_req t)) (n_pipelined N) (delete i (n_tasks N))
     else node_with N (add (n_idle N) (t_req t)) (sub (n_used N) (t_req t)) (n_releasing N) (n_pipelined N) (delete i (n_tasks N))).
Proof.
  intros Hs Hon [H1 H2 H3 H4 H5].
  destruct (is_st Pipelined t) eqn:Hp; [|destruct (is_st Releasing t) eqn:Hr];
    split; simpl; try (apply acc_delete_in; auto; unfold f_used, f_rel, f_pip; rewrite Hon, ?Hp, ?Hr; reflexivity);
    try (apply (acc_delete_out _ _ _ _ t); auto; unfold f_used, f_rel, f_pip; rewrite Hon, ?Hp, ?Hr; reflexivity);
    try (apply sc_add_keep; exact H1); try exact H1.
  - unfold is_st in Hp. rewrite bool_decide_eq_true in Hp. apply (acc_delete_out _ _ _ _ t); auto.
    unfold f_rel, is_st. rewrite Hon, Hp. reflexivity.
  - intros d. rewrite H5, (tsum_delete (f_used n) T i t d Hs). unfold f_used. rewrite Hon, Hp. simpl. lia.
  - intros d. rewrite amt_add, H5, (tsum_delete (f_used n) T i t d Hs). unfold f_used. rewrite Hon, Hp. simpl. lia.
  - intros d. rewrite amt_add, H5, (tsum_delete (f_used n) T i t d Hs). unfold f_used. rewrite Hon, Hp. simpl. lia.
Qed.

Lemma node_remove_rep T n N i t :
  NodeRep T n N -> T !! i = Some t -> on_n n t = true ->
  NodeRep (delete i T) n (node_remove N i) /\
  n_has_node (node_remove N i) = n_has_node N /\ n_alloc (node_remove N i) = n_alloc N.
Proof.
  intros [Hid Hts Hl] Hs Hon.
  assert (Hc : n_tasks N !! i = Some t).
  { rewrite Hts. apply map_filter_lookup_Some. auto. }
  assert (Hts' : delete i (n_tasks N) = filter (fun kv => on_n n (snd kv) = true) (delete i T)).
  { rewrite Hts. symmetry. apply map_filter_delete. }
  unfold node_remove. rewrite Hc.
  destruct (n_has_node N) eqn:Hh; simpl.
  - specialize (Hl eq_refl). pose proof (ledger_out T n N i t Hs Hon Hl) as HL. unfold is_st in HL.
    destruct (t_status t) eqn:Hst; simpl in HL;
      (split; [split; [exact Hid|exact Hts'|intros _; exact HL]|auto]).
  - split; [|auto]. split; [exact Hid|exact Hts'|]. simpl. rewrite Hh. discriminate.
Qed.

End WithEps.

(* ---------- the cache represents its own task table ---------- *)

(* CacheInv: every job / node entry is the ledger of the tasks that name it, and
   an entry exists for every task that names a job, resp. sits on a node *)
Record Rep (c : cache) : Prop := mkRep {
  rp_wf : forall i t, c_heap c !! i = Some t -> t_id t = i /\ task_wf t;
  rp_nojob : c_jobs c !! no_job = None;
  rp_jobs : forall j cj, c_jobs c !! j = Some cj -> JobRep (c_heap c) j (cj_job cj);
  rp_jobs_ex : forall i t, c_heap c !! i = Some t -> t_job t <> no_job -> is_Some (c_jobs c !! t_job t);
  rp_nodes : forall n N, c_nodes c !! n = Some N -> NodeRep (c_heap c) n N;
  rp_nodes_ex : forall i t n, c_heap c !! i = Some t -> on_n n t = true -> is_Some (c_nodes c !! n);
}.

Definition jmeta (cj : cjob) : bool * Z * Z * Z := (cj_pg cj, cj_pguid cj, cj_queue cj, j_min (cj_job cj)).
Definition nmeta (N : node) : bool * res := (n_has_node N, n_alloc N).

(* entries keep their object-level attributes; new entries have no object yet *)
Definition jobs_ext (a b : gmap positive cjob) : Prop :=
  forall j, match a !! j with
            | Some cj => exists cj', b !! j = Some cj' /\ jmeta cj' = jmeta cj
            | None => forall cj', b !! j = Some cj' -> cj_pg cj' = false
            end.
Definition nodes_ext (a b : gmap positive node) : Prop :=
  forall n, match a !! n with
            | Some N => exists N', b !! n = Some N' /\ nmeta N' = nmeta N
            | None => forall N', b !! n = Some N' -> n_has_node N' = false
            end.

Lemma jobs_ext_refl a : jobs_ext a a.
Proof. intros j. destruct (a !! j) eqn:E; [eauto|]. intros cj' H. congruence. Qed.
Lemma nodes_ext_refl a : nodes_ext a a.
Proof. intros j. destruct (a !! j) eqn:E; [eauto|]. intros cj' H. congruence. Qed.

Lemma jobs_ext_trans a b c : jobs_ext a b -> jobs_ext b c -> jobs_ext a c.
Proof.
  intros H1 H2 j. specialize (H1 j). specialize (H2 j). destruct (a !! j) eqn:Ea.
  - destruct H1 as (cj' & Hb & Hm). rewrite Hb in H2. destruct H2 as (cj'' & Hc & Hm'). exists cj''. split; [exact Hc|congruence].
  - destruct (b !! j) eqn:Eb.
    + destruct H2 as (cj'' & Hc & Hm'). intros x Hx. rewrite Hc in Hx. injection Hx as <-.
      specialize (H1 c0 eq_refl). unfold jmeta in Hm'. congruence.
    + exact H2.
Qed.
Lemma nodes_ext_trans a b c : nodes_ext a b -> nodes_ext b c -> nodes_ext a c.
Proof.
  intros H1 H2 j. specialize (H1 j). specialize (H2 j). destruct (a !! j) eqn:Ea.
  - destruct H1 as (cj' & Hb & Hm). rewrite Hb in H2. destruct H2 as (cj'' & Hc & Hm'). exists cj''. split; [exact Hc|congruence].
  - destruct (b !! j) eqn:Eb.
    + destruct H2 as (cj'' & Hc & Hm'). intros x Hx. rewrite Hc in Hx. injection Hx as <-.
      specialize (H1 n eq_refl). unfold nmeta in Hm'. congruence.
    + exact H2.
Qed.

Lemma jobs_ext_insert a j cj' :
  match a !! j with Some cj => jmeta cj' = jmeta cj | None => cj_pg cj' = false end ->
  jobs_ext a (<[j := cj']> a).
Proof.
  intros H k. destruct (decide (k = j)) as [->|Hne].
  - destruct (a !! j) eqn:E.
    + exists cj'. rewrite lookup_insert. auto.
    + intros x. rewrite lookup_insert. congruence.
  - rewrite lookup_insert_ne by congruence. destruct (a !! k) eqn:E; [eauto|]. intros x Hx. congruence.
Qed.
Lemma nodes_ext_insert a n N' :
  match a !! n with Some N => nmeta N' = nmeta N | None => n_has_node N' = false end ->
  nodes_ext a (<[n := N']> a).
Proof.
  intros H k. destruct (decide (k = n)) as [->|Hne].
  - destruct (a !! n) eqn:E.
    + exists N'. rewrite lookup_insert. auto.
    + intros x. rewrite lookup_insert. congruence.
  - rewrite lookup_insert_ne by congruence. destruct (a !! k) eqn:E; [eauto|]. intros x Hx. congruence.
Qed.

Lemma on_n_node n t : on_n n t = true -> t_node t = Some n.
Proof. unfold on_n. rewrite andb_true_iff, bool_decide_eq_true. tauto. Qed.
Lemma on_n_other n n' t : t_node t = Some n -> n' <> n -> on_n n' t = false.
Proof. intros H Hne. unfold on_n. rewrite bool_decide_eq_false_2; [reflexivity|congruence]. Qed.
Lemma on_n_none n t : t_node t = None -> on_n n t = false.
Proof. intros H. unfold on_n. rewrite bool_decide_eq_false_2; [reflexivity|congruence]. Qed.
Lemma on_n_term n t : terminated (t_status t) = true -> on_n n t = false.
Proof. intros H. unfold on_n. rewrite H. apply andb_false_r. Qed.

Lemma rep_node_default c n :
  Rep c -> NodeRep (c_heap c) n (default (placeholder n) (c_nodes c !! n)).
Proof.
  intros R. destruct (c_nodes c !! n) as [N|] eqn:E; simpl; [exact (rp_nodes c R n N E)|].
  split; [reflexivity| |discriminate]. simpl. symmetry. apply map_filter_empty_iff.
  intros i t Ht Hon. cbn [snd] in Hon. destruct (rp_nodes_ex c R i t n Ht Hon) as [x Hx]. congruence.
Qed.

Section WithEps2.
Variable eps : Z.

(* the job named by a TaskInfo, as the handlers pass it around *)
Definition job_arg (jo : option positive) (t : task) : Prop :=
  match jo with None => t_job t = no_job | Some j => t_job t = j /\ j <> no_job end.

(* addTask of a task the cache does not hold yet *)
Lemma add_task_rep c jo t :
  Rep c -> c_heap c !! t_id t = None -> task_wf t -> t_status t <> Binding -> job_arg jo t ->
  let c' := fst (add_task eps c jo t) in
  Rep c' /\ snd (add_task eps c jo t) = true /\
  c_heap c' = <[t_id t := t]> (c_heap c) /\
  jobs_ext (c_jobs c) (c_jobs c') /\ nodes_ext (c_nodes c) (c_nodes c') /\
  c' = with_hjn c (c_heap c') (c_jobs c') (c_nodes c').
Proof.
  intros R Hn Hw Hb Hj.
  (* node side *)
  assert (Hnodes : exists nodes1,
    add_task_nodes eps c t = (nodes1, true) /\
    (forall n N, nodes1 !! n = Some N -> NodeRep (<[t_id t := t]> (c_heap c)) n N) /\
    nodes_ext (c_nodes c) nodes1 /\
    (forall n, is_Some (c_nodes c !! n) -> is_Some (nodes1 !! n)) /\
    (forall n, on_n n t = true -> is_Some (nodes1 !! n))).
  { unfold add_task_nodes. destruct (t_node t) as [n|] eqn:Hnode.
    - pose proof (rep_node_default c n R) as Hd.
      set (ni := default (placeholder n) (c_nodes c !! n)) in *.
      assert (Hmeta : match c_nodes c !! n with Some N => nmeta ni = nmeta N | None => n_has_node ni = false end).
      { unfold ni. destruct (c_nodes c !! n); reflexivity. }
      destruct (terminated (t_status t)) eqn:Hterm.
      + exists (<[n := ni]> (c_nodes c)). split; [reflexivity|]. split; [|split; [|split]].
        * intros n' N HN. destruct (decide (n' = n)) as [->|Hne].
          -- rewrite lookup_insert in HN. injection HN as <-. apply node_insert_other; auto. apply on_n_term; exact Hterm.
          -- rewrite lookup_insert_ne in HN by congruence. apply node_insert_other; auto.
             ++ exact (rp_nodes c R n' N HN).
             ++ apply on_n_term; exact Hterm.
        * apply nodes_ext_insert. exact Hmeta.
        * intros n' [x Hx]. destruct (decide (n' = n)) as [->|Hne]; [rewrite lookup_insert; eauto|].
          rewrite lookup_insert_ne by congruence. eauto.
        * intros n' Hon. rewrite (on_n_term n' t Hterm) in Hon. discriminate.
      + destruct (node_add_ok eps (c_heap c) n ni t Hd Hn Hnode Hb) as [N' HN'].
        simpl. rewrite HN'.
        destruct (node_add_rep eps (c_heap c) n ni t N' t Hd Hn Hnode Hterm Hw HN') as (HR & _ & Hh & Ha).
        exists (<[n := N']> (c_nodes c)). split; [reflexivity|]. split; [|split; [|split]].
        * intros n' N HN. destruct (decide (n' = n)) as [->|Hne].
          -- rewrite lookup_insert in HN. injection HN as <-. exact HR.
          -- rewrite lookup_insert_ne in HN by congruence. apply node_insert_other; auto.
             ++ exact (rp_nodes c R n' N HN).
             ++ apply (on_n_other n); auto.
        * apply nodes_ext_insert. unfold nmeta in *. rewrite Hh, Ha.
          destruct (c_nodes c !! n); [exact Hmeta|]. exact Hmeta.
        * intros n' [x Hx]. destruct (decide (n' = n)) as [->|Hne]; [rewrite lookup_insert; eauto|].
          rewrite lookup_insert_ne by congruence. eauto.
        * intros n' Hon. apply on_n_node in Hon. assert (n' = n) as -> by congruence. rewrite lookup_insert. eauto.
    - exists (c_nodes c). split; [reflexivity|]. split; [|split; [|split]].
      + intros n N HN. apply node_insert_other; auto; [exact (rp_nodes c R n N HN)|apply on_n_none; exact Hnode].
      + apply nodes_ext_refl.
      + auto.
      + intros n Hon. rewrite (on_n_none n t Hnode) in Hon. discriminate. }
  destruct Hnodes as (nodes1 & He & HN1 & Hext & Hkeep & Hnew).
  unfold add_task. rewrite He. cbn [negb].
  (* job side *)
  destruct jo as [j|]; simpl in Hj.
  - destruct Hj as [Hjt Hjn]. cbn [fst snd].
    set (cj := default (new_cjob j) (c_jobs c !! j)).
    assert (HJ : JobRep (c_heap c) j (cj_job cj)).
    { unfold cj. destruct (c_jobs c !! j) as [x|] eqn:E; simpl; [exact (rp_jobs c R j x E)|].
      split; [reflexivity| |split|split].
      - intros i. simpl. split; [set_solver|]. intros (u & Hu & Huj).
        destruct (rp_jobs_ex c R i u Hu) as [y Hy]; [congruence|]. congruence.
      - intros d. rewrite amt_empty. symmetry. apply tsum_none. intros i u Hu. unfold in_j. rewrite bool_decide_eq_false.
        intros Huj. destruct (rp_jobs_ex c R i u Hu) as [y Hy]; [congruence|]. congruence.
      - intros _ i u Hu. unfold in_j. rewrite bool_decide_eq_false.
        intros Huj. destruct (rp_jobs_ex c R i u Hu) as [y Hy]; [congruence|]. congruence.
      - intros d. rewrite amt_empty. symmetry. apply tsum_none. intros i u Hu. unfold in_j. rewrite bool_decide_eq_false_2; [reflexivity|].
        intros Huj. destruct (rp_jobs_ex c R i u Hu) as [y Hy]; [congruence|]. congruence.
      - intros _ i u Hu. unfold in_j. rewrite bool_decide_eq_false_2; [reflexivity|].
        intros Huj. destruct (rp_jobs_ex c R i u Hu) as [y Hy]; [congruence|]. congruence. }
    split; [|split; [reflexivity|split; [reflexivity|split; [|split; [exact Hext|reflexivity]]]]].
    + split; simpl.
      * intros i u Hu. destruct (decide (i = t_id t)) as [->|Hne].
        -- rewrite lookup_insert in Hu. injection Hu as <-. auto.
        -- rewrite lookup_insert_ne in Hu by congruence. exact (rp_wf c R i u Hu).
      * rewrite lookup_insert_ne by congruence. exact (rp_nojob c R).
      * intros j' cj' Hc. destruct (decide (j' = j)) as [->|Hne].
        -- rewrite lookup_insert in Hc. injection Hc as <-. simpl. apply job_add_rep; auto.
        -- rewrite lookup_insert_ne in Hc by congruence. apply job_insert_other; auto; [exact (rp_jobs c R j' cj' Hc)|congruence].
      * intros i u Hu Hnj. destruct (decide (i = t_id t)) as [->|Hne].
        -- rewrite lookup_insert in Hu. injection Hu as <-. rewrite Hjt, lookup_insert. eauto.
        -- rewrite lookup_insert_ne in Hu by congruence. destruct (rp_jobs_ex c R i u Hu Hnj) as [x Hx].
           destruct (decide (t_job u = j)) as [->|Hne2]; [rewrite lookup_insert; eauto|].
           rewrite lookup_insert_ne by congruence. eauto.
      * exact HN1.
      * intros i u n Hu Hon. destruct (decide (i = t_id t)) as [->|Hne].
        -- rewrite lookup_insert in Hu. injection Hu as <-. exact (Hnew n Hon).
        -- rewrite lookup_insert_ne in Hu by congruence. apply Hkeep. exact (rp_nodes_ex c R i u n Hu Hon).
    + simpl. apply jobs_ext_insert. unfold cj. destruct (c_jobs c !! j); reflexivity.
  - cbn [fst snd].
    split; [|split; [reflexivity|split; [reflexivity|split; [apply jobs_ext_refl|split; [exact Hext|reflexivity]]]]].
    split; simpl.
    + intros i u Hu. destruct (decide (i = t_id t)) as [->|Hne].
      * rewrite lookup_insert in Hu. injection Hu as <-. auto.
      * rewrite lookup_insert_ne in Hu by congruence. exact (rp_wf c R i u Hu).
    + exact (rp_nojob c R).
    + intros j' cj' Hc. apply job_insert_other; auto; [exact (rp_jobs c R j' cj' Hc)|].
      rewrite Hj. intros <-. rewrite (rp_nojob c R) in Hc. discriminate.
    + intros i u Hu Hnj. destruct (decide (i = t_id t)) as [->|Hne].
      * rewrite lookup_insert in Hu. injection Hu as <-. contradiction.
      * rewrite lookup_insert_ne in Hu by congruence. exact (rp_jobs_ex c R i u Hu Hnj).
    + exact HN1.
    + intros i u n Hu Hon. destruct (decide (i = t_id t)) as [->|Hne].
      * rewrite lookup_insert in Hu. injection Hu as <-. exact (Hnew n Hon).
      * rewrite lookup_insert_ne in Hu by congruence. apply Hkeep. exact (rp_nodes_ex c R i u n Hu Hon).
Qed.

End WithEps2.

(* deleteTask of a task the cache holds, passed as the stored object *)
Lemma delete_task_rep c jo t :
  Rep c -> c_heap c !! t_id t = Some t -> job_arg jo t ->
  let c' := delete_task c jo t in
  Rep c' /\ c_heap c' = delete (t_id t) (c_heap c) /\
  jobs_ext (c_jobs c) (c_jobs c') /\ nodes_ext (c_nodes c) (c_nodes c') /\
  c' = with_hjn c (c_heap c') (c_jobs c') (c_nodes c').
Proof.
  intros R Hs Hj.
  (* job side *)
  assert (HJ : exists jobs1, delete_task_jobs c jo t = (delete (t_id t) (c_heap c), jobs1) /\
    (forall j cj, jobs1 !! j = Some cj -> JobRep (delete (t_id t) (c_heap c)) j (cj_job cj)) /\
    jobs_ext (c_jobs c) jobs1 /\ jobs1 !! no_job = None /\
    (forall j, is_Some (c_jobs c !! j) -> is_Some (jobs1 !! j))).
  { unfold delete_task_jobs. destruct jo as [j|]; simpl in Hj.
    - destruct Hj as [Hjt Hjn].
      destruct (rp_jobs_ex c R _ t Hs) as [cj Hcj]; [congruence|]. rewrite Hjt in Hcj. rewrite Hcj.
      pose proof (rp_jobs c R j cj Hcj) as HR.
      rewrite bool_decide_eq_true_2 by (apply (jr_tasks _ _ _ HR); eauto).
      rewrite Hs. eexists. split; [reflexivity|]. split; [|split; [|split]].
      + intros j' cj' Hc. destruct (decide (j' = j)) as [->|Hne].
        * rewrite lookup_insert in Hc. injection Hc as <-. simpl. apply job_del_rep; auto.
        * rewrite lookup_insert_ne in Hc by congruence.
          apply (job_delete_other _ _ _ _ t); auto; [exact (rp_jobs c R j' cj' Hc)|congruence].
      + apply jobs_ext_insert. rewrite Hcj. reflexivity.
      + rewrite lookup_insert_ne by congruence. exact (rp_nojob c R).
      + intros j' [x Hx]. destruct (decide (j' = j)) as [->|Hne]; [rewrite lookup_insert; eauto|].
        rewrite lookup_insert_ne by congruence. eauto.
    - eexists. split; [reflexivity|]. split; [|split; [|split]].
      + intros j' cj' Hc. apply (job_delete_other _ _ _ _ t); auto; [exact (rp_jobs c R j' cj' Hc)|].
        rewrite Hj. intros <-. rewrite (rp_nojob c R) in Hc. discriminate.
      + apply jobs_ext_refl.
      + exact (rp_nojob c R).
      + auto. }
  (* node side *)
  assert (HN : (forall n N, delete_task_nodes c t !! n = Some N -> NodeRep (delete (t_id t) (c_heap c)) n N) /\
    nodes_ext (c_nodes c) (delete_task_nodes c t) /\
    (forall n, is_Some (c_nodes c !! n) -> is_Some (delete_task_nodes c t !! n))).
  { unfold delete_task_nodes. destruct (t_node t) as [n|] eqn:Hnode.
    - destruct (terminated (t_status t)) eqn:Hterm.
      + split; [|split; [apply nodes_ext_refl|auto]].
        intros n' N HN. apply (node_delete_other _ _ _ _ t); auto; [exact (rp_nodes c R n' N HN)|apply on_n_term; exact Hterm].
      + assert (Hon : on_n n t = true) by (unfold on_n; rewrite Hterm, bool_decide_eq_true_2 by exact Hnode; reflexivity).
        destruct (rp_nodes_ex c R _ t n Hs Hon) as [ni Hni]. rewrite Hni.
        destruct (node_remove_rep (c_heap c) n ni (t_id t) t (rp_nodes c R n ni Hni) Hs Hon) as (HR & Hh & Ha).
        split; [|split].
        * intros n' N HN. destruct (decide (n' = n)) as [->|Hne].
          -- rewrite lookup_insert in HN. injection HN as <-. exact HR.
          -- rewrite lookup_insert_ne in HN by congruence.
             apply (node_delete_other _ _ _ _ t); auto; [exact (rp_nodes c R n' N HN)|apply (on_n_other n); auto].
        * apply nodes_ext_insert. rewrite Hni. unfold nmeta. rewrite Hh, Ha. reflexivity.
        * intros n' [x Hx]. destruct (decide (n' = n)) as [->|Hne]; [rewrite lookup_insert; eauto|].
          rewrite lookup_insert_ne by congruence. eauto.
    - split; [|split; [apply nodes_ext_refl|auto]].
      intros n' N HN. apply (node_delete_other _ _ _ _ t); auto; [exact (rp_nodes c R n' N HN)|apply on_n_none; exact Hnode]. }
  destruct HJ as (jobs1 & He & HJ1 & Hjext & Hnj & Hjkeep). destruct HN as (HN1 & Hnext & Hnkeep).
  unfold delete_task. rewrite He. cbn [fst snd]. simpl.
  split; [|split; [reflexivity|split; [exact Hjext|split; [exact Hnext|reflexivity]]]].
  split; simpl.
  - intros i u Hu. rewrite lookup_delete_Some in Hu. exact (rp_wf c R i u (proj2 Hu)).
  - exact Hnj.
  - exact HJ1.
  - intros i u Hu Hnjb. rewrite lookup_delete_Some in Hu. apply Hjkeep. exact (rp_jobs_ex c R i u (proj2 Hu) Hnjb).
  - exact HN1.
  - intros i u n Hu Hon. rewrite lookup_delete_Some in Hu. apply Hnkeep. exact (rp_nodes_ex c R i u n (proj2 Hu) Hon).
Qed.

(* ---------- pod handlers ---------- *)

(* the rules of the API server the pod handlers rely on *)
Definition pod_ok (p : pod) : Prop :=
  p_job p <> Some no_job /\ scm (p_req p) <> ∅ /\ (p_phase p = PRunning -> p_node p <> None).
(* spec.nodeName is immutable once set *)
Definition upd_ok (old new : pod) : Prop := p_node old <> None -> p_node new = p_node old.

Lemma rep_frame c c' :
  c_heap c' = c_heap c -> c_jobs c' = c_jobs c -> c_nodes c' = c_nodes c -> Rep c -> Rep c'.
Proof. intros H1 H2 H3 [A B C D E F]. split; rewrite ?H1, ?H2, ?H3; assumption. Qed.

Section Pods.
Variable eps : Z.

(* the tasks the cache holds are exactly the tasks of the last delivered pod versions *)
Definition Synced (c : cache) : Prop := c_heap c = task_of_pod eps <$> c_store c.
Definition store_ok (c : cache) : Prop := forall i p, c_store c !! i = Some p -> p_id p = i /\ pod_ok p.

Lemma pod_status_not_binding p : pod_status p <> Binding.
Proof. unfold pod_status. destruct (p_phase p), (p_deleting p), (p_node p); discriminate. Qed.

Lemma job_arg_pod p : pod_ok p -> job_arg (p_job p) (task_of_pod eps p).
Proof.
  intros (Hj & _). unfold job_arg, task_of_pod. destruct (p_job p) as [j|]; simpl; [|reflexivity].
  split; [reflexivity|congruence].
Qed.

Lemma stored_default c p t :
  c_heap c !! p_id p = Some t -> default t (stored_task c (p_job p) (p_id p)) = t.
Proof.
  intros H. unfold stored_task. destruct (p_job p); [|reflexivity].
  destruct (c_jobs c !! p0); [|reflexivity]. case_bool_decide; [rewrite H|]; reflexivity.
Qed.

Lemma delete_pod_rep c old :
  Rep c -> pod_ok old -> c_heap c !! p_id old = Some (task_of_pod eps old) ->
  let c' := delete_pod eps c old in
  Rep c' /\ c_heap c' = delete (p_id old) (c_heap c) /\ c_store c' = c_store c /\
  jobs_ext (c_jobs c) (c_jobs c') /\ nodes_ext (c_nodes c) (c_nodes c').
Proof.
  intros R Hok Hs. unfold delete_pod.
  set (t := task_of_pod eps old).
  replace (default t (stored_task c (p_job old) (p_id old))) with t by (symmetry; apply stored_default; exact Hs).
  destruct (delete_task_rep c (p_job old) t R Hs (job_arg_pod old Hok)) as (R1 & Hh & Hje & Hne & Hc).
  set (c1 := delete_task c (p_job old) t) in *.
  assert (Hst : c_store c1 = c_store c) by (rewrite Hc; reflexivity).
  assert (G : forall c2, c_heap c2 = c_heap c1 -> c_jobs c2 = c_jobs c1 -> c_nodes c2 = c_nodes c1 -> c_store c2 = c_store c1 ->
              Rep c2 /\ c_heap c2 = delete (p_id old) (c_heap c) /\ c_store c2 = c_store c /\
              jobs_ext (c_jobs c) (c_jobs c2) /\ nodes_ext (c_nodes c) (c_nodes c2)).
  { intros c2 E1 E2 E3 E4. split; [apply (rep_frame c1); auto|]. rewrite E1, E2, E3, E4. auto. }
  destruct (p_job old) as [j|]; [|apply G; reflexivity].
  destruct (c_jobs c1 !! j) as [cj|]; [|apply G; reflexivity].
  destruct (job_terminated cj); apply G; reflexivity.
Qed.

Lemma add_pod_rep c p :
  Rep c -> pod_ok p -> c_heap c !! p_id p = None ->
  let c' := add_pod eps c p in
  Rep c' /\ c_heap c' = <[p_id p := task_of_pod eps p]> (c_heap c) /\ c_store c' = c_store c /\
  jobs_ext (c_jobs c) (c_jobs c') /\ nodes_ext (c_nodes c) (c_nodes c').
Proof.
  intros R Hok Hn. unfold add_pod.
  destruct (add_task_rep eps c (p_job p) (task_of_pod eps p) R Hn) as (R1 & _ & Hh & Hje & Hne & Hc).
  - destruct Hok as (_ & Hw & _). exact Hw.
  - apply pod_status_not_binding.
  - apply job_arg_pod. exact Hok.
  - split; [exact R1|]. split; [exact Hh|]. split; [rewrite Hc; reflexivity|auto].
Qed.

Lemma allocated_needs_node p : pod_ok p -> allocated_status (pod_status p) = true -> p_node p <> None.
Proof.
  intros (_ & _ & Hr). unfold pod_status.
  destruct (p_phase p) eqn:Hp, (p_deleting p), (p_node p); simpl; try discriminate; try congruence.
  intros _. apply Hr. reflexivity.
Qed.

Lemma update_guard c old new :
  pod_ok old -> upd_ok old new -> p_id old = p_id new ->
  c_heap c !! p_id new = Some (task_of_pod eps old) ->
  allocated_in_cache c new && bool_decide (p_node new = None) = false.
Proof.
  intros Hok Hu Hid Hs. destruct (bool_decide (p_node new = None)) eqn:Hb; [|apply andb_false_r].
  rewrite bool_decide_eq_true in Hb. rewrite andb_true_r.
  unfold allocated_in_cache, stored_task. destruct (p_job new); [|reflexivity].
  destruct (c_jobs c !! p); [|reflexivity]. case_bool_decide; [|reflexivity].
  rewrite Hs. simpl. destruct (allocated_status (pod_status old)) eqn:Ha; [|reflexivity].
  exfalso. pose proof (allocated_needs_node old Hok Ha) as Hn. rewrite (Hu Hn) in Hb. contradiction.
Qed.

(* Theorem (pod notifications): AddPod / UpdatePod keep the invariant and leave
   the cache holding exactly the task of the delivered version *)
Theorem handle_pod_inv c p :
  Rep c -> Synced c -> store_ok c -> pod_ok p ->
  (forall old, c_store c !! p_id p = Some old -> upd_ok old p) ->
  let c' := handle eps c (EPod p) in
  Rep c' /\ Synced c' /\ store_ok c' /\ c_store c' = <[p_id p := p]> (c_store c) /\
  jobs_ext (c_jobs c) (c_jobs c') /\ nodes_ext (c_nodes c) (c_nodes c').
Proof.
  intros R S So Hok Hu. unfold handle, handle_with.
  assert (Fin : forall c1, Rep c1 -> c_heap c1 = <[p_id p := task_of_pod eps p]> (c_heap c) -> c_store c1 = c_store c ->
     jobs_ext (c_jobs c) (c_jobs c1) -> nodes_ext (c_nodes c) (c_nodes c1) ->
     let c' := with_store c1 (<[p_id p := p]> (c_store c1)) (c_gone c1 ∖ {[p_id p]}) in
     Rep c' /\ Synced c' /\ store_ok c' /\ c_store c' = <[p_id p := p]> (c_store c) /\
     jobs_ext (c_jobs c) (c_jobs c') /\ nodes_ext (c_nodes c) (c_nodes c')).
  { intros c1 R1 Hh Hst Hje Hne. simpl. split; [apply (rep_frame c1); auto|]. split; [|split; [|split; [|auto]]].
    - unfold Synced. simpl. rewrite Hh, Hst, fmap_insert, S. reflexivity.
    - intros i q. simpl. rewrite Hst. destruct (decide (i = p_id p)) as [->|Hne2].
      + rewrite lookup_insert. intros [= <-]. auto.
      + rewrite lookup_insert_ne by congruence. apply So.
    - simpl. rewrite Hst. reflexivity. }
  destruct (c_store c !! p_id p) as [old|] eqn:Hold.
  - destruct (So _ _ Hold) as [Hid Hokold].
    assert (Hs : c_heap c !! p_id p = Some (task_of_pod eps old)) by (rewrite S, lookup_fmap, Hold; reflexivity).
    unfold update_pod. rewrite (update_guard c old p Hokold (Hu old eq_refl) Hid Hs).
    rewrite <- Hid in Hs.
    destruct (delete_pod_rep c old R Hokold Hs) as (R1 & Hh1 & Hst1 & Hje1 & Hne1).
    set (c1 := delete_pod eps c old) in *.
    destruct (add_pod_rep c1 p R1 Hok) as (R2 & Hh2 & Hst2 & Hje2 & Hne2).
    { rewrite Hh1, <- Hid. apply lookup_delete. }
    apply Fin; auto.
    + rewrite Hh2, Hh1, <- Hid. apply insert_delete_insert.
    + congruence.
    + eapply jobs_ext_trans; eauto.
    + eapply nodes_ext_trans; eauto.
  - assert (Hs : c_heap c !! p_id p = None) by (rewrite S, lookup_fmap, Hold; reflexivity).
    destruct (add_pod_rep c p R Hok Hs) as (R2 & Hh2 & Hst2 & Hje2 & Hne2).
    apply Fin; auto.
Qed.

(* Theorem (DeletePod) *)
Theorem handle_pod_del_inv c i :
  Rep c -> Synced c -> store_ok c ->
  let c' := handle eps c (EPodDel i) in
  Rep c' /\ Synced c' /\ store_ok c' /\ c_store c' = delete i (c_store c) /\
  jobs_ext (c_jobs c) (c_jobs c') /\ nodes_ext (c_nodes c) (c_nodes c').
Proof.
  intros R S So. unfold handle, handle_with.
  destruct (c_store c !! i) as [old|] eqn:Hold.
  - destruct (So _ _ Hold) as [Hid Hokold].
    assert (Hs : c_heap c !! p_id old = Some (task_of_pod eps old)) by (rewrite S, lookup_fmap, Hid, Hold; reflexivity).
    destruct (delete_pod_rep c old R Hokold Hs) as (R1 & Hh1 & Hst1 & Hje1 & Hne1).
    set (c1 := delete_pod eps c old) in *. simpl.
    split; [apply (rep_frame c1); auto|]. split; [|split; [|split; [|auto]]].
    + unfold Synced. simpl. rewrite Hh1, Hst1, fmap_delete, S, Hid. reflexivity.
    + intros k q. simpl. rewrite Hst1, lookup_delete_Some. intros [_ H]. exact (So k q H).
    + simpl. rewrite Hst1. reflexivity.
  - simpl. split; [exact R|]. split; [exact S|]. split; [exact So|].
    split; [symmetry; apply delete_notin; exact Hold|]. split; [apply jobs_ext_refl|apply nodes_ext_refl].
Qed.

End Pods.

(* ---------- nodes: RemoveNode ---------- *)

(* Theorem (RemoveNode, after fix e29cb66): the invariant is kept -- in particular
   every task that sits on the removed node still has an entry (the placeholder) *)
Lemma remove_node_ledger_inv c nid : Rep c -> Rep (remove_node_ledger c nid).
Proof.
  intros R. unfold remove_node_ledger. destruct (c_nodes c !! nid) as [ni|] eqn:Hni.
  - pose proof (rp_nodes c R nid ni Hni) as HR. case_bool_decide as He.
    + destruct R as [A B C D E F]. split; simpl; auto.
      * intros n N HN. rewrite lookup_delete_Some in HN. apply E. tauto.
      * intros i t n Ht Hon. destruct (decide (n = nid)) as [->|Hne].
        -- exfalso. assert (n_tasks ni !! i = Some t) as Hc.
           { rewrite (nr_tasks _ _ _ HR). apply map_filter_lookup_Some. auto. }
           rewrite He, lookup_empty in Hc. discriminate.
        -- rewrite lookup_delete_ne by congruence. exact (F i t n Ht Hon).
    + destruct R as [A B C D E F]. split; simpl; auto.
      * intros n N HN. destruct (decide (n = nid)) as [->|Hne].
        -- rewrite lookup_insert in HN. injection HN as <-. split; simpl.
           ++ exact (nr_id _ _ _ HR).
           ++ exact (nr_tasks _ _ _ HR).
           ++ discriminate.
        -- rewrite lookup_insert_ne in HN by congruence. exact (E n N HN).
      * intros i t n Ht Hon. destruct (decide (n = nid)) as [->|Hne]; [rewrite lookup_insert; eauto|].
        rewrite lookup_insert_ne by congruence. exact (F i t n Ht Hon).
  - apply (rep_frame c); auto.
Qed.

Theorem remove_node_inv c nid : Rep c -> Rep (remove_node c nid).
Proof. intros R. unfold remove_node. eapply rep_frame; [| | |apply (remove_node_ledger_inv c nid R)]; reflexivity. Qed.

(* the placeholder holds exactly the tasks the NodeInfo held *)
Lemma remove_node_keeps_tasks c nid ni :
  c_nodes c !! nid = Some ni -> n_tasks ni <> ∅ ->
  exists ph, c_nodes (remove_node c nid) !! nid = Some ph /\ n_tasks ph = n_tasks ni /\ n_has_node ph = false.
Proof.
  intros H Hne. unfold remove_node, remove_node_ledger. rewrite H. rewrite bool_decide_eq_false_2 by exact Hne.
  simpl. rewrite lookup_insert. eexists. split; [reflexivity|]. split; reflexivity.
Qed.

(* ---------- nodes: AddOrUpdateNode / setNode ---------- *)

Definition lsum (f : task -> bool) (l : list task) (d : dim) : Z :=
  foldr (fun t a => if f t then amt (t_req t) d + a else a) 0 l.

Lemma tsum_lsum f (M : gmap positive task) d : tsum f M d = lsum f (map snd (map_to_list M)) d.
Proof.
  unfold tsum, map_fold, lsum. simpl. induction (map_to_list M) as [|[i t] l IH]; simpl; [reflexivity|].
  rewrite IH. reflexivity.
Qed.

Lemma tsum_filter (P g : task -> bool) (T : gmap positive task) d :
  tsum g (filter (fun kv => P (snd kv) = true) T) d = tsum (fun t => P t && g t) T d.
Proof.
  induction T as [|i t T Hn IH] using map_ind.
  - rewrite map_filter_empty, !tsum_empty. reflexivity.
  - rewrite (tsum_insert (fun t => P t && g t)) by exact Hn. destruct (P t) eqn:HP.
    + rewrite map_filter_insert_True by exact HP. rewrite tsum_insert, IH; [reflexivity|].
      apply map_filter_lookup_None. left. exact Hn.
    + rewrite map_filter_insert_not'; cbn [snd fst].
      * rewrite IH. simpl. lia.
      * rewrite HP. discriminate.
      * intros y Hy. congruence.
Qed.

Definition np (t : task) : bool := negb (is_st Pipelined t).

Lemma node_set_acc_fields X t :
  let Y := node_set_acc X t in
  n_id Y = n_id X /\ n_has_node Y = n_has_node X /\ n_alloc Y = n_alloc X /\ n_tasks Y = n_tasks X /\
  n_used Y = (if np t then add (n_used X) (t_req t) else n_used X) /\
  n_idle Y = (if np t then sub (n_idle X) (t_req t) else n_idle X) /\
  n_releasing Y = (if is_st Releasing t then add (n_releasing X) (t_req t) else n_releasing X) /\
  n_pipelined Y = (if is_st Pipelined t then add (n_pipelined X) (t_req t) else n_pipelined X).
Proof. unfold node_set_acc, np, is_st. destruct (t_status t); simpl; repeat split; reflexivity. Qed.

Lemma fold_acc l : forall X,
  sc (n_idle X) <> None -> Forall task_wf l ->
  let Y := fold_left node_set_acc l X in
  n_id Y = n_id X /\ n_has_node Y = n_has_node X /\ n_alloc Y = n_alloc X /\ n_tasks Y = n_tasks X /\
  sc (n_idle Y) <> None /\
  (forall d, amt (n_used Y) d = amt (n_used X) d + lsum np l d) /\
  (forall d, amt (n_idle Y) d = amt (n_idle X) d - lsum np l d) /\
  (forall d, amt (n_releasing Y) d = amt (n_releasing X) d + lsum (is_st Releasing) l d) /\
  (forall d, amt (n_pipelined Y) d = amt (n_pipelined X) d + lsum (is_st Pipelined) l d) /\
  (sc (n_used X) <> None \/ Exists (fun t => np t = true) l -> sc (n_used Y) <> None) /\
  (sc (n_releasing X) <> None \/ Exists (fun t => is_st Releasing t = true) l -> sc (n_releasing Y) <> None) /\
  (sc (n_pipelined X) <> None \/ Exists (fun t => is_st Pipelined t = true) l -> sc (n_pipelined Y) <> None).
Proof.
  induction l as [|t l IH]; intros X Hsc Hwf.
  - simpl. repeat split; auto; try (intros d; lia); intros [H|H]; auto; inversion H.
  - inversion Hwf as [|? ? Hw Hwl]; subst. simpl.
    destruct (node_set_acc_fields X t) as (E1 & E2 & E3 & E4 & E5 & E6 & E7 & E8).
    set (X1 := node_set_acc X t) in *.
    assert (Hsc1 : sc (n_idle X1) <> None).
    { rewrite E6. destruct (np t); [apply sc_sub_keep|]; exact Hsc. }
    destruct (IH X1 Hsc1 Hwl) as (F1 & F2 & F3 & F4 & F5 & F6 & F7 & F8 & F9 & G1 & G2 & G3).
    split; [congruence|]. split; [congruence|]. split; [congruence|]. split; [congruence|]. split; [exact F5|].
    split; [|split; [|split; [|split; [|split; [|split]]]]].
    + intros d. rewrite F6, E5. destruct (np t); [rewrite amt_add|]; lia.
    + intros d. rewrite F7, E6. destruct (np t); [rewrite amt_sub by (intros; contradiction)|]; lia.
    + intros d. rewrite F8, E7. destruct (is_st Releasing t); [rewrite amt_add|]; lia.
    + intros d. rewrite F9, E8. destruct (is_st Pipelined t); [rewrite amt_add|]; lia.
    + intros H. apply G1. rewrite E5. destruct H as [H|H].
      * left. destruct (np t); [apply sc_add_keep|]; exact H.
      * inversion H as [? ? Ht|? ? Hl]; subst; [left; rewrite Ht; apply sc_add_some; exact Hw|right; exact Hl].
    + intros H. apply G2. rewrite E7. destruct H as [H|H].
      * left. destruct (is_st Releasing t); [apply sc_add_keep|]; exact H.
      * inversion H as [? ? Ht|? ? Hl]; subst; [left; rewrite Ht; apply sc_add_some; exact Hw|right; exact Hl].
    + intros H. apply G3. rewrite E8. destruct H as [H|H].
      * left. destruct (is_st Pipelined t); [apply sc_add_keep|]; exact H.
      * inversion H as [? ? Ht|? ? Hl]; subst; [left; rewrite Ht; apply sc_add_some; exact Hw|right; exact Hl].
Qed.

(* NodeInfo.SetNode: the ledger recomputed from the held tasks is the ledger of
   exactly the tasks that name the node *)
Lemma node_set_rep T n N o :
  NodeRep T n N -> sc (no_alloc o) <> None -> (forall i t, T !! i = Some t -> task_wf t) ->
  NodeRep T n (node_set N o) /\ n_has_node (node_set N o) = true /\ n_alloc (node_set N o) = no_alloc o.
Proof.
  intros [Hid Hts Hl] Hal Hwf. unfold node_set.
  set (l := map snd (map_to_list (n_tasks N))).
  assert (Hmem : forall i t, T !! i = Some t -> on_n n t = true -> t ∈ l).
  { intros i t Ht Hon. unfold l. apply elem_of_list_fmap. exists (i, t). split; [reflexivity|].
    apply elem_of_map_to_list. rewrite Hts. apply map_filter_lookup_Some. auto. }
  assert (Hlw : Forall task_wf l).
  { apply Forall_forall. intros t Ht. unfold l in Ht. apply elem_of_list_fmap in Ht. destruct Ht as ([i u] & -> & Hin).
    apply elem_of_map_to_list in Hin. rewrite Hts in Hin. apply map_filter_lookup_Some in Hin. exact (Hwf i u (proj1 Hin)). }
  destruct (fold_acc l (node_reset N o) Hal Hlw) as (F1 & F2 & F3 & F4 & F5 & F6 & F7 & F8 & F9 & G1 & G2 & G3).
  set (Y := fold_left node_set_acc l (node_reset N o)) in *. simpl in F1, F2, F3, F4.
  assert (Hsum : forall g d, lsum g l d = tsum (fun t => on_n n t && g t) T d).
  { intros g d. unfold l. rewrite <- tsum_lsum, Hts. apply tsum_filter. }
  assert (Hex : forall (g : task -> bool) i t, T !! i = Some t -> on_n n t && g t = true -> Exists (fun t => g t = true) l).
  { intros g i t Ht Hb. apply andb_true_iff in Hb. destruct Hb as [Hon Hg]. apply Exists_exists. exists t. split; [|exact Hg].
    exact (Hmem i t Ht Hon). }
  split; [|split; [exact F2|exact F3]].
  split; [congruence|congruence|]. intros _. split.
  - exact F5.
  - split.
    + intros d. rewrite F6. simpl. rewrite amt_empty, Hsum. reflexivity.
    + intros Hn i t Ht. destruct (f_used n t) eqn:Hf; [|reflexivity]. exfalso. apply G1; [|exact Hn]. right. exact (Hex np i t Ht Hf).
  - split.
    + intros d. rewrite F8. simpl. rewrite amt_empty, Hsum. reflexivity.
    + intros Hn i t Ht. destruct (f_rel n t) eqn:Hf; [|reflexivity]. exfalso. apply G2; [|exact Hn]. right. exact (Hex (is_st Releasing) i t Ht Hf).
  - split.
    + intros d. rewrite F9. simpl. rewrite amt_empty, Hsum. reflexivity.
    + intros Hn i t Ht. destruct (f_pip n t) eqn:Hf; [|reflexivity]. exfalso. apply G3; [|exact Hn]. right. exact (Hex (is_st Pipelined) i t Ht Hf).
  - intros d. rewrite F7, F3. simpl. rewrite Hsum. reflexivity.
Qed.

(* a node the cache has never heard of: no held task names it *)
Lemma node_rep_fresh c o :
  Rep c -> c_nodes c !! no_id o = None -> sc (no_alloc o) <> None -> NodeRep (c_heap c) (no_id o) (fresh_node o).
Proof.
  intros R Hn Hal.
  assert (Hno : forall i t, c_heap c !! i = Some t -> on_n (no_id o) t = false).
  { intros i t Ht. destruct (on_n (no_id o) t) eqn:Hon; [|reflexivity].
    destruct (rp_nodes_ex c R i t _ Ht Hon) as [x Hx]. congruence. }
  assert (Hz : forall g d, tsum (fun t => on_n (no_id o) t && g t) (c_heap c) d = 0).
  { intros g d. apply tsum_none. intros i t Ht. rewrite (Hno i t Ht). reflexivity. }
  split; [reflexivity| |].
  - simpl. symmetry. apply map_filter_empty_iff. intros i t Ht Hon. cbn [snd] in Hon. rewrite (Hno i t Ht) in Hon. discriminate.
  - intros _. split; simpl.
    + exact Hal.
    + split; [intros d; rewrite amt_empty; symmetry; apply Hz|]. intros _ i t Ht. unfold f_used. rewrite (Hno i t Ht). reflexivity.
    + split; [intros d; rewrite amt_empty; symmetry; apply Hz|]. intros _ i t Ht. unfold f_rel. rewrite (Hno i t Ht). reflexivity.
    + split; [intros d; rewrite amt_empty; symmetry; apply Hz|]. intros _ i t Ht. unfold f_pip. rewrite (Hno i t Ht). reflexivity.
    + intros d. unfold f_used. rewrite Hz. lia.
Qed.

(* Theorem (AddOrUpdateNode): the invariant is kept; the entry has the node
   object and its allocatable, whether it is new, updated, or was a placeholder
   holding the tasks of pods that arrived before the node / survived its removal *)
Theorem add_or_update_node_inv c o :
  Rep c -> sc (no_alloc o) <> None ->
  Rep (add_or_update_node c o) /\
  exists N, c_nodes (add_or_update_node c o) !! no_id o = Some N /\ n_has_node N = true /\ n_alloc N = no_alloc o.
Proof.
  intros R Hal. unfold add_or_update_node.
  set (ni := match c_nodes c !! no_id o with Some ni => node_set ni o | None => fresh_node o end).
  assert (H : NodeRep (c_heap c) (no_id o) ni /\ n_has_node ni = true /\ n_alloc ni = no_alloc o).
  { unfold ni. destruct (c_nodes c !! no_id o) as [N|] eqn:E.
    - apply node_set_rep; auto; [exact (rp_nodes c R _ N E)|]. intros i t Ht. exact (proj2 (rp_wf c R i t Ht)).
    - split; [apply node_rep_fresh; auto|split; reflexivity]. }
  destruct H as (HR & Hh & Ha). split.
  - destruct R as [A B C D E F]. split; simpl; auto.
    + intros n N HN. destruct (decide (n = no_id o)) as [->|Hne].
      * rewrite lookup_insert in HN. injection HN as <-. exact HR.
      * rewrite lookup_insert_ne in HN by congruence. exact (E n N HN).
    + intros i t n Ht Hon. destruct (decide (n = no_id o)) as [->|Hne]; [rewrite lookup_insert; eauto|].
      rewrite lookup_insert_ne by congruence. exact (F i t n Ht Hon).
  - exists ni. simpl. rewrite lookup_insert. auto.
Qed.

(* ---------- the view is determined by the tasks and the node / PodGroup objects ---------- *)

Definition job_equiv (a b : cjob) : Prop :=
  j_tasks (cj_job a) = j_tasks (cj_job b) /\
  res_eqv (j_total (cj_job a)) (j_total (cj_job b)) /\ res_eqv (j_alloc (cj_job a)) (j_alloc (cj_job b)).

Definition node_equiv (a b : node) : Prop :=
  n_tasks a = n_tasks b /\
  (n_has_node a = true -> n_has_node b = true -> res_eqv (n_alloc a) (n_alloc b) ->
   res_eqv (n_idle a) (n_idle b) /\ res_eqv (n_used a) (n_used b) /\
   res_eqv (n_releasing a) (n_releasing b) /\ res_eqv (n_pipelined a) (n_pipelined b)).

(* Theorem (determinacy): two caches that satisfy the invariant and hold the same
   tasks agree on every job (membership, total and allocated request) and on
   every node (held tasks and, given the same allocatable, the whole ledger);
   a job or node entry that holds a task in one of them exists in the other *)
Theorem view_determined c c' :
  Rep c -> Rep c' -> c_heap c = c_heap c' ->
  (forall j cj, c_jobs c !! j = Some cj ->
     (j_tasks (cj_job cj) <> ∅ -> is_Some (c_jobs c' !! j)) /\
     (forall cj', c_jobs c' !! j = Some cj' -> job_equiv cj cj')) /\
  (forall n N, c_nodes c !! n = Some N ->
     (n_tasks N <> ∅ -> is_Some (c_nodes c' !! n)) /\
     (forall N', c_nodes c' !! n = Some N' -> node_equiv N N')).
Proof.
  intros R R' Hh. split.
  - intros j cj Hcj. pose proof (rp_jobs c R j cj Hcj) as HJ. split.
    + intros Hne. apply set_choose_L in Hne. destruct Hne as [i Hi].
      apply (jr_tasks _ _ _ HJ) in Hi. destruct Hi as (t & Ht & Htj).
      rewrite Hh in Ht. rewrite <- Htj. apply (rp_jobs_ex c' R' i t Ht).
      rewrite Htj. intros ->. rewrite (rp_nojob c R) in Hcj. discriminate.
    + intros cj' Hcj'. pose proof (rp_jobs c' R' j cj' Hcj') as HJ'. rewrite <- Hh in HJ'.
      split; [|split].
      * apply set_eq. intros i. rewrite (jr_tasks _ _ _ HJ), (jr_tasks _ _ _ HJ'). reflexivity.
      * apply res_eqv_amt. intros d. rewrite (proj1 (jr_total _ _ _ HJ) d), (proj1 (jr_total _ _ _ HJ') d). reflexivity.
      * apply res_eqv_amt. intros d. rewrite (proj1 (jr_alloc _ _ _ HJ) d), (proj1 (jr_alloc _ _ _ HJ') d). reflexivity.
  - intros n N HN. pose proof (rp_nodes c R n N HN) as HR. split.
    + intros Hne. apply map_choose in Hne. destruct Hne as (i & t & Hi).
      rewrite (nr_tasks _ _ _ HR) in Hi. apply map_filter_lookup_Some in Hi. destruct Hi as [Ht Hon].
      rewrite Hh in Ht. exact (rp_nodes_ex c' R' i t n Ht Hon).
    + intros N' HN'. pose proof (rp_nodes c' R' n N' HN') as HR'. rewrite <- Hh in HR'. split.
      * rewrite (nr_tasks _ _ _ HR), (nr_tasks _ _ _ HR'). reflexivity.
      * intros Ha Hb Hal. pose proof (nr_ledger _ _ _ HR Ha) as L. pose proof (nr_ledger _ _ _ HR' Hb) as L'.
        rewrite res_eqv_amt in Hal.
        split; [|split; [|split]]; apply res_eqv_amt; intros d.
        -- rewrite (lg_idle _ _ _ L d), (lg_idle _ _ _ L' d), (Hal d). reflexivity.
        -- rewrite (proj1 (lg_used _ _ _ L) d), (proj1 (lg_used _ _ _ L') d). reflexivity.
        -- rewrite (proj1 (lg_rel _ _ _ L) d), (proj1 (lg_rel _ _ _ L') d). reflexivity.
        -- rewrite (proj1 (lg_pip _ _ _ L) d), (proj1 (lg_pip _ _ _ L') d). reflexivity.
Qed.

(* ---------- PodGroups ---------- *)

Lemma rep_job_default c j :
  Rep c -> j <> no_job -> JobRep (c_heap c) j (cj_job (default (new_cjob j) (c_jobs c !! j))).
Proof.
  intros R Hjn. destruct (c_jobs c !! j) as [x|] eqn:E; simpl; [exact (rp_jobs c R j x E)|].
  assert (Hno : forall i u, c_heap c !! i = Some u -> t_job u <> j).
  { intros i u Hu Huj. destruct (rp_jobs_ex c R i u Hu) as [y Hy]; [congruence|]. congruence. }
  split; [reflexivity| |split|split].
  - intros i. simpl. split; [set_solver|]. intros (u & Hu & Huj). exfalso. exact (Hno i u Hu Huj).
  - intros d. rewrite amt_empty. symmetry. apply tsum_none. intros i u Hu. unfold in_j. rewrite bool_decide_eq_false. exact (Hno i u Hu).
  - intros _ i u Hu. unfold in_j. rewrite bool_decide_eq_false. exact (Hno i u Hu).
  - intros d. rewrite amt_empty. symmetry. apply tsum_none. intros i u Hu. unfold in_j.
    rewrite bool_decide_eq_false_2; [reflexivity|exact (Hno i u Hu)].
  - intros _ i u Hu. unfold in_j. rewrite bool_decide_eq_false_2; [reflexivity|exact (Hno i u Hu)].
Qed.

Lemma job_rep_with T j J m s : JobRep T j J -> JobRep T j (job_with J m s).
Proof. intros [A B C D]. split; simpl; assumption. Qed.

Lemma rep_insert_job c j cj' :
  Rep c -> j <> no_job -> JobRep (c_heap c) j (cj_job cj') -> Rep (with_jobs c (<[j := cj']> (c_jobs c))).
Proof.
  intros [A B C D E F] Hjn HJ. split; simpl; auto.
  - rewrite lookup_insert_ne by congruence. exact B.
  - intros j' x Hx. destruct (decide (j' = j)) as [->|Hne].
    + rewrite lookup_insert in Hx. injection Hx as <-. exact HJ.
    + rewrite lookup_insert_ne in Hx by congruence. exact (C j' x Hx).
  - intros i t Ht Hnj. destruct (D i t Ht Hnj) as [x Hx].
    destruct (decide (t_job t = j)) as [->|Hne]; [rewrite lookup_insert; eauto|].
    rewrite lookup_insert_ne by congruence. eauto.
Qed.

(* Theorem (PodGroup add / update / delete): the ledgers and the membership are
   untouched, whether or not the job's pods arrived first *)
Theorem set_pod_group_inv c g : Rep c -> g_id g <> no_job -> Rep (set_pod_group c g).
Proof.
  intros R Hjn. unfold set_pod_group. apply rep_insert_job; auto. simpl.
  pose proof (rep_job_default c (g_id g) R Hjn) as HJ.
  destruct (cj_pg (default (new_cjob (g_id g)) (c_jobs c !! g_id g))); repeat apply job_rep_with; exact HJ.
Qed.

Theorem delete_pod_group_inv c j : Rep c -> Rep (delete_pod_group c j).
Proof.
  intros R. unfold delete_pod_group. destruct (c_jobs c !! j) as [cj|] eqn:E; [|exact R].
  assert (Hjn : j <> no_job) by (intros ->; rewrite (rp_nojob c R) in E; discriminate).
  unfold delete_job. eapply rep_frame; [| | |apply (rep_insert_job c j (mkCJob (job_with (cj_job cj) (j_min (cj_job cj)) (rebuild_subs (c_heap c) (cj_job cj))) false (cj_pguid cj) (cj_queue cj)) R Hjn)]; try reflexivity.
  simpl. apply job_rep_with. exact (rp_jobs c R j cj E).
Qed.

(* ---------- histories of pod notifications and node removals ---------- *)

Lemma rep_empty : Rep empty_cache.
Proof.
  split; simpl.
  - intros i t H. rewrite lookup_empty in H. discriminate.
  - apply lookup_empty.
  - intros j cj H. rewrite lookup_empty in H. discriminate.
  - intros i t H. rewrite lookup_empty in H. discriminate.
  - intros n N H. rewrite lookup_empty in H. discriminate.
  - intros i t n H. rewrite lookup_empty in H. discriminate.
Qed.

Section Histories.
Variable eps : Z.

Definition Inv (c : cache) : Prop := Rep c /\ Synced eps c /\ store_ok c.

(* the API rules, stated against the informer store the cache was fed from *)
Lemma node_event_inv c v :
  Rep c -> sc (nv_base v) <> None ->
  Rep (node_event c v) /\
  exists N, c_nodes (node_event c v) !! nv_id v = Some N /\ n_has_node N = true /\ n_alloc N = obj_alloc v.
Proof.
  intros R Hsc.
  destruct (add_or_update_node_inv c (eff_obj v) R) as [R1 H1].
  { simpl. apply sc_add_keep. exact Hsc. }
  split; [eapply rep_frame; [| | |exact R1]; reflexivity|exact H1].
Qed.

Definition step_ok (c : cache) (e : event) : Prop :=
  match e with
  | EPod p => pod_ok p /\ forall old, c_store c !! p_id p = Some old -> upd_ok old p
  | EPodDel _ | ENodeDel _ | EQueue _ | EQueueDel _ | EPGDel _ => True
  | EPG g => g_id g <> no_job
  | ENode v => sc (nv_base v) <> None       (* status.allocatable always lists "pods" *)
  | _ => False
  end.

Fixpoint hist_ok (c : cache) (h : list event) : Prop :=
  match h with
  | [] => True
  | e :: r => step_ok c e /\ hist_ok (handle eps c e) r
  end.

Lemma inv_empty : Inv empty_cache.
Proof.
  split; [exact rep_empty|]. split.
  - unfold Synced. simpl. rewrite fmap_empty. reflexivity.
  - intros i p H. simpl in H. rewrite lookup_empty in H. discriminate.
Qed.

Theorem step_inv c e : Inv c -> step_ok c e -> Inv (handle eps c e).
Proof.
  intros (R & S & So) Hok. destruct e; simpl in Hok; try contradiction.
  - destruct Hok as [Hp Hu]. destruct (handle_pod_inv eps c p R S So Hp Hu) as (A & B & C & _). split; auto.
  - destruct (handle_pod_del_inv eps c id R S So) as (A & B & C & _). split; auto.
  - split; [exact (proj1 (node_event_inv c v R Hok))|]. split; [exact S|exact So].
  - assert (E : c_heap (remove_node c id) = c_heap c /\ c_store (remove_node c id) = c_store c).
    { unfold remove_node, remove_node_ledger. destruct (c_nodes c !! id); [case_bool_decide|]; split; reflexivity. }
    destruct E as [E1 E2].
    split; [exact (remove_node_inv c id R)|]. split; [unfold Synced, handle, handle_with; rewrite E1, E2; exact S|].
    unfold store_ok, handle, handle_with. rewrite E2. exact So.
  - split; [exact (set_pod_group_inv c g R Hok)|]. split; [exact S|exact So].
  - assert (E : c_heap (delete_pod_group c id) = c_heap c /\ c_store (delete_pod_group c id) = c_store c).
    { unfold delete_pod_group. destruct (c_jobs c !! id); split; reflexivity. }
    destruct E as [E1 E2].
    split; [exact (delete_pod_group_inv c id R)|]. split; [unfold Synced; simpl; rewrite E1, E2; exact S|].
    unfold store_ok. simpl. rewrite E2. exact So.
  - split; [apply (rep_frame c); auto|]. split; [exact S|exact So].
  - split; [apply (rep_frame c); auto|]. split; [exact S|exact So].
Qed.

(* Theorem: after ANY history of pod notifications (in any order across pods,
   pods naming nodes the cache has never seen), node removals and queue events
   that respects the API rules, the invariant holds and the cache holds exactly
   the tasks of the last delivered pod versions *)
Theorem history_inv h : forall c, Inv c -> hist_ok c h -> Inv (run eps c h).
Proof.
  induction h as [|e r IH]; intros c HI Hok; [exact HI|].
  destruct Hok as [H1 H2]. simpl. apply IH; [apply step_inv; auto|exact H2].
Qed.

(* Corollary (convergence of the pod part of the view): two such histories that
   deliver the same final pod versions end with the same tasks, hence (by
   [view_determined]) with the same job membership and sums and the same tasks
   on every node entry *)
Theorem histories_agree h h' :
  hist_ok empty_cache h -> hist_ok empty_cache h' ->
  c_store (run eps empty_cache h) = c_store (run eps empty_cache h') ->
  c_heap (run eps empty_cache h) = c_heap (run eps empty_cache h').
Proof.
  intros H H' Hs.
  destruct (history_inv h empty_cache inv_empty H) as (_ & S & _).
  destruct (history_inv h' empty_cache inv_empty H') as (_ & S' & _).
  unfold Synced in *. rewrite S, S', Hs. reflexivity.
Qed.

(* ---------- the node objects and the pod store are tracked ---------- *)

Definition NodesMirror (c : cache) (on : gmap positive nodever) : Prop :=
  forall n, match on !! n with
            | Some ob => exists N, c_nodes c !! n = Some N /\ n_has_node N = true /\ n_alloc N = obj_alloc ob
            | None => forall N, c_nodes c !! n = Some N -> n_has_node N = false
            end.

Lemma mirror_ext a b on :
  nodes_ext (c_nodes a) (c_nodes b) -> NodesMirror a on -> NodesMirror b on.
Proof.
  intros He Hm n. specialize (He n). specialize (Hm n). destruct (on !! n) as [ob|].
  - destruct Hm as (N & HN & Hh & Ha). rewrite HN in He. destruct He as (N' & HN' & Hmeta).
    exists N'. unfold nmeta in Hmeta. injection Hmeta as E1 E2. split; [exact HN'|]. split; congruence.
  - intros N' HN'. destruct (c_nodes a !! n) as [N|] eqn:E.
    + destruct He as (N'' & HN'' & Hmeta). rewrite HN'' in HN'. injection HN' as <-.
      unfold nmeta in Hmeta. injection Hmeta as E1 E2. rewrite E1. exact (Hm N eq_refl).
    + exact (He N' HN').
Qed.

Lemma mirror_same_nodes a b on : c_nodes b = c_nodes a -> NodesMirror a on -> NodesMirror b on.
Proof. intros E. apply mirror_ext. rewrite E. apply nodes_ext_refl. Qed.

Definition Tracks (c : cache) (o : objs) : Prop := c_store c = o_pods o /\ NodesMirror c (o_nodes o).

Theorem step_tracks c e o :
  Inv c -> step_ok c e -> Tracks c o -> Tracks (handle eps c e) (apply_event o e).
Proof.
  intros (R & S & So) Hok [Hst Hm]. destruct e; simpl in Hok; try contradiction.
  - destruct Hok as [Hp Hu]. destruct (handle_pod_inv eps c p R S So Hp Hu) as (_ & _ & _ & E & _ & Hne).
    split; [rewrite E, Hst; reflexivity|]. exact (mirror_ext c _ _ Hne Hm).
  - destruct (handle_pod_del_inv eps c id R S So) as (_ & _ & _ & E & _ & Hne).
    split; [rewrite E, Hst; reflexivity|]. exact (mirror_ext c _ _ Hne Hm).
  - destruct (node_event_inv c v R Hok) as (_ & N & HN & Hh & Ha).
    split; [exact Hst|]. intros n. simpl. destruct (decide (n = nv_id v)) as [->|Hne].
    + rewrite lookup_insert. exists N. auto.
    + rewrite lookup_insert_ne by congruence. specialize (Hm n).
      unfold handle, handle_with, node_event, add_or_update_node. simpl. rewrite lookup_insert_ne by congruence. exact Hm.
  - split.
    + simpl. unfold remove_node, remove_node_ledger. destruct (c_nodes c !! id); [case_bool_decide|]; exact Hst.
    + intros n. simpl. specialize (Hm n). unfold remove_node, remove_node_ledger.
      destruct (decide (n = id)) as [->|Hne].
      * rewrite lookup_delete. destruct (c_nodes c !! id) as [ni|] eqn:E; [case_bool_decide|]; simpl.
        -- intros N. rewrite lookup_delete. discriminate.
        -- intros N. rewrite lookup_insert. intros [= <-]. reflexivity.
        -- intros N HN. congruence.
      * rewrite lookup_delete_ne by congruence.
        destruct (c_nodes c !! id) as [ni|] eqn:E; [case_bool_decide|]; simpl;
          rewrite ?lookup_delete_ne, ?lookup_insert_ne by congruence; exact Hm.
  - split; [exact Hst|]. apply (mirror_same_nodes c); [reflexivity|exact Hm].
  - split.
    + simpl. unfold delete_pod_group. destruct (c_jobs c !! id); exact Hst.
    + apply (mirror_same_nodes c); [|exact Hm]. simpl. unfold delete_pod_group. destruct (c_jobs c !! id); reflexivity.
  - split; [exact Hst|]. apply (mirror_same_nodes c); [reflexivity|exact Hm].
  - split; [exact Hst|]. apply (mirror_same_nodes c); [reflexivity|exact Hm].
Qed.

Lemma history_tracks h : forall c o,
  Inv c -> hist_ok c h -> Tracks c o -> Tracks (run eps c h) (fold_left apply_event h o).
Proof.
  induction h as [|e r IH]; intros c o HI Hok HT; [exact HT|].
  destruct Hok as [H1 H2]. simpl. apply IH; [apply step_inv; auto|exact H2|apply step_tracks; auto].
Qed.

Lemma tracks_empty : Tracks empty_cache no_objs.
Proof. split; [reflexivity|]. intros n. simpl. rewrite lookup_empty. intros N H. rewrite lookup_empty in H. discriminate. Qed.

(* Theorem (converges_to_final_objects).  Two histories of pod, node (add,
   update, remove, re-add), PodGroup and queue notifications that respect the
   API rules -- in ANY order across objects: pods before their node or PodGroup,
   nodes removed and re-added under running pods, status flips, deletion
   timestamps -- and end with the same final pods and the same final node
   objects leave caches with the same view: the same tasks (status, node, job),
   for every job the same members and the same TotalRequest / Allocated, for
   every node the same held tasks, the same readiness, and (when the node object
   exists) the same Idle / Used / Releasing / Pipelined; an entry that holds a
   task, or a node that has its object, exists on both sides.  Taking for the
   second history the canonical feed of the final objects to an empty cache
   ([build]) gives the statement of the property. *)
Theorem converges_to_final_objects h h' :
  hist_ok empty_cache h -> hist_ok empty_cache h' ->
  o_pods (final_objects h) = o_pods (final_objects h') ->
  o_nodes (final_objects h) = o_nodes (final_objects h') ->
  let c := run eps empty_cache h in let c' := run eps empty_cache h' in
  c_heap c = c_heap c' /\
  (forall j cj, c_jobs c !! j = Some cj ->
     (j_tasks (cj_job cj) <> ∅ -> is_Some (c_jobs c' !! j)) /\
     (forall cj', c_jobs c' !! j = Some cj' -> job_equiv cj cj')) /\
  (forall n N, c_nodes c !! n = Some N ->
     (n_tasks N <> ∅ \/ n_has_node N = true -> is_Some (c_nodes c' !! n)) /\
     (forall N', c_nodes c' !! n = Some N' ->
        n_tasks N = n_tasks N' /\ n_has_node N = n_has_node N' /\
        (n_has_node N = true ->
         res_eqv (n_alloc N) (n_alloc N') /\ res_eqv (n_idle N) (n_idle N') /\ res_eqv (n_used N) (n_used N') /\
         res_eqv (n_releasing N) (n_releasing N') /\ res_eqv (n_pipelined N) (n_pipelined N')))).
Proof.
  intros H H' Hp Hn c c'.
  destruct (history_inv h empty_cache inv_empty H) as (R & S & _).
  destruct (history_inv h' empty_cache inv_empty H') as (R' & S' & _).
  destruct (history_tracks h empty_cache no_objs inv_empty H tracks_empty) as [Hst Hm].
  destruct (history_tracks h' empty_cache no_objs inv_empty H' tracks_empty) as [Hst' Hm'].
  fold (final_objects h) in Hst, Hm. fold (final_objects h') in Hst', Hm'. fold c in R, S, Hst, Hm. fold c' in R', S', Hst', Hm'.
  assert (Hh : c_heap c = c_heap c').
  { unfold Synced in S, S'. rewrite S, S', Hst, Hst', Hp. reflexivity. }
  destruct (view_determined c c' R R' Hh) as [HJ HN].
  split; [exact Hh|]. split; [exact HJ|].
  intros n N HNn. destruct (HN n N HNn) as [Hex Heq]. split.
  - intros [Ht|Hhas]; [exact (Hex Ht)|].
    specialize (Hm n). specialize (Hm' n). rewrite <- Hn in Hm'.
    destruct (o_nodes (final_objects h) !! n) as [ob|].
    + destruct Hm' as (N' & HN' & _). eauto.
    + rewrite (Hm N HNn) in Hhas. discriminate.
  - intros N' HN'. destruct (Heq N' HN') as [Hts Hled].
    specialize (Hm n). specialize (Hm' n). rewrite <- Hn in Hm'.
    destruct (o_nodes (final_objects h) !! n) as [ob|].
    + destruct Hm as (N1 & HN1 & Hh1 & Ha1). destruct Hm' as (N2 & HN2 & Hh2 & Ha2).
      rewrite HNn in HN1. injection HN1 as <-. rewrite HN' in HN2. injection HN2 as <-.
      split; [exact Hts|]. split; [congruence|]. intros _.
      assert (Hal : res_eqv (n_alloc N) (n_alloc N')) by (rewrite Ha1, Ha2; apply res_eqv_amt; reflexivity).
      split; [exact Hal|]. exact (Hled Hh1 Hh2 Hal).
    + split; [exact Hts|]. rewrite (Hm N HNn), (Hm' N' HN'). split; [reflexivity|discriminate].
Qed.

(* ---------- resynchronisation ---------- *)

(* Theorem (failed bind / evict repaired): whatever the scheduling cycle did to a
   held task (Binding on a node after AddBindTask, Releasing after Evict, ...), as
   long as the invariant holds when its resync runs, syncTask leaves the cache
   holding exactly NewTaskInfo of the API object, with the invariant -- so (by
   [view_determined]) with the view of a cache that only ever saw that object *)
Theorem sync_task_repairs c j st p :
  Rep c -> c_heap c !! t_id st = Some st -> t_job st = j -> j <> no_job ->
  api_pod c (t_id st) = Some p -> p_id p = t_id st -> pod_ok p ->
  let c' := fst (sync_task eps c j st) in
  Rep c' /\ snd (sync_task eps c j st) = true /\
  c_heap c' = <[t_id st := task_of_pod eps p]> (c_heap c).
Proof.
  intros R Hs Hj Hjn Hapi Hid Hok. unfold sync_task. rewrite Hapi.
  destruct (delete_task_rep c (Some j) st R Hs (conj Hj Hjn)) as (R1 & Hh1 & _ & _ & _).
  set (c1 := delete_task c (Some j) st) in *.
  assert (Hn : c_heap c1 !! t_id (task_of_pod eps p) = None).
  { change (t_id (task_of_pod eps p)) with (p_id p). rewrite Hid, Hh1. apply lookup_delete. }
  destruct (add_task_rep eps c1 (p_job p) (task_of_pod eps p) R1 Hn) as (R2 & Hok2 & Hh2 & _).
  - destruct Hok as (_ & Hw & _). exact Hw.
  - apply pod_status_not_binding.
  - apply job_arg_pod. exact Hok.
  - split; [exact R2|]. split; [exact Hok2|]. rewrite Hh2, Hh1.
    change (t_id (task_of_pod eps p)) with (p_id p). rewrite Hid. apply insert_delete_insert.
Qed.

(* the pod is already gone from the API server (the informer has not said so yet):
   the task is dropped from its job and its node *)
Theorem sync_task_gone c j st :
  Rep c -> c_heap c !! t_id st = Some st -> t_job st = j -> j <> no_job ->
  api_pod c (t_id st) = None ->
  let c' := fst (sync_task eps c j st) in
  Rep c' /\ snd (sync_task eps c j st) = true /\ c_heap c' = delete (t_id st) (c_heap c).
Proof.
  intros R Hs Hj Hjn Hapi. unfold sync_task. rewrite Hapi.
  destruct (delete_task_rep c (Some j) st R Hs (conj Hj Hjn)) as (R1 & Hh1 & _). auto.
Qed.

End Histories.
