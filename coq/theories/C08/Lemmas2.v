(* C08 proofs, part 2: what the scheduling cycle does to the cache (AddBindTask,
   Evict), the repair-queue drains as whole folds, the invariant over the WHOLE
   event alphabet, repair of failed binds / evictions, Snapshot. *)
From stdpp Require Import gmap.
From Coq Require Import ZArith Lia.
From V Require Import Base.Codec Base.Res Base.ResLemmas Sched.LedgerModel Sched.LedgerInv C08.Model C08.Lemmas.
Open Scope Z_scope.

(* ---------- small facts about TaskInfo updates ---------- *)

Lemma job_add_set_node J t n : job_add J (set_node t n) = job_add J t.
Proof. reflexivity. Qed.

Lemma set_status_back st s : set_status (set_status st s) (t_status st) = st.
Proof. destruct st; reflexivity. Qed.

Lemma node_remove_absent N i : n_tasks N !! i = None -> node_remove N i = N.
Proof. intros H. unfold node_remove. rewrite H. reflexivity. Qed.

Lemma node_add_set_node eps N t :
  t_node t = None \/ t_node t = Some (n_id N) ->
  node_add eps N (set_node t (Some (n_id N))) = node_add eps N t.
Proof.
  intros H. unfold node_add.
  rewrite (bool_decide_eq_false_2 (t_node (set_node t (Some (n_id N))) <> None /\ _)) by (simpl; intros [_ Hx]; congruence).
  rewrite (bool_decide_eq_false_2 (t_node t <> None /\ _)) by (intros [H1 H2]; destruct H; congruence).
  reflexivity.
Qed.

(* the task a (job, id) key names *)
Lemma stored_task_facts c j i st :
  Rep c -> stored_task c (Some j) i = Some st ->
  exists cj, c_jobs c !! j = Some cj /\ c_heap c !! i = Some st /\ t_id st = i /\ t_job st = j /\
             j <> no_job /\ task_wf st.
Proof.
  intros R. unfold stored_task. destruct (c_jobs c !! j) as [cj|] eqn:Hj; [|discriminate].
  case_bool_decide as Hin; [|discriminate]. intros Hs. exists cj. split; [reflexivity|]. split; [exact Hs|].
  destruct (rp_wf c R i st Hs) as [Hid Hw]. split; [exact Hid|].
  apply (jr_tasks _ _ _ (rp_jobs c R j cj Hj)) in Hin. destruct Hin as (t & Ht & Htj).
  rewrite Hs in Ht. injection Ht as <-. split; [exact Htj|]. split; [|exact Hw].
  intros ->. rewrite (rp_nojob c R) in Hj. discriminate.
Qed.

(* ---------- a held task changes its status / node: JobInfo.UpdateTaskStatus + the node side ---------- *)

Lemma restatus_rep c jid cj st t2 nodes' :
  Rep c -> c_jobs c !! jid = Some cj -> c_heap c !! t_id st = Some st -> t_job st = jid ->
  t_id t2 = t_id st -> t_job t2 = jid -> task_wf t2 ->
  (forall n N, nodes' !! n = Some N -> NodeRep (<[t_id st := t2]> (c_heap c)) n N) ->
  (forall i t n, i <> t_id st -> c_heap c !! i = Some t -> on_n n t = true -> is_Some (nodes' !! n)) ->
  (forall n, on_n n t2 = true -> is_Some (nodes' !! n)) ->
  Rep (with_hjn c (<[t_id st := t2]> (c_heap c))
                  (<[jid := upd_job cj (job_add (job_del (cj_job cj) st) t2)]> (c_jobs c)) nodes').
Proof.
  intros R Hcj Hs Hj Hid2 Hj2 Hw2 HN Hold Hnew.
  assert (Hjn : jid <> no_job) by (intros ->; rewrite (rp_nojob c R) in Hcj; discriminate).
  set (T := c_heap c) in *. set (i := t_id st) in *.
  assert (HT : <[i := t2]> T = <[t_id t2 := t2]> (delete i T)) by (rewrite Hid2; symmetry; apply insert_delete_insert).
  split; simpl.
  - intros k u Hu. destruct (decide (k = i)) as [->|Hne].
    + rewrite lookup_insert in Hu. injection Hu as <-. auto.
    + rewrite lookup_insert_ne in Hu by congruence. exact (rp_wf c R k u Hu).
  - rewrite lookup_insert_ne by congruence. exact (rp_nojob c R).
  - intros j' cj' Hc. rewrite HT. destruct (decide (j' = jid)) as [->|Hne].
    + rewrite lookup_insert in Hc. injection Hc as <-. simpl.
      apply job_add_rep; auto.
      * apply job_del_rep; auto. exact (rp_jobs c R jid cj Hcj).
      * rewrite Hid2. apply lookup_delete.
    + rewrite lookup_insert_ne in Hc by congruence.
      apply job_insert_other; [|rewrite Hid2; apply lookup_delete|congruence].
      apply (job_delete_other _ _ _ _ st); auto; [exact (rp_jobs c R j' cj' Hc)|congruence].
  - intros k u Hu Hnj. destruct (decide (k = i)) as [->|Hne].
    + rewrite lookup_insert in Hu. injection Hu as <-. rewrite Hj2, lookup_insert. eauto.
    + rewrite lookup_insert_ne in Hu by congruence. destruct (rp_jobs_ex c R k u Hu Hnj) as [x Hx].
      destruct (decide (t_job u = jid)) as [->|Hne2]; [rewrite lookup_insert; eauto|].
      rewrite lookup_insert_ne by congruence. eauto.
  - exact HN.
  - intros k u n Hu Hon. destruct (decide (k = i)) as [->|Hne].
    + rewrite lookup_insert in Hu. injection Hu as <-. exact (Hnew n Hon).
    + rewrite lookup_insert_ne in Hu by congruence. exact (Hold k u n Hne Hu Hon).
Qed.

Section Cycle.
Variable eps : Z.

(* ---------- AddBindTask (+ the bind flow) ---------- *)

(* Theorem: every branch of AddBindTask keeps the invariant -- unknown job / task,
   unknown node, node refusing the task (status put back), accepted (Binding on the
   node), with the binder / a pre-binder succeeding or failing (resync queued);
   the object-level attributes of every entry, the store and the held ids are untouched *)
Theorem bind_task_rep c jid tid nid ok :
  Rep c ->
  let c' := fst (bind_task eps c jid tid nid ok) in
  Rep c' /\ c_store c' = c_store c /\ c_gone c' = c_gone c /\
  jobs_ext (c_jobs c) (c_jobs c') /\ nodes_ext (c_nodes c) (c_nodes c') /\
  (forall i, i <> tid -> c_heap c' !! i = c_heap c !! i) /\
  match c_heap c !! tid with
  | Some st => exists t', c_heap c' !! tid = Some t' /\ t_job t' = t_job st /\ t_req t' = t_req st /\
                          (t' = st \/ (t_job st = jid /\ jid <> no_job))
  | None => c_heap c' !! tid = None
  end.
Proof.
  intros R. unfold bind_task.
  assert (Same : Rep c /\ c_store c = c_store c /\ c_gone c = c_gone c /\
     jobs_ext (c_jobs c) (c_jobs c) /\ nodes_ext (c_nodes c) (c_nodes c) /\
     (forall i, i <> tid -> c_heap c !! i = c_heap c !! i) /\
     match c_heap c !! tid with
     | Some st => exists t', c_heap c !! tid = Some t' /\ t_job t' = t_job st /\ t_req t' = t_req st /\
                             (t' = st \/ (t_job st = jid /\ jid <> no_job))
     | None => c_heap c !! tid = None
     end).
  { split; [exact R|]. repeat (split; [reflexivity || apply jobs_ext_refl || apply nodes_ext_refl || auto|]).
    destruct (c_heap c !! tid) as [st|]; [|reflexivity]. exists st. auto. }
  destruct (c_jobs c !! jid) as [cj|] eqn:Hcj; [|exact Same].
  destruct (stored_task c (Some jid) tid) as [st|] eqn:Hst; [|exact Same].
  destruct (stored_task_facts c jid tid st R Hst) as (cj0 & Hcj0 & Hs & Hid & Hj & Hjn & Hw).
  rewrite Hcj in Hcj0. injection Hcj0 as <-.
  destruct (c_nodes c !! nid) as [ni|] eqn:Hni; [|exact Same].
  destruct (n_has_node ni) eqn:Hhas; cbn [negb]; [|exact Same].
  pose proof (rp_nodes c R nid ni Hni) as HR.
  unfold job_set_status. cbn [fst snd].
  set (t1 := set_status st Binding).
  rewrite <- Hid in Hs.
  destruct (node_add eps ni t1) as [[ni' t2]|err] eqn:Hadd.
  - (* accepted *)
    assert (Hid_ni : n_id ni = nid) by exact (nr_id _ _ _ HR).
    assert (Hguard : (t_node t1 = None \/ t_node t1 = Some (n_id ni)) /\ n_tasks ni !! t_id t1 = None).
    { unfold node_add in Hadd. case_bool_decide as G1; [discriminate|]. case_bool_decide as G2; [discriminate|].
      split.
      - destruct (t_node t1) as [m|] eqn:E; [|auto]. right. destruct (decide (m = n_id ni)) as [->|Hne]; [reflexivity|].
        exfalso. apply G1. split; congruence.
      - destruct (n_tasks ni !! t_id t1) eqn:E; [|reflexivity]. exfalso. apply G2. eauto. }
    destruct Hguard as [Hnode Hfree]. change (t_node t1) with (t_node st) in Hnode. change (t_id t1) with (t_id st) in Hfree.
    assert (Hoff : forall n, on_n n st = false).
    { intros n. destruct (on_n n st) eqn:Hon; [|reflexivity]. exfalso.
      pose proof (on_n_node n st Hon) as Hn. destruct Hnode as [Hnn|Hnn]; [congruence|].
      assert (n = nid) as -> by congruence.
      assert (n_tasks ni !! t_id st = Some st) as Hc.
      { rewrite (nr_tasks _ _ _ HR). apply map_filter_lookup_Some. auto. }
      congruence. }
    set (t2' := set_node t1 (Some (n_id ni))).
    assert (Hadd2 : node_add eps ni t2' = inl (ni', t2)).
    { unfold t2'. rewrite node_add_set_node by exact Hnode. exact Hadd. }
    assert (HRd : NodeRep (delete (t_id st) (c_heap c)) nid ni).
    { apply (node_delete_other _ _ _ _ st); auto. }
    destruct (node_add_rep eps (delete (t_id st) (c_heap c)) nid ni t2' ni' t2 HRd) as (HR' & Ht2 & Hh' & Ha'); auto.
    { apply lookup_delete. }
    { simpl. congruence. }
    subst t2. change (t_id t2') with (t_id st) in HR'. rewrite insert_delete_insert in HR'.
    assert (Rc1 : Rep (with_hjn c (<[t_id st := t2']> (c_heap c))
                         (<[jid := upd_job cj (job_add (job_del (cj_job cj) st) t2')]> (c_jobs c))
                         (<[nid := ni']> (c_nodes c)))).
    { apply restatus_rep; auto.
      - intros n N HNn. destruct (decide (n = nid)) as [->|Hne].
        + rewrite lookup_insert in HNn. injection HNn as <-. exact HR'.
        + rewrite lookup_insert_ne in HNn by congruence.
          rewrite <- (insert_delete_insert (c_heap c)). apply node_insert_other.
          * apply (node_delete_other _ _ _ _ st); auto. exact (rp_nodes c R n N HNn).
          * apply lookup_delete.
          * apply (on_n_other nid); [simpl; congruence|exact Hne].
      - intros i t n Hne Ht Hon. destruct (rp_nodes_ex c R i t n Ht Hon) as [x Hx].
        destruct (decide (n = nid)) as [->|Hne2]; [rewrite lookup_insert; eauto|rewrite lookup_insert_ne by congruence; eauto].
      - intros n Hon. apply on_n_node in Hon. simpl in Hon. assert (n = nid) as -> by congruence. rewrite lookup_insert. eauto. }
    rewrite Hid in *.
    assert (G : forall c2, c_heap c2 = <[tid := t2']> (c_heap c) ->
                c_jobs c2 = <[jid := upd_job cj (job_add (job_del (cj_job cj) st) t1)]> (c_jobs c) ->
                c_nodes c2 = <[nid := ni']> (c_nodes c) -> c_store c2 = c_store c -> c_gone c2 = c_gone c ->
      Rep c2 /\ c_store c2 = c_store c /\ c_gone c2 = c_gone c /\
      jobs_ext (c_jobs c) (c_jobs c2) /\ nodes_ext (c_nodes c) (c_nodes c2) /\
      (forall i, i <> tid -> c_heap c2 !! i = c_heap c !! i) /\
      match c_heap c !! tid with
      | Some st => exists t', c_heap c2 !! tid = Some t' /\ t_job t' = t_job st /\ t_req t' = t_req st /\
                              (t' = st \/ (t_job st = jid /\ jid <> no_job))
      | None => c_heap c2 !! tid = None
      end).
    { intros c2 E1 E2 E3 E4 E5.
      split; [apply (rep_frame (with_hjn c (<[tid := t2']> (c_heap c))
                         (<[jid := upd_job cj (job_add (job_del (cj_job cj) st) t2')]> (c_jobs c))
                         (<[nid := ni']> (c_nodes c)))); [exact E1|exact E2|exact E3|exact Rc1]|].
      split; [exact E4|]. split; [exact E5|]. rewrite E1, E2, E3. split; [|split; [|split]].
      - apply jobs_ext_insert. rewrite Hcj. reflexivity.
      - apply nodes_ext_insert. rewrite Hni. unfold nmeta. rewrite Hh', Ha'. reflexivity.
      - intros i Hne. apply lookup_insert_ne. congruence.
      - rewrite Hs. exists t2'. rewrite lookup_insert. split; [reflexivity|]. split; [reflexivity|]. split; [reflexivity|]. right. auto. }
    destruct ok; apply G; reflexivity.
  - (* refused by the node: the status is put back *)
    unfold t1. rewrite set_status_back. cbn [fst snd].
    rewrite Hid in *.
    assert (Rc1 : Rep (with_hjn c (<[tid := st]> (c_heap c))
       (<[jid := upd_job cj (job_add (job_del (job_add (job_del (cj_job cj) st) (set_status st Binding)) (set_status st Binding)) st)]> (c_jobs c))
       (c_nodes c))).
    { rewrite (insert_id (c_heap c) tid st Hs). destruct R as [A B C D E F]. split; simpl; auto.
      - rewrite lookup_insert_ne by congruence. exact B.
      - intros j' cj' Hc. destruct (decide (j' = jid)) as [->|Hne].
        + rewrite lookup_insert in Hc. injection Hc as <-. simpl.
          pose proof (C jid cj Hcj) as J0.
          pose proof (job_del_rep _ _ _ st J0 ltac:(rewrite Hid; exact Hs) Hj) as J1.
          pose proof (job_add_rep _ _ _ (set_status st Binding) J1 ltac:(apply lookup_delete) Hj Hw) as J2.
          change (t_id (set_status st Binding)) with (t_id st) in J2.
          pose proof (job_del_rep _ _ _ (set_status st Binding) J2 ltac:(apply lookup_insert) Hj) as J3.
          change (t_id (set_status st Binding)) with (t_id st) in J3.
          rewrite delete_insert in J3 by apply lookup_delete.
          pose proof (job_add_rep _ _ _ st J3 ltac:(apply lookup_delete) Hj Hw) as J4.
          rewrite insert_delete in J4 by (rewrite Hid; exact Hs). exact J4.
        + rewrite lookup_insert_ne in Hc by congruence. exact (C j' cj' Hc).
      - intros i t Ht Hnj. destruct (D i t Ht Hnj) as [x Hx].
        destruct (decide (t_job t = jid)) as [->|Hne]; [rewrite lookup_insert; eauto|rewrite lookup_insert_ne by congruence; eauto]. }
    split; [exact Rc1|]. split; [reflexivity|]. split; [reflexivity|]. split; [|split; [apply nodes_ext_refl|split]].
    + simpl. apply jobs_ext_insert. rewrite Hcj. reflexivity.
    + intros i Hne. simpl. apply lookup_insert_ne. congruence.
    + rewrite Hs. exists st. simpl. rewrite lookup_insert. auto.
Qed.


(* ---------- Evict ---------- *)

Definition cycle_post (c c' : cache) (jid tid : positive) : Prop :=
  Rep c' /\ c_store c' = c_store c /\ c_gone c' = c_gone c /\
  jobs_ext (c_jobs c) (c_jobs c') /\ nodes_ext (c_nodes c) (c_nodes c') /\
  (forall i, i <> tid -> c_heap c' !! i = c_heap c !! i) /\
  match c_heap c !! tid with
  | Some st => exists t', c_heap c' !! tid = Some t' /\ t_job t' = t_job st /\ t_req t' = t_req st /\
                          (t' = st \/ (t_job st = jid /\ jid <> no_job))
  | None => c_heap c' !! tid = None
  end.

Lemma cycle_post_refl c jid tid : Rep c -> cycle_post c c jid tid.
Proof.
  intros R. split; [exact R|]. repeat (split; [reflexivity || apply jobs_ext_refl || apply nodes_ext_refl || auto|]).
  destruct (c_heap c !! tid) as [st|]; [|reflexivity]. exists st. auto.
Qed.

(* Theorem: every branch of Evict keeps the invariant -- unknown job / task, task without
   a node entry, job without PodGroup, accepted (Releasing in the job and on the node), with
   the evictor succeeding or failing (resync queued) *)
Theorem evict_task_rep c jid tid ok :
  Rep c -> cycle_post c (fst (evict_task eps c jid tid ok)) jid tid.
Proof.
  intros R. unfold evict_task.
  destruct (c_jobs c !! jid) as [cj|] eqn:Hcj; [|apply cycle_post_refl; exact R].
  destruct (stored_task c (Some jid) tid) as [st|] eqn:Hst; [|apply cycle_post_refl; exact R].
  destruct (stored_task_facts c jid tid st R Hst) as (cj0 & Hcj0 & Hs & Hid & Hj & Hjn & Hw).
  rewrite Hcj in Hcj0. injection Hcj0 as <-.
  destruct (t_node st) as [n|] eqn:Hnode; [|apply cycle_post_refl; exact R].
  destruct (c_nodes c !! n) as [ni|] eqn:Hni; [|apply cycle_post_refl; exact R].
  destruct (cj_pg cj); cbn [negb]; [|apply cycle_post_refl; exact R].
  pose proof (rp_nodes c R n ni Hni) as HR.
  assert (Hid_ni : n_id ni = n) by exact (nr_id _ _ _ HR).
  unfold job_set_status. cbn [fst snd].
  set (t1 := set_status st Releasing).
  rewrite <- Hid in Hs.
  (* the node side: RemoveTask, then AddTask of the Releasing task *)
  assert (HRd : NodeRep (delete (t_id st) (c_heap c)) n (node_remove ni (t_id st)) /\
                nmeta (node_remove ni (t_id st)) = nmeta ni).
  { destruct (on_n n st) eqn:Hon.
    - destruct (node_remove_rep (c_heap c) n ni (t_id st) st HR Hs Hon) as (A & B & C).
      split; [exact A|]. unfold nmeta. rewrite B, C. reflexivity.
    - rewrite node_remove_absent.
      + split; [|reflexivity]. apply (node_delete_other _ _ _ _ st); auto.
      + rewrite (nr_tasks _ _ _ HR). apply map_filter_lookup_None. right. intros x Hx. cbn [snd].
        rewrite Hs in Hx. injection Hx as <-. rewrite Hon. discriminate. }
  destruct HRd as [HRd Hmeta].
  assert (Hn1 : t_node t1 = Some n) by exact Hnode.
  destruct (node_add_ok eps _ n _ t1 HRd ltac:(apply lookup_delete) Hn1 ltac:(discriminate)) as [ni' Hadd].
  unfold node_update. change (t_id t1) with (t_id st). rewrite Hadd.
  destruct (node_add_rep eps _ n _ t1 ni' t1 HRd ltac:(apply lookup_delete) Hn1 eq_refl Hw Hadd) as (HR' & _ & Hh' & Ha').
  change (t_id t1) with (t_id st) in HR'. rewrite insert_delete_insert in HR'.
  assert (Rc1 : Rep (with_hjn c (<[t_id st := t1]> (c_heap c))
                       (<[jid := upd_job cj (job_add (job_del (cj_job cj) st) t1)]> (c_jobs c))
                       (<[n := ni']> (c_nodes c)))).
  { apply restatus_rep; auto.
    - intros m N HNm. destruct (decide (m = n)) as [->|Hne].
      + rewrite lookup_insert in HNm. injection HNm as <-. exact HR'.
      + rewrite lookup_insert_ne in HNm by congruence.
        rewrite <- (insert_delete_insert (c_heap c)). apply node_insert_other.
        * apply (node_delete_other _ _ _ _ st); auto; [exact (rp_nodes c R m N HNm)|apply (on_n_other n); auto].
        * apply lookup_delete.
        * apply (on_n_other n); auto.
    - intros i t m Hne Ht Hon. destruct (rp_nodes_ex c R i t m Ht Hon) as [x Hx].
      destruct (decide (m = n)) as [->|Hne2]; [rewrite lookup_insert; eauto|rewrite lookup_insert_ne by congruence; eauto].
    - intros m Hon. apply on_n_node in Hon. assert (m = n) as -> by congruence. rewrite lookup_insert. eauto. }
  rewrite Hid_ni. rewrite Hid in *.
  assert (G : forall c2, c_heap c2 = <[tid := t1]> (c_heap c) ->
              c_jobs c2 = <[jid := upd_job cj (job_add (job_del (cj_job cj) st) t1)]> (c_jobs c) ->
              c_nodes c2 = <[n := ni']> (c_nodes c) -> c_store c2 = c_store c -> c_gone c2 = c_gone c ->
              cycle_post c c2 jid tid).
  { intros c2 E1 E2 E3 E4 E5.
    split; [apply (rep_frame (with_hjn c (<[tid := t1]> (c_heap c))
                       (<[jid := upd_job cj (job_add (job_del (cj_job cj) st) t1)]> (c_jobs c))
                       (<[n := ni']> (c_nodes c)))); [exact E1|exact E2|exact E3|exact Rc1]|].
    split; [exact E4|]. split; [exact E5|]. rewrite E1, E2, E3. split; [|split; [|split]].
    - apply jobs_ext_insert. rewrite Hcj. reflexivity.
    - apply nodes_ext_insert. rewrite Hni. unfold nmeta in *. rewrite Hh', Ha'. exact Hmeta.
    - intros i Hne. apply lookup_insert_ne. congruence.
    - rewrite Hs. exists t1. rewrite lookup_insert. split; [reflexivity|]. split; [reflexivity|]. split; [reflexivity|]. right. auto. }
  destruct ok; apply G; reflexivity.
Qed.

Theorem bind_task_post c jid tid nid ok :
  Rep c -> cycle_post c (fst (bind_task eps c jid tid nid ok)) jid tid.
Proof. intros R. exact (bind_task_rep c jid tid nid ok R). Qed.

End Cycle.

(* ---------- the invariant of the WHOLE alphabet ---------- *)

Lemma stored_some c j i t :
  Rep c -> c_heap c !! i = Some t -> t_job t = j -> j <> no_job -> stored_task c (Some j) i = Some t.
Proof.
  intros R Ht Hj Hjn. unfold stored_task.
  destruct (rp_jobs_ex c R i t Ht) as [cj Hcj]; [congruence|]. rewrite Hj in Hcj. rewrite Hcj.
  rewrite bool_decide_eq_true_2; [exact Ht|].
  apply (jr_tasks _ _ _ (rp_jobs c R j cj Hcj)). eauto.
Qed.

Lemma stored_absent c jo i : Rep c -> c_heap c !! i = None -> stored_task c jo i = None.
Proof.
  intros R Hn. unfold stored_task. destruct jo as [j|]; [|reflexivity].
  destruct (c_jobs c !! j) as [cj|] eqn:Hcj; [|reflexivity].
  case_bool_decide as Hin; [|reflexivity]. exact Hn.
Qed.

(* deleteTask of a task the cache does not hold: nothing changes *)
Lemma delete_task_absent c jo t :
  Rep c -> c_heap c !! t_id t = None ->
  c_heap (delete_task c jo t) = c_heap c /\ c_jobs (delete_task c jo t) = c_jobs c /\
  c_nodes (delete_task c jo t) = c_nodes c.
Proof.
  intros R Hn. unfold delete_task. simpl.
  assert (HJ : delete_task_jobs c jo t = (c_heap c, c_jobs c)).
  { unfold delete_task_jobs. destruct jo as [j|].
    - destruct (c_jobs c !! j) as [cj|] eqn:Hcj; [|reflexivity].
      case_bool_decide as Hin; [|reflexivity]. rewrite Hn. reflexivity.
    - rewrite delete_notin by exact Hn. reflexivity. }
  rewrite HJ. split; [reflexivity|]. split; [reflexivity|].
  unfold delete_task_nodes. destruct (t_node t) as [n|] eqn:Hnode; [|reflexivity].
  destruct (terminated (t_status t)); [reflexivity|].
  destruct (c_nodes c !! n) as [ni|] eqn:Hni; [|reflexivity].
  rewrite node_remove_absent.
  - apply insert_id. exact Hni.
  - rewrite (nr_tasks _ _ _ (rp_nodes c R n ni Hni)). apply map_filter_lookup_None. left. exact Hn.
Qed.

Section Whole.
Variable eps : Z.

(* what the cache holds for a pod is a TaskInfo of that pod's job (its status and node may
   be the cycle's); for a pod without a job it is exactly NewTaskInfo(pod) *)
Definition Coh (c : cache) : Prop :=
  forall i t, c_heap c !! i = Some t ->
    exists p, c_store c !! i = Some p /\ t_job t = t_job (task_of_pod eps p) /\
              (t_job t = no_job -> t = task_of_pod eps p).

Definition Inv2 (c : cache) : Prop := Rep c /\ store_ok c /\ Coh c.

Lemma inv2_frame c c' :
  c_heap c' = c_heap c -> c_jobs c' = c_jobs c -> c_nodes c' = c_nodes c -> c_store c' = c_store c ->
  Inv2 c -> Inv2 c'.
Proof.
  intros H1 H2 H3 H4 (R & So & Co). split; [apply (rep_frame c); auto|]. split.
  - unfold store_ok. rewrite H4. exact So.
  - unfold Coh. rewrite H1, H4. exact Co.
Qed.

Lemma inv_inv2 c : Inv eps c -> Inv2 c.
Proof.
  intros (R & S & So). split; [exact R|]. split; [exact So|].
  intros i t Ht. rewrite S, lookup_fmap in Ht. destruct (c_store c !! i) as [p|] eqn:Hp; [|discriminate].
  injection Ht as <-. exists p. auto.
Qed.

Lemma task_of_pod_job p : t_job (task_of_pod eps p) = default no_job (p_job p).
Proof. reflexivity. Qed.

(* deletePod, whatever the cache holds for the pod (the task of this version, a task
   the cycle changed, or nothing) *)
Lemma delete_pod_gen c old :
  Rep c -> pod_ok old ->
  (forall t, c_heap c !! p_id old = Some t ->
     t_job t = t_job (task_of_pod eps old) /\ (t_job t = no_job -> t = task_of_pod eps old)) ->
  let c' := delete_pod eps c old in
  Rep c' /\ c_heap c' = delete (p_id old) (c_heap c) /\ c_store c' = c_store c /\
  jobs_ext (c_jobs c) (c_jobs c') /\ nodes_ext (c_nodes c) (c_nodes c').
Proof.
  intros R Hok Hco. unfold delete_pod.
  set (pi := task_of_pod eps old).
  set (t := default pi (stored_task c (p_job old) (p_id old))).
  assert (H1 : Rep (delete_task c (p_job old) t) /\
               c_heap (delete_task c (p_job old) t) = delete (p_id old) (c_heap c) /\
               c_store (delete_task c (p_job old) t) = c_store c /\
               jobs_ext (c_jobs c) (c_jobs (delete_task c (p_job old) t)) /\
               nodes_ext (c_nodes c) (c_nodes (delete_task c (p_job old) t))).
  { destruct (c_heap c !! p_id old) as [t0|] eqn:Hh.
    - destruct (Hco t0 eq_refl) as [Hj Hnj]. destruct (rp_wf c R _ t0 Hh) as [Hid0 _].
      assert (Ht : t = t0 /\ job_arg (p_job old) t0).
      { unfold t. rewrite task_of_pod_job in Hj. destruct (p_job old) as [j|] eqn:Hpj; simpl in Hj.
        - assert (j <> no_job) by (destruct Hok as (Hx & _); congruence).
          rewrite (stored_some c j (p_id old) t0 R Hh Hj H). simpl. split; [reflexivity|]. split; auto.
        - simpl. split; [symmetry; apply Hnj; exact Hj|exact Hj]. }
      destruct Ht as [-> Harg]. rewrite <- Hid0 in Hh.
      destruct (delete_task_rep c (p_job old) t0 R Hh Harg) as (R1 & Hh1 & Hje & Hne & Hc).
      rewrite Hid0 in Hh1. split; [exact R1|]. split; [exact Hh1|]. split; [rewrite Hc; reflexivity|auto].
    - assert (Ht : t = pi) by (unfold t; rewrite (stored_absent c _ _ R Hh); reflexivity).
      rewrite Ht.
      destruct (delete_task_absent c (p_job old) pi R Hh) as (E1 & E2 & E3).
      split; [apply (rep_frame c); auto|]. rewrite E1, E2, E3.
      split; [symmetry; apply delete_notin; exact Hh|]. split; [reflexivity|].
      split; [apply jobs_ext_refl|apply nodes_ext_refl]. }
  destruct H1 as (R1 & Hh1 & Hst1 & Hje & Hne).
  set (c1 := delete_task c (p_job old) t) in *.
  assert (G : forall c2, c_heap c2 = c_heap c1 -> c_jobs c2 = c_jobs c1 -> c_nodes c2 = c_nodes c1 -> c_store c2 = c_store c1 ->
              Rep c2 /\ c_heap c2 = delete (p_id old) (c_heap c) /\ c_store c2 = c_store c /\
              jobs_ext (c_jobs c) (c_jobs c2) /\ nodes_ext (c_nodes c) (c_nodes c2)).
  { intros c2 E1 E2 E3 E4. split; [apply (rep_frame c1); auto|]. rewrite E1, E2, E3, E4. auto. }
  destruct (p_job old) as [j|]; [|apply G; reflexivity].
  destruct (c_jobs c1 !! j) as [cj|]; [|apply G; reflexivity].
  destruct (job_terminated cj); apply G; reflexivity.
Qed.


(* ---------- informer events under the whole-alphabet invariant ---------- *)

Definition store_after (s : gmap positive pod) (e : event) : gmap positive pod :=
  match e with EPod p => <[p_id p := p]> s | EPodDel i => delete i s | _ => s end.
Definition keeps_nodes (e : event) : bool :=
  match e with ENode _ | ENodeDel _ => false | _ => true end.

Definition Post2 (c c' : cache) (e : event) : Prop :=
  Inv2 c' /\ c_store c' = store_after (c_store c) e /\
  (keeps_nodes e = true -> nodes_ext (c_nodes c) (c_nodes c')).

(* AddPod / UpdatePod; the update may be the one UpdatePod ignores (task allocated in the
   cache, no node name on the pod yet) *)
(* how the held tasks change: the pod's task becomes NewTaskInfo(pod), unless the update is
   the ignored one *)
Definition pod_heap_ev (c c' : cache) (p : pod) : Prop :=
  (forall i, i <> p_id p -> c_heap c' !! i = c_heap c !! i) /\
  (c_heap c' !! p_id p = Some (task_of_pod eps p) \/
   (c_heap c' !! p_id p = c_heap c !! p_id p /\
    exists t, c_heap c !! p_id p = Some t /\ allocated_status (t_status t) = true /\ p_node p = None)).

Lemma pod_event_full c p :
  Inv2 c -> pod_ok p -> Post2 c (handle eps c (EPod p)) (EPod p) /\ pod_heap_ev c (handle eps c (EPod p)) p.
Proof.
  intros (R & So & Co) Hok. unfold handle, handle_with.
  assert (Fin : forall c1, Rep c1 -> c_store c1 = c_store c -> nodes_ext (c_nodes c) (c_nodes c1) ->
     (forall i, i <> p_id p -> c_heap c1 !! i = c_heap c !! i) ->
     (forall t, c_heap c1 !! p_id p = Some t ->
        t_job t = t_job (task_of_pod eps p) /\ (t_job t = no_job -> t = task_of_pod eps p)) ->
     (c_heap c1 !! p_id p = Some (task_of_pod eps p) \/
      (c_heap c1 !! p_id p = c_heap c !! p_id p /\
       exists t, c_heap c !! p_id p = Some t /\ allocated_status (t_status t) = true /\ p_node p = None)) ->
     Post2 c (with_store c1 (<[p_id p := p]> (c_store c1)) (c_gone c1 ∖ {[p_id p]})) (EPod p) /\
     pod_heap_ev c (with_store c1 (<[p_id p := p]> (c_store c1)) (c_gone c1 ∖ {[p_id p]})) p).
  { intros c1 R1 Hst Hne Hoth Hid Hev. split; [|split; [exact Hoth|exact Hev]].
    split; [|split; [simpl; rewrite Hst; reflexivity|intros _; exact Hne]].
    split; [apply (rep_frame c1); auto|]. split.
    - intros i q. simpl. rewrite Hst. destruct (decide (i = p_id p)) as [->|Hne2].
      + rewrite lookup_insert. intros [= <-]. auto.
      + rewrite lookup_insert_ne by congruence. apply So.
    - intros i t. simpl. rewrite Hst. destruct (decide (i = p_id p)) as [->|Hne2].
      + intros Ht. exists p. rewrite lookup_insert. split; [reflexivity|]. exact (Hid t Ht).
      + rewrite Hoth by exact Hne2. rewrite lookup_insert_ne by congruence. apply Co. }
  destruct (c_store c !! p_id p) as [old|] eqn:Hold.
  - destruct (So _ _ Hold) as [Hido Hokold]. unfold update_pod.
    destruct (allocated_in_cache c p && bool_decide (p_node p = None)) eqn:Hg.
    + (* the update is ignored *)
      apply Fin; auto.
      * apply nodes_ext_refl.
      * intros t Ht. apply andb_true_iff in Hg. destruct Hg as [Hal _]. unfold allocated_in_cache in Hal.
        destruct (stored_task c (p_job p) (p_id p)) as [t'|] eqn:Hst'; [|discriminate].
        destruct (p_job p) as [j|] eqn:Hpj; [|discriminate].
        destruct (stored_task_facts c j (p_id p) t' R Hst') as (_ & _ & Hh & _ & Hj & Hjn & _).
        rewrite Hh in Ht. injection Ht as <-. rewrite task_of_pod_job, Hpj. simpl. split; [exact Hj|congruence].
      * right. split; [reflexivity|]. apply andb_true_iff in Hg. destruct Hg as [Hal Hnn]. rewrite bool_decide_eq_true in Hnn.
        unfold allocated_in_cache in Hal. destruct (stored_task c (p_job p) (p_id p)) as [t'|] eqn:Hst'; [|discriminate].
        destruct (p_job p) as [j|] eqn:Hpj; [|discriminate].
        destruct (stored_task_facts c j (p_id p) t' R Hst') as (_ & _ & Hh & _). exists t'. auto.
    + assert (Hco : forall t, c_heap c !! p_id old = Some t ->
                 t_job t = t_job (task_of_pod eps old) /\ (t_job t = no_job -> t = task_of_pod eps old)).
      { intros t Ht. destruct (Co _ t Ht) as (q & Hq & A & B). rewrite Hido, Hold in Hq. injection Hq as <-. auto. }
      destruct (delete_pod_gen c old R Hokold Hco) as (R1 & Hh1 & Hst1 & _ & Hne1).
      set (c1 := delete_pod eps c old) in *.
      destruct (add_pod_rep eps c1 p R1 Hok) as (R2 & Hh2 & Hst2 & _ & Hne2).
      { rewrite Hh1, Hido. apply lookup_delete. }
      apply Fin; auto.
      * congruence.
      * eapply nodes_ext_trans; eauto.
      * intros i Hne. rewrite Hh2, Hh1, Hido. rewrite lookup_insert_ne, lookup_delete_ne by congruence. reflexivity.
      * intros t. rewrite Hh2, lookup_insert. intros [= <-]. auto.
      * left. rewrite Hh2. apply lookup_insert.
  - assert (Hs : c_heap c !! p_id p = None).
    { destruct (c_heap c !! p_id p) as [t|] eqn:E; [|reflexivity]. destruct (Co _ t E) as (q & Hq & _). congruence. }
    destruct (add_pod_rep eps c p R Hok Hs) as (R2 & Hh2 & Hst2 & _ & Hne2).
    apply Fin; auto.
    + intros i Hne. rewrite Hh2. apply lookup_insert_ne. congruence.
    + intros t. rewrite Hh2, lookup_insert. intros [= <-]. auto.
    + left. rewrite Hh2. apply lookup_insert.
Qed.

Lemma pod_event_inv2 c p : Inv2 c -> pod_ok p -> Post2 c (handle eps c (EPod p)) (EPod p).
Proof. intros I Hok. exact (proj1 (pod_event_full c p I Hok)). Qed.

Lemma pod_delete_inv2 c i :
  Inv2 c -> Post2 c (handle eps c (EPodDel i)) (EPodDel i) /\
            c_heap (handle eps c (EPodDel i)) = (if c_store c !! i then delete i (c_heap c) else c_heap c).
Proof.
  intros (R & So & Co). unfold handle, handle_with.
  destruct (c_store c !! i) as [old|] eqn:Hold.
  - destruct (So _ _ Hold) as [Hid Hokold].
    assert (Hco : forall t, c_heap c !! p_id old = Some t ->
               t_job t = t_job (task_of_pod eps old) /\ (t_job t = no_job -> t = task_of_pod eps old)).
    { intros t Ht. destruct (Co _ t Ht) as (q & Hq & A & B). rewrite Hid, Hold in Hq. injection Hq as <-. auto. }
    destruct (delete_pod_gen c old R Hokold Hco) as (R1 & Hh1 & Hst1 & _ & Hne1).
    set (c1 := delete_pod eps c old) in *.
    split; [|simpl; rewrite Hh1, Hid; reflexivity].
    split; [|split; [simpl; rewrite Hst1; reflexivity|intros _; exact Hne1]].
    split; [apply (rep_frame c1); auto|]. split.
    + intros k q. simpl. rewrite Hst1, lookup_delete_Some. intros [_ H]. exact (So k q H).
    + intros k t. simpl. rewrite Hh1, Hst1, Hid. rewrite lookup_delete_Some. intros [Hne Ht].
      rewrite lookup_delete_ne by congruence. exact (Co k t Ht).
  - split; [|reflexivity]. split; [split; [exact R|split; [exact So|exact Co]]|].
    split; [simpl; symmetry; apply delete_notin; exact Hold|intros _; apply nodes_ext_refl].
Qed.


(* ---------- the cycle's steps and the repair queues under the whole-alphabet invariant ---------- *)

(* store and node objects are those of the start (entries may have been added) *)
Definition Ext (c c' : cache) : Prop :=
  c_store c' = c_store c /\ c_gone c' = c_gone c /\ nodes_ext (c_nodes c) (c_nodes c').
Lemma ext_refl c : Ext c c.
Proof. split; [reflexivity|split; [reflexivity|apply nodes_ext_refl]]. Qed.
Lemma ext_trans a b c : Ext a b -> Ext b c -> Ext a c.
Proof. intros (A1 & A2 & A3) (B1 & B2 & B3). split; [congruence|split; [congruence|eapply nodes_ext_trans; eauto]]. Qed.

Lemma cycle_inv2 c c' jid tid : Inv2 c -> cycle_post c c' jid tid -> Inv2 c' /\ Ext c c'.
Proof.
  intros (R & So & Co) (R' & Hst & Hg & _ & Hne & Hoth & Hid).
  split; [|split; [exact Hst|split; [exact Hg|exact Hne]]].
  split; [exact R'|]. split; [unfold store_ok; rewrite Hst; exact So|].
  intros i t Ht. rewrite Hst. destruct (decide (i = tid)) as [->|Hne2].
  - destruct (c_heap c !! tid) as [st|] eqn:Hs; [|congruence].
    destruct Hid as (t' & Ht' & Hj & _ & Hor). rewrite Ht' in Ht. injection Ht as <-.
    destruct (Co tid st Hs) as (p & Hp & A & B). exists p. split; [exact Hp|]. split; [congruence|].
    intros Hnj. destruct Hor as [->|[Hx Hy]]; [apply B; exact Hnj|]. exfalso. congruence.
  - rewrite Hoth in Ht by exact Hne2. exact (Co i t Ht).
Qed.

(* processCleanupJob on one key *)
Lemma rep_delete_job c j cj :
  Rep c -> c_jobs c !! j = Some cj -> j_tasks (cj_job cj) = ∅ -> Rep (with_jobs c (delete j (c_jobs c))).
Proof.
  intros [A B C D E F] Hcj Hemp. split; simpl; auto.
  - rewrite lookup_delete_None. auto.
  - intros j' cj' H. rewrite lookup_delete_Some in H. apply C. tauto.
  - intros i t Ht Hnj. destruct (D i t Ht Hnj) as [x Hx].
    destruct (decide (t_job t = j)) as [Hj|Hne]; [|rewrite lookup_delete_ne by congruence; eauto].
    exfalso. assert (i ∈ j_tasks (cj_job cj)) as Hin by (apply (jr_tasks _ _ _ (C j cj Hcj)); eauto).
    rewrite Hemp in Hin. set_solver.
Qed.

Lemma cleanup_one_inv2 c k : Inv2 c -> Inv2 (fst (cleanup_one c k)) /\ Ext c (fst (cleanup_one c k)) /\
                                      c_heap (fst (cleanup_one c k)) = c_heap c.
Proof.
  intros I. unfold cleanup_one. destruct (c_jobs c !! fst k) as [cj|] eqn:Hcj; [|split; [exact I|split; [apply ext_refl|reflexivity]]].
  destruct (job_terminated cj) eqn:Ht; [|split; [exact I|split; [apply ext_refl|reflexivity]]].
  case_bool_decide; [|split; [exact I|split; [apply ext_refl|reflexivity]]].
  cbn [fst]. destruct I as (R & So & Co).
  unfold job_terminated in Ht. apply andb_true_iff in Ht. destruct Ht as [_ Hemp]. rewrite bool_decide_eq_true in Hemp.
  split; [|split; [split; [reflexivity|split; [reflexivity|apply nodes_ext_refl]]|reflexivity]].
  split; [exact (rep_delete_job c _ cj R Hcj Hemp)|]. split; [exact So|exact Co].
Qed.

(* syncTask of a held task: re-read from the API *)
Lemma sync_task_post c j st :
  Inv2 c -> c_heap c !! t_id st = Some st -> t_job st = j -> j <> no_job ->
  let c' := fst (sync_task eps c j st) in
  Inv2 c' /\ snd (sync_task eps c j st) = true /\ Ext c c' /\
  c_heap c' = match api_pod c (t_id st) with
              | Some p => <[t_id st := task_of_pod eps p]> (c_heap c)
              | None => delete (t_id st) (c_heap c) end.
Proof.
  intros (R & So & Co) Hs Hj Hjn. unfold sync_task.
  destruct (delete_task_rep c (Some j) st R Hs (conj Hj Hjn)) as (R1 & Hh1 & _ & Hne1 & Hc1).
  set (c1 := delete_task c (Some j) st) in *.
  assert (Hst1 : c_store c1 = c_store c /\ c_gone c1 = c_gone c) by (rewrite Hc1; split; reflexivity).
  destruct Hst1 as [Hst1 Hg1].
  destruct (api_pod c (t_id st)) as [p|] eqn:Hapi.
  - assert (Hp : c_store c !! t_id st = Some p).
    { unfold api_pod in Hapi. case_bool_decide; [discriminate|exact Hapi]. }
    destruct (So _ _ Hp) as [Hid Hok].
    assert (Hn : c_heap c1 !! t_id (task_of_pod eps p) = None).
    { change (t_id (task_of_pod eps p)) with (p_id p). rewrite Hid, Hh1. apply lookup_delete. }
    destruct (add_task_rep eps c1 (p_job p) (task_of_pod eps p) R1 Hn) as (R2 & Hok2 & Hh2 & _ & Hne2 & Hc2).
    + destruct Hok as (_ & Hw & _). exact Hw.
    + apply pod_status_not_binding.
    + apply job_arg_pod. exact Hok.
    + change (t_id (task_of_pod eps p)) with (p_id p) in Hh2. rewrite Hid in Hh2.
      assert (Hst2 : c_store (fst (add_task eps c1 (p_job p) (task_of_pod eps p))) = c_store c /\
                     c_gone (fst (add_task eps c1 (p_job p) (task_of_pod eps p))) = c_gone c).
      { rewrite Hc2. simpl. auto. }
      destruct Hst2 as [Hst2 Hg2].
      split; [|split; [exact Hok2|split; [split; [exact Hst2|split; [exact Hg2|eapply nodes_ext_trans; eauto]]|]]].
      * split; [exact R2|]. split; [unfold store_ok; rewrite Hst2; exact So|].
        intros i t. rewrite Hst2, Hh2, Hh1. destruct (decide (i = t_id st)) as [->|Hne].
        -- rewrite lookup_insert. intros [= <-]. exists p. auto.
        -- rewrite lookup_insert_ne, lookup_delete_ne by congruence. apply Co.
      * rewrite Hh2, Hh1. apply insert_delete_insert.
  - cbn [fst snd]. split; [|split; [reflexivity|split; [split; [exact Hst1|split; [exact Hg1|exact Hne1]]|exact Hh1]]].
    split; [exact R1|]. split; [unfold store_ok; rewrite Hst1; exact So|].
    intros i t. rewrite Hst1, Hh1, lookup_delete_Some. intros [_ Ht]. exact (Co i t Ht).
Qed.

(* every held task that differs from NewTaskInfo(its pod) is waiting in [l] for a resync *)
Definition QueuedIn (l : list (positive * positive)) (c : cache) : Prop :=
  forall i t, c_heap c !! i = Some t ->
    (exists p, c_store c !! i = Some p /\ t = task_of_pod eps p) \/ (t_job t, i) ∈ l.

Lemma resync_one_inv2 c k :
  Inv2 c ->
  Inv2 (fst (resync_one eps c k)) /\ snd (resync_one eps c k) = false /\ Ext c (fst (resync_one eps c k)) /\
  forall l, QueuedIn (k :: l) c -> QueuedIn l (fst (resync_one eps c k)).
Proof.
  intros I. unfold resync_one. destruct k as [j i]. cbn [fst snd].
  destruct (stored_task c (Some j) i) as [st|] eqn:Hst.
  - destruct I as (R & So & Co).
    destruct (stored_task_facts c j i st R Hst) as (_ & _ & Hs & Hid & Hj & Hjn & _).
    rewrite <- Hid in Hs.
    destruct (sync_task_post c j st (conj R (conj So Co)) Hs Hj Hjn) as (I' & Hok & HE & Hh).
    destruct (sync_task eps c j st) as [c1 ok] eqn:Hsy. cbn [fst snd] in *. subst ok.
    split; [exact I'|]. split; [reflexivity|]. split; [exact HE|]. intros l HP.
    destruct HE as (Hst1 & _ & _). intros i' t Ht. rewrite Hst1. rewrite Hh in Ht.
    destruct (decide (i' = t_id st)) as [->|Hne].
    + destruct (api_pod c (t_id st)) as [p|] eqn:Hapi.
      * rewrite lookup_insert in Ht. injection Ht as <-. left. exists p. split; [|reflexivity].
        unfold api_pod in Hapi. case_bool_decide; [discriminate|exact Hapi].
      * rewrite lookup_delete in Ht. discriminate.
    + assert (Ht0 : c_heap c !! i' = Some t).
      { destruct (api_pod c (t_id st)); [rewrite lookup_insert_ne in Ht by congruence|rewrite lookup_delete_ne in Ht by congruence]; exact Ht. }
      destruct (HP i' t Ht0) as [Hl|Hr]; [left; exact Hl|]. right.
      apply elem_of_cons in Hr. destruct Hr as [Heq|Hin]; [|exact Hin]. exfalso. congruence.
  - split; [exact I|]. split; [reflexivity|]. split; [apply ext_refl|]. intros l HP.
    destruct I as (R & So & Co). intros i' t Ht. destruct (HP i' t Ht) as [Hl|Hr]; [left; exact Hl|].
    apply elem_of_cons in Hr. destruct Hr as [Heq|Hin]; [|right; exact Hin].
    injection Heq as Hj Hi. subst i'.
    destruct (decide (t_job t = no_job)) as [Hnj|Hnj].
    + left. destruct (Co i t Ht) as (p & Hp & _ & B). exists p. split; [exact Hp|exact (B Hnj)].
    + exfalso. rewrite (stored_some c j i t R Ht Hj ltac:(congruence)) in Hst. discriminate.
Qed.


Lemma add_task_errq c jo t : c_errq (fst (add_task eps c jo t)) = c_errq c.
Proof. unfold add_task. destruct (add_task_nodes eps c t) as [n ok]. destruct ok, jo; reflexivity. Qed.

Lemma resync_one_errq c k : c_errq (fst (resync_one eps c k)) = c_errq c.
Proof.
  unfold resync_one. destruct (stored_task c (Some (fst k)) (snd k)) as [st|]; [|reflexivity].
  unfold sync_task. destruct (api_pod c (t_id st)) as [p|].
  - destruct (add_task eps (delete_task c (Some (fst k)) st) (p_job p) (task_of_pod eps p)) as [c1 ok] eqn:E.
    cbn [fst]. change c1 with (fst (c1, ok)). rewrite <- E. rewrite add_task_errq. reflexivity.
  - reflexivity.
Qed.

(* ---------- the drains as whole folds ---------- *)

Lemma cleanup_fold l : forall c keep, Inv2 c ->
  let r := fold_left (fun (acc : cache * list (positive * Z)) k =>
                        let '(c1, retry) := cleanup_one (fst acc) k in
                        (c1, if retry then snd acc ++ [k] else snd acc)) l (c, keep) in
  Inv2 (fst r) /\ Ext c (fst r) /\ c_heap (fst r) = c_heap c.
Proof.
  induction l as [|k l IH]; intros c keep I; simpl.
  - split; [exact I|split; [apply ext_refl|reflexivity]].
  - destruct (cleanup_one_inv2 c k I) as (I1 & E1 & H1).
    destruct (cleanup_one c k) as [c1 retry]. cbn [fst snd] in *.
    destruct (IH c1 (if retry then keep ++ [k] else keep) I1) as (I2 & E2 & H2).
    split; [exact I2|]. split; [eapply ext_trans; eauto|congruence].
Qed.

(* Theorem (processCleanupJob loop): a whole drain of DeletedJobs keeps the invariant and
   changes neither the held tasks nor any node *)
Theorem drain_cleanup_inv2 c :
  Inv2 c -> Inv2 (drain_cleanup c) /\ Ext c (drain_cleanup c) /\ c_heap (drain_cleanup c) = c_heap c.
Proof.
  intros I. unfold drain_cleanup.
  pose proof (cleanup_fold (c_delq c) c [] I) as H. cbv zeta in H.
  destruct (fold_left _ (c_delq c) (c, [])) as [c' keep]. cbn [fst snd] in H.
  destruct H as (I' & E' & H'). split; [apply (inv2_frame c'); auto|]. split; [exact E'|exact H'].
Qed.

Lemma resync_fold l : forall c keep, Inv2 c ->
  let r := fold_left (fun (acc : cache * list (positive * positive)) k =>
                        let '(c1, retry) := resync_one eps (fst acc) k in
                        (c1, if retry then snd acc ++ [k] else snd acc)) l (c, keep) in
  Inv2 (fst r) /\ Ext c (fst r) /\ snd r = keep /\ c_errq (fst r) = c_errq c /\
  (QueuedIn l c -> QueuedIn [] (fst r)).
Proof.
  induction l as [|k l IH]; intros c keep I; simpl.
  - split; [exact I|split; [apply ext_refl|split; [reflexivity|auto]]].
  - destruct (resync_one_inv2 c k I) as (I1 & Hr & E1 & P1). pose proof (resync_one_errq c k) as Q1.
    destruct (resync_one eps c k) as [c1 retry]. cbn [fst snd] in *. subst retry.
    destruct (IH c1 keep I1) as (I2 & E2 & K2 & Q2 & P2).
    split; [exact I2|]. split; [eapply ext_trans; eauto|]. split; [exact K2|]. split; [congruence|].
    intros HP. apply P2. apply P1. exact HP.
Qed.

(* every held task is exactly NewTaskInfo of its last delivered pod version *)
Definition SyncedSub (c : cache) : Prop :=
  forall i t, c_heap c !! i = Some t -> exists p, c_store c !! i = Some p /\ t = task_of_pod eps p.

Definition Queued (c : cache) : Prop := QueuedIn (c_errq c) c.

(* Theorem (processResyncTask loop): a whole drain of errTasks keeps the invariant, never
   has to retry, leaves the queue empty, and -- if every task the cycle left different from
   its pod was queued -- leaves every held task equal to NewTaskInfo of its API object
   (tasks whose pod is gone from the API server are dropped) *)
Theorem drain_resync_inv2 c :
  Inv2 c ->
  Inv2 (drain_resync eps c) /\ Ext c (drain_resync eps c) /\ c_errq (drain_resync eps c) = [] /\
  (Queued c -> SyncedSub (drain_resync eps c)).
Proof.
  intros I. unfold drain_resync.
  assert (I0 : Inv2 (with_errq c [])) by (apply (inv2_frame c); auto).
  pose proof (resync_fold (c_errq c) (with_errq c []) [] I0) as H. cbv zeta in H.
  destruct (fold_left _ (c_errq c) (with_errq c [], [])) as [c' keep]. cbn [fst snd] in H.
  destruct H as (I' & E' & K' & Q' & P'). subst keep.
  destruct E' as (E1 & E2 & E3).
  split; [apply (inv2_frame c'); auto|]. split; [split; [exact E1|split; [exact E2|exact E3]]|].
  split; [simpl; rewrite app_nil_r; exact Q'|].
  intros HP. assert (HP' : QueuedIn [] c') by (apply P'; exact HP).
  intros i t Ht. simpl in Ht. destruct (HP' i t Ht) as [Hl|Hr]; [|inversion Hr].
  destruct Hl as (p & Hp & ->). exists p. auto.
Qed.


(* ---------- one induction over the whole alphabet ---------- *)

Definition step_ok2 (e : event) : Prop :=
  match e with
  | EPod p => pod_ok p
  | ENode v => sc (nv_base v) <> None
  | EPG g => g_id g <> no_job
  | _ => True
  end.

Lemma post2_same c c' e :
  store_after (c_store c) e = c_store c ->
  Inv2 c' -> c_store c' = c_store c -> nodes_ext (c_nodes c) (c_nodes c') -> Post2 c c' e.
Proof. intros Hs I Hst Hne. split; [exact I|]. split; [congruence|intros _; exact Hne]. Qed.

(* Theorem (single_event_refines, whole alphabet): every informer notification, every step of
   the scheduling cycle (AddBindTask + bind flow, Evict, with or without API failure) and every
   drain of a repair queue keeps CacheInv, the well-formedness of the informer store and the
   coherence of held tasks with their pods *)
Theorem step_inv2 c e : Inv2 c -> step_ok2 e -> Post2 c (handle eps c e) e.
Proof.
  intros I Hok. destruct e; simpl in Hok.
  - apply pod_event_inv2; auto.
  - exact (proj1 (pod_delete_inv2 c id I)).
  - (* AddOrUpdateNode *)
    destruct I as (R & So & Co). split; [|split; [reflexivity|discriminate]].
    split; [exact (proj1 (node_event_inv c v R Hok))|]. split; [exact So|exact Co].
  - (* RemoveNode *)
    destruct I as (R & So & Co).
    assert (E : c_heap (remove_node c id) = c_heap c /\ c_store (remove_node c id) = c_store c).
    { unfold remove_node, remove_node_ledger. destruct (c_nodes c !! id); [case_bool_decide|]; split; reflexivity. }
    destruct E as [E1 E2]. unfold handle, handle_with.
    split; [|split; [exact E2|discriminate]].
    split; [exact (remove_node_inv c id R)|]. split; [unfold store_ok; rewrite E2; exact So|].
    unfold Coh. rewrite E1, E2. exact Co.
  - (* PodGroup add / update *)
    destruct I as (R & So & Co). apply post2_same; [reflexivity| |reflexivity|apply nodes_ext_refl].
    split; [exact (set_pod_group_inv c g R Hok)|]. split; [exact So|exact Co].
  - (* PodGroup delete *)
    destruct I as (R & So & Co).
    assert (E : c_heap (delete_pod_group c id) = c_heap c /\ c_store (delete_pod_group c id) = c_store c /\
                c_nodes (delete_pod_group c id) = c_nodes c).
    { unfold delete_pod_group. destruct (c_jobs c !! id); repeat split; reflexivity. }
    destruct E as (E1 & E2 & E3). unfold handle, handle_with.
    apply post2_same; [reflexivity| |exact E2|rewrite E3; apply nodes_ext_refl].
    split; [exact (delete_pod_group_inv c id R)|]. split; [unfold store_ok; rewrite E2; exact So|].
    unfold Coh. rewrite E1, E2. exact Co.
  - apply post2_same; [reflexivity| |reflexivity|apply nodes_ext_refl]. apply (inv2_frame c); auto.
  - apply post2_same; [reflexivity| |reflexivity|apply nodes_ext_refl]. apply (inv2_frame c); auto.
  - (* processCleanupJob loop *)
    destruct (drain_cleanup_inv2 c I) as (I' & (E1 & _ & E3) & _).
    apply post2_same; [reflexivity|exact I'|exact E1|exact E3].
  - (* processResyncTask loop *)
    destruct (drain_resync_inv2 c I) as (I' & (E1 & _ & E3) & _).
    apply post2_same; [reflexivity|exact I'|exact E1|exact E3].
  - (* AddBindTask + bind flow *)
    destruct (cycle_inv2 c _ jid tid I (bind_task_post eps c jid tid nid ok (proj1 I))) as (I' & E1 & _ & E3).
    apply post2_same; [reflexivity|exact I'|exact E1|exact E3].
  - (* Evict *)
    destruct (cycle_inv2 c _ jid tid I (evict_task_rep eps c jid tid ok (proj1 I))) as (I' & E1 & _ & E3).
    apply post2_same; [reflexivity|exact I'|exact E1|exact E3].
  - (* the pod disappears from the API server *)
    unfold handle, handle_with. case_bool_decide.
    + apply post2_same; [reflexivity| |reflexivity|apply nodes_ext_refl]. apply (inv2_frame c); auto.
    + apply post2_same; [reflexivity|exact I|reflexivity|apply nodes_ext_refl].
Qed.

Fixpoint hist_ok2 (h : list event) : Prop :=
  match h with [] => True | e :: r => step_ok2 e /\ hist_ok2 r end.

Lemma inv2_empty : Inv2 empty_cache.
Proof. apply inv_inv2. apply inv_empty. Qed.

(* Theorem (history_preserves_inv): ONE induction over the whole event alphabet -- informer
   events for pods, nodes, PodGroups and queues in any order, AddBindTask / Evict with any
   outcome (refusals, binder / pre-binder / evictor failures), pods vanishing from the API
   server ahead of their notification, and the two repair-queue drains at any point *)
Theorem history_preserves_inv h : forall c, Inv2 c -> hist_ok2 h -> Inv2 (run eps c h).
Proof.
  induction h as [|e r IH]; intros c I Hok; [exact I|].
  destruct Hok as [H1 H2]. simpl. apply IH; [|exact H2]. exact (proj1 (step_inv2 c e I H1)).
Qed.


(* ---------- failed binds / evictions are repaired by resynchronisation ---------- *)

Lemma delete_pod_errq c old : c_errq (delete_pod eps c old) = c_errq c.
Proof.
  unfold delete_pod. destruct (p_job old) as [j|]; [|reflexivity].
  destruct (c_jobs (delete_task c (Some j) _) !! j) as [cj|]; [|reflexivity].
  destruct (job_terminated cj); reflexivity.
Qed.

Lemma cleanup_fold_errq l : forall c keep,
  c_errq (fst (fold_left (fun (acc : cache * list (positive * Z)) k =>
                        let '(c1, retry) := cleanup_one (fst acc) k in
                        (c1, if retry then snd acc ++ [k] else snd acc)) l (c, keep))) = c_errq c.
Proof.
  induction l as [|k l IH]; intros c keep; simpl; [reflexivity|].
  assert (E : c_errq (fst (cleanup_one c k)) = c_errq c).
  { unfold cleanup_one. destruct (c_jobs c !! fst k) as [cj|]; [|reflexivity].
    destruct (job_terminated cj); [|reflexivity]. case_bool_decide; reflexivity. }
  destruct (cleanup_one c k) as [c1 retry]. cbn [fst] in *. rewrite IH. exact E.
Qed.

(* the informer events and the cleanup drain do not touch errTasks *)
Lemma handle_errq c e :
  match e with EBind _ _ _ _ | EEvict _ _ _ | EDrainResync => False | _ => True end ->
  c_errq (handle eps c e) = c_errq c.
Proof.
  intros He. destruct e; try contradiction; unfold handle, handle_with.
  - destruct (c_store c !! p_id p) as [old|]; simpl.
    + unfold update_pod. destruct (_ && _); [reflexivity|].
      unfold add_pod. rewrite add_task_errq. apply delete_pod_errq.
    + unfold add_pod. apply add_task_errq.
  - destruct (c_store c !! id) as [old|]; [|reflexivity]. simpl. apply delete_pod_errq.
  - reflexivity.
  - unfold remove_node, remove_node_ledger. destruct (c_nodes c !! id); [case_bool_decide|]; reflexivity.
  - reflexivity.
  - unfold delete_pod_group. destruct (c_jobs c !! id); reflexivity.
  - reflexivity.
  - reflexivity.
  - unfold drain_cleanup. pose proof (cleanup_fold_errq (c_delq c) c []) as H.
    destruct (fold_left _ (c_delq c) (c, [])) as [c' keep]. exact H.
  - case_bool_decide; reflexivity.
Qed.

Lemma elem_of_enq {A} `{EqDecision A} (q : list A) (k x : A) : x ∈ enq q k <-> x ∈ q \/ x = k.
Proof.
  unfold enq. case_bool_decide as Hin.
  - split; [auto|]. intros [Hx| ->]; auto.
  - rewrite elem_of_app, elem_of_list_singleton. reflexivity.
Qed.

(* a refused / failed AddBindTask leaves every changed task queued *)
Lemma bind_fail_pending c jid tid nid :
  Rep c -> Queued c -> Queued (fst (bind_task eps c jid tid nid false)).
Proof.
  intros R HP. unfold bind_task.
  destruct (c_jobs c !! jid) as [cj|] eqn:Hcj; [|exact HP].
  destruct (stored_task c (Some jid) tid) as [st|] eqn:Hst; [|exact HP].
  destruct (stored_task_facts c jid tid st R Hst) as (_ & _ & Hs & Hid & Hj & Hjn & Hw).
  destruct (c_nodes c !! nid) as [ni|]; [|exact HP].
  destruct (n_has_node ni) eqn:Hhas; cbn [negb]; [|exact HP].
  unfold job_set_status. cbn [fst snd].
  destruct (node_add eps ni (set_status st Binding)) as [[ni' t2]|err] eqn:Hadd.
  - cbn [fst]. intros i t. unfold Queued, QueuedIn in *. simpl.
    assert (Ht2 : t_job t2 = jid).
    { unfold node_add in Hadd. repeat case_bool_decide; try discriminate.
      destruct (n_has_node ni); simpl in Hadd; [|injection Hadd as _ <-; exact Hj].
      destruct (less_equal_names eps _ _ _); [|discriminate]. injection Hadd as _ <-. exact Hj. }
    destruct (decide (i = tid)) as [->|Hne].
    + rewrite lookup_insert. intros [= <-]. right. rewrite Ht2. apply elem_of_enq. auto.
    + rewrite lookup_insert_ne by congruence. intros Ht. destruct (HP i t Ht) as [Hl|Hr]; [left; exact Hl|].
      right. apply elem_of_enq. auto.
  - rewrite set_status_back. cbn [fst]. intros i t. simpl. rewrite (insert_id (c_heap c) tid st Hs). apply HP.
Qed.

Lemma evict_fail_pending c jid tid :
  Rep c -> Queued c -> Queued (fst (evict_task eps c jid tid false)).
Proof.
  intros R HP. unfold evict_task.
  destruct (c_jobs c !! jid) as [cj|] eqn:Hcj; [|exact HP].
  destruct (stored_task c (Some jid) tid) as [st|] eqn:Hst; [|exact HP].
  destruct (stored_task_facts c jid tid st R Hst) as (_ & _ & Hs & Hid & Hj & Hjn & Hw).
  destruct (t_node st) as [n|]; [|exact HP].
  destruct (c_nodes c !! n) as [ni|]; [|exact HP].
  destruct (cj_pg cj); cbn [negb]; [|exact HP].
  unfold job_set_status. cbn [fst snd].
  destruct (node_update eps ni (set_status st Releasing)) as [[ni' t2]|err] eqn:Hadd; [|exact HP].
  cbn [fst]. intros i t. unfold Queued, QueuedIn in *. simpl.
  assert (Ht2 : t_job t2 = jid).
  { unfold node_update, node_add in Hadd. repeat case_bool_decide; try discriminate.
    destruct (n_has_node (node_remove ni _)); simpl in Hadd; injection Hadd as _ <-; exact Hj. }
  destruct (decide (i = tid)) as [->|Hne].
  - rewrite lookup_insert. intros [= <-]. right. rewrite Ht2. apply elem_of_enq. auto.
  - rewrite lookup_insert_ne by congruence. intros Ht. destruct (HP i t Ht) as [Hl|Hr]; [left; exact Hl|].
    right. apply elem_of_enq. auto.
Qed.


(* the API rules plus: every bind / eviction attempt fails at the API (or is refused) *)
Definition step_ok3 (c : cache) (e : event) : Prop :=
  match e with
  | EPod p => pod_ok p /\ forall old, c_store c !! p_id p = Some old -> upd_ok old p
  | ENode v => sc (nv_base v) <> None
  | EPG g => g_id g <> no_job
  | EBind _ _ _ ok | EEvict _ _ ok => ok = false
  | _ => True
  end.

Lemma step_ok3_2 c e : step_ok3 c e -> step_ok2 e.
Proof. destruct e; simpl; tauto. Qed.

Lemma pending_frame c c' :
  c_heap c' = c_heap c -> c_store c' = c_store c -> c_errq c' = c_errq c -> Queued c -> Queued c'.
Proof. intros H1 H2 H3 HP. unfold Queued, QueuedIn. rewrite H1, H2, H3. exact HP. Qed.

(* Theorem: under any pattern of bind / evict failures, every task the cycle left different
   from its pod stays queued for a resync until it is resynced or its pod event arrives *)
Theorem step_pending c e : Inv2 c -> Queued c -> step_ok3 c e -> Queued (handle eps c e).
Proof.
  intros I HP Hok. pose proof I as (R & So & Co). destruct e; simpl in Hok.
  - (* pod add / update *)
    destruct Hok as [Hokp Hupd].
    destruct (pod_event_full c p I Hokp) as ((_ & Hst & _) & Hoth & Hid). cbn [store_after] in Hst.
    pose proof (handle_errq c (EPod p) Logic.I) as Hq.
    intros i t Ht. rewrite Hst, Hq. destruct (decide (i = p_id p)) as [->|Hne].
    + rewrite lookup_insert. destruct Hid as [Hnew|(Hsame & t0 & Ht0 & Hal & Hnn)].
      * rewrite Hnew in Ht. injection Ht as <-. left. eauto.
      * rewrite Hsame, Ht0 in Ht. injection Ht as <-.
        destruct (HP _ t0 Ht0) as [(old & Hold & ->)|Hr]; [|right; exact Hr]. exfalso.
        destruct (So _ _ Hold) as [_ Hokold].
        pose proof (allocated_needs_node old Hokold Hal) as Hn. rewrite (Hupd old Hold Hn) in Hnn. contradiction.
    + rewrite Hoth in Ht by exact Hne. rewrite lookup_insert_ne by congruence. exact (HP i t Ht).
  - (* pod delete *)
    destruct (pod_delete_inv2 c id I) as ((_ & Hst & _) & Hh). cbn [store_after] in Hst.
    pose proof (handle_errq c (EPodDel id) Logic.I) as Hq.
    intros i t Ht. rewrite Hst, Hq. rewrite Hh in Ht. destruct (c_store c !! id) as [old|] eqn:Hold.
    + rewrite lookup_delete_Some in Ht. destruct Ht as [Hne Ht]. rewrite lookup_delete_ne by congruence. exact (HP i t Ht).
    + rewrite delete_notin by exact Hold. exact (HP i t Ht).
  - apply (pending_frame c); auto.
  - pose proof (handle_errq c (ENodeDel id) Logic.I) as Hq.
    assert (E : c_heap (remove_node c id) = c_heap c /\ c_store (remove_node c id) = c_store c).
    { unfold remove_node, remove_node_ledger. destruct (c_nodes c !! id); [case_bool_decide|]; split; reflexivity. }
    destruct E as [E1 E2]. apply (pending_frame c); auto.
  - apply (pending_frame c); auto.
  - pose proof (handle_errq c (EPGDel id) Logic.I) as Hq.
    assert (E : c_heap (delete_pod_group c id) = c_heap c /\ c_store (delete_pod_group c id) = c_store c).
    { unfold delete_pod_group. destruct (c_jobs c !! id); split; reflexivity. }
    destruct E as [E1 E2]. apply (pending_frame c); auto.
  - apply (pending_frame c); auto.
  - apply (pending_frame c); auto.
  - destruct (drain_cleanup_inv2 c I) as (_ & (E1 & _) & Hh).
    apply (pending_frame c); auto. exact (handle_errq c EDrainCleanup Logic.I).
  - destruct (drain_resync_inv2 c I) as (_ & _ & _ & HS). intros i t Ht. left. exact (HS HP i t Ht).
  - subst ok. exact (bind_fail_pending c jid tid nid R HP).
  - subst ok. exact (evict_fail_pending c jid tid R HP).
  - pose proof (handle_errq c (EApiGone id) Logic.I) as Hq. unfold handle, handle_with in *.
    case_bool_decide; apply (pending_frame c); auto.
Qed.

Fixpoint hist_ok3 (c : cache) (h : list event) : Prop :=
  match h with [] => True | e :: r => step_ok3 c e /\ hist_ok3 (handle eps c e) r end.

Lemma history_pending h : forall c, Inv2 c -> Queued c -> hist_ok3 c h ->
  Inv2 (run eps c h) /\ Queued (run eps c h).
Proof.
  induction h as [|e r IH]; intros c I HP Hok; [auto|].
  destruct Hok as [H1 H2]. simpl. apply IH; [|apply step_pending; auto|exact H2].
  exact (proj1 (step_inv2 c e I (step_ok3_2 c e H1))).
Qed.

Lemma pending_empty : Queued empty_cache.
Proof. intros i t Ht. simpl in Ht. rewrite lookup_empty in Ht. discriminate. Qed.

(* Theorem (failed_bind_repaired / failed_evict_repaired, every pattern of failures): after ANY
   history of informer events, refused or failed AddBindTask / Evict attempts (binder,
   pre-binder or evictor errors), pods vanishing from the API server, and drains -- in any
   interleaving -- one resynchronisation drain leaves the invariant, an empty errTasks queue,
   and every held task equal to NewTaskInfo of its last delivered pod version *)
Theorem failures_repaired h :
  hist_ok3 empty_cache h ->
  let c := run eps empty_cache (h ++ [EDrainResync]) in
  Inv2 c /\ SyncedSub c /\ c_errq c = [].
Proof.
  intros Hok. unfold run. rewrite fold_left_app. simpl.
  destruct (history_pending h empty_cache inv2_empty pending_empty Hok) as [I HP].
  fold (run eps empty_cache h). set (c := run eps empty_cache h) in *.
  destruct (drain_resync_inv2 c I) as (I' & _ & Hq & HS). split; [exact I'|]. split; [exact (HS HP)|exact Hq].
Qed.

End Whole.

(* ---------- Snapshot ---------- *)

(* Theorem (what a snapshot contains): exactly the nodes that have a Node object (placeholders
   are skipped), each cloned; exactly the jobs that have a PodGroup whose queue exists, each
   cloned; the queues and the node list as they are.  Snapshot is a function of the cache state *)
Theorem snapshot_selection eps c :
  let s := take_snapshot eps c in
  (forall n, s_nodes s !! n =
     match c_nodes c !! n with
     | Some N => if n_has_node N then Some (clone_node eps (clone_alloc c n N) N) else None
     | None => None end) /\
  (forall j, s_jobs s !! j =
     match c_jobs c !! j with
     | Some cj => if in_snapshot c cj then Some (upd_job cj (clone_job (c_heap c) (cj_job cj))) else None
     | None => None end) /\
  s_queues s = c_queues c /\ s_nodelist s = c_nodelist c.
Proof.
  simpl. split; [|split; [|split; reflexivity]].
  - intros n. rewrite map_lookup_imap. destruct (c_nodes c !! n) as [N|]; reflexivity.
  - intros j. rewrite lookup_fmap. destruct (c_jobs c !! j) as [cj|] eqn:Hcj.
    + destruct (in_snapshot c cj) eqn:Hin.
      * erewrite (proj2 (map_filter_lookup_Some _ _ _ _)); [reflexivity|]. auto.
      * rewrite (proj2 (map_filter_lookup_None _ _ _)); [reflexivity|]. right. intros x Hx. cbn [snd].
        rewrite Hcj in Hx. injection Hx as <-. rewrite Hin. discriminate.
    + rewrite (proj2 (map_filter_lookup_None _ _ _)); [reflexivity|]. left. exact Hcj.
Qed.

(* JobInfo.Clone re-adds every task to a fresh JobInfo: the clone is the ledger of the same tasks *)
Lemma job_rep_of_filter T j X :
  JobRep (filter (fun kv => in_j j (snd kv) = true) T) j X -> JobRep T j X.
Proof.
  intros [Hid Hts Htot Hal].
  assert (Hacc : forall r (g : task -> bool), (forall t, g t = true -> in_j j t = true) ->
            acc_ok r g (filter (fun kv => in_j j (snd kv) = true) T) -> acc_ok r g T).
  { intros r g Hg [A B]. split.
    - intros d. rewrite A, tsum_filter. apply tsum_ext. intros i t _.
      destruct (g t) eqn:E; [rewrite (Hg t E); reflexivity|apply andb_false_r].
    - intros Hn i t Ht. destruct (g t) eqn:E; [|reflexivity].
      rewrite <- E. apply (B Hn i t). apply map_filter_lookup_Some. split; [exact Ht|exact (Hg t E)]. }
  split; [exact Hid| | |].
  - intros i. rewrite Hts. split; intros (t & Ht & Hj).
    + apply map_filter_lookup_Some in Ht. exists t. tauto.
    + exists t. split; [|exact Hj]. apply map_filter_lookup_Some. split; [exact Ht|].
      cbn [snd]. unfold in_j. rewrite bool_decide_eq_true. exact Hj.
  - apply Hacc; auto.
  - apply Hacc; [|exact Hal]. intros t Ht. apply andb_true_iff in Ht. tauto.
Qed.

Lemma clone_fold (T : gmap positive task) j l : forall acc (M : gmap positive task),
  NoDup l ->
  (forall i, i ∈ l -> M !! i = None /\ exists t, T !! i = Some t /\ t_job t = j /\ t_id t = i /\ task_wf t) ->
  JobRep M j acc ->
  JobRep (fold_left (fun m i => match T !! i with Some t => <[i := t]> m | None => m end) l M) j
         (fold_left (fun a i => match T !! i with Some t => job_add a t | None => a end) l acc).
Proof.
  induction l as [|i l IH]; intros acc M Hnd Hl HJ; [exact HJ|].
  simpl. apply NoDup_cons in Hnd. destruct Hnd as [Hni Hnd].
  destruct (Hl i ltac:(left)) as (HM & t & Ht & Hj & Hid & Hw). rewrite Ht.
  apply IH; [exact Hnd| |].
  - intros i' Hi'. destruct (Hl i' ltac:(right; exact Hi')) as (HM' & Hx). split; [|exact Hx].
    rewrite lookup_insert_ne; [exact HM'|]. intros ->. contradiction.
  - rewrite <- Hid. apply job_add_rep; auto. rewrite Hid. exact HM.
Qed.

Lemma fold_map_lookup (T : gmap positive task) l : forall (M : gmap positive task) i,
  fold_left (fun m i => match T !! i with Some t => <[i := t]> m | None => m end) l M !! i =
  if bool_decide (i ∈ l) then (match T !! i with Some t => Some t | None => M !! i end) else M !! i.
Proof.
  induction l as [|k l IH]; intros M i; cbn [fold_left].
  - rewrite bool_decide_eq_false_2 by set_solver. reflexivity.
  - rewrite IH. destruct (decide (i = k)) as [->|Hne].
    + rewrite (bool_decide_eq_true_2 (k ∈ k :: l)) by set_solver.
      destruct (T !! k) as [t|] eqn:Ht.
      * case_bool_decide; [reflexivity|apply lookup_insert].
      * case_bool_decide; reflexivity.
    + assert (Hiff : i ∈ k :: l <-> i ∈ l) by set_solver.
      rewrite (bool_decide_ext _ _ Hiff).
      destruct (T !! k) as [t|]; [|reflexivity]. rewrite lookup_insert_ne by congruence. reflexivity.
Qed.

(* Theorem (JobInfo.Clone): in a cache satisfying the invariant, the clone of a job that goes
   into a snapshot is again the ledger of exactly the job's tasks -- same members, same
   TotalRequest and Allocated amounts as the cache's own entry *)
Theorem clone_job_rep c j cj :
  Rep c -> c_jobs c !! j = Some cj -> JobRep (c_heap c) j (clone_job (c_heap c) (cj_job cj)).
Proof.
  intros R Hcj. pose proof (rp_jobs c R j cj Hcj) as HJ. set (T := c_heap c) in *. set (J := cj_job cj) in *.
  apply job_rep_of_filter. unfold clone_job.
  set (l := elements (j_tasks J)).
  assert (Hl : forall i, i ∈ l -> (∅ : gmap positive task) !! i = None /\
                 exists t, T !! i = Some t /\ t_job t = j /\ t_id t = i /\ task_wf t).
  { intros i Hi. split; [apply lookup_empty|]. apply elem_of_elements in Hi.
    apply (jr_tasks _ _ _ HJ) in Hi. destruct Hi as (t & Ht & Hj). exists t.
    destruct (rp_wf c R i t Ht). auto. }
  assert (H0 : JobRep ∅ j (mkJob (j_id J) (j_queue J) (j_min J) (j_role_min J) (j_role_total J) ∅ ∅ empty_res empty_res ∅ ∅)).
  { split; [exact (jr_id _ _ _ HJ)| |apply acc_empty|apply acc_empty].
    intros i. simpl. split; [set_solver|]. intros (t & Ht & _). rewrite lookup_empty in Ht. discriminate. }
  pose proof (clone_fold T j l _ ∅ (NoDup_elements _) Hl H0) as HF.
  replace (filter (fun kv => in_j j (snd kv) = true) T)
    with (fold_left (fun (m : gmap positive task) i => match T !! i with Some t => <[i := t]> m | None => m end) l (∅ : gmap positive task)); [exact HF|].
  apply map_eq. intros i. rewrite fold_map_lookup, lookup_empty.
  destruct (T !! i) as [t|] eqn:Ht.
  - case_bool_decide as Hin.
    + symmetry. apply map_filter_lookup_Some. split; [exact Ht|]. cbn [snd].
      apply elem_of_elements, (jr_tasks _ _ _ HJ) in Hin. destruct Hin as (t' & Ht' & Hj).
      rewrite Ht in Ht'. injection Ht' as <-. unfold in_j. rewrite bool_decide_eq_true. exact Hj.
    + symmetry. apply map_filter_lookup_None. right. intros x Hx. cbn [snd]. rewrite Ht in Hx. injection Hx as <-.
      unfold in_j. rewrite bool_decide_eq_true. intros Hj. apply Hin. apply elem_of_elements, (jr_tasks _ _ _ HJ). eauto.
  - rewrite (proj2 (map_filter_lookup_None _ _ _)) by (left; exact Ht). case_bool_decide; reflexivity.
Qed.
